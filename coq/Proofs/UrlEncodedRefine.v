(* The model's SearchParams initialisation (Model/Api.v sp_init, Go's searchParams.init) against the
   application/x-www-form-urlencoded parser of the URL Standard (Spec/UrlEncoded.v urlencoded_parse):

   - byte level: without the Latin-1 override, sp_init is the standard's parser up to the final
     "UTF-8 decode without BOM": splitting on '&', skipping empty sequences, cutting at the first '=',
     '+' to space and percent-decoding coincide on EVERY query (sp_init_bytes);
   - the final step differs: Go reads the bytes with []rune / utf8.ValidString (one U+FFFD per offending
     byte), the Encoding Standard's decoder emits one U+FFFD per maximal ill-formed subpart. Hence the
     equation "sp_init = UTF-8 of urlencoded_parse" is FALSE in general (sp_init_is_urlencoded_parse_refuted),
     true exactly when the two decoders agree on every percent-decoded name and value
     (sp_init_is_urlencoded_parse_iff), in particular when these are valid UTF-8 (sp_init_is_urlencoded_parse),
     and on every query the two results agree after collapsing runs of U+FFFD (sp_init_urlencoded_parse_squash). *)
From Verif Require Import Lib.Base Lib.Utf8 Lib.GoStr Model.Cfg Gen.Tables Gen.Options Model.Sets Model.Percent
  Model.Url Model.Host Model.Machine Model.Api.
From Verif Require Import Spec.PercentSets Spec.PercentCodec Spec.UrlEncoded.
From Verif Require Import Proofs.Utf8Proofs Proofs.RefineUtf8 Proofs.RefineUtf8Dec Proofs.RefineCodec Proofs.SearchParamsProofs.
From Coq Require Import Lia ZifyBool ZifyN ZifyNat.
Ltac Zify.zify_post_hook ::= Z.div_mod_to_equations.

Local Arguments N.mul : simpl never.
Local Arguments N.add : simpl never.
Local Arguments N.sub : simpl never.
Local Arguments N.div : simpl never.
Local Arguments N.modulo : simpl never.
Local Arguments N.eqb : simpl never.
Local Arguments N.ltb : simpl never.
Local Arguments N.leb : simpl never.

(* ====================================================================================== *)
(* 0. vocabulary                                                                          *)
(* ====================================================================================== *)

(* apply one function to both components of a name-value tuple *)
Definition both {A B} (f : A -> B) (p : A * A) : B * B := (f (fst p), f (snd p)).

(* scalar value string -> bytes: the UTF-8 encoding of each code point (Spec.PercentCodec.utf8_encode) *)
Definition utf8_of_codepoints (s : list N) : list N := utf8_encode s.
(* bytes -> string: the Encoding Standard's "UTF-8 decode without BOM" *)
Definition codepoints_of_utf8 (s : list N) : list N := utf8_decode_without_bom s.

Lemma utf8_of_codepoints_is l : utf8_of_codepoints l = encode_runes l.
Proof. reflexivity. Qed.

Lemma both_both {A B C} (f : A -> B) (g : B -> C) p : both g (both f p) = both (fun x => g (f x)) p.
Proof. reflexivity. Qed.

Lemma map_flat_map {A B C} (g : B -> C) (h : A -> list B) l :
  map g (flat_map h l) = flat_map (fun x => map g (h x)) l.
Proof. induction l as [|x l IH]; [reflexivity|]. cbn [flat_map]. rewrite map_app, IH. reflexivity. Qed.

(* ====================================================================================== *)
(* 1. the standard's parser, cut before its last step                                     *)
(* ====================================================================================== *)

(* steps 3.1-3.4 and the percent-decoding of step 3.5, for one byte sequence *)
Definition raw_elem (bytes : list N) : list (list N * list N) :=
  match bytes with
  | [] => []
  | _ =>
      let '(name, value) :=
        match split_at_first_eq bytes [] with
        | Some nv => nv
        | None => (bytes, [])
        end in
      [(percent_decode (UrlEncoded.plus_to_space name), percent_decode (UrlEncoded.plus_to_space value))]
  end.

(* names and values as BYTE sequences: everything but "UTF-8 decode without BOM" *)
Definition urlencoded_parse_bytes (input : list N) : list (list N * list N) :=
  flat_map raw_elem (strictly_split 38 input).

(* the standard's parser is the byte-level parser followed by the decoder, on each name and value *)
Theorem urlencoded_parse_bytes_spec : forall q,
  urlencoded_parse q = map (both utf8_decode_without_bom) (urlencoded_parse_bytes q).
Proof.
  intros q. unfold urlencoded_parse, urlencoded_parse_bytes. rewrite map_flat_map.
  apply flat_map_ext. intros bytes. unfold raw_elem.
  destruct bytes as [|b t]; [reflexivity|].
  destruct (split_at_first_eq (b :: t) []) as [[n v]|]; reflexivity.
Qed.

(* ====================================================================================== *)
(* 2. Go's strings.Split / SplitN / ReplaceAll are the standard's splitting steps          *)
(* ====================================================================================== *)

Lemma split_aux_same sep s : forall cur, GoStr.split_aux sep s cur = strictly_split_aux sep s cur.
Proof. induction s as [|b s IH]; intros cur; [reflexivity|]. cbn [split_aux strictly_split_aux]. rewrite !IH. reflexivity. Qed.

Lemma split_same sep s : GoStr.split sep s = strictly_split sep s.
Proof. apply split_aux_same. Qed.

Lemma cut_aux_same s : forall cur,
  cut_aux 61 s cur =
  match split_at_first_eq s cur with
  | Some (a, b) => (a, Some b)
  | None => (rev cur ++ s, None)
  end.
Proof.
  induction s as [|b s IH]; intros cur.
  - cbn [cut_aux split_at_first_eq]. rewrite app_nil_r. reflexivity.
  - cbn [cut_aux split_at_first_eq]. destruct (b =? 61) eqn:E; [reflexivity|].
    rewrite IH. destruct (split_at_first_eq s (b :: cur)) as [[a v]|]; [reflexivity|].
    cbn [rev]. rewrite <- app_assoc. reflexivity.
Qed.

Lemma cut_same s :
  cut 61 s = match split_at_first_eq s [] with Some (a, b) => (a, Some b) | None => (s, None) end.
Proof. unfold cut. rewrite cut_aux_same. reflexivity. Qed.

Lemma plus_same s : GoStr.plus_to_space s = UrlEncoded.plus_to_space s.
Proof. reflexivity. Qed.

Lemma sp_scalar_nil' c : sp_scalar c [] = [].
Proof. unfold sp_scalar. destruct (c_acceptInvalid c || valid_utf8 []); reflexivity. Qed.

(* ====================================================================================== *)
(* 3. byte level: sp_init is the standard's parser, with sp_scalar in place of the decoder *)
(* ====================================================================================== *)

Theorem sp_init_bytes : forall c q, c_latin1 c = false ->
  sp_init c q = map (both (sp_scalar c)) (urlencoded_parse_bytes q).
Proof.
  intros c q HL. unfold sp_init, urlencoded_parse_bytes. rewrite split_same, map_flat_map.
  apply flat_map_ext. intros bytes. unfold raw_elem.
  destruct bytes as [|b t]; [reflexivity|].
  rewrite cut_same. destruct (split_at_first_eq (b :: t) []) as [[n v]|].
  - unfold both. cbn [map fst snd]. rewrite !R2_decode by exact HL. reflexivity.
  - unfold both. cbn [map fst snd]. rewrite !R2_decode by exact HL.
    change (percent_decode (UrlEncoded.plus_to_space [])) with (@nil N). rewrite sp_scalar_nil'. reflexivity.
Qed.
Print Assumptions sp_init_bytes.

(* SearchParams.toScalarValueString without acceptInvalidCodepoints: decode as []rune, encode again *)
Lemma sp_scalar_strict c s : c_acceptInvalid c = false -> sp_scalar c s = utf8_of_codepoints (runes s).
Proof.
  intros HA. unfold sp_scalar. rewrite HA. cbn [orb].
  destruct (valid_utf8 s) eqn:E; [|reflexivity].
  symmetry. apply (to_valid_of_valid s E).
Qed.

(* the model's list: the standard's algorithm with Go's decoder ([]rune conversion) as the last step *)
Theorem sp_init_go_decoder : forall c q, c_latin1 c = false -> c_acceptInvalid c = false ->
  sp_init c q = map (both utf8_of_codepoints) (map (both runes) (urlencoded_parse_bytes q)).
Proof.
  intros c q HL HA. rewrite sp_init_bytes by exact HL. rewrite map_map.
  apply map_ext. intros [n v]. unfold both. cbn [fst snd]. rewrite !sp_scalar_strict by exact HA. reflexivity.
Qed.
Print Assumptions sp_init_go_decoder.

(* ====================================================================================== *)
(* 4. Go's []rune conversion against the Encoding Standard's UTF-8 decoder, on ALL inputs  *)
(* ====================================================================================== *)

Notation wdec := utf8_decode_without_bom.

(* a byte outside the bounds while a sequence is pending: one error, the byte is decoded afresh *)
Lemma step_cont_bad' b rest cp seen n lo hi : (lo <=? b) && (b <=? hi) = false ->
  utf8_decode_items (b :: rest) cp seen (S n) lo hi = DErr :: items (b :: rest).
Proof. intros H. unfold items. cbn [utf8_decode_items]. rewrite H. reflexivity. Qed.

(* what Go checks after a lead byte: k continuation bytes, the first within [lo, hi] *)
Fixpoint conts_ok (k : nat) (lo hi : N) (rest : list N) : bool :=
  match k with
  | O => true
  | S k' => match rest with
            | [] => false
            | b :: r => ((lo <=? b) && (b <=? hi)) && conts_ok k' 128 191 r
            end
  end.

(* if that check fails, the standard's decoder consumes the continuation bytes that were acceptable
   (fewer than k), reports ONE error and starts afresh on what follows *)
Lemma pending_fail : forall k rest cp seen needed lo hi,
  needed = (seen + k)%nat -> 128 <= lo -> hi <= 191 -> conts_ok k lo hi rest = false ->
  exists pre suf, rest = pre ++ suf /\ (length pre < k)%nat /\ Forall (fun x => is_cont x = true) pre /\
    utf8_decode_items rest cp seen needed lo hi = DErr :: items suf.
Proof.
  induction k as [|k IH]; intros rest cp seen needed lo hi Hn Hlo Hhi Hok; [discriminate Hok|].
  rewrite Nat.add_succ_r in Hn. subst needed.
  destruct rest as [|b r].
  - exists [], []. repeat split; [cbn [length]; lia | constructor].
  - cbn [conts_ok] in Hok. destruct ((lo <=? b) && (b <=? hi)) eqn:C.
    + cbn [andb] in Hok. rewrite (step_cont_ok _ _ _ _ _ _ _ C).
      destruct k as [|k']; [discriminate Hok|].
      replace (Nat.eqb seen (seen + S k')) with false by (symmetry; apply Nat.eqb_neq; lia).
      destruct (IH r (cp * 64 + (b - 128)) (S seen) (S (seen + S k')) 128 191) as (pre & suf & E & L & F & I);
        [lia | lia | lia | exact Hok |].
      exists (b :: pre), suf. subst r. repeat split.
      * cbn [length]. lia.
      * constructor; [unfold is_cont; lia | exact F].
      * exact I.
    + exists [], (b :: r). repeat split; [cbn [length]; lia | constructor |].
      apply step_cont_bad'. exact C.
Qed.

(* Go's dec1 answers Bad exactly in these situations *)
Lemma dec1_bad_shape b0 rest b rest' : dec1 b0 rest = (Bad b, rest') ->
  b0 <? 128 = false /\
  (((194 <=? b0) && (b0 <=? 223) = true /\ conts_ok 1 128 191 rest = false) \/
   ((224 <=? b0) && (b0 <=? 239) = true /\
    conts_ok 2 (if b0 =? 224 then 160 else 128) (if b0 =? 237 then 159 else 191) rest = false) \/
   ((240 <=? b0) && (b0 <=? 244) = true /\
    conts_ok 3 (if b0 =? 240 then 144 else 128) (if b0 =? 244 then 143 else 191) rest = false) \/
   ((194 <=? b0) && (b0 <=? 223) = false /\ (224 <=? b0) && (b0 <=? 239) = false /\
    (240 <=? b0) && (b0 <=? 244) = false)).
Proof.
  unfold dec1, in_rng, is_cont. cbv zeta.
  destruct (b0 <? 128) eqn:E1; [intros H; discriminate H|].
  intros H. split; [reflexivity|].
  destruct ((194 <=? b0) && (b0 <=? 223)) eqn:E2.
  { left. split; [reflexivity|]. cbn [conts_ok].
    destruct rest as [|b1 r1]; [reflexivity|].
    destruct ((128 <=? b1) && (b1 <=? 191)); [discriminate H | reflexivity]. }
  destruct ((224 <=? b0) && (b0 <=? 239)) eqn:E3.
  { right; left. split; [reflexivity|]. cbn [conts_ok].
    destruct rest as [|b1 [|b2 r2]]; [reflexivity | rewrite andb_false_r; reflexivity |].
    rewrite andb_true_r.
    destruct (((if b0 =? 224 then 160 else 128) <=? b1) && (b1 <=? (if b0 =? 237 then 159 else 191)) &&
              ((128 <=? b2) && (b2 <=? 191))); [discriminate H | reflexivity]. }
  destruct ((240 <=? b0) && (b0 <=? 244)) eqn:E4.
  { right; right; left. split; [reflexivity|]. cbn [conts_ok].
    destruct rest as [|b1 [|b2 [|b3 r3]]];
      [reflexivity | rewrite andb_false_r; reflexivity | rewrite !andb_false_r; reflexivity |].
    rewrite andb_true_r.
    destruct (((if b0 =? 240 then 144 else 128) <=? b1) && (b1 <=? (if b0 =? 244 then 143 else 191)))
      eqn:C1; cbn [andb] in *; [|reflexivity].
    destruct ((128 <=? b2) && (b2 <=? 191)) eqn:C2; cbn [andb] in *; [|reflexivity].
    destruct ((128 <=? b3) && (b3 <=? 191)) eqn:C3; cbn [andb] in *; [discriminate H | reflexivity]. }
  right; right; right. repeat split.
Qed.

(* ... and then the standard's decoder reports one error and resumes after at most two continuation
   bytes, each of which Go reads as one more U+FFFD *)
Lemma dec1_items_bad b0 rest b rest' : dec1 b0 rest = (Bad b, rest') ->
  exists pre suf, rest = pre ++ suf /\ (length pre <= 2)%nat /\ Forall (fun x => is_cont x = true) pre /\
    items (b0 :: rest) = DErr :: items suf.
Proof.
  intros H. destruct (dec1_bad_shape _ _ _ _ H) as [E1 [[E2 K]|[[E3 K]|[[E4 K]|(E2 & E3 & E4)]]]].
  - rewrite (step_lead2 _ _ E2).
    destruct (pending_fail 1 rest (b0 - 192) 0 1 128 191) as (pre & suf & A & B & C & D);
      [reflexivity | lia | lia | exact K |].
    exists pre, suf. repeat split; [exact A | lia | exact C | exact D].
  - rewrite (step_lead3 _ _ E3).
    destruct (pending_fail 2 rest (b0 - 224) 0 2 (if b0 =? 224 then 160 else 128) (if b0 =? 237 then 159 else 191))
      as (pre & suf & A & B & C & D);
      [reflexivity | destruct (b0 =? 224); lia | destruct (b0 =? 237); lia | exact K |].
    exists pre, suf. repeat split; [exact A | lia | exact C | exact D].
  - rewrite (step_lead4 _ _ E4).
    destruct (pending_fail 3 rest (b0 - 240) 0 3 (if b0 =? 240 then 144 else 128) (if b0 =? 244 then 143 else 191))
      as (pre & suf & A & B & C & D);
      [reflexivity | destruct (b0 =? 240); lia | destruct (b0 =? 244); lia | exact K |].
    exists pre, suf. repeat split; [exact A | lia | exact C | exact D].
  - exists [], rest. repeat split; [cbn [length]; lia | constructor |].
    apply step_bad_lead; assumption.
Qed.

(* Go: a continuation byte in lead position is one U+FFFD *)
Lemma decode_cont_cons x t : is_cont x = true -> decode (x :: t) = Bad x :: decode t.
Proof.
  intros H. apply decode_cons. unfold is_cont in H. unfold dec1, in_rng.
  replace (x <? 128) with false by lia.
  replace ((194 <=? x) && (x <=? 223)) with false by lia.
  replace ((224 <=? x) && (x <=? 239)) with false by lia.
  replace ((240 <=? x) && (x <=? 244)) with false by lia. reflexivity.
Qed.

Lemma runes_conts pre suf : Forall (fun x => is_cont x = true) pre ->
  runes (pre ++ suf) = repeat 65533 (length pre) ++ runes suf.
Proof.
  induction 1 as [|x pre Hx _ IH]; [reflexivity|].
  cbn [app length repeat]. unfold runes in *. rewrite (decode_cont_cons _ _ Hx). cbn [map rv]. rewrite IH. reflexivity.
Qed.

(* collapse every run of U+FFFD to a single U+FFFD *)
Definition cons_sq (c : N) (l : list N) : list N :=
  if (c =? 65533) && match l with c' :: _ => c' =? 65533 | [] => false end then l else c :: l.
Definition squash (l : list N) : list N := fold_right cons_sq [] l.

Lemma squash_cons c l : squash (c :: l) = cons_sq c (squash l).
Proof. reflexivity. Qed.

Lemma cons_sq_fffd_head l : exists t, cons_sq 65533 l = 65533 :: t.
Proof.
  destruct l as [|c' l']; unfold cons_sq; change (65533 =? 65533) with true; cbn [andb]; [eexists; reflexivity|].
  destruct (c' =? 65533) eqn:E; [apply N.eqb_eq in E; subst c' |]; eexists; reflexivity.
Qed.

Lemma cons_sq_fffd_on_head t : cons_sq 65533 (65533 :: t) = 65533 :: t.
Proof. reflexivity. Qed.

Lemma cons_sq_fffd_idem l : cons_sq 65533 (cons_sq 65533 l) = cons_sq 65533 l.
Proof. destruct (cons_sq_fffd_head l) as [t ->]. apply cons_sq_fffd_on_head. Qed.

Lemma squash_repeat_fffd k l : cons_sq 65533 (squash (repeat 65533 k ++ l)) = cons_sq 65533 (squash l).
Proof.
  induction k as [|k IH]; [reflexivity|].
  cbn [repeat app]. rewrite squash_cons, cons_sq_fffd_idem. exact IH.
Qed.

Lemma length_cons_sq c l : (length (cons_sq c l) <= S (length l))%nat.
Proof. unfold cons_sq. destruct (_ && _); cbn [length]; lia. Qed.

(* THE relation between the two decoders, for every byte sequence *)
Theorem go_vs_whatwg_decoder : forall s,
  squash (runes s) = squash (wdec s) /\
  Forall scalar (wdec s) /\
  (length (wdec s) <= length (runes s))%nat /\
  filter (fun c => negb (c =? 65533)) (runes s) = filter (fun c => negb (c =? 65533)) (wdec s).
Proof.
  intros s. induction s as [s IH] using list_len_ind.
  destruct s as [|b0 rest].
  { repeat split. constructor. cbn. lia. }
  destruct (dec1 b0 rest) as [r rest'] eqn:E.
  destruct r as [c|b].
  - pose proof (dec1_items b0 rest) as G. rewrite E in G.
    assert (L : (length rest' < length (b0 :: rest))%nat) by (apply dec1_len in E; cbn [length]; lia).
    destruct (IH rest' L) as (I1 & I2 & I3 & I4).
    unfold runes in *. rewrite (decode_cons _ _ _ _ E). rewrite !without_bom_items in *. rewrite G.
    cbn [map rv item_val]. repeat split.
    + rewrite !squash_cons, I1. reflexivity.
    + constructor; [exact (dec1_scalar _ _ _ _ E) | exact I2].
    + cbn [length]. lia.
    + cbn [filter]. rewrite I4. reflexivity.
  - destruct (dec1_items_bad _ _ _ _ E) as (pre & suf & A & B & C & D).
    assert (L : (length suf < length (b0 :: rest))%nat).
    { subst rest. cbn [length]. rewrite app_length. lia. }
    destruct (IH suf L) as (I1 & I2 & I3 & I4).
    assert (R : runes (b0 :: rest) = 65533 :: repeat 65533 (length pre) ++ runes suf).
    { pose proof (dec1_bad _ _ _ _ E) as (_ & -> & _).
      unfold runes at 1. rewrite (decode_cons _ _ _ _ E). cbn [map rv]. fold (runes rest).
      subst rest. rewrite (runes_conts _ _ C). reflexivity. }
    rewrite R. rewrite !without_bom_items in *. rewrite D. cbn [map item_val]. repeat split.
    + rewrite !squash_cons. rewrite squash_repeat_fffd, I1. reflexivity.
    + constructor; [exact scalar_rune_error | exact I2].
    + cbn [length]. rewrite app_length, repeat_length. lia.
    + cbn [filter]. change (negb (65533 =? 65533)) with false. cbv iota.
      rewrite filter_app.
      assert (Z : forall k, filter (fun c => negb (c =? 65533)) (repeat 65533 k) = []).
      { induction k as [|k IHk]; [reflexivity|]. cbn [repeat filter]. change (negb (65533 =? 65533)) with false. exact IHk. }
      rewrite Z. exact I4.
Qed.
Print Assumptions go_vs_whatwg_decoder.

Corollary squash_runes_wdec s : squash (runes s) = squash (wdec s).
Proof. apply go_vs_whatwg_decoder. Qed.
Corollary wdec_scalar s : Forall scalar (wdec s).
Proof. apply go_vs_whatwg_decoder. Qed.

Example go_vs_whatwg_decoder_ex :
  runes [65; 226; 130; 66; 240; 159; 152; 255; 195; 169] = [65; 65533; 65533; 66; 65533; 65533; 65533; 65533; 233] /\
  wdec [65; 226; 130; 66; 240; 159; 152; 255; 195; 169] = [65; 65533; 66; 65533; 65533; 233] /\
  squash (runes [65; 226; 130; 66; 240; 159; 152; 255; 195; 169]) = [65; 65533; 66; 65533; 233].
Proof. vm_compute. repeat split; reflexivity. Qed.

(* ====================================================================================== *)
(* 5. sp_init against urlencoded_parse                                                     *)
(* ====================================================================================== *)

(* the UTF-8 encoding is injective on scalar value strings *)
Lemma utf8_of_codepoints_inj a b : Forall scalar a -> Forall scalar b ->
  utf8_of_codepoints a = utf8_of_codepoints b -> a = b.
Proof.
  intros Ha Hb E. rewrite <- (runes_encode_runes a Ha), <- (runes_encode_runes b Hb).
  rewrite <- !utf8_of_codepoints_is, E. reflexivity.
Qed.

(* the two decoders give the same string for every percent-decoded name and value of the query *)
Definition decoders_agree_on (q : list N) : Prop :=
  Forall (fun nv => runes (fst nv) = wdec (fst nv) /\ runes (snd nv) = wdec (snd nv)) (urlencoded_parse_bytes q).

(* every percent-decoded name and value of the query is valid UTF-8 *)
Definition utf8_ok_query (q : list N) : bool :=
  forallb (fun nv => valid_utf8 (fst nv) && valid_utf8 (snd nv)) (urlencoded_parse_bytes q).

Lemma utf8_ok_agree q : utf8_ok_query q = true -> decoders_agree_on q.
Proof.
  unfold utf8_ok_query, decoders_agree_on. rewrite forallb_forall, Forall_forall.
  intros H nv Hin. specialize (H nv Hin). apply andb_true_iff in H. destruct H as [H1 H2].
  split; symmetry; apply whatwg_decode_valid; assumption.
Qed.

(* decidable form *)
Definition decoders_agree_onb (q : list N) : bool :=
  forallb (fun nv => list_eqb N.eqb (runes (fst nv)) (wdec (fst nv)) && list_eqb N.eqb (runes (snd nv)) (wdec (snd nv)))
    (urlencoded_parse_bytes q).

Lemma decoders_agree_onb_spec q : decoders_agree_onb q = true <-> decoders_agree_on q.
Proof.
  unfold decoders_agree_onb, decoders_agree_on. rewrite forallb_forall, Forall_forall.
  split; intros H nv Hin; specialize (H nv Hin).
  - apply andb_true_iff in H. destruct H as [H1 H2]. split; apply list_eqb_N_eq; assumption.
  - destruct H as [H1 H2]. apply andb_true_iff. split; apply list_eqb_N_eq; assumption.
Qed.

(* EXACTLY when the model's list is the standard's (UTF-8 encoded) *)
Theorem sp_init_is_urlencoded_parse_iff : forall c q,
  c_latin1 c = false -> c_acceptInvalid c = false ->
  (sp_init c q = map (both utf8_of_codepoints) (urlencoded_parse q) <-> decoders_agree_on q).
Proof.
  intros c q HL HA. rewrite sp_init_go_decoder by assumption. rewrite urlencoded_parse_bytes_spec.
  unfold decoders_agree_on. induction (urlencoded_parse_bytes q) as [|[n v] L IH].
  - split; [constructor | reflexivity].
  - cbn [map]. split.
    + intros H. injection H as H1 H2 H3. constructor.
      * cbn [fst snd]. split; apply utf8_of_codepoints_inj; try assumption;
          first [apply runes_scalar | apply wdec_scalar].
      * apply IH. exact H3.
    + intros H. inversion H as [|x y [H1 H2] H3]; subst. cbn [fst snd] in H1, H2.
      f_equal.
      * unfold both. cbn [fst snd]. rewrite H1, H2. reflexivity.
      * apply IH. exact H3.
Qed.
Print Assumptions sp_init_is_urlencoded_parse_iff.

(* the statement of the task; the premise on the query is forced (see the refutation below), the
   premise c_acceptInvalid c = false is not needed here, nor is anything about c_skipEq *)
Theorem sp_init_is_urlencoded_parse : forall c q,
  c_latin1 c = false -> utf8_ok_query q = true ->
  sp_init c q = map (fun nv => (utf8_of_codepoints (fst nv), utf8_of_codepoints (snd nv))) (urlencoded_parse q).
Proof.
  intros c q HL HV. rewrite sp_init_bytes by exact HL. rewrite urlencoded_parse_bytes_spec, map_map.
  unfold utf8_ok_query in HV. rewrite forallb_forall in HV.
  apply map_ext_in. intros [n v] Hin. specialize (HV _ Hin). cbn [fst snd] in HV.
  apply andb_true_iff in HV. destruct HV as [H1 H2].
  unfold both, sp_scalar. cbn [fst snd]. rewrite H1, H2, !orb_true_r.
  unfold utf8_of_codepoints, utf8_encode. rewrite !whatwg_decode_encode_valid by assumption. reflexivity.
Qed.
Print Assumptions sp_init_is_urlencoded_parse.

(* without acceptInvalidCodepoints the weaker premise "the decoders agree" suffices *)
Corollary sp_init_is_urlencoded_parse_agree : forall c q,
  c_latin1 c = false -> c_acceptInvalid c = false -> decoders_agree_on q ->
  sp_init c q = map (both utf8_of_codepoints) (urlencoded_parse q).
Proof. intros c q HL HA H. apply sp_init_is_urlencoded_parse_iff; assumption. Qed.

(* the unconditional statement of the task is FALSE: a truncated three-byte sequence "%E2%82A" is
   U+FFFD U+FFFD A for Go and U+FFFD A for the standard *)
Definition sp_init_is_urlencoded_parse_full : Prop := forall c q,
  c_latin1 c = false -> c_acceptInvalid c = false ->
  sp_init c q = map (both utf8_of_codepoints) (urlencoded_parse q).

Theorem sp_init_is_urlencoded_parse_refuted : ~ sp_init_is_urlencoded_parse_full.
Proof.
  intros H. specialize (H default_cfg [37;69;50;37;56;50;65] eq_refl eq_refl).
  vm_compute in H. discriminate H.
Qed.

Example sp_init_is_urlencoded_parse_refuted_values :
  sp_init default_cfg [37;69;50;37;56;50;65] = [([239;191;189; 239;191;189; 65], [])] /\
  map (both utf8_of_codepoints) (urlencoded_parse [37;69;50;37;56;50;65]) = [([239;191;189; 65], [])] /\
  urlencoded_parse [37;69;50;37;56;50;65] = [([65533; 65], [])].
Proof. vm_compute. repeat split; reflexivity. Qed.

(* what holds on EVERY query: same number of pairs, and names/values agree up to runs of U+FFFD *)
Theorem sp_init_urlencoded_parse_length : forall c q, c_latin1 c = false ->
  length (sp_init c q) = length (urlencoded_parse q).
Proof. intros c q HL. rewrite sp_init_bytes by exact HL. rewrite urlencoded_parse_bytes_spec, !map_length. reflexivity. Qed.

(* reading the model's strings as Go does ([]rune) undoes toScalarValueString, whatever the options *)
Lemma runes_sp_scalar c s : runes (sp_scalar c s) = runes s.
Proof. unfold sp_scalar. destruct (c_acceptInvalid c || valid_utf8 s); [reflexivity | apply runes_to_valid]. Qed.

Theorem sp_init_runes : forall c q, c_latin1 c = false ->
  map (both runes) (sp_init c q) = map (both runes) (urlencoded_parse_bytes q).
Proof.
  intros c q HL. rewrite sp_init_bytes by exact HL. rewrite map_map.
  apply map_ext. intros [n v]. unfold both. cbn [fst snd]. rewrite !runes_sp_scalar. reflexivity.
Qed.

(* no premise on acceptInvalidCodepoints here *)
Theorem sp_init_urlencoded_parse_squash : forall c q, c_latin1 c = false ->
  map (both (fun s => squash (runes s))) (sp_init c q) = map (both squash) (urlencoded_parse q).
Proof.
  intros c q HL.
  change (map (both (fun s => squash (runes s))) (sp_init c q))
    with (map (fun p => both squash (both runes p)) (sp_init c q)).
  rewrite <- (map_map (both runes) (both squash)). rewrite sp_init_runes by exact HL.
  rewrite urlencoded_parse_bytes_spec, !map_map.
  apply map_ext. intros [n v]. unfold both. cbn [fst snd].
  rewrite !squash_runes_wdec. reflexivity.
Qed.
Print Assumptions sp_init_urlencoded_parse_squash.

(* the premise is needed: with the Latin-1 override "%E9" is e-acute for the model, U+FFFD for the standard *)
Theorem sp_init_urlencoded_parse_squash_latin1_needed :
  exists q, map (both (fun s => squash (runes s))) (sp_init (cfg_with default_cfg false true false) q)
            <> map (both squash) (urlencoded_parse q).
Proof. exists [37;69;57]. vm_compute. discriminate. Qed.

(* ---------- the premises are satisfiable; each one is needed ---------- *)

(* "a+b=%zz&%C3%A9=%F0%9F%98%80&a=b=c&&=x" *)
Example sp_init_is_urlencoded_parse_premises :
  c_latin1 default_cfg = false /\
  utf8_ok_query [97;43;98;61;37;122;122;38;37;67;51;37;65;57;61;37;70;48;37;57;70;37;57;56;37;56;48;38;97;61;98;61;99;38;38;61;120] = true.
Proof. split; vm_compute; reflexivity. Qed.

(* c_latin1: "%C3%A9" *)
Theorem sp_init_is_urlencoded_parse_latin1_needed :
  exists q, utf8_ok_query q = true /\
    sp_init (cfg_with default_cfg false true false) q <> map (both utf8_of_codepoints) (urlencoded_parse q).
Proof. exists [37;67;51;37;65;57]. split; [vm_compute; reflexivity | vm_compute; discriminate]. Qed.

(* the premise on the query: see sp_init_is_urlencoded_parse_refuted; as an existence statement *)
Theorem sp_init_is_urlencoded_parse_utf8_needed :
  exists q, sp_init default_cfg q <> map (both utf8_of_codepoints) (urlencoded_parse q).
Proof. exists [226;130;65]. vm_compute. discriminate. Qed.

(* c_acceptInvalid in the iff theorem: the byte FF (both decoders read U+FFFD, the model keeps FF) *)
Theorem sp_init_iff_acceptInvalid_needed :
  exists q, decoders_agree_on q /\
    sp_init (cfg_with default_cfg true false false) q <> map (both utf8_of_codepoints) (urlencoded_parse q).
Proof.
  exists [255]. split.
  - apply decoders_agree_onb_spec. vm_compute. reflexivity.
  - vm_compute. discriminate.
Qed.

(* with acceptInvalidCodepoints the model returns bytes that are not UTF-8 at all: "%FFa" is kept as FF 61 *)
Example sp_init_acceptInvalid_values :
  sp_init (cfg_with default_cfg true false false) [37;70;70;97] = [([255; 97], [])] /\
  sp_init default_cfg [37;70;70;97] = [([239;191;189; 97], [])] /\
  urlencoded_parse [37;70;70;97] = [([65533; 97], [])].
Proof. vm_compute. repeat split; reflexivity. Qed.

(* c_skipEq plays no role in sp_init: the percent-decoder reads only the Latin-1 flag *)
Lemma DecodePercentEncoded_ext c c' s : c_latin1 c = c_latin1 c' ->
  DecodePercentEncoded c s = DecodePercentEncoded c' s.
Proof.
  intros HL. induction s as [s IH] using list_len_ind.
  destruct s as [|b s']; [reflexivity|].
  cbn [DecodePercentEncoded].
  assert (IH1 : DecodePercentEncoded c s' = DecodePercentEncoded c' s') by (apply IH; cbn [length]; lia).
  destruct (b =? 37); [|rewrite IH1; reflexivity].
  destruct s' as [|h [|l s'']]; try (rewrite IH1; reflexivity).
  destruct (isHexDigit h && isHexDigit l); [|rewrite IH1; reflexivity].
  rewrite HL. f_equal. apply IH. cbn [length]. lia.
Qed.

Theorem sp_init_skipEq_irrelevant : forall c a l s s' q,
  sp_init (cfg_with c a l s) q = sp_init (cfg_with c a l s') q.
Proof.
  intros c a l s s' q. unfold sp_init. apply flat_map_ext. intros x.
  destruct x as [|b t]; [reflexivity|]. destruct (cut 61 (b :: t)) as [k [v|]];
    rewrite !(DecodePercentEncoded_ext (cfg_with c a l s) (cfg_with c a l s')) by reflexivity; reflexivity.
Qed.

(* ---------- BOM: neither side strips EF BB BF ("UTF-8 decode WITHOUT BOM"; Go's []rune keeps U+FEFF) ---------- *)
Example bom_is_kept :
  urlencoded_parse [239;187;191;97;61;37;69;70;37;66;66;37;66;70] = [([65279; 97], [65279])] /\
  sp_init default_cfg [239;187;191;97;61;37;69;70;37;66;66;37;66;70] = [([239;187;191;97], [239;187;191])] /\
  utf8_ok_query [239;187;191;97;61;37;69;70;37;66;66;37;66;70] = true.
Proof. vm_compute. repeat split; reflexivity. Qed.

(* ---------- the right-hand side computed: "a+b=%zz&%C3%A9=<FF>&a=b=c&&=x" ---------- *)
Example urlencoded_parse_ex :
  urlencoded_parse [97;43;98;61;37;122;122;38;37;67;51;37;65;57;61;255;38;97;61;98;61;99;38;38;61;120]
  = [([97; 32; 98], [37; 122; 122]); ([233], [65533]); ([97], [98; 61; 99]); ([], [120])].
Proof. vm_compute. reflexivity. Qed.

Example urlencoded_parse_ex_rhs :
  map (fun nv => (utf8_of_codepoints (fst nv), utf8_of_codepoints (snd nv)))
    (urlencoded_parse [97;43;98;61;37;122;122;38;37;67;51;37;65;57;61;255;38;97;61;98;61;99;38;38;61;120])
  = [([97; 32; 98], [37; 122; 122]); ([195; 169], [239; 191; 189]); ([97], [98; 61; 99]); ([], [120])].
Proof. vm_compute. reflexivity. Qed.

(* the lone FF is invalid UTF-8, yet the two decoders agree on it, and the model gives the same list *)
Example urlencoded_parse_ex_model :
  sp_init default_cfg [97;43;98;61;37;122;122;38;37;67;51;37;65;57;61;255;38;97;61;98;61;99;38;38;61;120]
  = [([97; 32; 98], [37; 122; 122]); ([195; 169], [239; 191; 189]); ([97], [98; 61; 99]); ([], [120])] /\
  utf8_ok_query [97;43;98;61;37;122;122;38;37;67;51;37;65;57;61;255;38;97;61;98;61;99;38;38;61;120] = false.
Proof. vm_compute. split; reflexivity. Qed.

(* the premise of the iff on a query with an invalid byte and with valid multi-byte sequences *)
Example decoders_agree_on_ex :
  decoders_agree_on [97;43;98;61;37;122;122;38;37;67;51;37;65;57;61;255;38;97;61;98;61;99;38;38;61;120] /\
  ~ decoders_agree_on [37;69;50;37;56;50;65].
Proof.
  split.
  - apply decoders_agree_onb_spec. vm_compute. reflexivity.
  - intros H. apply decoders_agree_onb_spec in H. vm_compute in H. discriminate H.
Qed.

Print Assumptions urlencoded_parse_bytes_spec.
Print Assumptions sp_init_is_urlencoded_parse_agree.
Print Assumptions sp_init_is_urlencoded_parse_refuted.
Print Assumptions sp_init_urlencoded_parse_length.
Print Assumptions sp_init_runes.
Print Assumptions sp_init_is_urlencoded_parse_latin1_needed.
Print Assumptions sp_init_is_urlencoded_parse_utf8_needed.
Print Assumptions sp_init_iff_acceptInvalid_needed.
Print Assumptions sp_init_urlencoded_parse_squash_latin1_needed.
Print Assumptions sp_init_skipEq_irrelevant.
