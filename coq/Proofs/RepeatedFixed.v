(* Repeated percent-decoding, R3: the canonical string of a text of the grammar is a fixed point of the profile
   parser (C17 under repeated decoding).
   Route: the repeated block gives the record with the decoded components (RepeatedIdem.rep_block_eval); the
   removals and the sort are explicit on such a record; the canonical record is "decoded" ([dec_ok]); a decoded
   record re-parsed from its serialization (RoundTrip.roundtrip_strong) satisfies the premises of rep_block_eval
   again and is a fixed point of the decoding steps; the removals and the sort are idempotent. *)
From Verif Require Import Lib.Base Lib.Utf8 Lib.GoStr Model.Cfg Gen.Tables Gen.Options Model.Sets Model.Percent
  Model.Url Model.Host Model.Machine Model.Api Model.Canon Model.Preds.
From Verif Require Import Proofs.SetsProofs Proofs.PhaseLemmas Proofs.RecordInv Proofs.MachineInv
  Proofs.CodecProofs Proofs.SearchParamsProofs Proofs.CanonTotal Proofs.HostProofs Proofs.IPv4Proofs
  Proofs.RoundTripBase Proofs.RoundTripPhases Proofs.RoundTrip Proofs.RoundTripStable Proofs.RoundTripHosts
  Proofs.RoundTripSetters Proofs.CanonIdem Proofs.NormalFormPhases Proofs.NormalForm
  Proofs.SpellingProofs Proofs.SpellingDecode Proofs.RepeatedSteps Proofs.RepeatedIdem.
From Coq Require Import Lia ZifyBool ZifyN ZifyNat Permutation.

Local Arguments N.mul : simpl never.
Local Arguments N.add : simpl never.
Local Arguments N.sub : simpl never.
Local Arguments N.eqb : simpl never.
Local Arguments N.ltb : simpl never.
Local Arguments N.leb : simpl never.

Lemma forallb_perm {A} (f : A -> bool) l l' : Permutation l l' -> forallb f l = true -> forallb f l' = true.
Proof.
  intros Hp H. rewrite forallb_forall in *. intros x Hx. apply H. apply (Permutation_in x (Permutation_sym Hp) Hx).
Qed.

Lemma same_components_sym a b : same_components a b -> same_components b a.
Proof. unfold same_components. intros H. repeat split; symmetry; apply H. Qed.

Section R3.
  Variable idna_raw : str -> str * bool.
  Hypothesis HH3 : H3 idna_raw.
  Variable p : profile.
  Notation c := (p_cfg p).
  Hypothesis Hokm : cfg_okm c = true.
  Hypothesis Hrt : cfg_rt c = true.
  Hypothesis Hlat : c_latin1 c = false.
  Hypothesis Hskq : c_skipEq c = false.
  Hypothesis Hrepd : p_repeated p = true.

  Let R : CfgRT c := cfg_rt_sound c Hrt.

  Lemma Hskip : c_skipTrailSlash c = false.
  Proof using Hokm. destruct (cfg_okm_parts c Hokm) as [_ [_ [_ [_ [_ [_ [_ [_ [H _]]]]]]]]]. exact H. Qed.

  (* ---------------- the removals, explicitly ---------------- *)
  Definition rem (w : url) : url :=
    let w1 := if p_removePort p then set_port w None 0 else w in
    let w2 := if p_removeUserInfo p then set_password (set_username w1 []) [] else w1 in
    if p_removeFragment p then set_fragment w2 None else w2.

  Lemma rem_fields w :
    u_scheme (rem w) = u_scheme w /\ u_host (rem w) = u_host w /\ u_path (rem w) = u_path w /\
    u_opaque (rem w) = u_opaque w /\ u_query (rem w) = u_query w /\ u_sp (rem w) = u_sp w /\
    (u_fragment (rem w) = u_fragment w \/ u_fragment (rem w) = None) /\
    ((u_port (rem w) = u_port w /\ u_decodedPort (rem w) = u_decodedPort w) \/ (u_port (rem w) = None /\ u_decodedPort (rem w) = 0)).
  Proof using All.
    unfold rem. cbv zeta. destruct (p_removePort p), (p_removeUserInfo p), (p_removeFragment p); cbn; repeat split; auto.
  Qed.

  Lemma rem_NFp w : NFp p (rem w).
  Proof using All.
    unfold NFp, rem. cbv zeta. destruct (p_removePort p), (p_removeUserInfo p), (p_removeFragment p); cbn;
      repeat split; intros; try reflexivity; try discriminate.
  Qed.

  Lemma rem_same a b : same_components a b -> same_components (rem a) (rem b).
  Proof using All.
    intros [S1 [S2 [S3 [S4 [S5 [S6 [S7 [S8 [S9 S10]]]]]]]]]. unfold rem, same_components. cbv zeta.
    destruct (p_removePort p), (p_removeUserInfo p), (p_removeFragment p); cbn; repeat split; assumption.
  Qed.

  Lemma rem_fixed x : NFp p x -> same_components (rem x) x.
  Proof using All.
    intros [N1 [N2 N3]]. unfold rem, same_components. cbv zeta.
    destruct (p_removePort p), (p_removeUserInfo p), (p_removeFragment p); cbn; repeat split; try reflexivity;
      try (destruct (N1 eq_refl) as [A B]; congruence); try (destruct (N2 eq_refl) as [A B]; congruence);
      try (symmetry; apply (N3 eq_refl)).
  Qed.

  Lemma tail_explicit w x t :
    u_host w = Some (x :: t) -> str_eqb (u_scheme w) s_file = false -> u_opaque w = false ->
    tail_block idna_raw p w = Some (sort_block p (rem w)).
  Proof using All.
    intros Hh Hnf Ho. unfold tail_block, rem. cbv zeta.
    assert (Hn : forall w', u_host w' = u_host w -> u_scheme w' = u_scheme w -> no_host_or_file w' = false).
    { intros w' E1 E2. unfold no_host_or_file. rewrite E1, E2, Hh, Hnf. reflexivity. }
    set (w1 := if p_removePort p then set_port w None 0 else w).
    assert (S1 : (if p_removePort p then SetPort idna_raw c w [] else Some w) = Some w1).
    { unfold w1. destruct (p_removePort p); [|reflexivity]. unfold SetPort. rewrite (Hn w eq_refl eq_refl). reflexivity. }
    rewrite S1. cbn [bind].
    assert (F1 : u_host w1 = u_host w /\ u_scheme w1 = u_scheme w /\ u_opaque w1 = u_opaque w) by (unfold w1; destruct (p_removePort p); repeat split).
    destruct F1 as [F1a [F1b F1c]].
    set (w2 := if p_removeUserInfo p then set_password (set_username w1 []) [] else w1).
    assert (S2 : (if p_removeUserInfo p then bind (SetUsername c w1 []) (fun u => SetPassword c u []) else Some w1) = Some w2).
    { unfold w2. destruct (p_removeUserInfo p); [|reflexivity]. unfold SetUsername. rewrite (Hn w1 F1a F1b). cbn [bind].
      unfold SetPassword. change (no_host_or_file (set_username w1 (PercentEncodeString c [] pes_UserInfo))) with (no_host_or_file w1).
      rewrite (Hn w1 F1a F1b). reflexivity. }
    rewrite S2. cbn [bind].
    assert (F2 : u_opaque w2 = u_opaque w) by (unfold w2; destruct (p_removeUserInfo p); exact F1c).
    assert (S3 : (if p_removeFragment p then SetHash idna_raw c w2 [] else Some w2) = Some (if p_removeFragment p then set_fragment w2 None else w2)).
    { destruct (p_removeFragment p); [|reflexivity]. unfold SetHash. cbv zeta.
      destruct (negb (is_some (u_query (set_fragment w2 None)))); [|reflexivity].
      unfold strip_opaque. cbn [u_opaque set_fragment]. rewrite F2, Ho. reflexivity. }
    rewrite S3. reflexivity.
  Qed.

  (* ---------------- decoded records ---------------- *)
  Record dec_ok (w : url) : Prop := {
    E_opq : u_opaque w = false;
    E_nf : str_eqb (u_scheme w) s_file = false;
    E_61 : RuneShouldBeEncoded (queryset c w) 61 = false;
    E_38 : RuneShouldBeEncoded (queryset c w) 38 = false;
    E_hne : exists x t, u_host w = Some (x :: t);
    E_host : host_ok idna_raw p w;
    E_fix : host_fixed idna_raw c w;
    E_dport : dport_ok w = true;
    E_path : forallb (forallb (plit p (IsSpecialScheme c w))) (u_path w) = true /\
             forallb (fun s => negb (dotseg s)) (u_path w) = true;
    E_query : match u_query w with
              | Some q => exists L, q = sp_string c L /\ forallb (qpair p (queryset c w)) L = true
              | None => True end;
    E_frag : match u_fragment w with
             | Some g => g <> [] /\ forallb (flit (fragset c w)) g = true
             | None => True end
  }.

  (* the searchParams object, when there is one, holds the list the query is the serialization of *)
  Definition spq (w : url) : Prop :=
    match u_sp w with
    | Some l => forallb (qpair p (queryset c w)) l = true /\ (u_query w = Some (sp_string c l) \/ (u_query w = None /\ l = []))
    | None => u_query w = None \/ u_query w = Some []
    end.

  Lemma dec_same a b : same_components a b -> dec_ok b -> dec_ok a.
  Proof using All.
    intros [S1 [S2 [S3 [S4 [S5 [S6 [S7 [S8 [S9 S10]]]]]]]]] K. destruct K as [E_opq0 E_nf0 E_610 E_380 E_hne0 E_host0 E_fix0 E_dport0 E_path0 E_query0 E_frag0].
    assert (Es : IsSpecialScheme c a = IsSpecialScheme c b) by (unfold IsSpecialScheme; rewrite S1; reflexivity).
    assert (Eq : queryset c a = queryset c b) by (unfold queryset; rewrite S1; reflexivity).
    assert (Ef : fragset c a = fragset c b) by (unfold fragset; rewrite S1; reflexivity).
    constructor; rewrite ?S1, ?S8, ?Eq, ?Ef, ?S7, ?S9, ?S10, ?Es; try assumption.
    - rewrite S4. assumption.
    - unfold host_ok in *. rewrite S4, Es. assumption.
    - unfold host_fixed in *. rewrite S4, Es. assumption.
    - unfold dport_ok in *. rewrite S5, S6. assumption.
  Qed.

  Lemma CF_fields w :
    u_scheme (CF p w) = u_scheme w /\ u_username (CF p w) = u_username w /\ u_password (CF p w) = u_password w /\
    u_host (CF p w) = u_host w /\ u_port (CF p w) = u_port w /\ u_decodedPort (CF p w) = u_decodedPort w /\
    u_path (CF p w) = map rd (u_path w) /\ u_opaque (CF p w) = false /\
    u_query (CF p w) = match u_query w with Some (x :: q) => Some (sp_string c (dec_pairs p (x :: q))) | o => o end /\
    u_fragment (CF p w) = match u_fragment w with Some (x :: f) => Some (rd (x :: f)) | _ => None end /\
    u_sp (CF p w) = match u_query w with Some (x :: q) => Some (dec_pairs p (x :: q)) | _ => u_sp w end.
  Proof using All.
    unfold CF, cf_frag, cf_query. cbn [u_query set_path]. destruct (u_query w) as [[|x q]|] eqn:E; cbn; rewrite ?E; repeat split.
  Qed.

  Lemma rep_dec w :
    rep_ok idna_raw p w -> (exists x t, u_host w = Some (x :: t)) -> host_fixed idna_raw c w -> dport_ok w = true ->
    dec_ok (CF p w) /\ spq (CF p w).
  Proof using All.
    intros K Hne Hfx Hd. destruct K as [Ho Hnf Hsp H61 H38 Hh [Hp1 Hp2] Hq Hf].
    destruct (CF_fields w) as [F1 [F2 [F3 [F4 [F5 [F6 [F7 [F8 [F9 [F10 F11]]]]]]]]]].
    assert (Es : IsSpecialScheme c (CF p w) = IsSpecialScheme c w) by (unfold IsSpecialScheme; rewrite F1; reflexivity).
    assert (Eq : queryset c (CF p w) = queryset c w) by (unfold queryset; rewrite F1; reflexivity).
    assert (Ef : fragset c (CF p w) = fragset c w) by (unfold fragset; rewrite F1; reflexivity).
    split.
    - constructor; rewrite ?F1, ?F8, ?Eq, ?Ef, ?F7, ?Es; try assumption; try reflexivity.
      + rewrite F4. exact Hne.
      + unfold host_ok in *. rewrite F4, Es. exact Hh.
      + unfold host_fixed in *. rewrite F4, Es. exact Hfx.
      + unfold dport_ok in *. rewrite F5, F6. exact Hd.
      + split; assumption.
      + rewrite F9. unfold query_ok in Hq. destruct (u_query w) as [[|x q]|]; [exists []; split; reflexivity| |exact I].
        eexists. split; [reflexivity|exact Hq].
      + rewrite F10. unfold frag_ok in Hf. destruct (u_fragment w) as [[|x f]|]; try exact I. split; [|exact Hf].
        intros E. apply rd_nil_inv in E. discriminate E.
    - unfold spq. rewrite F11, F9, Eq. unfold query_ok in Hq. destruct (u_query w) as [[|x q]|].
      + rewrite Hsp. right. reflexivity.
      + split; [exact Hq|left; reflexivity].
      + rewrite Hsp. left. reflexivity.
  Qed.

  Lemma rem_dec w : dec_ok w -> dec_ok (rem w).
  Proof using All.
    intros K. destruct K as [E_opq0 E_nf0 E_610 E_380 E_hne0 E_host0 E_fix0 E_dport0 E_path0 E_query0 E_frag0]. destruct (rem_fields w) as [F1 [F2 [F3 [F4 [F5 [F6 [F7 F8]]]]]]].
    assert (Es : IsSpecialScheme c (rem w) = IsSpecialScheme c w) by (unfold IsSpecialScheme; rewrite F1; reflexivity).
    assert (Eq : queryset c (rem w) = queryset c w) by (unfold queryset; rewrite F1; reflexivity).
    assert (Ef : fragset c (rem w) = fragset c w) by (unfold fragset; rewrite F1; reflexivity).
    constructor; rewrite ?F1, ?F4, ?Eq, ?Ef, ?F3, ?F5, ?Es; try assumption.
    - rewrite F2. assumption.
    - unfold host_ok in *. rewrite F2, Es. assumption.
    - unfold host_fixed in *. rewrite F2, Es. assumption.
    - unfold dport_ok in *. destruct F8 as [[-> ->]|[-> ->]]; [assumption|reflexivity].
    - destruct F7 as [->| ->]; [assumption|exact I].
  Qed.

  Lemma rem_spq w : spq w -> spq (rem w).
  Proof using All.
    unfold spq. destruct (rem_fields w) as [F1 [_ [_ [_ [F5 [F6 _]]]]]].
    assert (Eq : queryset c (rem w) = queryset c w) by (unfold queryset; rewrite F1; reflexivity).
    rewrite F5, F6, Eq. auto.
  Qed.

  (* the list the sort works on *)
  Lemma ensure_list w : dec_ok w -> spq w ->
    forallb (qpair p (queryset c w)) (snd (ensure_sp c w)) = true /\
    (u_query w = Some (sp_string c (snd (ensure_sp c w))) \/ (u_query w = None /\ snd (ensure_sp c w) = [])).
  Proof using All.
    intros K Hs. unfold spq in Hs. unfold ensure_sp. destruct (u_sp w) as [l|]; cbn [snd]; [exact Hs|].
    destruct Hs as [->| ->]; cbn; split; auto.
  Qed.

  Lemma sortf_dec (f : list pair -> list pair) w :
    (forall l, Permutation l (f l)) -> dec_ok w -> spq w ->
    dec_ok (sp_update c (fst (ensure_sp c w)) (f (snd (ensure_sp c w)))) /\
    forallb (pair_ok c) (f (snd (ensure_sp c w))) = true.
  Proof using All.
    intros Hperm K Hs. destruct (ensure_list w K Hs) as [Hl Hq]. set (l := snd (ensure_sp c w)) in *.
    set (e := fst (ensure_sp c w)).
    pose proof (forallb_perm _ _ _ (Hperm l) Hl) as Hfl.
    split; [|apply (qpair_ok idna_raw p R Hlat Hskq _ _ Hfl)].
    destruct (ensure_sp_comps p w) as [E1 [E2 [E3 [E4 [E5 [E6 [E7 [E8 [E9 E10]]]]]]]]]. fold e in E1, E2, E3, E4, E5, E6, E7, E8, E9, E10.
    destruct (sp_update_comps p e (f l)) as [U1 [U2 [U3 [U4 [U5 [U6 [U7 [U8 U9]]]]]]]].
    set (u := sp_update c e (f l)) in *.
    assert (Es : IsSpecialScheme c u = IsSpecialScheme c w) by (unfold IsSpecialScheme; rewrite U1, E1; reflexivity).
    assert (Eq : queryset c u = queryset c w) by (unfold queryset; rewrite U1, E1; reflexivity).
    assert (Ef : fragset c u = fragset c w) by (unfold fragset; rewrite U1, E1; reflexivity).
    destruct K as [E_opq0 E_nf0 E_610 E_380 E_hne0 E_host0 E_fix0 E_dport0 E_path0 E_query0 E_frag0].
    constructor; rewrite ?U1, ?E1, ?U8, ?E8, ?Eq, ?Ef, ?U7, ?E7, ?U9, ?E10, ?Es; try assumption.
    - rewrite U4, E4. assumption.
    - unfold host_ok in *. rewrite U4, E4, Es. assumption.
    - unfold host_fixed in *. rewrite U4, E4, Es. assumption.
    - unfold dport_ok in *. rewrite U5, U6, E5, E6. assumption.
    - unfold u. rewrite sp_update_u_query. destruct (is_nil (sp_string c (f l)) && negb (is_some (u_query e))); [exact I|].
      exists (f l). split; [reflexivity|exact Hfl].
  Qed.

  Lemma sort_dec w : dec_ok w -> spq w -> dec_ok (sort_block p w) /\ sort_ok p (sort_block p w).
  Proof using All.
    intros K Hs. unfold sort_ok, sort_block. destruct (p_sortQuery p) eqn:Eso.
    - split; [exact K|left; reflexivity].
    - destruct (sortf_dec sp_sort w sp_sort_perm K Hs) as [A B]. split; [exact A|]. right. split; [exact Hlat|].
      intros l El. rewrite sp_update_sp in El. injection El as <-. exact B.
    - destruct (sortf_dec sp_sort_abs w sp_sort_abs_perm K Hs) as [A B]. split; [exact A|]. right. split; [exact Hlat|].
      intros l El. rewrite sp_update_sp in El. injection El as <-. exact B.
  Qed.

  Lemma sort_NFp w : NFp p w -> NFp p (sort_block p w).
  Proof using All.
    intros HN. destruct (sort_block_cases p w) as [->|[l ->]]; [exact HN|].
    destruct (ensure_sp_comps p w) as [E1 [E2 [E3 [E4 [E5 [E6 [E7 [E8 [E9 E10]]]]]]]]].
    destruct (sp_update_comps p (fst (ensure_sp c w)) l) as [U1 [U2 [U3 [U4 [U5 [U6 [U7 [U8 U9]]]]]]]].
    unfold NFp in *. rewrite U2, U3, U5, U6, U9, E2, E3, E5, E6, E10. exact HN.
  Qed.

  (* what Inv and stability need *)
  Lemma dec_query_clause w : dec_ok w -> forall q, u_query w = Some q -> none_in (qset c w) q = true.
  Proof using All.
    intros K q Eq. destruct K as [E_opq0 E_nf0 E_610 E_380 E_hne0 E_host0 E_fix0 E_dport0 E_path0 E_query0 E_frag0]. rewrite Eq in E_query0. destruct E_query0 as [L [-> HL]].
    change (qset c w) with (queryset c w). apply (sp_string_lit idna_raw p R Hlat Hskq _ L E_610 E_380 HL).
  Qed.

  Lemma plit_no92 sp s : forallb (plit p sp) s = true -> sp = true -> mem 92 s = false.
  Proof using All.
    intros H ->. induction s as [|x s IH]; [reflexivity|]. cbn [forallb] in H. apply andb_true_iff in H. destruct H as [Hx Hs].
    cbn [mem existsb]. fold (mem 92 s). rewrite (IH Hs), orb_false_r.
    unfold plit, path_char in Hx. apply andb_true_iff in Hx. destruct Hx as [_ Hx].
    repeat (apply andb_true_iff in Hx; let H' := fresh "H" in destruct Hx as [Hx H']).
    cbn [andb] in H2. apply negb_true_iff in H2. rewrite N.eqb_sym. exact H2.
  Qed.

  Lemma dec_stable w : dec_ok w -> stable_b c w = true.
  Proof using All.
    intros K. destruct K as [E_opq0 E_nf0 E_610 E_380 E_hne0 E_host0 E_fix0 E_dport0 E_path0 E_query0 E_frag0]. unfold stable_b. rewrite E_dport0, E_opq0. cbn [andb]. unfold list_stable.
    destruct E_path0 as [P1 P2]. rewrite P2, E_nf0. cbn [negb andb orb]. rewrite andb_true_r.
    destruct (IsSpecialScheme c w) eqn:Es; [|reflexivity]. cbn [negb orb].
    rewrite forallb_forall in *. intros s Hs. rewrite (plit_no92 true s (P1 s Hs) eq_refl). reflexivity.
  Qed.

  (* a decoded record without a searchParams object: the premises of rep_block_eval hold and decoding changes nothing *)
  Lemma lit_rd tr s : forallb (litb tr) s = true -> rd s = s.
  Proof using All. intros H. apply rd_id. apply c_decode_no37. apply (lit_no37 _ _ H). Qed.

  Lemma dec_rep v :
    dec_ok v -> u_sp v = None ->
    rep_ok idna_raw p v /\ same_components (CF p v) v /\
    (u_sp (CF p v) = None \/ exists q, u_query (CF p v) = Some q /\ u_sp (CF p v) = Some (sp_init c q)).
  Proof using All.
    intros K Hsp. destruct K as [E_opq0 E_nf0 E_610 E_380 E_hne0 E_host0 E_fix0 E_dport0 E_path0 E_query0 E_frag0]. destruct E_path0 as [P1 P2].
    assert (Epath : map rd (u_path v) = u_path v).
    { rewrite <- (map_id (u_path v)) at 2. apply map_ext_in. intros s Hs. rewrite forallb_forall in P1. specialize (P1 s Hs).
      apply (lit_rd pes_LaxPath). rewrite forallb_forall in *. intros x Hx. specialize (P1 x Hx). unfold plit in P1.
      apply andb_true_iff in P1. apply P1. }
    assert (Equery : forall x q, u_query v = Some (x :: q) ->
              forallb (qpair p (queryset c v)) (dec_pairs p (x :: q)) = true /\ dec_pairs p (x :: q) = sp_init c (x :: q) /\
              sp_string c (dec_pairs p (x :: q)) = x :: q).
    { intros x q Eq. rewrite Eq in E_query0. destruct E_query0 as [L [EL HL]]. unfold dec_pairs. rewrite EL.
      rewrite (sp_roundtrip c L Hlat (qpair_ok idna_raw p R Hlat Hskq _ L HL)), (rd2_lit idna_raw p R Hlat Hskq _ L HL). auto. }
    assert (Efrag : forall x f, u_fragment v = Some (x :: f) -> rd (x :: f) = x :: f).
    { intros x f Ef. rewrite Ef in E_frag0. destruct E_frag0 as [_ Hf]. apply (lit_rd pes_Host).
      rewrite forallb_forall in *. intros y Hy. specialize (Hf y Hy). unfold flit in Hf. apply andb_true_iff in Hf. apply Hf. }
    split; [|split].
    - constructor; try assumption.
      + unfold path_ok. rewrite Epath. split; assumption.
      + unfold query_ok. destruct (u_query v) as [[|x q]|] eqn:Eq; try exact I. apply (Equery x q eq_refl).
      + unfold frag_ok. destruct (u_fragment v) as [[|x f]|] eqn:Ef; try exact I. rewrite (Efrag x f eq_refl).
        apply E_frag0.
    - destruct (CF_fields v) as [F1 [F2 [F3 [F4 [F5 [F6 [F7 [F8 [F9 [F10 F11]]]]]]]]]].
      unfold same_components. rewrite F1, F2, F3, F4, F5, F6, F7, F8, F9, F10, Epath, E_opq0. repeat split.
      + destruct (u_query v) as [[|x q]|] eqn:Eq; try reflexivity. destruct (Equery x q eq_refl) as [_ [_ ->]]. reflexivity.
      + destruct (u_fragment v) as [[|x f]|] eqn:Ef; try reflexivity.
        * destruct E_frag0 as [Hne _]. congruence.
        * rewrite (Efrag x f eq_refl). reflexivity.
    - destruct (CF_fields v) as [_ [_ [_ [_ [_ [_ [_ [_ [F9 [_ F11]]]]]]]]]]. rewrite F9, F11.
      destruct (u_query v) as [[|x q]|] eqn:Eq; try (left; exact Hsp). right. destruct (Equery x q eq_refl) as [_ [E1 E2]].
      exists (x :: q). rewrite E2, E1. split; reflexivity.
  Qed.

  (* the sort on a record whose searchParams object is in step with the query *)
  Lemma sort_sync w :
    (u_sp w = None \/ exists q, u_query w = Some q /\ u_sp w = Some (sp_init c q)) ->
    same_components (sort_block p w) (sort_block p (set_sp w None)).
  Proof using All.
    intros [H|[q [Hq H]]]; destruct w; cbn in *; subst; [apply same_components_refl|].
    unfold sort_block, ensure_sp. cbn. destruct (p_sortQuery p); [unfold same_components; cbn; repeat split| |]; apply same_components_refl.
  Qed.

  (* ---------------- R3 ---------------- *)
  Theorem repeated_fixed_point k h u s :
    comps_ok c k = true -> host_val idna_raw c (k_host k) = Some h ->
    rep_ok idna_raw p (nf c k h) ->
    (forall u0, parseHost idna_raw c u0 h false = Ok u0 h) ->
    ProfileParse idna_raw p (text_of k) = CUrl u -> Href u false = Some s ->
    exists u', ProfileParse idna_raw p s = CUrl u' /\ same_components u' u /\ Href u' false = Some s.
  Proof using All.
    intros Hk Hv Hok Hfix HP Hs. set (N := nf c k h) in *.
    pose proof (Parse_nf idna_raw p R Hskip k h Hk Hv) as HPN. fold N in HPN.
    pose proof (Parse_Inv idna_raw HH3 c Hokm _ _ HPN) as HiN.
    pose proof (Parse_stable idna_raw c _ _ Hrt HPN) as HsN.
    destruct (comps_special p k Hk) as [HspN HnfN].
    assert (EsN : IsSpecialScheme c N = true) by exact HspN.
    (* the first pass *)
    destruct (ProfileParse_CF idna_raw p R Hskip Hlat Hskq Hrepd k h Hk Hv Hok) as [r [Er [Hr HPP]]]. fold N in Er, Hr.
    rewrite HP in HPP. destruct (tail_block idna_raw p r) as [u1|] eqn:Et; [|discriminate HPP]. injection HPP as Eu. subst u1.
    assert (HneN : exists x t, u_host N = Some (x :: t)).
    { destruct (I_special _ _ HiN EsN) as [_ [_ [h0 [Eh0 [Hf|Hne]]]]]; [unfold N in Hf; cbn [u_scheme nf] in Hf; congruence|].
      destruct h0 as [|x t]; [congruence|]. exists x, t. exact Eh0. }
    assert (HfxN : host_fixed idna_raw c N).
    { intros h0 Eh0 u0. unfold N in Eh0. cbn [u_host nf] in Eh0. injection Eh0 as <-. rewrite EsN. apply Hfix. }
    assert (HdN : dport_ok N = true).
    { unfold stable_b in HsN. apply andb_true_iff in HsN. apply HsN. }
    destruct (rep_dec N Hok HneN HfxN HdN) as [KC SC].
    pose proof (eqi_same _ _ Hr) as Src.
    assert (Kr : dec_ok r) by (apply (dec_same r (CF p N) Src KC)).
    assert (Sr : spq r).
    { pose proof (eqi_ex _ _ Hr) as Ex. rewrite Ex. exact SC. }
    pose proof Kr as Kr2. destruct Kr2 as [Ro Rnf _ _ [x [t Rh]] _ _ _ _ _ _].
    rewrite (tail_explicit r x t Rh Rnf Ro) in Et. injection Et as Eu.
    pose proof (rem_dec r Kr) as K3. pose proof (rem_spq r Sr) as S3.
    destruct (sort_dec (rem r) K3 S3) as [Ku Hso]. rewrite Eu in Ku, Hso.
    (* the canonical record is well formed and stable: its serialization parses back to it *)
    assert (Hcan : Canonicalize idna_raw p N = Some u).
    { rewrite Canonicalize_blocks, Er. cbn [bind]. rewrite (tail_explicit r x t Rh Rnf Ro), Eu. reflexivity. }
    assert (Hiu : Inv c u).
    { apply InvNQ_Inv; [apply (Canonicalize_InvNQ idna_raw p N u HH3 Hokm (R_fail c R) HiN Hcan)|apply (dec_query_clause u Ku)]. }
    assert (Hstu : Stable idna_raw c u).
    { split; [apply (dec_stable u Ku)|]. destruct Ku. assumption. }
    pose proof (roundtrip_strong idna_raw c Hrt u s Hiu Hstu Hs) as HPs. set (v := rt_url u s) in *.
    (* the second pass *)
    assert (Kv : dec_ok v) by (apply (dec_same v u (rt_url_same u s) Ku)).
    destruct (dec_rep v Kv eq_refl) as [Hokv [Scv Syv]].
    destruct (rep_block_eval idna_raw p R Hlat Hskq v Hrepd Hokv) as [v' [Ev Hv']].
    pose proof (eqi_same _ _ Hv') as Sv'.
    assert (Sv'u : same_components v' u).
    { apply (same_components_trans _ _ _ Sv'). apply (same_components_trans _ _ _ Scv). apply rt_url_same. }
    assert (Kv' : dec_ok v') by (apply (dec_same v' u Sv'u Ku)).
    destruct Kv' as [Vo Vnf _ _ [x' [t' Vh]] _ _ _ _ _ _].
    assert (NFu : NFp p u) by (rewrite <- Eu; apply sort_NFp; apply rem_NFp).
    set (w := set_sp (rem v') None).
    assert (Hw : same_components w u).
    { apply (same_components_trans _ (rem v')); [unfold w, same_components; cbn; repeat split|].
      apply (same_components_trans _ (rem u)); [apply rem_same; exact Sv'u|apply rem_fixed; exact NFu]. }
    assert (Hsync : u_sp (rem v') = None \/ exists q, u_query (rem v') = Some q /\ u_sp (rem v') = Some (sp_init c q)).
    { destruct (rem_fields v') as [_ [_ [_ [_ [F5 [F6 _]]]]]]. rewrite F5, F6.
      pose proof (eqi_ex _ _ Hv') as Ex. rewrite Ex. exact Syv. }
    assert (Hfin : same_components (sort_block p (rem v')) u).
    { apply (same_components_trans _ _ _ (sort_sync (rem v') Hsync)). fold w.
      rewrite <- Eu. apply sort_block_fixed; rewrite ?Eu; [exact Hso|exact Hw|reflexivity]. }
    exists (sort_block p (rem v')). split; [|split; [exact Hfin|rewrite (Href_same _ u false Hfin); exact Hs]].
    unfold ProfileParse, parse_retry. rewrite HPs. unfold canon_of. rewrite Canonicalize_blocks, Ev. cbn [bind].
    rewrite (tail_explicit v' x' t' Vh Vnf Vo). reflexivity.
  Qed.
End R3.

Print Assumptions repeated_fixed_point.
