(* Direct calls of Parser.BasicParser (Model/Direct.v): termination, absence of panics under the state overrides,
   the record left behind, and the nil-base panics (observation O6) as theorems. *)
From Verif Require Import Lib.Base Lib.Utf8 Lib.GoStr Model.Cfg Gen.Tables Model.Sets Model.Percent Model.Url Model.Host Model.Machine Model.Api Model.Obs Model.Direct.
From Verif Require Import Proofs.Termination Proofs.NoPanic.
From Coq Require Import Lia ZifyBool ZifyN ZifyNat.

Local Open Scope N_scope.

(* ------------------------------------------------------------------------------------------ *)
(* 1. Termination                                                                              *)
(* ------------------------------------------------------------------------------------------ *)

Theorem direct_never_out_of_fuel : forall idna_raw c base start ov input l,
  direct idna_raw c base start ov input = Some l -> l <> [[70]].
Proof.
  intros idna_raw c base start ov input l. unfold direct.
  destruct (match base with None => Some None | Some b => _ end) as [b|]; [|discriminate].
  destruct (match start with DNil => Some None | DNew => _ | DParsed s => _ end) as [u0|]; [|discriminate].
  intros H. injection H as <-.
  pose proof (BasicParser_never_out_of_fuel idna_raw c input b u0 (state_of_N ov)) as HF.
  destruct (BasicParser idna_raw c input b u0 (state_of_N ov)); try discriminate. congruence.
Qed.

(* ------------------------------------------------------------------------------------------ *)
(* 2. Where a panic can come from: only the three states that read the base, and only without  *)
(*    a base (any record to fill, any configuration)                                           *)
(* ------------------------------------------------------------------------------------------ *)

(* the states that dereference the base (directly, or - SpecialRelativeOrAuthority - one step later) *)
Definition needs_base (st : state) : bool :=
  match st with SpecialRelativeOrAuthority | Relative | RelativeSlash => true | _ => false end.

Definition okst (base : option url) (st : state) : Prop := base <> None \/ needs_base st = false.

Section StepNP.
  Variable idna_raw : str -> str * bool.
  Variable c : cfg.
  Variable inp : list rune.

  Definition Q (base : option url) (o : outcome) : Prop :=
    match o with Panic => False | Cont m' => okst base (m_state m') | _ => True end.

  Lemma Q_mherr base u t f k : (forall u', Q base (k u')) -> Q base (mherr c u t f k).
  Proof.
    intros Hk. unfold mherr. destruct (handleError c u t f) as [u' [e|]]; [exact I | apply Hk].
  Qed.

  Ltac qwalk :=
    repeat first
      [ progress cbv beta
      | match goal with
        | |- Q _ (mherr _ _ _ _ _) => apply Q_mherr; intros ?u'
        | |- Q _ ((if ?b then _ else _) _) => destruct b
        | |- Q _ (if ?b then _ else _) => destruct b
        | |- Q _ (match ?x with _ => _ end) => destruct x
        end ].

  Ltac qleaf :=
    unfold Q, okst, mk; cbn [m_state needs_base];
    first [ exact I | right; reflexivity | left; discriminate ].

  (* under a state override a step panics only in a base-reading state without base *)
  Lemma step_Q base ov m : okst base (m_state m) -> Q base (step idna_raw c inp base (Some ov) m).
  Proof.
    intros Hok. destruct m as [st p e buf aF brF pwF u]. cbn [m_state] in Hok.
    destruct base as [b|].
    - destruct st;
        cbv beta iota zeta delta [step mk m_state m_ptr m_eof m_buf m_at m_br m_pw m_url overridden is_some];
        cbn [negb andb orb]; qwalk; qleaf.
    - destruct Hok as [Hok|Hok]; [congruence|].
      destruct st; cbn [needs_base] in Hok; try discriminate Hok;
        cbv beta iota zeta delta [step mk m_state m_ptr m_eof m_buf m_at m_br m_pw m_url overridden is_some];
        cbn [negb andb orb]; qwalk; qleaf.
  Qed.

  Lemma run_NP base ov : forall fuel m, okst base (m_state m) -> run idna_raw c inp base (Some ov) fuel m <> RPanic.
  Proof.
    induction fuel as [|f IH]; intros m Hok; [discriminate|].
    cbn [run]. pose proof (step_Q base ov m Hok) as HQ.
    destruct (step idna_raw c inp base (Some ov) m) as [m'|u'|u' e'|u'|]; cbn [Q] in HQ; try discriminate.
    - destruct (m_eof m'); [discriminate | apply IH; exact HQ].
    - contradiction.
  Qed.
End StepNP.

Section BasicNP.
  Variable idna_raw : str -> str * bool.
  Variable c : cfg.

  Lemma bp_start_NP baseUrl ov u : okst baseUrl ov -> bp_start idna_raw c baseUrl (Some ov) u <> RPanic.
  Proof.
    intros Hok. unfold bp_start.
    assert (Hok' : okst (option_map clone baseUrl) ov).
    { destruct Hok as [Hb|Hn]; [left | right; exact Hn]. destruct baseUrl; [discriminate | congruence]. }
    destruct (remove_tabnl_sv (c_acceptInvalid c) (u_input u)) as [i ch]. cbv zeta.
    destruct ch; [|apply run_NP; exact Hok'].
    destruct (handleError c u InvalidURLUnit false) as [u' [e|]]; [discriminate | apply run_NP; exact Hok'].
  Qed.

  (* with a state override: a base, or a state that does not read it, suffices - whatever the record to fill *)
  Theorem BasicParser_override_no_panic input baseUrl u0 ov :
    baseUrl <> None \/ needs_base ov = false ->
    BasicParser idna_raw c input baseUrl u0 (Some ov) <> RPanic.
  Proof.
    intros Hok. rewrite BasicParser_eq. destruct u0 as [u|]; [apply bp_start_NP; exact Hok|].
    cbv zeta. destruct (trim_c0space input) as [i ch]. destruct ch; [|apply bp_start_NP; exact Hok].
    destruct (handleError c (empty_url input) InvalidURLUnit false) as [u' [e|]]; [discriminate | apply bp_start_NP; exact Hok].
  Qed.

  (* without state override nothing is needed at all (NoPanic.BP_Post with the well-formedness part switched off) *)
  Theorem BasicParser_no_override_no_panic input baseUrl u0 :
    BasicParser idna_raw c input baseUrl u0 None <> RPanic.
  Proof.
    destruct (BP_Post idna_raw c false input baseUrl u0 None) as [HP _].
    - intros; exact I.
    - exact I.
    - intros E. rewrite E in HP. exact HP.
  Qed.

  (* the exact origin of a panic of BasicParser: no base, and one of the three base-reading states as override *)
  Theorem BasicParser_panic_origin input baseUrl u0 override :
    BasicParser idna_raw c input baseUrl u0 override = RPanic ->
    baseUrl = None /\
    (override = Some SpecialRelativeOrAuthority \/ override = Some Relative \/ override = Some RelativeSlash).
  Proof.
    intros E. destruct override as [ov|]; [|exfalso; exact (BasicParser_no_override_no_panic _ _ _ E)].
    destruct baseUrl as [b|].
    - exfalso. apply (BasicParser_override_no_panic input (Some b) u0 ov); [left; discriminate | exact E].
    - split; [reflexivity|].
      destruct ov;
        try (right; right; reflexivity); try (right; left; reflexivity); try (left; reflexivity);
        exfalso; refine (BasicParser_override_no_panic input None u0 _ _ E); right; reflexivity.
  Qed.
End BasicNP.

(* ------------------------------------------------------------------------------------------ *)
(* 3. The record left behind by the tail states PathStart / Path / Query / Fragment under an   *)
(*    override, with the hypotheses NoPanic.init_ok does not discharge from wf alone:          *)
(*    - Query: init_ok asks for a non-nil query; not needed (the nil check of the query state   *)
(*      is only reached without override);                                                      *)
(*    - PathStart: init_ok asks for a non-opaque path; needed only if the parser fails on       *)
(*      validation errors (c_fail), see PathStart_opaque_leaves_ill_formed_record below.        *)
(* ------------------------------------------------------------------------------------------ *)

Lemma handleError_nofail c u t : c_fail c = false -> snd (handleError c u t false) = None.
Proof. intros H. unfold handleError. cbn [snd orb]. rewrite H. reflexivity. Qed.

Section StepK.
  Variable idna_raw : str -> str * bool.
  Variable c : cfg.
  Variable inp : list rune.
  Variable base : option url.
  Variable ov : state.

  Definition pathok (u : url) : Prop := u_opaque u = false \/ c_fail c = false.

  Definition K (m : mstate) : Prop :=
    m_eof m = false /\
    match m_state m with
    | PathStart => wf (m_url m) /\ pathok (m_url m)
    | PathSt => pathok (m_url m)
    | QuerySt | FragmentSt => wf (m_url m)
    | _ => False
    end.

  Definition PostK (o : outcome) : Prop :=
    match o with
    | Panic => False
    | Cont m' => (m_eof m' = false -> K m') /\ (m_eof m' = true -> wf (m_url m'))
    | RetUrl u | RetErr u _ | RetNilNil u => wf u
    end.

  (* a non-failure validation error returns only if the parser fails on validation errors *)
  Lemma K_mherr u t k :
    (c_fail c = true -> wf u) ->
    (forall u', u_path u' = u_path u -> u_opaque u' = u_opaque u -> u_query u' = u_query u -> PostK (k u')) ->
    PostK (mherr c u t false k).
  Proof.
    intros Hfin Hk. unfold mherr. pose proof (sh_handleError c u t false) as Hs. apply sh_inv in Hs.
    destruct (c_fail c) eqn:Ef.
    - destruct (handleError c u t false) as [u' [e|]]; cbn [fst] in Hs; destruct Hs as (Hp & Ho & Hq).
      + cbn. unfold wf in *. rewrite Hp, Ho. auto.
      + apply Hk; assumption.
    - pose proof (handleError_nofail c u t Ef) as Hn.
      destruct (handleError c u t false) as [u' [e|]]; cbn [fst snd] in *; destruct Hs as (Hp & Ho & Hq).
      + discriminate Hn.
      + apply Hk; assumption.
  Qed.

  Ltac kwalk :=
    repeat first
      [ progress cbv beta
      | match goal with
        | |- PostK (mherr _ _ _ false _) => apply K_mherr; [ intros ?Hcf | intros ?u' ?Hp ?Ho ?Hq ]
        | |- PostK ((if ?b then _ else _) _) => destruct b eqn:?
        | |- PostK (if ?b then _ else _) => destruct b eqn:?
        | |- PostK (match ?x with _ => _ end) => destruct x eqn:?
        end ].

  Ltac knorm :=
    unfold PostK, K, pathok, wf, mk, addSegment in *;
    cbn [m_state m_url m_eof u_path u_opaque u_query
         set_input set_scheme set_username set_password set_host set_port set_path set_query set_fragment set_verrs set_sp] in *.

  Ltac kfin :=
    first
      [ discriminate
      | congruence
      | assumption
      | solve [ match goal with
                | H : u_opaque ?y = true -> u_path ?y <> [] |- u_path ?x <> [] =>
                    let E := fresh in intro E; apply H; congruence
                end ]
      | solve [eapply replaceLast_path; eassumption]
      | solve [eapply replace_last_nonnil; eassumption]
      | solve [left; congruence]
      | solve [right; congruence]
      | solve [exfalso; unfold rune_error in *; lia] ].

  Ltac kleaf :=
    knorm;
    repeat match goal with |- context [if ?b then _ else _] => destruct b eqn:? end;
    knorm;
    intros; repeat split; intros;
    repeat match goal with H : _ /\ _ |- _ => destruct H end;
    first [ solve [kfin]
          | solve [ match goal with H : _ \/ _ |- _ => destruct H; kfin end ]
          | idtac ].

  Lemma step_K m : K m -> PostK (step idna_raw c inp base (Some ov) m).
  Proof.
    intros HK. destruct m as [st p e buf aF brF pwF u].
    unfold K in HK. cbn [m_state m_url m_eof] in HK. destruct HK as (He & HK). subst e.
    destruct st; try contradiction;
      cbv beta iota zeta delta [step mk m_state m_ptr m_eof m_buf m_at m_br m_pw m_url overridden is_some isSpecialSchemeAndBackslash];
      destruct (n_inp inp <=? p + 1)%Z eqn:En;
      rewrite ?re_35, ?re_37, ?re_47, ?re_63, ?re_92;
      cbn [negb andb orb];
      rewrite ?orb_false_r, ?andb_false_r, ?orb_true_r, ?andb_true_r;
      cbn [negb andb orb];
      kwalk; kleaf.
  Qed.
End StepK.

(* what is left behind: a well-formed record (no panic, no fuel exhaustion) *)
Definition left_wf (r : result) : Prop :=
  match r with
  | RUrl u | RErr u _ | RNilNil u => wf u
  | RPanic | ROutOfFuel => False
  end.

Definition tail_init (c : cfg) (ov : state) (u : url) : Prop :=
  wf u /\
  match ov with
  | PathStart => pathok c u
  | QuerySt | FragmentSt => True
  | _ => False
  end.

Section BasicK.
  Variable idna_raw : str -> str * bool.
  Variable c : cfg.

  Lemma run_K inp base ov : forall fuel m, K c m ->
    match run idna_raw c inp base (Some ov) fuel m with
    | RPanic => False | ROutOfFuel => True | RUrl u | RErr u _ | RNilNil u => wf u end.
  Proof.
    induction fuel as [|f IH]; intros m HK; [exact I|].
    cbn [run]. pose proof (step_K idna_raw c inp base ov m HK) as HP.
    destruct (step idna_raw c inp base (Some ov) m) as [m'|u'|u' e'|u'|]; cbn [PostK] in HP; try exact HP.
    destruct HP as [H1 H2]. destruct (m_eof m') eqn:Ee; [apply H2; reflexivity | apply IH; apply H1; reflexivity].
  Qed.

  Lemma tail_init_sh ov u u' : sh u' = sh u -> tail_init c ov u -> tail_init c ov u'.
  Proof.
    intros Hs [Hw Ht]. split; [apply (wfp_sh true u u' Hs Hw)|].
    apply sh_inv in Hs. destruct Hs as (Hp & Ho & Hq). destruct ov; auto. unfold pathok in *. rewrite Ho. exact Ht.
  Qed.

  Lemma tail_init_K ov u : tail_init c ov u -> K c (mk ov (-1) false [] false false false u).
  Proof.
    intros [Hw Ht]. unfold K, mk. cbn [m_eof m_state m_url]. split; [reflexivity|].
    destruct ov; try contradiction; auto.
  Qed.

  Lemma bp_start_K baseUrl ov u : tail_init c ov u -> left_wf (bp_start idna_raw c baseUrl (Some ov) u).
  Proof.
    intros Hi. unfold bp_start.
    assert (Hk : forall u1, tail_init c ov u1 ->
      left_wf (run idna_raw c (decode (u_input u1)) (option_map clone baseUrl) (Some ov)
        (fuel_of (length (decode (u_input u1)))) (mk (start_state (Some ov)) (-1)%Z false [] false false false u1))).
    { intros u1 H1. cbn [start_state].
      pose proof (run_K (decode (u_input u1)) (option_map clone baseUrl) ov (fuel_of (length (decode (u_input u1)))) _
                    (tail_init_K ov u1 H1)) as HR.
      pose proof (run_never_out_of_fuel idna_raw c (decode (u_input u1)) (option_map clone baseUrl) (Some ov)
                    (mk ov (-1)%Z false [] false false false u1)) as HF.
      destruct (run idna_raw c (decode (u_input u1)) (option_map clone baseUrl) (Some ov)
                  (fuel_of (length (decode (u_input u1)))) (mk ov (-1)%Z false [] false false false u1));
        cbn [left_wf]; auto. }
    destruct (remove_tabnl_sv (c_acceptInvalid c) (u_input u)) as [i changed]. cbv zeta.
    destruct changed; [|apply Hk; exact Hi].
    pose proof (sh_handleError c u InvalidURLUnit false) as Hh.
    destruct (handleError c u InvalidURLUnit false) as [u' [e|]]; cbn [fst] in Hh.
    - cbn [left_wf]. apply (wfp_sh true u u' Hh). apply Hi.
    - apply Hk. apply (tail_init_sh ov u); [|exact Hi]. change (sh (set_input u' i)) with (sh u'). exact Hh.
  Qed.

  Lemma BasicParser_tail_left_wf input baseUrl u ov :
    tail_init c ov u -> left_wf (BasicParser idna_raw c input baseUrl (Some u) (Some ov)).
  Proof.
    intros Hi. rewrite BasicParser_eq. apply bp_start_K. apply (tail_init_sh ov u); [reflexivity | exact Hi].
  Qed.

  (* from NoPanic.BP_Post: the override states of the setters, under init_ok *)
  Lemma BasicParser_init_left_wf input baseUrl u ov :
    (forall b, baseUrl = Some b -> wf b) -> init_ok true (Some ov) u ->
    left_wf (BasicParser idna_raw c input baseUrl (Some u) (Some ov)).
  Proof.
    intros Hb Hi. destruct (BP_Post idna_raw c true input baseUrl (Some u) (Some ov) Hb Hi) as [HP HF].
    destruct (BasicParser idna_raw c input baseUrl (Some u) (Some ov)); cbn in HP |- *.
    - apply HP.
    - apply HP. reflexivity.
    - apply HP.
    - exact HP.
    - congruence.
  Qed.
End BasicK.

(* the state overrides the library's own setters use: SchemeStart(1) SetProtocol, Host(10) SetHost, Hostname(11) SetHostname,
   Port(15) SetPort, PathStart(17) SetPathname, Query(18) SetSearch, Fragment(19) SetHash *)
Definition setter_state (st : state) : Prop :=
  In st [SchemeStart; HostSt; HostnameSt; PortSt; PathStart; QuerySt; FragmentSt].

(* no panic: neither the record nor the base matters *)
Theorem direct_setter_states_no_panic : forall idna_raw c input base u0 st,
  setter_state st -> BasicParser idna_raw c input base u0 (Some st) <> RPanic.
Proof.
  intros idna_raw c input base u0 st Hst. apply BasicParser_override_no_panic. right.
  unfold setter_state in Hst. cbn [In] in Hst.
  destruct Hst as [<-|[<-|[<-|[<-|[<-|[<-|[<-|[]]]]]]]]; reflexivity.
Qed.

(* the record left behind is well formed again. The only hypothesis beyond wf u (and wf of the base, which the proof
   through NoPanic.BP_Post carries along): for PathStart, a non-opaque path OR a parser that does not fail on validation errors *)
Theorem direct_setter_states_total : forall idna_raw c input base u st,
  setter_state st -> wf u -> (forall b, base = Some b -> wf b) ->
  (st = PathStart -> u_opaque u = false \/ c_fail c = false) ->
  left_wf (BasicParser idna_raw c input base (Some u) (Some st)).
Proof.
  intros idna_raw c input base u st Hst Hw Hb Hps.
  unfold setter_state in Hst. cbn [In] in Hst.
  destruct Hst as [<-|[<-|[<-|[<-|[<-|[<-|[<-|[]]]]]]]].
  - apply BasicParser_init_left_wf; [exact Hb|]. cbn. auto.
  - apply BasicParser_init_left_wf; [exact Hb|]. cbn. auto.
  - apply BasicParser_init_left_wf; [exact Hb|]. cbn. auto.
  - apply BasicParser_init_left_wf; [exact Hb|]. cbn. auto.
  - apply BasicParser_tail_left_wf. split; [exact Hw | apply Hps; reflexivity].
  - apply BasicParser_tail_left_wf. split; [exact Hw | exact I].
  - apply BasicParser_tail_left_wf. split; [exact Hw | exact I].
Qed.
