(* Direct calls of Parser.BasicParser (Model/Direct.v): termination, absence of panics under the state overrides,
   the record left behind, and the nil-base panics (observation O6) as theorems. *)
From Verif Require Import Lib.Base Lib.Utf8 Lib.GoStr Model.Cfg Gen.Tables Model.Sets Model.Percent Model.Url Model.Host Model.Machine Model.Api Model.Obs Model.Direct.
From Verif Require Import Proofs.Termination Proofs.NoPanic.
From Coq Require Import Lia ZifyBool ZifyN ZifyNat.

Local Open Scope N_scope.

(* ------------------------------------------------------------------------------------------ *)
(* 1. Termination                                                                              *)
(* ------------------------------------------------------------------------------------------ *)

Theorem direct_never_out_of_fuel : forall idna_raw c base start ov input l,
  direct idna_raw c base start ov input = Some l -> l <> [[70]].
Proof.
  intros idna_raw c base start ov input l. unfold direct.
  destruct (match base with None => Some None | Some b => _ end) as [b|]; [|discriminate].
  destruct (match start with DNil => Some None | DNew => _ | DParsed s => _ end) as [u0|]; [|discriminate].
  intros H. injection H as <-.
  pose proof (BasicParser_never_out_of_fuel idna_raw c input b u0 (state_of_N ov)) as HF.
  destruct (BasicParser idna_raw c input b u0 (state_of_N ov)); try discriminate. congruence.
Qed.

(* ------------------------------------------------------------------------------------------ *)
(* 2. Where a panic can come from: only the three states that read the base, and only without  *)
(*    a base (any record to fill, any configuration)                                           *)
(* ------------------------------------------------------------------------------------------ *)

(* the states that dereference the base (directly, or - SpecialRelativeOrAuthority - one step later) *)
Definition needs_base (st : state) : bool :=
  match st with SpecialRelativeOrAuthority | Relative | RelativeSlash => true | _ => false end.

Definition okst (base : option url) (st : state) : Prop := base <> None \/ needs_base st = false.

Section StepNP.
  Variable idna_raw : str -> str * bool.
  Variable c : cfg.
  Variable inp : list rune.

  Definition Q (base : option url) (o : outcome) : Prop :=
    match o with Panic => False | Cont m' => okst base (m_state m') | _ => True end.

  Lemma Q_mherr base u t f k : (forall u', Q base (k u')) -> Q base (mherr c u t f k).
  Proof.
    intros Hk. unfold mherr. destruct (handleError c u t f) as [u' [e|]]; [exact I | apply Hk].
  Qed.

  Ltac qwalk :=
    repeat first
      [ progress cbv beta
      | match goal with
        | |- Q _ (mherr _ _ _ _ _) => apply Q_mherr; intros ?u'
        | |- Q _ ((if ?b then _ else _) _) => destruct b
        | |- Q _ (if ?b then _ else _) => destruct b
        | |- Q _ (match ?x with _ => _ end) => destruct x
        end ].

  Ltac qleaf :=
    unfold Q, okst, mk; cbn [m_state needs_base];
    first [ exact I | right; reflexivity | left; discriminate ].

  (* under a state override a step panics only in a base-reading state without base *)
  Lemma step_Q base ov m : okst base (m_state m) -> Q base (step idna_raw c inp base (Some ov) m).
  Proof.
    intros Hok. destruct m as [st p e buf aF brF pwF u]. cbn [m_state] in Hok.
    destruct base as [b|].
    - destruct st;
        cbv beta iota zeta delta [step mk m_state m_ptr m_eof m_buf m_at m_br m_pw m_url overridden is_some];
        cbn [negb andb orb]; qwalk; qleaf.
    - destruct Hok as [Hok|Hok]; [congruence|].
      destruct st; cbn [needs_base] in Hok; try discriminate Hok;
        cbv beta iota zeta delta [step mk m_state m_ptr m_eof m_buf m_at m_br m_pw m_url overridden is_some];
        cbn [negb andb orb]; qwalk; qleaf.
  Qed.

  Lemma run_NP base ov : forall fuel m, okst base (m_state m) -> run idna_raw c inp base (Some ov) fuel m <> RPanic.
  Proof.
    induction fuel as [|f IH]; intros m Hok; [discriminate|].
    cbn [run]. pose proof (step_Q base ov m Hok) as HQ.
    destruct (step idna_raw c inp base (Some ov) m) as [m'|u'|u' e'|u'|]; cbn [Q] in HQ; try discriminate.
    - destruct (m_eof m'); [discriminate | apply IH; exact HQ].
    - contradiction.
  Qed.
End StepNP.

Section BasicNP.
  Variable idna_raw : str -> str * bool.
  Variable c : cfg.

  Lemma bp_start_NP baseUrl ov u : okst baseUrl ov -> bp_start idna_raw c baseUrl (Some ov) u <> RPanic.
  Proof.
    intros Hok. unfold bp_start.
    assert (Hok' : okst (option_map clone baseUrl) ov).
    { destruct Hok as [Hb|Hn]; [left | right; exact Hn]. destruct baseUrl; [discriminate | congruence]. }
    destruct (remove_tabnl_sv (c_acceptInvalid c) (u_input u)) as [i ch]. cbv zeta.
    destruct ch; [|apply run_NP; exact Hok'].
    destruct (handleError c u InvalidURLUnit false) as [u' [e|]]; [discriminate | apply run_NP; exact Hok'].
  Qed.

  (* with a state override: a base, or a state that does not read it, suffices - whatever the record to fill *)
  Theorem BasicParser_override_no_panic input baseUrl u0 ov :
    baseUrl <> None \/ needs_base ov = false ->
    BasicParser idna_raw c input baseUrl u0 (Some ov) <> RPanic.
  Proof.
    intros Hok. rewrite BasicParser_eq. destruct u0 as [u|]; [apply bp_start_NP; exact Hok|].
    cbv zeta. destruct (trim_c0space input) as [i ch]. destruct ch; [|apply bp_start_NP; exact Hok].
    destruct (handleError c (empty_url input) InvalidURLUnit false) as [u' [e|]]; [discriminate | apply bp_start_NP; exact Hok].
  Qed.

  (* without state override nothing is needed at all (NoPanic.BP_Post with the well-formedness part switched off) *)
  Theorem BasicParser_no_override_no_panic input baseUrl u0 :
    BasicParser idna_raw c input baseUrl u0 None <> RPanic.
  Proof.
    destruct (BP_Post idna_raw c false input baseUrl u0 None) as [HP _].
    - intros; exact I.
    - exact I.
    - intros E. rewrite E in HP. exact HP.
  Qed.

  (* the exact origin of a panic of BasicParser: no base, and one of the three base-reading states as override *)
  Theorem BasicParser_panic_origin input baseUrl u0 override :
    BasicParser idna_raw c input baseUrl u0 override = RPanic ->
    baseUrl = None /\
    (override = Some SpecialRelativeOrAuthority \/ override = Some Relative \/ override = Some RelativeSlash).
  Proof.
    intros E. destruct override as [ov|]; [|exfalso; exact (BasicParser_no_override_no_panic _ _ _ E)].
    destruct baseUrl as [b|].
    - exfalso. apply (BasicParser_override_no_panic input (Some b) u0 ov); [left; discriminate | exact E].
    - split; [reflexivity|].
      destruct ov;
        try (right; right; reflexivity); try (right; left; reflexivity); try (left; reflexivity);
        exfalso; refine (BasicParser_override_no_panic input None u0 _ _ E); right; reflexivity.
  Qed.
End BasicNP.

(* ------------------------------------------------------------------------------------------ *)
(* 3. The record left behind by the tail states PathStart / Path / Query / Fragment under an   *)
(*    override, with the hypotheses NoPanic.init_ok does not discharge from wf alone:          *)
(*    - Query: init_ok asks for a non-nil query; not needed (the nil check of the query state   *)
(*      is only reached without override);                                                      *)
(*    - PathStart: init_ok asks for a non-opaque path; needed only if the parser fails on       *)
(*      validation errors (c_fail), see PathStart_opaque_leaves_ill_formed_record below.        *)
(* ------------------------------------------------------------------------------------------ *)

Lemma handleError_nofail c u t : c_fail c = false -> snd (handleError c u t false) = None.
Proof. intros H. unfold handleError. cbn [snd orb]. rewrite H. reflexivity. Qed.

Section StepK.
  Variable idna_raw : str -> str * bool.
  Variable c : cfg.
  Variable inp : list rune.
  Variable base : option url.
  Variable ov : state.

  Definition pathok (u : url) : Prop := u_opaque u = false \/ c_fail c = false.

  Definition K (m : mstate) : Prop :=
    m_eof m = false /\
    match m_state m with
    | PathStart => wf (m_url m) /\ pathok (m_url m)
    | PathSt => pathok (m_url m)
    | QuerySt | FragmentSt => wf (m_url m)
    | _ => False
    end.

  Definition PostK (o : outcome) : Prop :=
    match o with
    | Panic => False
    | Cont m' => (m_eof m' = false -> K m') /\ (m_eof m' = true -> wf (m_url m'))
    | RetUrl u | RetErr u _ | RetNilNil u => wf u
    end.

  (* a non-failure validation error returns only if the parser fails on validation errors *)
  Lemma K_mherr u t k :
    (c_fail c = true -> wf u) ->
    (forall u', u_path u' = u_path u -> u_opaque u' = u_opaque u -> u_query u' = u_query u -> PostK (k u')) ->
    PostK (mherr c u t false k).
  Proof.
    intros Hfin Hk. unfold mherr. pose proof (sh_handleError c u t false) as Hs. apply sh_inv in Hs.
    destruct (c_fail c) eqn:Ef.
    - destruct (handleError c u t false) as [u' [e|]]; cbn [fst] in Hs; destruct Hs as (Hp & Ho & Hq).
      + cbn. unfold wf in *. rewrite Hp, Ho. auto.
      + apply Hk; assumption.
    - pose proof (handleError_nofail c u t Ef) as Hn.
      destruct (handleError c u t false) as [u' [e|]]; cbn [fst snd] in *; destruct Hs as (Hp & Ho & Hq).
      + discriminate Hn.
      + apply Hk; assumption.
  Qed.

  Ltac kwalk :=
    repeat first
      [ progress cbv beta
      | match goal with
        | |- PostK (mherr _ _ _ false _) => apply K_mherr; [ intros ?Hcf | intros ?u' ?Hp ?Ho ?Hq ]
        | |- PostK ((if ?b then _ else _) _) => destruct b eqn:?
        | |- PostK (if ?b then _ else _) => destruct b eqn:?
        | |- PostK (match ?x with _ => _ end) => destruct x eqn:?
        end ].

  Ltac knorm :=
    unfold PostK, K, pathok, wf, mk, addSegment in *;
    cbn [m_state m_url m_eof u_path u_opaque u_query
         set_input set_scheme set_username set_password set_host set_port set_path set_query set_fragment set_verrs set_sp] in *.

  Ltac kfin :=
    first
      [ discriminate
      | congruence
      | assumption
      | solve [ match goal with
                | H : u_opaque ?y = true -> u_path ?y <> [] |- u_path ?x <> [] =>
                    let E := fresh in intro E; apply H; congruence
                end ]
      | solve [eapply replaceLast_path; eassumption]
      | solve [eapply replace_last_nonnil; eassumption]
      | solve [left; congruence]
      | solve [right; congruence]
      | solve [exfalso; unfold rune_error in *; lia] ].

  Ltac kleaf :=
    knorm;
    repeat match goal with |- context [if ?b then _ else _] => destruct b eqn:? end;
    knorm;
    intros; repeat split; intros;
    repeat match goal with H : _ /\ _ |- _ => destruct H end;
    first [ solve [kfin]
          | solve [ match goal with H : _ \/ _ |- _ => destruct H; kfin end ]
          | idtac ].

  Lemma step_K m : K m -> PostK (step idna_raw c inp base (Some ov) m).
  Proof.
    intros HK. destruct m as [st p e buf aF brF pwF u].
    unfold K in HK. cbn [m_state m_url m_eof] in HK. destruct HK as (He & HK). subst e.
    destruct st; try contradiction;
      cbv beta iota zeta delta [step mk m_state m_ptr m_eof m_buf m_at m_br m_pw m_url overridden is_some isSpecialSchemeAndBackslash];
      destruct (n_inp inp <=? p + 1)%Z eqn:En;
      rewrite ?re_35, ?re_37, ?re_47, ?re_63, ?re_92;
      cbn [negb andb orb];
      rewrite ?orb_false_r, ?andb_false_r, ?orb_true_r, ?andb_true_r;
      cbn [negb andb orb];
      kwalk; kleaf.
  Qed.
End StepK.

(* what is left behind: a well-formed record (no panic, no fuel exhaustion) *)
Definition left_wf (r : result) : Prop :=
  match r with
  | RUrl u | RErr u _ | RNilNil u => wf u
  | RPanic | ROutOfFuel => False
  end.

Definition tail_init (c : cfg) (ov : state) (u : url) : Prop :=
  wf u /\
  match ov with
  | PathStart => pathok c u
  | QuerySt | FragmentSt => True
  | _ => False
  end.

Section BasicK.
  Variable idna_raw : str -> str * bool.
  Variable c : cfg.

  Lemma run_K inp base ov : forall fuel m, K c m ->
    match run idna_raw c inp base (Some ov) fuel m with
    | RPanic => False | ROutOfFuel => True | RUrl u | RErr u _ | RNilNil u => wf u end.
  Proof.
    induction fuel as [|f IH]; intros m HK; [exact I|].
    cbn [run]. pose proof (step_K idna_raw c inp base ov m HK) as HP.
    destruct (step idna_raw c inp base (Some ov) m) as [m'|u'|u' e'|u'|]; cbn [PostK] in HP; try exact HP.
    destruct HP as [H1 H2]. destruct (m_eof m') eqn:Ee; [apply H2; reflexivity | apply IH; apply H1; reflexivity].
  Qed.

  Lemma tail_init_sh ov u u' : sh u' = sh u -> tail_init c ov u -> tail_init c ov u'.
  Proof.
    intros Hs [Hw Ht]. split; [apply (wfp_sh true u u' Hs Hw)|].
    apply sh_inv in Hs. destruct Hs as (Hp & Ho & Hq). destruct ov; auto. unfold pathok in *. rewrite Ho. exact Ht.
  Qed.

  Lemma tail_init_K ov u : tail_init c ov u -> K c (mk ov (-1) false [] false false false u).
  Proof.
    intros [Hw Ht]. unfold K, mk. cbn [m_eof m_state m_url]. split; [reflexivity|].
    destruct ov; try contradiction; auto.
  Qed.

  Lemma bp_start_K baseUrl ov u : tail_init c ov u -> left_wf (bp_start idna_raw c baseUrl (Some ov) u).
  Proof.
    intros Hi. unfold bp_start.
    assert (Hk : forall u1, tail_init c ov u1 ->
      left_wf (run idna_raw c (decode (u_input u1)) (option_map clone baseUrl) (Some ov)
        (fuel_of (length (decode (u_input u1)))) (mk (start_state (Some ov)) (-1)%Z false [] false false false u1))).
    { intros u1 H1. cbn [start_state].
      pose proof (run_K (decode (u_input u1)) (option_map clone baseUrl) ov (fuel_of (length (decode (u_input u1)))) _
                    (tail_init_K ov u1 H1)) as HR.
      pose proof (run_never_out_of_fuel idna_raw c (decode (u_input u1)) (option_map clone baseUrl) (Some ov) ov u1) as HF.
      destruct (run idna_raw c (decode (u_input u1)) (option_map clone baseUrl) (Some ov)
                  (fuel_of (length (decode (u_input u1)))) (mk ov (-1)%Z false [] false false false u1));
        cbn [left_wf]; auto. }
    destruct (remove_tabnl_sv (c_acceptInvalid c) (u_input u)) as [i changed]. cbv zeta.
    destruct changed; [|apply Hk; exact Hi].
    pose proof (sh_handleError c u InvalidURLUnit false) as Hh.
    destruct (handleError c u InvalidURLUnit false) as [u' [e|]]; cbn [fst] in Hh.
    - cbn [left_wf]. apply (wfp_sh true u u' Hh). apply Hi.
    - apply Hk. apply (tail_init_sh ov u); [|exact Hi]. change (sh (set_input u' i)) with (sh u'). exact Hh.
  Qed.

  Lemma BasicParser_tail_left_wf input baseUrl u ov :
    tail_init c ov u -> left_wf (BasicParser idna_raw c input baseUrl (Some u) (Some ov)).
  Proof.
    intros Hi. rewrite BasicParser_eq. apply bp_start_K. apply (tail_init_sh ov u); [reflexivity | exact Hi].
  Qed.

  (* from NoPanic.BP_Post: the override states of the setters, under init_ok *)
  Lemma BasicParser_init_left_wf input baseUrl u ov :
    (forall b, baseUrl = Some b -> wf b) -> init_ok true (Some ov) u ->
    left_wf (BasicParser idna_raw c input baseUrl (Some u) (Some ov)).
  Proof.
    intros Hb Hi. destruct (BP_Post idna_raw c true input baseUrl (Some u) (Some ov) Hb Hi) as [HP HF].
    destruct (BasicParser idna_raw c input baseUrl (Some u) (Some ov)); cbn in HP |- *.
    - apply HP.
    - apply HP. reflexivity.
    - apply HP.
    - exact HP.
    - congruence.
  Qed.
End BasicK.

(* the state overrides the library's own setters use: SchemeStart(1) SetProtocol, Host(10) SetHost, Hostname(11) SetHostname,
   Port(15) SetPort, PathStart(17) SetPathname, Query(18) SetSearch, Fragment(19) SetHash *)
Definition setter_state (st : state) : Prop :=
  In st [SchemeStart; HostSt; HostnameSt; PortSt; PathStart; QuerySt; FragmentSt].

(* no panic: neither the record nor the base matters *)
Theorem direct_setter_states_no_panic : forall idna_raw c input base u0 st,
  setter_state st -> BasicParser idna_raw c input base u0 (Some st) <> RPanic.
Proof.
  intros idna_raw c input base u0 st Hst. apply BasicParser_override_no_panic. right.
  unfold setter_state in Hst. cbn [In] in Hst.
  destruct Hst as [<-|[<-|[<-|[<-|[<-|[<-|[<-|[]]]]]]]]; reflexivity.
Qed.

(* the record left behind is well formed again. The only hypothesis beyond wf u (and wf of the base, which the proof
   through NoPanic.BP_Post carries along): for PathStart, a non-opaque path OR a parser that does not fail on validation errors *)
Theorem direct_setter_states_total : forall idna_raw c input base u st,
  setter_state st -> wf u -> (forall b, base = Some b -> wf b) ->
  (st = PathStart -> u_opaque u = false \/ c_fail c = false) ->
  left_wf (BasicParser idna_raw c input base (Some u) (Some st)).
Proof.
  intros idna_raw c input base u st Hst Hw Hb Hps.
  unfold setter_state in Hst. cbn [In] in Hst.
  destruct Hst as [<-|[<-|[<-|[<-|[<-|[<-|[<-|[]]]]]]]].
  - apply BasicParser_init_left_wf; [exact Hb|]. cbn. auto.
  - apply BasicParser_init_left_wf; [exact Hb|]. cbn. auto.
  - apply BasicParser_init_left_wf; [exact Hb|]. cbn. auto.
  - apply BasicParser_init_left_wf; [exact Hb|]. cbn. auto.
  - apply BasicParser_tail_left_wf. split; [exact Hw | apply Hps; reflexivity].
  - apply BasicParser_tail_left_wf. split; [exact Hw | exact I].
  - apply BasicParser_tail_left_wf. split; [exact Hw | exact I].
Qed.

(* ------------------------------------------------------------------------------------------ *)
(* 4. ALL state overrides, for a parser that does not fail on validation errors (c_fail = false,*)
(*    the default): the record left behind is well formed. Only the Path state may hold an      *)
(*    ill-formed record (opaque, no segment) in between; it ends with a segment appended, and   *)
(*    without c_fail it cannot be left early.                                                    *)
(* ------------------------------------------------------------------------------------------ *)
Section StepK2.
  Variable idna_raw : str -> str * bool.
  Variable c : cfg.
  Variable inp : list rune.
  Variable base : option url.
  Variable ov : state.
  Hypothesis Hcf : c_fail c = false.
  Hypothesis Hbase : forall b, base = Some b -> wf b.

  Definition K2 (m : mstate) : Prop :=
    m_eof m = false /\ okst base (m_state m) /\
    match m_state m with PathSt => True | _ => wf (m_url m) end.

  Definition PostK2 (o : outcome) : Prop :=
    match o with
    | Panic => False
    | Cont m' => (m_eof m' = false -> K2 m') /\ (m_eof m' = true -> wf (m_url m'))
    | RetUrl u | RetErr u _ | RetNilNil u => wf u
    end.

  Lemma K2_mherr u t f k :
    (f = true -> wf u) ->
    (forall u', u_path u' = u_path u -> u_opaque u' = u_opaque u -> u_query u' = u_query u -> PostK2 (k u')) ->
    PostK2 (mherr c u t f k).
  Proof.
    intros Hfin Hk. unfold mherr. pose proof (sh_handleError c u t f) as Hs. apply sh_inv in Hs.
    destruct f.
    - destruct (handleError c u t true) as [u' [e|]]; cbn [fst] in Hs; destruct Hs as (Hp & Ho & Hq).
      + cbn. specialize (Hfin eq_refl). unfold wf in *. rewrite Hp, Ho. exact Hfin.
      + apply Hk; assumption.
    - pose proof (handleError_nofail c u t Hcf) as Hn.
      destruct (handleError c u t false) as [u' [e|]]; cbn [fst snd] in *; destruct Hs as (Hp & Ho & Hq).
      + discriminate Hn.
      + apply Hk; assumption.
  Qed.

  Ltac k2walk :=
    repeat first
      [ progress cbv beta
      | match goal with
        | |- PostK2 (mherr _ _ _ _ _) => apply K2_mherr; [ intros ?Hf | intros ?u' ?Hp ?Ho ?Hq ]
        | |- PostK2 (match parseHost ?a ?b ?u ?d ?e with _ => _ end) =>
            let E := fresh "Eph" in
            destruct (parseHost a b u d e) as [?u' ?h|?u' ?e'] eqn:E;
            [apply parseHost_Ok in E | apply parseHost_Er in E]; destruct E as (?Hp & ?Ho & ?Hq)
        | |- PostK2 ((if ?b then _ else _) _) => destruct b eqn:?
        | |- PostK2 (if ?b then _ else _) => destruct b eqn:?
        | |- PostK2 (match ?x with _ => _ end) => destruct x eqn:?
        end ].

  Ltac k2norm :=
    unfold PostK2, K2, okst, wf, mk, addSegment, copy_base_auth in *;
    cbn [m_state m_url m_eof needs_base u_path u_opaque u_query
         set_input set_scheme set_username set_password set_host set_port set_path set_query set_fragment set_verrs set_sp] in *;
    rewrite ?path_cleanDefaultPort, ?opaque_cleanDefaultPort, ?query_cleanDefaultPort in *;
    cbn [m_state m_url m_eof needs_base u_path u_opaque u_query
         set_input set_scheme set_username set_password set_host set_port set_path set_query set_fragment set_verrs set_sp] in *.

  Ltac k2fin :=
    first
      [ exact I
      | discriminate
      | congruence
      | assumption
      | solve [ match goal with
                | H : u_opaque ?y = true -> u_path ?y <> [] |- u_path ?x <> [] =>
                    let E := fresh in intro E; apply H; congruence
                end ]
      | solve [eapply replaceLast_path; eassumption]
      | solve [eapply replace_last_nonnil; eassumption]
      | solve [left; discriminate]
      | solve [left; congruence]
      | solve [right; reflexivity]
      | solve [exfalso; unfold rune_error in *; lia] ].

  Ltac k2leaf :=
    k2norm;
    repeat match goal with |- context [if ?b then _ else _] => destruct b eqn:? end;
    k2norm;
    intros; repeat split; intros;
    repeat match goal with H : _ /\ _ |- _ => destruct H end;
    first [ solve [k2fin] | idtac ].

  Lemma step_K2 m : K2 m -> PostK2 (step idna_raw c inp base (Some ov) m).
  Proof.
    intros HK. destruct m as [st p e buf aF brF pwF u].
    unfold K2 in HK. cbn [m_state m_url m_eof] in HK. destruct HK as (He & Hok & HK). subst e.
    destruct base as [b|] eqn:Eb; [ pose proof (Hbase b eq_refl) as Hwb | ].
    - destruct st;
      cbv beta iota zeta delta [step mk m_state m_ptr m_eof m_buf m_at m_br m_pw m_url overridden is_some isSpecialSchemeAndBackslash];
      destruct (n_inp inp <=? p + 1)%Z eqn:En;
      rewrite ?re_35, ?re_37, ?re_43, ?re_45, ?re_46, ?re_47, ?re_58, ?re_63, ?re_64, ?re_91, ?re_92, ?re_93,
              ?re_alpha, ?re_alnum, ?re_digit;
      cbn [negb andb orb];
      rewrite ?orb_false_r, ?andb_false_r, ?orb_true_r, ?andb_true_r;
      cbn [negb andb orb];
      k2walk; k2leaf.
    - destruct Hok as [Hok|Hok]; [congruence|].
      destruct st; cbn [needs_base] in Hok; try discriminate Hok;
      cbv beta iota zeta delta [step mk m_state m_ptr m_eof m_buf m_at m_br m_pw m_url overridden is_some isSpecialSchemeAndBackslash];
      destruct (n_inp inp <=? p + 1)%Z eqn:En;
      rewrite ?re_35, ?re_37, ?re_43, ?re_45, ?re_46, ?re_47, ?re_58, ?re_63, ?re_64, ?re_91, ?re_92, ?re_93,
              ?re_alpha, ?re_alnum, ?re_digit;
      cbn [negb andb orb];
      rewrite ?orb_false_r, ?andb_false_r, ?orb_true_r, ?andb_true_r;
      cbn [negb andb orb];
      k2walk; k2leaf.
  Qed.
End StepK2.

Section BasicK2.
  Variable idna_raw : str -> str * bool.
  Variable c : cfg.
  Hypothesis Hcf : c_fail c = false.

  Lemma run_K2 inp base ov : (forall b, base = Some b -> wf b) -> forall fuel m, K2 base m ->
    match run idna_raw c inp base (Some ov) fuel m with
    | RPanic => False | ROutOfFuel => True | RUrl u | RErr u _ | RNilNil u => wf u end.
  Proof.
    intros Hb. induction fuel as [|f IH]; intros m HK; [exact I|].
    cbn [run]. pose proof (step_K2 idna_raw c inp base ov Hcf Hb m HK) as HP.
    destruct (step idna_raw c inp base (Some ov) m) as [m'|u'|u' e'|u'|]; cbn [PostK2] in HP; try exact HP.
    destruct HP as [H1 H2]. destruct (m_eof m') eqn:Ee; [apply H2; reflexivity | apply IH; apply H1; reflexivity].
  Qed.

  Lemma bp_start_K2 baseUrl ov u :
    (forall b, baseUrl = Some b -> wf b) -> okst baseUrl ov -> wf u ->
    left_wf (bp_start idna_raw c baseUrl (Some ov) u).
  Proof.
    intros Hb Hok Hw. unfold bp_start.
    assert (Hb' : forall b, option_map clone baseUrl = Some b -> wf b).
    { intros b E. destruct baseUrl as [b0|]; [|discriminate E]. injection E as <-.
      apply (wfp_sh true b0); [reflexivity | apply Hb; reflexivity]. }
    assert (Hok' : okst (option_map clone baseUrl) ov).
    { destruct Hok as [H|H]; [left | right; exact H]. destruct baseUrl; [discriminate | congruence]. }
    assert (Hk : forall u1, wf u1 ->
      left_wf (run idna_raw c (decode (u_input u1)) (option_map clone baseUrl) (Some ov)
        (fuel_of (length (decode (u_input u1)))) (mk (start_state (Some ov)) (-1)%Z false [] false false false u1))).
    { intros u1 H1. cbn [start_state].
      assert (HK : K2 (option_map clone baseUrl) (mk ov (-1)%Z false [] false false false u1)).
      { unfold K2, mk. cbn [m_eof m_state m_url]. split; [reflexivity|]. split; [exact Hok'|]. destruct ov; auto. }
      pose proof (run_K2 (decode (u_input u1)) (option_map clone baseUrl) ov Hb' (fuel_of (length (decode (u_input u1)))) _ HK) as HR.
      pose proof (run_never_out_of_fuel idna_raw c (decode (u_input u1)) (option_map clone baseUrl) (Some ov) ov u1) as HF.
      destruct (run idna_raw c (decode (u_input u1)) (option_map clone baseUrl) (Some ov)
                  (fuel_of (length (decode (u_input u1)))) (mk ov (-1)%Z false [] false false false u1));
        cbn [left_wf]; auto. }
    destruct (remove_tabnl_sv (c_acceptInvalid c) (u_input u)) as [i changed]. cbv zeta.
    destruct changed; [|apply Hk; exact Hw].
    pose proof (sh_handleError c u InvalidURLUnit false) as Hh.
    destruct (handleError c u InvalidURLUnit false) as [u' [e|]]; cbn [fst] in Hh.
    - cbn [left_wf]. apply (wfp_sh true u u' Hh). exact Hw.
    - apply Hk. apply (wfp_sh true u); [|exact Hw]. change (sh (set_input u' i)) with (sh u'). exact Hh.
  Qed.

  (* every state override; the record to fill may be absent (nil) *)
  Theorem BasicParser_all_states_left_wf input baseUrl u0 ov :
    (forall b, baseUrl = Some b -> wf b) -> (baseUrl <> None \/ needs_base ov = false) ->
    (forall u, u0 = Some u -> wf u) ->
    left_wf (BasicParser idna_raw c input baseUrl u0 (Some ov)).
  Proof.
    intros Hb Hok Hu. rewrite BasicParser_eq. destruct u0 as [u|].
    - apply bp_start_K2; [exact Hb | exact Hok |]. apply (wfp_sh true u); [reflexivity | apply Hu; reflexivity].
    - cbv zeta. destruct (trim_c0space input) as [i ch].
      assert (Hwe : wf (empty_url input)) by apply wf_empty.
      destruct ch; [|apply bp_start_K2; assumption].
      pose proof (sh_handleError c (empty_url input) InvalidURLUnit false) as Hh.
      destruct (handleError c (empty_url input) InvalidURLUnit false) as [u' [e|]]; cbn [fst] in Hh.
      + cbn [left_wf]. apply (wfp_sh true _ u' Hh). exact Hwe.
      + apply bp_start_K2; [exact Hb | exact Hok |]. apply (wfp_sh true (empty_url input)); [|exact Hwe].
        change (sh (set_input u' i)) with (sh u'). exact Hh.
  Qed.
End BasicK2.

(* ------------------------------------------------------------------------------------------ *)
(* 5. The statements about Direct.direct                                                       *)
(* ------------------------------------------------------------------------------------------ *)

(* what direct shows of a result of BasicParser *)
Definition render (c : cfg) (given : bool) (r : result) : list str :=
  match r with
  | RUrl u => [85] :: obs_left c u
  | RErr u e => [69] :: verr_obs e :: (if given then obs_left c u else [])
  | RNilNil u => [78] :: (if given then obs_left c u else [])
  | RPanic => [[33]]
  | ROutOfFuel => [[70]]
  end.

(* the arguments direct builds: both records come from Parse / NewUrl, hence are well formed *)
Lemma direct_spec idna_raw c base start ov input l :
  direct idna_raw c base start ov input = Some l ->
  exists ob u0,
    (ob = None <-> base = None) /\
    (forall b, ob = Some b -> wf b) /\ (forall u, u0 = Some u -> wf u) /\
    l = render c (is_some u0) (BasicParser idna_raw c input ob u0 (state_of_N ov)) /\
    (u0 = None <-> start = DNil).
Proof.
  unfold direct. intros H.
  destruct base as [bt|].
  - destruct (Parse idna_raw c bt) as [b| | | |] eqn:Eb; try discriminate H.
    pose proof (Parse_wf idna_raw c bt b Eb) as Hwb.
    destruct start as [| |s].
    + injection H as <-. exists (Some b), None. repeat split; intros; try discriminate; try congruence;
      try (match goal with H0 : Some _ = Some _ |- _ => injection H0 as <-; assumption end).
    + injection H as <-. exists (Some b), (Some (empty_url [])). repeat split; intros; try discriminate; try congruence;
      try (match goal with H0 : Some _ = Some _ |- _ => injection H0 as <-; assumption end).
      match goal with H0 : Some _ = Some _ |- _ => injection H0 as <-; apply wf_empty end.
    + destruct (Parse idna_raw c s) as [u| | | |] eqn:Eu; try discriminate H.
      pose proof (Parse_wf idna_raw c s u Eu) as Hwu.
      injection H as <-. exists (Some b), (Some u). repeat split; intros; try discriminate; try congruence;
      try (match goal with H0 : Some _ = Some _ |- _ => injection H0 as <-; assumption end).
  - destruct start as [| |s].
    + injection H as <-. exists None, None. repeat split; intros; try discriminate; try congruence;
      try (match goal with H0 : Some _ = Some _ |- _ => injection H0 as <-; assumption end).
    + injection H as <-. exists None, (Some (empty_url [])). repeat split; intros; try discriminate; try congruence;
      try (match goal with H0 : Some _ = Some _ |- _ => injection H0 as <-; assumption end).
      match goal with H0 : Some _ = Some _ |- _ => injection H0 as <-; apply wf_empty end.
    + destruct (Parse idna_raw c s) as [u| | | |] eqn:Eu; try discriminate H.
      pose proof (Parse_wf idna_raw c s u Eu) as Hwu.
      injection H as <-. exists None, (Some u). repeat split; intros; try discriminate; try congruence;
      try (match goal with H0 : Some _ = Some _ |- _ => injection H0 as <-; assumption end).
Qed.

Lemma render_panic c given r : render c given r = [[33]] -> r = RPanic.
Proof. destruct r; cbn [render]; try discriminate; reflexivity. Qed.

Lemma state_of_N_needs_base ov st : state_of_N ov = Some st -> needs_base st = true -> ov = 5 \/ ov = 20 \/ ov = 21.
Proof.
  intros H Hn. unfold state_of_N in H. destruct ov as [|p]; [discriminate|].
  repeat match type of H with context [match ?q with _ => _ end] => is_var q; destruct q end;
    try discriminate H; injection H as <-; try discriminate Hn; auto.
Qed.

(* O6, the exact form: direct answers "!" only without base and only for the overrides 5, 20, 21 *)
Theorem direct_panic_origin : forall idna_raw c base start ov input,
  direct idna_raw c base start ov input = Some [[33]] ->
  base = None /\ (ov = 5 \/ ov = 20 \/ ov = 21).
Proof.
  intros idna_raw c base start ov input H.
  destruct (direct_spec _ _ _ _ _ _ _ H) as (ob & u0 & Hob & _ & _ & Hl & _).
  symmetry in Hl. apply render_panic in Hl. apply BasicParser_panic_origin in Hl. destruct Hl as [Hn Hs].
  split; [apply Hob; exact Hn|].
  destruct Hs as [Hs|[Hs|Hs]]; apply state_of_N_needs_base in Hs; auto.
Qed.

(* the overrides of the setters: never "!", whatever base and record *)
Theorem direct_setter_states_no_panic_direct : forall idna_raw c base start ov input l,
  In ov [1; 10; 11; 15; 17; 18; 19] ->
  direct idna_raw c base start ov input = Some l -> l <> [[33]].
Proof.
  intros idna_raw c base start ov input l Hin H E. subst l.
  apply direct_panic_origin in H. destruct H as [_ H]. cbn [In] in Hin.
  destruct H as [-> | [-> | ->]]; repeat (destruct Hin as [Hin|Hin]; [discriminate Hin|]); exact Hin.
Qed.

(* with a base: never "!", for every override number (a state, or none) *)
Theorem direct_all_states_total_with_base : forall idna_raw c b start ov input l,
  direct idna_raw c (Some b) start ov input = Some l -> l <> [[33]].
Proof.
  intros idna_raw c b start ov input l H E. subst l.
  apply direct_panic_origin in H. destruct H as [H _]. discriminate H.
Qed.

Lemma obs_left_wf c u : wf u -> obs_left c u = obs_url c u.
Proof.
  intros Hw. unfold obs_left. pose proof (getters_total u false Hw) as [_ Hp].
  destruct (Pathname u); [reflexivity | congruence].
Qed.

(* the record left behind, for a parser that does not fail on validation errors: every override, with a base or with a
   state that does not read it. "G" (a record on which Pathname / Href panic) is never shown: obs_left_wf *)
Theorem direct_all_states_record_wf : forall idna_raw c base start ov st input l,
  c_fail c = false -> state_of_N ov = Some st -> (base <> None \/ needs_base st = false) ->
  direct idna_raw c base start ov input = Some l ->
  exists r, l = render c (match start with DNil => false | _ => true end) r /\ left_wf r.
Proof.
  intros idna_raw c base start ov st input l Hcf Hst Hok H.
  destruct (direct_spec _ _ _ _ _ _ _ H) as (ob & u0 & Hob & Hwb & Hwu & Hl & Hs).
  exists (BasicParser idna_raw c input ob u0 (state_of_N ov)). split.
  - rewrite Hl. f_equal. destruct u0 as [u|]; destruct start as [| |s]; cbn [is_some]; try reflexivity; exfalso.
    + destruct Hs as [_ Hs]. specialize (Hs eq_refl). discriminate Hs.
    + destruct Hs as [Hs _]. specialize (Hs eq_refl). discriminate Hs.
    + destruct Hs as [Hs _]. specialize (Hs eq_refl). discriminate Hs.
  - rewrite Hst. apply BasicParser_all_states_left_wf; auto.
    destruct Hok as [Hb|Hn]; [left | right; exact Hn]. intros E. apply Hb. apply Hob. exact E.
Qed.

(* ------------------------------------------------------------------------------------------ *)
(* 6. The nil-base panics in general form                                                      *)
(* ------------------------------------------------------------------------------------------ *)

(* override Relative without base: the very first step dereferences the base, whatever the input, the record and
   the configuration; the call can only end earlier with the tab / newline / trimming error of a failing parser *)
Theorem BasicParser_Relative_nil_base : forall idna_raw c input u0,
  BasicParser idna_raw c input None u0 (Some Relative) = RPanic \/
  exists u e, BasicParser idna_raw c input None u0 (Some Relative) = RErr u e.
Proof.
  intros idna_raw c input u0. rewrite BasicParser_eq.
  assert (Hrun : forall u, run idna_raw c (decode (u_input u)) None (Some Relative) (fuel_of (length (decode (u_input u))))
                      (mk Relative (-1)%Z false [] false false false u) = RPanic).
  { intros u. destruct (fuel_of (length (decode (u_input u)))) as [|f] eqn:Ef; [unfold fuel_of in Ef; lia|]. reflexivity. }
  assert (Hs : forall u, bp_start idna_raw c None (Some Relative) u = RPanic \/
                    exists u' e, bp_start idna_raw c None (Some Relative) u = RErr u' e).
  { intros u. unfold bp_start. destruct (remove_tabnl_sv (c_acceptInvalid c) (u_input u)) as [i ch]. cbv zeta.
    cbn [option_map start_state].
    destruct ch; [|left; apply Hrun].
    destruct (handleError c u InvalidURLUnit false) as [u' [e|]]; [right; eauto | left; apply Hrun]. }
  destruct u0 as [u|]; [apply Hs|]. cbv zeta. destruct (trim_c0space input) as [i ch].
  destruct ch; [|apply Hs].
  destruct (handleError c (empty_url input) InvalidURLUnit false) as [u' [e|]]; [right; eauto | apply Hs].
Qed.

Corollary BasicParser_Relative_nil_base_panics : forall idna_raw c input u0,
  c_fail c = false -> BasicParser idna_raw c input None u0 (Some Relative) = RPanic.
Proof.
  intros idna_raw c input u0 Hcf.
  destruct (BasicParser_Relative_nil_base idna_raw c input u0) as [H|(u & e & H)]; [exact H|].
  exfalso.
  revert H. rewrite BasicParser_eq.
  assert (Hs : forall u1, bp_start idna_raw c None (Some Relative) u1 <> RErr u e).
  { intros u1. unfold bp_start. destruct (remove_tabnl_sv (c_acceptInvalid c) (u_input u1)) as [i ch]. cbv zeta.
    cbn [option_map start_state].
    assert (Hrun : forall u2, run idna_raw c (decode (u_input u2)) None (Some Relative) (fuel_of (length (decode (u_input u2))))
                      (mk Relative (-1)%Z false [] false false false u2) <> RErr u e).
    { intros u2. destruct (fuel_of (length (decode (u_input u2)))) as [|f] eqn:Ef; [unfold fuel_of in Ef; lia|]. discriminate. }
    destruct ch; [|apply Hrun].
    pose proof (handleError_nofail c u1 InvalidURLUnit Hcf) as Hn.
    destruct (handleError c u1 InvalidURLUnit false) as [u' [e'|]]; [discriminate Hn | apply Hrun]. }
  destruct u0 as [u1|]; [apply Hs|]. cbv zeta. destruct (trim_c0space input) as [i ch].
  destruct ch; [|apply Hs].
  pose proof (handleError_nofail c (empty_url input) InvalidURLUnit Hcf) as Hn.
  destruct (handleError c (empty_url input) InvalidURLUnit false) as [u' [e'|]]; [discriminate Hn | apply Hs].
Qed.

(* ------------------------------------------------------------------------------------------ *)
(* 7. Concrete instances: witnesses, premises satisfiable, hypotheses necessary                 *)
(* ------------------------------------------------------------------------------------------ *)
From Verif Require Import Gen.Options.
From Coq Require Import String.
Local Open Scope string_scope.

Definition idna_id (s : str) : str * bool := (s, false).

(* O6: the three nil-base panics ... *)
Example direct_special_relative_or_authority_nil_base_panics :
  direct idna_id default_cfg None DNil 5 (bs "x") = Some [[33]].
Proof. vm_compute. reflexivity. Qed.
Example direct_relative_nil_base_panics :
  direct idna_id default_cfg None DNil 20 (bs "x") = Some [[33]].
Proof. vm_compute. reflexivity. Qed.
Example direct_relative_slash_nil_base_panics :
  direct idna_id default_cfg None DNil 21 (bs "x") = Some [[33]].
Proof. vm_compute. reflexivity. Qed.
(* ... also with a parsed record to fill and with the empty input ... *)
Example direct_nil_base_panics_parsed_record :
  forallb (fun ov => match direct idna_id default_cfg None (DParsed (bs "http://h/p?q#f")) ov [] with
                     | Some [[33]] => true | _ => false end) [5; 20; 21] = true.
Proof. vm_compute. reflexivity. Qed.
(* ... but not for every input: "//h" (5) and "/y" (21) pass the base dereference by *)
Example direct_nil_base_not_every_input :
  (exists l, direct idna_id default_cfg None DNew 5 (bs "//h") = Some ([85] :: l)) /\
  (exists l, direct idna_id default_cfg None DNew 21 (bs "/y") = Some ([85] :: l)).
Proof. split; eexists; vm_compute; reflexivity. Qed.
(* ... and they disappear with a base: the same calls return a URL ("U" and the getters) *)
Example direct_with_base_no_panic :
  map (fun ov => match direct idna_id default_cfg (Some (bs "http://h/p")) DNil ov (bs "x") with
                 | Some ([85] :: href :: _) => href | _ => [] end) [5; 20; 21]
  = [bs "http://h/x"; bs "http://h/x"; bs "://h/x"].
Proof. vm_compute. reflexivity. Qed.

(* the premises of direct_setter_states_total hold for an opaque parse result and the default parser, PathStart included *)
Example direct_setter_states_total_premises :
  exists u, Parse idna_id default_cfg (bs "mailto:x?q") = PUrl u /\ wf u /\ u_opaque u = true /\
    (forall st, st = PathStart -> u_opaque u = false \/ c_fail default_cfg = false) /\
    left_wf (BasicParser idna_id default_cfg (bs "../^") None (Some u) (Some PathStart)).
Proof.
  eexists. split; [vm_compute; reflexivity|]. split; [unfold wf; cbn; discriminate|]. split; [reflexivity|].
  split; [intros; right; reflexivity|]. vm_compute. discriminate.
Qed.

(* THE HYPOTHESIS ON PathStart IS NECESSARY. Go level:
     p := url.NewParser(url.WithFailOnValidationError()); u, _ := p.Parse("mailto:x")
     _, err := p.BasicParser("../^", nil, u, url.StatePathStart)   // err: invalid URL unit
     u.Pathname()  /  u.Href(false)                                // index out of range: opaque path without segment
   (SetPathname itself is safe: it returns early on an opaque path.) *)
Example PathStart_opaque_leaves_ill_formed_record :
  exists u u' e, Parse idna_id opt_WithFailOnValidationError (bs "mailto:x") = PUrl u /\ wf u /\
    BasicParser idna_id opt_WithFailOnValidationError (bs "../^") None (Some u) (Some PathStart) = RErr u' e /\
    ~ wf u' /\ Pathname u' = None /\ Href u' false = None /\
    direct idna_id opt_WithFailOnValidationError None (DParsed (bs "mailto:x")) 17 (bs "../^")
      = Some [[69]; bs "19:0"; [71]].
Proof.
  eexists. eexists. eexists. split; [vm_compute; reflexivity|]. split; [unfold wf; cbn; discriminate|].
  split; [vm_compute; reflexivity|]. split; [intros H; apply H; reflexivity|].
  split; [reflexivity|]. split; vm_compute; reflexivity.
Qed.

(* the statement asked for - every override, a base, parse results, ANY configuration - is false ... *)
Definition direct_all_states_left_wf_full : Prop :=
  forall idna_raw c bt b s u ov st input,
    Parse idna_raw c bt = PUrl b -> Parse idna_raw c s = PUrl u -> state_of_N ov = Some st ->
    left_wf (BasicParser idna_raw c input (Some b) (Some u) (Some st)).

Definition ill_left (c : cfg) (bt s : string) (ov : N) (input : string) : bool :=
  match direct idna_id c (Some (bs bt)) (DParsed (bs s)) ov (bs input) with
  | Some [[69]; _; [71]] => true
  | _ => false
  end.

(* ... for PathOrAuthority(8), File(12), FileSlash(14), Path(16), PathStart(17), RelativeSlash(21) with an opaque record to
   fill, and for Relative(20) with an opaque base, when the parser fails on validation errors: the error return leaves a
   record on which Pathname / Href panic ("G") *)
Example direct_all_states_left_wf_refuted_witnesses :
  forallb (fun ov => ill_left opt_WithFailOnValidationError "http://h/p" "mailto:x" ov "../^") [8; 12; 14; 16; 17; 21] = true /\
  ill_left opt_WithFailOnValidationError "mailto:x" "http://h/p?q#f" 20 "../^" = true.
Proof. split; vm_compute; reflexivity. Qed.

Theorem direct_all_states_left_wf_refuted : ~ direct_all_states_left_wf_full.
Proof.
  intros H.
  destruct (Parse idna_id opt_WithFailOnValidationError (bs "http://h/p")) as [b| | | |] eqn:Eb;
    try (vm_compute in Eb; discriminate Eb).
  destruct (Parse idna_id opt_WithFailOnValidationError (bs "mailto:x")) as [u| | | |] eqn:Eu;
    try (vm_compute in Eu; discriminate Eu).
  specialize (H idna_id opt_WithFailOnValidationError (bs "http://h/p") b (bs "mailto:x") u 16%N PathSt (bs "../^") Eb Eu eq_refl).
  vm_compute in Eb. injection Eb as <-. vm_compute in Eu. injection Eu as <-.
  vm_compute in H. apply H; reflexivity.
Qed.

(* with the default parser the same calls leave well-formed records (instances of direct_all_states_record_wf) *)
Example direct_all_states_default_cfg_instances :
  forallb (fun ov => negb (ill_left default_cfg "http://h/p" "mailto:x" ov "../^")) [8; 12; 14; 16; 17; 21] = true /\
  ill_left default_cfg "mailto:x" "http://h/p?q#f" 20 "../^" = false.
Proof. split; vm_compute; reflexivity. Qed.

Print Assumptions direct_never_out_of_fuel.
Print Assumptions BasicParser_panic_origin.
Print Assumptions direct_setter_states_no_panic.
Print Assumptions direct_setter_states_total.
Print Assumptions BasicParser_all_states_left_wf.
Print Assumptions direct_panic_origin.
Print Assumptions direct_setter_states_no_panic_direct.
Print Assumptions direct_all_states_total_with_base.
Print Assumptions direct_all_states_record_wf.
Print Assumptions BasicParser_Relative_nil_base.
Print Assumptions BasicParser_Relative_nil_base_panics.
Print Assumptions PathStart_opaque_leaves_ill_formed_record.
Print Assumptions direct_all_states_left_wf_refuted.
