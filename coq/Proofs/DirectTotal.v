(* Direct calls of Parser.BasicParser (Model/Direct.v): termination, absence of panics under the state overrides,
   the record left behind, and the nil-base panics (observation O6) as theorems. *)
From Verif Require Import Lib.Base Lib.Utf8 Lib.GoStr Model.Cfg Gen.Tables Model.Sets Model.Percent Model.Url Model.Host Model.Machine Model.Api Model.Obs Model.Direct.
From Verif Require Import Proofs.Termination Proofs.NoPanic.
From Coq Require Import Lia ZifyBool ZifyN ZifyNat.

Local Open Scope N_scope.

(* ------------------------------------------------------------------------------------------ *)
(* 1. Termination                                                                              *)
(* ------------------------------------------------------------------------------------------ *)

Theorem direct_never_out_of_fuel : forall idna_raw c base start ov input l,
  direct idna_raw c base start ov input = Some l -> l <> [[70]].
Proof.
  intros idna_raw c base start ov input l. unfold direct.
  destruct (match base with None => Some None | Some b => _ end) as [b|]; [|discriminate].
  destruct (match start with DNil => Some None | DNew => _ | DParsed s => _ end) as [u0|]; [|discriminate].
  intros H. injection H as <-.
  pose proof (BasicParser_never_out_of_fuel idna_raw c input b u0 (state_of_N ov)) as HF.
  destruct (BasicParser idna_raw c input b u0 (state_of_N ov)); try discriminate. congruence.
Qed.

(* ------------------------------------------------------------------------------------------ *)
(* 2. Where a panic can come from: only the three states that read the base, and only without  *)
(*    a base (any record to fill, any configuration)                                           *)
(* ------------------------------------------------------------------------------------------ *)

(* the states that dereference the base (directly, or - SpecialRelativeOrAuthority - one step later) *)
Definition needs_base (st : state) : bool :=
  match st with SpecialRelativeOrAuthority | Relative | RelativeSlash => true | _ => false end.

Definition okst (base : option url) (st : state) : Prop := base <> None \/ needs_base st = false.

Section StepNP.
  Variable idna_raw : str -> str * bool.
  Variable c : cfg.
  Variable inp : list rune.

  Definition Q (base : option url) (o : outcome) : Prop :=
    match o with Panic => False | Cont m' => okst base (m_state m') | _ => True end.

  Lemma Q_mherr base u t f k : (forall u', Q base (k u')) -> Q base (mherr c u t f k).
  Proof.
    intros Hk. unfold mherr. destruct (handleError c u t f) as [u' [e|]]; [exact I | apply Hk].
  Qed.

  Ltac qwalk :=
    repeat first
      [ progress cbv beta
      | match goal with
        | |- Q _ (mherr _ _ _ _ _) => apply Q_mherr; intros ?u'
        | |- Q _ ((if ?b then _ else _) _) => destruct b
        | |- Q _ (if ?b then _ else _) => destruct b
        | |- Q _ (match ?x with _ => _ end) => destruct x
        end ].

  Ltac qleaf :=
    unfold Q, okst, mk; cbn [m_state needs_base];
    first [ exact I | right; reflexivity | left; discriminate ].

  (* under a state override a step panics only in a base-reading state without base *)
  Lemma step_Q base ov m : okst base (m_state m) -> Q base (step idna_raw c inp base (Some ov) m).
  Proof.
    intros Hok. destruct m as [st p e buf aF brF pwF u]. cbn [m_state] in Hok.
    destruct base as [b|].
    - destruct st;
        cbv beta iota zeta delta [step mk m_state m_ptr m_eof m_buf m_at m_br m_pw m_url overridden is_some];
        qwalk; qleaf.
    - destruct Hok as [Hok|Hok]; [congruence|].
      destruct st; cbn [needs_base] in Hok; try discriminate Hok;
        cbv beta iota zeta delta [step mk m_state m_ptr m_eof m_buf m_at m_br m_pw m_url overridden is_some];
        qwalk; qleaf.
  Qed.

  Lemma run_NP base ov : forall fuel m, okst base (m_state m) -> run idna_raw c inp base (Some ov) fuel m <> RPanic.
  Proof.
    induction fuel as [|f IH]; intros m Hok; [discriminate|].
    cbn [run]. pose proof (step_Q base ov m Hok) as HQ.
    destruct (step idna_raw c inp base (Some ov) m) as [m'|u'|u' e'|u'|]; cbn [Q] in HQ; try discriminate.
    - destruct (m_eof m'); [discriminate | apply IH; exact HQ].
    - contradiction.
  Qed.
End StepNP.

Section BasicNP.
  Variable idna_raw : str -> str * bool.
  Variable c : cfg.

  Lemma bp_start_NP baseUrl ov u : okst baseUrl ov -> bp_start idna_raw c baseUrl (Some ov) u <> RPanic.
  Proof.
    intros Hok. unfold bp_start.
    assert (Hok' : okst (option_map clone baseUrl) ov).
    { destruct Hok as [Hb|Hn]; [left | right; exact Hn]. destruct baseUrl; [discriminate | congruence]. }
    destruct (remove_tabnl_sv (c_acceptInvalid c) (u_input u)) as [i ch]. cbv zeta.
    destruct ch; [|apply run_NP; exact Hok'].
    destruct (handleError c u InvalidURLUnit false) as [u' [e|]]; [discriminate | apply run_NP; exact Hok'].
  Qed.

  (* with a state override: a base, or a state that does not read it, suffices - whatever the record to fill *)
  Theorem BasicParser_override_no_panic input baseUrl u0 ov :
    baseUrl <> None \/ needs_base ov = false ->
    BasicParser idna_raw c input baseUrl u0 (Some ov) <> RPanic.
  Proof.
    intros Hok. rewrite BasicParser_eq. destruct u0 as [u|]; [apply bp_start_NP; exact Hok|].
    cbv zeta. destruct (trim_c0space input) as [i ch]. destruct ch; [|apply bp_start_NP; exact Hok].
    destruct (handleError c (empty_url input) InvalidURLUnit false) as [u' [e|]]; [discriminate | apply bp_start_NP; exact Hok].
  Qed.

  (* without state override nothing is needed at all (NoPanic.BP_Post with the well-formedness part switched off) *)
  Theorem BasicParser_no_override_no_panic input baseUrl u0 :
    BasicParser idna_raw c input baseUrl u0 None <> RPanic.
  Proof.
    destruct (BP_Post idna_raw c false input baseUrl u0 None) as [HP _].
    - intros; exact I.
    - exact I.
    - intros E. rewrite E in HP. exact HP.
  Qed.

  (* the exact origin of a panic of BasicParser: no base, and one of the three base-reading states as override *)
  Theorem BasicParser_panic_origin input baseUrl u0 override :
    BasicParser idna_raw c input baseUrl u0 override = RPanic ->
    baseUrl = None /\
    (override = Some SpecialRelativeOrAuthority \/ override = Some Relative \/ override = Some RelativeSlash).
  Proof.
    intros E. destruct override as [ov|]; [|exfalso; exact (BasicParser_no_override_no_panic _ _ _ E)].
    destruct baseUrl as [b|].
    - exfalso. apply (BasicParser_override_no_panic input (Some b) u0 ov); [left; discriminate | exact E].
    - split; [reflexivity|].
      destruct ov; try (exfalso; apply (BasicParser_override_no_panic input None u0 _ (or_intror eq_refl) E)); auto.
  Qed.
End BasicNP.
