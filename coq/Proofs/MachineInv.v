(* C04 / C19, second half: the record invariant [Inv] of RecordInv.v is established by parsing and
   preserved by the operations of the public API.
     Part A: byte-level facts about the percent-encoder; the simple setters, Clone, sp_update.
     Part B: the shapes of what parseHost returns.
     Part C: a per-state invariant [MInv] of the parser state machine (no state override), one lemma
             per state for all 21 states, hence Parse / UrlParse / ParseRef establish [Inv].
     Part D: the same under a state override (the 10 states a setter can reach), hence every setter
             preserves [Inv]; operation histories (Obs.hstep / Obs.history). *)
From Verif Require Import Lib.Base Lib.Utf8 Lib.GoStr Model.Cfg Gen.Tables Gen.Options Model.Sets Model.Percent
  Model.Url Model.Host Model.Machine Model.Api Model.Canon Model.Obs Model.Preds.
From Verif Require Import Proofs.Utf8Proofs Proofs.Termination Proofs.RecordInv.
From Coq Require Import Lia ZifyBool ZifyN ZifyNat.

Local Arguments N.mul : simpl never.
Local Arguments N.add : simpl never.
Local Arguments N.sub : simpl never.
Local Arguments N.div : simpl never.
Local Arguments N.modulo : simpl never.
Local Arguments N.ltb : simpl never.
Local Arguments N.leb : simpl never.
Local Arguments N.eqb : simpl never.

(* projections of the field updates compute *)
Ltac fields :=
  cbn [u_input u_scheme u_username u_password u_host u_port u_decodedPort u_path u_opaque u_query u_fragment
       u_verrs u_sp set_input set_scheme set_username set_password set_host set_port set_path set_query
       set_fragment set_verrs set_sp].
Ltac fields_in H :=
  cbn [u_input u_scheme u_username u_password u_host u_port u_decodedPort u_path u_opaque u_query u_fragment
       u_verrs u_sp set_input set_scheme set_username set_password set_host set_port set_path set_query
       set_fragment set_verrs set_sp] in H.

(* ================================================================== *)
(* Part A.1  [Inv] reads ten fields only                                *)
(* ================================================================== *)

Definition same_fields (u u' : url) : Prop :=
  u_scheme u = u_scheme u' /\ u_username u = u_username u' /\ u_password u = u_password u' /\
  u_host u = u_host u' /\ u_port u = u_port u' /\ u_decodedPort u = u_decodedPort u' /\
  u_path u = u_path u' /\ u_opaque u = u_opaque u' /\ u_query u = u_query u' /\ u_fragment u = u_fragment u'.

Lemma same_fields_refl : forall u, same_fields u u.
Proof. intro u. repeat split. Qed.

Lemma same_fields_trans : forall u1 u2 u3, same_fields u1 u2 -> same_fields u2 u3 -> same_fields u1 u3.
Proof.
  intros u1 u2 u3 [A1 [A2 [A3 [A4 [A5 [A6 [A7 [A8 [A9 A10]]]]]]]]] [B1 [B2 [B3 [B4 [B5 [B6 [B7 [B8 [B9 B10]]]]]]]]].
  repeat split; congruence.
Qed.

Lemma inv_b_ext : forall c u u', same_fields u u' -> inv_b c u = inv_b c u'.
Proof.
  intros c u u' [A1 [A2 [A3 [A4 [A5 [A6 [A7 [A8 [A9 A10]]]]]]]]].
  unfold inv_b, qset, fset, IsSpecialScheme. rewrite A1, A2, A3, A4, A5, A6, A7, A8, A9, A10. reflexivity.
Qed.

Lemma Inv_ext : forall c u u', same_fields u u' -> Inv c u -> Inv c u'.
Proof. intros c u u' S H. apply inv_b_iff. rewrite <- (inv_b_ext c u u' S). apply inv_b_iff. exact H. Qed.

Lemma Inv_set_verrs : forall c u v, Inv c u -> Inv c (set_verrs u v).
Proof. intros c u v. apply Inv_ext. repeat split. Qed.
Lemma Inv_set_sp : forall c u v, Inv c u -> Inv c (set_sp u v).
Proof. intros c u v. apply Inv_ext. repeat split. Qed.
Lemma Inv_set_input : forall c u v, Inv c u -> Inv c (set_input u v).
Proof. intros c u v. apply Inv_ext. repeat split. Qed.

Theorem Clone_Inv : forall c u, Inv c u -> Inv c (Clone u).
Proof. intros c u. apply Inv_set_verrs. Qed.
Print Assumptions Clone_Inv.

(* ================================================================== *)
(* Part A.2  what the percent-encoder emits                             *)
(* ================================================================== *)

Definition uhex : list N := [48;49;50;51;52;53;54;55;56;57;65;66;67;68;69;70].

Lemma hex_upper_uhex : forall n, n < 16 -> In (hex_upper n) uhex.
Proof.
  intros n H.
  assert (E : n = 0 \/ n = 1 \/ n = 2 \/ n = 3 \/ n = 4 \/ n = 5 \/ n = 6 \/ n = 7 \/ n = 8 \/ n = 9 \/
              n = 10 \/ n = 11 \/ n = 12 \/ n = 13 \/ n = 14 \/ n = 15) by lia.
  repeat (destruct E as [->|E]; [vm_compute; tauto|]). subst n. vm_compute. tauto.
Qed.

Section EncBytes.
  (* a property of bytes that holds of '%' and of the upper-case hex digits *)
  Variable Q : N -> bool.
  Hypothesis Q37 : Q 37 = true.
  Hypothesis Qhex : forallb Q uhex = true.

  Lemma Q_pct_byte : forall b, b < 256 -> forallb Q (pct_byte b) = true.
  Proof.
    intros b Hb. unfold pct_byte. cbn [forallb]. rewrite Q37.
    pose proof (proj1 (forallb_forall Q uhex) Qhex) as F.
    rewrite (F _ (hex_upper_uhex (b / 16) ltac:(lia))).
    rewrite (F _ (hex_upper_uhex (b mod 16) ltac:(lia))). reflexivity.
  Qed.

  Lemma Q_escapes : forall s, Forall (fun b => b < 256) s -> forallb Q (flat_map pct_byte s) = true.
  Proof.
    induction 1 as [|b s Hb Hs IH]; [reflexivity|].
    cbn [flat_map]. rewrite forallb_app, (Q_pct_byte b Hb), IH. reflexivity.
  Qed.

  Lemma Q_enc_always : forall c r, forallb Q (percentEncodeRune c r None) = true.
  Proof.
    intros c r. unfold percentEncodeRune. destruct (c_latin1 c).
    - apply Q_pct_byte. unfold latin1_enc. destruct (r <? 256) eqn:E; cbn [fst]; lia.
    - apply Q_escapes. apply utf8_enc_bytes.
  Qed.

  Lemma Q_enc_rune : forall c r t, (RuneShouldBeEncoded t r = false -> Q r = true) ->
    forallb Q (percentEncodeRune c r (Some t)) = true.
  Proof.
    intros c r t H. unfold percentEncodeRune. destruct (RuneShouldBeEncoded t r) eqn:E.
    - apply (Q_enc_always c r).
    - assert (r < 128).
      { unfold RuneShouldBeEncoded in E. destruct (bs_test (bits t) r); [rewrite orb_true_r in E; discriminate|]. lia. }
      rewrite utf8_enc_ascii by assumption. cbn [forallb]. rewrite (H eq_refl). reflexivity.
  Qed.

  Lemma pes_set_mono : forall t bs r, RuneShouldBeEncoded (pes_set t bs) r = false -> RuneShouldBeEncoded t r = false.
  Proof.
    intros t bs r. unfold RuneShouldBeEncoded, pes_set, bs_test, mem. cbn [ab bits].
    rewrite existsb_app. destruct (r <? ab t), (126 <? r), (existsb (N.eqb r) (bits t)); try reflexivity;
      rewrite ?orb_true_r; intro H; try discriminate H; reflexivity.
  Qed.

  Lemma Q_enc_invalid : forall c r t, (RuneShouldBeEncoded t r = false -> Q r = true) ->
    forallb Q (percentEncodeInvalidRune c r t) = true.
  Proof.
    intros c r t H. unfold percentEncodeInvalidRune. destruct (c_singlePct c).
    - apply Q_enc_rune. intro E. apply H. apply (pes_set_mono _ _ _ E).
    - apply Q_enc_rune. exact H.
  Qed.

  Lemma Q_pes_loop : forall c t l, (forall r, RuneShouldBeEncoded t r = false -> Q r = true) ->
    forallb Q (pes_loop c t l) = true.
  Proof.
    intros c t l H. induction l as [|r l IH]; [reflexivity|].
    cbn [pes_loop]. rewrite forallb_app, IH, andb_true_r.
    match goal with |- forallb Q (if ?b then _ else _) = true => destruct b end.
    - apply Q_enc_rune. intro E. apply H. apply (pes_set_mono _ _ _ E).
    - apply Q_enc_rune. apply H.
  Qed.
End EncBytes.

(* an encode set that lets '%' and the hex digits of an escape through *)
Definition set_closed (t : peset) : bool :=
  negb (RuneShouldBeEncoded t 37) && forallb (fun b => negb (RuneShouldBeEncoded t b)) uhex.

(* the byte-level form of "no member of the set survives PercentEncodeString" *)
Theorem encode_none_in : forall c t s, set_closed t = true -> none_in t (PercentEncodeString c s t) = true.
Proof.
  intros c t s H. unfold set_closed in H. apply andb_true_iff in H. destruct H as [H1 H2].
  unfold none_in, PercentEncodeString. apply Q_pes_loop; [exact H1|exact H2|].
  intros r E. rewrite E. reflexivity.
Qed.
Print Assumptions encode_none_in.

Lemma enc_rune_none_in : forall c t r, set_closed t = true -> none_in t (percentEncodeRune c r (Some t)) = true.
Proof.
  intros c t r H. unfold set_closed in H. apply andb_true_iff in H. destruct H as [H1 H2].
  unfold none_in. apply Q_enc_rune; [exact H1|exact H2|]. intro E. rewrite E. reflexivity.
Qed.

Lemma enc_invalid_none_in : forall c t r, set_closed t = true -> none_in t (percentEncodeInvalidRune c r t) = true.
Proof.
  intros c t r H. unfold set_closed in H. apply andb_true_iff in H. destruct H as [H1 H2].
  unfold none_in. apply Q_enc_invalid; [exact H1|exact H2|]. intro E. rewrite E. reflexivity.
Qed.

Example userinfo_closed : set_closed pes_UserInfo = true. Proof. vm_compute. reflexivity. Qed.
Example c0_closed : set_closed pes_C0 = true. Proof. vm_compute. reflexivity. Qed.

Lemma none_in_app : forall t a b, none_in t (a ++ b) = none_in t a && none_in t b.
Proof. intros t a b. unfold none_in. apply forallb_app. Qed.

(* ================================================================== *)
(* Part A.3  the simple setters                                         *)
(* ================================================================== *)

Lemma no_host_or_file_false : forall u, no_host_or_file u = false ->
  (exists x h, u_host u = Some (x :: h)) /\ str_eqb (u_scheme u) s_file = false.
Proof.
  intros u H. unfold no_host_or_file in H. apply orb_false_iff in H. destruct H as [H1 H2].
  split; [|exact H2]. destruct (u_host u) as [[|x h]|]; try discriminate H1. exists x, h. reflexivity.
Qed.

Lemma Inv_set_username : forall c u v, Inv c u -> no_host_or_file u = false ->
  none_in pes_UserInfo v = true -> Inv c (set_username u v).
Proof.
  intros c u v [H1 H2 H3 H4 H5 H6 H7 H8 H9 H10 H11 H12] Hn Hv.
  destruct (no_host_or_file_false u Hn) as [[x [h Hh]] Hf].
  constructor; fields; try assumption.
  intros [E|[E|E]]; fields_in E; congruence.
Qed.

Lemma Inv_set_password : forall c u v, Inv c u -> no_host_or_file u = false ->
  none_in pes_UserInfo v = true -> Inv c (set_password u v).
Proof.
  intros c u v [H1 H2 H3 H4 H5 H6 H7 H8 H9 H10 H11 H12] Hn Hv.
  destruct (no_host_or_file_false u Hn) as [[x [h Hh]] Hf].
  constructor; fields; try assumption.
  intros [E|[E|E]]; fields_in E; congruence.
Qed.

Theorem SetUsername_Inv : forall c u s u', Inv c u -> SetUsername c u s = Some u' -> Inv c u'.
Proof.
  intros c u s u' Hi H. unfold SetUsername in H. destruct (no_host_or_file u) eqn:Hn.
  - injection H as <-. exact Hi.
  - injection H as <-. apply Inv_set_username; [exact Hi|exact Hn|].
    apply encode_none_in. exact userinfo_closed.
Qed.
Print Assumptions SetUsername_Inv.

Theorem SetPassword_Inv : forall c u s u', Inv c u -> SetPassword c u s = Some u' -> Inv c u'.
Proof.
  intros c u s u' Hi H. unfold SetPassword in H. destruct (no_host_or_file u) eqn:Hn.
  - injection H as <-. exact Hi.
  - injection H as <-. apply Inv_set_password; [exact Hi|exact Hn|].
    apply encode_none_in. exact userinfo_closed.
Qed.
Print Assumptions SetPassword_Inv.

Lemma Inv_set_port_none : forall c u d, Inv c u -> Inv c (set_port u None d).
Proof.
  intros c u d [H1 H2 H3 H4 H5 H6 H7 H8 H9 H10 H11 H12].
  constructor; fields; try assumption.
  - intro E. destruct (H5 E) as [A [B _]]. auto.
  - intros p E. discriminate E.
Qed.

Theorem SetPort_empty_Inv : forall idna_raw c u u', Inv c u -> SetPort idna_raw c u [] = Some u' -> Inv c u'.
Proof.
  intros idna_raw c u u' Hi H. unfold SetPort in H. destruct (no_host_or_file u).
  - injection H as <-. exact Hi.
  - injection H as <-. apply Inv_set_port_none. exact Hi.
Qed.
Print Assumptions SetPort_empty_Inv.

Lemma Inv_set_query_none : forall c u, Inv c u -> Inv c (set_query u None).
Proof.
  intros c u [H1 H2 H3 H4 H5 H6 H7 H8 H9 H10 H11 H12].
  constructor; fields; try assumption. intros q E. discriminate E.
Qed.

Lemma Inv_set_fragment_none : forall c u, Inv c u -> Inv c (set_fragment u None).
Proof.
  intros c u [H1 H2 H3 H4 H5 H6 H7 H8 H9 H10 H11 H12].
  constructor; fields; try assumption. intros q E. discriminate E.
Qed.

(* strings.TrimRight: the result is a prefix of the argument *)
Lemma trim_left_suffix : forall cut s, exists t, s = t ++ trim_left cut s.
Proof.
  intros cut s. induction s as [|x s [t IH]]; [exists []; reflexivity|].
  cbn [trim_left]. destruct (mem x cut).
  - exists (x :: t). cbn [app]. f_equal. exact IH.
  - exists []. reflexivity.
Qed.

Lemma trim_right_prefix : forall cut s, exists t, s = trim_right cut s ++ t.
Proof.
  intros cut s. unfold trim_right. destruct (trim_left_suffix cut (rev s)) as [t E].
  exists (rev t). rewrite <- rev_app_distr, <- E, rev_involutive. reflexivity.
Qed.

Lemma Inv_strip_opaque : forall c u u', Inv c u -> strip_opaque u = Some u' -> Inv c u'.
Proof.
  intros c u u' Hi H. unfold strip_opaque in H. destruct (u_opaque u) eqn:Ho; [|injection H as <-; exact Hi].
  destruct Hi as [H1 H2 H3 H4 H5 H6 H7 H8 H9 H10 H11 H12].
  destruct (H2 Ho) as [Hh [s [Hp [P1 P2]]]]. rewrite Hp in H. injection H as <-.
  destruct (trim_right_prefix [32] s) as [t Et].
  constructor; fields; try assumption.
  - intros _. split; [exact Hh|]. exists (trim_right [32] s). split; [reflexivity|]. split.
    + destruct (trim_right [32] s) as [|a r] eqn:Er; [reflexivity|].
      rewrite Et in P1. cbn [app has_prefix] in P1 |- *. exact P1.
    + rewrite Et, none_in_app in P2. apply andb_true_iff in P2. apply P2.
  - intro E. discriminate E.
  - intro Hs. destruct (H4 Hs) as [E _]. congruence.
  - intros _ E. discriminate E.
Qed.

Theorem SetSearch_empty_Inv : forall idna_raw c u u', Inv c u -> SetSearch idna_raw c u [] = Some u' -> Inv c u'.
Proof.
  intros idna_raw c u u' Hi H. unfold SetSearch in H.
  assert (Hi' : Inv c (match u_sp (set_query u None) with
                       | Some _ => set_sp (set_query u None) (Some [])
                       | None => set_query u None end)).
  { destruct (u_sp (set_query u None)); [apply Inv_set_sp|]; apply Inv_set_query_none; exact Hi. }
  destruct (negb (is_some (u_fragment _))) in H.
  - apply (Inv_strip_opaque c _ u' Hi' H).
  - injection H as <-. exact Hi'.
Qed.
Print Assumptions SetSearch_empty_Inv.

Theorem SetHash_empty_Inv : forall idna_raw c u u', Inv c u -> SetHash idna_raw c u [] = Some u' -> Inv c u'.
Proof.
  intros idna_raw c u u' Hi H. unfold SetHash in H.
  pose proof (Inv_set_fragment_none c u Hi) as Hi'.
  destruct (negb (is_some (u_query _))) in H.
  - apply (Inv_strip_opaque c _ u' Hi' H).
  - injection H as <-. exact Hi'.
Qed.
Print Assumptions SetHash_empty_Inv.

(* ================================================================== *)
(* Part A.4  SearchParams.update                                        *)
(* ================================================================== *)

(* the bytes SearchParams.String adds on its own: '+', '&', '=' *)
Definition sp_chars_ok (t : peset) : bool :=
  set_closed t && negb (RuneShouldBeEncoded t 43) && negb (RuneShouldBeEncoded t 38) && negb (RuneShouldBeEncoded t 61).

Lemma forallb_join : forall (Q : N -> bool) sep l,
  forallb Q sep = true -> forallb (fun s => forallb Q s) l = true -> forallb Q (join sep l) = true.
Proof.
  intros Q sep l Hs. induction l as [|x l IH]; [reflexivity|].
  cbn [forallb]. intro H. apply andb_true_iff in H. destruct H as [H1 H2].
  cbn [join]. destruct l as [|y l]; [exact H1|].
  rewrite !forallb_app, H1, Hs, (IH H2). reflexivity.
Qed.

Lemma forallb_flat_map : forall (A : Type) (Q : N -> bool) (f : A -> str) l,
  (forall x, forallb Q (f x) = true) -> forallb Q (flat_map f l) = true.
Proof.
  intros A Q f l H. induction l as [|x l IH]; [reflexivity|].
  cbn [flat_map]. rewrite forallb_app, H, IH. reflexivity.
Qed.

Lemma sp_string_none_in : forall c l, sp_chars_ok (c_querySet c) = true -> none_in (c_querySet c) (sp_string c l) = true.
Proof.
  intros c l H. unfold sp_chars_ok in H.
  apply andb_true_iff in H; destruct H as [H H61].
  apply andb_true_iff in H; destruct H as [H H38].
  apply andb_true_iff in H; destruct H as [H H43].
  unfold set_closed in H. apply andb_true_iff in H; destruct H as [H37 Hhex].
  assert (QE : forall s, none_in (c_querySet c) (QueryEscape c s) = true).
  { intro s. unfold none_in, QueryEscape. apply forallb_flat_map. intro b.
    destruct (b =? 32); [cbn [forallb]; rewrite H43; reflexivity|].
    destruct ((b =? 38) || (b =? 61) || (b =? 43)).
    - apply Q_enc_always; assumption.
    - apply Q_enc_rune; try assumption. intro E. rewrite E. reflexivity. }
  unfold none_in, sp_string. apply forallb_join; [cbn [forallb]; rewrite H38; reflexivity|].
  induction l as [|[n v] l IH]; [reflexivity|].
  cbn [map forallb]. rewrite IH, andb_true_r. rewrite !forallb_app.
  fold (none_in (c_querySet c) (QueryEscape c n)). rewrite QE.
  replace (forallb _ (if negb (c_skipEq c) || negb (is_nil v) then [61] else [])) with true
    by (destruct (negb (c_skipEq c) || negb (is_nil v)); cbn [forallb]; rewrite ?H61; reflexivity).
  destruct (negb (is_nil v)); [|reflexivity].
  fold (none_in (c_querySet c) (QueryEscape c v)). rewrite QE. reflexivity.
Qed.

Lemma Inv_set_query_some : forall c u q, Inv c u -> none_in (qset c u) q = true -> Inv c (set_query u (Some q)).
Proof.
  intros c u q [H1 H2 H3 H4 H5 H6 H7 H8 H9 H10 H11 H12] Hq.
  constructor; fields; try assumption. intros q' E. injection E as <-. exact Hq.
Qed.

(* the written-through query of a NON-special URL is free of the query set *)
Theorem sp_update_Inv : forall c u l, sp_chars_ok (c_querySet c) = true ->
  IsSpecialScheme c u = false -> Inv c u -> Inv c (sp_update c u l).
Proof.
  intros c u l Hc Hs Hi. unfold sp_update.
  match goal with |- Inv c (if ?b then _ else _) => destruct b end.
  - apply Inv_set_query_some; [apply Inv_set_sp; exact Hi|].
    unfold qset, IsSpecialScheme in *. fields. rewrite Hs. apply sp_string_none_in. exact Hc.
  - apply Inv_set_sp. exact Hi.
Qed.
Print Assumptions sp_update_Inv.

Example sp_chars_ok_default : sp_chars_ok (c_querySet default_cfg) = true.
Proof. vm_compute. reflexivity. Qed.

(* For a special URL the statement is FALSE: SearchParams.String escapes with the (non-special) query
   set, so an apostrophe in a name or value reaches the query of a special URL unescaped; the
   serialization then fails clause 10 of [inv_obs] (and parsing it again yields %27). *)
Definition sp_update_Inv_full : Prop :=
  forall c u l, sp_chars_ok (c_querySet c) = true -> Inv c u -> Inv c (sp_update c u l).

Definition sp_witness : url :=
  set_path (set_host (set_scheme (empty_url []) [104;116;116;112]) (Some [104])) [[]] false.   (* http://h/ *)

Theorem sp_update_Inv_refuted :
  exists c u l, sp_chars_ok (c_querySet c) = true /\ Inv c u /\
                inv_obs c (obs_url c (sp_update c u l)) = [10] /\ ~ Inv c (sp_update c u l).
Proof.
  exists default_cfg, sp_witness, [([97], [39])].
  split; [vm_compute; reflexivity|]. split; [apply inv_b_sound; vm_compute; reflexivity|].
  split; [vm_compute; reflexivity|].
  intro H. apply inv_b_iff in H. vm_compute in H. discriminate H.
Qed.
Print Assumptions sp_update_Inv_refuted.

(* ================================================================== *)
(* Part B  the shapes of what parseHost returns                         *)
(* ================================================================== *)

(* u' is u except for the recorded validation errors *)
Definition only_verrs (u u' : url) : Prop := u' = set_verrs u (u_verrs u').

Lemma only_verrs_refl : forall u, only_verrs u u.
Proof. intros []. reflexivity. Qed.

Lemma only_verrs_trans : forall u1 u2 u3, only_verrs u1 u2 -> only_verrs u2 u3 -> only_verrs u1 u3.
Proof. intros u1 u2 u3 H1 H2. unfold only_verrs in *. rewrite H2 at 1. rewrite H1. reflexivity. Qed.

Lemma only_verrs_same : forall u u', only_verrs u u' -> same_fields u u'.
Proof. intros u u' H. rewrite H. repeat split. Qed.

Lemma handleError_only : forall c u t f, only_verrs u (fst (handleError c u t f)).
Proof.
  intros c u t f. unfold handleError. cbn [fst]. destruct (c_report c); [|apply only_verrs_refl].
  unfold only_verrs. destruct u. reflexivity.
Qed.

Lemma herr_ok : forall A c u t f (k : url -> res A) u2 a,
  herr c u t f k = Ok u2 a -> f = false /\ exists u1, only_verrs u u1 /\ k u1 = Ok u2 a.
Proof.
  intros A c u t f k u2 a H. unfold herr in H.
  pose proof (handleError_only c u t f) as Ho.
  destruct (handleError c u t f) as [u1 oe] eqn:E. cbn [fst] in Ho.
  unfold handleError in E. injection E as E1 E2.
  destruct f; [cbn [orb] in E2; subst oe; discriminate H|].
  split; [reflexivity|]. destruct oe; [discriminate H|]. exists u1. split; assumption.
Qed.

Lemma herr_fatal : forall A c u t (k : url -> res A) u2 a, herr c u t true k = Ok u2 a -> False.
Proof. intros A c u t k u2 a H. apply herr_ok in H. destruct H as [H _]. discriminate H. Qed.

Lemma parseIPv4Number_only : forall c u input, only_verrs u (fst (parseIPv4Number c u input)).
Proof.
  intros c u input. unfold parseIPv4Number. destruct input as [|x r]; [|apply only_verrs_refl].
  pose proof (handleError_only c u IPv4EmptyPart true) as H.
  destruct (handleError c u IPv4EmptyPart true) as [u' o]. exact H.
Qed.

Lemma endsInANumber_only : forall c u input, only_verrs u (fst (endsInANumber c u input)).
Proof.
  intros c u input. unfold endsInANumber.
  match goal with |- context [last_opt ?p] => destruct (last_opt p) as [[|x l]|] end; try apply only_verrs_refl.
  destruct (all_in isDigit (x :: l)); [apply only_verrs_refl|].
  pose proof (parseIPv4Number_only c u (x :: l)) as H.
  destruct (parseIPv4Number c u (x :: l)) as [u' [n ve|rg]]; exact H.
Qed.

Lemma ipv4_numbers_ok : forall c parts u acc u' ns,
  ipv4_numbers c u parts acc = Ok u' ns -> only_verrs u u' /\ length ns = (length parts + length acc)%nat.
Proof.
  intros c parts. induction parts as [|p rest IH]; intros u acc u' ns H.
  - cbn [ipv4_numbers] in H. injection H as <- <-. split; [apply only_verrs_refl|]. rewrite rev_length. reflexivity.
  - cbn [ipv4_numbers] in H.
    pose proof (parseIPv4Number_only c u p) as Hp.
    destruct (parseIPv4Number c u p) as [u1 [n ve|rg]]; cbn [fst] in Hp.
    + destruct ve.
      * apply herr_ok in H. destruct H as [_ [u2 [H2 H]]]. apply IH in H. destruct H as [H3 H4].
        split; [eapply only_verrs_trans; [exact Hp|eapply only_verrs_trans; eassumption]|].
        rewrite H4. cbn [length]. lia.
      * apply IH in H. destruct H as [H3 H4]. split; [eapply only_verrs_trans; eassumption|].
        rewrite H4. cbn [length]. lia.
    + exfalso. eapply herr_fatal. exact H.
Qed.

Lemma ipv4_range_warn_ok : forall c ns u k u' h,
  ipv4_range_warn c u ns k = Ok u' h -> exists u1, only_verrs u u1 /\ k u1 = Ok u' h.
Proof.
  intros c ns. induction ns as [|n rest IH]; intros u k u' h H.
  - exists u. split; [apply only_verrs_refl|exact H].
  - cbn [ipv4_range_warn] in H. destruct (255 <? n).
    + apply herr_ok in H. destruct H as [_ [u1 [H1 H]]]. apply IH in H. destruct H as [u2 [H2 H]].
      exists u2. split; [eapply only_verrs_trans; eassumption|exact H].
    + apply IH in H. exact H.
Qed.

Lemma last_opt_none_nil : forall A (l : list A), last_opt l = None -> l = [].
Proof.
  intros A l. induction l as [|x l IH]; [reflexivity|].
  cbn [last_opt]. destruct l as [|y l]; [discriminate|]. intro H. apply IH in H. discriminate H.
Qed.

Lemma split_aux_nonnil : forall sep s cur, split_aux sep s cur <> [].
Proof.
  intros sep s. induction s as [|x s IH]; intro cur; cbn [split_aux]; [discriminate|].
  destruct (x =? sep); [discriminate|apply IH].
Qed.

Definition v4_after_empty (c : cfg) (u : url) (parts : list str) : res str :=
  (if (4 <? len parts)%Z then (fun k => herr c u IPv4TooManyParts true k) else (fun k => k u))
  (fun u =>
    match ipv4_numbers c u parts [] with
    | Er u e => Er u e
    | Ok u numbers =>
        ipv4_range_warn c u numbers (fun u =>
          let init := drop_last numbers in
          if existsb (fun n => 255 <? n) init then herr c u IPv4OutOfRangePart true (fun u => Ok u [])
          else match last_opt numbers with
               | None => Ok u []
               | Some lastn =>
                   if 256 ^ (5 - N.of_nat (length numbers)) <=? lastn
                   then herr c u IPv4OutOfRangePart true (fun u => Ok u [])
                   else Ok u (IPv4String (lastn + ipv4_sum init 0))
               end)
    end).

Lemma parseIPv4_eq : forall c u input,
  parseIPv4 c u input =
  let parts := split 46 input in
  match last_opt parts with
  | Some [] => herr c u IPv4EmptyPart false (fun u =>
                 v4_after_empty c u (if (1 <? len parts)%Z then drop_last parts else parts))
  | _ => v4_after_empty c u parts
  end.
Proof. reflexivity. Qed.

Lemma v4_after_empty_ok : forall c u0 parts u' h, parts <> [] -> v4_after_empty c u0 parts = Ok u' h ->
  only_verrs u0 u' /\ exists a, h = IPv4String a.
Proof.
  intros c u0 parts u' h Hne HA. unfold v4_after_empty in HA.
  assert (exists u1, only_verrs u0 u1 /\
          match ipv4_numbers c u1 parts [] with
          | Er u e => Er u e
          | Ok u numbers =>
              ipv4_range_warn c u numbers (fun u =>
                let init := drop_last numbers in
                if existsb (fun n => 255 <? n) init then herr c u IPv4OutOfRangePart true (fun u => Ok u [])
                else match last_opt numbers with
                     | None => Ok u []
                     | Some lastn =>
                         if 256 ^ (5 - N.of_nat (length numbers)) <=? lastn
                         then herr c u IPv4OutOfRangePart true (fun u => Ok u [])
                         else Ok u (IPv4String (lastn + ipv4_sum init 0))
                     end)
          end = Ok u' h) as [u1 [H1 HB]].
  { destruct (4 <? len parts)%Z.
    - exfalso. eapply herr_fatal. exact HA.
    - exists u0. split; [apply only_verrs_refl|exact HA]. }
  destruct (ipv4_numbers c u1 parts []) as [u2 numbers|u2 e] eqn:EN; [|discriminate HB].
  apply ipv4_numbers_ok in EN. destruct EN as [H2 HL].
  apply ipv4_range_warn_ok in HB. destruct HB as [u3 [H3 HB]]. cbv zeta in HB.
  destruct (existsb (fun n => 255 <? n) (drop_last numbers)); [exfalso; eapply herr_fatal; exact HB|].
  destruct (last_opt numbers) as [lastn|] eqn:EL.
  - destruct (256 ^ (5 - N.of_nat (length numbers)) <=? lastn); [exfalso; eapply herr_fatal; exact HB|].
    injection HB as <- <-. split.
    + eapply only_verrs_trans; [exact H1|]. eapply only_verrs_trans; eassumption.
    + eexists. reflexivity.
  - exfalso. apply last_opt_none_nil in EL. subst numbers. cbn [length] in HL.
    destruct parts; [contradiction|]. cbn [length] in HL. lia.
Qed.

Lemma parseIPv4_ok : forall c u input u' h,
  parseIPv4 c u input = Ok u' h -> only_verrs u u' /\ exists a, h = IPv4String a.
Proof.
  intros c u input u' h H. rewrite parseIPv4_eq in H. cbv zeta in H.
  assert (Hsp : split 46 input <> []) by apply split_aux_nonnil.
  destruct (last_opt (split 46 input)) as [[|x l]|] eqn:EL.
  - apply herr_ok in H. destruct H as [_ [u1 [H1 H]]].
    apply v4_after_empty_ok in H.
    + destruct H as [H2 H3]. split; [eapply only_verrs_trans; eassumption|exact H3].
    + destruct (1 <? len (split 46 input))%Z eqn:E1; [|exact Hsp].
      destruct (split 46 input) as [|a [|b r]]; [contradiction|discriminate E1|].
      unfold drop_last. cbn [removelast]. destruct r; discriminate.
  - apply v4_after_empty_ok in H; assumption.
  - apply v4_after_empty_ok in H; assumption.
Qed.

Lemma parseIPv6_ok : forall c u input u' h,
  parseIPv6 c u input = Ok u' h -> u' = u /\ exists a, h = [91] ++ IPv6String a ++ [93].
Proof.
  intros c u input u' h H. unfold parseIPv6 in H. destruct (ipv6_parse (runes input)) as [a|t].
  - injection H as <- <-. split; [reflexivity|]. exists a. reflexivity.
  - exfalso. eapply herr_fatal. exact H.
Qed.

Lemma opaque_loop_ok : forall c input l u out u' h, c_lax c = false ->
  opaque_loop c u input l out = Ok u' h ->
  only_verrs u u' /\ forallb (fun r => negb (isForbiddenHost r)) l = true /\
  h = out ++ flat_map (fun r => percentEncodeRune c r (Some pes_C0)) l.
Proof.
  intros c input l. induction l as [|ch rest IH]; intros u out u' h Hlax H.
  - cbn [opaque_loop] in H. injection H as <- <-. split; [apply only_verrs_refl|].
    split; [reflexivity|]. cbn [flat_map]. rewrite app_nil_r. reflexivity.
  - cbn [opaque_loop] in H. rewrite Hlax in H.
    destruct (isForbiddenHost ch) eqn:EF; [exfalso; eapply herr_fatal; exact H|].
    cbn [forallb flat_map]. rewrite EF. cbn [negb andb].
    assert (K : exists u1, only_verrs u u1 /\
                opaque_loop c u1 input rest (out ++ percentEncodeRune c ch (Some pes_C0)) = Ok u' h).
    { destruct (negb (isURLCodePoint ch) && negb (ch =? 37)).
      - apply herr_ok in H. destruct H as [_ [u1 [H1 H]]].
        destruct ((ch =? 37) && invalid_pct (ch :: rest)).
        + apply herr_ok in H. destruct H as [_ [u2 [H2 H]]]. exists u2.
          split; [eapply only_verrs_trans; eassumption|exact H].
        + exists u1. split; assumption.
      - destruct ((ch =? 37) && invalid_pct (ch :: rest)).
        + apply herr_ok in H. destruct H as [_ [u2 [H2 H]]]. exists u2. split; assumption.
        + exists u. split; [apply only_verrs_refl|exact H]. }
    destruct K as [u1 [H1 K]]. apply IH in K; [|exact Hlax]. destruct K as [K1 [K2 K3]].
    split; [eapply only_verrs_trans; eassumption|]. split; [exact K2|].
    rewrite K3, <- app_assoc. reflexivity.
Qed.

Section HostShape.
  Variable idna_raw : str -> str * bool.

  (* the two non-empty branches of parseHost, with the test on '[' as a comparison *)
  Definition ph_v6 (c : cfg) (u : url) (input : str) : res str :=
    (if negb (has_suffix [93] input) then (fun k => herr c u IPv6Unclosed true k) else (fun k => k u))
    (fun u => parseIPv6 c u (drop_last (tl input))).

  Definition ph_domain (c : cfg) (u : url) (input : str) : res str :=
    let domain := DecodePercentEncoded c input in
    let k_valid (u : url) : res str :=
      match ToASCII idna_raw c domain with
      | None =>
          if c_lax c then Ok u domain
          else herr c u DomainToASCII true (fun u => Ok u [])
      | Some asciiDomain =>
          let forbidden := existsb isForbiddenDomain (runes asciiDomain) in
          let k_clean (u : url) : res str :=
            match endsInANumber c u asciiDomain with
            | (u, true) => parseIPv4 c u asciiDomain
            | (u, false) => Ok u (apply_hostfun (c_post c) asciiDomain)
            end in
          if forbidden then
            if c_lax c then Ok u (PercentEncodeString c asciiDomain pes_Host)
            else herr c u DomainInvalidCodePoint true k_clean
          else k_clean u
      end in
    if negb (valid_utf8 domain) then
      if c_lax c then Ok u (percentEncodeBytes input pes_Host)
      else herr c u DomainToASCII true k_valid
    else k_valid u.

  Lemma parseHost_eq : forall c u input0 ns,
    parseHost idna_raw c u input0 ns =
    match apply_hostfun (c_pre c) input0 with
    | [] => Ok u []
    | x :: r => if x =? 91 then ph_v6 c u (x :: r)
                else if ns then parseOpaqueHost c u (x :: r) else ph_domain c u (x :: r)
    end.
  Proof.
    intros c u input0 ns. unfold parseHost.
    destruct (apply_hostfun (c_pre c) input0) as [|x r]; [reflexivity|].
    destruct (N.eqb_spec x 91) as [->|Hx]; [reflexivity|].
    destruct x as [|p]; [reflexivity|].
    do 7 (destruct p as [p|p|]; try reflexivity). contradiction Hx. reflexivity.
  Qed.

  Inductive host_shape (c : cfg) (input : str) (ns : bool) (h : str) : Prop :=
  | HS_empty : input = [] -> h = [] -> host_shape c input ns h
  | HS_v6 : forall a, h = [91] ++ IPv6String a ++ [93] -> host_shape c input ns h
  | HS_opaque : ns = true -> forallb (fun r => negb (isForbiddenHost r)) (runes input) = true ->
                h = flat_map (fun r => percentEncodeRune c r (Some pes_C0)) (runes input) -> host_shape c input ns h
  | HS_v4 : forall a, ns = false -> h = IPv4String a -> host_shape c input ns h
  | HS_domain : forall d a e, ns = false -> d <> [] -> idna_raw d = (a, e) -> (e = false -> a <> []) ->
                (e = true -> containsOnlyASCIIOrMiscAndNoPunycode d = true) ->
                existsb isForbiddenDomain (runes a) = false ->
                h = apply_hostfun (c_post c) a -> host_shape c input ns h.

  Lemma Decode_nonnil : forall c s, s <> [] -> DecodePercentEncoded c s <> [].
  Proof.
    intros c [|b s] H; [contradiction|]. cbn [DecodePercentEncoded].
    destruct (b =? 37); [|discriminate]. destruct s as [|h [|l s]]; try discriminate.
    destruct (isHexDigit h && isHexDigit l); [|discriminate].
    destruct (c_latin1 c); [|discriminate].
    pose proof (utf8_enc_nonempty (hex_val h * 16 + hex_val l)) as N.
    destruct (utf8_enc (hex_val h * 16 + hex_val l)); [contradiction|discriminate].
  Qed.

  Lemma runes_nonnil : forall s, s <> [] -> runes s <> [].
  Proof.
    intros [|b0 rest] H; [contradiction|]. unfold runes, decode. cbn [length decode_fuel].
    destruct (dec1 b0 rest). discriminate.
  Qed.

  Lemma ToASCII_some : forall c src a, c_lax c = false -> src <> [] -> ToASCII idna_raw c src = Some a ->
    exists d e, d <> [] /\ idna_raw d = (a, e) /\ (e = false -> a <> []) /\
                (e = true -> containsOnlyASCIIOrMiscAndNoPunycode d = true).
  Proof.
    intros c src a Hlax Hne H. unfold ToASCII in H. destruct src as [|x s]; [contradiction|].
    set (src' := if c_latin1 c then _ else _) in H.
    assert (Hs' : src' <> []).
    { unfold src'. destruct (c_latin1 c); [|discriminate].
      unfold stringToUnicode. destruct (forallb _ _); [|discriminate]. apply runes_nonnil. discriminate. }
    destruct (idna_raw src') as [a' err] eqn:E.
    destruct err.
    - destruct (containsOnlyASCIIOrMiscAndNoPunycode src') eqn:EC.
      + cbn [andb] in H. injection H as <-. exists src', true. repeat split; auto. discriminate.
      + cbn [andb] in H. rewrite Hlax in H. discriminate H.
    - cbn [andb] in H. destruct (is_nil a') eqn:En; [discriminate H|]. injection H as <-.
      exists src', false. repeat split; auto; try discriminate. intros _. apply is_nil_false. exact En.
  Qed.

  Theorem parseHost_shape : forall c u input ns u' h, c_lax c = false ->
    parseHost idna_raw c u input ns = Ok u' h ->
    only_verrs u u' /\ host_shape c (apply_hostfun (c_pre c) input) ns h.
  Proof.
    intros c u input0 ns u' h Hlax H. rewrite parseHost_eq in H.
    destruct (apply_hostfun (c_pre c) input0) as [|x r] eqn:EI.
    - injection H as <- <-. split; [apply only_verrs_refl|]. apply HS_empty; reflexivity.
    - destruct (x =? 91).
      + unfold ph_v6 in H. destruct (negb (has_suffix [93] (x :: r))); [exfalso; eapply herr_fatal; exact H|].
        apply parseIPv6_ok in H. destruct H as [-> [a Ha]]. split; [apply only_verrs_refl|].
        eapply HS_v6. exact Ha.
      + destruct ns.
        * unfold parseOpaqueHost in H. apply opaque_loop_ok in H; [|exact Hlax].
          destruct H as [H1 [H2 H3]]. split; [exact H1|]. apply HS_opaque; [reflexivity|exact H2|exact H3].
        * unfold ph_domain in H. rewrite Hlax in H. cbv zeta in H.
          set (domain := DecodePercentEncoded c (x :: r)) in H.
          assert (Hd : domain <> []) by (apply Decode_nonnil; discriminate).
          assert (K : exists u1, only_verrs u u1 /\
            match ToASCII idna_raw c domain with
            | None => herr c u1 DomainToASCII true (fun u => Ok u [])
            | Some asciiDomain =>
                if existsb isForbiddenDomain (runes asciiDomain)
                then herr c u1 DomainInvalidCodePoint true (fun u =>
                       match endsInANumber c u asciiDomain with
                       | (u, true) => parseIPv4 c u asciiDomain
                       | (u, false) => Ok u (apply_hostfun (c_post c) asciiDomain)
                       end)
                else match endsInANumber c u1 asciiDomain with
                     | (u, true) => parseIPv4 c u asciiDomain
                     | (u, false) => Ok u (apply_hostfun (c_post c) asciiDomain)
                     end
            end = Ok u' h).
          { destruct (negb (valid_utf8 domain)); [exfalso; eapply herr_fatal; exact H|].
            exists u. split; [apply only_verrs_refl|exact H]. }
          clear H. destruct K as [u1 [H1 K]].
          destruct (ToASCII idna_raw c domain) as [a|] eqn:ET; [|exfalso; eapply herr_fatal; exact K].
          destruct (existsb isForbiddenDomain (runes a)) eqn:EF; [exfalso; eapply herr_fatal; exact K|].
          pose proof (endsInANumber_only c u1 a) as H2.
          destruct (endsInANumber c u1 a) as [u2 b]. cbn [fst] in H2. destruct b.
          -- apply parseIPv4_ok in K. destruct K as [H3 [a4 Ha]].
             split; [eapply only_verrs_trans; [exact H1|eapply only_verrs_trans; eassumption]|].
             eapply HS_v4; [reflexivity|exact Ha].
          -- injection K as <- <-. split; [eapply only_verrs_trans; eassumption|].
             destruct (ToASCII_some c domain a Hlax Hd ET) as [d [e [E0 [E1 [E2 E3]]]]].
             eapply HS_domain; try eassumption; reflexivity.
  Qed.
End HostShape.
Print Assumptions parseHost_shape.

(* ------------------------------------------------------------------ *)
(* consequences of the shapes: the host component of [Inv]              *)

Lemma below128_sweep : forall (P : N -> bool),
  forallb P (map N.of_nat (seq 0 128)) = true -> forall b, b < 128 -> P b = true.
Proof.
  intros P H b Hb. rewrite forallb_forall in H. apply H.
  apply in_map_iff. exists (N.to_nat b). split; [apply N2Nat.id|]. apply in_seq. lia.
Qed.

Lemma fmt_fuel_chars : forall (Q : N -> bool) radix dig, 0 < radix ->
  (forall k, k < radix -> Q (dig k) = true) ->
  forall fuel n, forallb Q (fmt_fuel radix dig fuel n) = true.
Proof.
  intros Q radix dig Hr HQ fuel. induction fuel as [|f IH]; intro n; [reflexivity|].
  cbn [fmt_fuel]. destruct (n <? radix) eqn:E.
  - cbn [forallb]. rewrite HQ by lia. reflexivity.
  - rewrite forallb_app, IH. cbn [forallb]. rewrite HQ; [reflexivity|]. apply N.mod_lt. lia.
Qed.

Lemma fmt_fuel_nonnil : forall radix dig f n, fmt_fuel radix dig (Datatypes.S f) n <> [].
Proof.
  intros radix dig f n. cbn [fmt_fuel]. destruct (n <? radix); [discriminate|].
  destruct (fmt_fuel radix dig f (n / radix)); discriminate.
Qed.

Definition v4ch (b : N) : bool :=
  negb (isForbiddenDomain b) && (b <? 128) && negb (is_upper b) && printable b.

Lemma hex_lower_dec : forall k, k < 10 -> v4ch (hex_lower k) = true.
Proof.
  intros k H. assert (E : k = 0 \/ k = 1 \/ k = 2 \/ k = 3 \/ k = 4 \/ k = 5 \/ k = 6 \/ k = 7 \/ k = 8 \/ k = 9) by lia.
  repeat (destruct E as [->|E]; [vm_compute; reflexivity|]). subst k. vm_compute. reflexivity.
Qed.

Lemma itoa_v4ch : forall n, forallb v4ch (itoa n) = true.
Proof. intro n. unfold itoa. apply fmt_fuel_chars; [lia|apply hex_lower_dec]. Qed.

Lemma itoa_nonnil : forall n, itoa n <> [].
Proof. intro n. apply fmt_fuel_nonnil. Qed.

Lemma IPv4String_v4ch : forall a, forallb v4ch (IPv4String a) = true.
Proof.
  intro a. unfold IPv4String. rewrite !forallb_app, !itoa_v4ch.
  replace (forallb v4ch [46]) with true by (vm_compute; reflexivity). reflexivity.
Qed.

Lemma IPv4String_nonnil : forall a, IPv4String a <> [].
Proof.
  intro a. unfold IPv4String. pose proof (itoa_nonnil (a / 16777216)) as H.
  destruct (itoa (a / 16777216)); [contradiction|discriminate].
Qed.

Lemma hex_lower_hex : forall k, k < 16 -> printable (hex_lower k) = true.
Proof. intros k H. unfold hex_lower, printable. destruct (k <? 10) eqn:E; lia. Qed.

Lemma fmt_hex_printable : forall n, forallb printable (fmt_hex n) = true.
Proof. intro n. unfold fmt_hex. apply fmt_fuel_chars; [lia|apply hex_lower_hex]. Qed.

Lemma v6_print_printable : forall l idx compress ignore0, forallb printable (v6_print l idx compress ignore0) = true.
Proof.
  induction l as [|x l IH]; intros idx compress ignore0; [reflexivity|].
  cbn [v6_print]. destruct (ignore0 && (x =? 0)); [apply IH|].
  destruct (match compress with Some ci => Nat.eqb ci idx | None => false end).
  - rewrite forallb_app, IH. destruct (Nat.eqb idx 0); reflexivity.
  - rewrite !forallb_app, fmt_hex_printable, IH. destruct (Nat.eqb idx 7); reflexivity.
Qed.

Lemma bracketed_ok : forall s, is_bracketed ([91] ++ s ++ [93]) = true.
Proof.
  intro s. cbn [app]. unfold is_bracketed, has_suffix.
  change (rev (91 :: s ++ [93])) with (rev (s ++ [93]) ++ [91]).
  rewrite rev_app_distr. reflexivity.
Qed.

(* the bytes of an opaque host *)
Definition opch (b : N) : bool := negb (isForbiddenHost b) && printable b.

Lemma opaque_host_bytes : forall c l, forallb (fun r => negb (isForbiddenHost r)) l = true ->
  forallb opch (flat_map (fun r => percentEncodeRune c r (Some pes_C0)) l) = true.
Proof.
  intros c l. induction l as [|r l IH]; [reflexivity|].
  cbn [forallb flat_map]. intro H. apply andb_true_iff in H. destruct H as [H1 H2].
  rewrite forallb_app, (IH H2), andb_true_r.
  apply Q_enc_rune; [vm_compute; reflexivity|vm_compute; reflexivity|].
  intro E. unfold opch. rewrite H1. cbn [andb].
  apply (not_encoded_printable pes_C0); [reflexivity|exact E].
Qed.

Lemma enc_rune_nonnil : forall c r t, percentEncodeRune c r t <> [].
Proof.
  intros c r t. unfold percentEncodeRune.
  assert (E : (if c_latin1 c then pct_byte (fst (latin1_enc r)) else flat_map pct_byte (utf8_enc r)) <> []).
  { destruct (c_latin1 c); [discriminate|]. pose proof (utf8_enc_nonempty r) as N.
    destruct (utf8_enc r); [contradiction|discriminate]. }
  destruct t as [t|]; [|exact E]. destruct (RuneShouldBeEncoded t r); [exact E|apply utf8_enc_nonempty].
Qed.

Section HostOk.
  Variable idna_raw : str -> str * bool.

  (* H3: what the proofs need of the IDNA oracle, on the calls whose answer parseHost uses
     (no error, or an error on an all-ASCII/no-ACE input): the answer is lower-case ASCII, and is
     not empty in the error case (the code checks emptiness only in the no-error case).
     parseHost itself checks neither. *)
  Definition H3 : Prop :=
    forall d a e, d <> [] -> idna_raw d = (a, e) ->
      (e = true -> containsOnlyASCIIOrMiscAndNoPunycode d = true) ->
      forallb (fun b => b <? 128) a = true /\ forallb (fun b => negb (is_upper b)) a = true /\ (e = true -> a <> []).

  Hypothesis HH3 : H3.

  Lemma host_shape_ok : forall c input ns h, c_post c = HF_none -> host_shape idna_raw c input ns h ->
    host_ok (negb ns) h = true /\ forallb printable h = true /\ (input <> [] -> h <> []).
  Proof.
    intros c input ns h Hpost [Hi Hh|a Hh|Hns Hf Hh|a Hns Hh|d a e Hns Hd Hid He1 He2 Hf Hh].
    - subst. split; [destruct ns; reflexivity|]. split; [reflexivity|]. intro N; contradiction.
    - subst h. split; [unfold host_ok; rewrite bracketed_ok; reflexivity|].
      split; [|intros _; discriminate].
      rewrite !forallb_app. unfold IPv6String. rewrite v6_print_printable. reflexivity.
    - subst ns h. pose proof (opaque_host_bytes c _ Hf) as B. cbn [negb].
      split; [|split].
      + unfold host_ok. apply orb_true_iff. right.
        revert B. apply forallb_impl. intros x Hx. unfold opch in Hx. apply andb_true_iff in Hx. apply Hx.
      + revert B. apply forallb_impl. intros x Hx. unfold opch in Hx. apply andb_true_iff in Hx. apply Hx.
      + intro Hne. pose proof (runes_nonnil _ Hne) as R. destruct (runes input) as [|r l]; [contradiction|].
        cbn [flat_map]. pose proof (enc_rune_nonnil c r (Some pes_C0)) as N.
        destruct (percentEncodeRune c r (Some pes_C0)); [contradiction|discriminate].
    - subst ns h. pose proof (IPv4String_v4ch a) as B. cbn [negb].
      assert (F : forall (P : N -> bool), (forall x, v4ch x = true -> P x = true) -> forallb P (IPv4String a) = true).
      { intros P HP. revert B. apply forallb_impl. exact HP. }
      split; [|split].
      + unfold host_ok. apply orb_true_iff. right.
        rewrite !F; try reflexivity; intros x Hx; unfold v4ch in Hx;
          repeat (apply andb_true_iff in Hx; destruct Hx as [Hx ?]); assumption.
      + apply F. intros x Hx. unfold v4ch in Hx. apply andb_true_iff in Hx. apply Hx.
      + intros _. apply IPv4String_nonnil.
    - subst ns. rewrite Hpost in Hh. cbn [apply_hostfun] in Hh. subst h. cbn [negb].
      destruct (HH3 d a e Hd Hid He2) as [A1 [A2 A3]].
      assert (R : runes a = a).
      { apply runes_ascii. apply Forall_forall. intros x Hx. rewrite forallb_forall in A1.
        specialize (A1 x Hx). lia. }
      rewrite R in Hf.
      assert (FD : forallb (fun b => negb (isForbiddenDomain b)) a = true).
      { apply forallb_forall. intros x Hx. apply negb_true_iff.
        destruct (isForbiddenDomain x) eqn:E; [|reflexivity].
        assert (existsb isForbiddenDomain a = true) by (apply existsb_exists; exists x; auto). congruence. }
      split; [|split].
      + unfold host_ok. rewrite FD, A1, A2. apply orb_true_r.
      + apply forallb_forall. intros x Hx. rewrite forallb_forall in FD, A1.
        specialize (FD x Hx). specialize (A1 x Hx).
        assert (Hx128 : x < 128) by lia.
        pose proof (below128_sweep (fun x => implb (negb (isForbiddenDomain x)) (printable x))
                      ltac:(vm_compute; reflexivity) x Hx128) as S.
        cbv beta in S. rewrite FD in S. exact S.
      + intros _. destruct e; [apply A3; reflexivity|apply He1; reflexivity].
  Qed.

  Theorem parseHost_ok : forall c u input ns u' h,
    c_lax c = false -> c_pre c = HF_none -> c_post c = HF_none ->
    parseHost idna_raw c u input ns = Ok u' h ->
    only_verrs u u' /\ host_ok (negb ns) h = true /\ forallb printable h = true /\ (input <> [] -> h <> []).
  Proof.
    intros c u input ns u' h Hlax Hpre Hpost H.
    apply (parseHost_shape idna_raw c u input ns u' h Hlax) in H. destruct H as [H1 H2].
    rewrite Hpre in H2. cbn [apply_hostfun] in H2.
    split; [exact H1|]. exact (host_shape_ok c input ns h Hpost H2).
  Qed.
End HostOk.
Print Assumptions parseHost_ok.

(* H3 is satisfiable: an oracle that lower-cases the ASCII bytes and drops the others, never failing *)
Definition idna_toy (s : str) : str * bool := (map ascii_lower (filter (fun b => b <? 128) s), false).
Example H3_toy : H3 idna_toy.
Proof.
  intros d a e Hd E _. unfold idna_toy in E. injection E as <- <-.
  split; [|split; [|discriminate]].
  - induction d as [|x d IH]; [reflexivity|]. cbn [filter]. destruct (x <? 128) eqn:Ex.
    + cbn [map forallb]. destruct d as [|y d']; [|rewrite IH by discriminate].
      * cbn [filter map forallb]. unfold ascii_lower, is_upper. destruct ((65 <=? x) && (x <=? 90)) eqn:Eu; lia.
      * unfold ascii_lower, is_upper. destruct ((65 <=? x) && (x <=? 90)) eqn:Eu; lia.
    + destruct d as [|y d']; [reflexivity|apply IH; discriminate].
  - induction d as [|x d IH]; [reflexivity|]. cbn [filter]. destruct (x <? 128) eqn:Ex.
    + cbn [map forallb]. destruct d as [|y d']; [|rewrite IH by discriminate].
      * cbn [filter map forallb]. unfold ascii_lower, is_upper. destruct ((65 <=? x) && (x <=? 90)) eqn:Eu; lia.
      * unfold ascii_lower, is_upper. destruct ((65 <=? x) && (x <=? 90)) eqn:Eu; lia.
    + destruct d as [|y d']; [reflexivity|apply IH; discriminate].
Qed.

(* ================================================================== *)
(* Part C  the parser state machine                                     *)
(* ================================================================== *)

(* the side condition on the configuration for the machine proofs *)
Definition cfg_okm (c : cfg) : bool :=
  cfg_ok c
  && set_closed (c_pathSet c) && set_closed (c_squerySet c) && set_closed (c_querySet c)
  && set_closed (c_sfragSet c) && set_closed (c_fragSet c)
  && forallb (fun b => negb (RuneShouldBeEncoded (c_pathSet c) b)) (58 :: 124 :: bs_ASCIIAlpha)
  && negb (c_lax c) && negb (c_skipTrailSlash c)
  && match c_pre c with HF_none => true | _ => false end
  && match c_post c with HF_none => true | _ => false end
  && isSpecialScheme c s_file.

Example cfg_okm_default : cfg_okm default_cfg = true.
Proof. vm_compute. reflexivity. Qed.

Lemma cfg_okm_parts : forall c, cfg_okm c = true ->
  cfg_ok c = true /\ set_closed (c_pathSet c) = true /\ set_closed (c_squerySet c) = true /\
  set_closed (c_querySet c) = true /\ set_closed (c_sfragSet c) = true /\ set_closed (c_fragSet c) = true /\
  forallb (fun b => negb (RuneShouldBeEncoded (c_pathSet c) b)) (58 :: 124 :: bs_ASCIIAlpha) = true /\ c_lax c = false /\ c_skipTrailSlash c = false /\
  c_pre c = HF_none /\ c_post c = HF_none /\ isSpecialScheme c s_file = true.
Proof.
  intros c H. unfold cfg_okm in H.
  apply andb_true_iff in H; destruct H as [H H12].
  apply andb_true_iff in H; destruct H as [H H11].
  apply andb_true_iff in H; destruct H as [H H10].
  apply andb_true_iff in H; destruct H as [H H9].
  apply andb_true_iff in H; destruct H as [H H8].
  apply andb_true_iff in H; destruct H as [H H7].
  apply andb_true_iff in H; destruct H as [H H6].
  apply andb_true_iff in H; destruct H as [H H5].
  apply andb_true_iff in H; destruct H as [H H4].
  apply andb_true_iff in H; destruct H as [H H3].
  apply andb_true_iff in H; destruct H as [H1 H2].
  apply negb_true_iff in H8, H9.
  repeat split; try assumption.
  - destruct (c_pre c); try discriminate H10; reflexivity.
  - destruct (c_post c); try discriminate H11; reflexivity.
Qed.

(* ------------------------------------------------------------------ *)
(* itoa                                                                 *)

Lemma digits_val_snoc : forall a d, digits_val 10 (a ++ [d]) = digits_val 10 a * 10 + hex_val d.
Proof. intros a d. unfold digits_val. rewrite fold_left_app. reflexivity. Qed.

Lemma hex_val_lower : forall k, k < 10 -> hex_val (hex_lower k) = k.
Proof.
  intros k H. unfold hex_lower. replace (k <? 10) with true by lia.
  unfold hex_val, is_digit. replace ((48 <=? 48 + k) && (48 + k <=? 57)) with true by lia. lia.
Qed.

Lemma fmt_fuel_val : forall fuel n, n < 10 ^ N.of_nat fuel ->
  digits_val 10 (fmt_fuel 10 hex_lower fuel n) = n.
Proof.
  induction fuel as [|f IH]; intros n H.
  - change (10 ^ N.of_nat 0) with 1 in H. cbn [fmt_fuel]. unfold digits_val. cbn [fold_left]. lia.
  - cbn [fmt_fuel]. destruct (n <? 10) eqn:E.
    + unfold digits_val. cbn [fold_left]. rewrite hex_val_lower by lia. lia.
    + rewrite digits_val_snoc. rewrite IH.
      * rewrite hex_val_lower by (apply N.mod_lt; lia).
        pose proof (N.div_mod n 10 ltac:(lia)). lia.
      * rewrite Nat2N.inj_succ, N.pow_succ_r' in H.
        apply N.div_lt_upper_bound; lia.
Qed.

Lemma pos_size_bound : forall p, N.pos p < 2 ^ N.of_nat (Pos.size_nat p).
Proof.
  induction p as [p IH|p IH|]; cbn [Pos.size_nat]; rewrite ?Nat2N.inj_succ, ?N.pow_succ_r'; lia.
Qed.

Lemma pow2_le_pow10 : forall k, 2 ^ k <= 10 ^ k.
Proof. intro k. apply N.pow_le_mono_l. lia. Qed.

Lemma itoa_fuel_ok : forall n, n < 10 ^ N.of_nat (Datatypes.S (N.size_nat n)).
Proof.
  intro n. rewrite Nat2N.inj_succ, N.pow_succ_r'.
  destruct n as [|p]; [cbn; lia|]. cbn [N.size_nat].
  pose proof (pos_size_bound p). pose proof (pow2_le_pow10 (N.of_nat (Pos.size_nat p))).
  assert (0 < 10 ^ N.of_nat (Pos.size_nat p)) by (apply N.neq_0_lt_0; apply N.pow_nonzero; lia). lia.
Qed.

Lemma itoa_val : forall n, digits_val 10 (itoa n) = n.
Proof. intro n. unfold itoa. apply fmt_fuel_val. apply itoa_fuel_ok. Qed.

Lemma hex_lower_is_digit : forall k, k < 10 -> is_digit (hex_lower k) = true.
Proof. intros k H. unfold hex_lower, is_digit. replace (k <? 10) with true by lia. lia. Qed.

Lemma fmt_fuel_head : forall fuel n, 0 < n -> n < 10 ^ N.of_nat fuel ->
  exists d rest, fmt_fuel 10 hex_lower fuel n = hex_lower d :: rest /\ 1 <= d < 10.
Proof.
  induction fuel as [|f IH]; intros n H0 H.
  - change (10 ^ N.of_nat 0) with 1 in H. lia.
  - cbn [fmt_fuel]. destruct (n <? 10) eqn:E.
    + exists n, []. split; [reflexivity|lia].
    + destruct (IH (n / 10)) as [d [rest [E1 E2]]].
      * apply N.div_str_pos. lia.
      * rewrite Nat2N.inj_succ, N.pow_succ_r' in H. apply N.div_lt_upper_bound; lia.
      * exists d, (rest ++ [hex_lower (n mod 10)]). rewrite E1. split; [reflexivity|exact E2].
Qed.

Lemma itoa_canonical : forall n, canonical_decimal (itoa n) = true.
Proof.
  intro n. unfold canonical_decimal.
  assert (D : forallb is_digit (itoa n) = true).
  { unfold itoa. apply fmt_fuel_chars; [lia|apply hex_lower_is_digit]. }
  rewrite D. pose proof (itoa_nonnil n) as NN.
  destruct (N.eq_dec n 0) as [->|Hn]; [reflexivity|].
  destruct (fmt_fuel_head (Datatypes.S (N.size_nat n)) n ltac:(lia) (itoa_fuel_ok n)) as [d [rest [E1 E2]]].
  unfold itoa. rewrite E1. cbn [is_nil negb andb].
  assert (E : d = 1 \/ d = 2 \/ d = 3 \/ d = 4 \/ d = 5 \/ d = 6 \/ d = 7 \/ d = 8 \/ d = 9) by lia.
  repeat (destruct E as [->|E]; [reflexivity|]). subst d. reflexivity.
Qed.

(* ------------------------------------------------------------------ *)
(* the invariant of a URL whose list path is still being built          *)

Definition creds (u : url) : bool := negb (is_nil (u_username u)) || negb (is_nil (u_password u)).

Ltac fieldsx :=
  try unfold qset; try unfold fset; try unfold creds;
  try unfold isSpecialSchemeAndBackslash; try unfold IsSpecialScheme;
  cbn [u_input u_scheme u_username u_password u_host u_port u_decodedPort u_path u_opaque u_query u_fragment
       u_verrs u_sp set_input set_scheme set_username set_password set_host set_port set_path set_query
       set_fragment set_verrs set_sp].
Ltac fieldsx_in H :=
  try unfold qset in H; try unfold fset in H; try unfold creds in H;
  try unfold isSpecialSchemeAndBackslash in H; try unfold IsSpecialScheme in H;
  cbn [u_input u_scheme u_username u_password u_host u_port u_decodedPort u_path u_opaque u_query u_fragment
       u_verrs u_sp set_input set_scheme set_username set_password set_host set_port set_path set_query
       set_fragment set_verrs set_sp] in H.

Record InvP (c : cfg) (u : url) : Prop := {
  P_scheme : scheme_ok (u_scheme u) = true;
  P_list : u_opaque u = false;
  P_path : forallb (seg_ok c) (u_path u) = true;
  P_special : IsSpecialScheme c u = true ->
              exists h, u_host u = Some h /\ (str_eqb (u_scheme u) s_file = true \/ h <> []);
  P_nocred : (u_host u = None \/ u_host u = Some [] \/ str_eqb (u_scheme u) s_file = true) ->
             u_username u = [] /\ u_password u = [] /\ u_port u = None;
  P_port : forall p, u_port u = Some p ->
           canonical_decimal p = true /\ (digits_val 10 p <=? 65535) = true /\
           u_decodedPort u = digits_val 10 p /\ getSpecialScheme c (u_scheme u) <> Some p;
  P_user : none_in pes_UserInfo (u_username u) = true;
  P_pass : none_in pes_UserInfo (u_password u) = true;
  P_query : forall q, u_query u = Some q -> none_in (qset c u) q = true;
  P_frag : forall f, u_fragment u = Some f -> none_in (fset c u) f = true;
  P_host : forall h, u_host u = Some h -> host_ok (IsSpecialScheme c u) h = true /\ forallb printable h = true
}.

Lemma InvP_Inv : forall c u, InvP c u ->
  (u_path u <> [] \/ (IsSpecialScheme c u = false /\ u_host u <> None)) -> Inv c u.
Proof.
  intros c u [H1 H2 H3 H4 H5 H6 H7 H8 H9 H10 H11] Hp. constructor; try assumption.
  - intro E. congruence.
  - intros _. exact H3.
  - intro Hs. split; [exact H2|]. split; [|apply H4; exact Hs].
    destruct Hp as [Hp|[Hp _]]; [exact Hp|congruence].
  - intros Hh _. destruct Hp as [Hp|[_ Hp]]; [exact Hp|contradiction].
Qed.

Lemma Inv_InvP : forall c u, Inv c u -> u_opaque u = false -> InvP c u.
Proof.
  intros c u [H1 H2 H3 H4 H5 H6 H7 H8 H9 H10 H11 H12] Ho. constructor; try assumption.
  - apply H3. exact Ho.
  - intro Hs. destruct (H4 Hs) as [_ [_ E]]. exact E.
Qed.

Lemma InvP_ext : forall c u u', same_fields u u' -> InvP c u -> InvP c u'.
Proof.
  intros c u u' S H. destruct u as [a1 a2 a3 a4 a5 a6 a7 a8 a9 a10 a11 a12 a13], u' as [b1 b2 b3 b4 b5 b6 b7 b8 b9 b10 b11 b12 b13].
  unfold same_fields in S.
  cbn [u_scheme u_username u_password u_host u_port u_decodedPort u_path u_opaque u_query u_fragment] in S.
  destruct S as [A1 [A2 [A3 [A4 [A5 [A6 [A7 [A8 [A9 A10]]]]]]]]]. subst.
  destruct H as [H1 H2 H3 H4 H5 H6 H7 H8 H9 H10 H11]. constructor; assumption.
Qed.

(* ------------------------------------------------------------------ *)
(* shapes of the record in the early states                             *)

Definition rest_blank (u : url) : Prop :=
  u_username u = [] /\ u_password u = [] /\ u_host u = None /\ u_port u = None /\ u_path u = [] /\
  u_opaque u = false /\ u_query u = None /\ u_fragment u = None.
Definition blank (u : url) : Prop := u_scheme u = [] /\ rest_blank u.
Definition preauth (u : url) : Prop :=
  scheme_ok (u_scheme u) = true /\ str_eqb (u_scheme u) s_file = false /\ rest_blank u.
Definition auth_shape (u : url) : Prop :=
  scheme_ok (u_scheme u) = true /\ str_eqb (u_scheme u) s_file = false /\
  none_in pes_UserInfo (u_username u) = true /\ none_in pes_UserInfo (u_password u) = true /\
  u_host u = None /\ u_port u = None /\ u_path u = [] /\ u_opaque u = false /\ u_query u = None /\
  u_fragment u = None.
Definition file_shape (u : url) : Prop :=
  u_scheme u = s_file /\ u_username u = [] /\ u_password u = [] /\ u_host u = Some [] /\ u_port u = None /\
  u_path u = [] /\ u_opaque u = false /\ u_query u = None /\ u_fragment u = None.
Definition opq_shape (c : cfg) (u : url) (buf : str) : Prop :=
  scheme_ok (u_scheme u) = true /\ IsSpecialScheme c u = false /\
  u_username u = [] /\ u_password u = [] /\ u_host u = None /\ u_port u = None /\ u_path u = [buf] /\
  u_opaque u = true /\ u_query u = None /\ u_fragment u = None /\
  none_in pes_C0 buf = true /\ has_prefix [47] buf = false.

Lemma host_ok_nil : forall sp, host_ok sp [] = true.
Proof. intros [|]; reflexivity. Qed.

Lemma opq_Inv : forall c u buf, opq_shape c u buf -> Inv c u.
Proof.
  intros c u buf [H1 [H2 [H3 [H4 [H5 [H6 [H7 [H8 [H9 [H10 [H11 H12]]]]]]]]]]].
  constructor; try assumption.
  - intros _. split; [exact H5|]. exists buf. auto.
  - intro E. congruence.
  - intro E. congruence.
  - intros _. auto.
  - intros _ E. congruence.
  - intros p E. congruence.
  - rewrite H3. reflexivity.
  - rewrite H4. reflexivity.
  - intros q E. congruence.
  - intros f E. congruence.
  - intros h E. congruence.
Qed.

Lemma preauth_InvP : forall c u, preauth u -> IsSpecialScheme c u = false -> InvP c u.
Proof.
  intros c u [H1 [H2 [B1 [B2 [B3 [B4 [B5 [B6 [B7 B8]]]]]]]]] Hs.
  constructor; try assumption.
  - rewrite B5. reflexivity.
  - intro E. congruence.
  - intros _. auto.
  - intros p E. congruence.
  - rewrite B1. reflexivity.
  - rewrite B2. reflexivity.
  - intros q E. congruence.
  - intros f E. congruence.
  - intros h E. congruence.
Qed.

Lemma file_shape_InvP : forall c u, isSpecialScheme c s_file = true -> file_shape u -> InvP c u.
Proof.
  intros c u Hf [H1 [H2 [H3 [H4 [H5 [H6 [H7 [H8 H9]]]]]]]].
  constructor; try assumption.
  - rewrite H1. reflexivity.
  - rewrite H6. reflexivity.
  - intros _. exists []. split; [exact H4|]. left. rewrite H1. reflexivity.
  - intros _. auto.
  - intros p E. congruence.
  - rewrite H2. reflexivity.
  - rewrite H3. reflexivity.
  - intros q E. congruence.
  - intros f E. congruence.
  - intros h E. rewrite H4 in E. injection E as <-. split; [apply host_ok_nil|reflexivity].
Qed.

(* ------------------------------------------------------------------ *)
(* facts about U+FFFD, the code point read at the end of the input      *)

Lemma isAlpha_err : isAlpha rune_error = false. Proof. reflexivity. Qed.
Lemma isAlnum_err : isAlnum rune_error = false. Proof. reflexivity. Qed.
Lemma isDigit_err : isDigit rune_error = false. Proof. reflexivity. Qed.
Lemma err_35 : (rune_error =? 35) = false. Proof. reflexivity. Qed.
Lemma err_43 : (rune_error =? 43) = false. Proof. reflexivity. Qed.
Lemma err_45 : (rune_error =? 45) = false. Proof. reflexivity. Qed.
Lemma err_46 : (rune_error =? 46) = false. Proof. reflexivity. Qed.
Lemma err_47 : (rune_error =? 47) = false. Proof. reflexivity. Qed.
Lemma err_58 : (rune_error =? 58) = false. Proof. reflexivity. Qed.
Lemma err_63 : (rune_error =? 63) = false. Proof. reflexivity. Qed.
Lemma err_64 : (rune_error =? 64) = false. Proof. reflexivity. Qed.
Lemma err_91 : (rune_error =? 91) = false. Proof. reflexivity. Qed.
Lemma err_92 : (rune_error =? 92) = false. Proof. reflexivity. Qed.
Lemma err_93 : (rune_error =? 93) = false. Proof. reflexivity. Qed.

Ltac err_tests :=
  rewrite ?isAlpha_err, ?isAlnum_err, ?isDigit_err, ?err_35, ?err_43, ?err_45, ?err_46, ?err_47, ?err_58,
          ?err_63, ?err_64, ?err_91, ?err_92, ?err_93.

Lemma set_verrs_id : forall u, set_verrs u (u_verrs u) = u.
Proof. intros []. reflexivity. Qed.

Lemma skipn_nth_opt : forall (A : Type) n (l : list A),
  skipn n l = match nth_opt l n with Some x => x :: skipn (Datatypes.S n) l | None => [] end.
Proof.
  intros A n. induction n as [|n IH]; intros [|x l]; try reflexivity.
  cbn [skipn nth_opt]. rewrite IH. destruct (nth_opt l n); reflexivity.
Qed.

Lemma nth_opt_none : forall (A : Type) n (l : list A), nth_opt l n = None -> (length l <= n)%nat.
Proof.
  intros A n. induction n as [|n IH]; intros [|x l] H; cbn [nth_opt length] in *; try lia; try discriminate.
  apply IH in H. lia.
Qed.


Lemma table_small : forall l r, forallb (fun x => x <? 128) l = true -> mem r l = true -> r < 128.
Proof.
  intros l r Hl Hm. unfold mem in Hm. apply existsb_exists in Hm. destruct Hm as [x [Hx E]].
  apply N.eqb_eq in E. subst x. rewrite forallb_forall in Hl. specialize (Hl r Hx). lia.
Qed.

Lemma isAlpha_facts : forall r, isAlpha r = true -> r < 128 /\ is_lower (ascii_lower r) = true.
Proof.
  intros r H. assert (Hr : r < 128) by (apply (table_small bs_ASCIIAlpha); [vm_compute; reflexivity|exact H]).
  split; [exact Hr|].
  pose proof (below128_sweep (fun r => implb (isAlpha r) (is_lower (ascii_lower r))) ltac:(vm_compute; reflexivity) r Hr) as S.
  cbv beta in S. rewrite H in S. exact S.
Qed.

Lemma scheme_char_facts : forall r, isAlnum r || (r =? 43) || (r =? 45) || (r =? 46) = true ->
  r < 128 /\ scheme_char (ascii_lower r) = true.
Proof.
  intros r H. assert (Hr : r < 128).
  { destruct (isAlnum r) eqn:E; [|cbn [orb] in H; lia].
    apply (table_small bs_ASCIIAlphanumeric); [vm_compute; reflexivity|exact E]. }
  split; [exact Hr|].
  pose proof (below128_sweep (fun r => implb (isAlnum r || (r =? 43) || (r =? 45) || (r =? 46)) (scheme_char (ascii_lower r)))
                ltac:(vm_compute; reflexivity) r Hr) as S.
  cbv beta in S. rewrite H in S. exact S.
Qed.

Lemma isDigit_facts : forall r, isDigit r = true -> r < 128 /\ is_digit r = true.
Proof.
  intros r H. assert (Hr : r < 128) by (apply (table_small bs_ASCIIDigit); [vm_compute; reflexivity|exact H]).
  split; [exact Hr|].
  pose proof (below128_sweep (fun r => implb (isDigit r) (is_digit r)) ltac:(vm_compute; reflexivity) r Hr) as S.
  cbv beta in S. rewrite H in S. exact S.
Qed.

Lemma scheme_ok_snoc : forall s x, scheme_ok s = true -> scheme_char x = true -> scheme_ok (s ++ [x]) = true.
Proof.
  intros [|a s] x H Hx; [discriminate H|]. unfold scheme_ok in *. cbn [app].
  apply andb_true_iff in H. destruct H as [H1 H2]. rewrite H1, forallb_app, H2. cbn [forallb]. rewrite Hx. reflexivity.
Qed.

Lemma rest_blank_set_verrs : forall u v, rest_blank u -> rest_blank (set_verrs u v).
Proof. intros u v H. exact H. Qed.


(* what the next iteration reads / whether the remaining input starts with '/' *)
Definition next_r (inp : list rune) (ptr : Z) : N :=
  if (n_inp inp <=? ptr + 1)%Z then rune_error else cp_at inp (ptr + 1).

Lemma nth_opt_some_lt : forall (A : Type) n (l : list A) x, nth_opt l n = Some x -> (n < length l)%nat.
Proof.
  intros A n. induction n as [|n IH]; intros [|y l] x H; cbn [nth_opt length] in *; try discriminate; try lia.
  apply IH in H. lia.
Qed.

Lemma rsw_true : forall inp p, remainingStartsWith inp p false [47] = true -> (p + 1 < n_inp inp)%Z.
Proof.
  intros inp p H. unfold remainingStartsWith, rest_from in H. cbn [length] in H.
  destruct (Z.ltb_spec (p + 1) 0) as [Hn|Hn]; [unfold n_inp, len; lia|].
  rewrite skipn_nth_opt in H. destruct (nth_opt inp (Z.to_nat (p + 1))) eqn:E; [|discriminate H].
  apply nth_opt_some_lt in E. unfold n_inp, len. lia.
Qed.

Lemma rsw_false : forall inp p, remainingStartsWith inp p false [47] = false -> (next_r inp p =? 47) = false.
Proof.
  intros inp p H. unfold next_r. destruct (n_inp inp <=? p + 1)%Z eqn:E; [reflexivity|].
  unfold cp_at. destruct (p + 1 <? 0)%Z eqn:En; [reflexivity|].
  unfold remainingStartsWith, rest_from in H. cbn [length] in H.
  rewrite skipn_nth_opt in H. destruct (nth_opt inp (Z.to_nat (p + 1))) as [x|]; [|reflexivity].
  cbn [map firstn list_eqb] in H. rewrite andb_true_r in H. exact H.
Qed.

Lemma eof2_false : forall inp p, (p + 1 < n_inp inp)%Z -> (n_inp inp <=? p + 1)%Z = false.
Proof. intros inp p H. apply Z.leb_gt. exact H. Qed.


(* transfer along equality of the nine fields other than decodedPort, when there is no port *)
Definition same_nodp (u u' : url) : Prop :=
  u_scheme u = u_scheme u' /\ u_username u = u_username u' /\ u_password u = u_password u' /\
  u_host u = u_host u' /\ u_port u = u_port u' /\
  u_path u = u_path u' /\ u_opaque u = u_opaque u' /\ u_query u = u_query u' /\ u_fragment u = u_fragment u'.

Lemma Inv_transfer_nodp : forall c u u', Inv c u -> u_port u = None -> same_nodp u u' -> Inv c u'.
Proof.
  intros c u u' Hi Hp [A1 [A2 [A3 [A4 [A5 [A6 [A7 [A8 A9]]]]]]]].
  apply (Inv_ext c (set_port u None (u_decodedPort u'))).
  - unfold same_fields. cbn [u_scheme u_username u_password u_host u_port u_decodedPort u_path u_opaque u_query
      u_fragment set_port]. rewrite <- A5, Hp. repeat split; assumption.
  - apply Inv_set_port_none. exact Hi.
Qed.

Lemma InvP_transfer_nodp : forall c u u', InvP c u -> u_port u = None -> same_nodp u u' -> InvP c u'.
Proof.
  intros c u u' H Hp S.
  destruct u as [a1 a2 a3 a4 a5 a6 a7 a8 a9 a10 a11 a12 a13], u' as [b1 b2 b3 b4 b5 b6 b7 b8 b9 b10 b11 b12 b13].
  unfold same_nodp in S.
  cbn [u_scheme u_username u_password u_host u_port u_decodedPort u_path u_opaque u_query u_fragment] in S, Hp.
  destruct S as [A1 [A2 [A3 [A4 [A5 [A7 [A8 [A9 A10]]]]]]]]. subst.
  destruct H as [H1 H2 H3 H4 H5 H6 H7 H8 H9 H10 H11]. constructor; try assumption.
  intros p E. cbn [u_port] in E. discriminate E.
Qed.

Lemma Inv_set_fragment_some : forall c u f, Inv c u -> none_in (fset c u) f = true -> Inv c (set_fragment u (Some f)).
Proof.
  intros c u f [H1 H2 H3 H4 H5 H6 H7 H8 H9 H10 H11 H12] Hf.
  constructor; fields; try assumption. intros f' E. injection E as <-. exact Hf.
Qed.

Lemma none_in_nil : forall t, none_in t [] = true.
Proof. reflexivity. Qed.

Section MachineC.
  Variable idna_raw : str -> str * bool.
  Hypothesis HH3 : H3 idna_raw.
  Variable c : cfg.
  Hypothesis Hc : cfg_okm c = true.
  Variable inp : list rune.
  Variable base : option url.
  Hypothesis Hbase : forall b, base = Some b -> Inv c b.

  Notation stepN := (step idna_raw c inp base None).

  Let Hcok : cfg_ok c = true. Proof. apply (cfg_okm_parts c Hc). Qed.
  Let Hcl_path : set_closed (c_pathSet c) = true. Proof. apply (cfg_okm_parts c Hc). Qed.
  Let Hcl_squery : set_closed (c_squerySet c) = true. Proof. apply (cfg_okm_parts c Hc). Qed.
  Let Hcl_query : set_closed (c_querySet c) = true. Proof. apply (cfg_okm_parts c Hc). Qed.
  Let Hcl_sfrag : set_closed (c_sfragSet c) = true. Proof. apply (cfg_okm_parts c Hc). Qed.
  Let Hcl_frag : set_closed (c_fragSet c) = true. Proof. apply (cfg_okm_parts c Hc). Qed.
  Let Hdrive : forallb (fun b => negb (RuneShouldBeEncoded (c_pathSet c) b)) (58 :: 124 :: bs_ASCIIAlpha) = true.
  Proof. apply (cfg_okm_parts c Hc). Qed.
  Let H58 : RuneShouldBeEncoded (c_pathSet c) 58 = false.
  Proof. pose proof Hdrive as H. cbn [forallb] in H. apply andb_true_iff in H. destruct H as [H _]. apply negb_true_iff. exact H. Qed.
  Let Hlax : c_lax c = false. Proof. apply (cfg_okm_parts c Hc). Qed.
  Let Htrail : c_skipTrailSlash c = false. Proof. apply (cfg_okm_parts c Hc). Qed.
  Let Hpre : c_pre c = HF_none. Proof. apply (cfg_okm_parts c Hc). Qed.
  Let Hpost : c_post c = HF_none. Proof. apply (cfg_okm_parts c Hc). Qed.
  Let Hfile : isSpecialScheme c s_file = true. Proof. apply (cfg_okm_parts c Hc). Qed.

  (* position q holds a code point that ends the authority / host *)
  Definition term_at (u : url) (q : Z) : bool :=
    (n_inp inp <=? q)%Z ||
    ((cp_at inp q =? 47) || (cp_at inp q =? 63) || (cp_at inp q =? 35) || (IsSpecialScheme c u && (cp_at inp q =? 92))).

  Definition MInv (m : mstate) : Prop :=
    let u := m_url m in
    let buf := m_buf m in
    match m_state m with
    | SchemeStart => blank u /\ buf = []
    | Scheme => blank u /\ scheme_ok buf = true
    | NoScheme => blank u /\ buf = []
    | SpecialRelativeOrAuthority =>
        preauth u /\ buf = [] /\ IsSpecialScheme c u = true /\ exists b, base = Some b /\ u_scheme b = u_scheme u
    | SpecialAuthoritySlashes | SpecialAuthorityIgnoreSlashes => preauth u /\ buf = [] /\ IsSpecialScheme c u = true
    | PathOrAuthority => preauth u /\ buf = [] /\ IsSpecialScheme c u = false
    | Authority =>
        auth_shape u /\ (creds u = true -> m_at m = true) /\
        (buf <> [] -> term_at u (m_ptr m - len (runes buf) + 1) = false)
    | HostSt | HostnameSt =>
        auth_shape u /\ (creds u = true -> buf = [] -> term_at u (m_ptr m + 1) = false)
    | PortSt =>
        InvP c u /\ u_path u = [] /\ (exists x h, u_host u = Some (x :: h)) /\
        str_eqb (u_scheme u) s_file = false /\ u_port u = None /\ u_query u = None /\ u_fragment u = None /\
        forallb is_digit buf = true
    | PathStart => InvP c u /\ buf = [] /\ u_path u = [] /\ u_host u <> None /\ u_query u = None /\ u_fragment u = None
    | PathSt => InvP c u /\ seg_ok c buf = true
    | File => rest_blank u /\ buf = []
    | FileSlash | FileHost => file_shape u /\ (m_state m = FileSlash -> buf = [])
    | OpaquePath => opq_shape c u buf /\ (buf = [] -> (next_r inp (m_ptr m) =? 47) = false)
    | QuerySt => Inv c u /\ none_in (qset c u) buf = true
    | FragmentSt => Inv c u /\ none_in (fset c u) buf = true
    | Relative =>
        rest_blank u /\ buf = [] /\
        exists b, base = Some b /\ u_opaque b = false /\ str_eqb (u_scheme b) s_file = false
    | RelativeSlash =>
        rest_blank u /\ buf = [] /\
        exists b, base = Some b /\ u_scheme u = u_scheme b /\ u_opaque b = false /\ str_eqb (u_scheme b) s_file = false
    end.

  (* when the iteration ends with eof set the loop returns the record *)
  Definition MInvW (m : mstate) : Prop := if m_eof m then Inv c (m_url m) else MInv m.

  Definition Post (o : outcome) : Prop :=
    match o with
    | Cont m' => MInvW m'
    | RetUrl u => Inv c u
    | _ => True
    end.

  Lemma mherr_post : forall u t f k,
    (forall v, Post (k (set_verrs u v))) -> Post (mherr c u t f k).
  Proof.
    intros u t f k H. unfold mherr, handleError.
    destruct (f || c_fail c); [destruct (c_report c); exact I|].
    destruct (c_report c); [apply H|]. rewrite <- (set_verrs_id u). apply H.
  Qed.

  Lemma mherr_fatal : forall u t k, Post (mherr c u t true k).
  Proof. intros u t k. unfold mherr, handleError. cbn [orb]. destruct (c_report c); exact I. Qed.

  Ltac start_state :=
    intros [st ptr eof buf atF brF pwF u] Hst Hm He; cbn [m_state m_eof] in Hst, He; subst st eof;
    unfold MInv in Hm; cbn [m_state m_url m_buf m_ptr m_at] in Hm;
    unfold step; cbn [m_state m_ptr m_eof m_buf m_at m_br m_pw m_url overridden is_some negb andb];
    set (p := (ptr + 1)%Z).

  Ltac eof_case := cbv iota; err_tests; cbn [andb orb negb]; cbv iota.
  Ltac fin := unfold Post, MInvW; cbn [m_eof mk]; unfold MInv; cbn [m_state m_url m_buf m_ptr m_at mk].

  Lemma step_SchemeStart : forall m, m_state m = SchemeStart -> MInv m -> m_eof m = false -> Post (stepN m).
  Proof.
    start_state. destruct Hm as [Hb ->].
    destruct (n_inp inp <=? p)%Z eqn:Heof.
    - eof_case. fin. auto.
    - set (r := cp_at inp p). destruct (isAlpha r) eqn:Ha.
      + fin. split; [exact Hb|].
        destruct (isAlpha_facts r Ha) as [A1 A2].
        assert (ascii_lower r < 128) by (clear - A1; unfold ascii_lower; destruct (is_upper r) eqn:E; unfold is_upper in E; lia).
        rewrite utf8_enc_ascii by assumption. cbn [app scheme_ok forallb]. rewrite A2. reflexivity.
      + fin. auto.
  Qed.



  Lemma blank_rest : forall u s, blank u -> rest_blank (set_scheme u s).
  Proof. intros u s [_ H]. exact H. Qed.

  Lemma preauth_intro : forall u s, blank u -> scheme_ok s = true -> str_eqb s s_file = false -> preauth (set_scheme u s).
  Proof. intros u s [_ H] H1 H2. unfold preauth. fieldsx. auto. Qed.

  Lemma step_Scheme : forall m, m_state m = Scheme -> MInv m -> m_eof m = false -> Post (stepN m).
  Proof.
    start_state. destruct Hm as [Hb Hbuf].
    destruct (n_inp inp <=? p)%Z eqn:Heof.
    - eof_case. fin. auto.
    - set (r := cp_at inp p).
      destruct (isAlnum r || (r =? 43) || (r =? 45) || (r =? 46)) eqn:Hsc.
      + fin. split; [exact Hb|]. destruct (scheme_char_facts r Hsc) as [A1 A2].
        assert (ascii_lower r < 128) by (clear - A1; unfold ascii_lower; destruct (is_upper r) eqn:E; unfold is_upper in E; lia).
        rewrite utf8_enc_ascii by assumption. apply scheme_ok_snoc; assumption.
      + destruct (r =? 58) eqn:H58'; [|fin; auto].
        pose proof (blank_rest u buf Hb) as Hrb. fieldsx.
        destruct (str_eqb buf s_file) eqn:Hf.
        { destruct (negb (remainingStartsWith inp p false [47; 47])).
          - apply mherr_post. intro v. fin. auto.
          - fin. auto. }
        destruct (isSpecialScheme c buf) eqn:Hs.
        { cbn [andb]. destruct base as [b|] eqn:Eb.
          - destruct (str_eqb (u_scheme b) buf) eqn:Esb.
            + fin. fieldsx. apply str_eqb_eq in Esb.
              split; [apply preauth_intro; assumption|]. split; [reflexivity|]. split; [exact Hs|].
              exists b. auto.
            + fin. fieldsx. split; [apply preauth_intro; assumption|]. auto.
          - fin. fieldsx. split; [apply preauth_intro; assumption|]. auto. }
        cbn [andb]. destruct (remainingStartsWith inp p false [47]) eqn:Hrs.
        { rewrite (eof2_false inp p (rsw_true inp p Hrs)). fin. fieldsx.
          split; [apply preauth_intro; assumption|]. auto. }
        fin. fieldsx. split; [|intros _; apply rsw_false; exact Hrs].
        destruct Hrb as [B1 [B2 [B3 [B4 [B5 [B6 [B7 B8]]]]]]].
        unfold opq_shape. fieldsx. repeat split; auto.
  Qed.


  Lemma step_NoScheme : forall m, m_state m = NoScheme -> MInv m -> m_eof m = false -> Post (stepN m).
  Proof.
    start_state. destruct Hm as [Hb ->].
    set (r := if (n_inp inp <=? p)%Z then rune_error else cp_at inp p).
    destruct base as [b|] eqn:Eb; [|apply mherr_fatal].
    pose proof (Hbase b eq_refl) as Hib.
    destruct (u_opaque b) eqn:Hob.
    - cbn [andb]. destruct (r =? 35) eqn:H35; cbn [negb]; [|apply mherr_fatal].
      assert (Heof : (n_inp inp <=? p)%Z = false).
      { destruct (n_inp inp <=? p)%Z; [|reflexivity]. unfold r in H35. discriminate H35. }
      rewrite Heof. fin. split; [|reflexivity].
      destruct Hb as [_ [B1 [B2 [B3 [B4 [B5 [B6 [B7 B8]]]]]]]].
      destruct (I_opaque _ _ Hib Hob) as [Hh _].
      destruct (I_nocred _ _ Hib (or_introl Hh)) as [C1 [C2 C3]].
      apply (Inv_transfer_nodp c (set_fragment b (Some []))).
      + apply Inv_set_fragment_some; [exact Hib|reflexivity].
      + exact C3.
      + unfold same_nodp. fieldsx. rewrite B1, B2, B3, B4, C1, C2, C3, Hh. repeat split; auto.
    - cbn [andb]. destruct (negb (str_eqb (u_scheme b) s_file)) eqn:Hf.
      + fin. destruct Hb as [_ Hb]. split; [exact Hb|]. split; [reflexivity|].
        exists b. apply negb_true_iff in Hf. auto.
      + fin. destruct Hb as [_ Hb]. auto.
  Qed.

  Lemma step_SpecialRelativeOrAuthority : forall m, m_state m = SpecialRelativeOrAuthority ->
    MInv m -> m_eof m = false -> Post (stepN m).
  Proof.
    start_state. destruct Hm as [Hpa [-> [Hs [b [Eb Esb]]]]].
    assert (Hrel : forall v, Post (Cont (mk Relative (p - 1) false [] atF brF pwF (set_verrs u v)))).
    { intro v. fin. fieldsx. destruct Hpa as [P1 [P2 P3]]. split; [exact P3|]. split; [reflexivity|].
      exists b. split; [exact Eb|]. rewrite Esb. split; [|exact P2].
      pose proof (Hbase b Eb) as Hib. unfold IsSpecialScheme in Hs. rewrite <- Esb in Hs.
      apply (I_special _ _ Hib Hs). }
    destruct (n_inp inp <=? p)%Z eqn:Heof.
    - eof_case. apply mherr_post. exact Hrel.
    - set (r := cp_at inp p). destruct ((r =? 47) && remainingStartsWith inp p false [47]) eqn:E.
      + apply andb_true_iff in E. destruct E as [_ E].
        rewrite (eof2_false inp p (rsw_true inp p E)). fin. auto.
      + apply mherr_post. exact Hrel.
  Qed.

  Lemma step_SpecialAuthoritySlashes : forall m, m_state m = SpecialAuthoritySlashes ->
    MInv m -> m_eof m = false -> Post (stepN m).
  Proof.
    start_state. destruct Hm as [Hpa [-> Hs]].
    assert (Hrel : forall v, Post (Cont (mk SpecialAuthorityIgnoreSlashes (p - 1) false [] atF brF pwF (set_verrs u v)))).
    { intro v. fin. auto. }
    destruct (n_inp inp <=? p)%Z eqn:Heof.
    - eof_case. apply mherr_post. exact Hrel.
    - set (r := cp_at inp p). destruct ((r =? 47) && remainingStartsWith inp p false [47]) eqn:E.
      + apply andb_true_iff in E. destruct E as [_ E].
        rewrite (eof2_false inp p (rsw_true inp p E)). fin. auto.
      + apply mherr_post. exact Hrel.
  Qed.

  Lemma preauth_auth : forall u, preauth u -> auth_shape u.
  Proof.
    intros u [P1 [P2 [B1 [B2 [B3 [B4 [B5 [B6 [B7 B8]]]]]]]]]. unfold auth_shape. rewrite B1, B2.
    repeat split; auto.
  Qed.

  Lemma preauth_creds : forall u, preauth u -> creds u = false.
  Proof. intros u [P1 [P2 [B1 [B2 _]]]]. unfold creds. rewrite B1, B2. reflexivity. Qed.

  Lemma step_SpecialAuthorityIgnoreSlashes : forall m, m_state m = SpecialAuthorityIgnoreSlashes ->
    MInv m -> m_eof m = false -> Post (stepN m).
  Proof.
    start_state. destruct Hm as [Hpa [-> Hs]].
    assert (Hau : Post (Cont (mk Authority (p - 1) false [] atF brF pwF u))).
    { fin. split; [apply preauth_auth; exact Hpa|]. rewrite (preauth_creds u Hpa).
      split; [discriminate|]. intro N; contradiction. }
    destruct (n_inp inp <=? p)%Z eqn:Heof.
    - eof_case. exact Hau.
    - set (r := cp_at inp p). destruct (negb (r =? 47) && negb (r =? 92)).
      + exact Hau.
      + apply mherr_post. intro v. fin. auto.
  Qed.

  Lemma step_PathOrAuthority : forall m, m_state m = PathOrAuthority ->
    MInv m -> m_eof m = false -> Post (stepN m).
  Proof.
    start_state. destruct Hm as [Hpa [-> Hs]].
    assert (Hps : Post (Cont (mk PathSt (p - 1) false [] atF brF pwF u))).
    { fin. split; [apply preauth_InvP; assumption|reflexivity]. }
    destruct (n_inp inp <=? p)%Z eqn:Heof.
    - eof_case. exact Hps.
    - set (r := cp_at inp p). destruct (r =? 47).
      + fin. split; [apply preauth_auth; exact Hpa|]. rewrite (preauth_creds u Hpa).
        split; [discriminate|]. intro N; contradiction.
      + exact Hps.
  Qed.


  Lemma set_verrs_twice : forall u v v', set_verrs (set_verrs u v) v' = set_verrs u v'.
  Proof. reflexivity. Qed.

  (* the two InvalidURLUnit checks in front of the encoders *)
  Lemma uuc_post : forall (A inv : bool) u (k1 k2 : url -> outcome),
    (forall v, Post (k1 (set_verrs u v))) -> (forall v, Post (k2 (set_verrs u v))) ->
    Post ((if A then (fun k' => mherr c u InvalidURLUnit false k') else (fun k' => k' u))
            (fun u => if inv then mherr c u InvalidURLUnit false k1 else k2 u)).
  Proof.
    intros A inv u k1 k2 H1 H2.
    assert (H2' : Post (k2 u)) by (rewrite <- (set_verrs_id u); apply H2).
    destruct A.
    - apply mherr_post. intro v. destruct inv; [|apply H2].
      apply mherr_post. intro v'. rewrite set_verrs_twice. apply H1.
    - destruct inv; [|apply H2']. apply mherr_post. intro v. apply H1.
  Qed.

  Lemma qset_closed : forall u, set_closed (qset c u) = true.
  Proof. intro u. unfold qset. destruct (IsSpecialScheme c u); assumption. Qed.
  Lemma fset_closed : forall u, set_closed (fset c u) = true.
  Proof. intro u. unfold fset. destruct (IsSpecialScheme c u); assumption. Qed.

  Lemma step_QuerySt : forall m, m_state m = QuerySt -> MInv m -> m_eof m = false -> Post (stepN m).
  Proof.
    start_state. destruct Hm as [Hi Hbuf].
    destruct (n_inp inp <=? p)%Z eqn:Heof.
    - eof_case. fin. apply Inv_set_query_some; assumption.
    - set (r := cp_at inp p). destruct (r =? 35).
      + destruct (u_query u) eqn:Hq; [|exact I]. fin. split; [|reflexivity].
        apply Inv_set_fragment_some; [|reflexivity]. apply Inv_set_query_some; assumption.
      + cbn [negb]. fieldsx_in Hbuf. apply uuc_post; intro v; fin; fieldsx;
        (split; [apply Inv_set_verrs; exact Hi|]);
        rewrite none_in_app;
        (destruct (isSpecialScheme c (u_scheme u)); rewrite Hbuf; cbn [andb]; apply enc_rune_none_in; assumption).
  Qed.

  Lemma step_FragmentSt : forall m, m_state m = FragmentSt -> MInv m -> m_eof m = false -> Post (stepN m).
  Proof.
    start_state. destruct Hm as [Hi Hbuf].
    destruct (n_inp inp <=? p)%Z eqn:Heof.
    - eof_case. fin. apply Inv_set_fragment_some; assumption.
    - set (r := cp_at inp p). cbn [negb]. fieldsx_in Hbuf. apply uuc_post; intro v; fin; fieldsx;
      (split; [apply Inv_set_verrs; exact Hi|]);
      rewrite none_in_app;
      (destruct (isSpecialScheme c (u_scheme u)); rewrite Hbuf; cbn [andb]; apply enc_rune_none_in; assumption).
  Qed.


  Lemma enc_invalid_nonnil : forall r t, percentEncodeInvalidRune c r t <> [].
  Proof. intros r t. unfold percentEncodeInvalidRune. destruct (c_singlePct c); apply enc_rune_nonnil. Qed.

  Lemma no47_head : forall s t, forallb (fun b => negb (b =? 47)) s = true -> s <> [] -> has_prefix [47] (s ++ t) = false.
  Proof.
    intros [|a s] t H N; [contradiction|]. cbn [forallb] in H. apply andb_true_iff in H. destruct H as [H _].
    cbn [app has_prefix]. apply negb_true_iff in H. rewrite N.eqb_sym, H. reflexivity.
  Qed.

  Lemma has_prefix_app_nonnil : forall p s t, s <> [] -> has_prefix [p] (s ++ t) = has_prefix [p] s.
  Proof. intros p [|a s] t N; [contradiction|]. reflexivity. Qed.

  Lemma opq_append : forall u buf enc v r,
    opq_shape c u buf -> (buf = [] -> (r =? 47) = false) ->
    none_in pes_C0 enc = true -> enc <> [] ->
    (forallb (fun b => negb (b =? 47)) enc = true \/ (r =? 47) = true) ->
    opq_shape c (set_path (set_verrs u v) [buf ++ enc] true) (buf ++ enc).
  Proof.
    intros u buf enc v r [H1 [H2 [H3 [H4 [H5 [H6 [H7 [H8 [H9 [H10 [H11 H12]]]]]]]]]]] Hr He Hn H47.
    unfold opq_shape. fieldsx. repeat split; auto.
    - rewrite none_in_app, H11, He. reflexivity.
    - destruct buf as [|a buf].
      + cbn [app]. destruct H47 as [H47|H47]; [|rewrite (Hr eq_refl) in H47; discriminate].
        rewrite <- (app_nil_r enc). apply no47_head; assumption.
      + rewrite has_prefix_app_nonnil by discriminate. exact H12.
  Qed.

  Lemma step_OpaquePath : forall m, m_state m = OpaquePath -> MInv m -> m_eof m = false -> Post (stepN m).
  Proof.
    start_state. destruct Hm as [Ho Hn]. unfold next_r in Hn. fold p in Hn.
    pose proof (opq_Inv c u buf Ho) as Hi.
    destruct (n_inp inp <=? p)%Z eqn:Heof.
    - eof_case. fin. exact Hi.
    - set (r := cp_at inp p) in *. destruct (r =? 63).
      { fin. split; [|reflexivity]. apply Inv_set_query_some; [exact Hi|reflexivity]. }
      destruct (r =? 35).
      { fin. split; [|reflexivity]. apply Inv_set_fragment_some; [exact Hi|reflexivity]. }
      cbn [negb].
      apply uuc_post; intro v; fin; fieldsx.
      + split.
        * apply (opq_append u buf _ v r Ho Hn).
          -- apply enc_invalid_none_in. exact c0_closed.
          -- apply enc_invalid_nonnil.
          -- destruct (r =? 47) eqn:E47; [right; reflexivity|left].
             apply Q_enc_invalid; [reflexivity|reflexivity|]. intros _. rewrite E47. reflexivity.
        * intro E. exfalso. apply app_eq_nil in E. destruct E as [_ E]. revert E. apply enc_invalid_nonnil.
      + split.
        * apply (opq_append u buf _ v r Ho Hn).
          -- apply enc_rune_none_in. exact c0_closed.
          -- apply enc_rune_nonnil.
          -- destruct (r =? 47) eqn:E47; [right; reflexivity|left].
             apply Q_enc_rune; [reflexivity|reflexivity|]. intros _. rewrite E47. reflexivity.
        * intro E. exfalso. apply app_eq_nil in E. destruct E as [_ E]. revert E. apply enc_rune_nonnil.
  Qed.


  Lemma InvP_set_verrs : forall u v, InvP c u -> InvP c (set_verrs u v).
  Proof. intros u v. apply InvP_ext. repeat split. Qed.

  Lemma InvP_set_port_some : forall u n, InvP c u -> (exists x h, u_host u = Some (x :: h)) ->
    str_eqb (u_scheme u) s_file = false -> n <= 65535 ->
    getSpecialScheme c (u_scheme u) <> Some (itoa n) ->
    InvP c (set_port u (Some (itoa n)) n).
  Proof.
    intros u n [H1 H2 H3 H4 H5 H6 H7 H8 H9 H10 H11] [x [h Hh]] Hf Hn Hd.
    constructor; fieldsx; try assumption.
    - intros [E|[E|E]]; congruence.
    - intros p' E. injection E as <-. rewrite itoa_val. split; [apply itoa_canonical|].
      split; [clear - Hn; lia|]. split; [reflexivity|exact Hd].
  Qed.

  Lemma InvP_set_port_none : forall u d, InvP c u -> InvP c (set_port u None d).
  Proof.
    intros u d [H1 H2 H3 H4 H5 H6 H7 H8 H9 H10 H11].
    constructor; fieldsx; try assumption.
    - intro E. destruct (H5 E) as [A [B _]]. auto.
    - intros p' E. discriminate E.
  Qed.

  Lemma InvP_clean_port : forall u n, InvP c u -> (exists x h, u_host u = Some (x :: h)) ->
    str_eqb (u_scheme u) s_file = false -> n <= 65535 ->
    InvP c (cleanDefaultPort c (set_port u (Some (itoa n)) n)).
  Proof.
    intros u n Hp Hh Hf Hn. unfold cleanDefaultPort. fieldsx.
    destruct (getSpecialScheme c (u_scheme u)) as [dp|] eqn:Ed.
    - destruct (str_eqb dp (itoa n)) eqn:E.
      + apply (InvP_ext c (set_port u None 0)); [repeat split|]. apply InvP_set_port_none. exact Hp.
      + apply InvP_set_port_some; try assumption. rewrite Ed. intro X. injection X as ->.
        rewrite str_eqb_refl in E. discriminate E.
    - apply InvP_set_port_some; try assumption. rewrite Ed. discriminate.
  Qed.

  Lemma clean_port_fields : forall u n,
    let u' := cleanDefaultPort c (set_port u (Some (itoa n)) n) in
    u_path u' = u_path u /\ u_host u' = u_host u /\ u_query u' = u_query u /\ u_fragment u' = u_fragment u.
  Proof.
    intros u n. unfold cleanDefaultPort. fieldsx.
    destruct (getSpecialScheme c (u_scheme u)) as [dp|]; [destruct (str_eqb dp (itoa n))|]; repeat split.
  Qed.

  Lemma step_PortSt : forall m, m_state m = PortSt -> MInv m -> m_eof m = false -> Post (stepN m).
  Proof.
    start_state. destruct Hm as [Hp [Hpath [Hh [Hf [Hport [Hq [Hfr Hbuf]]]]]]].
    set (r := if (n_inp inp <=? p)%Z then rune_error else cp_at inp p).
    set (eof := if (n_inp inp <=? p)%Z then true else false).
    destruct (isDigit r) eqn:Hd.
    - assert (Heof : eof = false).
      { unfold eof, r in *. destruct (n_inp inp <=? p)%Z; [discriminate Hd|reflexivity]. }
      rewrite Heof. fin. do 7 (split; [assumption|]).
      destruct (isDigit_facts r Hd) as [D1 D2]. rewrite utf8_enc_ascii by exact D1.
      rewrite forallb_app, Hbuf. cbn [forallb]. rewrite D2. reflexivity.
    - rewrite orb_false_r.
      destruct (eof || (r =? 47) || (r =? 63) || (r =? 35) || isSpecialSchemeAndBackslash c u r); [|apply mherr_fatal].
      destruct (negb (is_nil buf)) eqn:Hnb.
      + destruct (65535 <? digits_val 10 buf) eqn:Hbig; [apply mherr_fatal|].
        assert (Hn : digits_val 10 buf <= 65535) by (clear - Hbig; lia).
        fin. destruct (clean_port_fields u (digits_val 10 buf)) as [E1 [E2 [E3 E4]]].
        rewrite E1, E2, E3, E4. split; [apply InvP_clean_port; assumption|].
        destruct Hh as [x [h Hh]]. rewrite Hh. repeat split; auto; try discriminate.
      + fin. apply negb_false_iff in Hnb. apply is_nil_true in Hnb.
        split; [exact Hp|]. split; [exact Hnb|]. split; [exact Hpath|].
        destruct Hh as [x [h Hh]]. rewrite Hh. split; [discriminate|]. auto.
  Qed.

  Lemma step_PathStart : forall m, m_state m = PathStart -> MInv m -> m_eof m = false -> Post (stepN m).
  Proof.
    start_state. destruct Hm as [Hp [-> [Hpath [Hh [Hq Hfr]]]]].
    rewrite Htrail. cbn [negb]. rewrite andb_true_r.
    set (r := if (n_inp inp <=? p)%Z then rune_error else cp_at inp p).
    set (eof := if (n_inp inp <=? p)%Z then true else false).
    destruct (IsSpecialScheme c u) eqn:Hs.
    - assert (K : forall v, Post (if negb (r =? 47) && negb (r =? 92)
                                   then Cont (mk PathSt (p - 1) false [] atF brF pwF (set_verrs u v))
                                   else Cont (mk PathSt p eof [] atF brF pwF (set_verrs u v)))).
      { intro v. destruct (negb (r =? 47) && negb (r =? 92)) eqn:E.
        - fin. split; [apply InvP_set_verrs; exact Hp|reflexivity].
        - assert (Heof : eof = false).
          { unfold eof, r in *. destruct (n_inp inp <=? p)%Z; [discriminate E|reflexivity]. }
          rewrite Heof. fin. split; [apply InvP_set_verrs; exact Hp|reflexivity]. }
      destruct (r =? 92).
      + apply mherr_post. exact K.
      + rewrite <- (set_verrs_id u). apply K.
    - assert (Hi : Inv c u).
      { apply InvP_Inv; [exact Hp|]. right. auto. }
      destruct (r =? 63) eqn:H63.
      { assert (Heof : eof = false).
        { unfold eof, r in *. destruct (n_inp inp <=? p)%Z; [discriminate H63|reflexivity]. }
        rewrite Heof. fin. split; [|reflexivity]. apply Inv_set_query_some; [exact Hi|reflexivity]. }
      destruct (r =? 35) eqn:H35.
      { assert (Heof : eof = false).
        { unfold eof, r in *. destruct (n_inp inp <=? p)%Z; [discriminate H35|reflexivity]. }
        rewrite Heof. fin. split; [|reflexivity]. apply Inv_set_fragment_some; [exact Hi|reflexivity]. }
      destruct eof eqn:Heof; cbn [negb].
      + fin. exact Hi.
      + destruct (negb (r =? 47)); fin; (split; [exact Hp|reflexivity]).
  Qed.



  (* what the path state does to the record when a segment ends *)
  Definition path_upd (u : url) (buf : str) (slashlike : bool) : url :=
    let path := u_path u in
    let replaceLast := c_collapse c && IsSpecialScheme c u && negb (is_nil path)
                       && match last_opt path with Some s => is_nil s | None => false end in
    if isDoubleDotPathSegment buf then
      let u := set_path u (shortenPath (u_scheme u) path) (u_opaque u) in
      if negb slashlike then addSegment u [] else u
    else if isSingleDotPathSegment buf && negb slashlike then
      if negb replaceLast then addSegment u [] else u
    else if negb (isSingleDotPathSegment buf) then
      let buf' :=
        if str_eqb (u_scheme u) s_file && (is_nil path || (replaceLast && (len path =? 1)%Z))
           && isWindowsDriveLetter buf && negb (c_skipDrive c)
        then match buf with b0 :: _ => [b0; 58] | [] => buf end
        else buf in
      if negb replaceLast then addSegment u buf' else set_path u (replace_last path buf') (u_opaque u)
    else u.

  Definition path_done (p : Z) (eof atF brF pwF : bool) (r : N) (u' : url) : outcome :=
    if r =? 63 then Cont (mk QuerySt p eof [] atF brF pwF (set_query u' (Some [])))
    else if r =? 35 then Cont (mk FragmentSt p eof [] atF brF pwF (set_fragment u' (Some [])))
    else Cont (mk PathSt p eof [] atF brF pwF u').

  Lemma forallb_removelast : forall (A : Type) (f : A -> bool) l, forallb f l = true -> forallb f (removelast l) = true.
  Proof.
    intros A f l. induction l as [|x l IH]; [reflexivity|].
    cbn [forallb removelast]. intro H. apply andb_true_iff in H. destruct H as [H1 H2].
    destruct l as [|y l]; [reflexivity|]. cbn [forallb]. rewrite H1. apply IH. exact H2.
  Qed.

  Lemma forallb_replace_last : forall (A : Type) (f : A -> bool) l x, forallb f l = true -> f x = true ->
    forallb f (replace_last l x) = true.
  Proof.
    intros A f l x. induction l as [|y l IH]; [reflexivity|].
    cbn [forallb replace_last]. intros H Hx. apply andb_true_iff in H. destruct H as [H1 H2].
    destruct l as [|z l]; [cbn [forallb]; rewrite Hx; reflexivity|].
    cbn [forallb]. rewrite H1. apply IH; assumption.
  Qed.

  Lemma replace_last_nonnil : forall (A : Type) (l : list A) x, l <> [] -> replace_last l x <> [].
  Proof. intros A [|y [|z l]] x H; [contradiction|discriminate|discriminate]. Qed.

  Lemma shortenPath_ok : forall s p, forallb (seg_ok c) p = true -> forallb (seg_ok c) (shortenPath s p) = true.
  Proof.
    intros s p H. unfold shortenPath. destruct p as [|x [|y l]].
    - reflexivity.
    - destruct (str_eqb s s_file && isNormalizedWindowsDriveLetter x); [exact H|reflexivity].
    - apply forallb_removelast. exact H.
  Qed.

  Lemma InvP_set_path : forall u p, InvP c u -> forallb (seg_ok c) p = true -> InvP c (set_path u p false).
  Proof.
    intros u p [H1 H2 H3 H4 H5 H6 H7 H8 H9 H10 H11] Hp. constructor; fieldsx; try assumption. reflexivity.
  Qed.

  Lemma InvP_addSegment : forall u s, InvP c u -> seg_ok c s = true -> InvP c (addSegment u s).
  Proof.
    intros u s Hp Hs. unfold addSegment. apply InvP_set_path; [exact Hp|].
    rewrite forallb_app, (P_path _ _ Hp). cbn [forallb]. rewrite Hs. reflexivity.
  Qed.

  Lemma seg_ok_nil : seg_ok c [] = true.
  Proof. reflexivity. Qed.

  Lemma seg_ok_drive : forall b0 rest, seg_ok c (b0 :: rest) = true -> seg_ok c [b0; 58] = true.
  Proof.
    intros b0 rest H. unfold seg_ok, none_in, mem in *. cbn [forallb existsb] in *.
    apply andb_true_iff in H. destruct H as [H1 H2]. apply andb_true_iff in H1. destruct H1 as [H1 _].
    apply negb_true_iff in H2. apply orb_false_iff in H2. destruct H2 as [H2 _].
    rewrite H1, H58, H2. reflexivity.
  Qed.

  Lemma path_upd_ok : forall u buf sl, InvP c u -> seg_ok c buf = true ->
    InvP c (path_upd u buf sl) /\ (sl = false -> u_path (path_upd u buf sl) <> []).
  Proof.
    intros u buf sl Hp Hbuf. unfold path_upd. cbv zeta.
    pose proof (P_list _ _ Hp) as Hl. rewrite Hl.
    set (rl := c_collapse c && IsSpecialScheme c u && negb (is_nil (u_path u))
               && match last_opt (u_path u) with Some s => is_nil s | None => false end).
    assert (Hrl : rl = true -> u_path u <> []).
    { unfold rl. intro E. apply andb_true_iff in E. destruct E as [E _]. apply andb_true_iff in E.
      destruct E as [_ E]. apply negb_true_iff in E. apply is_nil_false in E. exact E. }
    assert (Hsnoc : forall (l : list str) x, l ++ [x] <> []) by (intros [|? ?] x; discriminate).
    destruct (isDoubleDotPathSegment buf).
    { pose proof (InvP_set_path u _ Hp (shortenPath_ok (u_scheme u) _ (P_path _ _ Hp))) as H1.
      destruct sl; cbn [negb].
      - split; [exact H1|discriminate].
      - split; [apply InvP_addSegment; [exact H1|reflexivity]|]. intros _. unfold addSegment. fieldsx. apply Hsnoc. }
    destruct (isSingleDotPathSegment buf) eqn:Hsd.
    { destruct sl; cbn [negb andb].
      - split; [exact Hp|discriminate].
      - destruct rl eqn:Erl; cbn [negb].
        + split; [exact Hp|]. intros _. apply Hrl. reflexivity.
        + split; [apply InvP_addSegment; [exact Hp|reflexivity]|]. intros _. unfold addSegment. fieldsx. apply Hsnoc. }
    cbn [andb negb].
    set (buf' := if str_eqb (u_scheme u) s_file && (is_nil (u_path u) || rl && (len (u_path u) =? 1)%Z)
                    && isWindowsDriveLetter buf && negb (c_skipDrive c)
                 then match buf with b0 :: _ => [b0; 58] | [] => buf end else buf).
    assert (Hb' : seg_ok c buf' = true).
    { unfold buf'. destruct (_ && negb (c_skipDrive c)); [|exact Hbuf].
      destruct buf as [|b0 rest]; [exact Hbuf|]. apply (seg_ok_drive b0 rest Hbuf). }
    destruct rl eqn:Erl; cbn [negb].
    - split.
      + apply InvP_set_path; [exact Hp|]. apply forallb_replace_last; [apply (P_path _ _ Hp)|exact Hb'].
      + intros _. fieldsx. apply replace_last_nonnil. apply Hrl. reflexivity.
    - split; [apply InvP_addSegment; assumption|]. intros _. unfold addSegment. fieldsx. apply Hsnoc.
  Qed.

  Lemma no47_mem : forall s, forallb (fun b => negb (b =? 47)) s = true -> mem 47 s = false.
  Proof.
    intros s H. unfold mem. induction s as [|x s IH]; [reflexivity|].
    cbn [forallb existsb] in *. apply andb_true_iff in H. destruct H as [H1 H2].
    apply negb_true_iff in H1. rewrite N.eqb_sym, H1, (IH H2). reflexivity.
  Qed.

  Lemma seg_ok_app : forall a b, seg_ok c a = true -> none_in (c_pathSet c) b = true ->
    forallb (fun b => negb (b =? 47)) b = true -> seg_ok c (a ++ b) = true.
  Proof.
    intros a b Ha Hb1 Hb2. unfold seg_ok in *. apply andb_true_iff in Ha. destruct Ha as [A1 A2].
    rewrite none_in_app, A1, Hb1. cbn [andb]. unfold mem in *. rewrite existsb_app.
    apply negb_true_iff in A2. rewrite A2. cbn [orb]. apply negb_true_iff. apply (no47_mem b Hb2).
  Qed.

  Lemma step_PathSt : forall m, m_state m = PathSt -> MInv m -> m_eof m = false -> Post (stepN m).
  Proof.
    start_state. destruct Hm as [Hp Hbuf].
    set (r := if (n_inp inp <=? p)%Z then rune_error else cp_at inp p).
    set (eof := if (n_inp inp <=? p)%Z then true else false).
    assert (Heofr : eof = true -> r = rune_error).
    { unfold eof, r. destruct (n_inp inp <=? p)%Z; [reflexivity|discriminate]. }
    destruct (eof || (r =? 47) || isSpecialSchemeAndBackslash c u r || ((r =? 63) || (r =? 35))) eqn:Hterm.
    - change (Post ((if isSpecialSchemeAndBackslash c u r
                     then (fun k => mherr c u InvalidReverseSolidus false k) else (fun k => k u))
                    (fun u0 => path_done p eof atF brF pwF r
                                 (path_upd u0 buf ((r =? 47) || isSpecialSchemeAndBackslash c u0 r))))).
      assert (K : forall v, Post (path_done p eof atF brF pwF r
                   (path_upd (set_verrs u v) buf ((r =? 47) || isSpecialSchemeAndBackslash c (set_verrs u v) r)))).
      { intro v. set (sl := (r =? 47) || isSpecialSchemeAndBackslash c (set_verrs u v) r).
        destruct (path_upd_ok (set_verrs u v) buf sl (InvP_set_verrs u v Hp) Hbuf) as [K1 K2].
        assert (Hsl : (r =? 47) = false -> (r =? 92) = false -> sl = false).
        { intros E1 E2. unfold sl, isSpecialSchemeAndBackslash. rewrite E1, E2, andb_false_r. reflexivity. }
        unfold path_done. destruct (r =? 63) eqn:H63.
        { assert (Hne : eof = false).
          { destruct eof; [|reflexivity]. rewrite (Heofr eq_refl) in H63. discriminate H63. }
          rewrite Hne. fin. split; [|reflexivity]. apply Inv_set_query_some; [|reflexivity].
          apply InvP_Inv; [exact K1|]. left. apply K2. apply Hsl.
          - apply N.eqb_eq in H63. rewrite H63. reflexivity.
          - apply N.eqb_eq in H63. rewrite H63. reflexivity. }
        destruct (r =? 35) eqn:H35.
        { assert (Hne : eof = false).
          { destruct eof; [|reflexivity]. rewrite (Heofr eq_refl) in H35. discriminate H35. }
          rewrite Hne. fin. split; [|reflexivity]. apply Inv_set_fragment_some; [|reflexivity].
          apply InvP_Inv; [exact K1|]. left. apply K2. apply Hsl.
          - apply N.eqb_eq in H35. rewrite H35. reflexivity.
          - apply N.eqb_eq in H35. rewrite H35. reflexivity. }
        destruct eof eqn:Heof.
        - fin. apply InvP_Inv; [exact K1|]. left. apply K2. apply Hsl; rewrite (Heofr eq_refl); reflexivity.
        - fin. split; [exact K1|reflexivity]. }
      destruct (isSpecialSchemeAndBackslash c u r).
      + apply mherr_post. exact K.
      + rewrite <- (set_verrs_id u). apply K.
    - apply orb_false_iff in Hterm. destruct Hterm as [Hterm _].
      apply orb_false_iff in Hterm. destruct Hterm as [Hterm _].
      apply orb_false_iff in Hterm. destruct Hterm as [Heof H47]. rewrite Heof.
      assert (Q : forall t, RuneShouldBeEncoded t r = false -> negb (r =? 47) = true)
        by (intros t _; rewrite H47; reflexivity).
      apply uuc_post; intro v; fin; (split; [apply InvP_set_verrs; exact Hp|]); apply seg_ok_app; try assumption.
      + apply enc_invalid_none_in. assumption.
      + apply Q_enc_invalid; [reflexivity|reflexivity|apply Q].
      + apply enc_rune_none_in. assumption.
      + apply Q_enc_rune; [reflexivity|reflexivity|apply Q].
  Qed.


  Lemma InvP_set_query_none : forall u, InvP c u -> InvP c (set_query u None).
  Proof.
    intros u [H1 H2 H3 H4 H5 H6 H7 H8 H9 H10 H11]. constructor; fieldsx; try assumption.
    intros q E. discriminate E.
  Qed.
  Lemma InvP_set_fragment_none : forall u, InvP c u -> InvP c (set_fragment u None).
  Proof.
    intros u [H1 H2 H3 H4 H5 H6 H7 H8 H9 H10 H11]. constructor; fieldsx; try assumption.
    intros q E. discriminate E.
  Qed.

  (* the base without query and fragment, with another list path *)
  Lemma base_InvP : forall b p, Inv c b -> u_opaque b = false -> forallb (seg_ok c) p = true ->
    InvP c (set_path (set_fragment (set_query b None) None) p false).
  Proof.
    intros b p Hib Hob Hp. apply InvP_set_path; [|exact Hp].
    apply InvP_set_fragment_none. apply InvP_set_query_none. apply Inv_InvP; assumption.
  Qed.

  Lemma step_Relative : forall m, m_state m = Relative -> MInv m -> m_eof m = false -> Post (stepN m).
  Proof.
    start_state. destruct Hm as [Hrb [-> [b [Eb [Hob Hfb]]]]]. rewrite Eb.
    pose proof (Hbase b Eb) as Hib.
    set (r := if (n_inp inp <=? p)%Z then rune_error else cp_at inp p).
    set (eof := if (n_inp inp <=? p)%Z then true else false).
    assert (Heofr : eof = true -> r = rune_error).
    { unfold eof, r. destruct (n_inp inp <=? p)%Z; [reflexivity|discriminate]. }
    pose proof Hrb as [B1 [B2 [B3 [B4 [B5 [B6 [B7 B8]]]]]]].
    assert (Hrs : forall v, eof = false ->
              Post (Cont (mk RelativeSlash p eof [] atF brF pwF (set_verrs (set_scheme u (u_scheme b)) v)))).
    { intros v E. rewrite E. fin. split; [exact Hrb|]. split; [reflexivity|]. exists b. fieldsx. auto. }
    destruct (r =? 47) eqn:H47.
    { assert (Hne : eof = false) by (destruct eof; [rewrite (Heofr eq_refl) in H47; discriminate H47|reflexivity]).
      rewrite <- (set_verrs_id (set_scheme u (u_scheme b))). apply Hrs. exact Hne. }
    destruct (isSpecialSchemeAndBackslash c (set_scheme u (u_scheme b)) r) eqn:Hsab.
    { assert (Hne : eof = false).
      { destruct eof; [|reflexivity]. rewrite (Heofr eq_refl) in Hsab.
        unfold isSpecialSchemeAndBackslash in Hsab. rewrite andb_false_r in Hsab. discriminate Hsab. }
      apply mherr_post. intro v. apply Hrs. exact Hne. }
    unfold copy_base_auth. fieldsx.
    destruct (r =? 63) eqn:H63.
    { assert (Hne : eof = false) by (destruct eof; [rewrite (Heofr eq_refl) in H63; discriminate H63|reflexivity]).
      rewrite Hne. fin. split; [|reflexivity].
      apply (Inv_ext c (set_fragment (set_query b (Some [])) None)).
      - unfold same_fields. fieldsx. rewrite B8. repeat split.
      - apply Inv_set_fragment_none. apply Inv_set_query_some; [exact Hib|reflexivity]. }
    destruct (r =? 35) eqn:H35.
    { assert (Hne : eof = false) by (destruct eof; [rewrite (Heofr eq_refl) in H35; discriminate H35|reflexivity]).
      rewrite Hne. fin. split; [|reflexivity].
      apply (Inv_ext c (set_fragment b (Some []))).
      - unfold same_fields. fieldsx. repeat split.
      - apply Inv_set_fragment_some; [exact Hib|reflexivity]. }
    destruct eof eqn:Heof; cbn [negb].
    - fin. apply (Inv_ext c (set_fragment b None)).
      + unfold same_fields. fieldsx. rewrite B8. repeat split.
      + apply Inv_set_fragment_none. exact Hib.
    - fin. split; [|reflexivity].
      apply (InvP_ext c (set_path (set_fragment (set_query b None) None) (shortenPath (u_scheme b) (u_path b)) false)).
      + unfold same_fields. fieldsx. rewrite B8, Hob. repeat split.
      + apply base_InvP; try assumption. apply shortenPath_ok. apply (I_path _ _ Hib Hob).
  Qed.

  Lemma step_RelativeSlash : forall m, m_state m = RelativeSlash -> MInv m -> m_eof m = false -> Post (stepN m).
  Proof.
    start_state. destruct Hm as [Hrb [-> [b [Eb [Esb [Hob Hfb]]]]]]. rewrite Eb.
    pose proof (Hbase b Eb) as Hib.
    set (r := if (n_inp inp <=? p)%Z then rune_error else cp_at inp p).
    set (eof := if (n_inp inp <=? p)%Z then true else false).
    assert (Heofr : eof = true -> r = rune_error).
    { unfold eof, r. destruct (n_inp inp <=? p)%Z; [reflexivity|discriminate]. }
    pose proof Hrb as [B1 [B2 [B3 [B4 [B5 [B6 [B7 B8]]]]]]].
    assert (Hpa : preauth u).
    { unfold preauth. rewrite Esb. split; [apply (I_scheme _ _ Hib)|]. auto. }
    destruct (IsSpecialScheme c u && ((r =? 47) || (r =? 92))) eqn:Hsp.
    { apply andb_true_iff in Hsp. destruct Hsp as [Hs Hr].
      assert (Hne : eof = false).
      { destruct eof; [|reflexivity]. rewrite (Heofr eq_refl) in Hr. discriminate Hr. }
      rewrite Hne.
      assert (K : forall v, Post (Cont (mk SpecialAuthorityIgnoreSlashes p false [] atF brF pwF (set_verrs u v)))).
      { intro v. fin. auto. }
      destruct (r =? 92); [apply mherr_post; exact K|]. rewrite <- (set_verrs_id u). apply K. }
    destruct (r =? 47) eqn:H47.
    { assert (Hne : eof = false) by (destruct eof; [rewrite (Heofr eq_refl) in H47; discriminate H47|reflexivity]).
      rewrite Hne. fin. split; [apply preauth_auth; exact Hpa|]. rewrite (preauth_creds u Hpa).
      split; [discriminate|]. intro N; contradiction. }
    fin. split; [|reflexivity]. unfold copy_base_auth.
    apply (InvP_ext c (set_path (set_fragment (set_query b None) None) [] false)).
    - unfold same_fields. fieldsx. rewrite B5, B6, B7, B8, Esb. repeat split.
    - apply base_InvP; try assumption. reflexivity.
  Qed.


  Lemma file_scheme_ok : scheme_ok s_file = true. Proof. reflexivity. Qed.

  Lemma file_shape_intro : forall u, rest_blank u -> file_shape (set_host (set_scheme u s_file) (Some [])).
  Proof. intros u [B1 [B2 [B3 [B4 [B5 [B6 [B7 B8]]]]]]]. unfold file_shape. fieldsx. auto 10. Qed.

  Lemma file_shape_verrs : forall u v, file_shape u -> file_shape (set_verrs u v).
  Proof. intros u v H. exact H. Qed.

  (* a file URL whose host comes from a file base *)
  Lemma file_base_host_InvP : forall u b, file_shape u -> Inv c b -> u_scheme b = s_file ->
    InvP c (set_host u (u_host b)).
  Proof.
    intros u b [H1 [H2 [H3 [H4 [H5 [H6 [H7 [H8 H9]]]]]]]] Hib Esb.
    assert (Hsb : IsSpecialScheme c b = true) by (unfold IsSpecialScheme; rewrite Esb; exact Hfile).
    destruct (I_special _ _ Hib Hsb) as [_ [_ [h [Hh _]]]].
    constructor; fieldsx; try assumption.
    - rewrite H1. reflexivity.
    - rewrite H6. reflexivity.
    - intros _. exists h. split; [exact Hh|]. left. rewrite H1. reflexivity.
    - intros _. auto.
    - intros p' E. congruence.
    - rewrite H2. reflexivity.
    - rewrite H3. reflexivity.
    - intros q E. congruence.
    - intros f E. congruence.
    - intros h' E. rewrite H1. pose proof (I_host _ _ Hib h' E) as X. unfold IsSpecialScheme in X.
      rewrite Esb in X. exact X.
  Qed.

  Lemma step_File : forall m, m_state m = File -> MInv m -> m_eof m = false -> Post (stepN m).
  Proof.
    start_state. destruct Hm as [Hrb ->].
    set (r := if (n_inp inp <=? p)%Z then rune_error else cp_at inp p).
    set (eof := if (n_inp inp <=? p)%Z then true else false).
    assert (Heofr : eof = true -> r = rune_error).
    { unfold eof, r. destruct (n_inp inp <=? p)%Z; [reflexivity|discriminate]. }
    pose proof (file_shape_intro u Hrb) as Hfs.
    set (u1 := set_host (set_scheme u s_file) (Some [])) in *.
    pose proof Hrb as [B1 [B2 [B3 [B4 [B5 [B6 [B7 B8]]]]]]].
    assert (Hps : Post (Cont (mk PathSt (p - 1) false [] atF brF pwF u1))).
    { fin. split; [apply file_shape_InvP; assumption|reflexivity]. }
    destruct ((r =? 47) || (r =? 92)) eqn:Hsl.
    { assert (Hne : eof = false) by (destruct eof; [rewrite (Heofr eq_refl) in Hsl; discriminate Hsl|reflexivity]).
      rewrite Hne.
      assert (K : forall v, Post (Cont (mk FileSlash p false [] atF brF pwF (set_verrs u1 v)))).
      { intro v. fin. split; [exact Hfs|reflexivity]. }
      destruct (r =? 92); [apply mherr_post; exact K|]. rewrite <- (set_verrs_id u1). apply K. }
    destruct base as [b|] eqn:Eb; [|exact Hps].
    destruct (str_eqb (u_scheme b) s_file) eqn:Esb; [|exact Hps].
    apply str_eqb_eq in Esb. pose proof (Hbase b eq_refl) as Hib.
    assert (Hsb : IsSpecialScheme c b = true) by (unfold IsSpecialScheme; rewrite Esb; exact Hfile).
    destruct (I_special _ _ Hib Hsb) as [Hob _].
    destruct (I_nocred _ _ Hib) as [C1 [C2 C3]]; [right; right; rewrite Esb; reflexivity|].
    unfold u1. fieldsx.
    destruct (r =? 63) eqn:H63.
    { assert (Hne : eof = false) by (destruct eof; [rewrite (Heofr eq_refl) in H63; discriminate H63|reflexivity]).
      rewrite Hne. fin. split; [|reflexivity].
      apply (Inv_transfer_nodp c (set_fragment (set_query b (Some [])) None)).
      - apply Inv_set_fragment_none. apply Inv_set_query_some; [exact Hib|reflexivity].
      - exact C3.
      - unfold same_nodp. fieldsx. rewrite B1, B2, B4, B8, C1, C2, C3, Esb, Hob. repeat split. }
    destruct (r =? 35) eqn:H35.
    { assert (Hne : eof = false) by (destruct eof; [rewrite (Heofr eq_refl) in H35; discriminate H35|reflexivity]).
      rewrite Hne. fin. split; [|reflexivity].
      apply (Inv_transfer_nodp c (set_fragment b (Some []))).
      - apply Inv_set_fragment_some; [exact Hib|reflexivity].
      - exact C3.
      - unfold same_nodp. fieldsx. rewrite B1, B2, B4, C1, C2, C3, Esb, Hob. repeat split. }
    destruct eof eqn:Heof; cbn [negb].
    - fin. apply (Inv_transfer_nodp c (set_fragment b None)).
      + apply Inv_set_fragment_none. exact Hib.
      + exact C3.
      + unfold same_nodp. fieldsx. rewrite B1, B2, B4, B8, C1, C2, C3, Esb, Hob. repeat split.
    - destruct (negb (startsWithAWindowsDriveLetter (remainingFromPointer inp p false))).
      + fin. split; [|reflexivity].
        apply (InvP_transfer_nodp c (set_path (set_fragment (set_query b None) None) (shortenPath s_file (u_path b)) false)).
        * apply base_InvP; try assumption. apply shortenPath_ok. apply (I_path _ _ Hib Hob).
        * exact C3.
        * unfold same_nodp. fieldsx. rewrite B1, B2, B4, B8, C1, C2, C3, Esb, Hob. repeat split.
      + apply mherr_post. intro v. fin. split; [|reflexivity]. fieldsx.
        apply (InvP_transfer_nodp c (set_path (set_fragment (set_query b None) None) [] false)).
        * apply base_InvP; try assumption. reflexivity.
        * exact C3.
        * unfold same_nodp. fieldsx. rewrite B1, B2, B4, B8, C1, C2, C3, Esb. repeat split.
  Qed.

  Lemma step_FileSlash : forall m, m_state m = FileSlash -> MInv m -> m_eof m = false -> Post (stepN m).
  Proof.
    start_state. destruct Hm as [Hfs Hb]. specialize (Hb eq_refl). subst buf.
    set (r := if (n_inp inp <=? p)%Z then rune_error else cp_at inp p).
    set (eof := if (n_inp inp <=? p)%Z then true else false).
    assert (Heofr : eof = true -> r = rune_error).
    { unfold eof, r. destruct (n_inp inp <=? p)%Z; [reflexivity|discriminate]. }
    destruct ((r =? 47) || (r =? 92)) eqn:Hsl.
    { assert (Hne : eof = false) by (destruct eof; [rewrite (Heofr eq_refl) in Hsl; discriminate Hsl|reflexivity]).
      rewrite Hne.
      assert (K : forall v, Post (Cont (mk FileHost p false [] atF brF pwF (set_verrs u v)))).
      { intro v. fin. split; [exact Hfs|]. intro E. discriminate E. }
      destruct (r =? 92); [apply mherr_post; exact K|]. rewrite <- (set_verrs_id u). apply K. }
    fin. split; [|reflexivity].
    pose proof (file_shape_InvP c u Hfile Hfs) as Hpu.
    destruct base as [b|] eqn:Eb; [|exact Hpu].
    destruct (str_eqb (u_scheme b) s_file) eqn:Esb; [|exact Hpu].
    apply str_eqb_eq in Esb. pose proof (Hbase b eq_refl) as Hib.
    pose proof (file_base_host_InvP u b Hfs Hib Esb) as Hph.
    destruct (u_path b) as [|seg0 rest] eqn:Epb; [exact Hph|].
    destruct (negb (startsWithAWindowsDriveLetter (remainingFromPointer inp p eof)) && isNormalizedWindowsDriveLetter seg0);
      [|exact Hph].
    apply InvP_addSegment; [exact Hph|].
    assert (Hsb : IsSpecialScheme c b = true) by (unfold IsSpecialScheme; rewrite Esb; exact Hfile).
    destruct (I_special _ _ Hib Hsb) as [Hob _].
    pose proof (I_path _ _ Hib Hob) as Hpp. rewrite Epb in Hpp. cbn [forallb] in Hpp.
    apply andb_true_iff in Hpp. apply Hpp.
  Qed.


  Lemma drive_seg_ok : forall buf, isWindowsDriveLetter buf = true -> seg_ok c buf = true.
  Proof.
    intros buf H. destruct buf as [|a [|b [|x y]]]; try discriminate H.
    unfold isWindowsDriveLetter in H. apply andb_true_iff in H. destruct H as [Ha Hb].
    pose proof (proj1 (forallb_forall _ _) Hdrive) as F.
    assert (Ia : In a (58 :: 124 :: bs_ASCIIAlpha)).
    { right. right. unfold isAlpha, bs_test, mem in Ha. apply existsb_exists in Ha.
      destruct Ha as [x [Hx E]]. apply N.eqb_eq in E. subst x. exact Hx. }
    assert (Ib : In b (58 :: 124 :: bs_ASCIIAlpha)).
    { apply orb_true_iff in Hb. destruct Hb as [Hb|Hb]; apply N.eqb_eq in Hb; subst b; [left|right; left]; reflexivity. }
    assert (Ha47 : (47 =? a) = false).
    { destruct (47 =? a) eqn:E; [|reflexivity]. apply N.eqb_eq in E. subst a. discriminate Ha. }
    assert (Hb47 : (47 =? b) = false).
    { apply orb_true_iff in Hb. destruct Hb as [Hb|Hb]; apply N.eqb_eq in Hb; subst b; reflexivity. }
    unfold seg_ok, none_in, mem. cbn [forallb existsb]. rewrite (F a Ia), (F b Ib), Ha47, Hb47. reflexivity.
  Qed.

  Lemma file_host_InvP : forall u h, file_shape u -> host_ok true h = true -> forallb printable h = true ->
    InvP c (set_host u (Some h)).
  Proof.
    intros u h [H1 [H2 [H3 [H4 [H5 [H6 [H7 [H8 H9]]]]]]]] Hh1 Hh2.
    assert (Hs : isSpecialScheme c (u_scheme u) = true) by (rewrite H1; exact Hfile).
    constructor; fieldsx; try assumption.
    - rewrite H1. reflexivity.
    - rewrite H6. reflexivity.
    - intros _. exists h. split; [reflexivity|]. left. rewrite H1. reflexivity.
    - intros _. auto.
    - intros p' E. congruence.
    - rewrite H2. reflexivity.
    - rewrite H3. reflexivity.
    - intros q E. congruence.
    - intros f E. congruence.
    - intros h' E. injection E as <-. rewrite Hs. auto.
  Qed.

  Lemma step_FileHost : forall m, m_state m = FileHost -> MInv m -> m_eof m = false -> Post (stepN m).
  Proof.
    start_state. destruct Hm as [Hfs _].
    set (r := if (n_inp inp <=? p)%Z then rune_error else cp_at inp p).
    set (eof := if (n_inp inp <=? p)%Z then true else false).
    pose proof (file_shape_InvP c u Hfile Hfs) as Hpu.
    pose proof Hfs as [F1 [F2 [F3 [F4 [F5 [F6 [F7 [F8 F9]]]]]]]].
    destruct (eof || (r =? 47) || (r =? 92) || (r =? 63) || (r =? 35)) eqn:Hterm.
    - destruct (isWindowsDriveLetter buf) eqn:Hdl.
      { apply mherr_post. intro v. fin. split; [apply InvP_set_verrs; exact Hpu|]. apply drive_seg_ok. exact Hdl. }
      destruct (is_nil buf) eqn:Hnil.
      { apply is_nil_true in Hnil. subst buf. fin. fieldsx. split; [|rewrite F6, F8, F9; repeat split; auto; discriminate].
        apply file_host_InvP; [exact Hfs|apply host_ok_nil|reflexivity]. }
      assert (Hsp : IsSpecialScheme c u = true) by (unfold IsSpecialScheme; rewrite F1; exact Hfile).
      rewrite Hsp. cbn [negb].
      destruct (parseHost idna_raw c u buf false) as [u1 host|u1 e] eqn:EP; [|exact I].
      destruct (parseHost_ok idna_raw HH3 c u buf false u1 host Hlax Hpre Hpost EP) as [O1 [O2 [O3 O4]]].
      rewrite O1. fin. fieldsx. rewrite F6, F8, F9. split; [|repeat split; auto; discriminate].
      apply file_host_InvP; [exact Hfs| |].
      + destruct (str_eqb host s_localhost); [apply host_ok_nil|exact O2].
      + destruct (str_eqb host s_localhost); [reflexivity|exact O3].
    - assert (Heof : eof = false).
      { destruct eof; [discriminate Hterm|reflexivity]. }
      rewrite Heof. fin. split; [exact Hfs|]. intro E. discriminate E.
  Qed.



  Lemma cred_loop_ok : forall l pw user pass pw' user' pass',
    cred_loop c l pw user pass = (pw', user', pass') ->
    none_in pes_UserInfo user = true -> none_in pes_UserInfo pass = true ->
    none_in pes_UserInfo user' = true /\ none_in pes_UserInfo pass' = true.
  Proof.
    induction l as [|ch l IH]; intros pw user pass pw' user' pass' H Hu Hp.
    - cbn [cred_loop] in H. injection H as _ <- <-. auto.
    - cbn [cred_loop] in H. destruct ((ch =? 58) && negb pw).
      + apply (IH _ _ _ _ _ _ H); assumption.
      + destruct pw.
        * apply (IH _ _ _ _ _ _ H); [assumption|]. rewrite none_in_app, Hp. cbn [andb].
          apply enc_rune_none_in. exact userinfo_closed.
        * apply (IH _ _ _ _ _ _ H); [|assumption]. rewrite none_in_app, Hu. cbn [andb].
          apply enc_rune_none_in. exact userinfo_closed.
  Qed.

  Lemma auth_shape_verrs : forall u v, auth_shape u -> auth_shape (set_verrs u v).
  Proof. intros u v H. exact H. Qed.

  Lemma step_Authority : forall m, m_state m = Authority -> MInv m -> m_eof m = false -> Post (stepN m).
  Proof.
    start_state. destruct Hm as [Hau [Hcr Hpos]].
    set (r := if (n_inp inp <=? p)%Z then rune_error else cp_at inp p).
    set (eof := if (n_inp inp <=? p)%Z then true else false).
    assert (Heofr : eof = true -> r = rune_error).
    { unfold eof, r. destruct (n_inp inp <=? p)%Z; [reflexivity|discriminate]. }
    pose proof Hau as [A1 [A2 [A3 [A4 [A5 [A6 [A7 [A8 [A9 A10]]]]]]]]].
    destruct (r =? 64) eqn:H64.
    { assert (Hne : eof = false) by (destruct eof; [rewrite (Heofr eq_refl) in H64; discriminate H64|reflexivity]).
      rewrite Hne. apply mherr_post. intro v. fieldsx.
      match goal with |- context [cred_loop ?a ?b ?d ?e ?f] =>
        destruct (cred_loop a b d e f) as [[pw' user'] pass'] eqn:EC end.
      destruct (cred_loop_ok _ _ _ _ _ _ _ EC A3 A4) as [U1 U2].
      cbv beta iota. fin. split; [unfold auth_shape; fieldsx; auto 12|]. split; [reflexivity|]. intro N; contradiction. }
    destruct (eof || (r =? 47) || (r =? 63) || (r =? 35) || isSpecialSchemeAndBackslash c u r) eqn:Hterm.
    - assert (K : forall v, atF && is_nil buf = false ->
                  Post (Cont (mk HostSt (p - (len (runes buf) + 1)) false [] atF brF pwF (set_verrs u v)))).
      { intros v Hat. fin. split; [exact Hau|]. fieldsx. intros Hc' _.
        specialize (Hcr Hc'). rewrite Hcr in Hat. cbn [andb] in Hat. apply is_nil_false in Hat.
        specialize (Hpos Hat). fieldsx_in Hpos.
        replace (p - (len (runes buf) + 1) + 1)%Z with (ptr - len (runes buf) + 1)%Z by (clear; unfold p; lia).
        exact Hpos. }
      destruct (atF && is_nil buf) eqn:Hat; [apply mherr_fatal|].
      rewrite <- (set_verrs_id u). apply K. reflexivity.
    - apply orb_false_iff in Hterm. destruct Hterm as [Hterm Hsab].
      apply orb_false_iff in Hterm. destruct Hterm as [Hterm H35].
      apply orb_false_iff in Hterm. destruct Hterm as [Hterm H63].
      apply orb_false_iff in Hterm. destruct Hterm as [Heof H47]. rewrite Heof.
      fin. split; [exact Hau|]. split; [exact Hcr|]. intros _.
      rewrite runes_snoc_len.
      assert (Hr : r = cp_at inp p /\ (n_inp inp <=? p)%Z = false).
      { unfold eof, r in *. destruct (n_inp inp <=? p)%Z; [discriminate Heof|auto]. }
      destruct Hr as [Hr Hlt].
      destruct buf as [|b0 buf'].
      + change (len (runes [])) with 0%Z. replace (p - (0 + 1) + 1)%Z with p by (clear; lia).
        unfold term_at. rewrite Hlt, <- Hr. fieldsx_in Hsab. fieldsx. rewrite H47, H63, H35, Hsab. reflexivity.
      + replace (p - (len (runes (b0 :: buf')) + 1) + 1)%Z with (ptr - len (runes (b0 :: buf')) + 1)%Z
          by (clear; unfold p; lia).
        apply Hpos. discriminate.
  Qed.


  Lemma creds_false : forall u, creds u = false -> u_username u = [] /\ u_password u = [].
  Proof.
    intros u H. unfold creds in H. apply orb_false_iff in H. destruct H as [H1 H2].
    apply negb_false_iff in H1, H2. apply is_nil_true in H1, H2. auto.
  Qed.

  (* the authority is complete: the record with its host *)
  Lemma auth_host_InvP : forall u h, auth_shape u ->
    host_ok (IsSpecialScheme c u) h = true -> forallb printable h = true ->
    (h = [] -> creds u = false /\ IsSpecialScheme c u = false) ->
    InvP c (set_host u (Some h)).
  Proof.
    intros u h [A1 [A2 [A3 [A4 [A5 [A6 [A7 [A8 [A9 A10]]]]]]]]] Hh1 Hh2 Hnil.
    constructor; fieldsx; try assumption.
    - rewrite A7. reflexivity.
    - intros Hs. exists h. split; [reflexivity|]. right. intro E. destruct (Hnil E) as [_ X].
      unfold IsSpecialScheme in X. congruence.
    - intros [E|[E|E]]; [discriminate E| |congruence].
      injection E as E. destruct (Hnil E) as [X _]. destruct (creds_false u X) as [U1 U2]. auto.
    - intros p' E. congruence.
    - intros q E. congruence.
    - intros f E. congruence.
    - intros h' E. injection E as <-. auto.
  Qed.

  Lemma step_Host_gen : forall st, st = HostSt \/ st = HostnameSt ->
    forall m, m_state m = st -> MInv m -> m_eof m = false -> Post (stepN m).
  Proof.
    intros st0 Hst0.
    intros [st ptr eof buf atF brF pwF u] Hst Hm He; cbn [m_state m_eof] in Hst, He; subst st eof.
    assert (Hm' : auth_shape u /\ (creds u = true -> buf = [] -> term_at u (ptr + 1) = false)).
    { destruct Hst0 as [-> | ->]; exact Hm. }
    clear Hm. destruct Hm' as [Hau Hcr].
    assert (Hgoal : forall (P : outcome -> Prop),
      P (let p := (ptr + 1)%Z in
         let eof := if (n_inp inp <=? p)%Z then true else false in
         let r := if (n_inp inp <=? p)%Z then rune_error else cp_at inp p in
         if (r =? 58) && negb brF then
           (if is_nil buf then (fun k => mherr c u HostMissing true k) else (fun k => k u))
           (fun u => match parseHost idna_raw c u buf (negb (IsSpecialScheme c u)) with
                     | Er u e => RetErr u e
                     | Ok u host => Cont (mk PortSt p eof [] atF brF pwF (set_host u (Some host)))
                     end)
         else if eof || ((r =? 47) || (r =? 63) || (r =? 35) || isSpecialSchemeAndBackslash c u r) then
           if IsSpecialScheme c u && is_nil buf then mherr c u HostMissing true (fun u' => Cont (mk st0 (p - 1)%Z false buf atF brF pwF u'))
           else match parseHost idna_raw c u buf (negb (IsSpecialScheme c u)) with
                | Er u e => RetErr u e
                | Ok u host => Cont (mk PathStart (p - 1)%Z false [] atF brF pwF (set_host u (Some host)))
                end
         else
           let brF' := if r =? 91 then true else if r =? 93 then false else brF in
           let bytes := match rune_at inp p with
                        | Some (Bad b) => if c_acceptInvalid c then [b] else utf8_enc r
                        | _ => utf8_enc r end in
           Cont (mk st0 p eof (buf ++ bytes) atF brF' pwF u)) ->
      P (stepN {| m_state := st0; m_ptr := ptr; m_eof := false; m_buf := buf; m_at := atF; m_br := brF; m_pw := pwF; m_url := u |})).
    { intros P HP. destruct Hst0 as [-> | ->]; exact HP. }
    apply (Hgoal Post). clear Hgoal. cbv zeta.
    set (p := (ptr + 1)%Z).
    set (r := if (n_inp inp <=? p)%Z then rune_error else cp_at inp p).
    set (eof := if (n_inp inp <=? p)%Z then true else false).
    assert (Heofr : eof = true -> r = rune_error).
    { unfold eof, r. destruct (n_inp inp <=? p)%Z; [reflexivity|discriminate]. }
    pose proof Hau as [A1 [A2 [A3 [A4 [A5 [A6 [A7 [A8 [A9 A10]]]]]]]]].
    destruct ((r =? 58) && negb brF) eqn:Hcolon.
    { assert (Hne : eof = false).
      { destruct eof; [|reflexivity]. rewrite (Heofr eq_refl) in Hcolon. discriminate Hcolon. }
      rewrite Hne. destruct (is_nil buf) eqn:Hnil; [apply mherr_fatal|]. apply is_nil_false in Hnil.
      destruct (parseHost idna_raw c u buf (negb (IsSpecialScheme c u))) as [u1 host|u1 e] eqn:EP; [|exact I].
      destruct (parseHost_ok idna_raw HH3 c u buf _ u1 host Hlax Hpre Hpost EP) as [O1 [O2 [O3 O4]]].
      rewrite negb_involutive in O2. specialize (O4 Hnil).
      rewrite O1. fin. fieldsx. rewrite A2, A6, A7, A9, A10.
      split; [|destruct host as [|x h]; [contradiction|]; repeat split; auto; exists x, h; reflexivity].
      apply (InvP_ext c (set_host u (Some host))); [repeat split|].
      apply auth_host_InvP; try assumption. intro E. contradiction. }
    destruct (eof || ((r =? 47) || (r =? 63) || (r =? 35) || isSpecialSchemeAndBackslash c u r)) eqn:Hterm.
    - destruct (IsSpecialScheme c u && is_nil buf) eqn:Hsn; [apply mherr_fatal|].
      destruct (parseHost idna_raw c u buf (negb (IsSpecialScheme c u))) as [u1 host|u1 e] eqn:EP; [|exact I].
      destruct (parseHost_ok idna_raw HH3 c u buf _ u1 host Hlax Hpre Hpost EP) as [O1 [O2 [O3 O4]]].
      rewrite negb_involutive in O2.
      assert (Hta : term_at u p = true).
      { unfold term_at. unfold eof, r in Hterm. fieldsx_in Hterm. fieldsx.
        destruct (n_inp inp <=? p)%Z; [reflexivity|]. cbn [orb] in Hterm |- *. exact Hterm. }
      assert (Hnil : host = [] -> creds u = false /\ IsSpecialScheme c u = false).
      { intro E. assert (Hb : buf = []).
        { destruct buf as [|b0 b']; [reflexivity|]. exfalso. apply O4; [discriminate|exact E]. }
        split.
        - destruct (creds u) eqn:Ecr; [|reflexivity]. specialize (Hcr eq_refl Hb). fold p in Hcr. congruence.
        - rewrite Hb in Hsn. cbn [is_nil] in Hsn. rewrite andb_true_r in Hsn. exact Hsn. }
      rewrite O1. fin. fieldsx. rewrite A7, A9, A10.
      split; [|repeat split; auto; discriminate].
      apply (InvP_ext c (set_host u (Some host))); [repeat split|].
      apply auth_host_InvP; assumption.
    - assert (Hne : eof = false) by (destruct eof; [discriminate Hterm|reflexivity]).
      rewrite Hne.
      assert (Hm2 : auth_shape u /\ (creds u = true ->
                buf ++ match rune_at inp p with
                       | Some (Bad b) => if c_acceptInvalid c then [b] else utf8_enc r
                       | _ => utf8_enc r end = [] -> term_at u (p + 1) = false)).
      { split; [exact Hau|]. intros _ E. exfalso. apply app_eq_nil in E. destruct E as [_ E].
        destruct (rune_at inp p) as [[x|b]|]; try (revert E; apply utf8_enc_nonempty).
        destruct (c_acceptInvalid c); [discriminate E|revert E; apply utf8_enc_nonempty]. }
      unfold Post, MInvW. cbn [m_eof mk]. unfold MInv. cbn [m_state m_url m_buf m_ptr m_at mk].
      destruct Hst0 as [-> | ->]; exact Hm2.
  Qed.

  Lemma step_HostSt : forall m, m_state m = HostSt -> MInv m -> m_eof m = false -> Post (stepN m).
  Proof. apply step_Host_gen. left. reflexivity. Qed.
  Lemma step_HostnameSt : forall m, m_state m = HostnameSt -> MInv m -> m_eof m = false -> Post (stepN m).
  Proof. apply step_Host_gen. right. reflexivity. Qed.


  (* ---------- the invariant is preserved by every step ---------- *)
  Theorem step_MInv : forall m, MInv m -> m_eof m = false -> Post (stepN m).
  Proof.
    intros m Hm He. destruct (m_state m) eqn:Hst.
    - apply step_SchemeStart; assumption.
    - apply step_Scheme; assumption.
    - apply step_NoScheme; assumption.
    - apply step_OpaquePath; assumption.
    - apply step_SpecialRelativeOrAuthority; assumption.
    - apply step_SpecialAuthoritySlashes; assumption.
    - apply step_SpecialAuthorityIgnoreSlashes; assumption.
    - apply step_PathOrAuthority; assumption.
    - apply step_Authority; assumption.
    - apply step_HostSt; assumption.
    - apply step_HostnameSt; assumption.
    - apply step_File; assumption.
    - apply step_FileHost; assumption.
    - apply step_FileSlash; assumption.
    - apply step_PortSt; assumption.
    - apply step_PathSt; assumption.
    - apply step_PathStart; assumption.
    - apply step_QuerySt; assumption.
    - apply step_FragmentSt; assumption.
    - apply step_Relative; assumption.
    - apply step_RelativeSlash; assumption.
  Qed.

  (* ---------- hence every URL the loop returns satisfies the record invariant ---------- *)
  Theorem run_Inv : forall fuel m u, MInv m -> m_eof m = false ->
    run idna_raw c inp base None fuel m = RUrl u -> Inv c u.
  Proof.
    induction fuel as [|f IH]; intros m u Hm He H; [discriminate H|].
    cbn [run] in H. pose proof (step_MInv m Hm He) as HP.
    destruct (stepN m) as [m'|u'|u' e|u'|] eqn:ES; try discriminate H.
    - unfold Post, MInvW in HP. destruct (m_eof m') eqn:He'.
      + injection H as <-. exact HP.
      + apply (IH m' u HP He' H).
    - injection H as <-. exact HP.
  Qed.

  Lemma MInv_initial : forall u, blank u -> MInv (mk SchemeStart (-1)%Z false [] false false false u).
  Proof. intros u H. unfold MInv. cbn [m_state m_url m_buf mk]. auto. Qed.

End MachineC.

(* ------------------------------------------------------------------ *)
(* Parsing establishes the invariant                                    *)

Lemma blank_empty : forall s, blank (empty_url s).
Proof. intro s. unfold blank, rest_blank. cbn. auto 10. Qed.

Lemma blank_set_input : forall u s, blank u -> blank (set_input u s).
Proof. intros u s H. exact H. Qed.

Lemma blank_handleError : forall c u t f, blank u -> blank (fst (handleError c u t f)).
Proof. intros c u t f H. unfold handleError. cbn [fst]. destruct (c_report c); exact H. Qed.

Section ParseInv.
  Variable idna_raw : str -> str * bool.
  Hypothesis HH3 : H3 idna_raw.
  Variable c : cfg.
  Hypothesis Hc : cfg_okm c = true.

  Theorem BasicParser_Inv : forall s baseUrl u,
    (forall b, baseUrl = Some b -> Inv c b) ->
    BasicParser idna_raw c s baseUrl None None = RUrl u -> Inv c u.
  Proof.
    intros s baseUrl u Hb H. unfold BasicParser in H.
    assert (Hb' : forall b, option_map clone baseUrl = Some b -> Inv c b).
    { intros b E. destruct baseUrl as [b0|]; [|discriminate E]. cbn [option_map] in E. injection E as <-.
      apply Inv_set_verrs. apply Hb. reflexivity. }
    (* whatever the tab/newline removal returns *)
    assert (K : forall u0 (i : str) (changed : bool), blank u0 ->
      (if changed
       then match handleError c u0 InvalidURLUnit false with
            | (u', Some e) => RErr u' e
            | (u', None) =>
                run idna_raw c (decode (u_input (set_input u' i))) (option_map clone baseUrl) None
                  (fuel_of (length (decode (u_input (set_input u' i)))))
                  (mk SchemeStart (-1)%Z false [] false false false (set_input u' i))
            end
       else run idna_raw c (decode (u_input u0)) (option_map clone baseUrl) None
              (fuel_of (length (decode (u_input u0)))) (mk SchemeStart (-1)%Z false [] false false false u0)) = RUrl u ->
      Inv c u).
    { intros u0 i changed Hbl HK. destruct changed.
      - pose proof (blank_handleError c u0 InvalidURLUnit false Hbl) as Hbl'.
        destruct (handleError c u0 InvalidURLUnit false) as [u' [e|]]; [discriminate HK|]. cbn [fst] in Hbl'.
        eapply (run_Inv idna_raw HH3 c Hc _ _ Hb'); [| |exact HK]; [apply MInv_initial; exact Hbl'|reflexivity].
      - eapply (run_Inv idna_raw HH3 c Hc _ _ Hb'); [| |exact HK]; [apply MInv_initial; exact Hbl|reflexivity]. }
    destruct (trim_c0space s) as [i changed]. destruct changed.
    - pose proof (blank_handleError c (empty_url s) InvalidURLUnit false (blank_empty s)) as Hbl'.
      destruct (handleError c (empty_url s) InvalidURLUnit false) as [u' [e|]]; [discriminate H|]. cbn [fst] in Hbl'.
      match type of H with (match ?X with (_, _) => _ end) = _ => destruct X as [i2 ch2] eqn:EX end.
      apply (K (set_input u' i) i2 ch2); [exact Hbl'|exact H].
    - match type of H with (match ?X with (_, _) => _ end) = _ => destruct X as [i2 ch2] eqn:EX end.
      apply (K (empty_url s) i2 ch2); [apply blank_empty|exact H].
  Qed.

  Theorem Parse_Inv : forall s u, Parse idna_raw c s = PUrl u -> Inv c u.
  Proof.
    intros s u H. unfold Parse in H.
    destruct (BasicParser idna_raw c s None None None) as [u'| | | |] eqn:E; try discriminate H.
    cbn [to_pres] in H. injection H as <-. apply (BasicParser_Inv s None u'); [intros b Eb; discriminate Eb|exact E].
  Qed.

  Theorem UrlParse_Inv : forall b ref u, Inv c b -> UrlParse idna_raw c b ref = PUrl u -> Inv c u.
  Proof.
    intros b ref u Hb H. unfold UrlParse in H.
    destruct (BasicParser idna_raw c ref (Some b) None None) as [u'| | | |] eqn:E; try discriminate H.
    cbn [to_pres] in H. injection H as <-. apply (BasicParser_Inv ref (Some b) u'); [|exact E].
    intros b' Eb. injection Eb as <-. exact Hb.
  Qed.

  Theorem ParseRef_Inv : forall raw ref u, ParseRef idna_raw c raw ref = PUrl u -> Inv c u.
  Proof.
    intros raw ref u H. unfold ParseRef in H. destruct raw as [|x raw]; [apply (Parse_Inv ref u H)|].
    destruct (Parse idna_raw c (x :: raw)) as [b| | | |] eqn:E; try discriminate H.
    apply (UrlParse_Inv b ref u); [apply (Parse_Inv _ _ E)|exact H].
  Qed.

  Lemma cfg_okm_ok : cfg_ok c = true.
  Proof. apply (cfg_okm_parts c Hc). Qed.

  (* C04 and C19 for every URL that parsing (with or without a base) returns *)
  Theorem Parse_obs : forall s u, Parse idna_raw c s = PUrl u ->
    inv_obs c (obs_url c u) = [] /\ acc_obs c (obs_url c u) = [].
  Proof.
    intros s u H. pose proof (Parse_Inv s u H) as Hi.
    split; [apply Inv_inv_obs|apply Inv_acc_obs]; try exact cfg_okm_ok; exact Hi.
  Qed.

  Theorem ParseRef_obs : forall raw ref u, ParseRef idna_raw c raw ref = PUrl u ->
    inv_obs c (obs_url c u) = [] /\ acc_obs c (obs_url c u) = [].
  Proof.
    intros raw ref u H. pose proof (ParseRef_Inv raw ref u H) as Hi.
    split; [apply Inv_inv_obs|apply Inv_acc_obs]; try exact cfg_okm_ok; exact Hi.
  Qed.
End ParseInv.
Print Assumptions run_Inv.
Print Assumptions Parse_Inv.
Print Assumptions UrlParse_Inv.
Print Assumptions ParseRef_obs.

(* the premises hold: default configuration, toy oracle, a base and a reference *)
Example parse_example :
  exists u, ParseRef idna_toy default_cfg ex_input [46;46;47;99;63;120] = PUrl u /\ Inv default_cfg u.
Proof.
  eexists. split; [vm_compute; reflexivity|].
  apply inv_b_sound. vm_compute. reflexivity.
Qed.

(* ================================================================== *)
(* Part D  the parser under a state override: the remaining setters     *)
(* ================================================================== *)

Lemma Inv_set_host : forall c u h, Inv c u -> u_opaque u = false ->
  host_ok (IsSpecialScheme c u) h = true -> forallb printable h = true ->
  (h = [] -> u_username u = [] /\ u_password u = [] /\ u_port u = None /\
             (IsSpecialScheme c u = true -> str_eqb (u_scheme u) s_file = true)) ->
  Inv c (set_host u (Some h)).
Proof.
  intros c u h [H1 H2 H3 H4 H5 H6 H7 H8 H9 H10 H11 H12] Ho Hh1 Hh2 Hnil.
  constructor; fieldsx; try assumption.
  - intro E. congruence.
  - intro Hs. destruct (H4 Hs) as [S1 [S2 _]]. split; [exact S1|]. split; [exact S2|].
    exists h. split; [reflexivity|]. destruct h as [|x h]; [|right; discriminate].
    left. apply (Hnil eq_refl). exact Hs.
  - intros [E|[E|E]]; [discriminate E| |apply H5; right; right; exact E].
    injection E as E. destruct (Hnil E) as [A [B [C _]]]. auto.
  - intros E. discriminate E.
  - intros h' E. injection E as <-. auto.
Qed.

Lemma Inv_set_port_some : forall c u n, Inv c u -> (exists x h, u_host u = Some (x :: h)) ->
  str_eqb (u_scheme u) s_file = false -> n <= 65535 ->
  getSpecialScheme c (u_scheme u) <> Some (itoa n) ->
  Inv c (set_port u (Some (itoa n)) n).
Proof.
  intros c u n [H1 H2 H3 H4 H5 H6 H7 H8 H9 H10 H11 H12] [x [h Hh]] Hf Hn Hd.
  constructor; fieldsx; try assumption.
  - intros [E|[E|E]]; congruence.
  - intros p' E. injection E as <-. rewrite itoa_val. split; [apply itoa_canonical|].
    split; [clear - Hn; lia|]. split; [reflexivity|exact Hd].
Qed.

Lemma Inv_clean_port : forall c u n, Inv c u -> (exists x h, u_host u = Some (x :: h)) ->
  str_eqb (u_scheme u) s_file = false -> n <= 65535 ->
  Inv c (cleanDefaultPort c (set_port u (Some (itoa n)) n)).
Proof.
  intros c u n Hi Hh Hf Hn. unfold cleanDefaultPort. fieldsx.
  destruct (getSpecialScheme c (u_scheme u)) as [dp|] eqn:Ed.
  - destruct (str_eqb dp (itoa n)) eqn:E.
    + apply (Inv_ext c (set_port u None 0)); [repeat split|]. apply Inv_set_port_none. exact Hi.
    + apply Inv_set_port_some; try assumption. rewrite Ed. intro X. injection X as ->.
      rewrite str_eqb_refl in E. discriminate E.
  - apply Inv_set_port_some; try assumption. rewrite Ed. discriminate.
Qed.

(* changing the scheme between two special or two non-special schemes *)
Lemma Inv_set_scheme_aux : forall c u s (po : option str) d, Inv c u -> scheme_ok s = true ->
  isSpecialScheme c s = IsSpecialScheme c u ->
  (str_eqb s s_file = true -> u_username u = [] /\ u_password u = [] /\ u_port u = None) ->
  (str_eqb (u_scheme u) s_file = true -> exists x h, u_host u = Some (x :: h)) ->
  (po = None \/ (po = u_port u /\ d = u_decodedPort u /\ forall p, po = Some p -> getSpecialScheme c s <> Some p)) ->
  Inv c (set_scheme (set_port u po d) s).
Proof.
  intros c u s po d [H1 H2 H3 H4 H5 H6 H7 H8 H9 H10 H11 H12] Hs Hsp Hfile1 Hfile2 Hpo.
  unfold IsSpecialScheme in *.
  constructor; unfold IsSpecialScheme, qset, fset in *; fieldsx; rewrite ?Hsp.
  - exact Hs.
  - exact H2.
  - exact H3.
  - intro E. destruct (H4 E) as [S1 [S2 [h [Hh S3]]]]. split; [exact S1|]. split; [exact S2|].
    exists h. split; [exact Hh|]. right. destruct S3 as [S3|S3]; [|exact S3].
    destruct (Hfile2 S3) as [x [h' E']]. rewrite Hh in E'. injection E' as ->. discriminate.
  - intros E.
    assert (X : u_username u = [] /\ u_password u = [] /\ u_port u = None).
    { destruct E as [E|[E|E]]; [apply H5; auto|apply H5; auto|apply Hfile1; exact E]. }
    destruct X as [A [B C]]. split; [exact A|]. split; [exact B|].
    destruct Hpo as [->|[-> _]]; [reflexivity|exact C].
  - exact H6.
  - intros p E. destruct Hpo as [->|[-> [-> Hd]]]; [discriminate E|].
    destruct (H7 p E) as [P1 [P2 [P3 _]]]. split; [exact P1|]. split; [exact P2|]. split; [exact P3|].
    apply Hd. exact E.
  - exact H8.
  - exact H9.
  - exact H10.
  - exact H11.
  - exact H12.
Qed.

Lemma Inv_set_scheme : forall c u s, Inv c u -> scheme_ok s = true ->
  isSpecialScheme c s = IsSpecialScheme c u ->
  (str_eqb s s_file = true -> u_username u = [] /\ u_password u = [] /\ u_port u = None) ->
  (str_eqb (u_scheme u) s_file = true -> exists x h, u_host u = Some (x :: h)) ->
  Inv c (cleanDefaultPort c (set_scheme u s)).
Proof.
  intros c u s Hi Hs Hsp Hf1 Hf2.
  pose proof (Inv_set_scheme_aux c u s None 0 Hi Hs Hsp Hf1 Hf2 (or_introl eq_refl)) as Hnone.
  assert (Hkeep : (forall p, u_port u = Some p -> getSpecialScheme c s <> Some p) -> Inv c (set_scheme u s)).
  { intro Hd. apply (Inv_ext c (set_scheme (set_port u (u_port u) (u_decodedPort u)) s)); [repeat split|].
    apply Inv_set_scheme_aux; try assumption. right. auto. }
  unfold cleanDefaultPort. fieldsx. destruct (getSpecialScheme c s) as [dp|] eqn:Ed.
  - destruct (u_port u) as [p|] eqn:Hp.
    + destruct (str_eqb dp p) eqn:E.
      * apply (Inv_ext c (set_scheme (set_port u None 0) s)); [repeat split|exact Hnone].
      * apply Hkeep. intros p' E' X. injection E' as <-. injection X as ->. rewrite str_eqb_refl in E. discriminate E.
    + apply (Inv_ext c (set_scheme (set_port u None 0) s)); [repeat split|exact Hnone].
  - apply Hkeep. intros p' _. discriminate.
Qed.

(* ------------------------------------------------------------------ *)
(* the host parsers change nothing but the recorded errors, whatever they return *)

Definition res_url {A} (r : res A) : url := match r with Ok u _ => u | Er u _ => u end.

Lemma herr_only : forall A c u t f (k : url -> res A),
  (forall u1, only_verrs u1 (res_url (k u1))) -> only_verrs u (res_url (herr c u t f k)).
Proof.
  intros A c u t f k H. unfold herr. pose proof (handleError_only c u t f) as Ho.
  destruct (handleError c u t f) as [u1 [e|]]; cbn [fst] in Ho; [exact Ho|].
  eapply only_verrs_trans; [exact Ho|apply H].
Qed.

Lemma ipv4_numbers_only : forall c parts u acc, only_verrs u (res_url (ipv4_numbers c u parts acc)).
Proof.
  intros c parts. induction parts as [|p rest IH]; intros u acc; [apply only_verrs_refl|].
  cbn [ipv4_numbers]. pose proof (parseIPv4Number_only c u p) as Hp.
  destruct (parseIPv4Number c u p) as [u1 [n ve|rg]]; cbn [fst] in Hp.
  - destruct ve.
    + eapply only_verrs_trans; [exact Hp|]. apply herr_only. intros u2. apply IH.
    + eapply only_verrs_trans; [exact Hp|apply IH].
  - eapply only_verrs_trans; [exact Hp|]. apply herr_only. intros u2. apply IH.
Qed.

Lemma ipv4_range_warn_only : forall c ns u k,
  (forall u1, only_verrs u1 (res_url (k u1))) -> only_verrs u (res_url (ipv4_range_warn c u ns k)).
Proof.
  intros c ns. induction ns as [|n rest IH]; intros u k H; [apply H|].
  cbn [ipv4_range_warn]. destruct (255 <? n).
  - apply herr_only. intros u1. apply IH. exact H.
  - apply IH. exact H.
Qed.

Lemma v4_after_empty_only : forall c u parts, only_verrs u (res_url (v4_after_empty c u parts)).
Proof.
  intros c u parts. unfold v4_after_empty.
  assert (K : forall u0, only_verrs u0 (res_url
            match ipv4_numbers c u0 parts [] with
            | Er u e => Er u e
            | Ok u numbers =>
                ipv4_range_warn c u numbers (fun u =>
                  let init := drop_last numbers in
                  if existsb (fun n => 255 <? n) init then herr c u IPv4OutOfRangePart true (fun u => Ok u [])
                  else match last_opt numbers with
                       | None => Ok u []
                       | Some lastn =>
                           if 256 ^ (5 - N.of_nat (length numbers)) <=? lastn
                           then herr c u IPv4OutOfRangePart true (fun u => Ok u [])
                           else Ok u (IPv4String (lastn + ipv4_sum init 0))
                       end)
            end)).
  { intro u0. pose proof (ipv4_numbers_only c parts u0 []) as H1.
    destruct (ipv4_numbers c u0 parts []) as [u2 numbers|u2 e]; cbn [res_url] in H1 |- *; [|exact H1].
    eapply only_verrs_trans; [exact H1|]. apply ipv4_range_warn_only. intro u3. cbv zeta.
    destruct (existsb (fun n => 255 <? n) (drop_last numbers)).
    - apply herr_only. intro u4. apply only_verrs_refl.
    - destruct (last_opt numbers) as [lastn|]; [|apply only_verrs_refl].
      destruct (256 ^ (5 - N.of_nat (length numbers)) <=? lastn); [|apply only_verrs_refl].
      apply herr_only. intro u4. apply only_verrs_refl. }
  destruct (4 <? len parts)%Z; [apply herr_only; exact K|apply K].
Qed.

Lemma parseIPv4_only : forall c u input, only_verrs u (res_url (parseIPv4 c u input)).
Proof.
  intros c u input. rewrite parseIPv4_eq. cbv zeta.
  destruct (last_opt (split 46 input)) as [[|x l]|]; try apply v4_after_empty_only.
  apply herr_only. intro u1. apply v4_after_empty_only.
Qed.

Lemma parseIPv6_only : forall c u input, only_verrs u (res_url (parseIPv6 c u input)).
Proof.
  intros c u input. unfold parseIPv6. destruct (ipv6_parse (runes input)); [apply only_verrs_refl|].
  apply herr_only. intro u1. apply only_verrs_refl.
Qed.

Lemma opaque_loop_only : forall c input l u out, only_verrs u (res_url (opaque_loop c u input l out)).
Proof.
  intros c input l. induction l as [|ch rest IH]; intros u out; [apply only_verrs_refl|].
  cbn [opaque_loop].
  assert (K1 : forall u0, only_verrs u0 (res_url
      ((if (ch =? 37) && invalid_pct (ch :: rest)
        then (fun k => herr c u0 InvalidURLUnit false k) else (fun k => k u0))
       (fun u => opaque_loop c u input rest (out ++ percentEncodeRune c ch (Some pes_C0)))))).
  { intro u0. destruct ((ch =? 37) && invalid_pct (ch :: rest)); [apply herr_only; intro; apply IH|apply IH]. }
  assert (K2 : forall u0, only_verrs u0 (res_url
      ((if negb (isURLCodePoint ch) && negb (ch =? 37)
        then (fun k => herr c u0 InvalidURLUnit false k) else (fun k => k u0))
       (fun u =>
         (if (ch =? 37) && invalid_pct (ch :: rest)
          then (fun k => herr c u InvalidURLUnit false k) else (fun k => k u))
         (fun u => opaque_loop c u input rest (out ++ percentEncodeRune c ch (Some pes_C0))))))).
  { intro u0. destruct (negb (isURLCodePoint ch) && negb (ch =? 37)); [apply herr_only; exact K1|apply K1]. }
  destruct (isForbiddenHost ch); [|apply K2].
  destruct (c_lax c); [apply only_verrs_refl|]. apply herr_only. exact K2.
Qed.

Lemma parseHost_only : forall idna_raw c u input ns, only_verrs u (res_url (parseHost idna_raw c u input ns)).
Proof.
  intros idna_raw c u input ns. rewrite parseHost_eq.
  destruct (apply_hostfun (c_pre c) input) as [|x r]; [apply only_verrs_refl|].
  destruct (x =? 91).
  - unfold ph_v6. destruct (negb (has_suffix [93] (x :: r))); [apply herr_only; intro|]; apply parseIPv6_only.
  - destruct ns; [apply opaque_loop_only|]. unfold ph_domain. cbv zeta.
    set (domain := DecodePercentEncoded c (x :: r)).
    assert (KC : forall a u0, only_verrs u0 (res_url
               match endsInANumber c u0 a with
               | (u, true) => parseIPv4 c u a
               | (u, false) => Ok u (apply_hostfun (c_post c) a)
               end)).
    { intros a u0. pose proof (endsInANumber_only c u0 a) as H.
      destruct (endsInANumber c u0 a) as [u1 b]. cbn [fst] in H. destruct b.
      - eapply only_verrs_trans; [exact H|apply parseIPv4_only].
      - exact H. }
    assert (KV : forall u0, only_verrs u0 (res_url
               match ToASCII idna_raw c domain with
               | None => if c_lax c then Ok u0 domain else herr c u0 DomainToASCII true (fun u => Ok u [])
               | Some asciiDomain =>
                   if existsb isForbiddenDomain (runes asciiDomain)
                   then if c_lax c then Ok u0 (PercentEncodeString c asciiDomain pes_Host)
                        else herr c u0 DomainInvalidCodePoint true (fun u =>
                               match endsInANumber c u asciiDomain with
                               | (u, true) => parseIPv4 c u asciiDomain
                               | (u, false) => Ok u (apply_hostfun (c_post c) asciiDomain)
                               end)
                   else match endsInANumber c u0 asciiDomain with
                        | (u, true) => parseIPv4 c u asciiDomain
                        | (u, false) => Ok u (apply_hostfun (c_post c) asciiDomain)
                        end
               end)).
    { intro u0. destruct (ToASCII idna_raw c domain) as [a|].
      - destruct (existsb isForbiddenDomain (runes a)); [|apply KC].
        destruct (c_lax c); [apply only_verrs_refl|]. apply herr_only. intro u1. apply KC.
      - destruct (c_lax c); [apply only_verrs_refl|]. apply herr_only. intro u1. apply only_verrs_refl. }
    destruct (negb (valid_utf8 domain)); [|apply KV].
    destruct (c_lax c); [apply only_verrs_refl|]. apply herr_only. exact KV.
Qed.

Section MachineO.
  Variable idna_raw : str -> str * bool.
  Hypothesis HH3 : H3 idna_raw.
  Variable c : cfg.
  Hypothesis Hc : cfg_okm c = true.
  Hypothesis Hnf : c_fail c = false.
  Variable inp : list rune.
  Variable base : option url.
  Variable ov : state.

  Notation stepO := (step idna_raw c inp base (Some ov)).

  Let Hcok : cfg_ok c = true. Proof. apply (cfg_okm_parts c Hc). Qed.
  Let Hcl_path : set_closed (c_pathSet c) = true. Proof. apply (cfg_okm_parts c Hc). Qed.
  Let Hcl_squery : set_closed (c_squerySet c) = true. Proof. apply (cfg_okm_parts c Hc). Qed.
  Let Hcl_query : set_closed (c_querySet c) = true. Proof. apply (cfg_okm_parts c Hc). Qed.
  Let Hcl_sfrag : set_closed (c_sfragSet c) = true. Proof. apply (cfg_okm_parts c Hc). Qed.
  Let Hcl_frag : set_closed (c_fragSet c) = true. Proof. apply (cfg_okm_parts c Hc). Qed.
  Let Hlax : c_lax c = false. Proof. apply (cfg_okm_parts c Hc). Qed.
  Let Htrail : c_skipTrailSlash c = false. Proof. apply (cfg_okm_parts c Hc). Qed.
  Let Hpre : c_pre c = HF_none. Proof. apply (cfg_okm_parts c Hc). Qed.
  Let Hpost : c_post c = HF_none. Proof. apply (cfg_okm_parts c Hc). Qed.
  Let Hfile : isSpecialScheme c s_file = true. Proof. apply (cfg_okm_parts c Hc). Qed.

  Definition MInvO (m : mstate) : Prop :=
    let u := m_url m in
    let buf := m_buf m in
    match m_state m with
    | SchemeStart => Inv c u /\ buf = []
    | Scheme => Inv c u /\ scheme_ok buf = true
    | HostSt | HostnameSt => Inv c u /\ u_opaque u = false
    | FileHost => Inv c u /\ u_opaque u = false /\ u_scheme u = s_file
    | PortSt =>
        Inv c u /\ (exists x h, u_host u = Some (x :: h)) /\ str_eqb (u_scheme u) s_file = false /\
        forallb is_digit buf = true
    | PathStart => InvP c u /\ buf = [] /\ u_path u = []
    | PathSt => InvP c u /\ seg_ok c buf = true
    | QuerySt => Inv c u /\ none_in (qset c u) buf = true
    | FragmentSt => Inv c u /\ none_in (fset c u) buf = true
    | _ => False
    end.

  Definition MInvWO (m : mstate) : Prop := if m_eof m then Inv c (m_url m) else MInvO m.

  (* a setter keeps the record whatever the parser returns *)
  Definition PostO (o : outcome) : Prop :=
    match o with
    | Cont m' => MInvWO m'
    | RetUrl u => Inv c u
    | RetErr u _ => Inv c u
    | RetNilNil u => Inv c u
    | Panic => True
    end.

  Lemma mherr_postO : forall u t k,
    (forall v, PostO (k (set_verrs u v))) -> PostO (mherr c u t false k).
  Proof.
    intros u t k H. unfold mherr, handleError. rewrite Hnf. cbn [orb].
    destruct (c_report c); [apply H|]. rewrite <- (set_verrs_id u). apply H.
  Qed.

  Lemma mherr_fatalO : forall u t k, Inv c u -> PostO (mherr c u t true k).
  Proof.
    intros u t k H. unfold mherr, handleError. cbn [orb].
    destruct (c_report c); cbn [PostO]; [apply Inv_set_verrs|]; exact H.
  Qed.

  Lemma uuc_postO : forall (A inv : bool) u (k1 k2 : url -> outcome),
    (forall v, PostO (k1 (set_verrs u v))) -> (forall v, PostO (k2 (set_verrs u v))) ->
    PostO ((if A then (fun k' => mherr c u InvalidURLUnit false k') else (fun k' => k' u))
            (fun u => if inv then mherr c u InvalidURLUnit false k1 else k2 u)).
  Proof.
    intros A inv u k1 k2 H1 H2.
    assert (H2' : PostO (k2 u)) by (rewrite <- (set_verrs_id u); apply H2).
    destruct A.
    - apply mherr_postO. intro v. destruct inv; [|apply H2].
      apply mherr_postO. intro v'. rewrite set_verrs_twice. apply H1.
    - destruct inv; [|apply H2']. apply mherr_postO. intro v. apply H1.
  Qed.

  Ltac start_stateO :=
    intros [st ptr eof buf atF brF pwF u] Hst Hm He; cbn [m_state m_eof] in Hst, He; subst st eof;
    unfold MInvO in Hm; cbn [m_state m_url m_buf m_ptr m_at] in Hm;
    unfold step; cbn [m_state m_ptr m_eof m_buf m_at m_br m_pw m_url overridden is_some negb andb orb];
    set (p := (ptr + 1)%Z);
    set (r := if (n_inp inp <=? p)%Z then rune_error else cp_at inp p);
    set (eof := if (n_inp inp <=? p)%Z then true else false);
    assert (Heofr : eof = true -> r = rune_error)
      by (unfold eof, r; destruct (n_inp inp <=? p)%Z; [reflexivity|discriminate]).
  Ltac finO := unfold PostO, MInvWO; cbn [m_eof mk]; unfold MInvO; cbn [m_state m_url m_buf m_ptr m_at mk].

  Lemma stepO_SchemeStart : forall m, m_state m = SchemeStart -> MInvO m -> m_eof m = false -> PostO (stepO m).
  Proof.
    start_stateO. destruct Hm as [Hi ->].
    destruct (isAlpha r) eqn:Ha.
    - assert (Hne : eof = false) by (destruct eof; [rewrite (Heofr eq_refl) in Ha; discriminate Ha|reflexivity]).
      rewrite Hne. finO. split; [exact Hi|].
      destruct (isAlpha_facts r Ha) as [A1 A2].
      assert (ascii_lower r < 128) by (clear - A1; unfold ascii_lower; destruct (is_upper r) eqn:E; unfold is_upper in E; lia).
      rewrite utf8_enc_ascii by assumption. cbn [app scheme_ok forallb]. rewrite A2. reflexivity.
    - apply mherr_fatalO. exact Hi.
  Qed.

  Lemma stepO_Scheme : forall m, m_state m = Scheme -> MInvO m -> m_eof m = false -> PostO (stepO m).
  Proof.
    start_stateO. destruct Hm as [Hi Hbuf].
    destruct (isAlnum r || (r =? 43) || (r =? 45) || (r =? 46)) eqn:Hsc.
    - assert (Hne : eof = false) by (destruct eof; [rewrite (Heofr eq_refl) in Hsc; discriminate Hsc|reflexivity]).
      rewrite Hne. finO. split; [exact Hi|]. destruct (scheme_char_facts r Hsc) as [A1 A2].
      assert (ascii_lower r < 128) by (clear - A1; unfold ascii_lower; destruct (is_upper r) eqn:E; unfold is_upper in E; lia).
      rewrite utf8_enc_ascii by assumption. apply scheme_ok_snoc; assumption.
    - destruct (r =? 58); [|apply mherr_fatalO; exact Hi].
      match goal with |- PostO (if ?b then _ else _) => destruct b eqn:Early end; [exact Hi|].
      cbn [PostO].
      apply orb_false_iff in Early. destruct Early as [Early E4].
      apply orb_false_iff in Early. destruct Early as [Early E3].
      apply orb_false_iff in Early. destruct Early as [E1 E2].
      apply Inv_set_scheme; try assumption.
      + unfold IsSpecialScheme. destruct (isSpecialScheme c (u_scheme u)), (isSpecialScheme c buf);
          try reflexivity; discriminate.
      + intro Ef. rewrite Ef, andb_true_r in E3.
        apply orb_false_iff in E3. destruct E3 as [E3 E3c]. apply orb_false_iff in E3. destruct E3 as [E3a E3b].
        apply negb_false_iff in E3a, E3b. apply is_nil_true in E3a, E3b.
        destruct (u_port u); [discriminate E3c|]. auto.
      + intro Ef. rewrite Ef in E4. cbn [andb] in E4.
        destruct (u_host u) as [[|x h]|]; try discriminate E4. exists x, h. reflexivity.
  Qed.

  Lemma stepO_QuerySt : forall m, m_state m = QuerySt -> MInvO m -> m_eof m = false -> PostO (stepO m).
  Proof.
    start_stateO. destruct Hm as [Hi Hbuf].
    destruct eof eqn:Heof; cbn [negb].
    - finO. apply Inv_set_query_some; assumption.
    - fieldsx_in Hbuf. apply uuc_postO; intro v; finO; fieldsx;
      (split; [apply Inv_set_verrs; exact Hi|]);
      rewrite none_in_app;
      (destruct (isSpecialScheme c (u_scheme u)); rewrite Hbuf; cbn [andb]; apply enc_rune_none_in; assumption).
  Qed.

  Lemma stepO_FragmentSt : forall m, m_state m = FragmentSt -> MInvO m -> m_eof m = false -> PostO (stepO m).
  Proof.
    start_stateO. destruct Hm as [Hi Hbuf].
    destruct eof eqn:Heof; cbn [negb].
    - finO. apply Inv_set_fragment_some; assumption.
    - fieldsx_in Hbuf. apply uuc_postO; intro v; finO; fieldsx;
      (split; [apply Inv_set_verrs; exact Hi|]);
      rewrite none_in_app;
      (destruct (isSpecialScheme c (u_scheme u)); rewrite Hbuf; cbn [andb]; apply enc_rune_none_in; assumption).
  Qed.

  Lemma stepO_PortSt : forall m, m_state m = PortSt -> MInvO m -> m_eof m = false -> PostO (stepO m).
  Proof.
    start_stateO. destruct Hm as [Hi [Hh [Hf Hbuf]]].
    destruct (isDigit r) eqn:Hd.
    - assert (Hne : eof = false) by (destruct eof; [rewrite (Heofr eq_refl) in Hd; discriminate Hd|reflexivity]).
      rewrite Hne. finO. do 3 (split; [assumption|]).
      destruct (isDigit_facts r Hd) as [D1 D2]. rewrite utf8_enc_ascii by exact D1.
      rewrite forallb_app, Hbuf. cbn [forallb]. rewrite D2. reflexivity.
    - rewrite orb_true_r. destruct (negb (is_nil buf)).
      + destruct (65535 <? digits_val 10 buf) eqn:Hbig; [apply mherr_fatalO; exact Hi|].
        assert (Hn : digits_val 10 buf <= 65535) by (clear - Hbig; lia).
        cbn [PostO]. apply Inv_clean_port; assumption.
      + apply mherr_fatalO. exact Hi.
  Qed.

  Lemma stepO_PathStart : forall m, m_state m = PathStart -> MInvO m -> m_eof m = false -> PostO (stepO m).
  Proof.
    start_stateO. destruct Hm as [Hp [-> Hpath]].
    rewrite Htrail. cbn [negb]. rewrite andb_true_r.
    destruct (IsSpecialScheme c u) eqn:Hs.
    - assert (K : forall v, PostO (if negb (r =? 47) && negb (r =? 92)
                                   then Cont (mk PathSt (p - 1) false [] atF brF pwF (set_verrs u v))
                                   else Cont (mk PathSt p eof [] atF brF pwF (set_verrs u v)))).
      { intro v. destruct (negb (r =? 47) && negb (r =? 92)) eqn:E.
        - finO. split; [apply InvP_set_verrs; exact Hp|reflexivity].
        - assert (Hne : eof = false) by (destruct eof; [rewrite (Heofr eq_refl) in E; discriminate E|reflexivity]).
          rewrite Hne. finO. split; [apply InvP_set_verrs; exact Hp|reflexivity]. }
      destruct (r =? 92).
      + apply mherr_postO. exact K.
      + rewrite <- (set_verrs_id u). apply K.
    - destruct eof eqn:Heof; cbn [negb].
      + destruct (negb (is_some (u_host u))) eqn:Hh.
        * finO. apply InvP_Inv; [apply InvP_addSegment; [exact Hp|reflexivity]|]. left.
          unfold addSegment. fieldsx. destruct (u_path u); discriminate.
        * finO. apply InvP_Inv; [exact Hp|]. right. split; [exact Hs|].
          destruct (u_host u); [discriminate|discriminate Hh].
      + destruct (negb (r =? 47)); finO; (split; [exact Hp|reflexivity]).
  Qed.

  Lemma stepO_PathSt : forall m, m_state m = PathSt -> MInvO m -> m_eof m = false -> PostO (stepO m).
  Proof.
    start_stateO. destruct Hm as [Hp Hbuf]. rewrite orb_false_r.
    destruct (eof || (r =? 47) || isSpecialSchemeAndBackslash c u r) eqn:Hterm.
    - change (PostO ((if isSpecialSchemeAndBackslash c u r
                     then (fun k => mherr c u InvalidReverseSolidus false k) else (fun k => k u))
                    (fun u0 => path_done p eof atF brF pwF r
                                 (path_upd c u0 buf ((r =? 47) || isSpecialSchemeAndBackslash c u0 r))))).
      assert (K : forall v, PostO (path_done p eof atF brF pwF r
                   (path_upd c (set_verrs u v) buf ((r =? 47) || isSpecialSchemeAndBackslash c (set_verrs u v) r)))).
      { intro v. set (sl := (r =? 47) || isSpecialSchemeAndBackslash c (set_verrs u v) r).
        destruct (path_upd_ok c Hc (set_verrs u v) buf sl (InvP_set_verrs c u v Hp) Hbuf) as [K1 K2].
        assert (Hsl : (r =? 47) = false -> (r =? 92) = false -> sl = false).
        { intros E1 E2. unfold sl, isSpecialSchemeAndBackslash. rewrite E1, E2, andb_false_r. reflexivity. }
        unfold path_done. destruct (r =? 63) eqn:H63.
        { assert (Hne : eof = false).
          { destruct eof; [|reflexivity]. rewrite (Heofr eq_refl) in H63. discriminate H63. }
          rewrite Hne. finO. split; [|reflexivity]. apply Inv_set_query_some; [|reflexivity].
          apply InvP_Inv; [exact K1|]. left. apply K2. apply Hsl.
          - apply N.eqb_eq in H63. rewrite H63. reflexivity.
          - apply N.eqb_eq in H63. rewrite H63. reflexivity. }
        destruct (r =? 35) eqn:H35.
        { assert (Hne : eof = false).
          { destruct eof; [|reflexivity]. rewrite (Heofr eq_refl) in H35. discriminate H35. }
          rewrite Hne. finO. split; [|reflexivity]. apply Inv_set_fragment_some; [|reflexivity].
          apply InvP_Inv; [exact K1|]. left. apply K2. apply Hsl.
          - apply N.eqb_eq in H35. rewrite H35. reflexivity.
          - apply N.eqb_eq in H35. rewrite H35. reflexivity. }
        destruct eof eqn:Heof.
        - finO. apply InvP_Inv; [exact K1|]. left. apply K2. apply Hsl; rewrite (Heofr eq_refl); reflexivity.
        - finO. split; [exact K1|reflexivity]. }
      destruct (isSpecialSchemeAndBackslash c u r).
      + apply mherr_postO. exact K.
      + rewrite <- (set_verrs_id u). apply K.
    - apply orb_false_iff in Hterm. destruct Hterm as [Hterm _].
      apply orb_false_iff in Hterm. destruct Hterm as [Heof H47]. rewrite Heof.
      assert (Q : forall t, RuneShouldBeEncoded t r = false -> negb (r =? 47) = true)
        by (intros t _; rewrite H47; reflexivity).
      apply uuc_postO; intro v; finO; (split; [apply InvP_set_verrs; exact Hp|]); apply seg_ok_app; try assumption.
      + apply enc_invalid_none_in. assumption.
      + apply Q_enc_invalid; [reflexivity|reflexivity|apply Q].
      + apply enc_rune_none_in. assumption.
      + apply Q_enc_rune; [reflexivity|reflexivity|apply Q].
  Qed.



  Lemma parseHost_err_Inv : forall u buf ns u1 e, Inv c u ->
    parseHost idna_raw c u buf ns = Er u1 e -> Inv c u1.
  Proof.
    intros u buf ns u1 e Hi E. pose proof (parseHost_only idna_raw c u buf ns) as H.
    rewrite E in H. cbn [res_url] in H. rewrite H. apply Inv_set_verrs. exact Hi.
  Qed.

  Lemma stepO_Host_gen : forall st0, st0 = HostSt \/ st0 = HostnameSt ->
    forall m, m_state m = st0 -> MInvO m -> m_eof m = false -> PostO (stepO m).
  Proof.
    intros st0 Hst0.
    intros [st ptr eof0 buf atF brF pwF u] Hst Hm He; cbn [m_state m_eof] in Hst, He; subst st eof0.
    assert (Hm' : Inv c u /\ u_opaque u = false) by (destruct Hst0 as [-> | ->]; exact Hm).
    clear Hm. destruct Hm' as [Hi Ho].
    assert (Hgoal : forall (P : outcome -> Prop),
      P (let p := (ptr + 1)%Z in
         let eof := if (n_inp inp <=? p)%Z then true else false in
         let r := if (n_inp inp <=? p)%Z then rune_error else cp_at inp p in
         if str_eqb (u_scheme u) s_file then Cont (mk FileHost (p - 1) false buf atF brF pwF u)
         else if (r =? 58) && negb brF then
           (if is_nil buf then (fun k => mherr c u HostMissing true k) else (fun k => k u))
           (fun u0 => if match ov with HostnameSt => true | _ => false end then RetUrl u0
                      else match parseHost idna_raw c u0 buf (negb (IsSpecialScheme c u0)) with
                           | Ok u1 host => Cont (mk PortSt p eof [] atF brF pwF (set_host u1 (Some host)))
                           | Er u1 e => RetErr u1 e
                           end)
         else if eof || ((r =? 47) || (r =? 63) || (r =? 35) || isSpecialSchemeAndBackslash c u r) then
           if IsSpecialScheme c u && is_nil buf
           then mherr c u HostMissing true (fun u' => Cont (mk st0 (p - 1) false buf atF brF pwF u'))
           else if is_nil buf && (negb (is_nil (u_username u)) || negb (is_nil (u_password u)) || is_some (u_port u))
           then RetUrl u
           else match parseHost idna_raw c u buf (negb (IsSpecialScheme c u)) with
                | Ok u0 host => RetUrl (set_host u0 (Some host))
                | Er u0 e => RetErr u0 e
                end
         else Cont (mk st0 p eof
                      (buf ++ match rune_at inp p with
                              | Some (Bad b) => if c_acceptInvalid c then [b] else utf8_enc r
                              | _ => utf8_enc r end) atF
                      (if r =? 91 then true else if r =? 93 then false else brF) pwF u)) ->
      P (stepO {| m_state := st0; m_ptr := ptr; m_eof := false; m_buf := buf; m_at := atF; m_br := brF; m_pw := pwF; m_url := u |})).
    { intros P HP. destruct Hst0 as [-> | ->]; exact HP. }
    apply (Hgoal PostO). clear Hgoal. cbv zeta.
    set (p := (ptr + 1)%Z).
    set (r := if (n_inp inp <=? p)%Z then rune_error else cp_at inp p).
    set (eof := if (n_inp inp <=? p)%Z then true else false).
    assert (Heofr : eof = true -> r = rune_error).
    { unfold eof, r. destruct (n_inp inp <=? p)%Z; [reflexivity|discriminate]. }
    destruct (str_eqb (u_scheme u) s_file) eqn:Hf.
    { finO. apply str_eqb_eq in Hf. auto. }
    destruct ((r =? 58) && negb brF) eqn:Hcolon.
    { assert (Hne : eof = false).
      { destruct eof; [|reflexivity]. rewrite (Heofr eq_refl) in Hcolon. discriminate Hcolon. }
      rewrite Hne. destruct (is_nil buf) eqn:Hnil; [apply mherr_fatalO; exact Hi|]. apply is_nil_false in Hnil.
      destruct (match ov with HostnameSt => true | _ => false end); [exact Hi|].
      destruct (parseHost idna_raw c u buf (negb (IsSpecialScheme c u))) as [u1 host|u1 e] eqn:EP;
        [|cbn [PostO]; apply (parseHost_err_Inv _ _ _ _ _ Hi EP)].
      destruct (parseHost_ok idna_raw HH3 c u buf _ u1 host Hlax Hpre Hpost EP) as [O1 [O2 [O3 O4]]].
      rewrite negb_involutive in O2. specialize (O4 Hnil).
      rewrite O1. finO. fieldsx. rewrite Hf.
      split; [|destruct host as [|x h]; [contradiction|]; repeat split; auto; exists x, h; reflexivity].
      apply (Inv_ext c (set_host u (Some host))); [repeat split|].
      apply Inv_set_host; try assumption. intro E. contradiction. }
    destruct (eof || ((r =? 47) || (r =? 63) || (r =? 35) || isSpecialSchemeAndBackslash c u r)) eqn:Hterm.
    - destruct (IsSpecialScheme c u && is_nil buf) eqn:Hsn; [apply mherr_fatalO; exact Hi|].
      destruct (is_nil buf && (negb (is_nil (u_username u)) || negb (is_nil (u_password u)) || is_some (u_port u))) eqn:Hkeep;
        [exact Hi|].
      destruct (parseHost idna_raw c u buf (negb (IsSpecialScheme c u))) as [u1 host|u1 e] eqn:EP;
        [|cbn [PostO]; apply (parseHost_err_Inv _ _ _ _ _ Hi EP)].
      destruct (parseHost_ok idna_raw HH3 c u buf _ u1 host Hlax Hpre Hpost EP) as [O1 [O2 [O3 O4]]].
      rewrite negb_involutive in O2. cbn [PostO]. rewrite O1.
      apply (Inv_ext c (set_host u (Some host))); [repeat split|].
      apply Inv_set_host; try assumption. intro E.
      assert (Hb : buf = []).
      { destruct buf as [|b0 b']; [reflexivity|]. exfalso. apply O4; [discriminate|exact E]. }
      subst buf. cbn [is_nil andb] in Hkeep, Hsn. rewrite andb_true_r in Hsn.
      apply orb_false_iff in Hkeep. destruct Hkeep as [Hkeep K3]. apply orb_false_iff in Hkeep.
      destruct Hkeep as [K1 K2]. apply negb_false_iff in K1, K2. apply is_nil_true in K1, K2.
      destruct (u_port u); [discriminate K3|]. repeat split; auto. intro X. congruence.
    - assert (Hne : eof = false) by (destruct eof; [discriminate Hterm|reflexivity]).
      rewrite Hne. unfold PostO, MInvWO. cbn [m_eof mk]. unfold MInvO. cbn [m_state m_url m_buf m_ptr m_at mk].
      destruct Hst0 as [-> | ->]; auto.
  Qed.

  Lemma stepO_HostSt : forall m, m_state m = HostSt -> MInvO m -> m_eof m = false -> PostO (stepO m).
  Proof. apply stepO_Host_gen. left. reflexivity. Qed.
  Lemma stepO_HostnameSt : forall m, m_state m = HostnameSt -> MInvO m -> m_eof m = false -> PostO (stepO m).
  Proof. apply stepO_Host_gen. right. reflexivity. Qed.

  Lemma stepO_FileHost : forall m, m_state m = FileHost -> MInvO m -> m_eof m = false -> PostO (stepO m).
  Proof.
    start_stateO. destruct Hm as [Hi [Ho Hf]].
    assert (Hsp : IsSpecialScheme c u = true) by (unfold IsSpecialScheme; rewrite Hf; exact Hfile).
    destruct (I_nocred _ _ Hi) as [C1 [C2 C3]]; [right; right; rewrite Hf; reflexivity|].
    assert (Hnil : forall h : str, h = [] -> u_username u = [] /\ u_password u = [] /\ u_port u = None /\
                   (IsSpecialScheme c u = true -> str_eqb (u_scheme u) s_file = true)).
    { intros h _. repeat split; auto. intros _. rewrite Hf. reflexivity. }
    destruct (eof || (r =? 47) || (r =? 92) || (r =? 63) || (r =? 35)) eqn:Hterm.
    - destruct (is_nil buf) eqn:Hn.
      { cbn [PostO]. apply Inv_set_host; try assumption; [apply host_ok_nil|reflexivity|apply Hnil]. }
      rewrite Hsp. cbn [negb].
      destruct (parseHost idna_raw c u buf false) as [u1 host|u1 e] eqn:EP;
        [|cbn [PostO]; apply (parseHost_err_Inv _ _ _ _ _ Hi EP)].
      destruct (parseHost_ok idna_raw HH3 c u buf false u1 host Hlax Hpre Hpost EP) as [O1 [O2 [O3 O4]]].
      cbn [negb] in O2. cbn [PostO]. rewrite O1.
      apply (Inv_ext c (set_host u (Some (if str_eqb host s_localhost then [] else host)))); [repeat split|].
      apply Inv_set_host; try assumption.
      + rewrite Hsp. destruct (str_eqb host s_localhost); [apply host_ok_nil|exact O2].
      + destruct (str_eqb host s_localhost); [reflexivity|exact O3].
      + apply Hnil.
    - assert (Hne : eof = false) by (destruct eof; [discriminate Hterm|reflexivity]).
      rewrite Hne. finO. auto.
  Qed.

  Theorem stepO_MInv : forall m, MInvO m -> m_eof m = false -> PostO (stepO m).
  Proof.
    intros m Hm He. destruct (m_state m) eqn:Hst;
      try (exfalso; unfold MInvO in Hm; rewrite Hst in Hm; exact Hm).
    - apply stepO_SchemeStart; assumption.
    - apply stepO_Scheme; assumption.
    - apply stepO_HostSt; assumption.
    - apply stepO_HostnameSt; assumption.
    - apply stepO_FileHost; assumption.
    - apply stepO_PortSt; assumption.
    - apply stepO_PathSt; assumption.
    - apply stepO_PathStart; assumption.
    - apply stepO_QuerySt; assumption.
    - apply stepO_FragmentSt; assumption.
  Qed.

  (* whatever the loop returns under an override, the record it leaves behind satisfies the invariant *)
  Theorem runO_Inv : forall fuel m u, MInvO m -> m_eof m = false ->
    after (run idna_raw c inp base (Some ov) fuel m) = Some u -> Inv c u.
  Proof.
    induction fuel as [|f IH]; intros m u Hm He H; [discriminate H|].
    cbn [run] in H. pose proof (stepO_MInv m Hm He) as HP.
    destruct (stepO m) as [m'|u'|u' e|u'|] eqn:ES; cbn [after] in H; try discriminate H.
    - unfold PostO, MInvWO in HP. destruct (m_eof m') eqn:He'.
      + cbn [after] in H. injection H as <-. exact HP.
      + apply (IH m' u HP He' H).
    - injection H as <-. exact HP.
    - injection H as <-. exact HP.
    - injection H as <-. exact HP.
  Qed.

End MachineO.

(* ------------------------------------------------------------------ *)
(* The setters that run the parser                                      *)

Section Setters.
  Variable idna_raw : str -> str * bool.
  Hypothesis HH3 : H3 idna_raw.
  Variable c : cfg.
  Hypothesis Hc : cfg_okm c = true.
  Hypothesis Hnf : c_fail c = false.

  (* BasicParser on an existing record, under a state override *)
  Lemma BP_override_Inv : forall s u0 ov u',
    (forall u1, same_fields u0 u1 -> MInvO c (mk ov (-1)%Z false [] false false false u1)) ->
    after (BasicParser idna_raw c s None (Some u0) (Some ov)) = Some u' -> Inv c u'.
  Proof.
    intros s u0 ov u' Hinit H. unfold BasicParser in H. cbn [option_map] in H.
    match type of H with after (match ?X with (_, _) => _ end) = _ => destruct X as [i changed] end.
    destruct changed.
    - unfold handleError in H. rewrite Hnf in H. cbn [orb] in H.
      eapply (runO_Inv idna_raw HH3 c Hc Hnf); [| |exact H]; [|reflexivity].
      apply Hinit. destruct (c_report c); repeat split.
    - eapply (runO_Inv idna_raw HH3 c Hc Hnf); [| |exact H]; [|reflexivity].
      apply Hinit. repeat split.
  Qed.

  Theorem SetProtocol_Inv : forall u s u', Inv c u -> SetProtocol idna_raw c u s = Some u' -> Inv c u'.
  Proof.
    intros u s u' Hi H. unfold SetProtocol in H. eapply BP_override_Inv; [|exact H].
    intros u1 S. unfold MInvO. cbn [m_state m_url m_buf mk]. split; [apply (Inv_ext c u u1 S Hi)|reflexivity].
  Qed.

  Lemma same_fields_opaque : forall u u1, same_fields u u1 -> u_opaque u1 = u_opaque u.
  Proof. intros u u1 [_ [_ [_ [_ [_ [_ [_ [A _]]]]]]]]. symmetry. exact A. Qed.

  Theorem SetHost_Inv : forall u s u', Inv c u -> SetHost idna_raw c u s = Some u' -> Inv c u'.
  Proof.
    intros u s u' Hi H. unfold SetHost in H. destruct (u_opaque u) eqn:Ho; [injection H as <-; exact Hi|].
    eapply BP_override_Inv; [|exact H].
    intros u1 S. unfold MInvO. cbn [m_state m_url m_buf mk]. split; [apply (Inv_ext c u u1 S Hi)|].
    rewrite (same_fields_opaque u u1 S). exact Ho.
  Qed.

  Theorem SetHostname_Inv : forall u s u', Inv c u -> SetHostname idna_raw c u s = Some u' -> Inv c u'.
  Proof.
    intros u s u' Hi H. unfold SetHostname in H. destruct (u_opaque u) eqn:Ho; [injection H as <-; exact Hi|].
    eapply BP_override_Inv; [|exact H].
    intros u1 S. unfold MInvO. cbn [m_state m_url m_buf mk]. split; [apply (Inv_ext c u u1 S Hi)|].
    rewrite (same_fields_opaque u u1 S). exact Ho.
  Qed.

  Theorem SetPort_Inv : forall u s u', Inv c u -> SetPort idna_raw c u s = Some u' -> Inv c u'.
  Proof.
    intros u s u' Hi H. destruct s as [|x s]; [apply (SetPort_empty_Inv idna_raw c u u' Hi H)|].
    unfold SetPort in H. destruct (no_host_or_file u) eqn:Hn; [injection H as <-; exact Hi|].
    destruct (no_host_or_file_false u Hn) as [[y [h Hh]] Hf].
    eapply BP_override_Inv; [|exact H].
    intros u1 S. unfold MInvO. cbn [m_state m_url m_buf mk]. split; [apply (Inv_ext c u u1 S Hi)|].
    destruct S as [A1 [_ [_ [A4 _]]]]. rewrite <- A1, <- A4. split; [exists y, h; exact Hh|]. auto.
  Qed.

  Theorem SetPathname_Inv : forall u s u', Inv c u -> SetPathname idna_raw c u s = Some u' -> Inv c u'.
  Proof.
    intros u s u' Hi H. unfold SetPathname in H. destruct (u_opaque u) eqn:Ho; [injection H as <-; exact Hi|].
    eapply BP_override_Inv; [|exact H].
    intros u1 S. unfold MInvO. cbn [m_state m_url m_buf mk].
    split; [|split; [reflexivity|destruct S as [_ [_ [_ [_ [_ [_ [A7 _]]]]]]]; rewrite <- A7; reflexivity]].
    apply (InvP_ext c (set_path u [] false) u1 S). apply InvP_set_path; [|reflexivity].
    apply Inv_InvP; assumption.
  Qed.

  Theorem SetSearch_Inv : forall u s u', Inv c u -> SetSearch idna_raw c u s = Some u' -> Inv c u'.
  Proof.
    intros u s u' Hi H. destruct s as [|x s]; [apply (SetSearch_empty_Inv idna_raw c u u' Hi H)|].
    unfold SetSearch in H.
    set (u0 := match u_query u with None => set_query u (Some []) | Some _ => u end) in H.
    assert (Hi0 : Inv c u0).
    { unfold u0. destruct (u_query u); [exact Hi|]. apply Inv_set_query_some; [exact Hi|reflexivity]. }
    destruct (after (BasicParser idna_raw c (trim_prefix1 63 (x :: s)) None (Some u0) (Some QuerySt))) as [u2|] eqn:E;
      [|discriminate H].
    assert (Hi2 : Inv c u2).
    { eapply BP_override_Inv; [|exact E]. intros u1 S. unfold MInvO. cbn [m_state m_url m_buf mk].
      split; [apply (Inv_ext c u0 u1 S Hi0)|reflexivity]. }
    destruct (u_query u2); [|discriminate H]. injection H as <-. apply Inv_set_sp. exact Hi2.
  Qed.

  Theorem SetHash_Inv : forall u s u', Inv c u -> SetHash idna_raw c u s = Some u' -> Inv c u'.
  Proof.
    intros u s u' Hi H. destruct s as [|x s]; [apply (SetHash_empty_Inv idna_raw c u u' Hi H)|].
    unfold SetHash in H. eapply BP_override_Inv; [|exact H].
    intros u1 S. unfold MInvO. cbn [m_state m_url m_buf mk]. split; [|reflexivity].
    apply (Inv_ext c (set_fragment u (Some [])) u1 S). apply Inv_set_fragment_some; [exact Hi|reflexivity].
  Qed.

  (* every setter of the API *)
  Theorem setter_Inv : forall w u v u', Inv c u -> setter idna_raw c w u v = Some u' -> Inv c u'.
  Proof.
    intros w u v u' Hi H. unfold setter in H.
    destruct w as [|w]; [apply (SetProtocol_Inv u v u' Hi H)|].
    do 3 (destruct w as [w|w|]; try (first
      [ apply (SetHash_Inv u v u' Hi H) | apply (SetUsername_Inv c u v u' Hi H) | apply (SetPassword_Inv c u v u' Hi H)
      | apply (SetHost_Inv u v u' Hi H) | apply (SetHostname_Inv u v u' Hi H) | apply (SetPort_Inv u v u' Hi H)
      | apply (SetPathname_Inv u v u' Hi H) | apply (SetSearch_Inv u v u' Hi H) ])).
  Qed.

  (* and the observable predicates after any setter *)
  Theorem setter_obs : forall w u v u', Inv c u -> setter idna_raw c w u v = Some u' ->
    inv_obs c (obs_url c u') = [] /\ acc_obs c (obs_url c u') = [].
  Proof.
    intros w u v u' Hi H. pose proof (setter_Inv w u v u' Hi H) as Hi'.
    pose proof (cfg_okm_ok c Hc) as Hok.
    split; [apply Inv_inv_obs|apply Inv_acc_obs]; assumption.
  Qed.
End Setters.
Print Assumptions setter_Inv.
Print Assumptions setter_obs.

(* The condition c_fail c = false is needed: with fail-on-validation-error a non-fatal validation error
   aborts the path state after SetPathname has emptied the path, and the record is kept. *)
Theorem setter_Inv_c_fail_needed :
  exists c u v u', cfg_okm c = true /\ Inv c u /\ SetPathname idna_toy c u v = Some u' /\
                   inv_obs c (obs_url c u') = [3] /\ ~ Inv c u'.
Proof.
  exists opt_WithFailOnValidationError.
  exists (set_path (set_host (set_scheme (empty_url []) s_file) (Some [])) [[120]] false).   (* file:///x *)
  exists [32]. eexists.
  split; [vm_compute; reflexivity|]. split; [apply inv_b_sound; vm_compute; reflexivity|].
  split; [vm_compute; reflexivity|]. split; [vm_compute; reflexivity|].
  intro H. apply inv_b_iff in H. vm_compute in H. discriminate H.
Qed.
Print Assumptions setter_Inv_c_fail_needed.

(* ------------------------------------------------------------------ *)
(* Operation histories (Obs.hstep): both slots keep the invariant        *)

Definition hinv (c : cfg) (s : hstate) : Prop := forall slot u, get s slot = Some u -> Inv c u.

Definition sp_mutation (o : op) : bool :=
  match o with
  | OSpAppend _ _ _ | OSpDelete _ _ | OSpSet _ _ _ | OSpSort _ | OSpSortAbs _ | OSpAdopt _ | OSpIterate _ _ => true
  | _ => false
  end.

Lemma hinv_put : forall c s slot o, hinv c s -> (forall u, o = Some u -> Inv c u) -> hinv c (put s slot o).
Proof.
  intros c [a b] slot o H Ho slot' u E. unfold put, get in *. cbn [fst snd] in *.
  destruct slot, slot'; cbn [fst snd] in E.
  - apply Ho. exact E.
  - apply (H false u E).
  - apply (H true u E).
  - apply Ho. exact E.
Qed.

Lemma ensure_sp_Inv : forall c u, Inv c u -> Inv c (fst (ensure_sp c u)).
Proof.
  intros c u H. unfold ensure_sp. destruct (u_sp u); cbn [fst]; [exact H|apply Inv_set_sp; exact H].
Qed.

Lemma ensure_sp_special : forall c u, IsSpecialScheme c (fst (ensure_sp c u)) = IsSpecialScheme c u.
Proof. intros c u. unfold ensure_sp. destruct (u_sp u); reflexivity. Qed.

Section Histories.
  Variable idna_raw : str -> str * bool.
  Hypothesis HH3 : H3 idna_raw.
  Variable c : cfg.
  Hypothesis Hc : cfg_okm c = true.
  Hypothesis Hnf : c_fail c = false.

  Lemma with_sp_Inv : forall s slot f, hinv c s -> sp_chars_ok (c_querySet c) = true ->
    (forall u, get s slot = Some u -> IsSpecialScheme c u = false) -> hinv c (with_sp c s slot f).
  Proof.
    intros s slot f H Hq Hns. unfold with_sp. destruct (get s slot) as [u|] eqn:E; [|exact H].
    pose proof (ensure_sp_Inv c u (H slot u E)) as Hi. pose proof (ensure_sp_special c u) as Hs.
    destruct (ensure_sp c u) as [u1 l]. cbn [fst] in Hi, Hs.
    apply hinv_put; [exact H|]. intros u2 E2. injection E2 as <-.
    apply sp_update_Inv; [exact Hq| |exact Hi]. rewrite Hs. apply Hns. reflexivity.
  Qed.

  Theorem hstep_Inv : forall s o, hinv c s ->
    (sp_mutation o = true -> sp_chars_ok (c_querySet c) = true /\
                             forall slot u, get s slot = Some u -> IsSpecialScheme c u = false) ->
    hinv c (fst (hstep idna_raw c s o)).
  Proof.
    intros s o H Hsp. destruct o as [slot w v|slot ref|ref|from|slot n v|slot n|slot n v|slot|slot|slot n|slot|slot|slot md];
      cbn [hstep sp_mutation] in *.
    - destruct (get s slot) as [u|] eqn:E; [|exact H].
      destruct (setter idna_raw c w u v) as [u'|] eqn:ES; cbn [fst].
      + apply hinv_put; [exact H|]. intros u2 E2. injection E2 as <-.
        apply (setter_Inv idna_raw HH3 c Hc Hnf w u v u' (H slot u E) ES).
      + apply hinv_put; [exact H|]. intros u2 E2. discriminate E2.
    - destruct (get s slot) as [u|] eqn:E; [|exact H].
      destruct (UrlParse idna_raw c u ref) as [u'|e| | |] eqn:EP; cbn [fst]; try exact H;
        try (apply hinv_put; [exact H|]; intros u2 E2; discriminate E2).
      apply hinv_put; [exact H|]. intros u2 E2. injection E2 as <-.
      apply (UrlParse_Inv idna_raw HH3 c Hc u ref u' (H slot u E) EP).
    - destruct (fst s) as [u|] eqn:E; [|exact H].
      destruct (UrlParse idna_raw c u ref) as [u'|e| | |] eqn:EP; cbn [fst]; try exact H;
        try (apply hinv_put; [exact H|]; intros u2 E2; discriminate E2).
      apply hinv_put; [exact H|]. intros u2 E2. injection E2 as <-.
      apply (UrlParse_Inv idna_raw HH3 c Hc u ref u'); [apply (H false u E)|exact EP].
    - destruct (get s from) as [u|] eqn:E; [|exact H]. cbn [fst].
      apply hinv_put; [exact H|]. intros u2 E2. injection E2 as <-. apply Clone_Inv. apply (H from u E).
    - destruct (Hsp eq_refl) as [Hq Hns]. apply with_sp_Inv; [exact H|exact Hq|apply Hns].
    - destruct (Hsp eq_refl) as [Hq Hns]. apply with_sp_Inv; [exact H|exact Hq|apply Hns].
    - destruct (Hsp eq_refl) as [Hq Hns]. apply with_sp_Inv; [exact H|exact Hq|apply Hns].
    - destruct (Hsp eq_refl) as [Hq Hns]. apply with_sp_Inv; [exact H|exact Hq|apply Hns].
    - destruct (Hsp eq_refl) as [Hq Hns]. apply with_sp_Inv; [exact H|exact Hq|apply Hns].
    - destruct (get s slot) as [u|] eqn:E; [|exact H].
      pose proof (ensure_sp_Inv c u (H slot u E)) as Hi. destruct (ensure_sp c u) as [u1 l]. cbn [fst] in *.
      apply hinv_put; [exact H|]. intros u2 E2. injection E2 as <-. exact Hi.
    - destruct (get s slot) as [u|] eqn:E; [|exact H]. cbn [fst].
      apply hinv_put; [exact H|]. intros u2 E2. injection E2 as <-. apply ensure_sp_Inv. apply (H slot u E).
    - destruct (Hsp eq_refl) as [Hq Hns].
      destruct (get s slot) as [u|] eqn:E; [|exact H].
      destruct (get s (negb slot)) as [v|] eqn:Ev; [|exact H].
      pose proof (ensure_sp_Inv c v (H (negb slot) v Ev)) as Hv. destruct (ensure_sp c v) as [v1 l]. cbn [fst] in *.
      apply hinv_put.
      + apply hinv_put; [exact H|]. intros u2 E2. injection E2 as <-. exact Hv.
      + intros u2 E2. injection E2 as <-.
        apply sp_update_Inv; [exact Hq| |apply ensure_sp_Inv; apply (H slot u E)].
        rewrite ensure_sp_special. apply (Hns slot u E).
    - destruct (Hsp eq_refl) as [Hq Hns]. apply with_sp_Inv; [exact H|exact Hq|apply Hns].
  Qed.
End Histories.
Print Assumptions hstep_Inv.

(* every observation made along a history of parses, setters, resolutions, clones and read-only
   SearchParams operations satisfies C04 and C19 *)
Definition slot_ok (c : cfg) (l : list str) : Prop :=
  l = [[45]] \/ (inv_obs c l = [] /\ acc_obs c l = []).

Section HistoryObs.
  Variable idna_raw : str -> str * bool.
  Hypothesis HH3 : H3 idna_raw.
  Variable c : cfg.
  Hypothesis Hc : cfg_okm c = true.
  Hypothesis Hnf : c_fail c = false.

  Lemma obs_slot_ok : forall o, (forall u, o = Some u -> Inv c u) -> slot_ok c (obs_slot c o).
  Proof.
    intros [u|] H; [|left; reflexivity]. right. pose proof (cfg_okm_ok c Hc) as Hok.
    split; [apply Inv_inv_obs|apply Inv_acc_obs]; try assumption; apply H; reflexivity.
  Qed.

  Theorem hrun_ok : forall ops s, hinv c s -> forallb (fun o => negb (sp_mutation o)) ops = true ->
    Forall (fun x => slot_ok c (snd (fst x)) /\ slot_ok c (snd x)) (hrun idna_raw c s ops).
  Proof.
    induction ops as [|o ops IH]; intros s H Hops; [constructor|].
    cbn [forallb] in Hops. apply andb_true_iff in Hops. destruct Hops as [Ho Hops]. apply negb_true_iff in Ho.
    cbn [hrun]. pose proof (hstep_Inv idna_raw HH3 c Hc Hnf s o H) as Hs.
    destruct (hstep idna_raw c s o) as [s' extra]. cbn [fst] in Hs.
    assert (Hs' : hinv c s') by (apply Hs; intro E; rewrite Ho in E; discriminate E).
    constructor; [|apply IH; assumption]. cbn [fst snd]. split; apply obs_slot_ok.
    - intros u E. apply (Hs' false u E).
    - intros u E. apply (Hs' true u E).
  Qed.

  Theorem history_ok : forall b input ops, forallb (fun o => negb (sp_mutation o)) ops = true ->
    (match fst (history idna_raw c b input ops) with OUrl l => slot_ok c l | _ => True end) /\
    Forall (fun x => slot_ok c (snd (fst x)) /\ slot_ok c (snd x)) (snd (history idna_raw c b input ops)).
  Proof.
    intros b input ops Hops. unfold history.
    set (r := match b with Some b0 => ParseRef idna_raw c b0 input | None => Parse idna_raw c input end).
    assert (Hr : forall u, r = PUrl u -> Inv c u).
    { intros u E. unfold r in E. destruct b as [b0|];
        [apply (ParseRef_Inv idna_raw HH3 c Hc b0 input u E)|apply (Parse_Inv idna_raw HH3 c Hc input u E)]. }
    cbn [fst snd]. destruct r as [u| e | | |] eqn:Er; cbn [obs_pres]; try (split; [exact I|constructor]).
    split.
    - right. pose proof (cfg_okm_ok c Hc) as Hok.
      split; [apply Inv_inv_obs|apply Inv_acc_obs]; try assumption; apply Hr; reflexivity.
    - apply hrun_ok; [|exact Hops]. intros slot u' E. destruct slot; cbn [get fst snd] in E; [discriminate E|].
      injection E as <-. apply Hr. reflexivity.
  Qed.
End HistoryObs.
Print Assumptions history_ok.

(* the premises hold: default configuration, toy oracle, a history of setters on a parsed URL *)
Example history_example :
  cfg_okm default_cfg = true /\ c_fail default_cfg = false /\ H3 idna_toy /\
  exists u1 u2 u3,
    Parse idna_toy default_cfg ex_input = PUrl u1 /\
    SetHost idna_toy default_cfg u1 [91;58;58;49;93;58;52;52;51] = Some u2 /\      (* "[::1]:443" *)
    SetPathname idna_toy default_cfg u2 [47;46;46;47;47;120;32;121] = Some u3 /\    (* "/..//x y" *)
    Inv default_cfg u3.
Proof.
  split; [vm_compute; reflexivity|]. split; [reflexivity|]. split; [exact H3_toy|].
  eexists. eexists. eexists. split; [vm_compute; reflexivity|]. split; [vm_compute; reflexivity|].
  split; [vm_compute; reflexivity|]. apply inv_b_sound. vm_compute. reflexivity.
Qed.

(* ------------------------------------------------------------------ *)
(* The conditions of [cfg_okm] are needed: configurations violating one of them, an input, and the
   failing clause of [inv_obs] on the parse result (oracle: idna_toy).                              *)

Definition parse_fails_clause (c : cfg) (s : str) (n : N) : Prop :=
  exists u, Parse idna_toy c s = PUrl u /\ inv_obs c (obs_url c u) = [n].

(* skipTrailingSlashNormalization: "http://h" keeps an empty path on a special URL (clause 3) *)
Theorem cfg_okm_trail_needed :
  cfg_okm opt_WithSkipTrailingSlashNormalization = false /\
  parse_fails_clause opt_WithSkipTrailingSlashNormalization [104;116;116;112;58;47;47;104] 3.
Proof. split; [vm_compute; reflexivity|]. eexists. split; vm_compute; reflexivity. Qed.

(* laxHostParsing: "http://a b/" gets the host "a%20b", and '%' is a forbidden domain code point (clause 12) *)
Theorem cfg_okm_lax_needed :
  cfg_okm opt_WithLaxHostParsing = false /\
  parse_fails_clause opt_WithLaxHostParsing [104;116;116;112;58;47;47;97;32;98;47] 12.
Proof. split; [vm_compute; reflexivity|]. eexists. split; vm_compute; reflexivity. Qed.

(* a pre-parse host function (the GoogleSafeBrowsing profile strips dots): "http://.../x" parses to a
   special URL with an EMPTY host, serialized "http:///x" (clause 3); parsing that again gives "http://x/" *)
Theorem cfg_okm_pre_needed :
  cfg_okm (p_cfg prof_GoogleSafeBrowsing) = false /\
  parse_fails_clause (p_cfg prof_GoogleSafeBrowsing) [104;116;116;112;58;47;47;46;46;46;47;120] 3.
Proof. split; [vm_compute; reflexivity|]. eexists. split; vm_compute; reflexivity. Qed.

Theorem gsb_empty_host_not_stable :
  exists u u', Parse idna_toy (p_cfg prof_GoogleSafeBrowsing) [104;116;116;112;58;47;47;46;46;46;47;120] = PUrl u /\
               u_host u = Some [] /\
               Parse idna_toy (p_cfg prof_GoogleSafeBrowsing) (opt2s (Href u false)) = PUrl u' /\
               u_host u' = Some [120].
Proof. eexists. eexists. split; [vm_compute; reflexivity|]. split; [reflexivity|]. split; vm_compute; reflexivity. Qed.

(* an encode set containing a hex digit of its own escapes (the sentinel set contains 'A'):
   "http://h/Az" gets the path "/%41%7A" (clause 9) *)
Theorem cfg_okm_closed_needed :
  cfg_okm opt_WithPathPercentEncodeSet = false /\
  parse_fails_clause opt_WithPathPercentEncodeSet [104;116;116;112;58;47;47;104;47;65;122] 9.
Proof. split; [vm_compute; reflexivity|]. eexists. split; vm_compute; reflexivity. Qed.

(* further premises examples *)
Example parseHost_example :
  parseHost idna_toy default_cfg ex_url [69;88;46;111;114;103] false = Ok ex_url [101;120;46;111;114;103].
Proof. vm_compute. reflexivity. Qed.

Example sp_update_example :
  let u := set_path (set_host (set_scheme (empty_url []) [115;99]) (Some [104])) [[]] false in   (* sc://h/ *)
  Inv default_cfg u /\ IsSpecialScheme default_cfg u = false /\
  Inv default_cfg (sp_update default_cfg u [([97], [39])]).
Proof.
  cbv zeta. split; [apply inv_b_sound; vm_compute; reflexivity|]. split; [reflexivity|].
  apply inv_b_sound. vm_compute. reflexivity.
Qed.
