(* C04 / C19, second half: the record invariant [Inv] of RecordInv.v is established by parsing and
   preserved by the operations of the public API.
     Part A: byte-level facts about the percent-encoder; the simple setters, Clone, sp_update.
     Part B: the shapes of what parseHost returns.
     Part C: a per-state invariant of the parser state machine. *)
From Verif Require Import Lib.Base Lib.Utf8 Lib.GoStr Model.Cfg Gen.Tables Gen.Options Model.Sets Model.Percent
  Model.Url Model.Host Model.Machine Model.Api Model.Canon Model.Obs Model.Preds.
From Verif Require Import Proofs.Utf8Proofs Proofs.RecordInv.
From Coq Require Import Lia ZifyBool ZifyN ZifyNat.

Local Arguments N.mul : simpl never.
Local Arguments N.add : simpl never.
Local Arguments N.sub : simpl never.
Local Arguments N.div : simpl never.
Local Arguments N.modulo : simpl never.
Local Arguments N.ltb : simpl never.
Local Arguments N.leb : simpl never.
Local Arguments N.eqb : simpl never.

(* projections of the field updates compute *)
Ltac fields :=
  cbn [u_input u_scheme u_username u_password u_host u_port u_decodedPort u_path u_opaque u_query u_fragment
       u_verrs u_sp set_input set_scheme set_username set_password set_host set_port set_path set_query
       set_fragment set_verrs set_sp].
Ltac fields_in H :=
  cbn [u_input u_scheme u_username u_password u_host u_port u_decodedPort u_path u_opaque u_query u_fragment
       u_verrs u_sp set_input set_scheme set_username set_password set_host set_port set_path set_query
       set_fragment set_verrs set_sp] in H.

(* ================================================================== *)
(* Part A.1  [Inv] reads ten fields only                                *)
(* ================================================================== *)

Definition same_fields (u u' : url) : Prop :=
  u_scheme u = u_scheme u' /\ u_username u = u_username u' /\ u_password u = u_password u' /\
  u_host u = u_host u' /\ u_port u = u_port u' /\ u_decodedPort u = u_decodedPort u' /\
  u_path u = u_path u' /\ u_opaque u = u_opaque u' /\ u_query u = u_query u' /\ u_fragment u = u_fragment u'.

Lemma same_fields_refl : forall u, same_fields u u.
Proof. intro u. repeat split. Qed.

Lemma same_fields_trans : forall u1 u2 u3, same_fields u1 u2 -> same_fields u2 u3 -> same_fields u1 u3.
Proof.
  intros u1 u2 u3 [A1 [A2 [A3 [A4 [A5 [A6 [A7 [A8 [A9 A10]]]]]]]]] [B1 [B2 [B3 [B4 [B5 [B6 [B7 [B8 [B9 B10]]]]]]]]].
  repeat split; congruence.
Qed.

Lemma inv_b_ext : forall c u u', same_fields u u' -> inv_b c u = inv_b c u'.
Proof.
  intros c u u' [A1 [A2 [A3 [A4 [A5 [A6 [A7 [A8 [A9 A10]]]]]]]]].
  unfold inv_b, qset, fset, IsSpecialScheme. rewrite A1, A2, A3, A4, A5, A6, A7, A8, A9, A10. reflexivity.
Qed.

Lemma Inv_ext : forall c u u', same_fields u u' -> Inv c u -> Inv c u'.
Proof. intros c u u' S H. apply inv_b_iff. rewrite <- (inv_b_ext c u u' S). apply inv_b_iff. exact H. Qed.

Lemma Inv_set_verrs : forall c u v, Inv c u -> Inv c (set_verrs u v).
Proof. intros c u v. apply Inv_ext. repeat split. Qed.
Lemma Inv_set_sp : forall c u v, Inv c u -> Inv c (set_sp u v).
Proof. intros c u v. apply Inv_ext. repeat split. Qed.
Lemma Inv_set_input : forall c u v, Inv c u -> Inv c (set_input u v).
Proof. intros c u v. apply Inv_ext. repeat split. Qed.

Theorem Clone_Inv : forall c u, Inv c u -> Inv c (Clone u).
Proof. intros c u. apply Inv_set_verrs. Qed.
Print Assumptions Clone_Inv.

(* ================================================================== *)
(* Part A.2  what the percent-encoder emits                             *)
(* ================================================================== *)

Definition uhex : list N := [48;49;50;51;52;53;54;55;56;57;65;66;67;68;69;70].

Lemma hex_upper_uhex : forall n, n < 16 -> In (hex_upper n) uhex.
Proof.
  intros n H.
  assert (E : n = 0 \/ n = 1 \/ n = 2 \/ n = 3 \/ n = 4 \/ n = 5 \/ n = 6 \/ n = 7 \/ n = 8 \/ n = 9 \/
              n = 10 \/ n = 11 \/ n = 12 \/ n = 13 \/ n = 14 \/ n = 15) by lia.
  repeat (destruct E as [->|E]; [vm_compute; tauto|]). subst n. vm_compute. tauto.
Qed.

Section EncBytes.
  (* a property of bytes that holds of '%' and of the upper-case hex digits *)
  Variable Q : N -> bool.
  Hypothesis Q37 : Q 37 = true.
  Hypothesis Qhex : forallb Q uhex = true.

  Lemma Q_pct_byte : forall b, b < 256 -> forallb Q (pct_byte b) = true.
  Proof.
    intros b Hb. unfold pct_byte. cbn [forallb]. rewrite Q37.
    pose proof (proj1 (forallb_forall Q uhex) Qhex) as F.
    rewrite (F _ (hex_upper_uhex (b / 16) ltac:(lia))).
    rewrite (F _ (hex_upper_uhex (b mod 16) ltac:(lia))). reflexivity.
  Qed.

  Lemma Q_escapes : forall s, Forall (fun b => b < 256) s -> forallb Q (flat_map pct_byte s) = true.
  Proof.
    induction 1 as [|b s Hb Hs IH]; [reflexivity|].
    cbn [flat_map]. rewrite forallb_app, (Q_pct_byte b Hb), IH. reflexivity.
  Qed.

  Lemma Q_enc_always : forall c r, forallb Q (percentEncodeRune c r None) = true.
  Proof.
    intros c r. unfold percentEncodeRune. destruct (c_latin1 c).
    - apply Q_pct_byte. unfold latin1_enc. destruct (r <? 256) eqn:E; cbn [fst]; lia.
    - apply Q_escapes. apply utf8_enc_bytes.
  Qed.

  Lemma Q_enc_rune : forall c r t, (RuneShouldBeEncoded t r = false -> Q r = true) ->
    forallb Q (percentEncodeRune c r (Some t)) = true.
  Proof.
    intros c r t H. unfold percentEncodeRune. destruct (RuneShouldBeEncoded t r) eqn:E.
    - apply (Q_enc_always c r).
    - assert (r < 128).
      { unfold RuneShouldBeEncoded in E. destruct (bs_test (bits t) r); [rewrite orb_true_r in E; discriminate|]. lia. }
      rewrite utf8_enc_ascii by assumption. cbn [forallb]. rewrite (H eq_refl). reflexivity.
  Qed.

  Lemma pes_set_mono : forall t bs r, RuneShouldBeEncoded (pes_set t bs) r = false -> RuneShouldBeEncoded t r = false.
  Proof.
    intros t bs r. unfold RuneShouldBeEncoded, pes_set, bs_test, mem. cbn [ab bits].
    rewrite existsb_app. destruct (r <? ab t), (126 <? r), (existsb (N.eqb r) (bits t)); try reflexivity;
      rewrite ?orb_true_r; intro H; try discriminate H; reflexivity.
  Qed.

  Lemma Q_enc_invalid : forall c r t, (RuneShouldBeEncoded t r = false -> Q r = true) ->
    forallb Q (percentEncodeInvalidRune c r t) = true.
  Proof.
    intros c r t H. unfold percentEncodeInvalidRune. destruct (c_singlePct c).
    - apply Q_enc_rune. intro E. apply H. apply (pes_set_mono _ _ _ E).
    - apply Q_enc_rune. exact H.
  Qed.

  Lemma Q_pes_loop : forall c t l, (forall r, RuneShouldBeEncoded t r = false -> Q r = true) ->
    forallb Q (pes_loop c t l) = true.
  Proof.
    intros c t l H. induction l as [|r l IH]; [reflexivity|].
    cbn [pes_loop]. rewrite forallb_app, IH, andb_true_r.
    match goal with |- forallb Q (if ?b then _ else _) = true => destruct b end.
    - apply Q_enc_rune. intro E. apply H. apply (pes_set_mono _ _ _ E).
    - apply Q_enc_rune. apply H.
  Qed.
End EncBytes.

(* an encode set that lets '%' and the hex digits of an escape through *)
Definition set_closed (t : peset) : bool :=
  negb (RuneShouldBeEncoded t 37) && forallb (fun b => negb (RuneShouldBeEncoded t b)) uhex.

(* the byte-level form of "no member of the set survives PercentEncodeString" *)
Theorem encode_none_in : forall c t s, set_closed t = true -> none_in t (PercentEncodeString c s t) = true.
Proof.
  intros c t s H. unfold set_closed in H. apply andb_true_iff in H. destruct H as [H1 H2].
  unfold none_in, PercentEncodeString. apply Q_pes_loop; [exact H1|exact H2|].
  intros r E. rewrite E. reflexivity.
Qed.
Print Assumptions encode_none_in.

Lemma enc_rune_none_in : forall c t r, set_closed t = true -> none_in t (percentEncodeRune c r (Some t)) = true.
Proof.
  intros c t r H. unfold set_closed in H. apply andb_true_iff in H. destruct H as [H1 H2].
  unfold none_in. apply Q_enc_rune; [exact H1|exact H2|]. intro E. rewrite E. reflexivity.
Qed.

Lemma enc_invalid_none_in : forall c t r, set_closed t = true -> none_in t (percentEncodeInvalidRune c r t) = true.
Proof.
  intros c t r H. unfold set_closed in H. apply andb_true_iff in H. destruct H as [H1 H2].
  unfold none_in. apply Q_enc_invalid; [exact H1|exact H2|]. intro E. rewrite E. reflexivity.
Qed.

Example userinfo_closed : set_closed pes_UserInfo = true. Proof. vm_compute. reflexivity. Qed.
Example c0_closed : set_closed pes_C0 = true. Proof. vm_compute. reflexivity. Qed.

Lemma none_in_app : forall t a b, none_in t (a ++ b) = none_in t a && none_in t b.
Proof. intros t a b. unfold none_in. apply forallb_app. Qed.

(* ================================================================== *)
(* Part A.3  the simple setters                                         *)
(* ================================================================== *)

Lemma no_host_or_file_false : forall u, no_host_or_file u = false ->
  (exists x h, u_host u = Some (x :: h)) /\ str_eqb (u_scheme u) s_file = false.
Proof.
  intros u H. unfold no_host_or_file in H. apply orb_false_iff in H. destruct H as [H1 H2].
  split; [|exact H2]. destruct (u_host u) as [[|x h]|]; try discriminate H1. exists x, h. reflexivity.
Qed.

Lemma Inv_set_username : forall c u v, Inv c u -> no_host_or_file u = false ->
  none_in pes_UserInfo v = true -> Inv c (set_username u v).
Proof.
  intros c u v [H1 H2 H3 H4 H5 H6 H7 H8 H9 H10 H11 H12] Hn Hv.
  destruct (no_host_or_file_false u Hn) as [[x [h Hh]] Hf].
  constructor; fields; try assumption.
  intros [E|[E|E]]; fields_in E; congruence.
Qed.

Lemma Inv_set_password : forall c u v, Inv c u -> no_host_or_file u = false ->
  none_in pes_UserInfo v = true -> Inv c (set_password u v).
Proof.
  intros c u v [H1 H2 H3 H4 H5 H6 H7 H8 H9 H10 H11 H12] Hn Hv.
  destruct (no_host_or_file_false u Hn) as [[x [h Hh]] Hf].
  constructor; fields; try assumption.
  intros [E|[E|E]]; fields_in E; congruence.
Qed.

Theorem SetUsername_Inv : forall c u s u', Inv c u -> SetUsername c u s = Some u' -> Inv c u'.
Proof.
  intros c u s u' Hi H. unfold SetUsername in H. destruct (no_host_or_file u) eqn:Hn.
  - injection H as <-. exact Hi.
  - injection H as <-. apply Inv_set_username; [exact Hi|exact Hn|].
    apply encode_none_in. exact userinfo_closed.
Qed.
Print Assumptions SetUsername_Inv.

Theorem SetPassword_Inv : forall c u s u', Inv c u -> SetPassword c u s = Some u' -> Inv c u'.
Proof.
  intros c u s u' Hi H. unfold SetPassword in H. destruct (no_host_or_file u) eqn:Hn.
  - injection H as <-. exact Hi.
  - injection H as <-. apply Inv_set_password; [exact Hi|exact Hn|].
    apply encode_none_in. exact userinfo_closed.
Qed.
Print Assumptions SetPassword_Inv.

Lemma Inv_set_port_none : forall c u d, Inv c u -> Inv c (set_port u None d).
Proof.
  intros c u d [H1 H2 H3 H4 H5 H6 H7 H8 H9 H10 H11 H12].
  constructor; fields; try assumption.
  - intro E. destruct (H5 E) as [A [B _]]. auto.
  - intros p E. discriminate E.
Qed.

Theorem SetPort_empty_Inv : forall idna_raw c u u', Inv c u -> SetPort idna_raw c u [] = Some u' -> Inv c u'.
Proof.
  intros idna_raw c u u' Hi H. unfold SetPort in H. destruct (no_host_or_file u).
  - injection H as <-. exact Hi.
  - injection H as <-. apply Inv_set_port_none. exact Hi.
Qed.
Print Assumptions SetPort_empty_Inv.

Lemma Inv_set_query_none : forall c u, Inv c u -> Inv c (set_query u None).
Proof.
  intros c u [H1 H2 H3 H4 H5 H6 H7 H8 H9 H10 H11 H12].
  constructor; fields; try assumption. intros q E. discriminate E.
Qed.

Lemma Inv_set_fragment_none : forall c u, Inv c u -> Inv c (set_fragment u None).
Proof.
  intros c u [H1 H2 H3 H4 H5 H6 H7 H8 H9 H10 H11 H12].
  constructor; fields; try assumption. intros q E. discriminate E.
Qed.

(* strings.TrimRight: the result is a prefix of the argument *)
Lemma trim_left_suffix : forall cut s, exists t, s = t ++ trim_left cut s.
Proof.
  intros cut s. induction s as [|x s [t IH]]; [exists []; reflexivity|].
  cbn [trim_left]. destruct (mem x cut).
  - exists (x :: t). cbn [app]. f_equal. exact IH.
  - exists []. reflexivity.
Qed.

Lemma trim_right_prefix : forall cut s, exists t, s = trim_right cut s ++ t.
Proof.
  intros cut s. unfold trim_right. destruct (trim_left_suffix cut (rev s)) as [t E].
  exists (rev t). rewrite <- rev_app_distr, <- E, rev_involutive. reflexivity.
Qed.

Lemma Inv_strip_opaque : forall c u u', Inv c u -> strip_opaque u = Some u' -> Inv c u'.
Proof.
  intros c u u' Hi H. unfold strip_opaque in H. destruct (u_opaque u) eqn:Ho; [|injection H as <-; exact Hi].
  destruct Hi as [H1 H2 H3 H4 H5 H6 H7 H8 H9 H10 H11 H12].
  destruct (H2 Ho) as [Hh [s [Hp [P1 P2]]]]. rewrite Hp in H. injection H as <-.
  destruct (trim_right_prefix [32] s) as [t Et].
  constructor; fields; try assumption.
  - intros _. split; [exact Hh|]. exists (trim_right [32] s). split; [reflexivity|]. split.
    + destruct (trim_right [32] s) as [|a r] eqn:Er; [reflexivity|].
      rewrite Et in P1. cbn [app has_prefix] in P1 |- *. exact P1.
    + rewrite Et, none_in_app in P2. apply andb_true_iff in P2. apply P2.
  - intro E. discriminate E.
  - intro Hs. destruct (H4 Hs) as [E _]. congruence.
  - intros _ E. discriminate E.
Qed.

Theorem SetSearch_empty_Inv : forall idna_raw c u u', Inv c u -> SetSearch idna_raw c u [] = Some u' -> Inv c u'.
Proof.
  intros idna_raw c u u' Hi H. unfold SetSearch in H.
  assert (Hi' : Inv c (match u_sp (set_query u None) with
                       | Some _ => set_sp (set_query u None) (Some [])
                       | None => set_query u None end)).
  { destruct (u_sp (set_query u None)); [apply Inv_set_sp|]; apply Inv_set_query_none; exact Hi. }
  destruct (negb (is_some (u_fragment _))) in H.
  - apply (Inv_strip_opaque c _ u' Hi' H).
  - injection H as <-. exact Hi'.
Qed.
Print Assumptions SetSearch_empty_Inv.

Theorem SetHash_empty_Inv : forall idna_raw c u u', Inv c u -> SetHash idna_raw c u [] = Some u' -> Inv c u'.
Proof.
  intros idna_raw c u u' Hi H. unfold SetHash in H.
  pose proof (Inv_set_fragment_none c u Hi) as Hi'.
  destruct (negb (is_some (u_query _))) in H.
  - apply (Inv_strip_opaque c _ u' Hi' H).
  - injection H as <-. exact Hi'.
Qed.
Print Assumptions SetHash_empty_Inv.

(* ================================================================== *)
(* Part A.4  SearchParams.update                                        *)
(* ================================================================== *)

(* the bytes SearchParams.String adds on its own: '+', '&', '=' *)
Definition sp_chars_ok (t : peset) : bool :=
  set_closed t && negb (RuneShouldBeEncoded t 43) && negb (RuneShouldBeEncoded t 38) && negb (RuneShouldBeEncoded t 61).

Lemma forallb_join : forall (Q : N -> bool) sep l,
  forallb Q sep = true -> forallb (fun s => forallb Q s) l = true -> forallb Q (join sep l) = true.
Proof.
  intros Q sep l Hs. induction l as [|x l IH]; [reflexivity|].
  cbn [forallb]. intro H. apply andb_true_iff in H. destruct H as [H1 H2].
  cbn [join]. destruct l as [|y l]; [exact H1|].
  rewrite !forallb_app, H1, Hs, (IH H2). reflexivity.
Qed.

Lemma forallb_flat_map : forall (A : Type) (Q : N -> bool) (f : A -> str) l,
  (forall x, forallb Q (f x) = true) -> forallb Q (flat_map f l) = true.
Proof.
  intros A Q f l H. induction l as [|x l IH]; [reflexivity|].
  cbn [flat_map]. rewrite forallb_app, H, IH. reflexivity.
Qed.

Lemma sp_string_none_in : forall c l, sp_chars_ok (c_querySet c) = true -> none_in (c_querySet c) (sp_string c l) = true.
Proof.
  intros c l H. unfold sp_chars_ok in H.
  apply andb_true_iff in H; destruct H as [H H61].
  apply andb_true_iff in H; destruct H as [H H38].
  apply andb_true_iff in H; destruct H as [H H43].
  unfold set_closed in H. apply andb_true_iff in H; destruct H as [H37 Hhex].
  assert (QE : forall s, none_in (c_querySet c) (QueryEscape c s) = true).
  { intro s. unfold none_in, QueryEscape. apply forallb_flat_map. intro b.
    destruct (b =? 32); [cbn [forallb]; rewrite H43; reflexivity|].
    destruct ((b =? 38) || (b =? 61) || (b =? 43)).
    - apply Q_enc_always; assumption.
    - apply Q_enc_rune; try assumption. intro E. rewrite E. reflexivity. }
  unfold none_in, sp_string. apply forallb_join; [cbn [forallb]; rewrite H38; reflexivity|].
  induction l as [|[n v] l IH]; [reflexivity|].
  cbn [map forallb]. rewrite IH, andb_true_r. rewrite !forallb_app.
  fold (none_in (c_querySet c) (QueryEscape c n)). rewrite QE.
  replace (forallb _ (if negb (c_skipEq c) || negb (is_nil v) then [61] else [])) with true
    by (destruct (negb (c_skipEq c) || negb (is_nil v)); cbn [forallb]; rewrite ?H61; reflexivity).
  destruct (negb (is_nil v)); [|reflexivity].
  fold (none_in (c_querySet c) (QueryEscape c v)). rewrite QE. reflexivity.
Qed.

Lemma Inv_set_query_some : forall c u q, Inv c u -> none_in (qset c u) q = true -> Inv c (set_query u (Some q)).
Proof.
  intros c u q [H1 H2 H3 H4 H5 H6 H7 H8 H9 H10 H11 H12] Hq.
  constructor; fields; try assumption. intros q' E. injection E as <-. exact Hq.
Qed.

(* the written-through query of a NON-special URL is free of the query set *)
Theorem sp_update_Inv : forall c u l, sp_chars_ok (c_querySet c) = true ->
  IsSpecialScheme c u = false -> Inv c u -> Inv c (sp_update c u l).
Proof.
  intros c u l Hc Hs Hi. unfold sp_update.
  match goal with |- Inv c (if ?b then _ else _) => destruct b end.
  - apply Inv_set_query_some; [apply Inv_set_sp; exact Hi|].
    unfold qset, IsSpecialScheme in *. fields. rewrite Hs. apply sp_string_none_in. exact Hc.
  - apply Inv_set_sp. exact Hi.
Qed.
Print Assumptions sp_update_Inv.

Example sp_chars_ok_default : sp_chars_ok (c_querySet default_cfg) = true.
Proof. vm_compute. reflexivity. Qed.

(* For a special URL the statement is FALSE: SearchParams.String escapes with the (non-special) query
   set, so an apostrophe in a name or value reaches the query of a special URL unescaped; the
   serialization then fails clause 10 of [inv_obs] (and parsing it again yields %27). *)
Definition sp_update_Inv_full : Prop :=
  forall c u l, sp_chars_ok (c_querySet c) = true -> Inv c u -> Inv c (sp_update c u l).

Definition sp_witness : url :=
  set_path (set_host (set_scheme (empty_url []) [104;116;116;112]) (Some [104])) [[]] false.   (* http://h/ *)

Theorem sp_update_Inv_refuted :
  exists c u l, sp_chars_ok (c_querySet c) = true /\ Inv c u /\
                inv_obs c (obs_url c (sp_update c u l)) = [10] /\ ~ Inv c (sp_update c u l).
Proof.
  exists default_cfg, sp_witness, [([97], [39])].
  split; [vm_compute; reflexivity|]. split; [apply inv_b_sound; vm_compute; reflexivity|].
  split; [vm_compute; reflexivity|].
  intro H. apply inv_b_iff in H. vm_compute in H. discriminate H.
Qed.
Print Assumptions sp_update_Inv_refuted.

(* ================================================================== *)
(* Part B  the shapes of what parseHost returns                         *)
(* ================================================================== *)

(* u' is u except for the recorded validation errors *)
Definition only_verrs (u u' : url) : Prop := u' = set_verrs u (u_verrs u').

Lemma only_verrs_refl : forall u, only_verrs u u.
Proof. intros []. reflexivity. Qed.

Lemma only_verrs_trans : forall u1 u2 u3, only_verrs u1 u2 -> only_verrs u2 u3 -> only_verrs u1 u3.
Proof. intros u1 u2 u3 H1 H2. unfold only_verrs in *. rewrite H2 at 1. rewrite H1. reflexivity. Qed.

Lemma only_verrs_same : forall u u', only_verrs u u' -> same_fields u u'.
Proof. intros u u' H. rewrite H. repeat split. Qed.

Lemma handleError_only : forall c u t f, only_verrs u (fst (handleError c u t f)).
Proof.
  intros c u t f. unfold handleError. cbn [fst]. destruct (c_report c); [|apply only_verrs_refl].
  unfold only_verrs. destruct u. reflexivity.
Qed.

Lemma herr_ok : forall A c u t f (k : url -> res A) u2 a,
  herr c u t f k = Ok u2 a -> f = false /\ exists u1, only_verrs u u1 /\ k u1 = Ok u2 a.
Proof.
  intros A c u t f k u2 a H. unfold herr in H.
  pose proof (handleError_only c u t f) as Ho.
  destruct (handleError c u t f) as [u1 oe] eqn:E. cbn [fst] in Ho.
  unfold handleError in E. injection E as E1 E2.
  destruct f; [cbn [orb] in E2; subst oe; discriminate H|].
  split; [reflexivity|]. destruct oe; [discriminate H|]. exists u1. split; assumption.
Qed.

Lemma herr_fatal : forall A c u t (k : url -> res A) u2 a, herr c u t true k = Ok u2 a -> False.
Proof. intros A c u t k u2 a H. apply herr_ok in H. destruct H as [H _]. discriminate H. Qed.

Lemma parseIPv4Number_only : forall c u input, only_verrs u (fst (parseIPv4Number c u input)).
Proof.
  intros c u input. unfold parseIPv4Number. destruct input as [|x r]; [|apply only_verrs_refl].
  pose proof (handleError_only c u IPv4EmptyPart true) as H.
  destruct (handleError c u IPv4EmptyPart true) as [u' o]. exact H.
Qed.

Lemma endsInANumber_only : forall c u input, only_verrs u (fst (endsInANumber c u input)).
Proof.
  intros c u input. unfold endsInANumber.
  match goal with |- context [last_opt ?p] => destruct (last_opt p) as [[|x l]|] end; try apply only_verrs_refl.
  destruct (all_in isDigit (x :: l)); [apply only_verrs_refl|].
  pose proof (parseIPv4Number_only c u (x :: l)) as H.
  destruct (parseIPv4Number c u (x :: l)) as [u' [n ve|rg]]; exact H.
Qed.

Lemma ipv4_numbers_ok : forall c parts u acc u' ns,
  ipv4_numbers c u parts acc = Ok u' ns -> only_verrs u u' /\ length ns = (length parts + length acc)%nat.
Proof.
  intros c parts. induction parts as [|p rest IH]; intros u acc u' ns H.
  - cbn [ipv4_numbers] in H. injection H as <- <-. split; [apply only_verrs_refl|]. rewrite rev_length. reflexivity.
  - cbn [ipv4_numbers] in H.
    pose proof (parseIPv4Number_only c u p) as Hp.
    destruct (parseIPv4Number c u p) as [u1 [n ve|rg]]; cbn [fst] in Hp.
    + destruct ve.
      * apply herr_ok in H. destruct H as [_ [u2 [H2 H]]]. apply IH in H. destruct H as [H3 H4].
        split; [eapply only_verrs_trans; [exact Hp|eapply only_verrs_trans; eassumption]|].
        rewrite H4. cbn [length]. lia.
      * apply IH in H. destruct H as [H3 H4]. split; [eapply only_verrs_trans; eassumption|].
        rewrite H4. cbn [length]. lia.
    + exfalso. eapply herr_fatal. exact H.
Qed.

Lemma ipv4_range_warn_ok : forall c ns u k u' h,
  ipv4_range_warn c u ns k = Ok u' h -> exists u1, only_verrs u u1 /\ k u1 = Ok u' h.
Proof.
  intros c ns. induction ns as [|n rest IH]; intros u k u' h H.
  - exists u. split; [apply only_verrs_refl|exact H].
  - cbn [ipv4_range_warn] in H. destruct (255 <? n).
    + apply herr_ok in H. destruct H as [_ [u1 [H1 H]]]. apply IH in H. destruct H as [u2 [H2 H]].
      exists u2. split; [eapply only_verrs_trans; eassumption|exact H].
    + apply IH in H. exact H.
Qed.

Lemma last_opt_none_nil : forall A (l : list A), last_opt l = None -> l = [].
Proof.
  intros A l. induction l as [|x l IH]; [reflexivity|].
  cbn [last_opt]. destruct l as [|y l]; [discriminate|]. intro H. apply IH in H. discriminate H.
Qed.

Lemma split_aux_nonnil : forall sep s cur, split_aux sep s cur <> [].
Proof.
  intros sep s. induction s as [|x s IH]; intro cur; cbn [split_aux]; [discriminate|].
  destruct (x =? sep); [discriminate|apply IH].
Qed.

Definition v4_after_empty (c : cfg) (u : url) (parts : list str) : res str :=
  (if (4 <? len parts)%Z then (fun k => herr c u IPv4TooManyParts true k) else (fun k => k u))
  (fun u =>
    match ipv4_numbers c u parts [] with
    | Er u e => Er u e
    | Ok u numbers =>
        ipv4_range_warn c u numbers (fun u =>
          let init := drop_last numbers in
          if existsb (fun n => 255 <? n) init then herr c u IPv4OutOfRangePart true (fun u => Ok u [])
          else match last_opt numbers with
               | None => Ok u []
               | Some lastn =>
                   if 256 ^ (5 - N.of_nat (length numbers)) <=? lastn
                   then herr c u IPv4OutOfRangePart true (fun u => Ok u [])
                   else Ok u (IPv4String (lastn + ipv4_sum init 0))
               end)
    end).

Lemma parseIPv4_eq : forall c u input,
  parseIPv4 c u input =
  let parts := split 46 input in
  match last_opt parts with
  | Some [] => herr c u IPv4EmptyPart false (fun u =>
                 v4_after_empty c u (if (1 <? len parts)%Z then drop_last parts else parts))
  | _ => v4_after_empty c u parts
  end.
Proof. reflexivity. Qed.

Lemma v4_after_empty_ok : forall c u0 parts u' h, parts <> [] -> v4_after_empty c u0 parts = Ok u' h ->
  only_verrs u0 u' /\ exists a, h = IPv4String a.
Proof.
  intros c u0 parts u' h Hne HA. unfold v4_after_empty in HA.
  assert (exists u1, only_verrs u0 u1 /\
          match ipv4_numbers c u1 parts [] with
          | Er u e => Er u e
          | Ok u numbers =>
              ipv4_range_warn c u numbers (fun u =>
                let init := drop_last numbers in
                if existsb (fun n => 255 <? n) init then herr c u IPv4OutOfRangePart true (fun u => Ok u [])
                else match last_opt numbers with
                     | None => Ok u []
                     | Some lastn =>
                         if 256 ^ (5 - N.of_nat (length numbers)) <=? lastn
                         then herr c u IPv4OutOfRangePart true (fun u => Ok u [])
                         else Ok u (IPv4String (lastn + ipv4_sum init 0))
                     end)
          end = Ok u' h) as [u1 [H1 HB]].
  { destruct (4 <? len parts)%Z.
    - exfalso. eapply herr_fatal. exact HA.
    - exists u0. split; [apply only_verrs_refl|exact HA]. }
  destruct (ipv4_numbers c u1 parts []) as [u2 numbers|u2 e] eqn:EN; [|discriminate HB].
  apply ipv4_numbers_ok in EN. destruct EN as [H2 HL].
  apply ipv4_range_warn_ok in HB. destruct HB as [u3 [H3 HB]]. cbv zeta in HB.
  destruct (existsb (fun n => 255 <? n) (drop_last numbers)); [exfalso; eapply herr_fatal; exact HB|].
  destruct (last_opt numbers) as [lastn|] eqn:EL.
  - destruct (256 ^ (5 - N.of_nat (length numbers)) <=? lastn); [exfalso; eapply herr_fatal; exact HB|].
    injection HB as <- <-. split.
    + eapply only_verrs_trans; [exact H1|]. eapply only_verrs_trans; eassumption.
    + eexists. reflexivity.
  - exfalso. apply last_opt_none_nil in EL. subst numbers. cbn [length] in HL.
    destruct parts; [contradiction|]. cbn [length] in HL. lia.
Qed.

Lemma parseIPv4_ok : forall c u input u' h,
  parseIPv4 c u input = Ok u' h -> only_verrs u u' /\ exists a, h = IPv4String a.
Proof.
  intros c u input u' h H. rewrite parseIPv4_eq in H. cbv zeta in H.
  assert (Hsp : split 46 input <> []) by apply split_aux_nonnil.
  destruct (last_opt (split 46 input)) as [[|x l]|] eqn:EL.
  - apply herr_ok in H. destruct H as [_ [u1 [H1 H]]].
    apply v4_after_empty_ok in H.
    + destruct H as [H2 H3]. split; [eapply only_verrs_trans; eassumption|exact H3].
    + destruct (1 <? len (split 46 input))%Z eqn:E1; [|exact Hsp].
      destruct (split 46 input) as [|a [|b r]]; [contradiction|discriminate E1|].
      unfold drop_last. cbn [removelast]. destruct r; discriminate.
  - apply v4_after_empty_ok in H; assumption.
  - apply v4_after_empty_ok in H; assumption.
Qed.

Lemma parseIPv6_ok : forall c u input u' h,
  parseIPv6 c u input = Ok u' h -> u' = u /\ exists a, h = [91] ++ IPv6String a ++ [93].
Proof.
  intros c u input u' h H. unfold parseIPv6 in H. destruct (ipv6_parse (runes input)) as [a|t].
  - injection H as <- <-. split; [reflexivity|]. exists a. reflexivity.
  - exfalso. eapply herr_fatal. exact H.
Qed.

Lemma opaque_loop_ok : forall c input l u out u' h, c_lax c = false ->
  opaque_loop c u input l out = Ok u' h ->
  only_verrs u u' /\ forallb (fun r => negb (isForbiddenHost r)) l = true /\
  h = out ++ flat_map (fun r => percentEncodeRune c r (Some pes_C0)) l.
Proof.
  intros c input l. induction l as [|ch rest IH]; intros u out u' h Hlax H.
  - cbn [opaque_loop] in H. injection H as <- <-. split; [apply only_verrs_refl|].
    split; [reflexivity|]. cbn [flat_map]. rewrite app_nil_r. reflexivity.
  - cbn [opaque_loop] in H. rewrite Hlax in H.
    destruct (isForbiddenHost ch) eqn:EF; [exfalso; eapply herr_fatal; exact H|].
    cbn [forallb flat_map]. rewrite EF. cbn [negb andb].
    assert (K : exists u1, only_verrs u u1 /\
                opaque_loop c u1 input rest (out ++ percentEncodeRune c ch (Some pes_C0)) = Ok u' h).
    { destruct (negb (isURLCodePoint ch) && negb (ch =? 37)).
      - apply herr_ok in H. destruct H as [_ [u1 [H1 H]]].
        destruct ((ch =? 37) && invalid_pct (ch :: rest)).
        + apply herr_ok in H. destruct H as [_ [u2 [H2 H]]]. exists u2.
          split; [eapply only_verrs_trans; eassumption|exact H].
        + exists u1. split; assumption.
      - destruct ((ch =? 37) && invalid_pct (ch :: rest)).
        + apply herr_ok in H. destruct H as [_ [u2 [H2 H]]]. exists u2. split; assumption.
        + exists u. split; [apply only_verrs_refl|exact H]. }
    destruct K as [u1 [H1 K]]. apply IH in K; [|exact Hlax]. destruct K as [K1 [K2 K3]].
    split; [eapply only_verrs_trans; eassumption|]. split; [exact K2|].
    rewrite K3, <- app_assoc. reflexivity.
Qed.

Section HostShape.
  Variable idna_raw : str -> str * bool.

  (* the two non-empty branches of parseHost, with the test on '[' as a comparison *)
  Definition ph_v6 (c : cfg) (u : url) (input : str) : res str :=
    (if negb (has_suffix [93] input) then (fun k => herr c u IPv6Unclosed true k) else (fun k => k u))
    (fun u => parseIPv6 c u (drop_last (tl input))).

  Definition ph_domain (c : cfg) (u : url) (input : str) : res str :=
    let domain := DecodePercentEncoded c input in
    let k_valid (u : url) : res str :=
      match ToASCII idna_raw c domain with
      | None =>
          if c_lax c then Ok u domain
          else herr c u DomainToASCII true (fun u => Ok u [])
      | Some asciiDomain =>
          let forbidden := existsb isForbiddenDomain (runes asciiDomain) in
          let k_clean (u : url) : res str :=
            match endsInANumber c u asciiDomain with
            | (u, true) => parseIPv4 c u asciiDomain
            | (u, false) => Ok u (apply_hostfun (c_post c) asciiDomain)
            end in
          if forbidden then
            if c_lax c then Ok u (PercentEncodeString c asciiDomain pes_Host)
            else herr c u DomainInvalidCodePoint true k_clean
          else k_clean u
      end in
    if negb (valid_utf8 domain) then
      if c_lax c then Ok u (percentEncodeBytes input pes_Host)
      else herr c u DomainToASCII true k_valid
    else k_valid u.

  Lemma parseHost_eq : forall c u input0 ns,
    parseHost idna_raw c u input0 ns =
    match apply_hostfun (c_pre c) input0 with
    | [] => Ok u []
    | x :: r => if x =? 91 then ph_v6 c u (x :: r)
                else if ns then parseOpaqueHost c u (x :: r) else ph_domain c u (x :: r)
    end.
  Proof.
    intros c u input0 ns. unfold parseHost.
    destruct (apply_hostfun (c_pre c) input0) as [|x r]; [reflexivity|].
    destruct (N.eqb_spec x 91) as [->|Hx]; [reflexivity|].
    destruct x as [|p]; [reflexivity|].
    do 7 (destruct p as [p|p|]; try reflexivity). contradiction Hx. reflexivity.
  Qed.

  Inductive host_shape (c : cfg) (input : str) (ns : bool) (h : str) : Prop :=
  | HS_empty : input = [] -> h = [] -> host_shape c input ns h
  | HS_v6 : forall a, h = [91] ++ IPv6String a ++ [93] -> host_shape c input ns h
  | HS_opaque : ns = true -> forallb (fun r => negb (isForbiddenHost r)) (runes input) = true ->
                h = flat_map (fun r => percentEncodeRune c r (Some pes_C0)) (runes input) -> host_shape c input ns h
  | HS_v4 : forall a, ns = false -> h = IPv4String a -> host_shape c input ns h
  | HS_domain : forall d a e, ns = false -> d <> [] -> idna_raw d = (a, e) -> (e = false -> a <> []) ->
                (e = true -> containsOnlyASCIIOrMiscAndNoPunycode d = true) ->
                existsb isForbiddenDomain (runes a) = false ->
                h = apply_hostfun (c_post c) a -> host_shape c input ns h.

  Lemma Decode_nonnil : forall c s, s <> [] -> DecodePercentEncoded c s <> [].
  Proof.
    intros c [|b s] H; [contradiction|]. cbn [DecodePercentEncoded].
    destruct (b =? 37); [|discriminate]. destruct s as [|h [|l s]]; try discriminate.
    destruct (isHexDigit h && isHexDigit l); [|discriminate].
    destruct (c_latin1 c); [|discriminate].
    pose proof (utf8_enc_nonempty (hex_val h * 16 + hex_val l)) as N.
    destruct (utf8_enc (hex_val h * 16 + hex_val l)); [contradiction|discriminate].
  Qed.

  Lemma runes_nonnil : forall s, s <> [] -> runes s <> [].
  Proof.
    intros [|b0 rest] H; [contradiction|]. unfold runes, decode. cbn [length decode_fuel].
    destruct (dec1 b0 rest). discriminate.
  Qed.

  Lemma ToASCII_some : forall c src a, c_lax c = false -> src <> [] -> ToASCII idna_raw c src = Some a ->
    exists d e, d <> [] /\ idna_raw d = (a, e) /\ (e = false -> a <> []) /\
                (e = true -> containsOnlyASCIIOrMiscAndNoPunycode d = true).
  Proof.
    intros c src a Hlax Hne H. unfold ToASCII in H. destruct src as [|x s]; [contradiction|].
    set (src' := if c_latin1 c then _ else _) in H.
    assert (Hs' : src' <> []).
    { unfold src'. destruct (c_latin1 c); [|discriminate].
      unfold stringToUnicode. destruct (forallb _ _); [|discriminate]. apply runes_nonnil. discriminate. }
    destruct (idna_raw src') as [a' err] eqn:E.
    destruct err.
    - destruct (containsOnlyASCIIOrMiscAndNoPunycode src') eqn:EC.
      + cbn [andb] in H. injection H as <-. exists src', true. repeat split; auto. discriminate.
      + cbn [andb] in H. rewrite Hlax in H. discriminate H.
    - cbn [andb] in H. destruct (is_nil a') eqn:En; [discriminate H|]. injection H as <-.
      exists src', false. repeat split; auto; try discriminate. intros _. apply is_nil_false. exact En.
  Qed.

  Theorem parseHost_shape : forall c u input ns u' h, c_lax c = false ->
    parseHost idna_raw c u input ns = Ok u' h ->
    only_verrs u u' /\ host_shape c (apply_hostfun (c_pre c) input) ns h.
  Proof.
    intros c u input0 ns u' h Hlax H. rewrite parseHost_eq in H.
    destruct (apply_hostfun (c_pre c) input0) as [|x r] eqn:EI.
    - injection H as <- <-. split; [apply only_verrs_refl|]. apply HS_empty; reflexivity.
    - destruct (x =? 91).
      + unfold ph_v6 in H. destruct (negb (has_suffix [93] (x :: r))); [exfalso; eapply herr_fatal; exact H|].
        apply parseIPv6_ok in H. destruct H as [-> [a Ha]]. split; [apply only_verrs_refl|].
        eapply HS_v6. exact Ha.
      + destruct ns.
        * unfold parseOpaqueHost in H. apply opaque_loop_ok in H; [|exact Hlax].
          destruct H as [H1 [H2 H3]]. split; [exact H1|]. apply HS_opaque; [reflexivity|exact H2|exact H3].
        * unfold ph_domain in H. rewrite Hlax in H. cbv zeta in H.
          set (domain := DecodePercentEncoded c (x :: r)) in H.
          assert (Hd : domain <> []) by (apply Decode_nonnil; discriminate).
          assert (K : exists u1, only_verrs u u1 /\
            match ToASCII idna_raw c domain with
            | None => herr c u1 DomainToASCII true (fun u => Ok u [])
            | Some asciiDomain =>
                if existsb isForbiddenDomain (runes asciiDomain)
                then herr c u1 DomainInvalidCodePoint true (fun u =>
                       match endsInANumber c u asciiDomain with
                       | (u, true) => parseIPv4 c u asciiDomain
                       | (u, false) => Ok u (apply_hostfun (c_post c) asciiDomain)
                       end)
                else match endsInANumber c u1 asciiDomain with
                     | (u, true) => parseIPv4 c u asciiDomain
                     | (u, false) => Ok u (apply_hostfun (c_post c) asciiDomain)
                     end
            end = Ok u' h).
          { destruct (negb (valid_utf8 domain)); [exfalso; eapply herr_fatal; exact H|].
            exists u. split; [apply only_verrs_refl|exact H]. }
          clear H. destruct K as [u1 [H1 K]].
          destruct (ToASCII idna_raw c domain) as [a|] eqn:ET; [|exfalso; eapply herr_fatal; exact K].
          destruct (existsb isForbiddenDomain (runes a)) eqn:EF; [exfalso; eapply herr_fatal; exact K|].
          pose proof (endsInANumber_only c u1 a) as H2.
          destruct (endsInANumber c u1 a) as [u2 b]. cbn [fst] in H2. destruct b.
          -- apply parseIPv4_ok in K. destruct K as [H3 [a4 Ha]].
             split; [eapply only_verrs_trans; [exact H1|eapply only_verrs_trans; eassumption]|].
             eapply HS_v4; [reflexivity|exact Ha].
          -- injection K as <- <-. split; [eapply only_verrs_trans; eassumption|].
             destruct (ToASCII_some c domain a Hlax Hd ET) as [d [e [E0 [E1 [E2 E3]]]]].
             eapply HS_domain; try eassumption; reflexivity.
  Qed.
End HostShape.
Print Assumptions parseHost_shape.

(* ------------------------------------------------------------------ *)
(* consequences of the shapes: the host component of [Inv]              *)

Lemma below128_sweep : forall (P : N -> bool),
  forallb P (map N.of_nat (seq 0 128)) = true -> forall b, b < 128 -> P b = true.
Proof.
  intros P H b Hb. rewrite forallb_forall in H. apply H.
  apply in_map_iff. exists (N.to_nat b). split; [apply N2Nat.id|]. apply in_seq. lia.
Qed.

Lemma fmt_fuel_chars : forall (Q : N -> bool) radix dig, 0 < radix ->
  (forall k, k < radix -> Q (dig k) = true) ->
  forall fuel n, forallb Q (fmt_fuel radix dig fuel n) = true.
Proof.
  intros Q radix dig Hr HQ fuel. induction fuel as [|f IH]; intro n; [reflexivity|].
  cbn [fmt_fuel]. destruct (n <? radix) eqn:E.
  - cbn [forallb]. rewrite HQ by lia. reflexivity.
  - rewrite forallb_app, IH. cbn [forallb]. rewrite HQ; [reflexivity|]. apply N.mod_lt. lia.
Qed.

Lemma fmt_fuel_nonnil : forall radix dig f n, fmt_fuel radix dig (Datatypes.S f) n <> [].
Proof.
  intros radix dig f n. cbn [fmt_fuel]. destruct (n <? radix); [discriminate|].
  destruct (fmt_fuel radix dig f (n / radix)); discriminate.
Qed.

Definition v4ch (b : N) : bool :=
  negb (isForbiddenDomain b) && (b <? 128) && negb (is_upper b) && printable b.

Lemma hex_lower_dec : forall k, k < 10 -> v4ch (hex_lower k) = true.
Proof.
  intros k H. assert (E : k = 0 \/ k = 1 \/ k = 2 \/ k = 3 \/ k = 4 \/ k = 5 \/ k = 6 \/ k = 7 \/ k = 8 \/ k = 9) by lia.
  repeat (destruct E as [->|E]; [vm_compute; reflexivity|]). subst k. vm_compute. reflexivity.
Qed.

Lemma itoa_v4ch : forall n, forallb v4ch (itoa n) = true.
Proof. intro n. unfold itoa. apply fmt_fuel_chars; [lia|apply hex_lower_dec]. Qed.

Lemma itoa_nonnil : forall n, itoa n <> [].
Proof. intro n. apply fmt_fuel_nonnil. Qed.

Lemma IPv4String_v4ch : forall a, forallb v4ch (IPv4String a) = true.
Proof.
  intro a. unfold IPv4String. rewrite !forallb_app, !itoa_v4ch.
  replace (forallb v4ch [46]) with true by (vm_compute; reflexivity). reflexivity.
Qed.

Lemma IPv4String_nonnil : forall a, IPv4String a <> [].
Proof.
  intro a. unfold IPv4String. pose proof (itoa_nonnil (a / 16777216)) as H.
  destruct (itoa (a / 16777216)); [contradiction|discriminate].
Qed.

Lemma hex_lower_hex : forall k, k < 16 -> printable (hex_lower k) = true.
Proof. intros k H. unfold hex_lower, printable. destruct (k <? 10) eqn:E; lia. Qed.

Lemma fmt_hex_printable : forall n, forallb printable (fmt_hex n) = true.
Proof. intro n. unfold fmt_hex. apply fmt_fuel_chars; [lia|apply hex_lower_hex]. Qed.

Lemma v6_print_printable : forall l idx compress ignore0, forallb printable (v6_print l idx compress ignore0) = true.
Proof.
  induction l as [|x l IH]; intros idx compress ignore0; [reflexivity|].
  cbn [v6_print]. destruct (ignore0 && (x =? 0)); [apply IH|].
  destruct (match compress with Some ci => Nat.eqb ci idx | None => false end).
  - rewrite forallb_app, IH. destruct (Nat.eqb idx 0); reflexivity.
  - rewrite !forallb_app, fmt_hex_printable, IH. destruct (Nat.eqb idx 7); reflexivity.
Qed.

Lemma bracketed_ok : forall s, is_bracketed ([91] ++ s ++ [93]) = true.
Proof.
  intro s. cbn [app]. unfold is_bracketed, has_suffix.
  change (rev (91 :: s ++ [93])) with (rev (s ++ [93]) ++ [91]).
  rewrite rev_app_distr. reflexivity.
Qed.

(* the bytes of an opaque host *)
Definition opch (b : N) : bool := negb (isForbiddenHost b) && printable b.

Lemma opaque_host_bytes : forall c l, forallb (fun r => negb (isForbiddenHost r)) l = true ->
  forallb opch (flat_map (fun r => percentEncodeRune c r (Some pes_C0)) l) = true.
Proof.
  intros c l. induction l as [|r l IH]; [reflexivity|].
  cbn [forallb flat_map]. intro H. apply andb_true_iff in H. destruct H as [H1 H2].
  rewrite forallb_app, (IH H2), andb_true_r.
  apply Q_enc_rune; [vm_compute; reflexivity|vm_compute; reflexivity|].
  intro E. unfold opch. rewrite H1. cbn [andb].
  apply (not_encoded_printable pes_C0); [reflexivity|exact E].
Qed.

Lemma enc_rune_nonnil : forall c r t, percentEncodeRune c r t <> [].
Proof.
  intros c r t. unfold percentEncodeRune.
  assert (E : (if c_latin1 c then pct_byte (fst (latin1_enc r)) else flat_map pct_byte (utf8_enc r)) <> []).
  { destruct (c_latin1 c); [discriminate|]. pose proof (utf8_enc_nonempty r) as N.
    destruct (utf8_enc r); [contradiction|discriminate]. }
  destruct t as [t|]; [|exact E]. destruct (RuneShouldBeEncoded t r); [exact E|apply utf8_enc_nonempty].
Qed.

Section HostOk.
  Variable idna_raw : str -> str * bool.

  (* H3: what the proofs need of the IDNA oracle, on the calls whose answer parseHost uses
     (no error, or an error on an all-ASCII/no-ACE input): the answer is lower-case ASCII, and is
     not empty in the error case (the code checks emptiness only in the no-error case).
     parseHost itself checks neither. *)
  Definition H3 : Prop :=
    forall d a e, d <> [] -> idna_raw d = (a, e) ->
      (e = true -> containsOnlyASCIIOrMiscAndNoPunycode d = true) ->
      forallb (fun b => b <? 128) a = true /\ forallb (fun b => negb (is_upper b)) a = true /\ (e = true -> a <> []).

  Hypothesis HH3 : H3.

  Lemma host_shape_ok : forall c input ns h, c_post c = HF_none -> host_shape idna_raw c input ns h ->
    host_ok (negb ns) h = true /\ forallb printable h = true /\ (input <> [] -> h <> []).
  Proof.
    intros c input ns h Hpost [Hi Hh|a Hh|Hns Hf Hh|a Hns Hh|d a e Hns Hd Hid He1 He2 Hf Hh].
    - subst. split; [destruct ns; reflexivity|]. split; [reflexivity|]. intro N; contradiction.
    - subst h. split; [unfold host_ok; rewrite bracketed_ok; reflexivity|].
      split; [|intros _; discriminate].
      rewrite !forallb_app. unfold IPv6String. rewrite v6_print_printable. reflexivity.
    - subst ns h. pose proof (opaque_host_bytes c _ Hf) as B. cbn [negb].
      split; [|split].
      + unfold host_ok. apply orb_true_iff. right.
        revert B. apply forallb_impl. intros x Hx. unfold opch in Hx. apply andb_true_iff in Hx. apply Hx.
      + revert B. apply forallb_impl. intros x Hx. unfold opch in Hx. apply andb_true_iff in Hx. apply Hx.
      + intro Hne. pose proof (runes_nonnil _ Hne) as R. destruct (runes input) as [|r l]; [contradiction|].
        cbn [flat_map]. pose proof (enc_rune_nonnil c r (Some pes_C0)) as N.
        destruct (percentEncodeRune c r (Some pes_C0)); [contradiction|discriminate].
    - subst ns h. pose proof (IPv4String_v4ch a) as B. cbn [negb].
      assert (F : forall (P : N -> bool), (forall x, v4ch x = true -> P x = true) -> forallb P (IPv4String a) = true).
      { intros P HP. revert B. apply forallb_impl. exact HP. }
      split; [|split].
      + unfold host_ok. apply orb_true_iff. right.
        rewrite !F; try reflexivity; intros x Hx; unfold v4ch in Hx;
          repeat (apply andb_true_iff in Hx; destruct Hx as [Hx ?]); assumption.
      + apply F. intros x Hx. unfold v4ch in Hx. apply andb_true_iff in Hx. apply Hx.
      + intros _. apply IPv4String_nonnil.
    - subst ns. rewrite Hpost in Hh. cbn [apply_hostfun] in Hh. subst h. cbn [negb].
      destruct (HH3 d a e Hd Hid He2) as [A1 [A2 A3]].
      assert (R : runes a = a).
      { apply runes_ascii. apply Forall_forall. intros x Hx. rewrite forallb_forall in A1.
        specialize (A1 x Hx). lia. }
      rewrite R in Hf.
      assert (FD : forallb (fun b => negb (isForbiddenDomain b)) a = true).
      { apply forallb_forall. intros x Hx. apply negb_true_iff.
        destruct (isForbiddenDomain x) eqn:E; [|reflexivity].
        assert (existsb isForbiddenDomain a = true) by (apply existsb_exists; exists x; auto). congruence. }
      split; [|split].
      + unfold host_ok. rewrite FD, A1, A2. apply orb_true_r.
      + apply forallb_forall. intros x Hx. rewrite forallb_forall in FD, A1.
        specialize (FD x Hx). specialize (A1 x Hx).
        assert (Hx128 : x < 128) by lia.
        pose proof (below128_sweep (fun x => implb (negb (isForbiddenDomain x)) (printable x))
                      ltac:(vm_compute; reflexivity) x Hx128) as S.
        cbv beta in S. rewrite FD in S. exact S.
      + intros _. destruct e; [apply A3; reflexivity|apply He1; reflexivity].
  Qed.

  Theorem parseHost_ok : forall c u input ns u' h,
    c_lax c = false -> c_pre c = HF_none -> c_post c = HF_none ->
    parseHost idna_raw c u input ns = Ok u' h ->
    only_verrs u u' /\ host_ok (negb ns) h = true /\ forallb printable h = true /\ (input <> [] -> h <> []).
  Proof.
    intros c u input ns u' h Hlax Hpre Hpost H.
    apply (parseHost_shape idna_raw c u input ns u' h Hlax) in H. destruct H as [H1 H2].
    rewrite Hpre in H2. cbn [apply_hostfun] in H2.
    split; [exact H1|]. exact (host_shape_ok c input ns h Hpost H2).
  Qed.
End HostOk.
Print Assumptions parseHost_ok.

(* H3 is satisfiable: an oracle that lower-cases the ASCII bytes and drops the others, never failing *)
Definition idna_toy (s : str) : str * bool := (map ascii_lower (filter (fun b => b <? 128) s), false).
Example H3_toy : H3 idna_toy.
Proof.
  intros d a e Hd E _. unfold idna_toy in E. injection E as <- <-.
  split; [|split; [|discriminate]].
  - induction d as [|x d IH]; [reflexivity|]. cbn [filter]. destruct (x <? 128) eqn:Ex.
    + cbn [map forallb]. destruct d as [|y d']; [|rewrite IH by discriminate].
      * cbn [filter map forallb]. unfold ascii_lower, is_upper. destruct ((65 <=? x) && (x <=? 90)) eqn:Eu; lia.
      * unfold ascii_lower, is_upper. destruct ((65 <=? x) && (x <=? 90)) eqn:Eu; lia.
    + destruct d as [|y d']; [reflexivity|apply IH; discriminate].
  - induction d as [|x d IH]; [reflexivity|]. cbn [filter]. destruct (x <? 128) eqn:Ex.
    + cbn [map forallb]. destruct d as [|y d']; [|rewrite IH by discriminate].
      * cbn [filter map forallb]. unfold ascii_lower, is_upper. destruct ((65 <=? x) && (x <=? 90)) eqn:Eu; lia.
      * unfold ascii_lower, is_upper. destruct ((65 <=? x) && (x <=? 90)) eqn:Eu; lia.
    + destruct d as [|y d']; [reflexivity|apply IH; discriminate].
Qed.
