(* Output size of the BasicParser state machine (Model/Machine.v) is LINEAR in its input, and the
   serializer adds only delimiters.  Together with Proofs/Termination.v (at most 14 * (n + 3) - 2
   loop iterations) this is the part of "no quadratic blow-up" that a functional model can carry.

   Z1  utf8_enc_len, percentEncodeRune_len          one code point -> at most 4 / 12 bytes
   Z2  parseHost_size                               the host parser is linear (IDNA oracle: premise Hlin)
       step_size                                    growth of  usize url + len buffer  in one iteration
       step_potential                               a potential that never increases along a run
   Z3  run_size, BasicParser_size, Parse_size, UrlParse_size, ParseRef_size
           usize u <= 144 * (A + 1) * len s + (276 * (A + 1) + 12 * B + 46)  [+ usize base]
   Z4  Href_size, Parse_Href_size                   len (Href u) <= usize u + 8
   Z5  buf_bound, scanned_total                     buffer discipline (see SUMMARY at the end)

   No construct of the MODEL grows more than linearly; see SUMMARY at the end of the file for the
   two hypotheses the proofs need and for the work that the sizes do not show. *)
From Verif Require Import Lib.Base Lib.Utf8 Lib.GoStr Model.Cfg Gen.Tables Model.Sets Model.Percent Model.Url Model.Host Model.Machine Model.Api.
From Verif Require Import Proofs.Termination.
From Coq Require Import Lia ZifyBool ZifyN ZifyNat.

Ltac Zify.zify_post_hook ::= Z.div_mod_to_equations.

Local Open Scope Z_scope.

(* ------------------------------------------------------------------------------------------ *)
(* 0. Lengths of lists                                                                         *)
(* ------------------------------------------------------------------------------------------ *)

Lemma len_app {A} (a b : list A) : len (a ++ b) = len a + len b.
Proof. unfold len. rewrite app_length. lia. Qed.
Lemma len_nil {A} : len (@nil A) = 0.
Proof. reflexivity. Qed.
Lemma len_cons {A} (x : A) l : len (x :: l) = 1 + len l.
Proof. unfold len. cbn [length]. lia. Qed.
Lemma len_nonneg {A} (l : list A) : 0 <= len l.
Proof. unfold len. lia. Qed.
Lemma len_rev {A} (l : list A) : len (rev l) = len l.
Proof. unfold len. rewrite rev_length. reflexivity. Qed.
Lemma len_map {A B} (f : A -> B) (l : list A) : len (map f l) = len l.
Proof. unfold len. rewrite map_length. reflexivity. Qed.

Lemma flat_map_len_le {A B} (f : A -> list B) (k : Z) (l : list A) :
  (forall x, len (f x) <= k) -> len (flat_map f l) <= k * len l.
Proof.
  intros H. induction l as [|x l IH]; cbn [flat_map]; [unfold len; cbn [length]; lia|].
  rewrite len_app, len_cons. specialize (H x). lia.
Qed.

Lemma is_nil_true {A} (l : list A) : is_nil l = true -> l = [].
Proof. destruct l; [reflexivity | discriminate]. Qed.

(* ------------------------------------------------------------------------------------------ *)
(* Z1. One code point gives at most 4 bytes, percent-encoded at most 12                        *)
(* ------------------------------------------------------------------------------------------ *)

Theorem utf8_enc_len r : 1 <= len (utf8_enc r) <= 4.
Proof.
  unfold utf8_enc.
  destruct (r <? 128)%N; [unfold len; cbn [length]; lia|].
  destruct (r <? 2048)%N; [unfold len; cbn [length]; lia|].
  destruct (is_surrogate r || (1114111 <? r)%N); [unfold len; cbn [length]; lia|].
  destruct (r <? 65536)%N; unfold len; cbn [length]; lia.
Qed.
Print Assumptions utf8_enc_len.

Lemma utf8_enc_len_small v : (v < 2048)%N -> len (utf8_enc v) <= 2.
Proof.
  intros H. unfold utf8_enc.
  destruct (v <? 128)%N eqn:E1; [unfold len; cbn [length]; lia|].
  destruct (v <? 2048)%N eqn:E2; [unfold len; cbn [length]; lia|]. lia.
Qed.

Lemma pct_byte_len b : len (pct_byte b) = 3.
Proof. reflexivity. Qed.

Lemma pct_utf8_len r : len (flat_map pct_byte (utf8_enc r)) <= 12.
Proof.
  pose proof (flat_map_len_le pct_byte 3 (utf8_enc r)) as H.
  pose proof (utf8_enc_len r). specialize (H (fun b => Z.eq_le_incl _ _ (pct_byte_len b))). lia.
Qed.

(* for every configuration, including the ISO-8859-1 override, and every (or no) encode set *)
Theorem percentEncodeRune_len c r tr : len (percentEncodeRune c r tr) <= 12.
Proof.
  unfold percentEncodeRune. pose proof (pct_utf8_len r). pose proof (utf8_enc_len r).
  pose proof (pct_byte_len (fst (latin1_enc r))).
  destruct (c_latin1 c); destruct tr as [t|]; try destruct (RuneShouldBeEncoded t r); lia.
Qed.
Print Assumptions percentEncodeRune_len.

Lemma percentEncodeRune_len_pos c r tr : 1 <= len (percentEncodeRune c r tr).
Proof.
  unfold percentEncodeRune. pose proof (utf8_enc_len r).
  pose proof (pct_byte_len (fst (latin1_enc r))).
  assert (1 <= len (flat_map pct_byte (utf8_enc r))).
  { destruct (utf8_enc r) as [|b l]; [rewrite len_nil in *; lia|].
    cbn [flat_map]. rewrite len_app, pct_byte_len. pose proof (len_nonneg (flat_map pct_byte l)). lia. }
  destruct (c_latin1 c); destruct tr as [t|]; try destruct (RuneShouldBeEncoded t r); lia.
Qed.

Lemma percentEncodeInvalidRune_len c r tr : len (percentEncodeInvalidRune c r tr) <= 12.
Proof. unfold percentEncodeInvalidRune. destruct (c_singlePct c); apply percentEncodeRune_len. Qed.

Example percentEncodeRune_len_sharp :
  len (percentEncodeRune Gen.Options.default_cfg 128512%N (Some pes_Path)) = 12.
Proof. vm_compute. reflexivity. Qed.

(* []rune(s) has at most len(s) elements *)
Lemma decode_len_aux k : forall s, (length s <= k)%nat -> (length (decode s) <= length s)%nat.
Proof.
  induction k as [|k IH]; intros s H.
  - destruct s; [cbn; lia | cbn in H; lia].
  - destruct s as [|b0 rest]; [cbn; lia|].
    rewrite decode_cons. cbn [length] in *. pose proof (dec1_shorter b0 rest) as Hs.
    specialize (IH (snd (dec1 b0 rest))). lia.
Qed.
Lemma decode_len s : len (decode s) <= len s.
Proof. unfold len. pose proof (decode_len_aux (length s) s). lia. Qed.
Lemma runes_len s : len (runes s) <= len s.
Proof. unfold runes. rewrite len_map. apply decode_len. Qed.

Lemma pes_loop_len c tr l : len (pes_loop c tr l) <= 12 * len l.
Proof.
  induction l as [|r l IH]; [unfold len; cbn [length pes_loop]; lia|].
  cbn [pes_loop]. rewrite len_app, len_cons.
  match goal with |- context [if ?b then _ else _] => destruct b end.
  - pose proof (percentEncodeRune_len c r (Some (pes_set tr [37%N]))). lia.
  - pose proof (percentEncodeRune_len c r (Some tr)). lia.
Qed.

(* the lax fall-backs of the host parser *)
Lemma PercentEncodeString_len c s tr : len (PercentEncodeString c s tr) <= 12 * len s.
Proof.
  unfold PercentEncodeString. pose proof (pes_loop_len c tr (runes s)). pose proof (runes_len s). lia.
Qed.

Lemma percentEncodeBytes_len s tr : len (percentEncodeBytes s tr) <= 3 * len s.
Proof.
  unfold percentEncodeBytes. apply flat_map_len_le. intros b. unfold percentEncodeByte.
  destruct (ByteShouldBeEncoded tr b); [rewrite pct_byte_len; lia | rewrite len_cons, len_nil; lia].
Qed.

Lemma hex_val_le ch : (hex_val ch <= 15)%N.
Proof.
  unfold hex_val, is_digit.
  destruct ((48 <=? ch) && (ch <=? 57))%N eqn:E1; [lia|].
  destruct ((65 <=? ch) && (ch <=? 70))%N eqn:E2; [lia|].
  destruct ((97 <=? ch) && (ch <=? 102))%N eqn:E3; lia.
Qed.

Lemma DecodePercentEncoded_len_aux c k : forall s, (length s <= k)%nat ->
  len (DecodePercentEncoded c s) <= len s.
Proof.
  induction k as [|k IH]; intros s Hk.
  - destruct s; [cbn; lia | cbn in Hk; lia].
  - destruct s as [|b s']; [cbn; lia|].
    cbn [length] in Hk. cbn [DecodePercentEncoded].
    assert (Hd : len (b :: DecodePercentEncoded c s') <= len (b :: s')).
    { rewrite !len_cons. specialize (IH s'). lia. }
    destruct (b =? 37)%N; [|exact Hd].
    destruct s' as [|h [|l s'']]; try exact Hd.
    destruct (isHexDigit h && isHexDigit l); [|exact Hd].
    rewrite len_app, !len_cons. cbn [length] in Hk. specialize (IH s'' ltac:(lia)).
    pose proof (hex_val_le h). pose proof (hex_val_le l).
    destruct (c_latin1 c).
    + pose proof (utf8_enc_len_small (hex_val h * 16 + hex_val l)%N ltac:(lia)). lia.
    + rewrite len_cons, len_nil. lia.
Qed.
Lemma DecodePercentEncoded_len c s : len (DecodePercentEncoded c s) <= len s.
Proof. apply (DecodePercentEncoded_len_aux c (length s)). lia. Qed.

(* ------------------------------------------------------------------------------------------ *)
(* 1. The size of a URL record                                                                 *)
(* ------------------------------------------------------------------------------------------ *)

Definition osize (o : option str) : Z := match o with Some s => len s | None => 0 end.
Fixpoint psize (p : list str) : Z := match p with [] => 0 | s :: p' => len s + 1 + psize p' end.

(* bytes of all components, plus one per path segment *)
Definition usize (u : url) : Z :=
  len (u_scheme u) + len (u_username u) + len (u_password u) + osize (u_host u) + osize (u_port u)
  + psize (u_path u) + osize (u_query u) + osize (u_fragment u).

Definition msize (m : mstate) : Z := usize (m_url m) + len (m_buf m).

Lemma osize_nonneg o : 0 <= osize o.
Proof. destruct o; cbn [osize]; [apply len_nonneg | lia]. Qed.
Lemma psize_nonneg p : 0 <= psize p.
Proof. induction p as [|s p IH]; cbn [psize]; [lia|]. pose proof (len_nonneg s). lia. Qed.
Lemma usize_nonneg u : 0 <= usize u.
Proof.
  unfold usize. pose proof (psize_nonneg (u_path u)).
  pose proof (osize_nonneg (u_host u)). pose proof (osize_nonneg (u_port u)).
  pose proof (osize_nonneg (u_query u)). pose proof (osize_nonneg (u_fragment u)).
  unfold len. lia.
Qed.
Lemma psize_app p q : psize (p ++ q) = psize p + psize q.
Proof. induction p as [|s p IH]; cbn [psize app]; lia. Qed.
Lemma psize_len p : len p <= psize p.
Proof. induction p as [|s p IH]; cbn [psize]; rewrite ?len_cons, ?len_nil; [lia|]. pose proof (len_nonneg s). lia. Qed.
Lemma psize_drop_last p : psize (drop_last p) <= psize p.
Proof.
  unfold drop_last. induction p as [|s p IH]; [cbn; lia|].
  cbn [removelast]. destruct p as [|t p']; [cbn [psize]; pose proof (len_nonneg s); lia|].
  cbn [psize] in *. lia.
Qed.
Lemma psize_shortenPath sc p : psize (shortenPath sc p) <= psize p.
Proof.
  unfold shortenPath. pose proof (psize_drop_last p) as Hd. pose proof (psize_nonneg p).
  destruct p as [|x [|y p']]; try exact Hd.
  destruct (str_eqb sc s_file && isNormalizedWindowsDriveLetter x); [lia | cbn [psize] in *; lia].
Qed.
Lemma psize_replace_last p x : psize (replace_last p x) <= psize p + len x.
Proof.
  induction p as [|s p IH]; [cbn; apply len_nonneg|].
  cbn [replace_last]. destruct p as [|t p']; [cbn [psize]; pose proof (len_nonneg s); lia|].
  cbn [psize] in *. lia.
Qed.

Lemma usize_set_verrs u v : usize (set_verrs u v) = usize u.
Proof. reflexivity. Qed.
Lemma usize_set_input u v : usize (set_input u v) = usize u.
Proof. reflexivity. Qed.

(* recording a validation error does not change the size (nor the path) *)
Definition same (u u' : url) : Prop := usize u' = usize u /\ psize (u_path u') = psize (u_path u).
Lemma same_refl u : same u u. Proof. split; reflexivity. Qed.
Lemma same_trans u1 u2 u3 : same u1 u2 -> same u2 u3 -> same u1 u3.
Proof. unfold same. intros [A1 B1] [A2 B2]. split; congruence. Qed.
Lemma handleError_same c u t f : same u (fst (handleError c u t f)).
Proof. unfold handleError. cbn [fst]. destruct (c_report c); split; reflexivity. Qed.

Lemma usize_cleanDefaultPort c u : usize (cleanDefaultPort c u) <= usize u.
Proof.
  unfold cleanDefaultPort. destruct (getSpecialScheme c (u_scheme u)) as [dp|]; [|lia].
  assert (G : usize (set_port u None 0) <= usize u).
  { unfold usize. cbn [set_port u_scheme u_username u_password u_host u_port u_path u_query u_fragment osize].
    pose proof (osize_nonneg (u_port u)). lia. }
  destruct (u_port u) as [p|]; [destruct (str_eqb dp p)|]; try lia; exact G.
Qed.

(* ------------------------------------------------------------------------------------------ *)
(* 2. The host parser                                                                          *)
(* ------------------------------------------------------------------------------------------ *)

(* --- pre/post host functions --- *)
Lemma trim_left_len cut s : len (trim_left cut s) <= len s.
Proof.
  induction s as [|x s IH]; cbn [trim_left]; [lia|]. destruct (mem x cut); [rewrite len_cons; lia | lia].
Qed.
Lemma trim_set_len cut s : len (trim_set cut s) <= len s.
Proof.
  unfold trim_set, trim_right. rewrite len_rev.
  pose proof (trim_left_len cut (rev (trim_left cut s))). rewrite len_rev in *.
  pose proof (trim_left_len cut s). lia.
Qed.

Ltac bits46 x := destruct x as [|x]; [|do 6 (try destruct x as [x|x|])].
Lemma collapse_dots_cons x s :
  collapse_dots (x :: s) = collapse_dots s \/ collapse_dots (x :: s) = x :: collapse_dots s.
Proof.
  bits46 x; try (right; reflexivity).
  destruct s as [|y s']; [right; reflexivity|].
  bits46 y; try (right; reflexivity). left; reflexivity.
Qed.
Lemma collapse_dots_len s : len (collapse_dots s) <= len s.
Proof.
  induction s as [|x s IH]; [cbn; lia|].
  destruct (collapse_dots_cons x s) as [E|E]; rewrite E, ?len_cons; lia.
Qed.
Lemma hostfun_gsb_len h : len (hostfun_gsb h) <= len h.
Proof. unfold hostfun_gsb. pose proof (collapse_dots_len (trim_set [46%N] h)). pose proof (trim_set_len [46%N] h). lia. Qed.
Lemma hostfun_sem_len h : len (hostfun_sem h) <= len h + 7.
Proof.
  unfold hostfun_sem. destruct h as [|x h']; [cbn; lia|].
  pose proof (hostfun_gsb_len (x :: h')). destruct (hostfun_gsb (x :: h')); [|lia].
  unfold len in *. cbn [length] in *. lia.
Qed.

(* A user-supplied Go function (WithPreParseHostFunc / WithPostParseHostFunc) may return anything;
   the three behaviours the library itself installs lengthen the host by at most 7 bytes
   ("0.0.0.0").  This is what is asked of a user-supplied function. *)
Definition hostfun_ok (f : hostfun) : Prop :=
  match f with HF_fun g => forall h, len (g h) <= len h + 7 | _ => True end.
Lemma apply_hostfun_len f h : hostfun_ok f -> len (apply_hostfun f h) <= len h + 7.
Proof.
  destruct f; cbn [apply_hostfun hostfun_ok]; intros H;
    [lia | pose proof (hostfun_gsb_len h); lia | apply hostfun_sem_len | apply H].
Qed.

(* --- numbers --- *)
Fixpoint upto (fuel : nat) (n : N) : list N :=
  match fuel with O => [] | S f => n :: upto f (N.succ n) end.
Lemma in_upto : forall fuel n x, (n <= x)%N -> (x < n + N.of_nat fuel)%N -> In x (upto fuel n).
Proof.
  induction fuel as [|f IH]; intros n x H1 H2; [lia|].
  cbn [upto]. destruct (N.eq_dec n x) as [->|Hne]; [left; reflexivity|].
  right. apply IH; lia.
Qed.
Definition num_ok (n : N) : bool :=
  (len (itoa n) <=? 5) && (len (fmt_hex n) <=? 4) && ((256 <=? n)%N || (len (itoa n) <=? 3)).
Lemma num_ok_all : forallb num_ok (upto (256 * 256) 0%N) = true.
Proof. vm_compute. reflexivity. Qed.
Lemma num_ok_lt n : (n < 65536)%N -> num_ok n = true.
Proof.
  intros H. pose proof num_ok_all as A. rewrite forallb_forall in A. apply A.
  apply in_upto; [lia|].
  replace (N.of_nat (256 * 256)) with 65536%N by (vm_compute; reflexivity). lia.
Qed.
Lemma itoa_len5 n : (n <= 65535)%N -> len (itoa n) <= 5.
Proof. intros H. pose proof (num_ok_lt n ltac:(lia)) as A. unfold num_ok in A. lia. Qed.
Lemma fmt_hex_len4 n : (n < 65536)%N -> len (fmt_hex n) <= 4.
Proof. intros H. pose proof (num_ok_lt n ltac:(lia)) as A. unfold num_ok in A. lia. Qed.
Lemma itoa_len3 n : (n < 256)%N -> len (itoa n) <= 3.
Proof. intros H. pose proof (num_ok_lt n ltac:(lia)) as A. unfold num_ok in A. lia. Qed.

(* --- IPv4: at most 15 bytes --- *)
Lemma IPv4String_len a : (a < 4294967296)%N -> len (IPv4String a) <= 15.
Proof.
  intros H. unfold IPv4String. rewrite !len_app, !len_cons, !len_nil.
  pose proof (itoa_len3 (a / 16777216)%N ltac:(lia)).
  pose proof (itoa_len3 ((a / 65536) mod 256)%N ltac:(lia)).
  pose proof (itoa_len3 ((a / 256) mod 256)%N ltac:(lia)).
  pose proof (itoa_len3 (a mod 256)%N ltac:(lia)). lia.
Qed.

(* the result of a sub-parser of the host parser: the record changes in its validation errors only,
   and the string obeys P *)
Definition rgood {T} (u0 : url) (P : T -> Prop) (r : res T) : Prop :=
  match r with Ok u h => same u0 u /\ P h | Er u _ => same u0 u end.

Lemma rgood_herr {T} c u0 P u t f (k : url -> res T) :
  same u0 u -> (forall u', same u0 u' -> rgood u0 P (k u')) -> rgood u0 P (herr c u t f k).
Proof.
  intros Hs Hk. unfold herr. pose proof (handleError_same c u t f) as Hh.
  destruct (handleError c u t f) as [u' [e|]]; cbn [fst] in Hh.
  - cbn [rgood]. eapply same_trans; eassumption.
  - apply Hk. eapply same_trans; eassumption.
Qed.
Lemma rgood_herr_true {T} c u0 P u t (k : url -> res T) :
  same u0 u -> rgood u0 P (herr c u t true k).
Proof.
  intros Hs. unfold herr. pose proof (handleError_same c u t true) as Hh.
  unfold handleError in *. cbn [fst orb] in *. cbn [rgood]. eapply same_trans; eassumption.
Qed.
Lemma rgood_weaken {T} u0 (P P' : T -> Prop) r : (forall h, P h -> P' h) -> rgood u0 P r -> rgood u0 P' r.
Proof. intros H. destruct r; cbn [rgood]; [intros [A1 A2]; split; auto | auto]. Qed.

Lemma parseIPv4Number_same c u p : same u (fst (parseIPv4Number c u p)).
Proof.
  unfold parseIPv4Number. destruct p; [|apply same_refl].
  pose proof (handleError_same c u IPv4EmptyPart true) as H.
  destruct (handleError c u IPv4EmptyPart true) as [u' o]. exact H.
Qed.

Lemma ipv4_numbers_good c u0 : forall parts u acc, same u0 u ->
  rgood u0 (fun ns => length ns = (length parts + length acc)%nat) (ipv4_numbers c u parts acc).
Proof.
  induction parts as [|p rest IH]; intros u acc Hs.
  - cbn [ipv4_numbers rgood]. split; [assumption|]. rewrite rev_length. reflexivity.
  - cbn [ipv4_numbers]. pose proof (parseIPv4Number_same c u p) as Hp.
    destruct (parseIPv4Number c u p) as [u1 [n ve|rg]]; cbn [fst] in Hp;
      assert (Hs1 : same u0 u1) by (eapply same_trans; eassumption).
    + destruct ve.
      * apply rgood_herr; [assumption|]. intros u2 H2.
        eapply rgood_weaken; [|apply IH; assumption]. cbn [length]. intros; lia.
      * eapply rgood_weaken; [|apply IH; assumption]. cbn [length]. intros; lia.
    + apply rgood_herr; [assumption|]. intros u2 H2.
      eapply rgood_weaken; [|apply IH; assumption]. cbn [length]. intros; lia.
Qed.

Lemma ipv4_range_warn_good c u0 P : forall ns u k, same u0 u ->
  (forall u', same u0 u' -> rgood u0 P (k u')) -> rgood u0 P (ipv4_range_warn c u ns k).
Proof.
  induction ns as [|x ns IH]; intros u k Hs Hk; cbn [ipv4_range_warn]; [apply Hk; assumption|].
  destruct (255 <? x)%N; [|apply IH; assumption].
  apply rgood_herr; [assumption|]. intros u' Hu'. apply IH; assumption.
Qed.

Lemma ipv4_final_bound numbers lastn :
  (length numbers <= 4)%nat -> existsb (fun x => (255 <? x)%N) (drop_last numbers) = false ->
  last_opt numbers = Some lastn -> (256 ^ (5 - N.of_nat (length numbers)) <=? lastn)%N = false ->
  (lastn + ipv4_sum (drop_last numbers) 0 < 4294967296)%N.
Proof.
  intros Hl He Hlast Hlt.
  destruct numbers as [|a [|b [|c0 [|d [|e rest]]]]]; cbn [length] in Hl; try lia;
    cbn [last_opt] in Hlast; try discriminate; injection Hlast as <-;
    cbn [drop_last removelast existsb ipv4_sum length] in *;
    repeat match goal with
           | H : context [(256 ^ ?e)%N] |- _ => let v := eval vm_compute in (256 ^ e)%N in change (256 ^ e)%N with v in H
           | |- context [(256 ^ ?e)%N] => let v := eval vm_compute in (256 ^ e)%N in change (256 ^ e)%N with v
           end; lia.
Qed.

Definition v4_after_empty (c : cfg) (u : url) (parts : list str) : res str :=
  (if (4 <? len parts)%Z then (fun k => herr c u IPv4TooManyParts true k) else (fun k => k u))
    (fun u =>
      match ipv4_numbers c u parts [] with
      | Er u e => Er u e
      | Ok u numbers =>
          ipv4_range_warn c u numbers (fun u =>
            let init := drop_last numbers in
            if existsb (fun n => (255 <? n)%N) init then herr c u IPv4OutOfRangePart true (fun u => Ok u [])
            else match last_opt numbers with
                 | None => Ok u []
                 | Some lastn =>
                     if (256 ^ (5 - N.of_nat (length numbers)) <=? lastn)%N
                     then herr c u IPv4OutOfRangePart true (fun u => Ok u [])
                     else Ok u (IPv4String (lastn + ipv4_sum init 0))
                 end)
      end).
Lemma parseIPv4_unfold c u input :
  parseIPv4 c u input =
  let parts := split 46 input in
  match last_opt parts with
  | Some [] => herr c u IPv4EmptyPart false (fun u => v4_after_empty c u (if (1 <? len parts)%Z then drop_last parts else parts))
  | _ => v4_after_empty c u parts
  end.
Proof. reflexivity. Qed.

Lemma v4_after_empty_good c u0 u parts : same u0 u -> rgood u0 (fun h : str => len h <= 15) (v4_after_empty c u parts).
Proof.
  intros Hs. unfold v4_after_empty.
  destruct (4 <? len parts) eqn:E4; [apply rgood_herr_true; assumption|].
  pose proof (ipv4_numbers_good c u0 parts u [] Hs) as Hn.
  destruct (ipv4_numbers c u parts []) as [u1 numbers|u1 e1]; cbn [rgood] in Hn; [|exact Hn].
  destruct Hn as [Hs1 Hlen]. cbn [length] in Hlen.
  apply ipv4_range_warn_good; [assumption|]. intros u2 Hs2. cbv zeta.
  destruct (existsb (fun n : N => (255 <? n)%N) (drop_last numbers)) eqn:Eex; [apply rgood_herr_true; assumption|].
  destruct (last_opt numbers) as [lastn|] eqn:El; [|cbn [rgood]; split; [assumption | cbn; lia]].
  destruct (256 ^ (5 - N.of_nat (length numbers)) <=? lastn)%N eqn:Er; [apply rgood_herr_true; assumption|].
  cbn [rgood]. split; [assumption|]. apply IPv4String_len.
  apply ipv4_final_bound; try assumption. unfold len in E4. lia.
Qed.

Lemma parseIPv4_good c u0 u input : same u0 u -> rgood u0 (fun h => len h <= 15) (parseIPv4 c u input).
Proof.
  intros Hs. rewrite parseIPv4_unfold. cbv zeta.
  destruct (last_opt (split 46 input)) as [[|x l]|]; try (apply v4_after_empty_good; assumption).
  apply rgood_herr; [assumption|]. intros u' Hu'. apply v4_after_empty_good; assumption.
Qed.

Lemma endsInANumber_same c u a : same u (fst (endsInANumber c u a)).
Proof.
  unfold endsInANumber.
  match goal with |- context [last_opt ?p] => destruct (last_opt p) as [[|x l]|] end; try apply same_refl.
  destruct (all_in isDigit (x :: l)); [apply same_refl|].
  pose proof (parseIPv4Number_same c u (x :: l)) as H.
  destruct (parseIPv4Number c u (x :: l)) as [u' [n ve|rg]]; exact H.
Qed.

(* --- IPv6: at most 41 bytes --- *)
(* eight pieces, each below 2^16 *)
Definition ok8 (a : list N) : Prop := length a = 8%nat /\ Forall (fun x => (x < 65536)%N) a.
(* the pieces from index pi on are still zero *)
Definition ztail (a : list N) (pi : nat) : Prop := forall j, (pi <= j)%nat -> get_nth a j = 0%N.

Lemma set_nth_length a : forall i v, length (set_nth a i v) = length a.
Proof. induction a as [|x a IH]; intros [|i] v; cbn [set_nth length]; auto. Qed.
Lemma set_nth_Forall (P : N -> Prop) a : forall i v, Forall P a -> P v -> Forall P (set_nth a i v).
Proof.
  induction a as [|x a IH]; intros [|i] v Ha Hv; cbn [set_nth]; auto; inversion Ha; subst; constructor; auto.
Qed.
Lemma ok8_set_nth a i v : ok8 a -> (v < 65536)%N -> ok8 (set_nth a i v).
Proof. intros [H1 H2] Hv. split; [rewrite set_nth_length; assumption | apply set_nth_Forall; assumption]. Qed.
Lemma get_nth_small a : forall i, Forall (fun x => (x < 65536)%N) a -> (get_nth a i < 65536)%N.
Proof.
  unfold get_nth. induction a as [|x a IH]; intros [|i] H; cbn [nth]; try lia; inversion H; subst; auto.
Qed.
Lemma get_set_nth_other a : forall i j v, i <> j -> get_nth (set_nth a i v) j = get_nth a j.
Proof.
  unfold get_nth. induction a as [|x a IH]; intros [|i] [|j] v H; cbn [set_nth nth]; try reflexivity; try congruence.
  apply IH. congruence.
Qed.
Lemma get_set_nth_cases a : forall i v,
  get_nth (set_nth a i v) i = v \/ get_nth (set_nth a i v) i = get_nth a i.
Proof.
  unfold get_nth. induction a as [|x a IH]; intros [|i] v; cbn [set_nth nth]; auto.
Qed.
Lemma ztail_set_nth a pi v : ztail a pi -> ztail (set_nth a pi v) (S pi).
Proof. intros H j Hj. rewrite get_set_nth_other by lia. apply H. lia. Qed.
Lemma ztail_S a pi : ztail a pi -> ztail a (S pi).
Proof. intros H j Hj. apply H. lia. Qed.

(* the parity of `seen` tells how far the current 16-bit piece is filled *)
Definition half (seen : nat) (x : N) : Prop := if Nat.even seen then x = 0%N else (x < 256)%N.

Lemma v4tail_ok : forall l seen piece pi addr r,
  ok8 addr -> ztail addr (S pi) -> (seen <= 3)%nat -> half seen (get_nth addr pi) ->
  match piece with Some p => (p <= 255)%N | None => True end ->
  v4tail l seen piece pi addr = inl r -> ok8 (snd r).
Proof.
  assert (Hstore : forall seen pi addr p, ok8 addr -> ztail addr (S pi) -> (seen <= 3)%nat ->
            half seen (get_nth addr pi) -> (p <= 255)%N ->
            let addr' := set_nth addr pi (get_nth addr pi * 256 + p)%N in
            let pi' := if (Nat.eqb (S seen) 2 || Nat.eqb (S seen) 4)%bool then S pi else pi in
            ok8 addr' /\ ztail addr' (S pi') /\ half (S seen) (get_nth addr' pi')).
  { intros seen pi addr p Hok Hz Hseen Hh Hp addr' pi'.
    assert (Hv : (get_nth addr pi * 256 + p < 65536)%N).
    { unfold half in Hh. destruct (Nat.even seen); lia. }
    split; [apply ok8_set_nth; assumption|].
    assert (Hz' : ztail addr' (S pi)).
    { intros j Hj. unfold addr'. rewrite get_set_nth_other by lia. apply Hz. assumption. }
    destruct (get_set_nth_cases addr pi (get_nth addr pi * 256 + p)%N) as [E|E]; fold addr' in E;
      destruct seen as [|[|[|[|s]]]]; try lia; cbn [Nat.eqb orb] in pi'; unfold pi', half in *; cbn [Nat.even] in *;
      (split; [try assumption; try (apply ztail_S; assumption)|]);
      try (apply Hz'; lia); lia. }
  induction l as [|ch rest IH]; intros seen piece pi addr r Hok Hz Hseen Hh Hp Hr.
  - cbn [v4tail] in Hr. destruct piece as [p|]; [|discriminate]. injection Hr as <-. cbn [snd].
    apply (Hstore seen pi addr p); assumption.
  - cbn [v4tail] in Hr. destruct piece as [p|].
    + destruct (isDigit ch) eqn:Ed.
      * destruct (p =? 0)%N; [discriminate|].
        destruct (255 <? p * 10 + hex_val ch)%N eqn:E255; [discriminate|].
        apply (IH seen (Some (p * 10 + hex_val ch)%N) pi addr r Hok Hz Hseen Hh ltac:(cbv beta iota; lia) Hr).
      * destruct (Hstore seen pi addr p Hok Hz Hseen Hh Hp) as (H1 & H2 & H3).
        destruct ((ch =? 46)%N && (S seen <? 4)%nat) eqn:Ec; [|discriminate].
        apply (IH (S seen) None _ _ r H1 H2 ltac:(lia) H3 I Hr).
    + destruct (isDigit ch) eqn:Ed; [|discriminate].
      pose proof (hex_val_le ch).
      apply (IH seen (Some (hex_val ch)) pi addr r Hok Hz Hseen Hh ltac:(cbv beta iota; lia) Hr).
Qed.

Definition b16 (ln : nat) : N :=
  match ln with O => 1%N | S O => 16%N | S (S O) => 256%N | S (S (S O)) => 4096%N | _ => 65536%N end.

Lemma v6loop_ok : forall l pi comp addr cur r,
  ok8 addr -> ztail addr pi ->
  match cur with Some (v, ln, _) => (v < b16 ln)%N /\ (ln <= 4)%nat | None => True end ->
  v6loop l pi comp addr cur = inl r -> ok8 (snd r).
Proof.
  induction l as [|ch rest IH]; intros pi comp addr cur r Hok Hz Hcur Hr.
  - cbn [v6loop] in Hr. destruct cur as [[[v ln] ps]|]; injection Hr as <-; cbn [snd]; [|assumption].
    apply ok8_set_nth; [assumption|]. destruct Hcur as [Hv Hl].
    destruct ln as [|[|[|[|ln]]]]; cbn [b16] in Hv; lia.
  - cbn [v6loop] in Hr.
    destruct ((match cur with None => true | Some _ => false end) && Nat.eqb pi 8) eqn:E1; [discriminate|].
    destruct ((match cur with None => true | Some _ => false end) && (ch =? 58)%N) eqn:E2.
    { destruct comp; [discriminate|]. exact (IH (S pi) (Some (S pi)) addr None r Hok (ztail_S _ _ Hz) I Hr). }
    assert (Hc : exists v ln ps, (match cur with Some x => x | None => (0%N, O, ch :: rest) end) = (v, ln, ps)
                                 /\ (v < b16 ln)%N /\ (ln <= 4)%nat).
    { destruct cur as [[[v ln] ps]|]; [exists v, ln, ps; auto | exists 0%N, O, (ch :: rest); cbn; repeat split; lia]. }
    destruct Hc as (v & ln & ps & Ec & Hv & Hl). rewrite Ec in Hr.
    assert (Hv' : (v < 65536)%N) by (destruct ln as [|[|[|[|ln]]]]; cbn [b16] in Hv; lia).
    destruct ((ln <? 4)%nat && isHexDigit ch) eqn:E3.
    { pose proof (hex_val_le ch).
      refine (IH pi comp addr (Some ((v * 16 + hex_val ch)%N, S ln, ps)) r Hok Hz _ Hr).
      destruct ln as [|[|[|[|ln]]]]; cbn [b16] in *; lia. }
    destruct (ch =? 46)%N eqn:E4.
    { destruct (Nat.eqb ln 0); [discriminate|]. destruct (6 <? pi)%nat; [discriminate|].
      destruct (v4tail ps 0 None pi addr) as [[[seen pi'] addr']|e] eqn:Ev; [|discriminate].
      destruct (Nat.eqb seen 4); [|discriminate]. injection Hr as <-. cbn [snd].
      apply (v4tail_ok ps 0%nat None pi addr _ Hok (ztail_S _ _ Hz) ltac:(lia)) in Ev; [exact Ev | | exact I].
      unfold half. cbn [Nat.even]. apply Hz. lia. }
    destruct (ch =? 58)%N eqn:E5; [|discriminate].
    destruct rest as [|x rest']; [discriminate|].
    exact (IH (S pi) comp (set_nth addr pi v) None r (ok8_set_nth _ _ _ Hok Hv') (ztail_set_nth _ _ _ Hz) I Hr).
Qed.

Lemma v6swap_ok : forall swaps addr pi comp, ok8 addr -> ok8 (v6swap addr pi comp swaps).
Proof.
  induction swaps as [|s IH]; intros addr pi comp Hok; [destruct pi; exact Hok|].
  destruct pi as [|pi']; [exact Hok|]. cbn [v6swap]. apply IH.
  destruct Hok as [H1 H2]. pose proof (get_nth_small addr (S pi') H2). pose proof (get_nth_small addr (comp + S s - 1)%nat H2).
  apply ok8_set_nth; [apply ok8_set_nth; [split; assumption|]|]; assumption.
Qed.

Lemma zeros8_ok : ok8 zeros8.
Proof. split; [reflexivity|]. unfold zeros8. repeat constructor. Qed.
Lemma zeros8_ztail pi : ztail zeros8 pi.
Proof. intros j _. unfold get_nth, zeros8. do 9 (try destruct j as [|j]); reflexivity. Qed.

Lemma ipv6_parse_ok l addr : ipv6_parse l = inl addr -> ok8 addr.
Proof.
  unfold ipv6_parse. intros H.
  match type of H with (match ?r with _ => _ end) = _ => destruct r as [[[pi comp] a]|e] eqn:Er end; [|discriminate].
  assert (Ha : ok8 a).
  { assert (G : forall l0 p0 c0, v6loop l0 p0 c0 zeros8 None = inl (pi, comp, a) -> ok8 a).
    { intros l0 p0 c0 E. apply (v6loop_ok l0 p0 c0 zeros8 None _ zeros8_ok (zeros8_ztail p0) I) in E. exact E. }
    destruct l as [|x l1]; [eapply G; eassumption|].
    destruct (x =? 58)%N eqn:Ex.
    - apply N.eqb_eq in Ex. subst x. destruct l1 as [|y l2]; [discriminate|].
      destruct (y =? 58)%N eqn:Ey.
      + apply N.eqb_eq in Ey. subst y. eapply G; eassumption.
      + bits46 y; try discriminate; try (eapply G; eassumption).
    - bits46 x; try (eapply G; eassumption). cbn in Ex. discriminate. }
  destruct comp as [cm|].
  { assert (E : v6swap a 7 cm (pi - cm) = addr) by congruence. rewrite <- E. apply v6swap_ok. assumption. }
  destruct (Nat.eqb pi 8); [injection H as <-; assumption | discriminate].
Qed.

Lemma v6_print_len : forall l idx compress ig, (idx + length l = 8)%nat ->
  Forall (fun x => (x < 65536)%N) l ->
  len (v6_print l idx compress ig) <= 5 * len l - (if is_nil l then 0 else 1).
Proof.
  induction l as [|x l IH]; intros idx compress ig Hi Hs; [cbn; lia|].
  cbn [v6_print is_nil]. rewrite len_cons. inversion Hs as [|? ? Hx Hl]; subst.
  cbn [length] in Hi.
  assert (Hrec : forall cp g, len (v6_print l (S idx) cp g) <= 5 * len l - (if is_nil l then 0 else 1))
    by (intros; apply IH; [lia | assumption]).
  assert (Hnn : 0 <= len l) by apply len_nonneg.
  assert (Hl0 : 0 <= (if is_nil l then 0 else 1) <= len l) by (destruct l; cbn [is_nil]; unfold len; cbn [length]; lia).
  set (d := if is_nil l then 0 else 1) in *.
  destruct (ig && (x =? 0)%N); [specialize (Hrec compress true); lia|].
  destruct (match compress with Some ci => Nat.eqb ci idx | None => false end).
  - rewrite len_app. specialize (Hrec compress true).
    destruct (Nat.eqb idx 0); rewrite ?len_cons, ?len_nil; lia.
  - rewrite !len_app. specialize (Hrec compress false). pose proof (fmt_hex_len4 x Hx).
    destruct (Nat.eqb idx 7) eqn:E7.
    + apply Nat.eqb_eq in E7. destruct l; [|cbn [length] in Hi; lia]. cbn [v6_print].
      unfold len in *. cbn [length] in *. lia.
    + apply Nat.eqb_neq in E7. destruct l as [|y l']; [cbn [length] in Hi; lia|].
      subst d. cbn [is_nil] in *. unfold len in *. cbn [length] in *. lia.
Qed.

Lemma IPv6String_len addr : ok8 addr -> len (IPv6String addr) <= 39.
Proof.
  intros [H1 H2]. unfold IPv6String.
  pose proof (v6_print_len addr 0%nat (v6_find addr 0 None 0 None 0) false ltac:(lia) H2) as H.
  unfold len in *. rewrite H1 in H. destruct addr; [discriminate|]. cbn [is_nil] in H. lia.
Qed.

Lemma parseIPv6_good c u0 u input : same u0 u -> rgood u0 (fun h => len h <= 41) (parseIPv6 c u input).
Proof.
  intros Hs. unfold parseIPv6. destruct (ipv6_parse (runes input)) as [addr|t] eqn:E.
  - cbn [rgood]. split; [assumption|]. rewrite !len_app, !len_cons, !len_nil.
    pose proof (IPv6String_len addr (ipv6_parse_ok _ _ E)). lia.
  - apply rgood_herr_true. assumption.
Qed.

(* --- opaque hosts: at most 12 bytes per code point (or the input itself, lax) --- *)
Ltac hwalk :=
  repeat first
    [ progress cbv beta
    | match goal with
      | |- rgood _ _ (herr _ _ _ true _) => apply rgood_herr_true; assumption
      | |- rgood _ _ (herr _ _ _ _ _) => apply rgood_herr; [assumption | intros ?u ?Hu]
      | |- rgood _ _ ((if ?b then _ else _) _) => destruct b eqn:?
      | |- rgood _ _ (if ?b then _ else _) => destruct b eqn:?
      end ].

Lemma opaque_loop_good c u0 input : forall l u out, same u0 u ->
  rgood u0 (fun h => len h <= Z.max (len input) (len out + 12 * len l)) (opaque_loop c u input l out).
Proof.
  induction l as [|ch rest IH]; intros u out Hs.
  - cbn [opaque_loop rgood]. split; [assumption|]. rewrite (@len_nil N). lia.
  - cbn [opaque_loop]. pose proof (percentEncodeRune_len c ch (Some pes_C0)) as He.
    pose proof (len_nonneg rest) as Hr.
    hwalk;
      try (cbn [rgood]; split; [assumption | lia]);
      (eapply rgood_weaken; [|apply IH; assumption]); cbv beta; intros h Hh;
      rewrite len_app in Hh; rewrite len_cons; lia.
Qed.

Lemma parseOpaqueHost_good c u0 u input : same u0 u ->
  rgood u0 (fun h => len h <= 12 * len input) (parseOpaqueHost c u input).
Proof.
  intros Hs. unfold parseOpaqueHost. eapply rgood_weaken; [|apply opaque_loop_good; assumption].
  cbv beta. intros h Hh. pose proof (runes_len input). pose proof (len_nonneg input).
  rewrite (@len_nil N) in Hh. lia.
Qed.

(* the part of parseHost for special schemes: percent-decode, ToASCII, IPv4 *)
Definition host_special (idna_raw : str -> str * bool) (c : cfg) (u : url) (input : str) : res str :=
  let domain := DecodePercentEncoded c input in
  let k_valid (u : url) : res str :=
    match ToASCII idna_raw c domain with
    | None =>
        if c_lax c then Ok u domain
        else herr c u DomainToASCII true (fun u => Ok u [])
    | Some asciiDomain =>
        let forbidden := existsb isForbiddenDomain (runes asciiDomain) in
        let k_clean (u : url) : res str :=
          match endsInANumber c u asciiDomain with
          | (u, true) => parseIPv4 c u asciiDomain
          | (u, false) => Ok u (apply_hostfun (c_post c) asciiDomain)
          end in
        if forbidden then
          if c_lax c then Ok u (PercentEncodeString c asciiDomain pes_Host)
          else herr c u DomainInvalidCodePoint true k_clean
        else k_clean u
    end in
  if negb (valid_utf8 domain) then
    if c_lax c then Ok u (percentEncodeBytes input pes_Host)
    else herr c u DomainToASCII true k_valid
  else k_valid u.

Ltac bits91 x := destruct x as [|x]; [|do 7 (try destruct x as [x|x|])].
Lemma parseHost_unfold idna_raw c u input ns :
  parseHost idna_raw c u input ns =
  match apply_hostfun (c_pre c) input with
  | [] => Ok u []
  | b0 :: t =>
      if (b0 =? 91)%N then
        (if negb (has_suffix [93%N] (b0 :: t)) then (fun k => herr c u IPv6Unclosed true k) else (fun k => k u))
          (fun u => parseIPv6 c u (drop_last t))
      else if ns then parseOpaqueHost c u (b0 :: t) else host_special idna_raw c u (b0 :: t)
  end.
Proof.
  unfold parseHost. destruct (apply_hostfun (c_pre c) input) as [|b0 t]; [reflexivity|].
  bits91 b0; reflexivity.
Qed.

Section HostSize.
  Variable idna_raw : str -> str * bool.
  Variables A B : Z.
  (* the IDNA oracle (golang.org/x/net/idna, not modelled) is linear: Punycode/UTS-46 output is
     bounded by a constant multiple of the input *)
  Hypothesis Hlin : forall d, len (fst (idna_raw d)) <= A * len d + B.

  Lemma B_nonneg : 0 <= B.
  Proof. pose proof (Hlin []) as H. pose proof (len_nonneg (fst (idna_raw []))). unfold len at 2 in H. cbn [length] in H. lia. Qed.
  Lemma A_nonneg : 0 <= A.
  Proof.
    pose proof B_nonneg as HB. destruct (Z_lt_le_dec A 0) as [Hneg|]; [|assumption]. exfalso.
    pose proof (Hlin (repeat 0%N (Z.to_nat (B + 1)))) as H.
    pose proof (len_nonneg (fst (idna_raw (repeat 0%N (Z.to_nat (B + 1)))))) as H0.
    unfold len at 2 in H. rewrite repeat_length, Z2Nat.id in H by lia. nia.
  Qed.

  Lemma ToASCII_len c src a : ToASCII idna_raw c src = Some a -> len a <= A * len src + B.
  Proof.
    pose proof A_nonneg as HA. pose proof B_nonneg as HB.
    unfold ToASCII. destruct src as [|x s]; [intros H; injection H as <-; unfold len; cbn [length]; lia|].
    set (src := x :: s).
    set (src' := if c_latin1 c then match stringToUnicode src with Some s0 => s0 | None => src end else src).
    assert (Hs : len src' <= len src).
    { unfold src'. destruct (c_latin1 c); [|lia]. unfold stringToUnicode.
      destruct (forallb _ (runes src)); [apply runes_len | lia]. }
    pose proof (Hlin src') as Hl. destruct (idna_raw src') as [a0 err]. cbn [fst] in Hl.
    assert (Hm : A * len src' <= A * len src) by (apply Z.mul_le_mono_nonneg_l; assumption).
    intros H.
    assert (E : a = a0).
    { destruct (err && containsOnlyASCIIOrMiscAndNoPunycode src'); [congruence|].
      destruct (err && negb (c_lax c)); [discriminate|]. destruct (is_nil a0); [discriminate | congruence]. }
    subst a. lia.
  Qed.

  (* Z2 (host part).  K1 = 12 * (A + 1), K2 = 84 * (A + 1) + 12 * B + 41. *)
  Definition hostK (n : Z) : Z := 12 * (A + 1) * (n + 7) + 12 * B + 41.

  Variable c : cfg.
  Hypothesis Hpre : hostfun_ok (c_pre c).
  Hypothesis Hpost : hostfun_ok (c_post c).

  Lemma host_special_good u0 u input n : same u0 u -> len input <= n + 7 ->
    rgood u0 (fun h => len h <= hostK n) (host_special idna_raw c u input).
  Proof.
    intros Hs Hn. pose proof A_nonneg as HA. pose proof B_nonneg as HB.
    pose proof (len_nonneg input) as Hi0.
    unfold host_special. set (domain := DecodePercentEncoded c input).
    pose proof (DecodePercentEncoded_len c input) as Hd. fold domain in Hd.
    pose proof (len_nonneg domain) as Hd0.
    assert (Hm : A * len domain <= A * (n + 7)) by (apply Z.mul_le_mono_nonneg_l; lia).
    assert (Hkv : forall u1, same u0 u1 ->
      rgood u0 (fun h => len h <= hostK n)
        (match ToASCII idna_raw c domain with
         | None => if c_lax c then Ok u1 domain else herr c u1 DomainToASCII true (fun u => Ok u [])
         | Some asciiDomain =>
             if existsb isForbiddenDomain (runes asciiDomain) then
               if c_lax c then Ok u1 (PercentEncodeString c asciiDomain pes_Host)
               else herr c u1 DomainInvalidCodePoint true (fun u =>
                      match endsInANumber c u asciiDomain with
                      | (u, true) => parseIPv4 c u asciiDomain
                      | (u, false) => Ok u (apply_hostfun (c_post c) asciiDomain)
                      end)
             else match endsInANumber c u1 asciiDomain with
                  | (u, true) => parseIPv4 c u asciiDomain
                  | (u, false) => Ok u (apply_hostfun (c_post c) asciiDomain)
                  end
         end)).
    { intros u1 H1. destruct (ToASCII idna_raw c domain) as [a|] eqn:Ea.
      - pose proof (ToASCII_len c domain a Ea) as Hla.
        pose proof (PercentEncodeString_len c a pes_Host) as Hpe.
        hwalk; try (cbn [rgood]; split; [assumption | unfold hostK; lia]).
        pose proof (endsInANumber_same c u1 a) as He.
        destruct (endsInANumber c u1 a) as [u2 [|]]; cbn [fst] in He.
        + eapply rgood_weaken; [|apply parseIPv4_good; eapply same_trans; eassumption].
          cbv beta. intros h Hh. unfold hostK. lia.
        + cbn [rgood]. split; [eapply same_trans; eassumption|].
          pose proof (apply_hostfun_len (c_post c) a Hpost). unfold hostK. lia.
      - hwalk. cbn [rgood]. split; [assumption | unfold hostK; lia]. }
    pose proof (percentEncodeBytes_len input pes_Host) as Hpb.
    hwalk; try (cbn [rgood]; split; [assumption | unfold hostK; lia]); apply Hkv; assumption.
  Qed.

  (* the host parser changes nothing but the validation errors of the record, and its result is
     linear in its input *)
  Theorem parseHost_good u input ns :
    rgood u (fun h => len h <= hostK (len input)) (parseHost idna_raw c u input ns).
  Proof.
    pose proof A_nonneg as HA. pose proof B_nonneg as HB.
    rewrite parseHost_unfold. pose proof (apply_hostfun_len (c_pre c) input Hpre) as Hp.
    pose proof (len_nonneg input) as Hi0.
    destruct (apply_hostfun (c_pre c) input) as [|b0 t].
    - cbn [rgood]. split; [apply same_refl|]. unfold hostK, len at 1. cbn [length]. nia.
    - destruct (b0 =? 91)%N.
      + pose proof (same_refl u) as Hs0. hwalk.
        (eapply rgood_weaken; [|apply parseIPv6_good; assumption]);
          cbv beta; intros h Hh; unfold hostK; nia.
      + destruct ns.
        * eapply rgood_weaken; [|apply parseOpaqueHost_good; apply same_refl].
          cbv beta. intros h Hh. unfold hostK. nia.
        * apply host_special_good; [apply same_refl | assumption].
  Qed.

  Theorem parseHost_size u input ns u' h :
    parseHost idna_raw c u input ns = Ok u' h ->
    len h <= 12 * (A + 1) * len input + (84 * (A + 1) + 12 * B + 41) /\ usize u' = usize u.
  Proof.
    intros H. pose proof (parseHost_good u input ns) as G. rewrite H in G. cbn [rgood] in G.
    destruct G as [[G1 _] G2]. unfold hostK in G2. split; [lia | assumption].
  Qed.
End HostSize.
Print Assumptions parseHost_size.


(* ------------------------------------------------------------------------------------------ *)
(* 3. The state machine: a potential that never increases                                      *)
(* ------------------------------------------------------------------------------------------ *)

Lemma runes_pct40 buf : len (runes ([37; 52; 48]%N ++ buf)) = 3 + len (runes buf).
Proof.
  unfold runes. rewrite !len_map. cbn [app].
  rewrite decode_cons. unfold dec1 at 1 2. change (37 <? 128)%N with true. cbn [fst snd].
  rewrite decode_cons. unfold dec1 at 1 2. change (52 <? 128)%N with true. cbn [fst snd].
  rewrite decode_cons. unfold dec1 at 1 2. change (48 <? 128)%N with true. cbn [fst snd].
  rewrite !len_cons. lia.
Qed.

Lemma cred_loop_len c : forall l pw us pa pw' us' pa',
  cred_loop c l pw us pa = (pw', us', pa') -> len us' + len pa' <= len us + len pa + 12 * len l.
Proof.
  induction l as [|ch l IH]; intros pw us pa pw' us' pa' H; cbn [cred_loop] in H.
  - injection H as _ <- <-. rewrite (@len_nil N). lia.
  - rewrite len_cons. pose proof (percentEncodeRune_len c ch (Some pes_UserInfo)) as He.
    destruct ((ch =? 58)%N && negb pw); [apply IH in H; lia|].
    destruct pw; apply IH in H; rewrite len_app in H; lia.
Qed.

Lemma host_bytes_len (r : N) (ro : option rune) (ai : bool) :
  0 <= len (match ro with Some (Bad b) => if ai then [b] else utf8_enc r | _ => utf8_enc r end) <= 4.
Proof.
  pose proof (utf8_enc_len r). destruct ro as [[x|b]|]; try lia. destruct ai; [|lia].
  unfold len. cbn [length]. lia.
Qed.

Lemma len_s_file : len s_file = 4.
Proof. reflexivity. Qed.

Lemma utf8_enc_len0 r : 0 <= len (utf8_enc r) <= 4.
Proof. pose proof (utf8_enc_len r). lia. Qed.

Ltac note pf :=
  let T := type of pf in
  lazymatch goal with
  | _ : T |- _ => fail
  | _ => pose proof pf
  end.

Section Size.
  Variable idna_raw : str -> str * bool.
  Variables A B : Z.
  Hypothesis Hlin : forall d, len (fst (idna_raw d)) <= A * len d + B.
  Variable c : cfg.
  Hypothesis Hpre : hostfun_ok (c_pre c).
  Hypothesis Hpost : hostfun_ok (c_post c).
  Variable inp : list rune.
  Variable base : option url.
  Variable override : option state.

  Notation n := (n_inp inp).
  Notation stepf := (step idna_raw c inp base override).
  Notation runf := (run idna_raw c inp base override).
  Notation TInv := (Termination.Inv inp).

  (* weight of a buffer byte in the host states; constant part of the host bound; budget per code point *)
  Definition H_ : Z := 12 * (A + 1).
  Definition HC : Z := 7 * H_ + 12 * B + 41.
  Definition G : Z := 4 * H_.
  Definition hsz (buf : str) : Z := H_ * len buf.
  Definition bsz : Z := match base with Some b => usize b | None => 0 end.
  Definition bsch : Z := match base with Some b => len (u_scheme b) | None => 0 end.

  Lemma H_ge : 12 <= H_.
  Proof. unfold H_. pose proof (A_nonneg idna_raw A B Hlin). lia. Qed.
  Lemma G_eq : G = 4 * H_. Proof. reflexivity. Qed.
  Lemma HC_ge : 0 <= HC.
  Proof. unfold HC. pose proof H_ge. pose proof (B_nonneg idna_raw A B Hlin). lia. Qed.
  Lemma hsz_nil : hsz [] = 0.
  Proof. unfold hsz. rewrite (@len_nil N). lia. Qed.
  Lemma hsz_ge buf : len buf <= hsz buf /\ 12 * len (runes buf) <= hsz buf.
  Proof. unfold hsz. pose proof H_ge. pose proof (runes_len buf). pose proof (len_nonneg buf). pose proof (len_nonneg (runes buf)). nia. Qed.
  Lemma hsz_app buf x : 0 <= len x <= 4 -> hsz (buf ++ x) <= hsz buf + G.
  Proof. intros Hx. unfold hsz, G. rewrite len_app. pose proof H_ge. nia. Qed.
  Lemma bsz_facts : 0 <= bsch <= bsz.
  Proof.
    unfold bsch, bsz. destruct base as [b|]; [|lia]. unfold usize.
    pose proof (psize_nonneg (u_path b)).
    pose proof (osize_nonneg (u_host b)). pose proof (osize_nonneg (u_port b)).
    pose proof (osize_nonneg (u_query b)). pose proof (osize_nonneg (u_fragment b)).
    unfold len. lia.
  Qed.

  Lemma parseHost_fact u buf ns u' h :
    parseHost idna_raw c u buf ns = Ok u' h -> same u u' /\ len h <= hsz buf + HC.
  Proof.
    intros E. pose proof (parseHost_good idna_raw A B Hlin c Hpre Hpost u buf ns) as Hg.
    rewrite E in Hg. cbn [rgood] in Hg. destruct Hg as [Hs Hl]. split; [assumption|].
    unfold hostK in Hl. unfold hsz, HC, H_. lia.
  Qed.
  Lemma parseHost_fact_er u buf ns u' e : parseHost idna_raw c u buf ns = Er u' e -> same u u'.
  Proof.
    intros E. pose proof (parseHost_good idna_raw A B Hlin c Hpre Hpost u buf ns) as Hg.
    rewrite E in Hg. exact Hg.
  Qed.

  (* the weight of the buffer: what it can still become *)
  Definition wbuf (st : state) (buf : str) : Z :=
    match st with
    | Authority => 12 * len (runes buf)            (* re-encoded into username/password *)
    | SchemeStart | Scheme | PortSt | PathStart | PathSt | OpaquePath | QuerySt | FragmentSt => len buf
    | _ => hsz buf                                 (* handed to the host parser *)
    end.
  (* how often the pointer can still be moved back (Scheme -> NoScheme, Authority -> Host) *)
  Definition resets (st : state) : Z :=
    match st with
    | SchemeStart | Scheme => 2
    | NoScheme | SpecialRelativeOrAuthority | SpecialAuthoritySlashes | SpecialAuthorityIgnoreSlashes
    | PathOrAuthority | Relative | RelativeSlash | Authority => 1
    | _ => 0
    end.
  (* constant growth still ahead: the host parser's additive constant, "file", a port *)
  Definition cst (st : state) : Z :=
    match st with
    | PortSt => 5
    | FileHost | FileSlash => HC
    | PathStart | PathSt | OpaquePath | QuerySt | FragmentSt => 0
    | _ => HC + 5
    end.
  (* what can still be copied from the base *)
  Definition bcopy (st : state) : Z :=
    match st with
    | SchemeStart | Scheme | NoScheme | SpecialRelativeOrAuthority | Relative | File | FileSlash => bsz
    | RelativeSlash => bsz - bsch
    | _ => 0
    end.
  Definition R (st : state) : Z := resets st * (G * (n + 1)) + cst st + bcopy st.

  Definition Psi (m : mstate) : Z :=
    usize (m_url m) + wbuf (m_state m) (m_buf m) + R (m_state m) + G * (n + 1 - m_ptr m).

  (* in the opaque-path state the path is rewritten from the buffer at every code point *)
  Definition SInv (m : mstate) : Prop :=
    (m_state m = OpaquePath -> len (m_buf m) <= psize (u_path (m_url m)))
    /\ len (m_buf m) <= 12 * (m_ptr m + 1).

  Definition ubound (m : mstate) (u : url) : Prop := usize u <= Psi m.

  Definition Qp (m : mstate) (o : outcome) : Prop :=
    match o with
    | Cont m' =>
        len (m_buf m') <= len (m_buf m) + 12
        /\ (if m_eof m' then ubound m (m_url m') else Psi m' <= Psi m /\ SInv m')
    | RetUrl u' | RetErr u' _ | RetNilNil u' => ubound m u'
    | Panic => True
    end.

  Lemma Qp_mherr m u t f k : ubound m u -> (forall u', same u u' -> Qp m (k u')) -> Qp m (mherr c u t f k).
  Proof.
    intros Hu H. unfold mherr. pose proof (handleError_same c u t f) as Hs.
    destruct (handleError c u t f) as [u' [e|]]; cbn [fst] in Hs; [|apply H; assumption].
    cbn [Qp]. unfold ubound in *. destruct Hs as [Hs _]. lia.
  Qed.
  Lemma Qp_mherr_true m u t k : ubound m u -> Qp m (mherr c u t true k).
  Proof.
    intros Hu. unfold mherr. pose proof (handleError_same c u t true) as Hs.
    unfold handleError in *. cbn [fst orb] in *. cbn [Qp]. unfold ubound in *. destruct Hs as [Hs _]. lia.
  Qed.

  Lemma n_nonneg' : 0 <= n.
  Proof. unfold n_inp, len. lia. Qed.

  Ltac walk :=
    repeat first
      [ progress cbv beta
      | match goal with
        | |- Qp _ (mherr _ _ _ true _) => apply Qp_mherr_true
        | |- Qp _ (mherr _ _ _ _ _) => apply Qp_mherr; [|intros ?u' ?Hu']
        | |- Qp _ ((if ?b then _ else _) _) => destruct b eqn:?
        | |- Qp _ (if ?b then _ else _) => destruct b eqn:?
        | |- Qp _ (match ?x with _ => _ end) => destruct x eqn:?
        | |- Qp _ ?o =>
            match o with
            | context [if ?b then _ else _] => destruct b eqn:?
            | context [match ?x with [] => _ | _ :: _ => _ end] => destruct x eqn:?
            | context [match ?x with Some _ => _ | None => _ end] => destruct x eqn:?
            | context [match ?x with Good _ => _ | Bad _ => _ end] => destruct x eqn:?
            end
        end ].

  Ltac bytes_tac :=
    repeat match goal with |- context [match ?y with _ => _ end] => destruct y end;
    first [apply utf8_enc_len0 | unfold len; cbn [length]; lia].

  (* facts about the sub-terms that occur in the goal *)
  Ltac facts :=
    repeat match goal with
    | H : same _ _ |- _ => destruct H as [? ?]
    | H : parseHost _ _ _ _ _ = Ok _ _ |- _ => apply parseHost_fact in H; destruct H as [? ?]
    | H : parseHost _ _ _ _ _ = Er _ _ |- _ => apply parseHost_fact_er in H
    | H : cred_loop _ _ _ _ _ = (_, _, _) |- _ => apply cred_loop_len in H
    | H : (65535 <? ?p)%N = false |- _ => note (itoa_len5 p ltac:(lia))
    | |- context [cleanDefaultPort c ?x] =>
        let v := fresh "cdp" in
        pose proof (usize_cleanDefaultPort c x); set (v := cleanDefaultPort c x) in *; clearbody v
    | |- context [percentEncodeRune ?c0 ?r ?t] => note (percentEncodeRune_len c0 r t)
    | |- context [percentEncodeInvalidRune ?c0 ?r ?t] => note (percentEncodeInvalidRune_len c0 r t)
    | |- context [utf8_enc ?r] => note (utf8_enc_len r)
    | |- context [hsz (?b ++ ?x)] =>
        note (hsz_app b x ltac:(bytes_tac))
    | |- context [hsz ?b] => note (hsz_ge b)
    | |- context [shortenPath ?s ?p] => note (psize_shortenPath s p)
    | |- context [replace_last ?p ?x] => note (psize_replace_last p x)
    end.

  Ltac start m Hst Hinv Hs :=
    destruct m as [st p e buf aF brF pwF u]; cbn [m_state] in Hst; subst st;
    destruct Hinv as (He & Hp & Hb); cbn [m_state m_ptr m_eof m_buf] in He, Hp, Hb;
    subst e; unfold SInv in Hs; cbn [m_state m_buf m_url m_ptr] in Hs; destruct Hs as [Hs Hbuf];
    first [specialize (Hs eq_refl) | clear Hs];
    cbv beta iota zeta delta [step m_state m_ptr m_eof m_buf m_at m_br m_pw m_url];
    cbn [bufinv] in Hb; try subst buf;
    destruct (n <=? p + 1)%Z eqn:En.

  Ltac arith p :=
    pose proof H_ge; pose proof G_eq; pose proof HC_ge; pose proof n_nonneg'; pose proof bsz_facts;
    pose proof (Z.mul_le_mono_nonneg_l (p + 1) n G ltac:(lia) ltac:(lia));
    pose proof (Z.mul_le_mono_nonneg_l 0 (p + 1) G ltac:(lia) ltac:(lia));
    pose proof (Z.mul_le_mono_nonneg_l 0 n G ltac:(lia) ltac:(lia)).

  Ltac post :=
    facts;
    try match goal with E : base = _ |- _ => unfold bsz, bsch in *; rewrite E in * end;
    unfold usize in *;
    cbn [set_input set_scheme set_username set_password set_host set_port set_path set_query set_fragment
         set_verrs set_sp copy_base_auth addSegment
         u_scheme u_username u_password u_host u_port u_path u_query u_fragment osize] in *;
    repeat match goal with E : u_path _ = _ :: _ |- _ => rewrite E in * end;
    rewrite ?psize_app in *; cbn [psize] in *;
    rewrite ?len_s_file, ?hsz_nil, ?runes_snoc_len, ?runes_nil_len, ?runes_pct40, ?len_app in *;
    repeat match goal with
           | |- context [psize ?q] => note (psize_nonneg q)
           | |- context [osize ?q] => note (osize_nonneg q)
           | H : context [psize ?q] |- _ => note (psize_nonneg q)
           | H : context [osize ?q] |- _ => note (osize_nonneg q)
           end;
    unfold len in *; cbn [length] in *.
  Ltac finp p :=
    unfold Qp, ubound, Psi, SInv, R, mk; cbn [m_state m_ptr m_eof m_buf m_url wbuf resets cst bcopy];
    repeat match goal with |- context [(?a <=? ?b)%Z] => destruct (a <=? b)%Z eqn:? end;
    repeat split; intros; try discriminate;
    arith p;
    try match goal with Hb : len (runes ?b) <= p + 1 |- _ =>
          pose proof (Z.mul_le_mono_nonneg_l _ _ G ltac:(lia) Hb) end;
    post.
  Ltac quick :=
    unfold Qp, ubound, SInv, mk; cbn [m_state m_ptr m_eof m_buf m_url];
    repeat match goal with |- context [(?a <=? ?b)%Z] => destruct (a <=? b)%Z eqn:? end;
    repeat split; intros; try discriminate.
  Ltac small :=
    repeat match goal with
    | |- context [percentEncodeRune ?c0 ?r ?t] => note (percentEncodeRune_len c0 r t)
    | |- context [percentEncodeInvalidRune ?c0 ?r ?t] => note (percentEncodeInvalidRune_len c0 r t)
    | |- context [utf8_enc ?r] => note (utf8_enc_len r)
    end;
    rewrite ?len_app in *; unfold len in *; cbn [length] in *; lia.
  Ltac fin p := try exact I; quick; first [solve [small] | finp p; lia].

  Lemma P_SchemeStart m : m_state m = SchemeStart -> TInv m -> SInv m -> Qp m (stepf m).
  Proof. intros Hst Hinv Hs. start m Hst Hinv Hs; walk; fin p. Qed.
  Lemma P_Scheme m : m_state m = Scheme -> TInv m -> SInv m -> Qp m (stepf m).
  Proof. intros Hst Hinv Hs. start m Hst Hinv Hs; walk; fin p. Qed.
  Lemma P_NoScheme m : m_state m = NoScheme -> TInv m -> SInv m -> Qp m (stepf m).
  Proof. intros Hst Hinv Hs. start m Hst Hinv Hs; walk; fin p. Qed.
  Lemma P_OpaquePath m : m_state m = OpaquePath -> TInv m -> SInv m -> Qp m (stepf m).
  Proof. intros Hst Hinv Hs. start m Hst Hinv Hs; walk; fin p. Qed.
  Lemma P_SpecialRelativeOrAuthority m : m_state m = SpecialRelativeOrAuthority -> TInv m -> SInv m -> Qp m (stepf m).
  Proof. intros Hst Hinv Hs. start m Hst Hinv Hs; walk; fin p. Qed.
  Lemma P_SpecialAuthoritySlashes m : m_state m = SpecialAuthoritySlashes -> TInv m -> SInv m -> Qp m (stepf m).
  Proof. intros Hst Hinv Hs. start m Hst Hinv Hs; walk; fin p. Qed.
  Lemma P_SpecialAuthorityIgnoreSlashes m : m_state m = SpecialAuthorityIgnoreSlashes -> TInv m -> SInv m -> Qp m (stepf m).
  Proof. intros Hst Hinv Hs. start m Hst Hinv Hs; walk; fin p. Qed.
  Lemma P_PathOrAuthority m : m_state m = PathOrAuthority -> TInv m -> SInv m -> Qp m (stepf m).
  Proof. intros Hst Hinv Hs. start m Hst Hinv Hs; walk; fin p. Qed.
  Lemma P_Authority m : m_state m = Authority -> TInv m -> SInv m -> Qp m (stepf m).
  Proof. intros Hst Hinv Hs. start m Hst Hinv Hs; destruct aF; walk; fin p. Qed.
  Lemma P_HostSt m : m_state m = HostSt -> TInv m -> SInv m -> Qp m (stepf m).
  Proof. intros Hst Hinv Hs. start m Hst Hinv Hs; walk; fin p. Qed.
  Lemma P_HostnameSt m : m_state m = HostnameSt -> TInv m -> SInv m -> Qp m (stepf m).
  Proof. intros Hst Hinv Hs. start m Hst Hinv Hs; walk; fin p. Qed.
  Lemma P_File m : m_state m = File -> TInv m -> SInv m -> Qp m (stepf m).
  Proof. intros Hst Hinv Hs. start m Hst Hinv Hs; walk; fin p. Qed.
  Lemma P_FileHost m : m_state m = FileHost -> TInv m -> SInv m -> Qp m (stepf m).
  Proof. intros Hst Hinv Hs. start m Hst Hinv Hs; walk; fin p. Qed.
  Lemma P_FileSlash m : m_state m = FileSlash -> TInv m -> SInv m -> Qp m (stepf m).
  Proof. intros Hst Hinv Hs. start m Hst Hinv Hs; walk; fin p. Qed.
  Lemma P_PortSt m : m_state m = PortSt -> TInv m -> SInv m -> Qp m (stepf m).
  Proof. intros Hst Hinv Hs. start m Hst Hinv Hs; walk; fin p. Qed.
  Lemma P_PathSt m : m_state m = PathSt -> TInv m -> SInv m -> Qp m (stepf m).
  Proof. intros Hst Hinv Hs. start m Hst Hinv Hs; walk; fin p. Qed.
  Lemma P_PathStart m : m_state m = PathStart -> TInv m -> SInv m -> Qp m (stepf m).
  Proof. intros Hst Hinv Hs. start m Hst Hinv Hs; walk; fin p. Qed.
  Lemma P_QuerySt m : m_state m = QuerySt -> TInv m -> SInv m -> Qp m (stepf m).
  Proof. intros Hst Hinv Hs. start m Hst Hinv Hs; walk; fin p. Qed.
  Lemma P_FragmentSt m : m_state m = FragmentSt -> TInv m -> SInv m -> Qp m (stepf m).
  Proof. intros Hst Hinv Hs. start m Hst Hinv Hs; walk; fin p. Qed.
  Lemma P_Relative m : m_state m = Relative -> TInv m -> SInv m -> Qp m (stepf m).
  Proof. intros Hst Hinv Hs. start m Hst Hinv Hs; walk; fin p. Qed.
  Lemma P_RelativeSlash m : m_state m = RelativeSlash -> TInv m -> SInv m -> Qp m (stepf m).
  Proof. intros Hst Hinv Hs. start m Hst Hinv Hs; walk; fin p. Qed.

  Lemma step_Qp m : TInv m -> SInv m -> Qp m (stepf m).
  Proof.
    intros H Hs. destruct (m_state m) eqn:E;
      eauto using P_SchemeStart, P_Scheme, P_NoScheme, P_OpaquePath, P_SpecialRelativeOrAuthority,
        P_SpecialAuthoritySlashes, P_SpecialAuthorityIgnoreSlashes, P_PathOrAuthority, P_Authority,
        P_HostSt, P_HostnameSt, P_File, P_FileHost, P_FileSlash, P_PortSt, P_PathSt, P_PathStart,
        P_QuerySt, P_FragmentSt, P_Relative, P_RelativeSlash.
  Qed.

  (* Z2, global form: along a run the potential never increases (and the invariants are kept) *)
  Theorem step_potential m m' :
    stepf m = Cont m' -> TInv m -> SInv m -> m_eof m' = false ->
    Psi m' <= Psi m /\ SInv m' /\ TInv m'.
  Proof.
    intros Es Hi Hs He. pose proof (step_Qp m Hi Hs) as HQ. rewrite Es in HQ. cbn [Qp] in HQ.
    rewrite He in HQ. destruct HQ as (_ & H1 & H2).
    destruct (step_decreases idna_raw c inp base override m m' Es Hi He) as [Hi' _]. auto.
  Qed.

  (* the record a run leaves behind, however it ends *)
  Definition left_url (r : result) : option url :=
    match r with RUrl u | RErr u _ | RNilNil u => Some u | RPanic | ROutOfFuel => None end.

  Lemma run_potential : forall fuel m u', TInv m -> SInv m ->
    left_url (runf fuel m) = Some u' -> usize u' <= Psi m.
  Proof.
    induction fuel as [|f IH]; intros m u' Hi Hs Hr; [discriminate|].
    cbn [run] in Hr. pose proof (step_Qp m Hi Hs) as HQ.
    destruct (stepf m) as [m'|u1|u1 e1|u1|] eqn:Es; cbn [Qp] in HQ; unfold ubound in HQ;
      try (cbn [left_url] in Hr; injection Hr as <-; exact HQ); try discriminate.
    destruct HQ as [_ HQ]. destruct (m_eof m') eqn:Ee.
    - cbn [left_url] in Hr. injection Hr as <-. exact HQ.
    - destruct HQ as [H1 H2].
      destruct (step_decreases idna_raw c inp base override m m' Es Hi Ee) as [Hi' _].
      specialize (IH m' u' Hi' H2 Hr). lia.
  Qed.

  Lemma SInv_init st0 u : SInv (m_init st0 u).
  Proof.
    unfold SInv, m_init, mk. cbn [m_state m_buf m_url m_ptr]. split; [intros _|];
      rewrite (@len_nil N); [apply psize_nonneg | lia].
  Qed.

  Lemma Psi_init st0 u : Psi (m_init st0 u) <= usize u + G * (3 * n + 4) + HC + 5 + bsz.
  Proof.
    unfold Psi, m_init, mk, R. cbn [m_state m_buf m_url m_ptr].
    pose proof H_ge. pose proof G_eq. pose proof HC_ge. pose proof n_nonneg'. pose proof bsz_facts.
    pose proof (Z.mul_le_mono_nonneg_l 0 n G ltac:(lia) ltac:(lia)).
    destruct st0; cbn [wbuf resets cst bcopy]; rewrite ?hsz_nil, ?runes_nil_len, ?(@len_nil N); lia.
  Qed.

  (* Z3 for the loop: whatever the start state and however the run ends, the record it leaves behind is
     linear in the number of code points of the input *)
  Theorem run_size fuel st0 u u' :
    left_url (runf fuel (mk st0 (-1) false [] false false false u)) = Some u' ->
    usize u' <= usize u + 144 * (A + 1) * len inp + (276 * (A + 1) + 12 * B + 46) + bsz.
  Proof.
    intros Hr. fold (m_init st0 u) in Hr.
    pose proof (run_potential fuel _ u' (Inv_init inp st0 u) (SInv_init st0 u) Hr) as H1.
    pose proof (Psi_init st0 u) as H2. unfold G, HC, H_, n_inp in *. lia.
  Qed.

  (* Z5 (a): in every reachable machine state the buffer holds at most 12 bytes per code point read
     so far (the buffer is emptied whenever the pointer is moved back) *)
  Inductive reach : mstate -> Prop :=
  | reach_init st0 u : reach (m_init st0 u)
  | reach_step m m' : reach m -> stepf m = Cont m' -> m_eof m' = false -> reach m'.

  Lemma reach_inv m : reach m -> TInv m /\ SInv m.
  Proof.
    induction 1 as [st0 u|m m' Hr [Hi Hs] Es Ee]; [split; [apply Inv_init | apply SInv_init]|].
    destruct (step_potential m m' Es Hi Hs Ee) as (_ & H1 & H2). auto.
  Qed.

  Theorem buf_bound m : reach m -> len (m_buf m) <= 12 * (m_ptr m + 1) /\ m_ptr m + 1 <= len inp.
  Proof.
    intros Hr. destruct (reach_inv m Hr) as [(_ & Hp & _) [_ Hb]]. unfold n_inp in Hp. split; [assumption | lia].
  Qed.

  (* Z5 (b): one iteration lengthens the buffer by at most 12 bytes *)
  Lemma step_buf m m' : TInv m -> SInv m -> stepf m = Cont m' -> len (m_buf m') <= len (m_buf m) + 12.
  Proof.
    intros Hi Hs Es. pose proof (step_Qp m Hi Hs) as HQ. rewrite Es in HQ. cbn [Qp] in HQ. tauto.
  Qed.

  (* The iterations that read the buffer as a whole (runes buf / the credentials loop in Authority,
     isSpecialScheme buf in Scheme, parseHost buf in Host/Hostname/FileHost, digits_val buf in Port,
     str_lower buf inside is{Single,Double}DotPathSegment buf at the end of a path segment, copying
     buf into query/fragment) all either end the run or leave the buffer empty.  run_scan adds up
     the buffer length over ALL iterations that end the run or empty the buffer. *)
  Fixpoint run_scan (fuel : nat) (m : mstate) : Z :=
    match fuel with
    | O => 0
    | Datatypes.S f =>
        match stepf m with
        | Cont m' => if m_eof m' then len (m_buf m)
                     else (if is_nil (m_buf m') then len (m_buf m) else 0) + run_scan f m'
        | _ => len (m_buf m)
        end
    end.

  Lemma run_scan_bound : forall fuel m, TInv m -> SInv m ->
    run_scan fuel m <= len (m_buf m) + 12 * Z.of_nat (snd (run_count idna_raw c inp base override fuel m)).
  Proof.
    induction fuel as [|f IH]; intros m Hi Hs; [cbn; pose proof (len_nonneg (m_buf m)); lia|].
    cbn [run_scan run_count]. pose proof (len_nonneg (m_buf m)) as Hn.
    destruct (stepf m) as [m'| | | |] eqn:Es; cbn [snd]; try lia.
    pose proof (step_buf m m' Hi Hs Es) as Hb.
    destruct (m_eof m') eqn:Ee; [cbn [snd]; lia|].
    destruct (step_potential m m' Es Hi Hs Ee) as (_ & H1 & H2). specialize (IH m' H2 H1).
    destruct (run_count idna_raw c inp base override f m') as [r k]. cbn [snd] in *.
    destruct (m_buf m') as [|x l] eqn:Eb; cbn [is_nil]; rewrite ?(@len_nil N) in *; lia.
  Qed.

  (* the total size of what is scanned as a whole during a run is linear in the input *)
  Theorem scanned_total fuel st0 u :
    run_scan fuel (m_init st0 u) <= 12 * (14 * (len inp + 3) - 2).
  Proof.
    pose proof (run_scan_bound fuel _ (Inv_init inp st0 u) (SInv_init st0 u)) as H.
    pose proof (run_steps_bound_sharp idna_raw c inp base override fuel st0 u) as H2.
    unfold steps in H2. unfold m_init at 2 in H. unfold mk in H. cbn [m_buf] in H.
    rewrite (@len_nil N) in H. lia.
  Qed.

  (* ---------------------------------------------------------------------------------------- *)
  (* Z2, local form: the growth of  usize url + len buffer  in ONE iteration, from ANY machine   *)
  (* state (no invariant on pointer or flags is needed).  The constant is 25 and not 12 because  *)
  (* in the opaque-path state the 12 bytes are appended to the buffer AND the path is set to the *)
  (* buffer; everywhere else it is at most 12.                                                   *)
  (* ---------------------------------------------------------------------------------------- *)
  Definition growth (m : mstate) : Z :=
    match m_state m with
    | HostSt | HostnameSt | FileHost => hsz (m_buf m) + HC           (* the host parser's result *)
    | Authority => 12 * (len (runes (m_buf m)) + 3)                  (* credentials, "%40" *)
    | NoScheme | Relative | RelativeSlash | File | FileSlash => bsz  (* components of the base *)
    | _ => 0
    end.
  Definition opq (m : mstate) : Prop :=
    m_state m = OpaquePath -> len (m_buf m) <= psize (u_path (m_url m)).
  Definition lbound (m : mstate) (u : url) : Prop := usize u <= msize m + 25 + growth m.
  Definition Ql (m : mstate) (o : outcome) : Prop :=
    match o with
    | Cont m' => if m_eof m' then lbound m (m_url m')                       (* last iteration: the buffer is dead *)
                 else msize m' <= msize m + 25 + growth m /\ opq m'
    | RetUrl u' | RetErr u' _ | RetNilNil u' => lbound m u'
    | Panic => True
    end.

  Lemma Ql_mherr m u t f k : lbound m u -> (forall u', same u u' -> Ql m (k u')) -> Ql m (mherr c u t f k).
  Proof.
    intros Hu H. unfold mherr. pose proof (handleError_same c u t f) as Hs.
    destruct (handleError c u t f) as [u' [e|]]; cbn [fst] in Hs; [|apply H; assumption].
    cbn [Ql]. unfold lbound in *. destruct Hs as [Hs _]. lia.
  Qed.
  Lemma Ql_mherr_true m u t k : lbound m u -> Ql m (mherr c u t true k).
  Proof.
    intros Hu. unfold mherr. pose proof (handleError_same c u t true) as Hs.
    unfold handleError in *. cbn [fst orb] in *. cbn [Ql]. unfold lbound in *. destruct Hs as [Hs _]. lia.
  Qed.

  Ltac lwalk :=
    repeat first
      [ progress cbv beta
      | match goal with
        | |- Ql _ (mherr _ _ _ true _) => apply Ql_mherr_true
        | |- Ql _ (mherr _ _ _ _ _) => apply Ql_mherr; [|intros ?u' ?Hu']
        | |- Ql _ ((if ?b then _ else _) _) => destruct b eqn:?
        | |- Ql _ (if ?b then _ else _) => destruct b eqn:?
        | |- Ql _ (match ?x with _ => _ end) => destruct x eqn:?
        | |- Ql _ ?o =>
            match o with
            | context [if ?b then _ else _] => destruct b eqn:?
            | context [match ?x with [] => _ | _ :: _ => _ end] => destruct x eqn:?
            | context [match ?x with Some _ => _ | None => _ end] => destruct x eqn:?
            | context [match ?x with Good _ => _ | Bad _ => _ end] => destruct x eqn:?
            end
        end ].

  Ltac lstart m Hst Hs :=
    destruct m as [st p e buf aF brF pwF u]; cbn [m_state] in Hst; subst st;
    unfold opq in Hs; cbn [m_state m_buf m_url] in Hs; first [specialize (Hs eq_refl) | clear Hs];
    cbv beta iota zeta delta [step m_state m_ptr m_eof m_buf m_at m_br m_pw m_url];
    destruct (n <=? p + 1)%Z eqn:En; [|destruct e].

  Ltac lfin :=
    try exact I;
    unfold Ql, lbound, msize, growth, opq, mk; cbn [m_state m_ptr m_eof m_buf m_url];
    repeat match goal with |- context [(?a <=? ?b)%Z] => destruct (a <=? b)%Z eqn:? end;
    repeat split; intros; try discriminate;
    pose proof H_ge; pose proof HC_ge; pose proof bsz_facts;
    post; lia.

  Lemma L_SchemeStart m : m_state m = SchemeStart -> opq m -> Ql m (stepf m).
  Proof. intros Hst Hs. lstart m Hst Hs; lwalk; lfin. Qed.
  Lemma L_Scheme m : m_state m = Scheme -> opq m -> Ql m (stepf m).
  Proof. intros Hst Hs. lstart m Hst Hs; lwalk; lfin. Qed.
  Lemma L_NoScheme m : m_state m = NoScheme -> opq m -> Ql m (stepf m).
  Proof. intros Hst Hs. lstart m Hst Hs; lwalk; lfin. Qed.
  Lemma L_OpaquePath m : m_state m = OpaquePath -> opq m -> Ql m (stepf m).
  Proof. intros Hst Hs. lstart m Hst Hs; lwalk; lfin. Qed.
  Lemma L_SpecialRelativeOrAuthority m : m_state m = SpecialRelativeOrAuthority -> opq m -> Ql m (stepf m).
  Proof. intros Hst Hs. lstart m Hst Hs; lwalk; lfin. Qed.
  Lemma L_SpecialAuthoritySlashes m : m_state m = SpecialAuthoritySlashes -> opq m -> Ql m (stepf m).
  Proof. intros Hst Hs. lstart m Hst Hs; lwalk; lfin. Qed.
  Lemma L_SpecialAuthorityIgnoreSlashes m : m_state m = SpecialAuthorityIgnoreSlashes -> opq m -> Ql m (stepf m).
  Proof. intros Hst Hs. lstart m Hst Hs; lwalk; lfin. Qed.
  Lemma L_PathOrAuthority m : m_state m = PathOrAuthority -> opq m -> Ql m (stepf m).
  Proof. intros Hst Hs. lstart m Hst Hs; lwalk; lfin. Qed.
  Lemma L_Authority m : m_state m = Authority -> opq m -> Ql m (stepf m).
  Proof. intros Hst Hs. lstart m Hst Hs; destruct aF; lwalk; lfin. Qed.
  Lemma L_HostSt m : m_state m = HostSt -> opq m -> Ql m (stepf m).
  Proof. intros Hst Hs. lstart m Hst Hs; lwalk; lfin. Qed.
  Lemma L_HostnameSt m : m_state m = HostnameSt -> opq m -> Ql m (stepf m).
  Proof. intros Hst Hs. lstart m Hst Hs; lwalk; lfin. Qed.
  Lemma L_File m : m_state m = File -> opq m -> Ql m (stepf m).
  Proof. intros Hst Hs. lstart m Hst Hs; lwalk; lfin. Qed.
  Lemma L_FileHost m : m_state m = FileHost -> opq m -> Ql m (stepf m).
  Proof. intros Hst Hs. lstart m Hst Hs; lwalk; lfin. Qed.
  Lemma L_FileSlash m : m_state m = FileSlash -> opq m -> Ql m (stepf m).
  Proof. intros Hst Hs. lstart m Hst Hs; lwalk; lfin. Qed.
  Lemma L_PortSt m : m_state m = PortSt -> opq m -> Ql m (stepf m).
  Proof. intros Hst Hs. lstart m Hst Hs; lwalk; lfin. Qed.
  Lemma L_PathSt m : m_state m = PathSt -> opq m -> Ql m (stepf m).
  Proof. intros Hst Hs. lstart m Hst Hs; lwalk; lfin. Qed.
  Lemma L_PathStart m : m_state m = PathStart -> opq m -> Ql m (stepf m).
  Proof. intros Hst Hs. lstart m Hst Hs; lwalk; lfin. Qed.
  Lemma L_QuerySt m : m_state m = QuerySt -> opq m -> Ql m (stepf m).
  Proof. intros Hst Hs. lstart m Hst Hs; lwalk; lfin. Qed.
  Lemma L_FragmentSt m : m_state m = FragmentSt -> opq m -> Ql m (stepf m).
  Proof. intros Hst Hs. lstart m Hst Hs; lwalk; lfin. Qed.
  Lemma L_Relative m : m_state m = Relative -> opq m -> Ql m (stepf m).
  Proof. intros Hst Hs. lstart m Hst Hs; lwalk; lfin. Qed.
  Lemma L_RelativeSlash m : m_state m = RelativeSlash -> opq m -> Ql m (stepf m).
  Proof. intros Hst Hs. lstart m Hst Hs; lwalk; lfin. Qed.

  Lemma step_Ql m : opq m -> Ql m (stepf m).
  Proof.
    intros Hs. destruct (m_state m) eqn:E;
      eauto using L_SchemeStart, L_Scheme, L_NoScheme, L_OpaquePath, L_SpecialRelativeOrAuthority,
        L_SpecialAuthoritySlashes, L_SpecialAuthorityIgnoreSlashes, L_PathOrAuthority, L_Authority,
        L_HostSt, L_HostnameSt, L_File, L_FileHost, L_FileSlash, L_PortSt, L_PathSt, L_PathStart,
        L_QuerySt, L_FragmentSt, L_Relative, L_RelativeSlash.
  Qed.

  Theorem step_size m :
    opq m ->
    match stepf m with
    | Cont m' => if m_eof m' then usize (m_url m') <= msize m + 25 + growth m
                 else msize m' <= msize m + 25 + growth m /\ opq m'
    | RetUrl u' | RetErr u' _ | RetNilNil u' => usize u' <= msize m + 25 + growth m
    | Panic => True
    end.
  Proof. intros Hs. pose proof (step_Ql m Hs) as H. destruct (stepf m); exact H. Qed.

  (* opq is no restriction on the states of a run *)
  Lemma reach_opq m : reach m -> opq m.
  Proof. intros Hr. destruct (reach_inv m Hr) as [_ [H _]]. exact H. Qed.

End Size.
Print Assumptions step_potential.
Print Assumptions step_size.
Print Assumptions buf_bound.
Print Assumptions scanned_total.

(* ------------------------------------------------------------------------------------------ *)
(* 4. The entry points: cleaning the input does not add code points                            *)
(* ------------------------------------------------------------------------------------------ *)

Lemma filter_len {T} (f : T -> bool) l : len (filter f l) <= len l.
Proof.
  induction l as [|x l IH]; cbn [filter]; [lia|]. destruct (f x); rewrite ?len_cons; lia.
Qed.

Lemma isTabOrNewline_high b : (128 <= b)%N -> isTabOrNewline b = false.
Proof. intros H. unfold isTabOrNewline, bs_test, mem, bs_ASCIITabOrNewline. cbn [existsb]. lia. Qed.

Definition keep (b : N) : bool := negb (isTabOrNewline b).

Lemma filter_utf8_enc r : filter keep (utf8_enc r) = if keep r then utf8_enc r else [].
Proof.
  assert (Hh : forall b, (128 <= b)%N -> keep b = true)
    by (intros b Hb; unfold keep; rewrite isTabOrNewline_high by lia; reflexivity).
  unfold utf8_enc. destruct (r <? 128)%N eqn:E1; [cbn [filter]; destruct (keep r); reflexivity|].
  rewrite (Hh r) by lia.
  destruct (r <? 2048)%N eqn:E2; [cbn [filter]; rewrite !Hh by lia; reflexivity|].
  destruct (is_surrogate r || (1114111 <? r)%N); [cbn [filter]; rewrite !Hh by lia; reflexivity|].
  destruct (r <? 65536)%N; cbn [filter]; rewrite !Hh by lia; reflexivity.
Qed.

Lemma filter_encode l : filter keep (encode_runes l) = encode_runes (filter keep l).
Proof.
  unfold encode_runes. induction l as [|r l IH]; [reflexivity|].
  cbn [flat_map filter]. rewrite filter_app, filter_utf8_enc, IH. destruct (keep r); reflexivity.
Qed.

Lemma head_ok_encode l : head_ok (encode_runes l).
Proof.
  destruct l as [|r l]; [exact I|]. unfold encode_runes. cbn [flat_map].
  pose proof (utf8_enc_head_ok r) as H. pose proof (utf8_enc_len r) as Hl.
  destruct (utf8_enc r) as [|b t]; [rewrite (@len_nil N) in Hl; lia|]. exact H.
Qed.

Lemma decode_encode_len l : len (decode (encode_runes l)) = len l.
Proof.
  induction l as [|r l IH]; [reflexivity|].
  change (encode_runes (r :: l)) with (utf8_enc r ++ encode_runes l).
  rewrite decode_app by apply head_ok_encode. rewrite len_app, IH, len_cons.
  pose proof (decode_utf8_enc_len r). unfold len. lia.
Qed.

(* the code points the state machine runs over are at most the bytes of the given string *)
Lemma clean_input_len ai s : len (decode (fst (remove_tabnl_sv ai s))) <= len s.
Proof.
  unfold remove_tabnl_sv, remove_tabnl. cbv beta iota zeta.
  change (fun b : N => negb (isTabOrNewline b)) with keep.
  match goal with |- context [if ?b then _ else _] => destruct b end; cbn [fst].
  - unfold to_valid. rewrite filter_encode, decode_encode_len.
    pose proof (filter_len keep (runes s)). pose proof (runes_len s). lia.
  - pose proof (decode_len (filter keep s)). pose proof (filter_len keep s). lia.
Qed.

Lemma trim_left_set_len s : len (trim_left_set s) <= len s.
Proof.
  induction s as [|b s IH]; cbn [trim_left_set]; [lia|]. destruct (in_c0_or_space b); rewrite ?len_cons; lia.
Qed.
Lemma trim_c0space_len s : len (fst (trim_c0space s)) <= len s.
Proof.
  unfold trim_c0space. cbn [fst]. rewrite len_rev.
  pose proof (trim_left_set_len (rev (trim_left_set s))). rewrite len_rev in *.
  pose proof (trim_left_set_len s). lia.
Qed.

Definition obsz (b : option url) : Z := match b with Some x => usize x | None => 0 end.

Section Entry.
  Variable idna_raw : str -> str * bool.
  Variables A B : Z.
  Hypothesis Hlin : forall d, len (fst (idna_raw d)) <= A * len d + B.
  Variable c : cfg.
  Hypothesis Hpre : hostfun_ok (c_pre c).
  Hypothesis Hpost : hostfun_ok (c_post c).

  (* the constants of the bound: K per input byte, K0 additive *)
  Definition KA : Z := 144 * (A + 1).
  Definition K0 : Z := 276 * (A + 1) + 12 * B + 46.

  Lemma KA_nonneg : 0 <= KA /\ 0 <= K0.
  Proof. unfold KA, K0. pose proof (A_nonneg idna_raw A B Hlin). pose proof (B_nonneg idna_raw A B Hlin). lia. Qed.

  (* BasicParser after the (optional) trimming: tab/newline removal, then the loop *)
  Definition bp_start (baseUrl : option url) (override : option state) (u : url) : result :=
    let '(i, changed) := remove_tabnl_sv (c_acceptInvalid c) (u_input u) in
    let k (u : url) : result :=
      let inp := decode (u_input u) in
      let st := match override with Some s => s | None => SchemeStart end in
      run idna_raw c inp (option_map clone baseUrl) override (fuel_of (length inp))
          (mk st (-1)%Z false [] false false false u) in
    if changed then
      match handleError c u InvalidURLUnit false with
      | (u', Some e) => RErr u' e
      | (u', None) => k (set_input u' i)
      end
    else k u.

  Lemma BasicParser_unfold s b u0 ov :
    BasicParser idna_raw c s b u0 ov =
    match u0 with
    | Some u => bp_start b ov (set_input u s)
    | None =>
        let u := empty_url s in
        let '(i, changed) := trim_c0space s in
        if changed then
          match handleError c u InvalidURLUnit false with
          | (u', Some e) => RErr u' e
          | (u', None) => bp_start b ov (set_input u' i)
          end
        else bp_start b ov u
    end.
  Proof. reflexivity. Qed.

  Lemma bsz_clone b : bsz (option_map clone b) = obsz b.
  Proof. destruct b; reflexivity. Qed.

  Lemma bp_start_size b ov u u' :
    left_url (bp_start b ov u) = Some u' ->
    usize u' <= usize u + KA * len (u_input u) + K0 + obsz b.
  Proof.
    pose proof KA_nonneg as [HK HK0].
    assert (Hob : 0 <= obsz b) by (destruct b; cbn [obsz]; [apply usize_nonneg | lia]).
    pose proof (len_nonneg (u_input u)) as Hin.
    assert (Hk : forall u1 st, left_url (run idna_raw c (decode (u_input u1)) (option_map clone b) ov
                                  (fuel_of (length (decode (u_input u1)))) (mk st (-1) false [] false false false u1)) = Some u' ->
                 usize u' <= usize u1 + KA * len (decode (u_input u1)) + K0 + obsz b).
    { intros u1 st Hr. pose proof (run_size idna_raw A B Hlin c Hpre Hpost _ _ _ _ _ _ _ Hr) as H.
      rewrite bsz_clone in H. unfold KA, K0. lia. }
    unfold bp_start. pose proof (clean_input_len (c_acceptInvalid c) (u_input u)) as Hc.
    destruct (remove_tabnl_sv (c_acceptInvalid c) (u_input u)) as [i ch]. cbn [fst] in Hc.
    destruct ch.
    - pose proof (handleError_same c u InvalidURLUnit false) as [Hs _].
      destruct (handleError c u InvalidURLUnit false) as [u1 [e|]]; cbn [fst] in Hs; intros Hr.
      + cbn [left_url] in Hr. injection Hr as <-. nia.
      + apply Hk in Hr. cbn [set_input u_input] in Hr. rewrite usize_set_input in Hr.
        assert (KA * len (decode i) <= KA * len (u_input u)) by (apply Z.mul_le_mono_nonneg_l; lia). lia.
    - intros Hr. apply Hk in Hr. pose proof (decode_len (u_input u)).
      assert (KA * len (decode (u_input u)) <= KA * len (u_input u)) by (apply Z.mul_le_mono_nonneg_l; lia). lia.
  Qed.

  (* Z3, general form: BasicParser(urlOrRef, base, url, stateOverride), however it returns (this covers the
     setters, whose record is whatever the parser leaves behind) *)
  Theorem BasicParser_size s b u0 ov u' :
    left_url (BasicParser idna_raw c s b u0 ov) = Some u' ->
    usize u' <= obsz u0 + KA * len s + K0 + obsz b.
  Proof.
    pose proof KA_nonneg as [HK HK0].
    assert (Hob : 0 <= obsz b) by (destruct b; cbn [obsz]; [apply usize_nonneg | lia]).
    pose proof (len_nonneg s) as Hs0.
    rewrite BasicParser_unfold. destruct u0 as [u|].
    - intros Hr. apply bp_start_size in Hr. cbn [set_input u_input] in Hr. rewrite usize_set_input in Hr.
      cbn [obsz]. lia.
    - cbv zeta. pose proof (trim_c0space_len s) as Ht. destruct (trim_c0space s) as [i ch]. cbn [fst] in Ht.
      cbn [obsz]. assert (Hu0 : usize (empty_url s) = 0) by reflexivity.
      destruct ch.
      + pose proof (handleError_same c (empty_url s) InvalidURLUnit false) as [Hs _].
        destruct (handleError c (empty_url s) InvalidURLUnit false) as [u1 [e|]]; cbn [fst] in Hs; intros Hr.
        * cbn [left_url] in Hr. injection Hr as <-. nia.
        * apply bp_start_size in Hr. cbn [set_input u_input] in Hr. rewrite usize_set_input in Hr.
          assert (KA * len i <= KA * len s) by (apply Z.mul_le_mono_nonneg_l; lia). lia.
      + intros Hr. apply bp_start_size in Hr. cbn [empty_url u_input] in Hr. lia.
  Qed.

  (* Z3: Parse and Url.Parse *)
  Theorem Parse_size s u : Parse idna_raw c s = PUrl u -> usize u <= KA * len s + K0.
  Proof.
    unfold Parse. intros H.
    pose proof (BasicParser_size s None None None u) as G.
    destruct (BasicParser idna_raw c s None None None); cbn [to_pres] in H; try discriminate.
    injection H as ->. specialize (G eq_refl). cbn [obsz] in G. lia.
  Qed.

  Theorem UrlParse_size b ref u : UrlParse idna_raw c b ref = PUrl u -> usize u <= KA * len ref + usize b + K0.
  Proof.
    unfold UrlParse. intros H.
    pose proof (BasicParser_size ref (Some b) None None u) as G.
    destruct (BasicParser idna_raw c ref (Some b) None None); cbn [to_pres] in H; try discriminate.
    injection H as ->. specialize (G eq_refl). cbn [obsz] in G. lia.
  Qed.

  (* Parse(rawUrl, ref): both strings count *)
  Theorem ParseRef_size raw ref u :
    ParseRef idna_raw c raw ref = PUrl u -> usize u <= KA * (len raw + len ref) + 2 * K0.
  Proof.
    pose proof KA_nonneg as [HK HK0]. pose proof (len_nonneg raw) as Hr0. pose proof (len_nonneg ref) as Hr1.
    unfold ParseRef. destruct raw as [|x raw'].
    - intros H. apply Parse_size in H. rewrite (@len_nil N). lia.
    - destruct (Parse idna_raw c (x :: raw')) as [b| | | |] eqn:Eb; try discriminate.
      intros H. apply UrlParse_size in H. apply Parse_size in Eb. lia.
  Qed.
End Entry.
Print Assumptions run_size.
Print Assumptions BasicParser_size.
Print Assumptions Parse_size.
Print Assumptions UrlParse_size.
Print Assumptions ParseRef_size.

(* ------------------------------------------------------------------------------------------ *)
(* Z4. The serializer adds only delimiters                                                     *)
(* ------------------------------------------------------------------------------------------ *)

Lemma pathname_len p : len (flat_map (fun s : str => 47%N :: s) p) = psize p.
Proof. induction p as [|s p IH]; [reflexivity|]. cbn [flat_map psize]. rewrite len_app, len_cons, IH. lia. Qed.

Lemma Pathname_len u pn : Pathname u = Some pn -> len pn <= psize (u_path u).
Proof.
  unfold Pathname, path_string. destruct (u_opaque u).
  - destruct (u_path u) as [|s0 l]; cbn [nth_opt psize]; [discriminate|].
    intros E. injection E as <-. pose proof (psize_nonneg l). lia.
  - intros E. injection E as <-. rewrite pathname_len. lia.
Qed.

(* ":" "//" ":" "@" ":" "?" "#" -- the "/" in front of each path segment is counted in usize *)
Theorem Href_size u ex h : Href u ex = Some h -> len h <= usize u + 8.
Proof.
  unfold Href. destruct (Pathname u) as [pn|] eqn:Epn; [|discriminate].
  apply Pathname_len in Epn. unfold usize.
  pose proof (osize_nonneg (u_port u)) as Hport.
  intros H. injection H as <-.
  repeat match goal with
         | |- context [match ?x with Some _ => _ | None => _ end] => destruct x
         | |- context [if ?b then _ else _] => destruct b
         end;
    cbn [osize] in *; unfold len in *; cbn [length]; repeat (rewrite app_length; cbn [length]); lia.
Qed.
Print Assumptions Href_size.

(* parse then serialize: linear in the input *)
Corollary Parse_Href_size idna_raw A B c :
  (forall d, len (fst (idna_raw d)) <= A * len d + B) -> hostfun_ok (c_pre c) -> hostfun_ok (c_post c) ->
  forall s u h, Parse idna_raw c s = PUrl u -> Href u false = Some h ->
  len h <= 144 * (A + 1) * len s + (276 * (A + 1) + 12 * B + 54).
Proof.
  intros Hlin Hpre Hpost s u h Hp Hh. apply Href_size in Hh.
  pose proof (Parse_size idna_raw A B Hlin c Hpre Hpost s u Hp) as H. unfold KA, K0 in H. lia.
Qed.
Print Assumptions Parse_Href_size.

(* ------------------------------------------------------------------------------------------ *)
(* 5. The premises hold for concrete values; concrete runs                                     *)
(* ------------------------------------------------------------------------------------------ *)
From Verif Require Import Gen.Options.
From Coq Require Import String.

(* the identity oracle of the other examples of this development: A = 1, B = 0 *)
Definition sz_idna (s : str) : str * bool := (s, false).
Example sz_idna_lin : forall d, len (fst (sz_idna d)) <= 1 * len d + 0.
Proof. intros d. cbn [sz_idna fst]. lia. Qed.
Example default_cfg_hostfuns : hostfun_ok (c_pre default_cfg) /\ hostfun_ok (c_post default_cfg).
Proof. split; exact I. Qed.
(* a user-supplied function that satisfies hostfun_ok, and one that does not *)
Example hostfun_ok_example : hostfun_ok (HF_fun (fun h => 119%N :: 119%N :: 119%N :: 46%N :: h)).
Proof. intros h. rewrite !len_cons. lia. Qed.
Example hostfun_ok_needed : ~ hostfun_ok (HF_fun (fun h => h ++ h ++ h ++ h ++ h ++ h ++ h ++ h ++ h)).
Proof. intros H. specialize (H [1%N]). vm_compute in H. apply H. reflexivity. Qed.

(* the premises of step_potential / step_size hold in the initial state of a concrete run, and the run goes on *)
Example step_premises :
  let inp := decode (bs "http://h/") in
  let m := m_init SchemeStart (empty_url []) in
  Termination.Inv inp m /\ SInv m /\ opq m /\
  exists m', step sz_idna default_cfg inp None None m = Cont m' /\ m_eof m' = false.
Proof.
  cbv zeta. split; [apply Inv_init|]. split; [apply SInv_init|]. split; [intros H; discriminate H|].
  vm_compute. eexists. split; reflexivity.
Qed.

(* with the identity oracle and the default options:  usize u <= 288 * len s + 598 *)
Corollary Parse_size_default s u :
  Parse sz_idna default_cfg s = PUrl u -> usize u <= 288 * len s + 598.
Proof.
  intros H. pose proof (Parse_size sz_idna 1 0 sz_idna_lin default_cfg I I s u H) as G.
  unfold KA, K0 in G. lia.
Qed.

Local Open Scope string_scope.
Definition sz_of (r : pres) : Z := match r with PUrl u => usize u | _ => -1 end.
Definition href_len (r : pres) : Z :=
  match r with PUrl u => match Href u false with Some h => len h | None => -1 end | _ => -1 end.

(* 20 bytes in, usize 12 (the delimiters are not counted, one per path segment is), 20 bytes out *)
Example sz_run1 :
  let r := Parse sz_idna default_cfg (bs "http://u:p@h:8/p?q#f") in sz_of r = 12 /\ href_len r = 20.
Proof. vm_compute. split; reflexivity. Qed.
(* the factor 12 is attained: U+1F600 (4 bytes) in a path becomes 12 bytes *)
Example sz_run2 :
  sz_of (Parse sz_idna default_cfg (bs "http://h/" ++ [240; 159; 152; 128]%N)%list) = 4 + 1 + 13.
Proof. vm_compute. reflexivity. Qed.
(* an invalid byte reads as U+FFFD: 1 byte in, 9 bytes out *)
Example sz_run3 :
  sz_of (Parse sz_idna default_cfg (bs "http://h/" ++ [255]%N)%list) = 4 + 1 + 10.
Proof. vm_compute. reflexivity. Qed.
(* many '@': every one is re-encoded as "%40", 3 bytes for 1 *)
Example sz_run4 :
  sz_of (Parse sz_idna default_cfg (bs "http://@@@@@@@@@@h/")) = 4 + 27 + 1 + 1.
Proof. vm_compute. reflexivity. Qed.
(* 200 invalid bytes in an opaque path: 202 bytes in, 1802 out (factor 9); the proved bound is 288 * 202 + 598 *)
Example sz_run3b :
  let r := Parse sz_idna default_cfg (bs "x:" ++ List.repeat 255%N 200)%list in sz_of r = 1802 /\ href_len r = 1802.
Proof. vm_compute. split; reflexivity. Qed.
(* a relative reference copies the base *)
Example sz_run5 :
  match Parse sz_idna default_cfg (bs "http://user:pw@host:81/a/b/c?q") with
  | PUrl b => usize b = 23 /\ sz_of (UrlParse sz_idna default_cfg b (bs "#f")) = 24
  | _ => False
  end.
Proof. vm_compute. split; reflexivity. Qed.
(* the scanned-buffer total and the number of iterations on the first example *)
Example sz_run6 :
  let inp := decode (bs "http://u:p@h:8/p?q#f") in
  run_scan sz_idna default_cfg inp None None 4000 (m_init SchemeStart (empty_url [])) = 15
  /\ 12 * (14 * (len inp + 3) - 2) = 3840.
Proof. vm_compute. split; reflexivity. Qed.

(* ------------------------------------------------------------------------------------------ *)
(* SUMMARY                                                                                     *)
(*                                                                                             *)
(* SIZE.  Nothing in the model grows more than linearly:                                       *)
(*   - the pointer is moved back at most twice in a run (Scheme -> NoScheme, Authority ->      *)
(*     Host), so every code point is read at most three times, each time adding at most        *)
(*     48 * (A + 1) to the potential (the price of one code point in the host states: up to 4  *)
(*     buffer bytes, each of which the host parser may turn into 12 * (A + 1) bytes; elsewhere *)
(*     at most 12 bytes); that is where 3 * 48 * (A + 1) = 144 * (A + 1) comes from;           *)
(*   - the base is copied at most once (usize b appears with coefficient 1);                   *)
(*   - the host parser is applied to the buffer at most once per run.                          *)
(*                                                                                             *)
(* FORCED HYPOTHESES.  (1) Hlin, the linearity of the IDNA oracle, as asked.  (2) hostfun_ok   *)
(* for the pre/post host functions: the option WithPreParseHostFunc/WithPostParseHostFunc      *)
(* installs an arbitrary Go function, about which nothing can be proved; the functions the     *)
(* library itself installs satisfy it (hostfun_gsb_len, hostfun_sem_len).                      *)
(*                                                                                             *)
(* WORK (what the size of the data does not show).  In the model each of the following is      *)
(* linear in the size of its argument and is performed only in an iteration that ends the run  *)
(* or empties the buffer, so scanned_total bounds their total cost by 168 * (len inp + 3):     *)
(*   runes buf and cred_loop (Authority, on '@' and at the end of the authority),              *)
(*   isSpecialScheme c buf / str_eqb buf "file" (Scheme, on ':'),                              *)
(*   parseHost buf (Host, Hostname, FileHost), digits_val 10 buf (Port),                       *)
(*   str_lower buf inside isSingleDotPathSegment/isDoubleDotPathSegment (Path, segment end),   *)
(*   set_query/set_fragment (Some buf) (Query, Fragment).                                      *)
(* The opaque-path state executes  set_path u [buf']  at EVERY code point; in the Go code that *)
(* is  url.path.setOpaque(buffer.String())  with a strings.Builder, whose String() does not    *)
(* copy, so it is O(1) there - with a bytes.Buffer it would be quadratic.  The model records   *)
(* this as the invariant  len buf <= psize (u_path u)  (SInv, opq).                            *)
(* Two things read the REMAINING INPUT as a whole and are outside what the model measures:     *)
(*   inputString.remainingStartsWith builds  string(i.runes[i.pointer+1:])  - O(remaining) -   *)
(*     on every call; it is called from Scheme (on ':'), SpecialRelativeOrAuthority,           *)
(*     SpecialAuthoritySlashes and once in parseIPv6;                                          *)
(*   inputString.remainingFromPointer likewise, called from File and FileSlash.                *)
(* None of these states has a self loop other than Scheme, which leaves on ':' (rank in        *)
(* Proofs/Termination.v strictly decreases on every change of state), so each is executed at   *)
(* most once per run: O(n) in total, not O(n^2).  No construct was found that copies the       *)
(* remaining input, or the buffer, at every iteration.                                         *)
(* ------------------------------------------------------------------------------------------ *)
