(* Output size of the BasicParser state machine (Model/Machine.v) is LINEAR in its input, and the
   serializer adds only delimiters.  Together with Proofs/Termination.v (at most 14 * (n + 3) - 2
   loop iterations) this is the part of "no quadratic blow-up" that a functional model can carry.

   Z1  percentEncodeRune_len, utf8_enc_len         one code point -> at most 12 / 4 bytes
   Z2  step_size                                   growth of  usize url + len buffer  per iteration
       parseHost_size                              the host parser is linear (IDNA oracle: hypothesis Hlin)
       step_potential                              a potential that never increases along a run
   Z3  run_size, BasicParser_size, Parse_size, UrlParse_size
   Z4  Href_size
   Z5  buffer discipline: buf_bound, scanned_total (see the comment at the end of the file)

   No construct of the MODEL grows more than linearly.  Two places of the Go code do work that is
   not visible in the size of anything, see the comment "WORK" at the end. *)
From Verif Require Import Lib.Base Lib.Utf8 Lib.GoStr Model.Cfg Gen.Tables Model.Sets Model.Percent Model.Url Model.Host Model.Machine Model.Api.
From Verif Require Import Proofs.Termination.
From Coq Require Import Lia ZifyBool ZifyN ZifyNat.

Ltac Zify.zify_post_hook ::= Z.div_mod_to_equations.

Local Open Scope Z_scope.

(* ------------------------------------------------------------------------------------------ *)
(* 0. Lengths of lists                                                                         *)
(* ------------------------------------------------------------------------------------------ *)

Lemma len_app {A} (a b : list A) : len (a ++ b) = len a + len b.
Proof. unfold len. rewrite app_length. lia. Qed.
Lemma len_nil {A} : len (@nil A) = 0.
Proof. reflexivity. Qed.
Lemma len_cons {A} (x : A) l : len (x :: l) = 1 + len l.
Proof. unfold len. cbn [length]. lia. Qed.
Lemma len_nonneg {A} (l : list A) : 0 <= len l.
Proof. unfold len. lia. Qed.
Lemma len_rev {A} (l : list A) : len (rev l) = len l.
Proof. unfold len. rewrite rev_length. reflexivity. Qed.
Lemma len_map {A B} (f : A -> B) (l : list A) : len (map f l) = len l.
Proof. unfold len. rewrite map_length. reflexivity. Qed.

Lemma flat_map_len_le {A B} (f : A -> list B) (k : Z) (l : list A) :
  (forall x, len (f x) <= k) -> len (flat_map f l) <= k * len l.
Proof.
  intros H. induction l as [|x l IH]; cbn [flat_map]; [unfold len; cbn [length]; lia|].
  rewrite len_app, len_cons. specialize (H x). lia.
Qed.

Lemma is_nil_true {A} (l : list A) : is_nil l = true -> l = [].
Proof. destruct l; [reflexivity | discriminate]. Qed.

(* ------------------------------------------------------------------------------------------ *)
(* Z1. One code point gives at most 4 bytes, percent-encoded at most 12                        *)
(* ------------------------------------------------------------------------------------------ *)

Theorem utf8_enc_len r : 1 <= len (utf8_enc r) <= 4.
Proof.
  unfold utf8_enc.
  destruct (r <? 128)%N; [unfold len; cbn [length]; lia|].
  destruct (r <? 2048)%N; [unfold len; cbn [length]; lia|].
  destruct (is_surrogate r || (1114111 <? r)%N); [unfold len; cbn [length]; lia|].
  destruct (r <? 65536)%N; unfold len; cbn [length]; lia.
Qed.
Print Assumptions utf8_enc_len.

Lemma utf8_enc_len_small v : (v < 2048)%N -> len (utf8_enc v) <= 2.
Proof.
  intros H. unfold utf8_enc.
  destruct (v <? 128)%N eqn:E1; [unfold len; cbn [length]; lia|].
  destruct (v <? 2048)%N eqn:E2; [unfold len; cbn [length]; lia|]. lia.
Qed.

Lemma pct_byte_len b : len (pct_byte b) = 3.
Proof. reflexivity. Qed.

Lemma pct_utf8_len r : len (flat_map pct_byte (utf8_enc r)) <= 12.
Proof.
  pose proof (flat_map_len_le pct_byte 3 (utf8_enc r)) as H.
  pose proof (utf8_enc_len r). specialize (H (fun b => Z.eq_le_incl _ _ (pct_byte_len b))). lia.
Qed.

(* for every configuration, including the ISO-8859-1 override, and every (or no) encode set *)
Theorem percentEncodeRune_len c r tr : len (percentEncodeRune c r tr) <= 12.
Proof.
  unfold percentEncodeRune. pose proof (pct_utf8_len r). pose proof (utf8_enc_len r).
  pose proof (pct_byte_len (fst (latin1_enc r))).
  destruct (c_latin1 c); destruct tr as [t|]; try destruct (RuneShouldBeEncoded t r); lia.
Qed.
Print Assumptions percentEncodeRune_len.

Lemma percentEncodeRune_len_pos c r tr : 1 <= len (percentEncodeRune c r tr).
Proof.
  unfold percentEncodeRune. pose proof (utf8_enc_len r).
  pose proof (pct_byte_len (fst (latin1_enc r))).
  assert (1 <= len (flat_map pct_byte (utf8_enc r))).
  { destruct (utf8_enc r) as [|b l]; [rewrite len_nil in *; lia|].
    cbn [flat_map]. rewrite len_app, pct_byte_len. pose proof (len_nonneg (flat_map pct_byte l)). lia. }
  destruct (c_latin1 c); destruct tr as [t|]; try destruct (RuneShouldBeEncoded t r); lia.
Qed.

Lemma percentEncodeInvalidRune_len c r tr : len (percentEncodeInvalidRune c r tr) <= 12.
Proof. unfold percentEncodeInvalidRune. destruct (c_singlePct c); apply percentEncodeRune_len. Qed.

Example percentEncodeRune_len_sharp :
  len (percentEncodeRune Gen.Options.default_cfg 128512%N (Some pes_Path)) = 12.
Proof. vm_compute. reflexivity. Qed.

(* []rune(s) has at most len(s) elements *)
Lemma decode_len_aux k : forall s, (length s <= k)%nat -> (length (decode s) <= length s)%nat.
Proof.
  induction k as [|k IH]; intros s H.
  - destruct s; [cbn; lia | cbn in H; lia].
  - destruct s as [|b0 rest]; [cbn; lia|].
    rewrite decode_cons. cbn [length] in *. pose proof (dec1_shorter b0 rest) as Hs.
    specialize (IH (snd (dec1 b0 rest))). lia.
Qed.
Lemma decode_len s : len (decode s) <= len s.
Proof. unfold len. pose proof (decode_len_aux (length s) s). lia. Qed.
Lemma runes_len s : len (runes s) <= len s.
Proof. unfold runes. rewrite len_map. apply decode_len. Qed.

Lemma pes_loop_len c tr l : len (pes_loop c tr l) <= 12 * len l.
Proof.
  induction l as [|r l IH]; [unfold len; cbn [length pes_loop]; lia|].
  cbn [pes_loop]. rewrite len_app, len_cons.
  match goal with |- context [if ?b then _ else _] => destruct b end.
  - pose proof (percentEncodeRune_len c r (Some (pes_set tr [37%N]))). lia.
  - pose proof (percentEncodeRune_len c r (Some tr)). lia.
Qed.

(* the lax fall-backs of the host parser *)
Lemma PercentEncodeString_len c s tr : len (PercentEncodeString c s tr) <= 12 * len s.
Proof.
  unfold PercentEncodeString. pose proof (pes_loop_len c tr (runes s)). pose proof (runes_len s). lia.
Qed.

Lemma percentEncodeBytes_len s tr : len (percentEncodeBytes s tr) <= 3 * len s.
Proof.
  unfold percentEncodeBytes. apply flat_map_len_le. intros b. unfold percentEncodeByte.
  destruct (ByteShouldBeEncoded tr b); [rewrite pct_byte_len; lia | rewrite len_cons, len_nil; lia].
Qed.

Lemma hex_val_le ch : (hex_val ch <= 15)%N.
Proof.
  unfold hex_val, is_digit.
  destruct ((48 <=? ch) && (ch <=? 57))%N eqn:E1; [lia|].
  destruct ((65 <=? ch) && (ch <=? 70))%N eqn:E2; [lia|].
  destruct ((97 <=? ch) && (ch <=? 102))%N eqn:E3; lia.
Qed.

Lemma DecodePercentEncoded_len_aux c k : forall s, (length s <= k)%nat ->
  len (DecodePercentEncoded c s) <= len s.
Proof.
  induction k as [|k IH]; intros s Hk.
  - destruct s; [cbn; lia | cbn in Hk; lia].
  - destruct s as [|b s']; [cbn; lia|].
    cbn [length] in Hk. cbn [DecodePercentEncoded].
    assert (Hd : len (b :: DecodePercentEncoded c s') <= len (b :: s')).
    { rewrite !len_cons. specialize (IH s'). lia. }
    destruct (b =? 37)%N; [|exact Hd].
    destruct s' as [|h [|l s'']]; try exact Hd.
    destruct (isHexDigit h && isHexDigit l); [|exact Hd].
    rewrite len_app, !len_cons. cbn [length] in Hk. specialize (IH s'' ltac:(lia)).
    pose proof (hex_val_le h). pose proof (hex_val_le l).
    destruct (c_latin1 c).
    + pose proof (utf8_enc_len_small (hex_val h * 16 + hex_val l)%N ltac:(lia)). lia.
    + rewrite len_cons, len_nil. lia.
Qed.
Lemma DecodePercentEncoded_len c s : len (DecodePercentEncoded c s) <= len s.
Proof. apply (DecodePercentEncoded_len_aux c (length s)). lia. Qed.

(* ------------------------------------------------------------------------------------------ *)
(* 1. The size of a URL record                                                                 *)
(* ------------------------------------------------------------------------------------------ *)

Definition osize (o : option str) : Z := match o with Some s => len s | None => 0 end.
Fixpoint psize (p : list str) : Z := match p with [] => 0 | s :: p' => len s + 1 + psize p' end.

(* bytes of all components, plus one per path segment *)
Definition usize (u : url) : Z :=
  len (u_scheme u) + len (u_username u) + len (u_password u) + osize (u_host u) + osize (u_port u)
  + psize (u_path u) + osize (u_query u) + osize (u_fragment u).

Definition msize (m : mstate) : Z := usize (m_url m) + len (m_buf m).

Lemma osize_nonneg o : 0 <= osize o.
Proof. destruct o; cbn [osize]; [apply len_nonneg | lia]. Qed.
Lemma psize_nonneg p : 0 <= psize p.
Proof. induction p as [|s p IH]; cbn [psize]; [lia|]. pose proof (len_nonneg s). lia. Qed.
Lemma usize_nonneg u : 0 <= usize u.
Proof.
  unfold usize. pose proof (psize_nonneg (u_path u)).
  pose proof (osize_nonneg (u_host u)). pose proof (osize_nonneg (u_port u)).
  pose proof (osize_nonneg (u_query u)). pose proof (osize_nonneg (u_fragment u)).
  unfold len. lia.
Qed.
Lemma psize_app p q : psize (p ++ q) = psize p + psize q.
Proof. induction p as [|s p IH]; cbn [psize app]; lia. Qed.
Lemma psize_len p : len p <= psize p.
Proof. induction p as [|s p IH]; cbn [psize]; rewrite ?len_cons, ?len_nil; [lia|]. pose proof (len_nonneg s). lia. Qed.
Lemma psize_drop_last p : psize (drop_last p) <= psize p.
Proof.
  unfold drop_last. induction p as [|s p IH]; [cbn; lia|].
  cbn [removelast]. destruct p as [|t p']; [cbn [psize]; pose proof (len_nonneg s); lia|].
  cbn [psize] in *. lia.
Qed.
Lemma psize_shortenPath sc p : psize (shortenPath sc p) <= psize p.
Proof.
  unfold shortenPath. pose proof (psize_drop_last p) as Hd. pose proof (psize_nonneg p).
  destruct p as [|x [|y p']]; try exact Hd.
  destruct (str_eqb sc s_file && isNormalizedWindowsDriveLetter x); [lia | cbn [psize] in *; lia].
Qed.
Lemma psize_replace_last p x : psize (replace_last p x) <= psize p + len x.
Proof.
  induction p as [|s p IH]; [cbn; apply len_nonneg|].
  cbn [replace_last]. destruct p as [|t p']; [cbn [psize]; pose proof (len_nonneg s); lia|].
  cbn [psize] in *. lia.
Qed.

Lemma usize_set_verrs u v : usize (set_verrs u v) = usize u.
Proof. reflexivity. Qed.
Lemma usize_set_input u v : usize (set_input u v) = usize u.
Proof. reflexivity. Qed.

(* recording a validation error does not change the size (nor the path) *)
Definition same (u u' : url) : Prop := usize u' = usize u /\ psize (u_path u') = psize (u_path u).
Lemma same_refl u : same u u. Proof. split; reflexivity. Qed.
Lemma same_trans u1 u2 u3 : same u1 u2 -> same u2 u3 -> same u1 u3.
Proof. unfold same. intros [A1 B1] [A2 B2]. split; congruence. Qed.
Lemma handleError_same c u t f : same u (fst (handleError c u t f)).
Proof. unfold handleError. cbn [fst]. destruct (c_report c); split; reflexivity. Qed.

Lemma usize_cleanDefaultPort c u : usize (cleanDefaultPort c u) <= usize u.
Proof.
  unfold cleanDefaultPort. destruct (getSpecialScheme c (u_scheme u)) as [dp|]; [|lia].
  assert (G : usize (set_port u None 0) <= usize u).
  { unfold usize. cbn [set_port u_scheme u_username u_password u_host u_port u_path u_query u_fragment osize].
    pose proof (osize_nonneg (u_port u)). lia. }
  destruct (u_port u) as [p|]; [destruct (str_eqb dp p)|]; try lia; exact G.
Qed.

(* ------------------------------------------------------------------------------------------ *)
(* 2. The host parser                                                                          *)
(* ------------------------------------------------------------------------------------------ *)

(* --- pre/post host functions --- *)
Lemma trim_left_len cut s : len (trim_left cut s) <= len s.
Proof.
  induction s as [|x s IH]; cbn [trim_left]; [lia|]. destruct (mem x cut); [rewrite len_cons; lia | lia].
Qed.
Lemma trim_set_len cut s : len (trim_set cut s) <= len s.
Proof.
  unfold trim_set, trim_right. rewrite len_rev.
  pose proof (trim_left_len cut (rev (trim_left cut s))). rewrite len_rev in *.
  pose proof (trim_left_len cut s). lia.
Qed.

Ltac bits46 x := destruct x as [|x]; [|do 6 (try destruct x as [x|x|])].
Lemma collapse_dots_cons x s :
  collapse_dots (x :: s) = collapse_dots s \/ collapse_dots (x :: s) = x :: collapse_dots s.
Proof.
  bits46 x; try (right; reflexivity).
  destruct s as [|y s']; [right; reflexivity|].
  bits46 y; try (right; reflexivity). left; reflexivity.
Qed.
Lemma collapse_dots_len s : len (collapse_dots s) <= len s.
Proof.
  induction s as [|x s IH]; [cbn; lia|].
  destruct (collapse_dots_cons x s) as [E|E]; rewrite E, ?len_cons; lia.
Qed.
Lemma hostfun_gsb_len h : len (hostfun_gsb h) <= len h.
Proof. unfold hostfun_gsb. pose proof (collapse_dots_len (trim_set [46%N] h)). pose proof (trim_set_len [46%N] h). lia. Qed.
Lemma hostfun_sem_len h : len (hostfun_sem h) <= len h + 7.
Proof.
  unfold hostfun_sem. destruct h as [|x h']; [cbn; lia|].
  pose proof (hostfun_gsb_len (x :: h')). destruct (hostfun_gsb (x :: h')); [|lia].
  unfold len in *. cbn [length] in *. lia.
Qed.

(* A user-supplied Go function (WithPreParseHostFunc / WithPostParseHostFunc) may return anything;
   the three behaviours the library itself installs lengthen the host by at most 7 bytes
   ("0.0.0.0").  This is what is asked of a user-supplied function. *)
Definition hostfun_ok (f : hostfun) : Prop :=
  match f with HF_fun g => forall h, len (g h) <= len h + 7 | _ => True end.
Lemma apply_hostfun_len f h : hostfun_ok f -> len (apply_hostfun f h) <= len h + 7.
Proof.
  destruct f; cbn [apply_hostfun hostfun_ok]; intros H;
    [lia | pose proof (hostfun_gsb_len h); lia | apply hostfun_sem_len | apply H].
Qed.

(* --- numbers --- *)
Fixpoint upto (fuel : nat) (n : N) : list N :=
  match fuel with O => [] | S f => n :: upto f (N.succ n) end.
Lemma in_upto : forall fuel n x, (n <= x)%N -> (x < n + N.of_nat fuel)%N -> In x (upto fuel n).
Proof.
  induction fuel as [|f IH]; intros n x H1 H2; [lia|].
  cbn [upto]. destruct (N.eq_dec n x) as [->|Hne]; [left; reflexivity|].
  right. apply IH; lia.
Qed.
Definition num_ok (n : N) : bool :=
  (len (itoa n) <=? 5) && (len (fmt_hex n) <=? 4) && ((256 <=? n)%N || (len (itoa n) <=? 3)).
Lemma num_ok_all : forallb num_ok (upto (256 * 256) 0%N) = true.
Proof. vm_compute. reflexivity. Qed.
Lemma num_ok_lt n : (n < 65536)%N -> num_ok n = true.
Proof.
  intros H. pose proof num_ok_all as A. rewrite forallb_forall in A. apply A.
  apply in_upto; [lia|].
  replace (N.of_nat (256 * 256)) with 65536%N by (vm_compute; reflexivity). lia.
Qed.
Lemma itoa_len5 n : (n <= 65535)%N -> len (itoa n) <= 5.
Proof. intros H. pose proof (num_ok_lt n ltac:(lia)) as A. unfold num_ok in A. lia. Qed.
Lemma fmt_hex_len4 n : (n < 65536)%N -> len (fmt_hex n) <= 4.
Proof. intros H. pose proof (num_ok_lt n ltac:(lia)) as A. unfold num_ok in A. lia. Qed.
Lemma itoa_len3 n : (n < 256)%N -> len (itoa n) <= 3.
Proof. intros H. pose proof (num_ok_lt n ltac:(lia)) as A. unfold num_ok in A. lia. Qed.

(* --- IPv4: at most 15 bytes --- *)
Lemma IPv4String_len a : (a < 4294967296)%N -> len (IPv4String a) <= 15.
Proof.
  intros H. unfold IPv4String. rewrite !len_app, !len_cons, !len_nil.
  pose proof (itoa_len3 (a / 16777216)%N ltac:(lia)).
  pose proof (itoa_len3 ((a / 65536) mod 256)%N ltac:(lia)).
  pose proof (itoa_len3 ((a / 256) mod 256)%N ltac:(lia)).
  pose proof (itoa_len3 (a mod 256)%N ltac:(lia)). lia.
Qed.

(* the result of a sub-parser of the host parser: the record changes in its validation errors only,
   and the string obeys P *)
Definition rgood {T} (u0 : url) (P : T -> Prop) (r : res T) : Prop :=
  match r with Ok u h => same u0 u /\ P h | Er u _ => same u0 u end.

Lemma rgood_herr {T} c u0 P u t f (k : url -> res T) :
  same u0 u -> (forall u', same u0 u' -> rgood u0 P (k u')) -> rgood u0 P (herr c u t f k).
Proof.
  intros Hs Hk. unfold herr. pose proof (handleError_same c u t f) as Hh.
  destruct (handleError c u t f) as [u' [e|]]; cbn [fst] in Hh.
  - cbn [rgood]. eapply same_trans; eassumption.
  - apply Hk. eapply same_trans; eassumption.
Qed.
Lemma rgood_herr_true {T} c u0 P u t (k : url -> res T) :
  same u0 u -> rgood u0 P (herr c u t true k).
Proof.
  intros Hs. unfold herr. pose proof (handleError_same c u t true) as Hh.
  unfold handleError in *. cbn [fst orb] in *. cbn [rgood]. eapply same_trans; eassumption.
Qed.
Lemma rgood_weaken {T} u0 (P P' : T -> Prop) r : (forall h, P h -> P' h) -> rgood u0 P r -> rgood u0 P' r.
Proof. intros H. destruct r; cbn [rgood]; [intros [A1 A2]; split; auto | auto]. Qed.

Lemma parseIPv4Number_same c u p : same u (fst (parseIPv4Number c u p)).
Proof.
  unfold parseIPv4Number. destruct p; [|apply same_refl].
  pose proof (handleError_same c u IPv4EmptyPart true) as H.
  destruct (handleError c u IPv4EmptyPart true) as [u' o]. exact H.
Qed.

Lemma ipv4_numbers_good c u0 : forall parts u acc, same u0 u ->
  rgood u0 (fun ns => length ns = (length parts + length acc)%nat) (ipv4_numbers c u parts acc).
Proof.
  induction parts as [|p rest IH]; intros u acc Hs.
  - cbn [ipv4_numbers rgood]. split; [assumption|]. rewrite rev_length. reflexivity.
  - cbn [ipv4_numbers]. pose proof (parseIPv4Number_same c u p) as Hp.
    destruct (parseIPv4Number c u p) as [u1 [n ve|rg]]; cbn [fst] in Hp;
      assert (Hs1 : same u0 u1) by (eapply same_trans; eassumption).
    + destruct ve.
      * apply rgood_herr; [assumption|]. intros u2 H2.
        eapply rgood_weaken; [|apply IH; assumption]. cbn [length]. intros; lia.
      * eapply rgood_weaken; [|apply IH; assumption]. cbn [length]. intros; lia.
    + apply rgood_herr; [assumption|]. intros u2 H2.
      eapply rgood_weaken; [|apply IH; assumption]. cbn [length]. intros; lia.
Qed.

Lemma ipv4_range_warn_good c u0 P : forall ns u k, same u0 u ->
  (forall u', same u0 u' -> rgood u0 P (k u')) -> rgood u0 P (ipv4_range_warn c u ns k).
Proof.
  induction ns as [|x ns IH]; intros u k Hs Hk; cbn [ipv4_range_warn]; [apply Hk; assumption|].
  destruct (255 <? x)%N; [|apply IH; assumption].
  apply rgood_herr; [assumption|]. intros u' Hu'. apply IH; assumption.
Qed.

Lemma ipv4_final_bound numbers lastn :
  (length numbers <= 4)%nat -> existsb (fun x => (255 <? x)%N) (drop_last numbers) = false ->
  last_opt numbers = Some lastn -> (256 ^ (5 - N.of_nat (length numbers)) <=? lastn)%N = false ->
  (lastn + ipv4_sum (drop_last numbers) 0 < 4294967296)%N.
Proof.
  intros Hl He Hlast Hlt.
  destruct numbers as [|a [|b [|c0 [|d [|e rest]]]]]; cbn [length] in Hl; try lia;
    cbn [last_opt] in Hlast; try discriminate; injection Hlast as <-;
    cbn [drop_last removelast existsb ipv4_sum length] in *;
    repeat match goal with
           | H : context [(256 ^ ?e)%N] |- _ => let v := eval vm_compute in (256 ^ e)%N in change (256 ^ e)%N with v in H
           | |- context [(256 ^ ?e)%N] => let v := eval vm_compute in (256 ^ e)%N in change (256 ^ e)%N with v
           end; lia.
Qed.

Definition v4_after_empty (c : cfg) (u : url) (parts : list str) : res str :=
  (if (4 <? len parts)%Z then (fun k => herr c u IPv4TooManyParts true k) else (fun k => k u))
    (fun u =>
      match ipv4_numbers c u parts [] with
      | Er u e => Er u e
      | Ok u numbers =>
          ipv4_range_warn c u numbers (fun u =>
            let init := drop_last numbers in
            if existsb (fun n => (255 <? n)%N) init then herr c u IPv4OutOfRangePart true (fun u => Ok u [])
            else match last_opt numbers with
                 | None => Ok u []
                 | Some lastn =>
                     if (256 ^ (5 - N.of_nat (length numbers)) <=? lastn)%N
                     then herr c u IPv4OutOfRangePart true (fun u => Ok u [])
                     else Ok u (IPv4String (lastn + ipv4_sum init 0))
                 end)
      end).
Lemma parseIPv4_unfold c u input :
  parseIPv4 c u input =
  let parts := split 46 input in
  match last_opt parts with
  | Some [] => herr c u IPv4EmptyPart false (fun u => v4_after_empty c u (if (1 <? len parts)%Z then drop_last parts else parts))
  | _ => v4_after_empty c u parts
  end.
Proof. reflexivity. Qed.

Lemma v4_after_empty_good c u0 u parts : same u0 u -> rgood u0 (fun h : str => len h <= 15) (v4_after_empty c u parts).
Proof.
  intros Hs. unfold v4_after_empty.
  destruct (4 <? len parts) eqn:E4; [apply rgood_herr_true; assumption|].
  pose proof (ipv4_numbers_good c u0 parts u [] Hs) as Hn.
  destruct (ipv4_numbers c u parts []) as [u1 numbers|u1 e1]; cbn [rgood] in Hn; [|exact Hn].
  destruct Hn as [Hs1 Hlen]. cbn [length] in Hlen.
  apply ipv4_range_warn_good; [assumption|]. intros u2 Hs2. cbv zeta.
  destruct (existsb (fun n : N => (255 <? n)%N) (drop_last numbers)) eqn:Eex; [apply rgood_herr_true; assumption|].
  destruct (last_opt numbers) as [lastn|] eqn:El; [|cbn [rgood]; split; [assumption | cbn; lia]].
  destruct (256 ^ (5 - N.of_nat (length numbers)) <=? lastn)%N eqn:Er; [apply rgood_herr_true; assumption|].
  cbn [rgood]. split; [assumption|]. apply IPv4String_len.
  apply ipv4_final_bound; try assumption. unfold len in E4. lia.
Qed.

Lemma parseIPv4_good c u0 u input : same u0 u -> rgood u0 (fun h => len h <= 15) (parseIPv4 c u input).
Proof.
  intros Hs. rewrite parseIPv4_unfold. cbv zeta.
  destruct (last_opt (split 46 input)) as [[|x l]|]; try (apply v4_after_empty_good; assumption).
  apply rgood_herr; [assumption|]. intros u' Hu'. apply v4_after_empty_good; assumption.
Qed.

Lemma endsInANumber_same c u a : same u (fst (endsInANumber c u a)).
Proof.
  unfold endsInANumber.
  match goal with |- context [last_opt ?p] => destruct (last_opt p) as [[|x l]|] end; try apply same_refl.
  destruct (all_in isDigit (x :: l)); [apply same_refl|].
  pose proof (parseIPv4Number_same c u (x :: l)) as H.
  destruct (parseIPv4Number c u (x :: l)) as [u' [n ve|rg]]; exact H.
Qed.

(* --- IPv6: at most 41 bytes --- *)
(* eight pieces, each below 2^16 *)
Definition ok8 (a : list N) : Prop := length a = 8%nat /\ Forall (fun x => (x < 65536)%N) a.
(* the pieces from index pi on are still zero *)
Definition ztail (a : list N) (pi : nat) : Prop := forall j, (pi <= j)%nat -> get_nth a j = 0%N.

Lemma set_nth_length a : forall i v, length (set_nth a i v) = length a.
Proof. induction a as [|x a IH]; intros [|i] v; cbn [set_nth length]; auto. Qed.
Lemma set_nth_Forall (P : N -> Prop) a : forall i v, Forall P a -> P v -> Forall P (set_nth a i v).
Proof.
  induction a as [|x a IH]; intros [|i] v Ha Hv; cbn [set_nth]; auto; inversion Ha; subst; constructor; auto.
Qed.
Lemma ok8_set_nth a i v : ok8 a -> (v < 65536)%N -> ok8 (set_nth a i v).
Proof. intros [H1 H2] Hv. split; [rewrite set_nth_length; assumption | apply set_nth_Forall; assumption]. Qed.
Lemma get_nth_small a : forall i, Forall (fun x => (x < 65536)%N) a -> (get_nth a i < 65536)%N.
Proof.
  unfold get_nth. induction a as [|x a IH]; intros [|i] H; cbn [nth]; try lia; inversion H; subst; auto.
Qed.
Lemma get_set_nth_other a : forall i j v, i <> j -> get_nth (set_nth a i v) j = get_nth a j.
Proof.
  unfold get_nth. induction a as [|x a IH]; intros [|i] [|j] v H; cbn [set_nth nth]; try reflexivity; try congruence.
  apply IH. congruence.
Qed.
Lemma get_set_nth_cases a : forall i v,
  get_nth (set_nth a i v) i = v \/ get_nth (set_nth a i v) i = get_nth a i.
Proof.
  unfold get_nth. induction a as [|x a IH]; intros [|i] v; cbn [set_nth nth]; auto.
Qed.
Lemma ztail_set_nth a pi v : ztail a pi -> ztail (set_nth a pi v) (S pi).
Proof. intros H j Hj. rewrite get_set_nth_other by lia. apply H. lia. Qed.
Lemma ztail_S a pi : ztail a pi -> ztail a (S pi).
Proof. intros H j Hj. apply H. lia. Qed.

(* the parity of `seen` tells how far the current 16-bit piece is filled *)
Definition half (seen : nat) (x : N) : Prop := if Nat.even seen then x = 0%N else (x < 256)%N.

Lemma v4tail_ok : forall l seen piece pi addr r,
  ok8 addr -> ztail addr (S pi) -> (seen <= 3)%nat -> half seen (get_nth addr pi) ->
  match piece with Some p => (p <= 255)%N | None => True end ->
  v4tail l seen piece pi addr = inl r -> ok8 (snd r).
Proof.
  assert (Hstore : forall seen pi addr p, ok8 addr -> ztail addr (S pi) -> (seen <= 3)%nat ->
            half seen (get_nth addr pi) -> (p <= 255)%N ->
            let addr' := set_nth addr pi (get_nth addr pi * 256 + p)%N in
            let pi' := if (Nat.eqb (S seen) 2 || Nat.eqb (S seen) 4)%bool then S pi else pi in
            ok8 addr' /\ ztail addr' (S pi') /\ half (S seen) (get_nth addr' pi')).
  { intros seen pi addr p Hok Hz Hseen Hh Hp addr' pi'.
    assert (Hv : (get_nth addr pi * 256 + p < 65536)%N).
    { unfold half in Hh. destruct (Nat.even seen); lia. }
    split; [apply ok8_set_nth; assumption|].
    assert (Hz' : ztail addr' (S pi)).
    { intros j Hj. unfold addr'. rewrite get_set_nth_other by lia. apply Hz. assumption. }
    destruct (get_set_nth_cases addr pi (get_nth addr pi * 256 + p)%N) as [E|E]; fold addr' in E;
      destruct seen as [|[|[|[|s]]]]; try lia; cbn [Nat.eqb orb] in pi'; unfold pi', half in *; cbn [Nat.even] in *;
      (split; [try assumption; try (apply ztail_S; assumption)|]);
      try (apply Hz'; lia); lia. }
  induction l as [|ch rest IH]; intros seen piece pi addr r Hok Hz Hseen Hh Hp Hr.
  - cbn [v4tail] in Hr. destruct piece as [p|]; [|discriminate]. injection Hr as <-. cbn [snd].
    apply (Hstore seen pi addr p); assumption.
  - cbn [v4tail] in Hr. destruct piece as [p|].
    + destruct (isDigit ch) eqn:Ed.
      * destruct (p =? 0)%N; [discriminate|].
        destruct (255 <? p * 10 + hex_val ch)%N eqn:E255; [discriminate|].
        apply (IH seen (Some (p * 10 + hex_val ch)%N) pi addr r Hok Hz Hseen Hh ltac:(cbv beta iota; lia) Hr).
      * destruct (Hstore seen pi addr p Hok Hz Hseen Hh Hp) as (H1 & H2 & H3).
        destruct ((ch =? 46)%N && (S seen <? 4)%nat) eqn:Ec; [|discriminate].
        apply (IH (S seen) None _ _ r H1 H2 ltac:(lia) H3 I Hr).
    + destruct (isDigit ch) eqn:Ed; [|discriminate].
      pose proof (hex_val_le ch).
      apply (IH seen (Some (hex_val ch)) pi addr r Hok Hz Hseen Hh ltac:(cbv beta iota; lia) Hr).
Qed.

Definition b16 (ln : nat) : N :=
  match ln with O => 1%N | S O => 16%N | S (S O) => 256%N | S (S (S O)) => 4096%N | _ => 65536%N end.

Lemma v6loop_ok : forall l pi comp addr cur r,
  ok8 addr -> ztail addr pi ->
  match cur with Some (v, ln, _) => (v < b16 ln)%N /\ (ln <= 4)%nat | None => True end ->
  v6loop l pi comp addr cur = inl r -> ok8 (snd r).
Proof.
  induction l as [|ch rest IH]; intros pi comp addr cur r Hok Hz Hcur Hr.
  - cbn [v6loop] in Hr. destruct cur as [[[v ln] ps]|]; injection Hr as <-; cbn [snd]; [|assumption].
    apply ok8_set_nth; [assumption|]. destruct Hcur as [Hv Hl].
    destruct ln as [|[|[|[|ln]]]]; cbn [b16] in Hv; lia.
  - cbn [v6loop] in Hr.
    destruct ((match cur with None => true | Some _ => false end) && Nat.eqb pi 8) eqn:E1; [discriminate|].
    destruct ((match cur with None => true | Some _ => false end) && (ch =? 58)%N) eqn:E2.
    { destruct comp; [discriminate|]. exact (IH (S pi) (Some (S pi)) addr None r Hok (ztail_S _ _ Hz) I Hr). }
    assert (Hc : exists v ln ps, (match cur with Some x => x | None => (0%N, O, ch :: rest) end) = (v, ln, ps)
                                 /\ (v < b16 ln)%N /\ (ln <= 4)%nat).
    { destruct cur as [[[v ln] ps]|]; [exists v, ln, ps; auto | exists 0%N, O, (ch :: rest); cbn; repeat split; lia]. }
    destruct Hc as (v & ln & ps & Ec & Hv & Hl). rewrite Ec in Hr.
    assert (Hv' : (v < 65536)%N) by (destruct ln as [|[|[|[|ln]]]]; cbn [b16] in Hv; lia).
    destruct ((ln <? 4)%nat && isHexDigit ch) eqn:E3.
    { pose proof (hex_val_le ch).
      refine (IH pi comp addr (Some ((v * 16 + hex_val ch)%N, S ln, ps)) r Hok Hz _ Hr).
      destruct ln as [|[|[|[|ln]]]]; cbn [b16] in *; lia. }
    destruct (ch =? 46)%N eqn:E4.
    { destruct (Nat.eqb ln 0); [discriminate|]. destruct (6 <? pi)%nat; [discriminate|].
      destruct (v4tail ps 0 None pi addr) as [[[seen pi'] addr']|e] eqn:Ev; [|discriminate].
      destruct (Nat.eqb seen 4); [|discriminate]. injection Hr as <-. cbn [snd].
      apply (v4tail_ok ps 0%nat None pi addr _ Hok (ztail_S _ _ Hz) ltac:(lia)) in Ev; [exact Ev | | exact I].
      unfold half. cbn [Nat.even]. apply Hz. lia. }
    destruct (ch =? 58)%N eqn:E5; [|discriminate].
    destruct rest as [|x rest']; [discriminate|].
    exact (IH (S pi) comp (set_nth addr pi v) None r (ok8_set_nth _ _ _ Hok Hv') (ztail_set_nth _ _ _ Hz) I Hr).
Qed.

Lemma v6swap_ok : forall swaps addr pi comp, ok8 addr -> ok8 (v6swap addr pi comp swaps).
Proof.
  induction swaps as [|s IH]; intros addr pi comp Hok; [destruct pi; exact Hok|].
  destruct pi as [|pi']; [exact Hok|]. cbn [v6swap]. apply IH.
  destruct Hok as [H1 H2]. pose proof (get_nth_small addr (S pi') H2). pose proof (get_nth_small addr (comp + S s - 1)%nat H2).
  apply ok8_set_nth; [apply ok8_set_nth; [split; assumption|]|]; assumption.
Qed.

Lemma zeros8_ok : ok8 zeros8.
Proof. split; [reflexivity|]. unfold zeros8. repeat constructor. Qed.
Lemma zeros8_ztail pi : ztail zeros8 pi.
Proof. intros j _. unfold get_nth, zeros8. do 9 (try destruct j as [|j]); reflexivity. Qed.

Lemma ipv6_parse_ok l addr : ipv6_parse l = inl addr -> ok8 addr.
Proof.
  unfold ipv6_parse. intros H.
  match type of H with (match ?r with _ => _ end) = _ => destruct r as [[[pi comp] a]|e] eqn:Er end; [|discriminate].
  assert (Ha : ok8 a).
  { assert (G : forall l0 p0 c0, v6loop l0 p0 c0 zeros8 None = inl (pi, comp, a) -> ok8 a).
    { intros l0 p0 c0 E. apply (v6loop_ok l0 p0 c0 zeros8 None _ zeros8_ok (zeros8_ztail p0) I) in E. exact E. }
    destruct l as [|x l1]; [eapply G; eassumption|].
    destruct (x =? 58)%N eqn:Ex.
    - apply N.eqb_eq in Ex. subst x. destruct l1 as [|y l2]; [discriminate|].
      destruct (y =? 58)%N eqn:Ey.
      + apply N.eqb_eq in Ey. subst y. eapply G; eassumption.
      + bits46 y; try discriminate; try (eapply G; eassumption).
    - bits46 x; try (eapply G; eassumption). cbn in Ex. discriminate. }
  destruct comp as [cm|].
  { assert (E : v6swap a 7 cm (pi - cm) = addr) by congruence. rewrite <- E. apply v6swap_ok. assumption. }
  destruct (Nat.eqb pi 8); [injection H as <-; assumption | discriminate].
Qed.

Lemma v6_print_len : forall l idx compress ig, (idx + length l = 8)%nat ->
  Forall (fun x => (x < 65536)%N) l ->
  len (v6_print l idx compress ig) <= 5 * len l - (if is_nil l then 0 else 1).
Proof.
  induction l as [|x l IH]; intros idx compress ig Hi Hs; [cbn; lia|].
  cbn [v6_print is_nil]. rewrite len_cons. inversion Hs as [|? ? Hx Hl]; subst.
  cbn [length] in Hi.
  assert (Hrec : forall cp g, len (v6_print l (S idx) cp g) <= 5 * len l - (if is_nil l then 0 else 1))
    by (intros; apply IH; [lia | assumption]).
  assert (Hnn : 0 <= len l) by apply len_nonneg.
  assert (Hl0 : 0 <= (if is_nil l then 0 else 1) <= len l) by (destruct l; cbn [is_nil]; unfold len; cbn [length]; lia).
  set (d := if is_nil l then 0 else 1) in *.
  destruct (ig && (x =? 0)%N); [specialize (Hrec compress true); lia|].
  destruct (match compress with Some ci => Nat.eqb ci idx | None => false end).
  - rewrite len_app. specialize (Hrec compress true).
    destruct (Nat.eqb idx 0); rewrite ?len_cons, ?len_nil; lia.
  - rewrite !len_app. specialize (Hrec compress false). pose proof (fmt_hex_len4 x Hx).
    destruct (Nat.eqb idx 7) eqn:E7.
    + apply Nat.eqb_eq in E7. destruct l; [|cbn [length] in Hi; lia]. cbn [v6_print].
      unfold len in *. cbn [length] in *. lia.
    + apply Nat.eqb_neq in E7. destruct l as [|y l']; [cbn [length] in Hi; lia|].
      subst d. cbn [is_nil] in *. unfold len in *. cbn [length] in *. lia.
Qed.

Lemma IPv6String_len addr : ok8 addr -> len (IPv6String addr) <= 39.
Proof.
  intros [H1 H2]. unfold IPv6String.
  pose proof (v6_print_len addr 0%nat (v6_find addr 0 None 0 None 0) false ltac:(lia) H2) as H.
  unfold len in *. rewrite H1 in H. destruct addr; [discriminate|]. cbn [is_nil] in H. lia.
Qed.

Lemma parseIPv6_good c u0 u input : same u0 u -> rgood u0 (fun h => len h <= 41) (parseIPv6 c u input).
Proof.
  intros Hs. unfold parseIPv6. destruct (ipv6_parse (runes input)) as [addr|t] eqn:E.
  - cbn [rgood]. split; [assumption|]. rewrite !len_app, !len_cons, !len_nil.
    pose proof (IPv6String_len addr (ipv6_parse_ok _ _ E)). lia.
  - apply rgood_herr_true. assumption.
Qed.

(* --- opaque hosts: at most 12 bytes per code point (or the input itself, lax) --- *)
Ltac hwalk :=
  repeat first
    [ progress cbv beta
    | match goal with
      | |- rgood _ _ (herr _ _ _ true _) => apply rgood_herr_true; assumption
      | |- rgood _ _ (herr _ _ _ _ _) => apply rgood_herr; [assumption | intros ?u ?Hu]
      | |- rgood _ _ ((if ?b then _ else _) _) => destruct b eqn:?
      | |- rgood _ _ (if ?b then _ else _) => destruct b eqn:?
      end ].

Lemma opaque_loop_good c u0 input : forall l u out, same u0 u ->
  rgood u0 (fun h => len h <= Z.max (len input) (len out + 12 * len l)) (opaque_loop c u input l out).
Proof.
  induction l as [|ch rest IH]; intros u out Hs.
  - cbn [opaque_loop rgood]. split; [assumption|]. rewrite (@len_nil N). lia.
  - cbn [opaque_loop]. pose proof (percentEncodeRune_len c ch (Some pes_C0)) as He.
    pose proof (len_nonneg rest) as Hr.
    hwalk;
      try (cbn [rgood]; split; [assumption | lia]);
      (eapply rgood_weaken; [|apply IH; assumption]); cbv beta; intros h Hh;
      rewrite len_app in Hh; rewrite len_cons; lia.
Qed.

Lemma parseOpaqueHost_good c u0 u input : same u0 u ->
  rgood u0 (fun h => len h <= 12 * len input) (parseOpaqueHost c u input).
Proof.
  intros Hs. unfold parseOpaqueHost. eapply rgood_weaken; [|apply opaque_loop_good; assumption].
  cbv beta. intros h Hh. pose proof (runes_len input). pose proof (len_nonneg input).
  rewrite (@len_nil N) in Hh. lia.
Qed.

(* the part of parseHost for special schemes: percent-decode, ToASCII, IPv4 *)
Definition host_special (idna_raw : str -> str * bool) (c : cfg) (u : url) (input : str) : res str :=
  let domain := DecodePercentEncoded c input in
  let k_valid (u : url) : res str :=
    match ToASCII idna_raw c domain with
    | None =>
        if c_lax c then Ok u domain
        else herr c u DomainToASCII true (fun u => Ok u [])
    | Some asciiDomain =>
        let forbidden := existsb isForbiddenDomain (runes asciiDomain) in
        let k_clean (u : url) : res str :=
          match endsInANumber c u asciiDomain with
          | (u, true) => parseIPv4 c u asciiDomain
          | (u, false) => Ok u (apply_hostfun (c_post c) asciiDomain)
          end in
        if forbidden then
          if c_lax c then Ok u (PercentEncodeString c asciiDomain pes_Host)
          else herr c u DomainInvalidCodePoint true k_clean
        else k_clean u
    end in
  if negb (valid_utf8 domain) then
    if c_lax c then Ok u (percentEncodeBytes input pes_Host)
    else herr c u DomainToASCII true k_valid
  else k_valid u.

Ltac bits91 x := destruct x as [|x]; [|do 7 (try destruct x as [x|x|])].
Lemma parseHost_unfold idna_raw c u input ns :
  parseHost idna_raw c u input ns =
  match apply_hostfun (c_pre c) input with
  | [] => Ok u []
  | b0 :: t =>
      if (b0 =? 91)%N then
        (if negb (has_suffix [93%N] (b0 :: t)) then (fun k => herr c u IPv6Unclosed true k) else (fun k => k u))
          (fun u => parseIPv6 c u (drop_last t))
      else if ns then parseOpaqueHost c u (b0 :: t) else host_special idna_raw c u (b0 :: t)
  end.
Proof.
  unfold parseHost. destruct (apply_hostfun (c_pre c) input) as [|b0 t]; [reflexivity|].
  bits91 b0; reflexivity.
Qed.

Section HostSize.
  Variable idna_raw : str -> str * bool.
  Variables A B : Z.
  (* the IDNA oracle (golang.org/x/net/idna, not modelled) is linear: Punycode/UTS-46 output is
     bounded by a constant multiple of the input *)
  Hypothesis Hlin : forall d, len (fst (idna_raw d)) <= A * len d + B.

  Lemma B_nonneg : 0 <= B.
  Proof. pose proof (Hlin []) as H. pose proof (len_nonneg (fst (idna_raw []))). unfold len at 2 in H. cbn [length] in H. lia. Qed.
  Lemma A_nonneg : 0 <= A.
  Proof.
    pose proof B_nonneg as HB. destruct (Z_lt_le_dec A 0) as [Hneg|]; [|assumption]. exfalso.
    pose proof (Hlin (repeat 0%N (Z.to_nat (B + 1)))) as H.
    pose proof (len_nonneg (fst (idna_raw (repeat 0%N (Z.to_nat (B + 1)))))) as H0.
    unfold len at 2 in H. rewrite repeat_length, Z2Nat.id in H by lia. nia.
  Qed.

  Lemma ToASCII_len c src a : ToASCII idna_raw c src = Some a -> len a <= A * len src + B.
  Proof.
    pose proof A_nonneg as HA. pose proof B_nonneg as HB.
    unfold ToASCII. destruct src as [|x s]; [intros H; injection H as <-; unfold len; cbn [length]; lia|].
    set (src := x :: s).
    set (src' := if c_latin1 c then match stringToUnicode src with Some s0 => s0 | None => src end else src).
    assert (Hs : len src' <= len src).
    { unfold src'. destruct (c_latin1 c); [|lia]. unfold stringToUnicode.
      destruct (forallb _ (runes src)); [apply runes_len | lia]. }
    pose proof (Hlin src') as Hl. destruct (idna_raw src') as [a0 err]. cbn [fst] in Hl.
    assert (Hm : A * len src' <= A * len src) by (apply Z.mul_le_mono_nonneg_l; assumption).
    intros H.
    assert (E : a = a0).
    { destruct (err && containsOnlyASCIIOrMiscAndNoPunycode src'); [congruence|].
      destruct (err && negb (c_lax c)); [discriminate|]. destruct (is_nil a0); [discriminate | congruence]. }
    subst a. lia.
  Qed.

  (* Z2 (host part).  K1 = 12 * (A + 1), K2 = 84 * (A + 1) + 12 * B + 41. *)
  Definition hostK (n : Z) : Z := 12 * (A + 1) * (n + 7) + 12 * B + 41.

  Variable c : cfg.
  Hypothesis Hpre : hostfun_ok (c_pre c).
  Hypothesis Hpost : hostfun_ok (c_post c).

  Lemma host_special_good u0 u input n : same u0 u -> len input <= n + 7 ->
    rgood u0 (fun h => len h <= hostK n) (host_special idna_raw c u input).
  Proof.
    intros Hs Hn. pose proof A_nonneg as HA. pose proof B_nonneg as HB.
    pose proof (len_nonneg input) as Hi0.
    unfold host_special. set (domain := DecodePercentEncoded c input).
    pose proof (DecodePercentEncoded_len c input) as Hd. fold domain in Hd.
    pose proof (len_nonneg domain) as Hd0.
    assert (Hm : A * len domain <= A * (n + 7)) by (apply Z.mul_le_mono_nonneg_l; lia).
    assert (Hkv : forall u1, same u0 u1 ->
      rgood u0 (fun h => len h <= hostK n)
        (match ToASCII idna_raw c domain with
         | None => if c_lax c then Ok u1 domain else herr c u1 DomainToASCII true (fun u => Ok u [])
         | Some asciiDomain =>
             if existsb isForbiddenDomain (runes asciiDomain) then
               if c_lax c then Ok u1 (PercentEncodeString c asciiDomain pes_Host)
               else herr c u1 DomainInvalidCodePoint true (fun u =>
                      match endsInANumber c u asciiDomain with
                      | (u, true) => parseIPv4 c u asciiDomain
                      | (u, false) => Ok u (apply_hostfun (c_post c) asciiDomain)
                      end)
             else match endsInANumber c u1 asciiDomain with
                  | (u, true) => parseIPv4 c u asciiDomain
                  | (u, false) => Ok u (apply_hostfun (c_post c) asciiDomain)
                  end
         end)).
    { intros u1 H1. destruct (ToASCII idna_raw c domain) as [a|] eqn:Ea.
      - pose proof (ToASCII_len c domain a Ea) as Hla.
        pose proof (PercentEncodeString_len c a pes_Host) as Hpe.
        hwalk; try (cbn [rgood]; split; [assumption | unfold hostK; lia]).
        pose proof (endsInANumber_same c u1 a) as He.
        destruct (endsInANumber c u1 a) as [u2 [|]]; cbn [fst] in He.
        + eapply rgood_weaken; [|apply parseIPv4_good; eapply same_trans; eassumption].
          cbv beta. intros h Hh. unfold hostK. lia.
        + cbn [rgood]. split; [eapply same_trans; eassumption|].
          pose proof (apply_hostfun_len (c_post c) a Hpost). unfold hostK. lia.
      - hwalk. cbn [rgood]. split; [assumption | unfold hostK; lia]. }
    pose proof (percentEncodeBytes_len input pes_Host) as Hpb.
    hwalk; try (cbn [rgood]; split; [assumption | unfold hostK; lia]); apply Hkv; assumption.
  Qed.

  (* the host parser changes nothing but the validation errors of the record, and its result is
     linear in its input *)
  Theorem parseHost_good u input ns :
    rgood u (fun h => len h <= hostK (len input)) (parseHost idna_raw c u input ns).
  Proof.
    pose proof A_nonneg as HA. pose proof B_nonneg as HB.
    rewrite parseHost_unfold. pose proof (apply_hostfun_len (c_pre c) input Hpre) as Hp.
    pose proof (len_nonneg input) as Hi0.
    destruct (apply_hostfun (c_pre c) input) as [|b0 t].
    - cbn [rgood]. split; [apply same_refl|]. unfold hostK, len at 1. cbn [length]. nia.
    - destruct (b0 =? 91)%N.
      + pose proof (same_refl u) as Hs0. hwalk.
        (eapply rgood_weaken; [|apply parseIPv6_good; assumption]);
          cbv beta; intros h Hh; unfold hostK; nia.
      + destruct ns.
        * eapply rgood_weaken; [|apply parseOpaqueHost_good; apply same_refl].
          cbv beta. intros h Hh. unfold hostK. nia.
        * apply host_special_good; [apply same_refl | assumption].
  Qed.

  Theorem parseHost_size u input ns u' h :
    parseHost idna_raw c u input ns = Ok u' h ->
    len h <= 12 * (A + 1) * len input + (84 * (A + 1) + 12 * B + 41) /\ usize u' = usize u.
  Proof.
    intros H. pose proof (parseHost_good u input ns) as G. rewrite H in G. cbn [rgood] in G.
    destruct G as [[G1 _] G2]. unfold hostK in G2. split; [lia | assumption].
  Qed.
End HostSize.
Print Assumptions parseHost_size.
