(* C17, the fixed-point property of canonical output, for profiles without repeated percent-decoding and without
   query sorting (any of remove-user-info, remove-port, remove-fragment, default-scheme; in particular WhatWg):

     ProfileParse idna_raw p x = CUrl u -> host_fixed idna_raw (p_cfg p) u -> Href u false = Some s ->
     exists u', ProfileParse idna_raw p s = CUrl u' /\ same_components u' u      (hence Href u' false = Some s)

   Ingredients: the round trip (RoundTrip.v), stability and host provenance along the removal setters
   (RoundTripSetters.v), and the idempotence of the removals on a record that is already in normal form. *)
From Verif Require Import Lib.Base Lib.Utf8 Lib.GoStr Model.Cfg Gen.Tables Gen.Options Model.Sets Model.Percent
  Model.Url Model.Host Model.Machine Model.Api Model.Canon Model.Preds.
From Verif Require Import Proofs.RecordInv Proofs.MachineInv Proofs.HostProofs Proofs.SearchParamsProofs Proofs.CanonTotal
  Proofs.RoundTripBase Proofs.RoundTrip Proofs.RoundTripStable Proofs.RoundTripParse Proofs.RoundTripHosts
  Proofs.RoundTripSetters.
From Coq Require Import Lia ZifyBool ZifyN ZifyNat.

Local Arguments N.eqb : simpl never.

(* the serializer only reads the components *)
Lemma Href_same u' u b : same_components u' u -> Href u' b = Href u b.
Proof.
  intros [S1 [S2 [S3 [S4 [S5 [S6 [S7 [S8 [S9 S10]]]]]]]]].
  unfold Href, Pathname. rewrite S1, S2, S3, S4, S5, S7, S8, S9, S10. reflexivity.
Qed.

Lemma same_components_refl u : same_components u u.
Proof. repeat split. Qed.

Lemma same_components_trans a b d : same_components a b -> same_components b d -> same_components a d.
Proof.
  intros [A1 [A2 [A3 [A4 [A5 [A6 [A7 [A8 [A9 A10]]]]]]]]] [B1 [B2 [B3 [B4 [B5 [B6 [B7 [B8 [B9 B10]]]]]]]]].
  unfold same_components. repeat split; congruence.
Qed.

(* trimming is the identity on a string that does not end in a space *)
Lemma trim_right_id s : (last s 0 =? 32) = false -> trim_right [32] s = s.
Proof.
  intros H. unfold trim_right. destruct (RoundTripStable.snoc_or_nil s) as [->|[s' [y ->]]]; [reflexivity|].
  rewrite last_last in H. rewrite rev_app_distr. cbn [rev app trim_left].
  unfold mem. cbn [existsb]. rewrite H. cbn [orb]. cbn [rev]. rewrite rev_involutive. reflexivity.
Qed.

Section CanonIdem.
  Variable idna_raw : str -> str * bool.
  Hypothesis HH3 : H3 idna_raw.
  Variable p : profile.
  Notation c := (p_cfg p).
  Hypothesis Hokm : cfg_okm c = true.
  Hypothesis Hrt : cfg_rt c = true.
  Hypothesis Hrep : p_repeated p = false.

  Let R : CfgRT c := cfg_rt_sound c Hrt.
  Let Hnf : c_fail c = false := R_fail c R.

  Definition Good (u : url) : Prop := Inv c u /\ SOu idna_raw c u.

  (* the three removals, without the final sort *)
  Definition rem_block (u : url) : option url :=
    bind (if p_removePort p then SetPort idna_raw c u [] else Some u) (fun u =>
    bind (if p_removeUserInfo p then bind (SetUsername c u []) (fun u => SetPassword c u []) else Some u) (fun u =>
    if p_removeFragment p then SetHash idna_raw c u [] else Some u)).

  Lemma Canonicalize_rem u :
    Canonicalize idna_raw p u = bind (rem_block u) (fun v => Some (sort_block p v)).
  Proof using Hrep.
    rewrite Canonicalize_blocks. unfold rep_block. rewrite Hrep. cbn [bind]. unfold tail_block, rem_block.
    destruct (if p_removePort p then SetPort idna_raw c u [] else Some u) as [u1|]; [|reflexivity]. cbn [bind].
    destruct (if p_removeUserInfo p then bind (SetUsername c u1 []) (fun u0 => SetPassword c u0 []) else Some u1) as [u2|];
      [|reflexivity]. cbn [bind].
    destruct (if p_removeFragment p then SetHash idna_raw c u2 [] else Some u2) as [u3|]; reflexivity.
  Qed.

  (* the normal form the removals establish *)
  Definition NFp (u : url) : Prop :=
    (p_removePort p = true -> u_port u = None /\ u_decodedPort u = 0) /\
    (p_removeUserInfo p = true -> u_username u = [] /\ u_password u = []) /\
    (p_removeFragment p = true -> u_fragment u = None).

  Lemma nhf_nocred u : Good u -> no_host_or_file u = true ->
    u_username u = [] /\ u_password u = [] /\ u_port u = None /\ u_decodedPort u = 0.
  Proof using.
    intros [Hi [Hs _]] H. unfold no_host_or_file in H.
    assert (Hc : u_host u = None \/ u_host u = Some [] \/ str_eqb (u_scheme u) s_file = true).
    { apply orb_true_iff in H. destruct H as [H|H]; [|auto]. destruct (u_host u) as [[|x h]|]; auto. discriminate H. }
    destruct (I_nocred _ _ Hi Hc) as [A [B C]]. repeat split; try assumption.
    unfold stable_b in Hs. apply andb_true_iff in Hs. destruct Hs as [Hd _]. unfold dport_ok in Hd. rewrite C in Hd.
    apply N.eqb_eq in Hd. exact Hd.
  Qed.

  Lemma pes_nil tr : PercentEncodeString c [] tr = [].
  Proof using. reflexivity. Qed.

  (* the components of the results of the three removals *)
  Lemma SetPort_empty_fields u u' : Good u -> SetPort idna_raw c u [] = Some u' ->
    u_port u' = None /\ u_decodedPort u' = 0.
  Proof using.
    intros HG E. unfold SetPort in E. destruct (no_host_or_file u) eqn:En.
    - injection E as <-. destruct (nhf_nocred u HG En) as [_ [_ [A B]]]. auto.
    - injection E as <-. repeat split.
  Qed.

  Lemma SetUserPass_empty_fields u a u' : Good u -> SetUsername c u [] = Some a -> SetPassword c a [] = Some u' ->
    u_username u' = [] /\ u_password u' = [] /\ u_port u' = u_port u /\ u_decodedPort u' = u_decodedPort u.
  Proof using.
    intros HG E1 E2. unfold SetUsername in E1. unfold SetPassword in E2. destruct (no_host_or_file u) eqn:En.
    - injection E1 as <-. rewrite En in E2. injection E2 as <-. destruct (nhf_nocred u HG En) as [A [B _]]. auto.
    - injection E1 as <-. change (no_host_or_file (set_username u (PercentEncodeString c [] pes_UserInfo))) with (no_host_or_file u) in E2.
      rewrite En in E2. injection E2 as <-. repeat split.
  Qed.

  Lemma strip_fields u u' : strip_opaque u = Some u' ->
    u_port u' = u_port u /\ u_decodedPort u' = u_decodedPort u /\ u_username u' = u_username u /\
    u_password u' = u_password u /\ u_fragment u' = u_fragment u.
  Proof using.
    unfold strip_opaque. destruct (u_opaque u); [destruct (u_path u); [discriminate|]|]; intros E; injection E as <-; repeat split.
  Qed.

  Lemma SetHash_empty_fields u u' : SetHash idna_raw c u [] = Some u' ->
    u_fragment u' = None /\ u_port u' = u_port u /\ u_decodedPort u' = u_decodedPort u /\
    u_username u' = u_username u /\ u_password u' = u_password u.
  Proof using.
    unfold SetHash. cbv zeta. cbn [u_query set_fragment]. destruct (negb (is_some (u_query u))).
    - intros E. apply strip_fields in E. cbn [u_port u_decodedPort u_username u_password u_fragment set_fragment] in E. tauto.
    - intros E. injection E as <-. repeat split.
  Qed.

  (* the removals keep the invariants and establish the normal form *)
  Theorem rem_block_facts u u3 : Good u -> rem_block u = Some u3 -> Good u3 /\ NFp u3.
  Proof using All.
    intros HG H. unfold rem_block in H.
    apply bind_Some in H. destruct H as (u1 & E1 & H). apply bind_Some in H. destruct H as (u2 & E2 & E3).
    assert (G1 : Good u1 /\ (p_removePort p = true -> u_port u1 = None /\ u_decodedPort u1 = 0)).
    { revert E1. destruct (p_removePort p); intros E1.
      - split.
        + destruct HG as [Hi Hs]. split; [apply (SetPort_empty_Inv idna_raw c u u1 Hi E1)|apply (SetPort_SO idna_raw c R u [] u1 Hs E1)].
        + intros _. apply (SetPort_empty_fields u u1 HG E1).
      - injection E1 as <-. split; [exact HG|discriminate]. }
    destruct G1 as [HG1 P1].
    assert (G2 : Good u2 /\ (p_removePort p = true -> u_port u2 = None /\ u_decodedPort u2 = 0) /\
                 (p_removeUserInfo p = true -> u_username u2 = [] /\ u_password u2 = [])).
    { revert E2. destruct (p_removeUserInfo p); intros E2.
      - apply bind_Some in E2. destruct E2 as (a & Ea & Eb).
        destruct (SetUserPass_empty_fields u1 a u2 HG1 Ea Eb) as [A [B [C D]]].
        split; [|split; [intros Hp; rewrite C, D; apply (P1 Hp)|auto]].
        destruct HG1 as [Hi Hs]. split.
        * apply (SetPassword_Inv c a [] u2 (SetUsername_Inv c u1 [] a Hi Ea) Eb).
        * apply (SetPassword_SO idna_raw c a [] u2 (SetUsername_SO idna_raw c u1 [] a Hs Ea) Eb).
      - injection E2 as <-. split; [exact HG1|]. split; [exact P1|discriminate]. }
    destruct G2 as [HG2 [P2 Q2]].
    unfold NFp. revert E3. destruct (p_removeFragment p); intros E3.
    - destruct (SetHash_empty_fields u2 u3 E3) as [A [B [C [D E]]]]. split.
      + destruct HG2 as [Hi Hs]. split; [apply (SetHash_Inv idna_raw HH3 c Hokm Hnf u2 [] u3 Hi E3)|].
        apply (SetHash_SO idna_raw c R u2 [] u3 Hi Hs E3).
      + split; [intros Hp; rewrite B, C; apply (P2 Hp)|]. split; [intros Hp; rewrite D, E; apply (Q2 Hp)|auto].
    - injection E3 as <-. split; [exact HG2|]. split; [exact P2|]. split; [exact Q2|discriminate].
  Qed.

  (* on a record in normal form, the removals change nothing *)
  Theorem rem_block_fix u : Inv c u -> stable_b c u = true -> NFp u ->
    forall w, same_components w u -> exists w', rem_block w = Some w' /\ same_components w' u /\ u_sp w' = u_sp w.
  Proof using All.
    intros Hi Hs [N1 [N2 N3]] w Hw. unfold rem_block.
    assert (S1 : exists w1, (if p_removePort p then SetPort idna_raw c w [] else Some w) = Some w1 /\ same_components w1 u /\ u_sp w1 = u_sp w).
    { destruct (p_removePort p); [|exists w; auto]. destruct (N1 eq_refl) as [A B].
      unfold SetPort. destruct (no_host_or_file w); [exists w; auto|]. eexists. split; [reflexivity|]. split; [|reflexivity].
      destruct Hw as [W1 [W2 [W3 [W4 [W5 [W6 [W7 [W8 [W9 W10]]]]]]]]]. unfold same_components.
      cbn [u_scheme u_username u_password u_host u_port u_decodedPort u_path u_opaque u_query u_fragment set_port].
      rewrite A, B. repeat split; assumption. }
    destruct S1 as [w1 [E1 [Hw1 Sp1]]]. rewrite E1. cbn [bind].
    assert (S2 : exists w2, (if p_removeUserInfo p then bind (SetUsername c w1 []) (fun u0 => SetPassword c u0 []) else Some w1) = Some w2
                            /\ same_components w2 u /\ u_sp w2 = u_sp w1).
    { destruct (p_removeUserInfo p); [|exists w1; auto]. destruct (N2 eq_refl) as [A B].
      unfold SetUsername. destruct (no_host_or_file w1) eqn:En; cbn [bind]; unfold SetPassword.
      - rewrite En. exists w1. auto.
      - change (no_host_or_file (set_username w1 (PercentEncodeString c [] pes_UserInfo))) with (no_host_or_file w1).
        rewrite En. eexists. split; [reflexivity|]. split; [|reflexivity].
        destruct Hw1 as [W1 [W2 [W3 [W4 [W5 [W6 [W7 [W8 [W9 W10]]]]]]]]]. unfold same_components.
        cbn [u_scheme u_username u_password u_host u_port u_decodedPort u_path u_opaque u_query u_fragment set_username set_password].
        rewrite !pes_nil, A, B. repeat split; assumption. }
    destruct S2 as [w2 [E2 [Hw2 Sp2]]]. rewrite E2. cbn [bind].
    assert (S3 : exists w3, (if p_removeFragment p then SetHash idna_raw c w2 [] else Some w2) = Some w3 /\ same_components w3 u
                            /\ u_sp w3 = u_sp w2).
    { destruct (p_removeFragment p); [|exists w2; auto]. pose proof (N3 eq_refl) as A.
      destruct Hw2 as [W1 [W2 [W3 [W4 [W5 [W6 [W7 [W8 [W9 W10]]]]]]]]].
      assert (Hsf : same_components (set_fragment w2 None) u).
      { unfold same_components.
        cbn [u_scheme u_username u_password u_host u_port u_decodedPort u_path u_opaque u_query u_fragment set_fragment].
        rewrite A. repeat split; assumption. }
      unfold SetHash. cbv zeta. cbn [u_query set_fragment]. rewrite W9.
      destruct (negb (is_some (u_query u))) eqn:Eq; [|eexists; split; [reflexivity|split; [exact Hsf|reflexivity]]].
      unfold strip_opaque. cbn [u_opaque u_path set_fragment]. rewrite W8, W7.
      destruct (u_opaque u) eqn:Ho; [|eexists; split; [reflexivity|split; [exact Hsf|reflexivity]]].
      destruct (I_opaque _ _ Hi Ho) as [_ [s0 [Ep _]]]. rewrite Ep.
      assert (Ht : trim_right [32] s0 = s0).
      { apply trim_right_id. unfold stable_b, opq_stable in Hs. rewrite Ho, Ep, A in Hs.
        apply andb_true_iff in Hs. destruct Hs as [_ Hs]. apply andb_true_iff in Hs. destruct Hs as [_ Hs].
        apply negb_true_iff in Eq. rewrite Eq in Hs. cbn [is_some orb] in Hs. rewrite !orb_false_r in Hs.
        apply negb_true_iff in Hs. exact Hs. }
      rewrite Ht. eexists. split; [reflexivity|]. split; [|reflexivity].
      unfold same_components.
      cbn [u_scheme u_username u_password u_host u_port u_decodedPort u_path u_opaque u_query u_fragment set_fragment set_path].
      rewrite A, Ep, Ho. repeat split; assumption. }
    destruct S3 as [w3 [E3 [Hw3 Sp3]]]. rewrite E3. exists w3. split; [reflexivity|]. split; [exact Hw3|congruence].
  Qed.

  (* ---------------- the sort ---------------- *)
  (* writing a list of pairs through to the record changes the query (and the list) only *)
  Lemma sp_update_comps v l :
    u_scheme (sp_update c v l) = u_scheme v /\ u_username (sp_update c v l) = u_username v /\
    u_password (sp_update c v l) = u_password v /\ u_host (sp_update c v l) = u_host v /\
    u_port (sp_update c v l) = u_port v /\ u_decodedPort (sp_update c v l) = u_decodedPort v /\
    u_path (sp_update c v l) = u_path v /\ u_opaque (sp_update c v l) = u_opaque v /\
    u_fragment (sp_update c v l) = u_fragment v.
  Proof using.
    unfold sp_update. cbv zeta.
    destruct ((is_nil (sp_string c l) && is_some (u_query (set_sp v (Some l)))) || negb (is_nil (sp_string c l)));
      cbn; repeat split.
  Qed.

  Lemma ensure_sp_comps v : same_components (fst (ensure_sp c v)) v.
  Proof using. unfold ensure_sp. destruct (u_sp v); cbn [fst]; apply same_components_refl || (unfold same_components; cbn; repeat split). Qed.

  (* [sp_update] never turns a query into the null query *)
  Lemma sp_update_query_some v l : is_some (u_query v) = true -> is_some (u_query (sp_update c v l)) = true.
  Proof using.
    intros H. rewrite sp_update_u_query. rewrite H. cbn [negb]. rewrite andb_false_r. reflexivity.
  Qed.

  Lemma sort_block_cases v : sort_block p v = v \/ exists l, sort_block p v = sp_update c (fst (ensure_sp c v)) l.
  Proof using. unfold sort_block. destruct (p_sortQuery p); [left; reflexivity|right; eexists; reflexivity|right; eexists; reflexivity]. Qed.

  Lemma stable_sp_update v l : stable_b c v = true -> stable_b c (sp_update c (fst (ensure_sp c v)) l) = true.
  Proof using.
    intros H. set (e := fst (ensure_sp c v)). destruct (ensure_sp_comps v) as [E1 [E2 [E3 [E4 [E5 [E6 [E7 [E8 [E9 E10]]]]]]]]].
    fold e in E1, E2, E3, E4, E5, E6, E7, E8, E9, E10.
    destruct (sp_update_comps e l) as [U1 [U2 [U3 [U4 [U5 [U6 [U7 [U8 U9]]]]]]]].
    unfold stable_b, dport_ok, opq_stable, list_stable, drive_ok, IsSpecialScheme in *.
    rewrite U1, U4, U5, U6, U7, U8, U9, E1, E4, E5, E6, E7, E8, E10.
    destruct (u_opaque v); [|exact H].
    apply andb_true_iff in H. destruct H as [H1 H2]. rewrite H1. cbn [andb].
    destruct (u_path v) as [|s0 [|s1 r]]; try reflexivity.
    apply andb_true_iff in H2. destruct H2 as [H2 H3]. rewrite H2. cbn [andb].
    destruct (negb (last s0 0 =? 32)); [reflexivity|]. cbn [orb] in *.
    apply orb_true_iff in H3. destruct H3 as [H3|H3]; [|rewrite H3; apply orb_true_r].
    rewrite (sp_update_query_some e l); [reflexivity|]. rewrite E9. exact H3.
  Qed.

  Lemma sort_block_keeps v : SOu idna_raw c v -> NFp v -> SOu idna_raw c (sort_block p v) /\ NFp (sort_block p v).
  Proof using.
    intros [H1 H2] HN. destruct (sort_block_cases v) as [->|[l ->]]; [split; [split|]; assumption|].
    set (e := fst (ensure_sp c v)). destruct (ensure_sp_comps v) as [E1 [E2 [E3 [E4 [E5 [E6 [E7 [E8 [E9 E10]]]]]]]]].
    fold e in E1, E2, E3, E4, E5, E6, E7, E8, E9, E10.
    destruct (sp_update_comps e l) as [U1 [U2 [U3 [U4 [U5 [U6 [U7 [U8 U9]]]]]]]].
    split; [split|].
    - apply stable_sp_update. exact H1.
    - apply (HP_ext idna_raw c v); [congruence|congruence|exact H2].
    - destruct HN as [N1 [N2 N3]]. unfold NFp. rewrite U2, U3, U5, U6, U9, E2, E3, E5, E6, E10. auto.
  Qed.

  (* the sort is the identity on the re-parsed record, when the list of pairs survives the query codec *)
  Definition sort_ok (u : url) : Prop :=
    p_sortQuery p = NoSort \/ (c_latin1 c = false /\ forall l, u_sp u = Some l -> forallb (pair_ok c) l = true).

  Lemma sortf_fixed (f : list pair -> list pair) v w :
    (forall l, f (f l) = f l) -> c_latin1 c = false ->
    forallb (pair_ok c) (f (snd (ensure_sp c v))) = true ->
    same_components w (sp_update c (fst (ensure_sp c v)) (f (snd (ensure_sp c v)))) -> u_sp w = None ->
    same_components (sp_update c (fst (ensure_sp c w)) (f (snd (ensure_sp c w))))
                    (sp_update c (fst (ensure_sp c v)) (f (snd (ensure_sp c v)))).
  Proof using.
    intros Hidem Hl1 Hok Hw Hsp. set (e := fst (ensure_sp c v)) in *. set (l := snd (ensure_sp c v)) in *.
    set (u := sp_update c e (f l)) in *.
    destruct Hw as [W1 [W2 [W3 [W4 [W5 [W6 [W7 [W8 [W9 W10]]]]]]]]].
    assert (Hq : Query w = sp_string c (f l)).
    { unfold Query. rewrite W9. fold (Query u). unfold u. apply sp_update_Query. }
    rewrite (ensure_sp_fresh c w Hsp). cbn [fst snd]. rewrite Hq, (sp_roundtrip c (f l) Hl1 Hok), Hidem.
    destruct (sp_update_comps (set_sp w (Some (f l))) (f l)) as [U1 [U2 [U3 [U4 [U5 [U6 [U7 [U8 U9]]]]]]]].
    unfold same_components. rewrite U1, U2, U3, U4, U5, U6, U7, U8, U9.
    cbn [u_scheme u_username u_password u_host u_port u_decodedPort u_path u_opaque u_fragment set_sp].
    repeat split; try assumption.
    rewrite sp_update_u_query. cbn [u_query set_sp]. rewrite W9. unfold u. rewrite sp_update_u_query.
    destruct (is_nil (sp_string c (f l))); [|reflexivity]. cbn [andb].
    destruct (negb (is_some (u_query e))); reflexivity.
  Qed.

  Lemma sort_block_fixed v w :
    sort_ok (sort_block p v) -> same_components w (sort_block p v) -> u_sp w = None ->
    same_components (sort_block p w) (sort_block p v).
  Proof using.
    unfold sort_ok, sort_block. destruct (p_sortQuery p) eqn:Es.
    - intros _ H _. exact H.
    - intros [E|[Hl1 Hok]] Hw Hsp; [discriminate E|].
      apply (sortf_fixed sp_sort v w sp_sort_idem Hl1); try assumption. apply Hok. apply sp_update_sp.
    - intros [E|[Hl1 Hok]] Hw Hsp; [discriminate E|].
      apply (sortf_fixed sp_sort_abs v w sp_sort_abs_idem Hl1); try assumption. apply Hok. apply sp_update_sp.
  Qed.

  (* the source of a canonical record *)
  Lemma ProfileParse_Good x u : ProfileParse idna_raw p x = CUrl u ->
    exists u0, Good u0 /\ Canonicalize idna_raw p u0 = Some u.
  Proof using All.
    intros H. unfold ProfileParse, canon_of in H.
    destruct (parse_retry idna_raw p x) as [u0|e| | |] eqn:E; try discriminate H.
    destruct (Canonicalize idna_raw p u0) as [u1|] eqn:Ec; [|discriminate H]. injection H as <-.
    exists u0. split; [|exact Ec].
    assert (G : forall y, Parse idna_raw c y = PUrl u0 -> Good u0).
    { intros y Hy. split; [apply (Parse_Inv idna_raw HH3 c Hokm y u0 Hy)|].
      split; [apply (Parse_stable idna_raw c y u0 Hrt Hy)|apply (Parse_host_prov idna_raw c y u0 Hrt Hy)]. }
    unfold parse_retry in E. destruct (Parse idna_raw c x) as [v|e0| | |] eqn:E0; try discriminate E.
    - injection E as <-. apply (G x E0).
    - destruct (e_type e0); try discriminate E.
      destruct (negb (is_nil (p_defaultScheme p))); [|discriminate E]. apply (G _ E).
  Qed.

  (* stability and the provenance of the host of a canonical record (its well-formedness is CanonTotal.v) *)
  Theorem ProfileParse_SOu x u : ProfileParse idna_raw p x = CUrl u -> SOu idna_raw c u.
  Proof using All.
    intros H. destruct (ProfileParse_Good x u H) as [u0 [HG0 Ec]]. rewrite Canonicalize_rem in Ec.
    apply bind_Some in Ec. destruct Ec as (u3 & E3 & Ec). injection Ec as <-.
    destruct (rem_block_facts u0 u3 HG0 E3) as [[_ HS3] HN3]. apply (sort_block_keeps u3 HS3 HN3).
  Qed.

  (* C17, general form: the canonical record is assumed well formed (see below for when this is automatic) *)
  Theorem canonical_fixed_point_gen x u s :
    ProfileParse idna_raw p x = CUrl u -> Inv c u -> sort_ok u -> host_fixed idna_raw c u -> Href u false = Some s ->
    exists u', ProfileParse idna_raw p s = CUrl u' /\ same_components u' u /\ Href u' false = Some s.
  Proof using All.
    intros H Hi Hso Hfix Hs. destruct (ProfileParse_Good x u H) as [u0 [HG0 Ec]]. rewrite Canonicalize_rem in Ec.
    apply bind_Some in Ec. destruct Ec as (u3 & E3 & Ec). injection Ec as Eu.
    destruct (rem_block_facts u0 u3 HG0 E3) as [[_ HS3] HN3].
    destruct (sort_block_keeps u3 HS3 HN3) as [[Hst HH] HN]. rewrite Eu in Hst, HH, HN.
    pose proof (roundtrip_strong idna_raw c Hrt u s Hi (conj Hst Hfix) Hs) as Hp.
    destruct (rem_block_fix u Hi Hst HN (rt_url u s) (rt_url_same u s)) as [w3 [Ew [Hw Hsp]]].
    cbn [u_sp rt_url] in Hsp.
    assert (Hfin : same_components (sort_block p w3) u).
    { rewrite <- Eu. apply sort_block_fixed; rewrite ?Eu; assumption. }
    exists (sort_block p w3). split; [|split; [exact Hfin|rewrite (Href_same _ u false Hfin); exact Hs]].
    unfold ProfileParse, parse_retry. rewrite Hp. unfold canon_of. rewrite Canonicalize_rem, Ew. reflexivity.
  Qed.

  (* C17 without sort: nothing to assume about the canonical record *)
  Theorem canonical_fixed_point x u s :
    p_sortQuery p = NoSort ->
    ProfileParse idna_raw p x = CUrl u -> host_fixed idna_raw c u -> Href u false = Some s ->
    exists u', ProfileParse idna_raw p s = CUrl u' /\ same_components u' u /\ Href u' false = Some s.
  Proof using All.
    intros Hsort H Hfix Hs. apply (canonical_fixed_point_gen x u s H); try assumption; [|left; exact Hsort].
    destruct (ProfileParse_Good x u H) as [u0 [[Hi0 _] Ec]].
    apply (Canonicalize_Inv_nosp idna_raw p u0 u HH3 Hokm Hnf Hsort Hrep Hi0 Ec).
  Qed.

  (* with the oracle residue only *)
  Hypothesis HH1 : oracle_ascii_transparent idna_raw.
  Hypothesis Hl1 : c_latin1 c = false.

  Lemma canonical_host_fixed x u :
    ProfileParse idna_raw p x = CUrl u -> ace_residue idna_raw c u -> host_fixed idna_raw c u.
  Proof using All.
    intros H Hres. destruct (ProfileParse_SOu x u H) as [_ HH].
    intros h Hh u1. destruct (cfg_okm_parts c Hokm) as [_ [_ [_ [_ [_ [_ [_ [Hlax [_ [_ [Hpost _]]]]]]]]]]].
    apply (prov_fixed idna_raw c R Hlax Hl1 Hpost HH3 HH1); [apply (HH h Hh)|].
    intros En. apply (Hres h Hh). apply negb_false_iff. exact En.
  Qed.

  Corollary canonical_fixed_point_full x u s :
    p_sortQuery p = NoSort ->
    ProfileParse idna_raw p x = CUrl u -> ace_residue idna_raw c u -> Href u false = Some s ->
    exists u', ProfileParse idna_raw p s = CUrl u' /\ same_components u' u /\ Href u' false = Some s.
  Proof using All.
    intros Hsort H Hres Hs. apply (canonical_fixed_point x u s Hsort H); [|exact Hs]. apply (canonical_host_fixed x u H Hres).
  Qed.

  (* the sorting profiles: the list of pairs must survive the query codec (no "%HH" in a name or value, valid
     UTF-8), and the canonical record must be well formed (automatic for non-special schemes) *)
  Corollary canonical_fixed_point_sort x u s :
    ProfileParse idna_raw p x = CUrl u -> Inv c u ->
    (forall l, u_sp u = Some l -> forallb (pair_ok c) l = true) ->
    ace_residue idna_raw c u -> Href u false = Some s ->
    exists u', ProfileParse idna_raw p s = CUrl u' /\ same_components u' u /\ Href u' false = Some s.
  Proof using All.
    intros H Hi Hok Hres Hs. apply (canonical_fixed_point_gen x u s H Hi); [right; auto| |exact Hs].
    apply (canonical_host_fixed x u H Hres).
  Qed.
End CanonIdem.

Print Assumptions canonical_fixed_point.
Print Assumptions canonical_fixed_point_full.
Print Assumptions canonical_fixed_point_sort.

(* the premises hold for the predefined WhatWg profile and the removal / default-scheme options *)
Example canonical_fixed_point_profiles :
  forallb (fun p => cfg_okm (p_cfg p) && cfg_rt (p_cfg p) && negb (p_repeated p)
                    && match p_sortQuery p with NoSort => true | _ => false end)
    [prof_WhatWg; prof_none; copt_WithRemoveUserInfo; copt_WithRemovePort; copt_WithRemoveFragment; copt_WithDefaultScheme] = true.
Proof. vm_compute. reflexivity. Qed.

(* an instance: remove-port, remove-fragment and remove-user-info at once, with the default scheme "http",
   on "U:P@Example.ORG:81/a b?q#f " (no scheme: the retry is taken the first time and not the second) *)
Definition prof_ex : profile :=
  {| p_cfg := default_cfg; p_removeUserInfo := true; p_removePort := true; p_removeFragment := true;
     p_sortQuery := NoSort; p_repeated := false; p_defaultScheme := [104;116;116;112] |}.

Definition ex_noscheme : str :=
  [47;47;85;58;80;64;69;120;97;109;112;108;101;46;79;82;71;58;56;49;47;97;32;98;63;113;35;102;32].   (* //U:P@Example.ORG:81/a b?q#f  *)

Example canonical_fixed_point_ex :
  exists e u s u',
    Parse idna_toy default_cfg ex_noscheme = PErr e /\ e_type e = MissingSchemeNonRelativeURL /\
    ProfileParse idna_toy prof_ex ex_noscheme = CUrl u /\
    Href u false = Some s /\
    s = [104;116;116;112;58;47;47;101;120;97;109;112;108;101;46;111;114;103;47;97;37;50;48;98;63;113] /\
    ProfileParse idna_toy prof_ex s = CUrl u' /\ same_components u' u.
Proof.
  eexists. eexists. eexists. eexists. split; [vm_compute; reflexivity|]. split; [reflexivity|].
  split; [vm_compute; reflexivity|]. split; [vm_compute; reflexivity|].
  split; [reflexivity|]. split; [vm_compute; reflexivity|]. vm_compute. repeat split; reflexivity.
Qed.

(* ---------- the sorting profiles ---------- *)
(* finding D8b: a "%HH" triple in a name breaks the fixed point. "http://h/?%2541=1" canonicalizes to
   "http://h/?%41=1" (the list holds the name "%41", which the query serializer does not escape), and that
   canonicalizes to "http://h/?A=1" *)
Definition ex_d8b : str := [104;116;116;112;58;47;47;104;47;63;37;50;53;52;49;61;49].

Theorem canonical_fixed_point_pct_refuted :
  exists u s u' s',
    ProfileParse idna_toy prof_WhatWgSortQuery ex_d8b = CUrl u /\ Inv (p_cfg prof_WhatWgSortQuery) u /\
    u_sp u = Some [([37;52;49], [49])] /\ forallb (pair_ok (p_cfg prof_WhatWgSortQuery)) [([37;52;49], [49])] = false /\
    Href u false = Some s /\ s = [104;116;116;112;58;47;47;104;47;63;37;52;49;61;49] /\
    ProfileParse idna_toy prof_WhatWgSortQuery s = CUrl u' /\ Href u' false = Some s' /\
    s' = [104;116;116;112;58;47;47;104;47;63;65;61;49] /\ s' <> s.
Proof.
  eexists. eexists. eexists. eexists.
  split; [vm_compute; reflexivity|]. split; [apply inv_b_sound; vm_compute; reflexivity|].
  split; [reflexivity|]. split; [vm_compute; reflexivity|]. split; [vm_compute; reflexivity|].
  split; [reflexivity|]. split; [vm_compute; reflexivity|]. split; [vm_compute; reflexivity|].
  split; [reflexivity|discriminate].
Qed.
Print Assumptions canonical_fixed_point_pct_refuted.

(* the premises of [canonical_fixed_point_sort] hold: "sc://h/?b=2&a=1&a=0#f" with the sort-keys profile *)
Example canonical_fixed_point_sort_ex :
  cfg_okm (p_cfg prof_WhatWgSortQuery) = true /\ cfg_rt (p_cfg prof_WhatWgSortQuery) = true /\
  p_repeated prof_WhatWgSortQuery = false /\ c_latin1 (p_cfg prof_WhatWgSortQuery) = false /\
  exists u,
    ProfileParse idna_toy prof_WhatWgSortQuery [115;99;58;47;47;104;47;63;98;61;50;38;97;61;49;38;97;61;48;35;102] = CUrl u /\
    Inv (p_cfg prof_WhatWgSortQuery) u /\ u_sp u = Some [([97], [49]); ([97], [48]); ([98], [50])] /\
    forallb (pair_ok (p_cfg prof_WhatWgSortQuery)) [([97], [49]); ([97], [48]); ([98], [50])] = true /\
    Href u false = Some [115;99;58;47;47;104;47;63;97;61;49;38;97;61;48;38;98;61;50;35;102].
Proof.
  split; [vm_compute; reflexivity|]. split; [vm_compute; reflexivity|]. split; [reflexivity|]. split; [reflexivity|].
  eexists. split; [vm_compute; reflexivity|]. split; [apply inv_b_sound; vm_compute; reflexivity|].
  split; [reflexivity|]. split; vm_compute; reflexivity.
Qed.
