(* Lock-step simulation of two runs of the parser under two configurations that agree on every field the
   parser reads EXCEPT the five percent-encode sets (c_pathSet, c_squerySet, c_querySet, c_sfragSet, c_fragSet).

   - in every state other than PathSt / QuerySt / FragmentSt the two machines are in the SAME machine state
     and take the SAME step (step_early: those 18 states do not read the sets);
   - in the three encoding states the machine states agree on state, pointer, flags and on every component of
     the URL record other than path (segments + opaque flag), query and fragment; the buffers are
     b0 ++ enc1 w and b0 ++ enc2 w for a COMMON prefix b0 and a COMMON list w of code points, each
     encoded with the set of its own configuration;
   - hence (URel) the results agree on scheme, user, password, host, port, recorded errors ..., the paths are
     equal when the path sets are equal, and query / fragment are either equal or the two encodings of one
     common code point list.
   No hypothesis on c_fail, c_report, the base URL, the state override or the URL record passed in. *)
From Verif Require Import Lib.Base Lib.Utf8 Lib.GoStr Model.Cfg Gen.Tables Model.Sets Model.Percent Model.Url Model.Host Model.Machine Model.Api.
From Verif Require Import Proofs.Cleaning Proofs.OptionNeutralBase Proofs.PhaseLemmas.
From Coq Require Import Lia ZifyBool ZifyN ZifyNat.

Definition late (st : state) : bool :=
  match st with PathSt | QuerySt | FragmentSt => true | _ => false end.

(* the two configurations agree on everything the parser reads but the five sets
   (c_allowPathNonBase and c_skipEq are read nowhere in the parser and are left free as well) *)
Definition agree_nosets (c1 c2 : cfg) : Prop :=
  c_report c1 = c_report c2 /\ c_fail c1 = c_fail c2 /\ c_lax c1 = c_lax c2 /\ c_collapse c1 = c_collapse c2 /\
  c_acceptInvalid c1 = c_acceptInvalid c2 /\ c_pre c1 = c_pre c2 /\ c_post c1 = c_post c2 /\
  c_singlePct c1 = c_singlePct c2 /\ c_skipDrive c1 = c_skipDrive c2 /\ c_special c1 = c_special c2 /\
  c_skipTrailSlash c1 = c_skipTrailSlash c2 /\ c_latin1 c1 = c_latin1 c2.

Lemma agree_nosets_refl c : agree_nosets c c.
Proof. unfold agree_nosets. repeat split. Qed.
Lemma agree_nosets_sym c1 c2 : agree_nosets c1 c2 -> agree_nosets c2 c1.
Proof. unfold agree_nosets. intuition. Qed.

(* what the path state appends for the code points w; the flag says: read as an invalid percent sign *)
Definition encp (c : cfg) (w : list (N * bool)) : str :=
  flat_map (fun rb : N * bool => if snd rb then percentEncodeInvalidRune c (fst rb) (c_pathSet c)
                                 else percentEncodeRune c (fst rb) (Some (c_pathSet c))) w.

Lemma encp_app c w1 w2 : encp c (w1 ++ w2) = encp c w1 ++ encp c w2.
Proof. unfold encp. apply flat_map_app. Qed.

Lemma enc_with_app c t w1 w2 : enc_with c t (w1 ++ w2) = enc_with c t w1 ++ enc_with c t w2.
Proof. unfold enc_with. apply flat_map_app. Qed.

(* ------------------------------------------------------------------ *)
(* QuerySt / FragmentSt branches of `step`, restated                   *)
(* ------------------------------------------------------------------ *)
Definition step_query (c : cfg) (inp : list rune) (ov : option state) (m : mstate) : outcome :=
  let buf := m_buf m in
  let atF := m_at m in
  let brF := m_br m in
  let pwF := m_pw m in
  let u := m_url m in
  let p := (m_ptr m + 1)%Z in
  let eof := if (n_inp inp <=? p)%Z then true else m_eof m in
  let r := if (n_inp inp <=? p)%Z then rune_error else cp_at inp p in
  if negb (is_some ov) && (r =? 35) then
    match u_query u with
    | None => Panic
    | Some _ => Cont (mk FragmentSt p eof [] atF brF pwF (set_fragment (set_query u (Some buf)) (Some [])))
    end
  else if negb eof then
    unit_checks c inp p r u (fun _ u =>
      Cont (mk QuerySt p eof (buf ++ percentEncodeRune c r (Some (queryset c u))) atF brF pwF u))
  else Cont (mk QuerySt p eof buf atF brF pwF (set_query u (Some buf))).

Lemma step_QuerySt idna_raw c inp base ov m :
  m_state m = QuerySt -> step idna_raw c inp base ov m = step_query c inp ov m.
Proof. destruct m as [st p e b a br pw u]. cbn [m_state]. intros ->. reflexivity. Qed.

Definition step_frag (c : cfg) (inp : list rune) (m : mstate) : outcome :=
  let buf := m_buf m in
  let atF := m_at m in
  let brF := m_br m in
  let pwF := m_pw m in
  let u := m_url m in
  let p := (m_ptr m + 1)%Z in
  let eof := if (n_inp inp <=? p)%Z then true else m_eof m in
  let r := if (n_inp inp <=? p)%Z then rune_error else cp_at inp p in
  if negb eof then
    unit_checks c inp p r u (fun _ u =>
      Cont (mk FragmentSt p eof (buf ++ percentEncodeRune c r (Some (fragset c u))) atF brF pwF u))
  else Cont (mk FragmentSt p eof buf atF brF pwF (set_fragment u (Some buf))).

Lemma step_FragmentSt idna_raw c inp base ov m :
  m_state m = FragmentSt -> step idna_raw c inp base ov m = step_frag c inp m.
Proof. destruct m as [st p e b a br pw u]. cbn [m_state]. intros ->. reflexivity. Qed.

(* the end of a segment in PathSt *)
Definition pcommit (c : cfg) (buf : str) (r : N) (p : Z) (eof atF brF pwF : bool) (u : url) : outcome :=
  let u := seg_end c u buf ((r =? 47) || isSpecialSchemeAndBackslash c u r) in
  if r =? 63 then Cont (mk QuerySt p eof [] atF brF pwF (set_query u (Some [])))
  else if r =? 35 then Cont (mk FragmentSt p eof [] atF brF pwF (set_fragment u (Some [])))
  else Cont (mk PathSt p eof [] atF brF pwF u).

Definition step_path' (c : cfg) (inp : list rune) (ov : option state) (m : mstate) : outcome :=
  let buf := m_buf m in
  let atF := m_at m in
  let brF := m_br m in
  let pwF := m_pw m in
  let u := m_url m in
  let p := (m_ptr m + 1)%Z in
  let eof := if (n_inp inp <=? p)%Z then true else m_eof m in
  let r := if (n_inp inp <=? p)%Z then rune_error else cp_at inp p in
  if (eof || (r =? 47)) || isSpecialSchemeAndBackslash c u r || (negb (is_some ov) && ((r =? 63) || (r =? 35))) then
    (if isSpecialSchemeAndBackslash c u r then (fun k => mherr c u InvalidReverseSolidus false k) else (fun k => k u))
    (pcommit c buf r p eof atF brF pwF)
  else
    unit_checks c inp p r u (fun inv u =>
      let enc := if inv then percentEncodeInvalidRune c r (c_pathSet c) else percentEncodeRune c r (Some (c_pathSet c)) in
      Cont (mk PathSt p eof (buf ++ enc) atF brF pwF u)).

Lemma step_path_eq c inp ov m : step_path c inp ov m = step_path' c inp ov m.
Proof. reflexivity. Qed.

Lemma encp_one c r inv :
  encp c [(r, inv)] = if inv then percentEncodeInvalidRune c r (c_pathSet c) else percentEncodeRune c r (Some (c_pathSet c)).
Proof. unfold encp. cbn [flat_map fst snd]. apply app_nil_r. Qed.

(* ------------------------------------------------------------------ *)
(* seg_end only writes the path component                              *)
(* ------------------------------------------------------------------ *)
Lemma set_path_eta u : set_path u (u_path u) (u_opaque u) = u.
Proof. destruct u; reflexivity. Qed.

Lemma seg_end_shape c u buf sl :
  seg_end c u buf sl = set_path u (u_path (seg_end c u buf sl)) (u_opaque (seg_end c u buf sl)).
Proof.
  unfold seg_end. cbv zeta.
  destruct (isDoubleDotPathSegment buf).
  - destruct (negb sl); unfold addSegment; cbn [set_path u_path u_opaque]; reflexivity.
  - destruct (isSingleDotPathSegment buf && negb sl).
    + destruct (negb _); unfold addSegment; cbn [set_path u_path u_opaque]; [reflexivity|symmetry; apply set_path_eta].
    + destruct (negb (isSingleDotPathSegment buf)); [|symmetry; apply set_path_eta].
      destruct (negb _); unfold addSegment; cbn [set_path u_path u_opaque]; reflexivity.
Qed.

(* the n code points of the input from position a on / the same with the flag of the path state *)
Definition cps (inp : list rune) (a : Z) (n : nat) : list N :=
  map (fun i => cp_at inp (a + Z.of_nat i)) (seq 0 n).
Definition cpsp (inp : list rune) (a : Z) (n : nat) : list (N * bool) :=
  map (fun i => (cp_at inp (a + Z.of_nat i), invalid_pct (rest_from inp (a + Z.of_nat i)))) (seq 0 n).

Lemma cps_S inp a n : cps inp a (Datatypes.S n) = cps inp a n ++ [cp_at inp (a + Z.of_nat n)].
Proof. unfold cps. rewrite seq_S, map_app. reflexivity. Qed.
Lemma cpsp_S inp a n :
  cpsp inp a (Datatypes.S n) = cpsp inp a n ++ [(cp_at inp (a + Z.of_nat n), invalid_pct (rest_from inp (a + Z.of_nat n)))].
Proof. unfold cpsp. rewrite seq_S, map_app. reflexivity. Qed.

Section Sim.
  Variable idna_raw : str -> str * bool.
  Variables c1 c2 : cfg.
  Hypothesis Hrep : c_report c1 = c_report c2.
  Hypothesis Hfail : c_fail c1 = c_fail c2.
  Hypothesis Hlax : c_lax c1 = c_lax c2.
  Hypothesis Hcol : c_collapse c1 = c_collapse c2.
  Hypothesis Hacc : c_acceptInvalid c1 = c_acceptInvalid c2.
  Hypothesis Hpre : c_pre c1 = c_pre c2.
  Hypothesis Hpost : c_post c1 = c_post c2.
  Hypothesis Hsp : c_singlePct c1 = c_singlePct c2.
  Hypothesis Hdrv : c_skipDrive c1 = c_skipDrive c2.
  Hypothesis Hspec : c_special c1 = c_special c2.
  Hypothesis Hsts : c_skipTrailSlash c1 = c_skipTrailSlash c2.
  Hypothesis Hlatin : c_latin1 c1 = c_latin1 c2.

  Lemma gss s : getSpecialScheme c1 s = getSpecialScheme c2 s.
  Proof. unfold getSpecialScheme. rewrite Hspec. reflexivity. Qed.
  Lemma iss s : isSpecialScheme c1 s = isSpecialScheme c2 s.
  Proof. unfold isSpecialScheme. rewrite gss. reflexivity. Qed.
  Lemma cdp u : cleanDefaultPort c1 u = cleanDefaultPort c2 u.
  Proof. apply cdp_congr, gss. Qed.
  Lemma per r t : percentEncodeRune c1 r t = percentEncodeRune c2 r t.
  Proof. apply per_congr, Hlatin. Qed.
  Lemma peir r t : percentEncodeInvalidRune c1 r t = percentEncodeInvalidRune c2 r t.
  Proof. apply peir_congr; assumption. Qed.
  Lemma cred l a b d : cred_loop c1 l a b d = cred_loop c2 l a b d.
  Proof. apply cred_congr, Hlatin. Qed.
  Lemma ph u s ns : parseHost idna_raw c1 u s ns = parseHost idna_raw c2 u s ns.
  Proof. apply parseHost_congr; auto. Qed.

  Lemma enc_with_eq t w : enc_with c1 t w = enc_with c2 t w.
  Proof. unfold enc_with. apply flat_map_ext. intros r. apply per. Qed.

  Lemma encp_eq w : c_pathSet c1 = c_pathSet c2 -> encp c1 w = encp c2 w.
  Proof.
    intros E. unfold encp. apply flat_map_ext. intros [r b]. cbn [fst snd]. rewrite E, per, peir. reflexivity.
  Qed.

  Variable inp : list rune.
  Variable base : option url.
  Variable ov : option state.

  Notation step1 := (step idna_raw c1 inp base ov).
  Notation step2 := (step idna_raw c2 inp base ov).

  (* ---------------------------------------------------------------- *)
  (* A. the 18 states that do not read the sets                        *)
  (* ---------------------------------------------------------------- *)
  Ltac norm1 :=
    match goal with
    | |- context [isSpecialScheme c1 ?S] => rewrite (iss S)
    | |- context [cleanDefaultPort c1 ?X] => rewrite (cdp X)
    | |- context [percentEncodeRune c1 ?r ?t] => rewrite (per r t)
    | |- context [percentEncodeInvalidRune c1 ?r ?t] => rewrite (peir r t)
    | |- context [cred_loop c1 ?l ?a ?b ?d] => rewrite (cred l a b d)
    | |- context [parseHost idna_raw c1 ?u ?b ?ns] => rewrite (ph u b ns)
    | |- context [c_skipTrailSlash c1] => rewrite Hsts
    | |- context [c_acceptInvalid c1] => rewrite Hacc
    end.
  Ltac norm := try unfold isSpecialSchemeAndBackslash; try unfold IsSpecialScheme; repeat norm1.

  Ltac desc :=
    norm;
    lazymatch goal with
    | |- mherr c1 ?u ?t true _ = mherr c2 ?u ?t true _ => apply (mherr_fail_congr c1 c2 Hrep Hfail)
    | |- mherr c1 ?u ?t ?f _ = mherr c2 ?u ?t ?f _ => apply (mherr_congr c1 c2 Hrep Hfail); intros ?v; cbn beta
    | |- (if ?b then _ else _) _ = (if ?b then _ else _) _ => destruct b eqn:?; cbn beta
    | |- (if ?b then _ else _) = (if ?b then _ else _) => destruct b eqn:?
    | |- match ?o with Some _ => _ | None => _ end = match ?o with Some _ => _ | None => _ end => destruct o eqn:?
    | |- match ?o with Ok _ _ => _ | Er _ _ => _ end = match ?o with Ok _ _ => _ | Er _ _ => _ end => destruct o eqn:?
    | |- match ?o with [] => _ | _ :: _ => _ end = match ?o with [] => _ | _ :: _ => _ end => destruct o eqn:?
    | |- ?X = ?Y => reflexivity
    end.

  Lemma step_early m : late (m_state m) = false -> step1 m = step2 m.
  Proof.
    destruct m as [st p0 e0 buf atF brF pwF u]. cbn [m_state]. intros HL.
    unfold step. cbn [m_state m_ptr m_eof m_buf m_at m_br m_pw m_url].
    set (p := (p0 + 1)%Z) in *.
    set (r := if (n_inp inp <=? p)%Z then rune_error else cp_at inp p).
    set (eof := if (n_inp inp <=? p)%Z then true else e0).
    destruct st; try discriminate HL; clear HL.
    all: solve [repeat desc].
  Qed.

  (* ---------------------------------------------------------------- *)
  (* B. the relation in the three encoding states                      *)
  (* ---------------------------------------------------------------- *)
  Definition same_core (u1 u2 : url) : Prop :=
    u_input u1 = u_input u2 /\ u_scheme u1 = u_scheme u2 /\ u_username u1 = u_username u2 /\
    u_password u1 = u_password u2 /\ u_host u1 = u_host u2 /\ u_port u1 = u_port u2 /\
    u_decodedPort u1 = u_decodedPort u2 /\ u_verrs u1 = u_verrs u2 /\ u_sp u1 = u_sp u2.

  (* two buffers / segments / components that encode the same code points of the input after a common prefix *)
  Definition SRp (s1 s2 : str) : Prop :=
    exists b0 a n, s1 = b0 ++ encp c1 (cpsp inp a n) /\ s2 = b0 ++ encp c2 (cpsp inp a n).
  Definition SRw (t1 t2 : peset) (s1 s2 : str) : Prop :=
    exists b0 a n, s1 = b0 ++ enc_with c1 t1 (cps inp a n) /\ s2 = b0 ++ enc_with c2 t2 (cps inp a n).

  (* instance of the path relation used for the plain lock-step theorems: equal when the path sets are equal *)
  Definition PR_eq (u1 u2 : url) : Prop :=
    c_pathSet c1 = c_pathSet c2 -> u_path u1 = u_path u2 /\ u_opaque u1 = u_opaque u2.

  Lemma seg_end_same u1 u2 b sl :
    u_scheme u1 = u_scheme u2 -> u_path u1 = u_path u2 -> u_opaque u1 = u_opaque u2 ->
    u_path (seg_end c1 u1 b sl) = u_path (seg_end c2 u2 b sl) /\
    u_opaque (seg_end c1 u1 b sl) = u_opaque (seg_end c2 u2 b sl).
  Proof.
    intros Hs P1 P2. unfold seg_end. cbv zeta. unfold IsSpecialScheme. rewrite iss, Hcol, Hdrv, Hs, P1.
    destruct (isDoubleDotPathSegment b).
    - destruct (negb sl); unfold addSegment;
        cbn [u_path u_opaque set_path]; split; congruence.
    - destruct (isSingleDotPathSegment b && negb sl).
      + destruct (negb _); unfold addSegment; cbn [u_path u_opaque set_path]; split; congruence.
      + destruct (negb (isSingleDotPathSegment b)); [|split; assumption].
        destruct (negb _); unfold addSegment; cbn [u_path u_opaque set_path]; split; congruence.
  Qed.

  Lemma PR_eq_refl u : PR_eq u u.
  Proof. intros _. split; reflexivity. Qed.
  Lemma PR_eq_ext u1 u2 v1 v2 :
    u_scheme v1 = u_scheme u1 -> u_path v1 = u_path u1 -> u_opaque v1 = u_opaque u1 ->
    u_scheme v2 = u_scheme u2 -> u_path v2 = u_path u2 -> u_opaque v2 = u_opaque u2 -> PR_eq u1 u2 -> PR_eq v1 v2.
  Proof. intros _ P1 O1 _ P2 O2 H E. destruct (H E). split; congruence. Qed.
  Lemma PR_eq_seg u1 u2 b1 b2 sl : u_scheme u1 = u_scheme u2 -> PR_eq u1 u2 -> SRp b1 b2 ->
    PR_eq (seg_end c1 u1 b1 sl) (seg_end c2 u2 b2 sl).
  Proof.
    intros Hs H (b0 & a & n & -> & ->) E. destruct (H E) as [P1 P2].
    rewrite (encp_eq _ E). apply seg_end_same; assumption.
  Qed.

  (* the relation between the path components (segments and opaque flag) is a parameter: it must only depend
     on scheme and path component, hold between equals, and be kept when a segment ends *)
  Variable PR : url -> url -> Prop.
  Hypothesis PR_refl : forall u, PR u u.
  Hypothesis PR_ext : forall u1 u2 v1 v2,
    u_scheme v1 = u_scheme u1 -> u_path v1 = u_path u1 -> u_opaque v1 = u_opaque u1 ->
    u_scheme v2 = u_scheme u2 -> u_path v2 = u_path u2 -> u_opaque v2 = u_opaque u2 -> PR u1 u2 -> PR v1 v2.
  Hypothesis PR_seg : forall u1 u2 b1 b2 sl, u_scheme u1 = u_scheme u2 -> PR u1 u2 -> SRp b1 b2 ->
    PR (seg_end c1 u1 b1 sl) (seg_end c2 u2 b2 sl).

  (* query: equal, or the two encodings of the same code points of the input after a common prefix *)
  Definition QR (u1 u2 : url) : Prop :=
    u_query u1 = u_query u2 \/
    exists q1 q2, u_query u1 = Some q1 /\ u_query u2 = Some q2 /\ SRw (queryset c1 u1) (queryset c2 u2) q1 q2.

  Definition FR (u1 u2 : url) : Prop :=
    u_fragment u1 = u_fragment u2 \/
    exists f1 f2, u_fragment u1 = Some f1 /\ u_fragment u2 = Some f2 /\ SRw (fragset c1 u1) (fragset c2 u2) f1 f2.

  Definition URel (u1 u2 : url) : Prop := same_core u1 u2 /\ PR u1 u2 /\ QR u1 u2 /\ FR u1 u2.

  (* the buffers: as above, and the code points are those up to the pointer *)
  Definition BR (st : state) (e : bool) (ptr : Z) (u1 u2 : url) (b1 b2 : str) : Prop :=
    match st with
    | PathSt => exists b0 a n, (e = true \/ (a + Z.of_nat n = ptr + 1)%Z) /\
        b1 = b0 ++ encp c1 (cpsp inp a n) /\ b2 = b0 ++ encp c2 (cpsp inp a n)
    | QuerySt => exists b0 a n, (e = true \/ (a + Z.of_nat n = ptr + 1)%Z) /\
        b1 = b0 ++ enc_with c1 (queryset c1 u1) (cps inp a n) /\ b2 = b0 ++ enc_with c2 (queryset c2 u2) (cps inp a n)
    | FragmentSt => exists b0 a n, (e = true \/ (a + Z.of_nat n = ptr + 1)%Z) /\
        b1 = b0 ++ enc_with c1 (fragset c1 u1) (cps inp a n) /\ b2 = b0 ++ enc_with c2 (fragset c2 u2) (cps inp a n)
    | _ => b1 = b2
    end.

  Definition RL (m1 m2 : mstate) : Prop :=
    m_state m1 = m_state m2 /\ m_ptr m1 = m_ptr m2 /\ m_eof m1 = m_eof m2 /\ m_at m1 = m_at m2 /\
    m_br m1 = m_br m2 /\ m_pw m1 = m_pw m2 /\
    URel (m_url m1) (m_url m2) /\ BR (m_state m1) (m_eof m1) (m_ptr m1) (m_url m1) (m_url m2) (m_buf m1) (m_buf m2).

  Definition Rm (m1 m2 : mstate) : Prop := if late (m_state m1) then RL m1 m2 else m1 = m2.

  Definition Ro (o1 o2 : outcome) : Prop :=
    match o1, o2 with
    | Cont m1, Cont m2 => Rm m1 m2
    | RetUrl u1, RetUrl u2 => URel u1 u2
    | RetErr u1 e1, RetErr u2 e2 => URel u1 u2 /\ e1 = e2
    | RetNilNil u1, RetNilNil u2 => URel u1 u2
    | Panic, Panic => True
    | _, _ => False
    end.

  Ltac ufields :=
    cbn [u_input u_scheme u_username u_password u_host u_port u_decodedPort u_path u_opaque u_query u_fragment
         u_verrs u_sp set_input set_scheme set_username set_password set_host set_port set_path set_query
         set_fragment set_verrs set_sp addSegment] in *.

  Lemma same_core_refl u : same_core u u.
  Proof. unfold same_core. repeat split. Qed.
  Lemma URel_refl u : URel u u.
  Proof.
    split; [apply same_core_refl|]. split; [apply PR_refl|]. split; left; reflexivity.
  Qed.

  Lemma BR_refl st e ptr u b : BR st e ptr u u b b.
  Proof.
    destruct st; cbn [BR]; try reflexivity; exists b, (ptr + 1)%Z, 0%nat;
      cbn [cps cpsp seq map encp enc_with flat_map]; rewrite app_nil_r;
      (split; [right; apply Z.add_0_r|split; reflexivity]).
  Qed.

  Lemma BR_fresh st e ptr u1 u2 : BR st e ptr u1 u2 [] [].
  Proof.
    destruct st; cbn [BR]; try reflexivity; exists [], (ptr + 1)%Z, 0%nat;
      cbn [cps cpsp seq map encp enc_with flat_map app]; (split; [right; apply Z.add_0_r|split; reflexivity]).
  Qed.

  Lemma Rm_refl m : Rm m m.
  Proof.
    unfold Rm. destruct (late (m_state m)); [|reflexivity].
    exact (conj eq_refl (conj eq_refl (conj eq_refl (conj eq_refl (conj eq_refl (conj eq_refl
             (conj (URel_refl _) (BR_refl _ _ _ _ _)))))))).
  Qed.

  Lemma Ro_refl o : Ro o o.
  Proof. destruct o; cbn [Ro]; auto using Rm_refl, URel_refl. Qed.

  Lemma URel_scheme u1 u2 : URel u1 u2 -> u_scheme u1 = u_scheme u2.
  Proof. intros ((_ & H & _) & _). exact H. Qed.

  Lemma URel_sab u1 u2 r : URel u1 u2 -> isSpecialSchemeAndBackslash c1 u1 r = isSpecialSchemeAndBackslash c2 u2 r.
  Proof.
    intros H. unfold isSpecialSchemeAndBackslash, IsSpecialScheme. rewrite iss, (URel_scheme _ _ H). reflexivity.
  Qed.

  Ltac core_tac HC :=
    unfold same_core in *; ufields; destruct HC as (A1&A2&A3&A4&A5&A6&A7&A8&A9); repeat split; assumption.
  Ltac pr_tac HP := refine (PR_ext _ _ _ _ _ _ _ _ _ _ HP); reflexivity.

  Lemma URel_verrs u1 u2 v : URel u1 u2 -> URel (set_verrs u1 v) (set_verrs u2 v).
  Proof.
    intros (HC & HP & HQ & HF). split; [core_tac HC|]. split; [pr_tac HP|]. split; [exact HQ|exact HF].
  Qed.

  Lemma URel_set_query_eq u1 u2 q : URel u1 u2 -> URel (set_query u1 q) (set_query u2 q).
  Proof.
    intros (HC & HP & HQ & HF). split; [core_tac HC|]. split; [pr_tac HP|]. split; [left; reflexivity|exact HF].
  Qed.

  Lemma BR_SRw_query e ptr u1 u2 b1 b2 : BR QuerySt e ptr u1 u2 b1 b2 -> SRw (queryset c1 u1) (queryset c2 u2) b1 b2.
  Proof. intros (b0 & a & n & _ & E1 & E2). exists b0, a, n. split; assumption. Qed.
  Lemma BR_SRw_frag e ptr u1 u2 b1 b2 : BR FragmentSt e ptr u1 u2 b1 b2 -> SRw (fragset c1 u1) (fragset c2 u2) b1 b2.
  Proof. intros (b0 & a & n & _ & E1 & E2). exists b0, a, n. split; assumption. Qed.
  Lemma BR_SRp e ptr u1 u2 b1 b2 : BR PathSt e ptr u1 u2 b1 b2 -> SRp b1 b2.
  Proof. intros (b0 & a & n & _ & E1 & E2). exists b0, a, n. split; assumption. Qed.

  Lemma URel_set_query_enc e ptr u1 u2 b1 b2 : URel u1 u2 -> BR QuerySt e ptr u1 u2 b1 b2 ->
    URel (set_query u1 (Some b1)) (set_query u2 (Some b2)).
  Proof.
    intros (HC & HP & HQ & HF) HB. split; [core_tac HC|]. split; [pr_tac HP|]. split; [|exact HF].
    right. exists b1, b2. split; [reflexivity|]. split; [reflexivity|]. exact (BR_SRw_query _ _ _ _ _ _ HB).
  Qed.

  Lemma URel_set_fragment_eq u1 u2 f : URel u1 u2 -> URel (set_fragment u1 f) (set_fragment u2 f).
  Proof.
    intros (HC & HP & HQ & HF). split; [core_tac HC|]. split; [pr_tac HP|]. split; [exact HQ|left; reflexivity].
  Qed.

  Lemma URel_set_fragment_enc e ptr u1 u2 b1 b2 : URel u1 u2 -> BR FragmentSt e ptr u1 u2 b1 b2 ->
    URel (set_fragment u1 (Some b1)) (set_fragment u2 (Some b2)).
  Proof.
    intros (HC & HP & HQ & HF) HB. split; [core_tac HC|]. split; [pr_tac HP|]. split; [exact HQ|].
    right. exists b1, b2. split; [reflexivity|]. split; [reflexivity|]. exact (BR_SRw_frag _ _ _ _ _ _ HB).
  Qed.

  Lemma Ro_late st p e a br pw b1 b2 u1 u2 : late st = true -> URel u1 u2 -> BR st e p u1 u2 b1 b2 ->
    Ro (Cont (mk st p e b1 a br pw u1)) (Cont (mk st p e b2 a br pw u2)).
  Proof.
    intros HL HU HB. cbn [Ro]. unfold Rm. cbn [m_state mk]. rewrite HL. unfold RL. cbn [m_state m_ptr m_eof m_buf m_at m_br m_pw m_url mk].
    exact (conj eq_refl (conj eq_refl (conj eq_refl (conj eq_refl (conj eq_refl (conj eq_refl (conj HU HB))))))).
  Qed.

  (* the records handed to a continuation after validation errors were recorded *)
  Definition VR (u1 u2 v1 v2 : url) : Prop := exists v, v1 = set_verrs u1 v /\ v2 = set_verrs u2 v.

  Lemma VR_refl u1 u2 : URel u1 u2 -> VR u1 u2 u1 u2.
  Proof.
    intros ((_ & _ & _ & _ & _ & _ & _ & Hv & _) & _). exists (u_verrs u1).
    split; [symmetry; apply set_verrs_eta|]. rewrite Hv. symmetry; apply set_verrs_eta.
  Qed.

  Lemma VR_URel u1 u2 v1 v2 : URel u1 u2 -> VR u1 u2 v1 v2 -> URel v1 v2.
  Proof. intros H (v & -> & ->). apply URel_verrs, H. Qed.

  Lemma Ro_mherr u1 u2 v1 v2 t f k1 k2 : URel u1 u2 -> VR u1 u2 v1 v2 ->
    (forall w1 w2, VR u1 u2 w1 w2 -> Ro (k1 w1) (k2 w2)) ->
    Ro (mherr c1 v1 t f k1) (mherr c2 v2 t f k2).
  Proof.
    intros HU (v & -> & ->) Hk. pose proof HU as ((Hin & _) & _).
    unfold mherr, handleError. rewrite Hrep, Hfail. ufields. rewrite Hin.
    destruct (c_report c2); destruct (f || c_fail c2); cbn [Ro].
    - split; [|reflexivity]. apply (URel_verrs u1 u2 _ HU).
    - apply Hk. eexists; split; reflexivity.
    - split; [|reflexivity]. apply URel_verrs, HU.
    - apply Hk. exists v; split; reflexivity.
  Qed.

  Lemma Ro_unit_checks p r u1 u2 v1 v2 k1 k2 : URel u1 u2 -> VR u1 u2 v1 v2 ->
    (forall w1 w2, VR u1 u2 w1 w2 ->
       Ro (k1 (invalid_pct (rest_from inp p)) w1) (k2 (invalid_pct (rest_from inp p)) w2)) ->
    Ro (unit_checks c1 inp p r v1 k1) (unit_checks c2 inp p r v2 k2).
  Proof.
    intros HU HV Hk. unfold unit_checks.
    assert (K : forall w1 w2, VR u1 u2 w1 w2 ->
      Ro (if invalid_pct (rest_from inp p) then mherr c1 w1 InvalidURLUnit false (k1 true) else k1 false w1)
         (if invalid_pct (rest_from inp p) then mherr c2 w2 InvalidURLUnit false (k2 true) else k2 false w2)).
    { intros w1 w2 HW. destruct (invalid_pct (rest_from inp p)) eqn:EI; [|apply Hk, HW].
      apply (Ro_mherr u1 u2); [exact HU|exact HW|]. intros; apply Hk; assumption. }
    destruct (negb (isURLCodePoint r) && negb (r =? 37)); cbv beta; [|apply K, HV].
    apply (Ro_mherr u1 u2); [exact HU|exact HV|]. exact K.
  Qed.

  (* seg_end on related records with related buffers *)
  Lemma seg_end_rel e ptr u1 u2 b1 b2 sl : URel u1 u2 -> BR PathSt e ptr u1 u2 b1 b2 ->
    URel (seg_end c1 u1 b1 sl) (seg_end c2 u2 b2 sl).
  Proof.
    intros HU HB. pose proof (URel_scheme _ _ HU) as Hs. destruct HU as (HC & HP & HQ & HF).
    pose proof (PR_seg u1 u2 b1 b2 sl Hs HP (BR_SRp _ _ _ _ _ _ HB)) as HP'.
    revert HP'. rewrite (seg_end_shape c1 u1 b1 sl), (seg_end_shape c2 u2 b2 sl).
    set (X1 := u_path (seg_end c1 u1 b1 sl)). set (Y1 := u_opaque (seg_end c1 u1 b1 sl)).
    set (X2 := u_path (seg_end c2 u2 b2 sl)). set (Y2 := u_opaque (seg_end c2 u2 b2 sl)).
    intros HP'. split; [core_tac HC|]. split; [exact HP'|]. split; [exact HQ|exact HF].
  Qed.

  Lemma pcommit_rel b1 b2 r e0 p0 p eof a br pw u1 u2 : URel u1 u2 -> BR PathSt e0 p0 u1 u2 b1 b2 ->
    Ro (pcommit c1 b1 r p eof a br pw u1) (pcommit c2 b2 r p eof a br pw u2).
  Proof.
    intros HU HB. unfold pcommit. cbv zeta. rewrite (URel_sab u1 u2 r HU).
    pose proof (seg_end_rel e0 p0 u1 u2 b1 b2 ((r =? 47) || isSpecialSchemeAndBackslash c2 u2 r) HU HB) as HS.
    destruct (r =? 63); [|destruct (r =? 35)].
    - apply Ro_late; [reflexivity|apply URel_set_query_eq, HS|apply BR_fresh].
    - apply Ro_late; [reflexivity|apply URel_set_fragment_eq, HS|apply BR_fresh].
    - apply Ro_late; [reflexivity|exact HS|apply BR_fresh].
  Qed.

  Lemma step_path_rel m1 m2 : m_state m1 = PathSt -> RL m1 m2 ->
    Ro (step_path c1 inp ov m1) (step_path c2 inp ov m2).
  Proof.
    destruct m1 as [st1 p1 e1 b1 a1 br1 pw1 u1], m2 as [st2 p2 e2 b2 a2 br2 pw2 u2].
    unfold RL. cbn [m_state m_ptr m_eof m_buf m_at m_br m_pw m_url].
    intros -> (Hst & -> & -> & -> & -> & -> & HU & HB). subst st2.
    rewrite (step_path_eq c1), (step_path_eq c2). unfold step_path'. cbn [m_state m_ptr m_eof m_buf m_at m_br m_pw m_url mk].
    set (p := (p2 + 1)%Z).
    rewrite (r_cp inp p).
    set (r := cp_at inp p).
    set (eof := if (n_inp inp <=? p)%Z then true else e2).
    rewrite (URel_sab u1 u2 r HU).
    destruct ((eof || (r =? 47)) || isSpecialSchemeAndBackslash c2 u2 r || (negb (is_some ov) && ((r =? 63) || (r =? 35)))) eqn:EC.
    - destruct (isSpecialSchemeAndBackslash c2 u2 r); cbv beta.
      + apply (Ro_mherr u1 u2); [exact HU|apply VR_refl, HU|].
        intros w1 w2 HW. apply (pcommit_rel b1 b2 r e2 p2); [apply (VR_URel u1 u2 _ _ HU HW)|].
        destruct HW as (v & -> & ->). exact HB.
      + apply (pcommit_rel b1 b2 r e2 p2); assumption.
    - apply (Ro_unit_checks p r u1 u2); [exact HU|apply VR_refl, HU|].
      intros w1 w2 HW. cbv zeta. apply Ro_late; [reflexivity|apply (VR_URel u1 u2 _ _ HU HW)|].
      assert (Ee : eof = false) by (destruct eof; [discriminate EC|reflexivity]).
      assert (E2 : e2 = false) by (unfold eof in Ee; destruct (n_inp inp <=? p)%Z; [discriminate Ee|exact Ee]).
      cbn [BR] in HB |- *. destruct HB as (b0 & a & n & Han & -> & ->). exists b0, a, (Datatypes.S n).
      assert (Han' : (a + Z.of_nat n = p)%Z) by (destruct Han as [Han|Han]; [congruence|exact Han]).
      split; [right; rewrite Nat2Z.inj_succ, <- Z.add_1_r, Z.add_assoc, Han'; reflexivity|]. rewrite cpsp_S, !encp_app, !encp_one, !app_assoc.
      rewrite Han'. fold r. split; reflexivity.
  Qed.

  Lemma QR_is_some u1 u2 : QR u1 u2 -> is_some (u_query u1) = is_some (u_query u2).
  Proof. intros [E|(q1 & q2 & E1 & E2 & _)]; [rewrite E; reflexivity|rewrite E1, E2; reflexivity]. Qed.

  Lemma step_query_rel m1 m2 : m_state m1 = QuerySt -> RL m1 m2 ->
    Ro (step_query c1 inp ov m1) (step_query c2 inp ov m2).
  Proof.
    destruct m1 as [st1 p1 e1 b1 a1 br1 pw1 u1], m2 as [st2 p2 e2 b2 a2 br2 pw2 u2].
    unfold RL. cbn [m_state m_ptr m_eof m_buf m_at m_br m_pw m_url].
    intros -> (Hst & -> & -> & -> & -> & -> & HU & HB). subst st2.
    unfold step_query. cbn [m_state m_ptr m_eof m_buf m_at m_br m_pw m_url mk].
    set (p := (p2 + 1)%Z).
    rewrite (r_cp inp p).
    set (r := cp_at inp p).
    set (eof := if (n_inp inp <=? p)%Z then true else e2).
    destruct (negb (is_some ov) && (r =? 35)).
    - pose proof HU as (_ & _ & HQ & _). pose proof (QR_is_some _ _ HQ) as HS.
      destruct (u_query u1) as [q1|], (u_query u2) as [q2|]; try discriminate HS; [|exact I].
      apply Ro_late; [reflexivity| |apply BR_fresh].
      apply URel_set_fragment_eq, (URel_set_query_enc e2 p2); assumption.
    - destruct eof eqn:Ee; cbn [negb].
      + apply Ro_late; [reflexivity|apply (URel_set_query_enc e2 p2); assumption|].
        cbn [BR] in HB |- *. destruct HB as (b0 & a & n & Han & -> & ->).
        exists b0, a, n. split; [left; reflexivity|split; reflexivity].
      + assert (E2 : e2 = false) by (unfold eof in Ee; destruct (n_inp inp <=? p)%Z; [discriminate Ee|exact Ee]).
        apply (Ro_unit_checks p r u1 u2); [exact HU|apply VR_refl, HU|].
        intros w1 w2 HW. apply Ro_late; [reflexivity|apply (VR_URel u1 u2 _ _ HU HW)|].
        destruct HW as (v & -> & ->). cbn [BR] in HB |- *.
        destruct HB as (b0 & a & n & Han & -> & ->). exists b0, a, (Datatypes.S n).
        assert (Han' : (a + Z.of_nat n = p)%Z) by (destruct Han as [Han|Han]; [congruence|exact Han]).
        split; [right; rewrite Nat2Z.inj_succ, <- Z.add_1_r, Z.add_assoc, Han'; reflexivity|]. rewrite cps_S, !enc_with_app, !app_assoc.
        rewrite Han'. fold r. cbn [enc_with flat_map]. rewrite !app_nil_r. split; reflexivity.
  Qed.

  Lemma step_frag_rel m1 m2 : m_state m1 = FragmentSt -> RL m1 m2 ->
    Ro (step_frag c1 inp m1) (step_frag c2 inp m2).
  Proof.
    destruct m1 as [st1 p1 e1 b1 a1 br1 pw1 u1], m2 as [st2 p2 e2 b2 a2 br2 pw2 u2].
    unfold RL. cbn [m_state m_ptr m_eof m_buf m_at m_br m_pw m_url].
    intros -> (Hst & -> & -> & -> & -> & -> & HU & HB). subst st2.
    unfold step_frag. cbn [m_state m_ptr m_eof m_buf m_at m_br m_pw m_url mk].
    set (p := (p2 + 1)%Z).
    rewrite (r_cp inp p).
    set (r := cp_at inp p).
    set (eof := if (n_inp inp <=? p)%Z then true else e2).
    destruct eof eqn:Ee; cbn [negb].
    - apply Ro_late; [reflexivity|apply (URel_set_fragment_enc e2 p2); assumption|].
      cbn [BR] in HB |- *. destruct HB as (b0 & a & n & Han & -> & ->).
      exists b0, a, n. split; [left; reflexivity|split; reflexivity].
    - assert (E2 : e2 = false) by (unfold eof in Ee; destruct (n_inp inp <=? p)%Z; [discriminate Ee|exact Ee]).
      apply (Ro_unit_checks p r u1 u2); [exact HU|apply VR_refl, HU|].
      intros w1 w2 HW. apply Ro_late; [reflexivity|apply (VR_URel u1 u2 _ _ HU HW)|].
      destruct HW as (v & -> & ->). cbn [BR] in HB |- *.
      destruct HB as (b0 & a & n & Han & -> & ->). exists b0, a, (Datatypes.S n).
      assert (Han' : (a + Z.of_nat n = p)%Z) by (destruct Han as [Han|Han]; [congruence|exact Han]).
      split; [right; rewrite Nat2Z.inj_succ, <- Z.add_1_r, Z.add_assoc, Han'; reflexivity|]. rewrite cps_S, !enc_with_app, !app_assoc.
      rewrite Han'. fold r. cbn [enc_with flat_map]. rewrite !app_nil_r. split; reflexivity.
  Qed.

  (* ---------------------------------------------------------------- *)
  (* C. one step, the loop                                             *)
  (* ---------------------------------------------------------------- *)
  Theorem step_rel m1 m2 : Rm m1 m2 -> Ro (step1 m1) (step2 m2).
  Proof.
    unfold Rm. destruct (late (m_state m1)) eqn:HL.
    - intros H. pose proof H as (Hst & _).
      destruct (m_state m1) eqn:E1; try discriminate HL.
      + rewrite (step_PathSt _ _ _ _ _ _ E1), (step_PathSt _ _ _ _ _ m2 (eq_sym Hst)).
        apply step_path_rel; assumption.
      + rewrite (step_QuerySt _ _ _ _ _ _ E1), (step_QuerySt _ _ _ _ _ m2 (eq_sym Hst)).
        apply step_query_rel; assumption.
      + rewrite (step_FragmentSt _ _ _ _ _ _ E1), (step_FragmentSt _ _ _ _ _ m2 (eq_sym Hst)).
        apply step_frag_rel; assumption.
    - intros <-. rewrite (step_early m1 HL). apply Ro_refl.
  Qed.

  Definition Rres (r1 r2 : result) : Prop :=
    match r1, r2 with
    | RUrl u1, RUrl u2 => URel u1 u2
    | RErr u1 e1, RErr u2 e2 => URel u1 u2 /\ e1 = e2
    | RNilNil u1, RNilNil u2 => URel u1 u2
    | RPanic, RPanic => True
    | ROutOfFuel, ROutOfFuel => True
    | _, _ => False
    end.

  Lemma Rres_refl r : Rres r r.
  Proof. destruct r; cbn [Rres]; auto using URel_refl. Qed.

  Lemma Rm_eof m1 m2 : Rm m1 m2 -> m_eof m1 = m_eof m2.
  Proof. unfold Rm. destruct (late (m_state m1)); [intros (_ & _ & H & _); exact H|intros <-; reflexivity]. Qed.
  Lemma Rm_url m1 m2 : Rm m1 m2 -> URel (m_url m1) (m_url m2).
  Proof.
    unfold Rm. destruct (late (m_state m1)); [intros (_ & _ & _ & _ & _ & _ & H & _); exact H|intros <-; apply URel_refl].
  Qed.

  Theorem run_rel : forall fuel m1 m2, Rm m1 m2 ->
    Rres (run idna_raw c1 inp base ov fuel m1) (run idna_raw c2 inp base ov fuel m2).
  Proof.
    induction fuel as [|f IH]; intros m1 m2 H; [exact I|].
    cbn [run]. pose proof (step_rel m1 m2 H) as S.
    destruct (step1 m1) as [m1'|v1|v1 e1|v1|]; destruct (step2 m2) as [m2'|v2|v2 e2|v2|]; cbn [Ro] in S; try contradiction;
      try exact S.
    rewrite (Rm_eof _ _ S). destruct (m_eof m2'); [exact (Rm_url _ _ S)|apply IH, S].
  Qed.
End Sim.

(* ------------------------------------------------------------------ *)
(* BasicParser                                                         *)
(* ------------------------------------------------------------------ *)
Section Lift.
  Variable idna_raw : str -> str * bool.
  Variables c1 c2 : cfg.
  Hypothesis A : agree_nosets c1 c2.
  Variable PR : list rune -> url -> url -> Prop.
  Hypothesis PR_refl : forall inp u, PR inp u u.
  Hypothesis PR_ext : forall inp u1 u2 v1 v2,
    u_scheme v1 = u_scheme u1 -> u_path v1 = u_path u1 -> u_opaque v1 = u_opaque u1 ->
    u_scheme v2 = u_scheme u2 -> u_path v2 = u_path u2 -> u_opaque v2 = u_opaque u2 -> PR inp u1 u2 -> PR inp v1 v2.
  Hypothesis PR_seg : forall inp u1 u2 b1 b2 sl, u_scheme u1 = u_scheme u2 -> PR inp u1 u2 -> SRp c1 c2 inp b1 b2 ->
    PR inp (seg_end c1 u1 b1 sl) (seg_end c2 u2 b2 sl).

  (* the code points the machine runs on (the same for both configurations) *)
  Definition run_input (x : str) (u0 : option url) : list rune := decode (cleaned (c_acceptInvalid c2) x u0).

  Theorem sets_BasicParser_gen : forall x b u0 ov,
    Rres c1 c2 (run_input x u0) (PR (run_input x u0))
      (BasicParser idna_raw c1 x b u0 ov) (BasicParser idna_raw c2 x b u0 ov).
  Proof.
    intros x b u0 ov.
    destruct A as (Hrep & Hfail & Hlax & Hcol & Hacc & Hpre & Hpost & Hsp & Hdrv & Hspec & Hsts & Hlatin).
    assert (Hf : same_front c2 c1 (pre_input x u0)) by (repeat split; try assumption; rewrite Hacc; reflexivity).
    assert (Hr : same_front c2 c2 (pre_input x u0)) by (repeat split).
    destruct (BasicParser_shape idna_raw b ov c2 x u0) as [[u [e S]]|[v S]].
    - rewrite (S c1 Hf), (S c2 Hr). apply Rres_refl. apply PR_refl.
    - rewrite (S c1 Hf), (S c2 Hr). unfold machine_run.
      apply run_rel; try assumption; [apply PR_refl|apply PR_ext|apply PR_seg|]. apply Rm_refl. apply PR_refl.
  Qed.
End Lift.

(* the plain instance *)
Theorem sets_BasicParser : forall idna_raw c1 c2, agree_nosets c1 c2 -> forall x b u0 ov,
  Rres c1 c2 (run_input c2 x u0) (PR_eq c1 c2)
    (BasicParser idna_raw c1 x b u0 ov) (BasicParser idna_raw c2 x b u0 ov).
Proof.
  intros idna_raw c1 c2 A x b u0 ov.
  pose proof A as (Hrep & Hfail & Hlax & Hcol & Hacc & Hpre & Hpost & Hsp & Hdrv & Hspec & Hsts & Hlatin).
  apply (sets_BasicParser_gen idna_raw c1 c2 A (fun _ => PR_eq c1 c2)).
  - intros _ u. apply PR_eq_refl.
  - intros _. apply PR_eq_ext.
  - intros inp. apply PR_eq_seg; assumption.
Qed.
Print Assumptions sets_BasicParser.
