(* Equivalent spellings, N3: percent-encoding spellings of the PATH under repeated percent-decoding.
   - repeated decoding works segment by segment (it never joins what a '/' separates);
   - the path step of the canonicalizer is a function of the decoded pathname and of the other components: two
     records that agree outside the path and whose segments have the same fully decoded forms get the same path;
   - this is about the segments of the PARSED records: dot segments are removed by the parser before anything is
     decoded, so two TEXTS with the same decoded segments can canonicalize differently (finding D24). *)
From Verif Require Import Lib.Base Lib.Utf8 Lib.GoStr Model.Cfg Gen.Tables Gen.Options Model.Sets Model.Percent
  Model.Url Model.Host Model.Machine Model.Api Model.Canon Model.Preds.
From Verif Require Import Proofs.Utf8Proofs Proofs.CodecProofs Proofs.MachineInv Proofs.CanonTotal Proofs.RoundTripBase
  Proofs.NormalForm Proofs.SpellingProofs.
From Coq Require Import Lia ZifyBool ZifyN ZifyNat.

Local Arguments N.eqb : simpl never.
Local Arguments N.mul : simpl never.
Local Arguments N.add : simpl never.

(* the fully decoded form *)
Definition rd (s : str) : str := match repeatedDecode s with Some d => d | None => [] end.

Fixpoint iter_dec (n : nat) (s : str) : str := match n with O => s | S n' => iter_dec n' (c_decode s) end.

Lemma str_eqb_true (a b : str) : str_eqb a b = true -> a = b.
Proof. apply RecordInv.str_eqb_eq. Qed.

Lemma repeatedDecode_fuel_iter : forall f s d, repeatedDecode_fuel f s = Some d -> exists n, d = iter_dec n s /\ c_decode d = d.
Proof.
  induction f as [|f IH]; intros s d H; [discriminate H|]. cbn [repeatedDecode_fuel] in H.
  destruct (str_eqb s (c_decode s)) eqn:E.
  - injection H as <-. exists 0%nat. split; [reflexivity|]. symmetry. apply str_eqb_true. exact E.
  - destruct (IH _ _ H) as [n [H1 H2]]. exists (S n). split; [exact H1|exact H2].
Qed.

Lemma rd_iter s : exists n, rd s = iter_dec n s /\ c_decode (rd s) = rd s.
Proof.
  unfold rd. destruct (repeatedDecode s) as [d|] eqn:E; [|exfalso; exact (repeatedDecode_total s E)].
  apply (repeatedDecode_fuel_iter _ _ _ E).
Qed.

Lemma iter_dec_fixed n : forall d, c_decode d = d -> iter_dec n d = d.
Proof. induction n as [|n IH]; intros d H; [reflexivity|]. cbn [iter_dec]. rewrite H. apply IH. exact H. Qed.

Lemma iter_dec_add n m s : iter_dec (n + m) s = iter_dec m (iter_dec n s).
Proof. revert s. induction n as [|n IH]; intros s; [reflexivity|]. cbn [Nat.add iter_dec]. apply IH. Qed.

(* a fixed point reached by iteration is the fully decoded form *)
Lemma rd_unique s n d : iter_dec n s = d -> c_decode d = d -> rd s = d.
Proof.
  intros H1 H2. destruct (rd_iter s) as [m [E1 E2]].
  assert (A : iter_dec (n + m) s = d) by (rewrite iter_dec_add, H1; apply iter_dec_fixed; exact H2).
  assert (B : iter_dec (m + n) s = rd s) by (rewrite iter_dec_add, <- E1; apply iter_dec_fixed; exact E2).
  rewrite Nat.add_comm in B. congruence.
Qed.

(* one pass of decoding does not cross a '/' *)
Lemma c_decode_slash : forall s r, c_decode (s ++ 47 :: r) = c_decode s ++ 47 :: c_decode r.
Proof.
  induction s as [s IH] using list_len_ind. intros r. destruct s as [|b s']; [reflexivity|].
  cbn [app c_decode]. destruct (b =? 37) eqn:Eb.
  - destruct s' as [|h [|l s'']].
    + cbn [app]. destruct r as [|x r']; cbn [c_decode]; [reflexivity|].
      replace (isHexDigit 47) with false by reflexivity. cbn [andb]. reflexivity.
    + cbn [app]. replace (isHexDigit 47) with false by reflexivity. rewrite andb_false_r.
      change (h :: 47 :: r) with ([h] ++ 47 :: r). rewrite (IH [h]) by (cbn [length]; lia). reflexivity.
    + cbn [app]. destruct (isHexDigit h && isHexDigit l).
      * rewrite (IH s'') by (cbn [length]; lia). reflexivity.
      * change (h :: l :: s'' ++ 47 :: r) with ((h :: l :: s'') ++ 47 :: r). rewrite (IH (h :: l :: s'')) by (cbn [length]; lia). reflexivity.
  - rewrite (IH s') by (cbn [length]; lia). reflexivity.
Qed.

Definition pathname_of (segs : list str) : str := flat_map (fun s => 47 :: s) segs.

Lemma c_decode_cons_slash r : c_decode (47 :: r) = 47 :: c_decode r.
Proof. cbn [c_decode]. replace (47 =? 37) with false by reflexivity. reflexivity. Qed.

Lemma c_decode_app_pathname s segs : c_decode (s ++ pathname_of segs) = c_decode s ++ c_decode (pathname_of segs).
Proof.
  destruct segs as [|s2 segs']; unfold pathname_of; cbn [flat_map app].
  - rewrite !app_nil_r. reflexivity.
  - rewrite c_decode_slash, c_decode_cons_slash. reflexivity.
Qed.

Lemma c_decode_pathname segs : c_decode (pathname_of segs) = pathname_of (map c_decode segs).
Proof.
  induction segs as [|s segs IH]; [reflexivity|].
  change (pathname_of (s :: segs)) with (47 :: (s ++ pathname_of segs)).
  rewrite c_decode_cons_slash, c_decode_app_pathname, IH. reflexivity.
Qed.

Lemma iter_dec_pathname n : forall segs, iter_dec n (pathname_of segs) = pathname_of (map (iter_dec n) segs).
Proof.
  induction n as [|n IH]; intros segs; cbn [iter_dec].
  - rewrite map_id. reflexivity.
  - rewrite c_decode_pathname, IH, map_map. reflexivity.
Qed.

(* repeated decoding of a pathname is repeated decoding of its segments *)
Theorem rd_pathname segs : rd (pathname_of segs) = pathname_of (map rd segs).
Proof.
  assert (N : exists n, forall s, In s segs -> iter_dec n s = rd s).
  { induction segs as [|s segs [n IH]]; [exists 0%nat; intros s []|].
    destruct (rd_iter s) as [m [E1 E2]]. exists (m + n)%nat. intros x [<-|Hx].
    - rewrite iter_dec_add, <- E1. apply iter_dec_fixed. exact E2.
    - rewrite Nat.add_comm, iter_dec_add, (IH x Hx). apply iter_dec_fixed. destruct (rd_iter x) as [k [_ F]]. exact F. }
  destruct N as [n Hn]. apply (rd_unique _ n).
  - rewrite iter_dec_pathname. f_equal. apply map_ext_in. exact Hn.
  - rewrite c_decode_pathname, map_map. f_equal. apply map_ext. intros s. destruct (rd_iter s) as [k [_ F]]. exact F.
Qed.

Corollary de_pathname segs1 segs2 tr :
  map rd segs1 = map rd segs2 -> de (pathname_of segs1) tr = de (pathname_of segs2) tr.
Proof.
  intros H. unfold de. fold (rd (pathname_of segs1)) (rd (pathname_of segs2)). rewrite !rd_pathname, H. reflexivity.
Qed.

(* ---------- the path step of the canonicalizer ---------- *)
Section PathStep.
  Variable idna_raw : str -> str * bool.
  Variable c : cfg.

  Definition path_step (u : url) : option url :=
    bind (Pathname u) (fun pn =>
      if negb (is_nil pn) then bind (decodeEncode pn pes_LaxPath) (SetPathname idna_raw c u) else Some u).

  (* two records with list paths that agree outside the path (and the input text) and whose segments have the same
     fully decoded forms: the path step gives the same record *)
  Theorem path_step_same u1 u2 :
    u_opaque u1 = false -> u_opaque u2 = false -> u_path u1 <> [] -> u_path u2 <> [] ->
    eqi (set_path u1 [] false) (set_path u2 [] false) ->
    map rd (u_path u1) = map rd (u_path u2) ->
    orel (path_step u1) (path_step u2).
  Proof.
    intros O1 O2 P1 P2 He Hd. unfold path_step, Pathname, path_string. rewrite O1, O2. cbn [bind].
    fold (pathname_of (u_path u1)) (pathname_of (u_path u2)).
    assert (N : forall l : list str, l <> [] -> negb (is_nil (pathname_of l)) = true) by (intros [|s l] H; [congruence|reflexivity]).
    rewrite (N _ P1), (N _ P2), !decodeEncode_de, (de_pathname _ _ _ Hd). cbn [bind].
    unfold SetPathname. rewrite O1, O2. unfold BasicParser.
    assert (E : set_input (set_path u1 [] false) (de (pathname_of (u_path u2)) pes_LaxPath)
              = set_input (set_path u2 [] false) (de (pathname_of (u_path u2)) pes_LaxPath)).
    { rewrite (eqi_ex _ _ He). reflexivity. }
    rewrite E. apply orel_refl.
  Qed.
End PathStep.

Print Assumptions rd_pathname.
Print Assumptions path_step_same.

(* the premises hold: http://h/%2561/b%2Fc and http://h/a/b%252fc have the segments ["%2561"; "b%2Fc"] and
   ["a"; "b%252fc"], both fully decoded to ["a"; "b/c"] *)
Example path_step_same_ex :
  exists u1 u2,
    Parse idna_toy default_cfg [104;116;116;112;58;47;47;104;47;37;50;53;54;49;47;98;37;50;70;99] = PUrl u1 /\
    Parse idna_toy default_cfg [104;116;116;112;58;47;47;104;47;97;47;98;37;50;53;50;102;99] = PUrl u2 /\
    u_path u1 = [[37;50;53;54;49]; [98;37;50;70;99]] /\ u_path u2 = [[97]; [98;37;50;53;50;102;99]] /\
    eqi (set_path u1 [] false) (set_path u2 [] false) /\ map rd (u_path u1) = map rd (u_path u2) /\
    map rd (u_path u1) = [[97]; [98;47;99]].
Proof.
  eexists. eexists. split; [vm_compute; reflexivity|]. split; [vm_compute; reflexivity|].
  split; [reflexivity|]. split; [reflexivity|]. split; [reflexivity|]. split; vm_compute; reflexivity.
Qed.

(* ---------- finding D24: the statement is false of the TEXTS ---------- *)
(* "http://h/a/%252e%252e/.." and "http://h/a/../.." have the same fully decoded segments ["a"; ".."; ".."], but the
   parser removes dot segments before anything is decoded: the canonical strings (repeated decoding on) are
   "http://h/a/" and "http://h/" *)
Theorem decoded_segments_texts_refuted :
  exists segs1 segs2 t1 t2 u1 u2 s1 s2,
    map rd segs1 = map rd segs2 /\
    t1 = [104;116;116;112;58;47;47;104] ++ pathname_of segs1 /\ t2 = [104;116;116;112;58;47;47;104] ++ pathname_of segs2 /\
    ProfileParse idna_toy copt_WithRepeatedPercentDecoding t1 = CUrl u1 /\
    ProfileParse idna_toy copt_WithRepeatedPercentDecoding t2 = CUrl u2 /\
    Href u1 false = Some s1 /\ Href u2 false = Some s2 /\
    s1 = [104;116;116;112;58;47;47;104;47;97;47] /\ s2 = [104;116;116;112;58;47;47;104;47] /\ s1 <> s2 /\
    norm_segs segs1 <> norm_segs segs2.
Proof.
  exists [[97]; [37;50;53;50;101;37;50;53;50;101]; [46;46]], [[97]; [46;46]; [46;46]].
  eexists. eexists. eexists. eexists. eexists. eexists.
  split; [vm_compute; reflexivity|]. split; [reflexivity|]. split; [reflexivity|].
  split; [vm_compute; reflexivity|]. split; [vm_compute; reflexivity|].
  split; [vm_compute; reflexivity|]. split; [vm_compute; reflexivity|].
  split; [reflexivity|]. split; [reflexivity|]. split; [discriminate|]. vm_compute. discriminate.
Qed.
Print Assumptions decoded_segments_texts_refuted.
