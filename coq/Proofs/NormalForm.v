(* Normal form of ordinary web URLs (N1): for a text
       scheme "://" [user [":" password] "@"] host [":" digits] ("/" segment)* ["?" query] ["#" fragment]
   with a scheme (in any letter case) that is special and not "file", the parse result is given by an explicit
   function [nf] of the components and of the result of the host parser on the host text:

     normal_form : Parse idna_raw c (text_of k) =
                   match parseHost idna_raw c (pre_host c k) (k_host k) false with
                   | Ok _ h => PUrl (nf c k h) | Er _ e => PErr e end                                          *)
From Verif Require Import Lib.Base Lib.Utf8 Lib.GoStr Model.Cfg Gen.Tables Gen.Options Model.Sets Model.Percent
  Model.Url Model.Host Model.Machine Model.Api Model.Preds.
From Verif Require Import Proofs.SetsProofs Proofs.Cleaning Proofs.PhaseLemmas Proofs.RecordInv Proofs.SchemeKept
  Proofs.RoundTripBase Proofs.RoundTripPhases Proofs.RoundTripOpaque Proofs.RoundTripHostless Proofs.RoundTripSpecial
  Proofs.NormalFormPhases.
From Verif Require Proofs.Utf8Proofs.
From Coq Require Import Lia ZifyBool ZifyN ZifyNat.

Local Arguments N.mul : simpl never.
Local Arguments N.add : simpl never.
Local Arguments N.sub : simpl never.
Local Arguments N.eqb : simpl never.
Local Arguments N.ltb : simpl never.
Local Arguments N.leb : simpl never.

(* ------------------------------------------------------------------------------------------ *)
(* the components of a web URL text                                                             *)
(* ------------------------------------------------------------------------------------------ *)
Record comps := {
  k_sch : str;                 (* the scheme, any letter case *)
  k_user : str;                (* "" and "" = no credentials *)
  k_pass : str;
  k_host : str;                (* the host text *)
  k_port : option str;         (* None: no ':' after the host; Some digits (possibly none) *)
  k_segs : list str;           (* the path is "/" seg1 "/" seg2 ...; [] = no path at all *)
  k_query : option str;
  k_frag : option str
}.

Definition text_of (k : comps) : str :=
  k_sch k ++ [58; 47; 47] ++ cred_part (k_user k) (k_pass k) ++ k_host k ++ port_part (k_port k) ++
  flat_map (fun s => 47 :: s) (k_segs k) ++ q_tail (k_query k) ++ f_tail (k_frag k).

(* dot-segment normalisation, as the path state does it: [mid] = the segment is followed by '/' *)
Definition pstep (mid : bool) (acc : list str) (s : str) : list str :=
  if isDoubleDotPathSegment s then (if mid then removelast acc else removelast acc ++ [[]])
  else if isSingleDotPathSegment s then (if mid then acc else acc ++ [[]])
  else acc ++ [s].
Fixpoint norm_from (acc : list str) (seg : str) (segs : list str) : list str :=
  match segs with
  | [] => pstep false acc seg
  | s' :: r => norm_from (pstep true acc seg) s' r
  end.
Definition norm_segs (segs : list str) : list str :=
  match segs with [] => [[]] | s :: r => norm_from [] s r end.

(* the port component: nothing for no digits and for the default port of the scheme *)
Definition nf_port (c : cfg) (lsch : str) (op : option str) : option str * N :=
  match op with
  | Some (x :: d) =>
      let v := digits_val 10 (x :: d) in
      if opt_eqb str_eqb (getSpecialScheme c lsch) (Some (itoa v)) then (None, 0) else (Some (itoa v), v)
  | _ => (None, 0)
  end.

(* the normal form: the record the parser returns when the host parser returns [h] *)
Definition nf (c : cfg) (k : comps) (h : str) : url :=
  {| u_input := text_of k;
     u_scheme := str_lower (k_sch k);
     u_username := k_user k;
     u_password := k_pass k;
     u_host := Some h;
     u_port := fst (nf_port c (str_lower (k_sch k)) (k_port k));
     u_decodedPort := snd (nf_port c (str_lower (k_sch k)) (k_port k));
     u_path := norm_segs (k_segs k);
     u_opaque := false;
     u_query := option_map (enc_with c (c_squerySet c)) (k_query k);
     u_fragment := option_map (enc_with c (c_sfragSet c)) (k_frag k);
     u_verrs := [];
     u_sp := None |}.

(* the record the host parser is called with (only its input is visible, in the error it returns) *)
Definition pre_host (c : cfg) (k : comps) : url :=
  set_password (set_username (set_scheme (empty_url (text_of k)) (str_lower (k_sch k))) (k_user k)) (k_pass k).

(* the grammar *)
Definition port_text_okb (op : option str) : bool :=
  match op with Some d => forallb is_digit d && (digits_val 10 d <=? 65535) | None => true end.

Definition comps_ok (c : cfg) (k : comps) : bool :=
  scheme_text (k_sch k) && isSpecialScheme c (str_lower (k_sch k)) && negb (str_eqb (str_lower (k_sch k)) s_file)
  && none_in pes_UserInfo (k_user k) && none_in pes_UserInfo (k_pass k)
  && negb (is_nil (k_host k)) && forallb vis (k_host k) && hscan true false (k_host k) && negb (hbr false (k_host k))
  && negb (mem 64 (k_host k))
  && port_text_okb (k_port k)
  && segs_text_ok c true (k_segs k)
  && match k_query k with Some q => forallb vis q && negb (mem 35 q) | None => true end
  && match k_frag k with Some f => forallb vis f | None => true end.

(* ------------------------------------------------------------------------------------------ *)
(* the path function of the machine is [norm_segs]                                              *)
(* ------------------------------------------------------------------------------------------ *)
Lemma shortenPath_nonfile sch p : str_eqb sch s_file = false -> shortenPath sch p = removelast p.
Proof.
  intros H. unfold shortenPath, drop_last. destruct p as [|x [|y r]]; try reflexivity. rewrite H. reflexivity.
Qed.

Lemma path_commit_pstep c u buf sl :
  c_collapse c = false -> str_eqb (u_scheme u) s_file = false -> u_opaque u = false ->
  path_commit c u buf sl = set_path u (pstep sl (u_path u) buf) false.
Proof.
  intros Hcol Hnf Ho. unfold path_commit, pstep. cbv zeta. rewrite Hcol, Hnf, Ho, (shortenPath_nonfile _ _ Hnf).
  cbn [andb negb]. destruct (isDoubleDotPathSegment buf).
  - destruct sl; reflexivity.
  - destruct (isSingleDotPathSegment buf); cbn [andb negb].
    + destruct sl; cbn [negb]; [symmetry; apply set_path_eta; [reflexivity|exact Ho]|reflexivity].
    + reflexivity.
Qed.

Lemma commits_norm c : forall segs seg u,
  c_collapse c = false -> str_eqb (u_scheme u) s_file = false -> u_opaque u = false ->
  commits c u seg segs = set_path u (norm_from (u_path u) seg segs) false.
Proof.
  induction segs as [|s' r IH]; intros seg u Hcol Hnf Ho; cbn [commits norm_from].
  - apply path_commit_pstep; assumption.
  - rewrite (path_commit_pstep c u seg true Hcol Hnf Ho). rewrite IH by (try assumption; reflexivity). reflexivity.
Qed.

(* ------------------------------------------------------------------------------------------ *)
(* the bytes of a text of the grammar are visible ASCII                                          *)
(* ------------------------------------------------------------------------------------------ *)
Lemma schemechar_vis x : is_schemechar x = true -> vis x = true.
Proof.
  intros H. destruct (schemechar_small x H) as [Hx _].
  pose proof (sweep128 (fun x => implb (is_schemechar x) (vis x)) ltac:(vm_compute; reflexivity) x Hx) as S.
  cbv beta in S. rewrite H in S. exact S.
Qed.

Lemma alpha_vis x : isAlpha x = true -> vis x = true.
Proof.
  intros H. destruct (alpha_small x H) as [Hx _].
  pose proof (sweep128 (fun x => implb (isAlpha x) (vis x)) ltac:(vm_compute; reflexivity) x Hx) as S.
  cbv beta in S. rewrite H in S. exact S.
Qed.

Lemma scheme_text_vis s : scheme_text s = true -> s <> [] /\ forallb vis s = true.
Proof.
  destruct s as [|a r]; [discriminate|]. unfold scheme_text. intros H. apply andb_true_iff in H. destruct H as [H1 H2].
  split; [discriminate|]. cbn [forallb]. rewrite (alpha_vis a H1). cbn [andb]. revert H2. apply forallb_impl. exact schemechar_vis.
Qed.

Lemma vis_lt128 h : forallb vis h = true -> forallb (fun x => x <? 128) h = true.
Proof. apply forallb_impl. intros x. unfold vis. lia. Qed.

Lemma digits_vis d : forallb is_digit d = true -> forallb vis d = true.
Proof. apply forallb_impl. intros x. unfold is_digit, vis. lia. Qed.

Lemma segs_vis c sp segs : CfgRT c -> segs_text_ok c sp segs = true -> forallb vis (flat_map (fun s => 47 :: s) segs) = true.
Proof.
  intros R. induction segs as [|s r IH]; [reflexivity|]. unfold segs_text_ok in *. cbn [forallb flat_map]. intros H.
  apply andb_true_iff in H. destruct H as [H1 H2]. cbn [app forallb]. rewrite forallb_app, (IH H2), andb_true_r. cbn [andb].
  revert H1. apply forallb_impl. intros x Hx. unfold path_char in Hx. apply andb_true_iff in Hx. destruct Hx as [_ Hx].
  apply negb_true_iff in Hx. apply (not_encoded_vis (c_pathSet c) x (R_path c R) Hx).
Qed.

(* ------------------------------------------------------------------------------------------ *)
(* the theorem                                                                                  *)
(* ------------------------------------------------------------------------------------------ *)
Section NormalForm.
  Variable idna_raw : str -> str * bool.
  Variable c : cfg.
  Hypothesis R : CfgRT c.
  Hypothesis Hskip : c_skipTrailSlash c = false.

  Let Hrep := R_rep c R.
  Let Hfail := R_fail c R.

  Lemma Parse_of_ends s r :
    s <> [] -> forallb printable s = true -> vis (hd 0 s) = true -> vis (last s 0) = true ->
    ends idna_raw c (map Good s) (mk SchemeStart (-1) false [] false false false (empty_url s)) r ->
    Parse idna_raw c s = to_pres r.
  Proof using R.
    intros Hne Hp Hh Hl He. unfold Parse.
    rewrite (BasicParser_factors idna_raw c Hrep Hfail). unfold parse_clean.
    rewrite (clean_sv_id _ s Hne Hp Hh Hl), (decode_printable s Hp). cbn [option_map].
    rewrite (ends_fuel idna_raw c Hrep Hfail _ _ _ _ He). reflexivity.
  Qed.

  Theorem normal_form k :
    comps_ok c k = true ->
    Parse idna_raw c (text_of k) =
    match parseHost idna_raw c (pre_host c k) (k_host k) false with
    | Ok _ h => PUrl (nf c k h)
    | Er _ e => PErr e
    end.
  Proof using All.
    intros Hok. unfold comps_ok in Hok.
    repeat (apply andb_true_iff in Hok; let H := fresh "K" in destruct Hok as [Hok H]).
    rename Hok into Ksch.
    (* names: K = frag, K0 = query, K1 = segs, K2 = port, K3 = no '@', K4 = brackets, K5 = hscan, K6 = host vis,
       K7 = host non-empty, K8 = password, K9 = user, K10 = not file, K11 = special *)
    apply negb_true_iff in K3, K4, K10. apply negb_true_iff in K7. apply is_nil_false in K7.
    destruct k as [sch user pass host op segs oq of]. cbn [k_sch k_user k_pass k_host k_port k_segs k_query k_frag] in *.
    set (k := {| k_sch := sch; k_user := user; k_pass := pass; k_host := host; k_port := op; k_segs := segs;
                 k_query := oq; k_frag := of |}).
    set (s := text_of k). set (lsch := str_lower sch) in *.
    set (pn := flat_map (fun s => 47 :: s) segs).
    set (A := cred_part user pass ++ host ++ port_part op).
    assert (Hs : s = sch ++ 58 :: 47 :: 47 :: A ++ pn ++ q_tail oq ++ f_tail of).
    { unfold s, text_of, A, k. cbn [k_sch k_user k_pass k_host k_port k_segs k_query k_frag app]. rewrite <- !app_assoc. reflexivity. }
    assert (Hport : port_text_ok op).
    { intros d E. subst op. cbn [port_text_okb] in K2. apply andb_true_iff in K2. exact K2. }
    assert (Hq35 : forall q, oq = Some q -> ~ In 35 q).
    { intros q E. subst oq. apply andb_true_iff in K0. destruct K0 as [_ K0]. apply negb_true_iff in K0.
      intros Hin. unfold mem in K0. assert (existsb (N.eqb 35) q = true) by (apply existsb_exists; exists 35; split; [exact Hin|reflexivity]).
      congruence. }
    destruct (scheme_text_vis sch Ksch) as [Sne Svis].
    (* the text is clean *)
    assert (Hvis : forallb vis s = true).
    { rewrite Hs, forallb_app, Svis. cbn [forallb]. rewrite !forallb_app. unfold A. rewrite !forallb_app.
      rewrite (cred_part_printable _ _ K9 K8), K6. unfold pn. rewrite (segs_vis c true segs R K1).
      replace (forallb vis (port_part op)) with true.
      2:{ destruct op as [d|]; [|reflexivity]. destruct (Hport d eq_refl) as [Hd _]. cbn [port_part forallb].
          rewrite (digits_vis d Hd). reflexivity. }
      replace (forallb vis (q_tail oq)) with true.
      2:{ destruct oq as [q|]; [|reflexivity]. apply andb_true_iff in K0. destruct K0 as [K0 _]. cbn [q_tail forallb]. rewrite K0. reflexivity. }
      replace (forallb vis (f_tail of)) with true; [reflexivity|].
      destruct of as [f|]; [|reflexivity]. cbn [f_tail forallb]. rewrite K. reflexivity. }
    assert (Hne : s <> []). { rewrite Hs. destruct sch; [congruence|discriminate]. }
    destruct (vis_all_clean s Hne Hvis) as [Hprint [Hhd Hlast]].
    (* it is enough to exhibit the run *)
    set (u1 := pre_host c k).
    assert (Hgoal : ends idna_raw c (map Good s) (mk SchemeStart (-1) false [] false false false (empty_url s))
                      match parseHost idna_raw c u1 host false with
                      | Ok _ h => RUrl (nf c k h) | Er u' e => RErr u' e end).
    2:{ rewrite (Parse_of_ends s _ Hne Hprint Hhd Hlast Hgoal). destruct (parseHost idna_raw c u1 host false); reflexivity. }
    (* scheme, colon, slashes *)
    assert (Hr0 : rest_from (map Good s) 0 = sch ++ 58 :: 47 :: 47 :: A ++ pn ++ q_tail oq ++ f_tail of).
    { rewrite rest_map_good. exact Hs. }
    pose proof (len_pos sch Sne) as Hls.
    eapply (reaches_ends idna_raw c Hrep Hfail (map Good s)).
    { apply (scheme_phase_mixed idna_raw c Hrep Hfail (map Good s) sch _ false false false (empty_url s) Hr0 Ksch). }
    fold lsch.
    pose proof (rest_app (map Good s) 0%Z _ _ ltac:(blia) Hr0) as Hr1.
    set (p := (len sch - 1)%Z) in *. replace (0 + len sch)%Z with (p + 1)%Z in Hr1 by (unfold p; ring).
    assert (Hp : (0 <= p)%Z) by (unfold p; blia).
    destruct (rest_uncons (map Good s) (p + 1)%Z _ _ ltac:(blia) Hr1) as [_ [Hr2 _]].
    destruct (rest_uncons (map Good s) (p + 1 + 1)%Z _ _ ltac:(blia) Hr2) as [_ [Hr3 _]].
    destruct (rest_uncons (map Good s) (p + 1 + 1 + 1)%Z _ _ ltac:(blia) Hr3) as [_ [Hr4 _]].
    set (u0 := set_scheme (empty_url s) lsch).
    eapply (reaches_ends idna_raw c Hrep Hfail (map Good s)).
    { eapply (reaches_step idna_raw c Hrep Hfail).
      - rewrite (step_scheme_colon idna_raw c Hrep Hfail _ p _ _ _ _ _ _ ltac:(blia) Hr1). rewrite K10, K11. reflexivity.
      - reflexivity. }
    eapply (reaches_ends idna_raw c Hrep Hfail (map Good s)).
    { eapply (reaches_step idna_raw c Hrep Hfail);
        [apply (step_sas idna_raw c Hrep Hfail _ (p + 1)%Z _ _ _ _ _ _ ltac:(blia) Hr2)|reflexivity]. }
    destruct (auth_first user pass host (port_part op ++ pn ++ q_tail oq ++ f_tail of) K9 K8 K5 K7) as [x [l [E1 [E2 E3]]]].
    assert (Hr4' : rest_from (map Good s) (p + 1 + 1 + 1 + 1) = x :: l).
    { rewrite Hr4. unfold A. rewrite <- !app_assoc. exact E1. }
    eapply (reaches_ends idna_raw c Hrep Hfail (map Good s)).
    { eapply (reaches_step idna_raw c Hrep Hfail);
        [apply (step_sais idna_raw c Hrep Hfail _ (p + 1 + 1 + 1)%Z _ _ _ _ _ _ _ ltac:(blia) Hr4' E2 E3)|reflexivity]. }
    replace (p + 1 + 1 + 1 + 1 - 1)%Z with (p + 1 + 1 + 1)%Z by ring. clear x l E1 E2 E3 Hr4'.
    (* the credentials *)
    assert (Hr4c : rest_from (map Good s) (p + 1 + 1 + 1 + 1) = cred_part user pass ++ (host ++ port_part op ++ pn ++ q_tail oq ++ f_tail of)).
    { rewrite Hr4. unfold A. rewrite <- !app_assoc. reflexivity. }
    destruct (cred_phase idna_raw c Hrep Hfail _ (p + 1 + 1 + 1)%Z u0 user pass _ ltac:(blia) Hr4c eq_refl eq_refl K9 K8) as [pw Hcred].
    eapply (reaches_ends idna_raw c Hrep Hfail (map Good s)); [exact Hcred|]. clear Hcred.
    change (set_password (set_username u0 user) pass) with u1.
    set (P := (p + 1 + 1 + 1 + len (cred_part user pass))%Z).
    pose proof (len_nonneg (cred_part user pass)) as Hlc.
    pose proof (rest_app (map Good s) (p + 1 + 1 + 1 + 1)%Z _ _ ltac:(blia) Hr4c) as Hr5.
    replace (p + 1 + 1 + 1 + 1 + len (cred_part user pass))%Z with (P + 1)%Z in Hr5 by (unfold P; ring).
    assert (Hsp1 : IsSpecialScheme c u1 = true) by exact K11.
    assert (Hsm : forallb (fun x => x <? 128) host = true).
    { apply vis_lt128. exact K6. }
    assert (Hend : at_end (pn ++ q_tail oq ++ f_tail of) = true) by apply at_end_tail.
    set (a := negb (is_nil user) || negb (is_nil pass)).
    (* the host *)
    pose proof (parseHost_keeps idna_raw c Hrep u1 host false) as Hkeep.
    destruct (parseHost idna_raw c u1 host false) as [u1' h'|u1' e] eqn:Eph.
    2:{ apply (host_port_fail idna_raw c Hrep Hfail _ P a pw u1 host op _ u1' e (all_good_map s) ltac:(unfold P; blia) Hr5 Hend);
          try assumption; rewrite Hsp1; assumption. }
    cbn [keeps] in Hkeep. subst u1'.
    eapply (reaches_ends idna_raw c Hrep Hfail (map Good s)).
    { apply (host_port_reach idna_raw c Hrep Hfail _ P a pw u1 host h' op _ (all_good_map s) ltac:(unfold P; blia) Hr5 Hend);
        try assumption; rewrite Hsp1; assumption. }
    apply (finishes_ends idna_raw c Hrep Hfail).
    (* the path, the query, the fragment *)
    set (u2 := port_upd c (set_host u1 (Some h')) op).
    set (X := host ++ port_part op). pose proof (len_nonneg X) as HlX.
    assert (Hr6 : rest_from (map Good s) (P + len X + 1) = pn ++ q_tail oq ++ f_tail of).
    { pose proof (rest_app (map Good s) (P + 1)%Z X (pn ++ q_tail oq ++ f_tail of) ltac:(unfold P; blia)) as G.
      replace (P + 1 + len X)%Z with (P + len X + 1)%Z in G by ring. apply G. rewrite Hr5. unfold X. rewrite <- app_assoc. reflexivity. }
    assert (Hu2 : u_scheme u2 = lsch /\ u_opaque u2 = false /\ u_path u2 = [] /\ IsSpecialScheme c u2 = true).
    { unfold u2, port_upd. destruct op as [[|y d]|]; try (repeat split; try reflexivity; exact K11).
      unfold cleanDefaultPort. cbn [u_scheme set_port set_host u_port].
      destruct (getSpecialScheme c (u_scheme u1)); repeat match goal with |- context [if ?b then _ else _] => destruct b end;
        repeat split; try reflexivity; exact K11. }
    destruct Hu2 as [U1 [U2 [U3 U4]]].
    assert (Hfin : forall seg rsegs P',
              (-1 <= P')%Z -> rest_from (map Good s) (P' + 1) = seg ++ flat_map (fun s => 47 :: s) rsegs ++ q_tail oq ++ f_tail of ->
              segs_text_ok c true (seg :: rsegs) = true -> norm_from [] seg rsegs = norm_segs segs ->
              finishes idna_raw c (map Good s) (mk PathSt P' false [] a false pw u2) (nf c k h')).
    { intros seg rsegs P' HP' Hrr Hgs Hnorm.
      eapply (finishes_eq idna_raw c Hrep Hfail).
      - apply (path_phase_gen idna_raw c Hrep Hfail _ rsegs seg P' a false pw u2 oq of (R_sp c R) HP' Hrr); [rewrite U4; exact Hgs|exact Hq35].
      - rewrite (commits_norm c rsegs seg u2 (R_col c R)) by (try assumption; rewrite U1; exact K10).
        rewrite U3, Hnorm. unfold tail_res, queryset, fragset. cbn [u_scheme set_path]. rewrite U1, K11.
        unfold nf, u2, port_upd, nf_port. cbn [k_sch k_user k_pass k_host k_port k_segs k_query k_frag k]. fold lsch s.
        destruct op as [[|y d]|]; cbn [fst snd].
        + destruct oq, of; reflexivity.
        + unfold cleanDefaultPort. cbn [u_scheme set_port set_host u_port u1 pre_host set_password set_username set_scheme k_sch k].
          fold lsch. destruct (getSpecialScheme c lsch) as [dp|]; cbn [opt_eqb].
          * destruct (str_eqb dp (itoa (digits_val 10 (y :: d)))); cbn [fst snd]; destruct oq, of; reflexivity.
          * destruct oq, of; reflexivity.
        + destruct oq, of; reflexivity. }
    destruct segs as [|seg1 rsegs] eqn:Esegs.
    - (* no path: the path state sees the empty buffer *)
      unfold pn in Hr6, Hend. cbn [flat_map app] in Hr6, Hend.
      eapply (reaches_finishes idna_raw c Hrep Hfail).
      { eapply (reaches_step idna_raw c Hrep Hfail);
          [apply (step_pathstart_special idna_raw c Hrep Hfail _ (P + len X)%Z [] a false pw u2 _ U4 Hskip ltac:(unfold P; blia) Hr6 Hend)|reflexivity].
        destruct oq; [reflexivity|]. destruct of; reflexivity. }
      apply (Hfin [] [] (P + len X + 1 - 1)%Z ltac:(unfold P; blia)); [|reflexivity|reflexivity].
      replace (P + len X + 1 - 1 + 1)%Z with (P + len X + 1)%Z by ring. exact Hr6.
    - unfold pn in Hr6. cbn [flat_map] in Hr6. rewrite <- app_assoc in Hr6. cbn [app] in Hr6.
      eapply (reaches_finishes idna_raw c Hrep Hfail).
      { eapply (reaches_step idna_raw c Hrep Hfail);
          [apply (step_pathstart_slash idna_raw c Hrep Hfail _ (P + len X)%Z [] a false pw u2 _ ltac:(unfold P; blia) Hr6)|reflexivity]. }
      destruct (rest_uncons (map Good s) (P + len X + 1)%Z _ _ ltac:(unfold P; blia) Hr6) as [_ [Hr7 _]].
      apply (Hfin seg1 rsegs (P + len X + 1)%Z ltac:(unfold P; blia)); [|exact K1|reflexivity].
      rewrite Hr7, <- ?app_assoc. reflexivity.
  Qed.
End NormalForm.

Print Assumptions normal_form.

(* the premises hold and the normal form is what one expects:
   "HtTp://U:p@Example.COM:080/a/./b/x/%2E./c?q=1'2#f" (the apostrophe in the query is encoded by the parser) *)
Definition nf_ex : comps :=
  {| k_sch := [72;116;84;112]; k_user := [85]; k_pass := [112];
     k_host := [69;120;97;109;112;108;101;46;67;79;77]; k_port := Some [48;56;48];
     k_segs := [[97]; [46]; [98]; [120]; [37;50;69;46]; [99]]; k_query := Some [113;61;49;39;50]; k_frag := Some [102] |}.
Definition nf_ex_idna (s : str) : str * bool := (str_lower s, false).

Example normal_form_ex :
  cfg_rt default_cfg = true /\ c_skipTrailSlash default_cfg = false /\ comps_ok default_cfg nf_ex = true /\
  Parse nf_ex_idna default_cfg (text_of nf_ex) = PUrl (nf default_cfg nf_ex [101;120;97;109;112;108;101;46;99;111;109]) /\
  u_scheme (nf default_cfg nf_ex []) = [104;116;116;112] /\ u_port (nf default_cfg nf_ex []) = None /\
  u_path (nf default_cfg nf_ex []) = [[97]; [98]; [99]] /\ u_query (nf default_cfg nf_ex []) = Some [113;61;49;37;50;55;50].
Proof.
  split; [vm_compute; reflexivity|]. split; [reflexivity|]. split; [vm_compute; reflexivity|].
  split; [vm_compute; reflexivity|]. repeat split; vm_compute; reflexivity.
Qed.
