(* C14 (and the sharing half of C13): obligations about the effect structure of the CURRENT source,
   regenerated into Gen/Effects.v on every run by harness/cmd/geneffects (go/types). For every function
   the set of roots it may write through (receiver, a parameter, a package-level variable) is computed
   as the least fixpoint over direct writes and calls; the obligations say that the read-only entry
   points of the API never write through their receiver / base argument, that no method of a parser
   or profile writes the parser or profile, and that package-level variables are written only by the
   package initialisers. All by computation over the generated literal. *)
From Coq Require Import String List Bool Arith.
Import ListNotations.
From Verif Require Import Gen.Effects.
Open Scope string_scope.

Definition root_eqb (a b : root) : bool :=
  match a, b with
  | RRecv, RRecv => true
  | RParam i, RParam j => Nat.eqb i j
  | RGlobal x, RGlobal y => String.eqb x y
  | RFresh, RFresh => true
  | RUnknown, RUnknown => true
  | _, _ => false
  end.

Definition mem_root (r : root) (l : list root) : bool := existsb (root_eqb r) l.
Fixpoint add_roots (l acc : list root) : list root :=
  match l with [] => acc | r :: l' => if mem_root r acc then add_roots l' acc else add_roots l' (r :: acc) end.

Definition is_heap_root (r : root) : bool := match r with RFresh => false | _ => true end.

(* the summary: function index (position in [functions]) -> roots it may write through *)
Definition summary := list (list root).
Definition nfun : nat := length functions.
Definition lookup (s : summary) (f : nat) : list root := nth f s [].

Definition direct (f : nat) : list root :=
  add_roots (filter is_heap_root (map w_root (filter (fun w => Nat.eqb (w_fn w) f) writes))) [].

(* translate a callee's written root into the caller's roots *)
Definition translate (c : ecall) (r : root) : list root :=
  match r with
  | RRecv => match c_recv c with Some rs => rs | None => [] end
  | RParam i => nth i (c_args c) []
  | RGlobal g => [RGlobal g]
  | RFresh => []
  | RUnknown => [RUnknown]
  end.

(* a call through a function value may write through every pointer argument *)
(* callee index nfun = a library function outside the analysed packages (no effect on its arguments: the
   reviewed list of mutating library calls is emitted as writes by the translator); nfun + 1 = a call
   through a function value *)
Definition call_effect (s : summary) (c : ecall) : list root :=
  if Nat.eqb (c_callee c) (S nfun) then concat (c_args c)
  else flat_map (translate c) (lookup s (c_callee c)).

Definition step_fn (s : summary) (f : nat) : list root :=
  add_roots (filter is_heap_root (flat_map (call_effect s) (filter (fun c => Nat.eqb (c_fn c) f) calls))) (direct f).

Definition step_all (s : summary) : summary := map (step_fn s) (seq 0 nfun).

Fixpoint iterate (n : nat) (s : summary) : summary :=
  match n with O => s | S n' => iterate n' (step_all s) end.

(* computed once; that 16 rounds suffice is not assumed: [effects_fixpoint] below checks that one more round changes nothing *)
Definition summaries : summary := Eval vm_compute in iterate 16 (map direct (seq 0 nfun)).

(* the fixpoint has been reached *)
Definition same_roots (a b : list root) : bool := forallb (fun r => mem_root r b) a && forallb (fun r => mem_root r a) b.
Definition is_fixpoint : bool :=
  let s' := step_all summaries in
  forallb (fun f => same_roots (lookup summaries f) (lookup s' f)) (seq 0 nfun).

(* functions by name *)
Fixpoint index_of (f : string) (l : list efunc) (i : nat) : option nat :=
  match l with [] => None | fd :: l' => if String.eqb (f_name fd) f then Some i else index_of f l' (S i) end.
Definition known (f : string) : bool := match index_of f functions 0 with Some _ => true | None => false end.
Definition roots_of (f : string) : list root := match index_of f functions 0 with Some i => lookup summaries i | None => [] end.
Definition writes_through (f : string) (r : root) : bool := mem_root r (roots_of f).

(* ---------- obligations ---------- *)
(* read-only accessors of a URL value, and resolution against it *)
Definition url_readers : list string :=
  map (fun m => "url.(*Url)." ++ m)
    ["Href"; "String"; "Protocol"; "Username"; "Password"; "Host"; "Hostname"; "Port"; "Pathname"; "Search"; "Hash";
     "Scheme"; "Query"; "Fragment"; "DecodedPort"; "IsIPv4"; "IsIPv6"; "OpaquePath"; "IsSpecialScheme"; "ValidationErrors";
     "Clone"; "Parse"].

Definition missing_readers : list string := filter (fun f => negb (known f)) url_readers.
Definition readers_writing_receiver : list string := filter (fun f => writes_through f RRecv) url_readers.

(* every method of a parser or of a profile: the parser/profile is never written *)
Definition has_prefix (p s : string) : bool := String.eqb p (substring 0 (String.length p) s).
Definition parser_methods : list string :=
  filter (fun f => has_prefix "url.(*parser)." f || has_prefix "canonicalizer.(*profile)." f) (map f_name functions).
Definition parser_methods_writing_receiver : list string := filter (fun f => writes_through f RRecv) parser_methods.

(* BasicParser never writes through its base argument (parameter 1) *)
Definition basic_parser_writes_base : bool := writes_through "url.(*parser).BasicParser" (RParam 1).

(* package-level variables are written only by the initialisers *)
Definition is_global (r : root) : bool := match r with RGlobal _ => true | _ => false end.
Definition functions_writing_globals : list string :=
  filter (fun f => negb (String.eqb f "url.init") && negb (String.eqb f "canonicalizer.init") && negb (String.eqb f "errors.init")
                   && existsb is_global (roots_of f)) (map f_name functions).

(* nothing of unknown provenance is written *)
Definition functions_writing_unknown : list string :=
  filter (fun f => mem_root RUnknown (roots_of f)) (map f_name functions).

Lemma effects_fixpoint : is_fixpoint = true.
Proof. vm_compute. reflexivity. Qed.

Lemma effects_entry_points_present : missing_readers = [] /\ known "url.(*parser).BasicParser" = true /\ parser_methods <> [].
Proof. vm_compute. repeat split. discriminate. Qed.

Lemma effects_readers_pure : readers_writing_receiver = [].
Proof. vm_compute. reflexivity. Qed.

Lemma effects_parsers_immutable : parser_methods_writing_receiver = [].
Proof. vm_compute. reflexivity. Qed.

Lemma effects_base_not_written : basic_parser_writes_base = false.
Proof. vm_compute. reflexivity. Qed.

Lemma effects_globals_frozen : functions_writing_globals = [].
Proof. vm_compute. reflexivity. Qed.

Lemma effects_no_unknown : functions_writing_unknown = [].
Proof. vm_compute. reflexivity. Qed.

(* non-vacuity: the analysis does see writers - the setters and the lazily creating accessor write their receiver *)
Example effects_sees_writers :
  writes_through "url.(*Url).SetHash" RRecv = true /\ writes_through "url.(*Url).SearchParams" RRecv = true /\
  writes_through "url.(*SearchParams).Append" RRecv = true /\ writes_through "url.(*parser).BasicParser" (RParam 2) = true.
Proof. vm_compute. repeat split. Qed.
