(* C16 / C17 at the level of the canonicalizer's own steps (Model/Canon.v). *)
From Verif Require Import Lib.Base Lib.Utf8 Lib.GoStr Model.Cfg Gen.Tables Gen.Options Model.Sets Model.Percent Model.Url Model.Host Model.Machine Model.Api Model.Canon.

Section CanonBasics.
  Variable idna_raw : str -> str * bool.

  Definition plain (p : profile) : Prop :=
    p_removeUserInfo p = false /\ p_removePort p = false /\ p_removeFragment p = false /\
    p_sortQuery p = NoSort /\ p_repeated p = false.

  (* with every canonicalization step off, Canonicalize is the identity ... *)
  Lemma Canonicalize_plain p u : plain p -> Canonicalize idna_raw p u = Some u.
  Proof.
    intros (H1 & H2 & H3 & H4 & H5). unfold Canonicalize. rewrite H1, H2, H3, H4, H5. reflexivity.
  Qed.

  (* ... so a profile built without options behaves exactly like its underlying parser *)
  Lemma ProfileParse_plain p x : plain p -> p_defaultScheme p = [] ->
    ProfileParse idna_raw p x =
    match Parse idna_raw (p_cfg p) x with PUrl u => CUrl u | PErr e => CErr e | _ => CPanic end.
  Proof.
    intros Hp Hd. unfold ProfileParse, parse_retry, canon_of.
    destruct (Parse idna_raw (p_cfg p) x) as [u|e| | |] eqn:E.
    - rewrite (Canonicalize_plain p u Hp). reflexivity.
    - rewrite Hd. destruct (e_type e); reflexivity.
    - reflexivity.
    - reflexivity.
    - reflexivity.
  Qed.

  Lemma ProfileParseRef_plain p b x : plain p -> p_defaultScheme p = [] ->
    ProfileParseRef idna_raw p b x =
    match Parse idna_raw (p_cfg p) b with
    | PUrl bu => match UrlParse idna_raw (p_cfg p) bu x with PUrl u => CUrl u | PErr e => CErr e | _ => CPanic end
    | PErr e => CErr e
    | _ => CPanic end.
  Proof.
    intros Hp Hd. unfold ProfileParseRef, parse_retry, canon_of.
    destruct (Parse idna_raw (p_cfg p) b) as [bu|e| | |] eqn:E.
    - destruct (UrlParse idna_raw (p_cfg p) bu x) as [u|e| | |]; try reflexivity.
      rewrite (Canonicalize_plain p u Hp). reflexivity.
    - rewrite Hd. destruct (e_type e); reflexivity.
    - reflexivity.
    - reflexivity.
    - reflexivity.
  Qed.

  Lemma prof_none_plain : plain prof_none /\ p_defaultScheme prof_none = [] /\ p_cfg prof_none = default_cfg.
  Proof. repeat split. Qed.

  (* the removal options are, by construction, the standard's setters applied to the parser's result, in a fixed order *)
  Lemma Canonicalize_removals p u : p_repeated p = false -> p_sortQuery p = NoSort ->
    Canonicalize idna_raw p u =
    bind (if p_removePort p then SetPort idna_raw (p_cfg p) u [] else Some u) (fun u =>
    bind (if p_removeUserInfo p then bind (SetUsername (p_cfg p) u []) (fun u => SetPassword (p_cfg p) u []) else Some u) (fun u =>
    if p_removeFragment p then SetHash idna_raw (p_cfg p) u [] else Some u)).
  Proof.
    intros H1 H2. unfold Canonicalize. rewrite H1, H2. cbn [bind].
    destruct (if p_removePort p then SetPort idna_raw (p_cfg p) u [] else Some u) as [u1|]; [|reflexivity]. cbn [bind].
    destruct (if p_removeUserInfo p then bind (SetUsername (p_cfg p) u1 []) (fun u0 => SetPassword (p_cfg p) u0 []) else Some u1) as [u2|]; [|reflexivity].
    cbn [bind]. destruct (if p_removeFragment p then SetHash idna_raw (p_cfg p) u2 [] else Some u2); reflexivity.
  Qed.

  (* default scheme: an input that fails only for lack of a scheme is parsed as scheme://input; other inputs are unaffected *)
  Lemma parse_retry_spec p x :
    parse_retry idna_raw p x =
    match Parse idna_raw (p_cfg p) x with
    | PErr e => match e_type e with
                | MissingSchemeNonRelativeURL =>
                    if is_nil (p_defaultScheme p) then PErr e
                    else Parse idna_raw (p_cfg p) (p_defaultScheme p ++ [58;47;47] ++ x)
                | _ => PErr e end
    | other => other end.
  Proof.
    unfold parse_retry, s_colon_slash_slash. destruct (Parse idna_raw (p_cfg p) x) as [u|e| | |]; try reflexivity.
    destruct (e_type e); try reflexivity. destruct (is_nil (p_defaultScheme p)); reflexivity.
  Qed.
End CanonBasics.
