(* Reference resolution laws of the model of Url.Parse (the method) / Parser.ParseRef (Model/Api.v, Model/Machine.v)
   with both diagnostics options off (c_report = false, c_fail = false), for every IDNA oracle.

     L0 entry_points_agree        ParseRef, Parser.ParseRef and Url.Parse (the method) run the same function
     L1 fragment_phase, L2 query_phase                        (Proofs/PhaseLemmas.v)
     L3 fragment_only_ref         "#f" changes only the fragment
     L4 empty_ref                 ""   keeps everything but the fragment; an opaque base rejects it
     L5 query_only_ref            "?q" keeps scheme, credentials, host, port, path
     L6 opaque_base_rejects_relative
     L7 relative_keeps_scheme

   "cleaned" = Cleaning.clean_sv (c_acceptInvalid c): leading/trailing C0-or-space bytes and all tab/newline
   bytes removed (after reading invalid UTF-8 as U+FFFD when something is removed and the parser does not
   accept invalid code points).  For c_acceptInvalid c = false this is Cleaning.clean. *)
From Verif Require Import Lib.Base Lib.Utf8 Lib.GoStr Model.Cfg Gen.Tables Gen.Options Model.Sets Model.Percent Model.Url Model.Host Model.Machine Model.Api.
From Verif Require Import Proofs.Utf8Proofs Proofs.RecordInv Proofs.Cleaning Proofs.PhaseLemmas Proofs.SchemeKept.
From Coq Require Import Lia ZifyBool ZifyN ZifyNat.

Local Arguments N.mul : simpl never.
Local Arguments N.add : simpl never.
Local Arguments N.sub : simpl never.
Local Arguments N.eqb : simpl never.
Local Arguments N.ltb : simpl never.
Local Arguments N.leb : simpl never.

(* ------------------------------------------------------------------------------------------ *)
(* L0: the three entry points                                                                   *)
(* ------------------------------------------------------------------------------------------ *)

Theorem entry_points_agree idna_raw c (rawUrl ref : str) (b : url) :
  rawUrl <> [] -> Parse idna_raw c rawUrl = PUrl b ->
  ParseRef idna_raw c rawUrl ref = UrlParse idna_raw c b ref.
Proof.
  intros Hne H. destruct rawUrl as [|x r]; [congruence|]. unfold ParseRef. rewrite H. reflexivity.
Qed.
Print Assumptions entry_points_agree.

Theorem ParseRef_empty_base idna_raw c (ref : str) : ParseRef idna_raw c [] ref = Parse idna_raw c ref.
Proof. reflexivity. Qed.
Print Assumptions ParseRef_empty_base.

(* a base that does not parse: its outcome is what ParseRef returns *)
Theorem ParseRef_base_fails idna_raw c (rawUrl ref : str) :
  rawUrl <> [] -> (forall b, Parse idna_raw c rawUrl <> PUrl b) ->
  ParseRef idna_raw c rawUrl ref = Parse idna_raw c rawUrl.
Proof.
  intros Hne H. destruct rawUrl as [|x r]; [congruence|]. unfold ParseRef.
  destruct (Parse idna_raw c (x :: r)) as [b| | | |] eqn:E; try reflexivity. exfalso. exact (H b eq_refl).
Qed.
Print Assumptions ParseRef_base_fails.

(* ------------------------------------------------------------------------------------------ *)
(* the base record                                                                              *)
(* ------------------------------------------------------------------------------------------ *)

(* What the proofs need of the base record: an opaque-path URL has no host; an opaque-path URL and a
   file URL have neither credentials nor a port.  (The states NoScheme and File do not copy these
   components from the base, the state Relative does.)  Every record satisfying RecordInv.Inv
   satisfies this (clauses I_opaque and I_nocred). *)
Definition wfb (b : url) : Prop :=
  (u_opaque b = true -> u_host b = None) /\
  (u_opaque b = true \/ u_scheme b = s_file -> u_username b = [] /\ u_password b = [] /\ u_port b = None).

(* u' has the base's scheme, credentials, host, port and path *)
Definition keeps_base (u' b : url) : Prop :=
  u_scheme u' = u_scheme b /\ u_username u' = u_username b /\ u_password u' = u_password b /\
  u_host u' = u_host b /\ u_port u' = u_port b /\ u_path u' = u_path b /\ u_opaque u' = u_opaque b.

(* first code point '#' *)
Definition starts_with_hash (l : list N) : bool := match l with r :: _ => r =? 35 | [] => false end.

Definition missing_scheme (i : str) : verr :=
  {| e_type := MissingSchemeNonRelativeURL; e_failure := true; e_url := i |}.

Section Resolve.
  Variable idna_raw : str -> str * bool.
  Variable c : cfg.
  Hypothesis Hrep : c_report c = false.
  Hypothesis Hfail : c_fail c = false.

  Notation UP := (UrlParse idna_raw c).
  (* the cleaned reference as this parser sees it: Cleaning.clean_sv with the parser's acceptInvalidCodepoints
     flag; for c_acceptInvalid c = false this is Cleaning.clean, and the two agree on valid UTF-8 *)
  Notation cl := (clean_sv (c_acceptInvalid c)).

  (* the record with which the parser starts on the cleaned input i *)
  Definition m0 (i : str) : mstate := mk SchemeStart (-1) false [] false false false (empty_url i).

  Lemma UrlParse_run b ref :
    UP b ref = to_pres (run idna_raw c (decode (cl ref)) (Some (clone b)) None
                            (fuel_of (length (decode (cl ref)))) (m0 (cl ref))).
  Proof. unfold UrlParse. rewrite (BasicParser_factors idna_raw c Hrep Hfail). reflexivity. Qed.

  (* the record after the base's components were copied (states NoScheme / Relative / File),
     for the cleaned input i: the query is the base's, the fragment is absent *)
  Definition resolved_copy (i : str) (b : url) : url :=
    if u_opaque b then set_query (set_path (set_scheme (empty_url i) (u_scheme b)) (u_path b) true) (u_query b)
    else if str_eqb (u_scheme b) s_file then file_copy (empty_url i) b
    else rel_copy (empty_url i) b.

  Lemma resolved_copy_scheme i b : u_scheme (resolved_copy i b) = u_scheme b.
  Proof.
    unfold resolved_copy, file_copy, rel_copy, copy_base_auth.
    destruct (u_opaque b); [reflexivity|].
    destruct (str_eqb (u_scheme b) s_file) eqn:E; fields; [|reflexivity].
    symmetry. apply str_eqb_true_eq, E.
  Qed.

  Lemma resolved_copy_fields i b :
    wfb b ->
    keeps_base (resolved_copy i b) b /\ u_query (resolved_copy i b) = u_query b /\
    u_fragment (resolved_copy i b) = None.
  Proof.
    intros [Hw1 Hw2]. unfold keeps_base. rewrite resolved_copy_scheme.
    unfold resolved_copy, file_copy, rel_copy, copy_base_auth.
    destruct (u_opaque b) eqn:Eo.
    - destruct (Hw2 (or_introl eq_refl)) as [H1 [H2 H3]]. rewrite (Hw1 eq_refl), H1, H2, H3.
      fields. repeat split; reflexivity.
    - destruct (str_eqb (u_scheme b) s_file) eqn:E; fields.
      + destruct (Hw2 (or_intror (str_eqb_true_eq _ _ E))) as [H1 [H2 H3]]. rewrite H1, H2, H3.
        repeat split; reflexivity.
      + repeat split; reflexivity.
  Qed.

  Lemma fragset_copy i b : fragset c (resolved_copy i b) = fragset c b.
  Proof. unfold fragset. rewrite resolved_copy_scheme. reflexivity. Qed.
  Lemma queryset_copy i b : queryset c (resolved_copy i b) = queryset c b.
  Proof. unfold queryset. rewrite resolved_copy_scheme. reflexivity. Qed.

  Lemma fuel_3 n : fuel_of n = (3 + (fuel_of n - 3))%nat.
  Proof. unfold fuel_of. lia. Qed.

  Ltac side := first [exact Hrep | exact Hfail | reflexivity | assumption].
  Ltac step_with L := erewrite run_cont; [ | eapply L; side | reflexivity ].
  Ltac last_with L := erewrite run_last; [ | eapply L; side | reflexivity ].

  (* the first two or three iterations on an input that starts with a code point r0 that is not a letter:
     SchemeStart rewinds, NoScheme dispatches on the base *)
  Section Head.
    Variable b : url.
    Variable inp : list rune.
    Notation runf := (run idna_raw c inp (Some (clone b)) None).

    Lemma head_nonalpha f u :
      isAlpha (cp_at inp 0) = false ->
      runf (Datatypes.S f) (mk SchemeStart (-1) false [] false false false u) =
      runf f (mk NoScheme (-1) false [] false false false u).
    Proof.
      intros Ha. apply run_cont; [|reflexivity]. eapply step_schemestart_nonalpha; side.
    Qed.
  End Head.

  (* ---------------------------------------------------------------------------------------- *)
  (* L3                                                                                         *)
  (* ---------------------------------------------------------------------------------------- *)
  Theorem fragment_only_ref_exact b ref f :
    cl ref = 35 :: f ->
    UP b ref = PUrl (set_fragment (resolved_copy (35 :: f) b) (Some (enc_with c (fragset c b) (runes f)))).
  Proof.
    intros Hc. rewrite UrlParse_run, Hc.
    rewrite (decode_low_cons 35 f eq_refl).
    set (inp := Good 35 :: decode f). set (i := 35 :: f).
    assert (H35 : cp_at inp 0 = 35) by reflexivity.
    assert (Hrest : rest_from inp (0 + 1) = runes f) by reflexivity.
    assert (Hlen : (length (rest_from inp (0 + 1)) + 1 <= fuel_of (length inp) - 3)%nat).
    { rewrite Hrest. unfold runes, inp, fuel_of. rewrite map_length. cbn [length]. lia. }
    rewrite fuel_3. cbn [Nat.add]. unfold m0.
    rewrite head_nonalpha by (rewrite H35; reflexivity).
    rewrite <- (fragset_copy i b).
    unfold resolved_copy.
    destruct (u_opaque b) eqn:Eo.
    - step_with step_noscheme_opaque_hash.
      assert (Hg : (length (rest_from inp (0 + 1)) + 1 <= Datatypes.S (fuel_of (length inp) - 3))%nat) by lia.
      rewrite (fragment_phase idna_raw c Hrep Hfail inp _ _ _ 0%Z) by (try lia; exact Hg).
      rewrite Hrest. cbn [app]. reflexivity.
    - destruct (str_eqb (u_scheme b) s_file) eqn:Ef.
      + step_with step_noscheme_file.
        step_with step_file_hash.
        rewrite (fragment_phase idna_raw c Hrep Hfail inp _ _ _ 0%Z) by (try lia; exact Hlen).
        rewrite Hrest. cbn [app]. reflexivity.
      + step_with step_noscheme_relative.
        step_with step_relative_hash.
        rewrite (fragment_phase idna_raw c Hrep Hfail inp _ _ _ 0%Z) by (try lia; exact Hlen).
        rewrite Hrest. cbn [app]. reflexivity.
  Qed.

  (* a "#f" reference changes only the fragment (opaque and non-opaque bases) *)
  Theorem fragment_only_ref b ref f :
    wfb b -> cl ref = 35 :: f ->
    exists u', UP b ref = PUrl u' /\ keeps_base u' b /\ u_query u' = u_query b /\
               u_fragment u' = Some (enc_with c (fragset c b) (runes f)).
  Proof.
    intros Hw Hc. eexists. split; [apply (fragment_only_ref_exact b ref f Hc)|].
    destruct (resolved_copy_fields (35 :: f) b Hw) as [Hk [Hq _]].
    split; [exact Hk|]. split; [exact Hq|reflexivity].
  Qed.

  (* ---------------------------------------------------------------------------------------- *)
  (* L6 / L7: references without a "scheme:" prefix                                             *)
  (* ---------------------------------------------------------------------------------------- *)
  Lemma fuel_split n k : (k <= n + 1)%nat -> fuel_of n = (k + (2 + (fuel_of n - k - 2)))%nat.
  Proof. unfold fuel_of. lia. Qed.

  Lemma cp0_hash inp : (cp_at inp 0 =? 35) = starts_with_hash (map rv inp).
  Proof. destruct inp; reflexivity. Qed.

  (* the run of a reference without scheme prefix, from the state NoScheme on, with fuel to spare *)
  Lemma no_prefix_run b ref :
    has_scheme_prefix (runes (cl ref)) = false ->
    exists g, (length (decode (cl ref)) + 2 <= g)%nat /\
      UP b ref = to_pres (run idna_raw c (decode (cl ref)) (Some (clone b)) None (Datatypes.S g)
                            (mk NoScheme (-1) false [] false false false (empty_url (cl ref)))).
  Proof.
    intros Hp. rewrite UrlParse_run. unfold m0.
    destruct (no_scheme_phase idna_raw c Hrep Hfail (decode (cl ref)) (Some (clone b)) None false false false
                (empty_url (cl ref)) eq_refl Hp) as [k [Hk Hr]].
    rewrite (fuel_split _ k) by lia. rewrite Hr.
    exists (Datatypes.S (fuel_of (length (decode (cl ref))) - k - 2)). split; [unfold fuel_of; lia|].
    reflexivity.
  Qed.

  (* L6: an opaque base accepts only fragment references *)
  Theorem opaque_base_rejects_relative b ref :
    u_opaque b = true ->
    has_scheme_prefix (runes (cl ref)) = false -> starts_with_hash (runes (cl ref)) = false ->
    UP b ref = PErr (missing_scheme (cl ref)).
  Proof.
    intros Ho Hp Hh. destruct (no_prefix_run b ref Hp) as [g [_ ->]].
    assert (H35 : (cp_at (decode (cl ref)) 0 =? 35) = false) by (rewrite cp0_hash; exact Hh).
    erewrite run_err; [ | eapply step_noscheme_opaque_err; side ]. reflexivity.
  Qed.

  (* L7: a reference without a scheme of its own resolves to a URL with the base's scheme *)
  Theorem relative_keeps_scheme b ref u' :
    has_scheme_prefix (runes (cl ref)) = false -> UP b ref = PUrl u' -> u_scheme u' = u_scheme b.
  Proof.
    intros Hp H. destruct (no_prefix_run b ref Hp) as [g [Hg E]]. rewrite E in H. clear E.
    set (inp := decode (cl ref)) in *. set (u0 := empty_url (cl ref)) in *.
    match type of H with to_pres ?r = _ => destruct r as [u1|u1 e1|u1| |] eqn:Er; try discriminate H end.
    cbn [to_pres] in H. injection H as ->.
    destruct (u_opaque b) eqn:Eo.
    - destruct (cp_at inp 0 =? 35) eqn:E35.
      + assert (H35 : cp_at inp 0 = 35) by lia.
        erewrite run_cont in Er;
          [ | eapply step_noscheme_opaque_hash; side | reflexivity ].
        apply (late_run idna_raw c Hrep Hfail) in Er; [exact Er|reflexivity|reflexivity].
      + erewrite run_err in Er;
          [discriminate Er
          | eapply step_noscheme_opaque_err; side ].
    - destruct (str_eqb (u_scheme b) s_file) eqn:Ef.
      + erewrite run_cont in Er;
          [ | eapply step_noscheme_file; side | reflexivity ].
        rewrite (after_assign idna_raw c Hrep Hfail inp _ _ _ _ s_file (file_step idna_raw c Hrep Hfail inp _ _ _ _ _ _ _) Er).
        symmetry. apply str_eqb_true_eq, Ef.
      + erewrite run_cont in Er;
          [ | eapply step_noscheme_relative; side | reflexivity ].
        apply (after_assign idna_raw c Hrep Hfail inp _ _ _ _ (u_scheme (clone b))
                 (relative_step idna_raw c Hrep Hfail inp _ (clone b) _ _ _ _ _ _ eq_refl) Er).
  Qed.

  (* ---------------------------------------------------------------------------------------- *)
  (* L4                                                                                         *)
  (* ---------------------------------------------------------------------------------------- *)
  Theorem empty_ref_exact b ref :
    cl ref = [] -> u_opaque b = false -> UP b ref = PUrl (resolved_copy [] b).
  Proof.
    intros Hc Eo. rewrite UrlParse_run, Hc. change (decode []) with (@nil rune).
    rewrite fuel_3. cbn [Nat.add]. unfold m0.
    rewrite head_nonalpha by reflexivity.
    unfold resolved_copy. rewrite Eo.
    destruct (str_eqb (u_scheme b) s_file) eqn:Ef.
    - step_with step_noscheme_file.
      last_with step_file_eof.
      reflexivity.
    - step_with step_noscheme_relative.
      last_with step_relative_eof.
      reflexivity.
  Qed.

  (* the empty reference: the base without its fragment; an opaque base rejects it *)
  Theorem empty_ref b ref :
    wfb b -> cl ref = [] ->
    (u_opaque b = false ->
       exists u', UP b ref = PUrl u' /\ keeps_base u' b /\ u_query u' = u_query b /\ u_fragment u' = None) /\
    (u_opaque b = true -> UP b ref = PErr (missing_scheme [])).
  Proof.
    intros Hw Hc. split; intros Eo.
    - eexists. split; [apply (empty_ref_exact b ref Hc Eo)|]. apply resolved_copy_fields, Hw.
    - rewrite <- Hc. apply opaque_base_rejects_relative; [exact Eo| |]; rewrite Hc; reflexivity.
  Qed.

  (* ---------------------------------------------------------------------------------------- *)
  (* L5                                                                                         *)
  (* ---------------------------------------------------------------------------------------- *)
  Theorem query_ref_exact b ref q :
    cl ref = 63 :: q -> u_opaque b = false ->
    UP b ref = PUrl (query_result c (set_query (resolved_copy (63 :: q) b) (Some [])) [] (runes q)).
  Proof.
    intros Hc Eo. rewrite UrlParse_run, Hc.
    rewrite (decode_low_cons 63 q eq_refl).
    set (inp := Good 63 :: decode q). set (i := 63 :: q).
    assert (H63 : cp_at inp 0 = 63) by reflexivity.
    assert (Hrest : rest_from inp (0 + 1) = runes q) by reflexivity.
    assert (Hlen : (length (rest_from inp (0 + 1)) + 1 <= fuel_of (length inp) - 3)%nat).
    { rewrite Hrest. unfold runes, inp, fuel_of. rewrite map_length. cbn [length]. lia. }
    rewrite fuel_3. cbn [Nat.add]. unfold m0.
    rewrite head_nonalpha by (rewrite H63; reflexivity).
    unfold resolved_copy. rewrite Eo.
    destruct (str_eqb (u_scheme b) s_file) eqn:Ef.
    - step_with step_noscheme_file.
      step_with step_file_question.
      erewrite query_phase; [ | first [exact Hrep | exact Hfail | reflexivity | exact Hlen | lia] .. ].
      rewrite Hrest. reflexivity.
    - step_with step_noscheme_relative.
      step_with step_relative_question.
      erewrite query_phase; [ | first [exact Hrep | exact Hfail | reflexivity | exact Hlen | lia] .. ].
      rewrite Hrest. reflexivity.
  Qed.

  (* a "?q" reference (no '#' among the code points of q) against a non-opaque base, file or not *)
  Theorem query_only_ref b ref q :
    wfb b -> cl ref = 63 :: q -> ~ In 35 (runes q) -> u_opaque b = false ->
    exists u', UP b ref = PUrl u' /\ keeps_base u' b /\
               u_query u' = Some (enc_with c (queryset c b) (runes q)) /\ u_fragment u' = None.
  Proof.
    intros Hw Hc Hno Eo. eexists. split; [apply (query_ref_exact b ref q Hc Eo)|].
    destruct (resolved_copy_fields (63 :: q) b Hw) as [Hk [_ Hf]].
    assert (Hqs : queryset c (set_query (resolved_copy (63 :: q) b) (Some [])) = queryset c b)
      by (rewrite <- (queryset_copy (63 :: q) b); reflexivity).
    unfold query_result. rewrite (query_split_nohash _ Hno), Hqs. cbn [app].
    split; [exact Hk|]. split; [reflexivity|exact Hf].
  Qed.

  (* "?q#f" *)
  Theorem query_fragment_ref b ref q q1 f :
    wfb b -> cl ref = 63 :: q -> runes q = q1 ++ 35 :: f -> ~ In 35 q1 -> u_opaque b = false ->
    exists u', UP b ref = PUrl u' /\ keeps_base u' b /\
               u_query u' = Some (enc_with c (queryset c b) q1) /\
               u_fragment u' = Some (enc_with c (fragset c b) f).
  Proof.
    intros Hw Hc Hq Hno Eo. eexists. split; [apply (query_ref_exact b ref q Hc Eo)|].
    destruct (resolved_copy_fields (63 :: q) b Hw) as [Hk [_ Hf]].
    assert (Hqs : queryset c (set_query (resolved_copy (63 :: q) b) (Some [])) = queryset c b)
      by (rewrite <- (queryset_copy (63 :: q) b); reflexivity).
    assert (Hfs : fragset c (set_query (resolved_copy (63 :: q) b) (Some [])) = fragset c b)
      by (rewrite <- (fragset_copy (63 :: q) b); reflexivity).
    unfold query_result. rewrite Hq, (query_split_hash q1 f Hno), Hqs, Hfs. cbn [app].
    split; [exact Hk|]. split; reflexivity.
  Qed.
End Resolve.

Print Assumptions fragment_phase.
Print Assumptions query_phase.
Print Assumptions fragment_only_ref_exact.
Print Assumptions fragment_only_ref.
Print Assumptions empty_ref_exact.
Print Assumptions empty_ref.
Print Assumptions query_ref_exact.
Print Assumptions query_only_ref.
Print Assumptions query_fragment_ref.
Print Assumptions opaque_base_rejects_relative.
Print Assumptions relative_keeps_scheme.

(* the cleaning does not depend on the acceptInvalidCodepoints flag when the trimmed reference is valid UTF-8
   (and not at all when the flag is off: clean_sv false = clean by definition) *)
Lemma clean_sv_valid a s : valid_utf8 (fst (trim_c0space s)) = true -> clean_sv a s = clean s.
Proof. intros H. unfold clean, clean_sv. rewrite !(remove_tabnl_sv_valid _ _ H). reflexivity. Qed.
Print Assumptions clean_sv_valid.

(* ------------------------------------------------------------------------------------------ *)
(* the hypotheses at byte level                                                                 *)
(* ------------------------------------------------------------------------------------------ *)

(* a '#' among the code points of s is a '#' byte of s *)
Lemma dec1_hash b0 rest r rest' : dec1 b0 rest = (r, rest') -> rv r = 35 -> b0 = 35.
Proof.
  intros H Hr. unfold dec1 in H. cbv zeta in H.
  dec1_split H; inversion H; subst; cbn [rv] in Hr; unfold in_rng, is_cont, rune_error in *; lia.
Qed.

Lemma dec1_suffix b0 rest r rest' x : dec1 b0 rest = (r, rest') -> In x rest' -> In x rest.
Proof.
  intros H Hx. unfold dec1 in H. cbv zeta in H.
  dec1_split H; inversion H; subst; cbn [In]; auto.
Qed.

Theorem runes_no_hash s : ~ In 35 s -> ~ In 35 (runes s).
Proof.
  intros Hs Hr. apply Hs. revert Hr. unfold runes.
  apply (decode_ind (fun s l => In 35 (map rv l) -> In 35 s)); [intros []|].
  intros b0 rest r rest' E IH Hin. cbn [map In] in Hin. destruct Hin as [Hin|Hin].
  - left. apply (dec1_hash _ _ _ _ E Hin).
  - right. apply (dec1_suffix _ _ _ _ _ E). apply IH, Hin.
Qed.
Print Assumptions runes_no_hash.

(* L5 with the hypothesis on the bytes of the reference *)
Corollary query_only_ref_bytes idna_raw c b ref q :
  c_report c = false -> c_fail c = false ->
  wfb b -> clean_sv (c_acceptInvalid c) ref = 63 :: q -> ~ In 35 q -> u_opaque b = false ->
  exists u', UrlParse idna_raw c b ref = PUrl u' /\ keeps_base u' b /\
             u_query u' = Some (enc_with c (queryset c b) (runes q)) /\ u_fragment u' = None.
Proof.
  intros Hrep Hfail Hw Hc Hno Eo.
  apply (query_only_ref idna_raw c Hrep Hfail b ref q Hw Hc (runes_no_hash q Hno) Eo).
Qed.
Print Assumptions query_only_ref_bytes.

(* every record satisfying the record invariant of RecordInv.v is a well-formed base *)
Theorem Inv_wfb c b : Inv c b -> wfb b.
Proof.
  intros H. split.
  - intros Ho. destruct (I_opaque c b H Ho) as [Hh _]. exact Hh.
  - intros [Ho|Hs]; apply (I_nocred c b H).
    + left. destruct (I_opaque c b H Ho) as [Hh _]. exact Hh.
    + right. right. rewrite Hs. reflexivity.
Qed.
Print Assumptions Inv_wfb.

(* ------------------------------------------------------------------------------------------ *)
(* concrete instances: the premises are satisfiable; wfb cannot be dropped                       *)
(* ------------------------------------------------------------------------------------------ *)
From Coq Require Import String.
Local Open Scope string_scope.

Definition ex_idna (s : str) : str * bool := (s, false).
Definition ex_base (s : string) : url :=
  match Parse ex_idna default_cfg (bs s) with PUrl u => u | _ => empty_url [] end.
Definition ex_http : url := ex_base "http://u:p@h:81/a/b?q#f".
Definition ex_opaque : url := ex_base "sc:opaque?q#f".
Definition ex_file : url := ex_base "file:///C:/x?y".
(* " #a<TAB><LF> b " *)
Definition ex_ref_frag : str := ([32] ++ bs "#a" ++ [9; 10] ++ bs " b" ++ [32])%list.
Definition ex_ref_query : str := ([32] ++ bs "?x" ++ [9] ++ bs " y" ++ [10])%list.

Ltac wfb_ex :=
  unfold wfb; vm_compute;
  split; [intros H; first [discriminate H | reflexivity]
         | intros [H|H]; first [discriminate H | repeat split; reflexivity]].

Example ex_cfg_quiet : c_report default_cfg = false /\ c_fail default_cfg = false.
Proof. split; reflexivity. Qed.
(* for the default parser the cleaning of the theorems is Cleaning.clean (used in the instances below) *)
Example ex_cfg_clean s : clean_sv (c_acceptInvalid default_cfg) s = clean s.
Proof. reflexivity. Qed.
Example ex_http_wfb : wfb ex_http.   Proof. wfb_ex. Qed.
Example ex_opaque_wfb : wfb ex_opaque. Proof. wfb_ex. Qed.
Example ex_file_wfb : wfb ex_file.   Proof. wfb_ex. Qed.

Definition href_of (r : pres) : option str := match r with PUrl u => Href u false | _ => None end.

(* L0 *)
Example entry_points_agree_ex :
  bs "http://u:p@h:81/a/b?q#f" <> [] /\ Parse ex_idna default_cfg (bs "http://u:p@h:81/a/b?q#f") = PUrl ex_http /\
  href_of (ParseRef ex_idna default_cfg (bs "http://u:p@h:81/a/b?q#f") (bs "../x")) = Some (bs "http://u:p@h:81/x").
Proof. split; [discriminate|]. split; vm_compute; reflexivity. Qed.

(* L3: premises and what the theorem then says, for the three kinds of base *)
Example fragment_only_ref_ex :
  clean ex_ref_frag = 35 :: bs "a b" /\
  href_of (UrlParse ex_idna default_cfg ex_http ex_ref_frag) = Some (bs "http://u:p@h:81/a/b?q#a%20b") /\
  href_of (UrlParse ex_idna default_cfg ex_opaque ex_ref_frag) = Some (bs "sc:opaque?q#a%20b") /\
  href_of (UrlParse ex_idna default_cfg ex_file ex_ref_frag) = Some (bs "file:///C:/x?y#a%20b").
Proof. repeat split; vm_compute; reflexivity. Qed.

(* L4 *)
Example empty_ref_ex :
  clean (bs "  ") = [] /\ u_opaque ex_http = false /\ u_opaque ex_opaque = true /\
  href_of (UrlParse ex_idna default_cfg ex_http (bs "  ")) = Some (bs "http://u:p@h:81/a/b?q") /\
  UrlParse ex_idna default_cfg ex_opaque (bs "  ") = PErr (missing_scheme []).
Proof. repeat split; vm_compute; reflexivity. Qed.

(* L5 *)
Example query_only_ref_ex :
  clean ex_ref_query = 63 :: bs "x y" /\ ~ In 35 (bs "x y") /\ u_opaque ex_file = false /\
  href_of (UrlParse ex_idna default_cfg ex_http ex_ref_query) = Some (bs "http://u:p@h:81/a/b?x%20y") /\
  href_of (UrlParse ex_idna default_cfg ex_file ex_ref_query) = Some (bs "file:///C:/x?x%20y").
Proof.
  split; [vm_compute; reflexivity|]. split; [vm_compute; intros [H|[H|[H|[]]]]; discriminate H|].
  repeat split; vm_compute; reflexivity.
Qed.

(* L6: "1:x" and "a b:c" have no scheme prefix, "ab+c.d-e:x" has one *)
Example opaque_base_rejects_relative_ex :
  u_opaque ex_opaque = true /\
  has_scheme_prefix (runes (clean (bs "1:x"))) = false /\ starts_with_hash (runes (clean (bs "1:x"))) = false /\
  has_scheme_prefix (runes (clean (bs "a b:c"))) = false /\
  has_scheme_prefix (runes (clean (bs "ab+c.d-e:x"))) = true /\
  UrlParse ex_idna default_cfg ex_opaque (bs "1:x") = PErr (missing_scheme (bs "1:x")).
Proof. repeat split; vm_compute; reflexivity. Qed.

(* L7 *)
Example relative_keeps_scheme_ex :
  has_scheme_prefix (runes (clean (bs "../a b:c?d#e"))) = false /\
  href_of (UrlParse ex_idna default_cfg ex_http (bs "../a b:c?d#e")) = Some (bs "http://u:p@h:81/a%20b:c?d#e").
Proof. split; vm_compute; reflexivity. Qed.

(* wfb is needed in L3 - L5: on a record that violates it the base's components are not all kept.
   An opaque-path record with a username (the state NoScheme copies scheme, path and query only), and
   a file record with a port (the state File copies host, path and query only). *)
Definition bad_opaque : url := set_username ex_opaque [117].
Definition bad_file : url := set_port ex_file (Some [56]) 8.

Definition fragment_only_ref_unconditional : Prop :=
  forall idna_raw c b ref f, c_report c = false -> c_fail c = false -> clean_sv (c_acceptInvalid c) ref = 35 :: f ->
  exists u', UrlParse idna_raw c b ref = PUrl u' /\ keeps_base u' b.

Theorem fragment_only_ref_unconditional_refuted : ~ fragment_only_ref_unconditional.
Proof.
  intros H. destruct (H ex_idna default_cfg bad_opaque (bs "#x") (bs "x") eq_refl eq_refl eq_refl) as [u' [E K]].
  destruct K as [_ [K _]]. vm_compute in E. injection E as <-. vm_compute in K. discriminate K.
Qed.
Print Assumptions fragment_only_ref_unconditional_refuted.

Example wfb_needed_file :
  ~ wfb bad_file /\ clean (bs "#x") = 35 :: bs "x" /\
  exists u', UrlParse ex_idna default_cfg bad_file (bs "#x") = PUrl u' /\ u_port u' <> u_port bad_file.
Proof.
  split.
  - intros [_ W]. destruct (W (or_intror eq_refl)) as [_ [_ P]]. vm_compute in P. discriminate P.
  - split; [vm_compute; reflexivity|]. eexists. split; [vm_compute; reflexivity|]. vm_compute. discriminate.
Qed.
