(* C16, the five percent-encode-set options: a replaced set governs exactly the component and scheme class it
   names.  Lock-step statements about BasicParser (any base URL, any state override, any URL record passed in -
   so Parse, UrlParse and every setter are covered) and about Parse; no side condition on fail-on-validation-error,
   report-validation-errors or on the sets was needed.
   Findings (with witnesses) about what a replaced PATH set does beyond spelling are at the end:
   it is applied BEFORE dot-segment and drive-letter recognition. *)
From Verif Require Import Lib.Base Lib.Utf8 Lib.GoStr Model.Cfg Gen.Tables Gen.Options Model.Sets Model.Percent Model.Url Model.Host
  Model.Machine Model.Api.
From Verif Require Import Proofs.Cleaning Proofs.OptionTable Proofs.OptionNeutralBase Proofs.PhaseLemmas Proofs.OptionSetsBase.
From Coq Require Import Lia ZifyBool ZifyN ZifyNat.

Local Arguments N.mul : simpl never.
Local Arguments N.add : simpl never.
Local Arguments N.sub : simpl never.
Local Arguments N.div : simpl never.
Local Arguments N.modulo : simpl never.
Local Arguments N.eqb : simpl never.
Local Arguments N.ltb : simpl never.
Local Arguments N.leb : simpl never.

(* ---------------------------------------------------------------------------------- *)
(* agreement of two URL records except for one component                               *)
(* ---------------------------------------------------------------------------------- *)
(* the path component of the Go record is the pair (segments, opaque flag) *)
Definition agree_except_path (u1 u2 : url) : Prop :=
  u_input u1 = u_input u2 /\ u_scheme u1 = u_scheme u2 /\ u_username u1 = u_username u2 /\
  u_password u1 = u_password u2 /\ u_host u1 = u_host u2 /\ u_port u1 = u_port u2 /\
  u_decodedPort u1 = u_decodedPort u2 /\ u_query u1 = u_query u2 /\ u_fragment u1 = u_fragment u2 /\
  u_verrs u1 = u_verrs u2 /\ u_sp u1 = u_sp u2.

Definition agree_except_query (u1 u2 : url) : Prop :=
  u_input u1 = u_input u2 /\ u_scheme u1 = u_scheme u2 /\ u_username u1 = u_username u2 /\
  u_password u1 = u_password u2 /\ u_host u1 = u_host u2 /\ u_port u1 = u_port u2 /\
  u_decodedPort u1 = u_decodedPort u2 /\ u_path u1 = u_path u2 /\ u_opaque u1 = u_opaque u2 /\
  u_fragment u1 = u_fragment u2 /\ u_verrs u1 = u_verrs u2 /\ u_sp u1 = u_sp u2.

Definition agree_except_fragment (u1 u2 : url) : Prop :=
  u_input u1 = u_input u2 /\ u_scheme u1 = u_scheme u2 /\ u_username u1 = u_username u2 /\
  u_password u1 = u_password u2 /\ u_host u1 = u_host u2 /\ u_port u1 = u_port u2 /\
  u_decodedPort u1 = u_decodedPort u2 /\ u_path u1 = u_path u2 /\ u_opaque u1 = u_opaque u2 /\
  u_query u1 = u_query u2 /\ u_verrs u1 = u_verrs u2 /\ u_sp u1 = u_sp u2.

Lemma url_ext (u1 u2 : url) :
  u_input u1 = u_input u2 -> u_scheme u1 = u_scheme u2 -> u_username u1 = u_username u2 ->
  u_password u1 = u_password u2 -> u_host u1 = u_host u2 -> u_port u1 = u_port u2 ->
  u_decodedPort u1 = u_decodedPort u2 -> u_path u1 = u_path u2 -> u_opaque u1 = u_opaque u2 ->
  u_query u1 = u_query u2 -> u_fragment u1 = u_fragment u2 -> u_verrs u1 = u_verrs u2 -> u_sp u1 = u_sp u2 ->
  u1 = u2.
Proof. destruct u1, u2. cbn. intros. subst. reflexivity. Qed.

(* results of BasicParser / of the public calls, related component-wise *)
Definition res_rel (P : url -> url -> Prop) (r1 r2 : result) : Prop :=
  match r1, r2 with
  | RUrl u1, RUrl u2 => P u1 u2
  | RErr u1 e1, RErr u2 e2 => P u1 u2 /\ e1 = e2
  | RNilNil u1, RNilNil u2 => P u1 u2
  | RPanic, RPanic => True
  | ROutOfFuel, ROutOfFuel => True
  | _, _ => False
  end.

Definition pres_rel (P : url -> url -> Prop) (r1 r2 : pres) : Prop :=
  match r1, r2 with
  | PUrl u1, PUrl u2 => P u1 u2
  | PErr e1, PErr e2 => e1 = e2
  | PNilNil, PNilNil => True
  | PPanic, PPanic => True
  | PFuel, PFuel => True
  | _, _ => False
  end.

Definition ores_rel (P : url -> url -> Prop) (r1 r2 : option url) : Prop :=
  match r1, r2 with
  | Some u1, Some u2 => P u1 u2
  | None, None => True
  | _, _ => False
  end.

Lemma res_rel_mono (P Q : url -> url -> Prop) r1 r2 : (forall u1 u2, P u1 u2 -> Q u1 u2) -> res_rel P r1 r2 -> res_rel Q r1 r2.
Proof. intros H. destruct r1, r2; cbn [res_rel]; try contradiction; auto. intros (A & B); split; auto. Qed.

Lemma res_pres (P : url -> url -> Prop) r1 r2 : res_rel P r1 r2 -> pres_rel P (to_pres r1) (to_pres r2).
Proof. destruct r1, r2; cbn [res_rel to_pres pres_rel]; try contradiction; auto. intros (_ & E); exact E. Qed.

Lemma res_after (P : url -> url -> Prop) r1 r2 : res_rel P r1 r2 -> ores_rel P (after r1) (after r2).
Proof. destruct r1, r2; cbn [res_rel after ores_rel]; try contradiction; auto; intros (A & _); exact A. Qed.

Lemma Rres_res c1 c2 inp PR r1 r2 : Rres c1 c2 inp PR r1 r2 -> res_rel (URel c1 c2 inp PR) r1 r2.
Proof. destruct r1, r2; cbn [Rres res_rel]; try contradiction; auto. Qed.

(* ---------------------------------------------------------------------------------- *)
(* reading the relation URel                                                            *)
(* ---------------------------------------------------------------------------------- *)
Section Read.
  Variables c1 c2 : cfg.
  Hypothesis A : agree_nosets c1 c2.
  Variable inp : list rune.

  Lemma A_latin : c_latin1 c1 = c_latin1 c2.
  Proof. destruct A as (_&_&_&_&_&_&_&_&_&_&_&H). exact H. Qed.
  Lemma A_special : c_special c1 = c_special c2.
  Proof. destruct A as (_&_&_&_&_&_&_&_&_&H&_). exact H. Qed.

  Lemma iss_A s : isSpecialScheme c1 s = isSpecialScheme c2 s.
  Proof. unfold isSpecialScheme, getSpecialScheme. rewrite A_special. reflexivity. Qed.

  (* the set used for the query / fragment of a record *)
  Lemma queryset_agree u1 u2 : u_scheme u1 = u_scheme u2 ->
    (if isSpecialScheme c2 (u_scheme u2) then c_squerySet c1 = c_squerySet c2 else c_querySet c1 = c_querySet c2) ->
    queryset c1 u1 = queryset c2 u2.
  Proof.
    intros Hs H. unfold queryset. rewrite iss_A, Hs. destruct (isSpecialScheme c2 (u_scheme u2)); exact H.
  Qed.
  Lemma fragset_agree u1 u2 : u_scheme u1 = u_scheme u2 ->
    (if isSpecialScheme c2 (u_scheme u2) then c_sfragSet c1 = c_sfragSet c2 else c_fragSet c1 = c_fragSet c2) ->
    fragset c1 u1 = fragset c2 u2.
  Proof.
    intros Hs H. unfold fragset. rewrite iss_A, Hs. destruct (isSpecialScheme c2 (u_scheme u2)); exact H.
  Qed.

  Lemma SRw_eq t1 t2 s1 s2 : t1 = t2 -> SRw c1 c2 inp t1 t2 s1 s2 -> s1 = s2.
  Proof.
    intros -> (b0 & a & n & -> & ->). f_equal. unfold enc_with. apply flat_map_ext. intros r.
    apply per_congr, A_latin.
  Qed.

  Lemma QR_eq u1 u2 : queryset c1 u1 = queryset c2 u2 -> QR c1 c2 inp u1 u2 -> u_query u1 = u_query u2.
  Proof.
    intros E [H|(q1 & q2 & E1 & E2 & S)]; [exact H|]. rewrite E1, E2. f_equal. exact (SRw_eq _ _ _ _ E S).
  Qed.
  Lemma FR_eq u1 u2 : fragset c1 u1 = fragset c2 u2 -> FR c1 c2 inp u1 u2 -> u_fragment u1 = u_fragment u2.
  Proof.
    intros E [H|(q1 & q2 & E1 & E2 & S)]; [exact H|]. rewrite E1, E2. f_equal. exact (SRw_eq _ _ _ _ E S).
  Qed.

  (* the three conclusions *)
  Lemma URel_except_path u1 u2 :
    c_squerySet c1 = c_squerySet c2 -> c_querySet c1 = c_querySet c2 ->
    c_sfragSet c1 = c_sfragSet c2 -> c_fragSet c1 = c_fragSet c2 ->
    URel c1 c2 inp (PR_eq c1 c2) u1 u2 -> agree_except_path u1 u2.
  Proof.
    intros Q1 Q2 F1 F2 ((A1&A2&A3&A4&A5&A6&A7&A8&A9) & HP & HQ & HF).
    assert (EQ : u_query u1 = u_query u2).
    { apply QR_eq; [|exact HQ]. apply queryset_agree; [exact A2|]. destruct (isSpecialScheme c2 (u_scheme u2)); assumption. }
    assert (EF : u_fragment u1 = u_fragment u2).
    { apply FR_eq; [|exact HF]. apply fragset_agree; [exact A2|]. destruct (isSpecialScheme c2 (u_scheme u2)); assumption. }
    unfold agree_except_path. repeat split; assumption.
  Qed.

  Lemma URel_except_query u1 u2 :
    c_pathSet c1 = c_pathSet c2 -> c_sfragSet c1 = c_sfragSet c2 -> c_fragSet c1 = c_fragSet c2 ->
    URel c1 c2 inp (PR_eq c1 c2) u1 u2 ->
    agree_except_query u1 u2 /\
    ((if isSpecialScheme c2 (u_scheme u2) then c_squerySet c1 = c_squerySet c2 else c_querySet c1 = c_querySet c2) -> u1 = u2).
  Proof.
    intros P F1 F2 ((A1&A2&A3&A4&A5&A6&A7&A8&A9) & HP & HQ & HF).
    destruct (HP P) as [P1 P2].
    assert (EF : u_fragment u1 = u_fragment u2).
    { apply FR_eq; [|exact HF]. apply fragset_agree; [exact A2|]. destruct (isSpecialScheme c2 (u_scheme u2)); assumption. }
    split; [unfold agree_except_query; repeat split; assumption|].
    intros HS. apply url_ext; try assumption.
    apply QR_eq; [|exact HQ]. apply queryset_agree; assumption.
  Qed.

  Lemma URel_except_fragment u1 u2 :
    c_pathSet c1 = c_pathSet c2 -> c_squerySet c1 = c_squerySet c2 -> c_querySet c1 = c_querySet c2 ->
    URel c1 c2 inp (PR_eq c1 c2) u1 u2 ->
    agree_except_fragment u1 u2 /\
    ((if isSpecialScheme c2 (u_scheme u2) then c_sfragSet c1 = c_sfragSet c2 else c_fragSet c1 = c_fragSet c2) -> u1 = u2).
  Proof.
    intros P Q1 Q2 ((A1&A2&A3&A4&A5&A6&A7&A8&A9) & HP & HQ & HF).
    destruct (HP P) as [P1 P2].
    assert (EQ : u_query u1 = u_query u2).
    { apply QR_eq; [|exact HQ]. apply queryset_agree; [exact A2|]. destruct (isSpecialScheme c2 (u_scheme u2)); assumption. }
    split; [unfold agree_except_fragment; repeat split; assumption|].
    intros HS. apply url_ext; try assumption.
    apply FR_eq; [|exact HF]. apply fragset_agree; assumption.
  Qed.
End Read.

(* the five updaters change nothing else *)
Lemma agree_pathSet c s : agree_nosets (with_pathSet c s) c.
Proof. unfold agree_nosets. cbn. repeat split. Qed.
Lemma agree_querySet c s : agree_nosets (with_querySet c s) c.
Proof. unfold agree_nosets. cbn. repeat split. Qed.
Lemma agree_squerySet c s : agree_nosets (with_squerySet c s) c.
Proof. unfold agree_nosets. cbn. repeat split. Qed.
Lemma agree_fragSet c s : agree_nosets (with_fragSet c s) c.
Proof. unfold agree_nosets. cbn. repeat split. Qed.
Lemma agree_sfragSet c s : agree_nosets (with_sfragSet c s) c.
Proof. unfold agree_nosets. cbn. repeat split. Qed.

(* ---------------------------------------------------------------------------------- *)
(* I2: the lock-step theorems                                                           *)
(* ---------------------------------------------------------------------------------- *)
(* what the query / fragment options leave alone *)
Definition query_class (c : cfg) (special : bool) (u1 u2 : url) : Prop :=
  if Bool.eqb (isSpecialScheme c (u_scheme u2)) special then agree_except_query u1 u2 else u1 = u2.
Definition fragment_class (c : cfg) (special : bool) (u1 u2 : url) : Prop :=
  if Bool.eqb (isSpecialScheme c (u_scheme u2)) special then agree_except_fragment u1 u2 else u1 = u2.

Section Five.
  Variable idna_raw : str -> str * bool.

  (* path set: same error / same kind of result, and the records agree on everything but the path component *)
  Theorem pathSet_BasicParser : forall c s x b u0 ov,
    res_rel agree_except_path (BasicParser idna_raw (with_pathSet c s) x b u0 ov) (BasicParser idna_raw c x b u0 ov).
  Proof.
    intros c s x b u0 ov.
    pose proof (Rres_res _ _ _ _ _ _ (sets_BasicParser idna_raw _ _ (agree_pathSet c s) x b u0 ov)) as H.
    revert H. apply res_rel_mono. intros u1 u2.
    apply (URel_except_path _ _ (agree_pathSet c s)); reflexivity.
  Qed.

  (* query set (non-special schemes): when the scheme of the result is special the results are EQUAL,
     otherwise they agree on everything but the query *)
  Theorem querySet_BasicParser : forall c s x b u0 ov,
    res_rel (query_class c false) (BasicParser idna_raw (with_querySet c s) x b u0 ov) (BasicParser idna_raw c x b u0 ov).
  Proof.
    intros c s x b u0 ov.
    pose proof (Rres_res _ _ _ _ _ _ (sets_BasicParser idna_raw _ _ (agree_querySet c s) x b u0 ov)) as H.
    revert H. apply res_rel_mono. intros u1 u2 HU.
    destruct (URel_except_query _ _ (agree_querySet c s) _ u1 u2 eq_refl eq_refl eq_refl HU) as [H1 H2].
    unfold query_class. destruct (isSpecialScheme c (u_scheme u2)) eqn:E; cbn [Bool.eqb]; [|exact H1].
    apply H2. reflexivity.
  Qed.

  (* special-query set: the mirror image *)
  Theorem squerySet_BasicParser : forall c s x b u0 ov,
    res_rel (query_class c true) (BasicParser idna_raw (with_squerySet c s) x b u0 ov) (BasicParser idna_raw c x b u0 ov).
  Proof.
    intros c s x b u0 ov.
    pose proof (Rres_res _ _ _ _ _ _ (sets_BasicParser idna_raw _ _ (agree_squerySet c s) x b u0 ov)) as H.
    revert H. apply res_rel_mono. intros u1 u2 HU.
    destruct (URel_except_query _ _ (agree_squerySet c s) _ u1 u2 eq_refl eq_refl eq_refl HU) as [H1 H2].
    unfold query_class. destruct (isSpecialScheme c (u_scheme u2)) eqn:E; cbn [Bool.eqb]; [exact H1|].
    apply H2. reflexivity.
  Qed.

  Theorem fragSet_BasicParser : forall c s x b u0 ov,
    res_rel (fragment_class c false) (BasicParser idna_raw (with_fragSet c s) x b u0 ov) (BasicParser idna_raw c x b u0 ov).
  Proof.
    intros c s x b u0 ov.
    pose proof (Rres_res _ _ _ _ _ _ (sets_BasicParser idna_raw _ _ (agree_fragSet c s) x b u0 ov)) as H.
    revert H. apply res_rel_mono. intros u1 u2 HU.
    destruct (URel_except_fragment _ _ (agree_fragSet c s) _ u1 u2 eq_refl eq_refl eq_refl HU) as [H1 H2].
    unfold fragment_class. destruct (isSpecialScheme c (u_scheme u2)) eqn:E; cbn [Bool.eqb]; [|exact H1].
    apply H2. reflexivity.
  Qed.

  Theorem sfragSet_BasicParser : forall c s x b u0 ov,
    res_rel (fragment_class c true) (BasicParser idna_raw (with_sfragSet c s) x b u0 ov) (BasicParser idna_raw c x b u0 ov).
  Proof.
    intros c s x b u0 ov.
    pose proof (Rres_res _ _ _ _ _ _ (sets_BasicParser idna_raw _ _ (agree_sfragSet c s) x b u0 ov)) as H.
    revert H. apply res_rel_mono. intros u1 u2 HU.
    destruct (URel_except_fragment _ _ (agree_sfragSet c s) _ u1 u2 eq_refl eq_refl eq_refl HU) as [H1 H2].
    unfold fragment_class. destruct (isSpecialScheme c (u_scheme u2)) eqn:E; cbn [Bool.eqb]; [exact H1|].
    apply H2. reflexivity.
  Qed.

  (* ----- the public calls ----- *)
  Theorem pathSet_Parse : forall c s x,
    pres_rel agree_except_path (Parse idna_raw (with_pathSet c s) x) (Parse idna_raw c x).
  Proof. intros. apply res_pres, pathSet_BasicParser. Qed.
  Theorem querySet_Parse : forall c s x,
    pres_rel (query_class c false) (Parse idna_raw (with_querySet c s) x) (Parse idna_raw c x).
  Proof. intros. apply res_pres, querySet_BasicParser. Qed.
  Theorem squerySet_Parse : forall c s x,
    pres_rel (query_class c true) (Parse idna_raw (with_squerySet c s) x) (Parse idna_raw c x).
  Proof. intros. apply res_pres, squerySet_BasicParser. Qed.
  Theorem fragSet_Parse : forall c s x,
    pres_rel (fragment_class c false) (Parse idna_raw (with_fragSet c s) x) (Parse idna_raw c x).
  Proof. intros. apply res_pres, fragSet_BasicParser. Qed.
  Theorem sfragSet_Parse : forall c s x,
    pres_rel (fragment_class c true) (Parse idna_raw (with_sfragSet c s) x) (Parse idna_raw c x).
  Proof. intros. apply res_pres, sfragSet_BasicParser. Qed.

  (* resolution against a base record: the same five statements *)
  Theorem pathSet_UrlParse : forall c s bu x,
    pres_rel agree_except_path (UrlParse idna_raw (with_pathSet c s) bu x) (UrlParse idna_raw c bu x).
  Proof. intros. apply res_pres, pathSet_BasicParser. Qed.
  Theorem querySet_UrlParse : forall c s bu x,
    pres_rel (query_class c false) (UrlParse idna_raw (with_querySet c s) bu x) (UrlParse idna_raw c bu x).
  Proof. intros. apply res_pres, querySet_BasicParser. Qed.
  Theorem squerySet_UrlParse : forall c s bu x,
    pres_rel (query_class c true) (UrlParse idna_raw (with_squerySet c s) bu x) (UrlParse idna_raw c bu x).
  Proof. intros. apply res_pres, squerySet_BasicParser. Qed.
  Theorem fragSet_UrlParse : forall c s bu x,
    pres_rel (fragment_class c false) (UrlParse idna_raw (with_fragSet c s) bu x) (UrlParse idna_raw c bu x).
  Proof. intros. apply res_pres, fragSet_BasicParser. Qed.
  Theorem sfragSet_UrlParse : forall c s bu x,
    pres_rel (fragment_class c true) (UrlParse idna_raw (with_sfragSet c s) bu x) (UrlParse idna_raw c bu x).
  Proof. intros. apply res_pres, sfragSet_BasicParser. Qed.

End Five.

Print Assumptions pathSet_BasicParser.
Print Assumptions querySet_BasicParser.
Print Assumptions squerySet_BasicParser.
Print Assumptions fragSet_BasicParser.
Print Assumptions sfragSet_BasicParser.
Print Assumptions pathSet_Parse.
Print Assumptions querySet_Parse.
Print Assumptions squerySet_Parse.
Print Assumptions fragSet_Parse.
Print Assumptions sfragSet_Parse.
Print Assumptions pathSet_UrlParse.
Print Assumptions querySet_UrlParse.
Print Assumptions squerySet_UrlParse.
Print Assumptions fragSet_UrlParse.
Print Assumptions sfragSet_UrlParse.

(* ---------------------------------------------------------------------------------- *)
(* all five sets at once, and what a set does where it applies                          *)
(* ---------------------------------------------------------------------------------- *)
(* any two configurations that differ only in their sets: same kind of result, same error, and for two URLs:
   every other component equal; path component equal if the path sets are; query and fragment either equal
   (both absent, or copied from a base) or  prefix ++ encoding of the SAME code points of the input, each with
   the set its configuration has for the scheme class of the URL *)
Theorem sets_Parse : forall idna_raw c1 c2, agree_nosets c1 c2 -> forall x,
  pres_rel (URel c1 c2 (run_input c2 x None) (PR_eq c1 c2)) (Parse idna_raw c1 x) (Parse idna_raw c2 x).
Proof. intros idna_raw c1 c2 A x. apply res_pres, Rres_res, sets_BasicParser, A. Qed.
Print Assumptions sets_Parse.

Theorem sets_effect : forall idna_raw c1 c2, agree_nosets c1 c2 -> forall x u1 u2,
  Parse idna_raw c1 x = PUrl u1 -> Parse idna_raw c2 x = PUrl u2 ->
  let inp := run_input c2 x None in
  u_scheme u1 = u_scheme u2 /\
  (c_pathSet c1 = c_pathSet c2 -> u_path u1 = u_path u2 /\ u_opaque u1 = u_opaque u2) /\
  (u_query u1 = u_query u2 \/
   exists b0 a n, u_query u1 = Some (b0 ++ enc_with c1 (queryset c1 u1) (cps inp a n)) /\
                  u_query u2 = Some (b0 ++ enc_with c2 (queryset c2 u2) (cps inp a n))) /\
  (u_fragment u1 = u_fragment u2 \/
   exists b0 a n, u_fragment u1 = Some (b0 ++ enc_with c1 (fragset c1 u1) (cps inp a n)) /\
                  u_fragment u2 = Some (b0 ++ enc_with c2 (fragset c2 u2) (cps inp a n))).
Proof.
  intros idna_raw c1 c2 A x u1 u2 E1 E2 inp. pose proof (sets_Parse idna_raw c1 c2 A x) as H.
  rewrite E1, E2 in H. cbn [pres_rel] in H. destruct H as ((_ & Hs & _) & HP & HQ & HF).
  split; [exact Hs|]. split; [exact HP|]. split.
  - destruct HQ as [HQ|(q1 & q2 & Q1 & Q2 & b0 & a & n & -> & ->)]; [left; exact HQ|right; exists b0, a, n; split; assumption].
  - destruct HF as [HF|(q1 & q2 & Q1 & Q2 & b0 & a & n & -> & ->)]; [left; exact HF|right; exists b0, a, n; split; assumption].
Qed.
Print Assumptions sets_effect.

(* the encoding of one code point: members of the set are escaped, non-members above the C0 bound stay literal *)
Lemma RuneShouldBeEncoded_spec t r :
  RuneShouldBeEncoded t r = true <-> r < ab t \/ 126 < r \/ In r (bits t).
Proof.
  unfold RuneShouldBeEncoded, bs_test, mem. rewrite !orb_true_iff, existsb_exists. split.
  - intros [[H|H]|(y & Hy & E)]; [left; lia|right; left; lia|right; right]. apply N.eqb_eq in E. subst y. exact Hy.
  - intros [H|[H|H]]; [left; left; lia|left; right; lia|right]. exists r. split; [exact H|apply N.eqb_refl].
Qed.

Lemma per_ascii c r t : r < 128 ->
  percentEncodeRune c r (Some t) = if RuneShouldBeEncoded t r then [37; hex_upper (r / 16); hex_upper (r mod 16)] else [r].
Proof.
  intros H. unfold percentEncodeRune, latin1_enc, utf8_enc.
  replace (r <? 128) with true by lia. replace (r <? 256) with true by lia. cbn [fst flat_map]. rewrite app_nil_r.
  destruct (c_latin1 c); reflexivity.
Qed.

(* a code point above 126 is always escaped, whatever the set *)
Lemma per_high c r t : 126 < r -> percentEncodeRune c r (Some t) = percentEncodeRune c r None.
Proof.
  intros H. unfold percentEncodeRune, RuneShouldBeEncoded. replace (126 <? r) with true by lia.
  rewrite orb_true_r. reflexivity.
Qed.

Theorem enc_with_ascii c t w : Forall (fun r => r < 128) w ->
  enc_with c t w =
  flat_map (fun r => if RuneShouldBeEncoded t r then [37; hex_upper (r / 16); hex_upper (r mod 16)] else [r]) w.
Proof.
  intros H. unfold enc_with. induction H as [|r w Hr Hw IH]; [reflexivity|].
  cbn [flat_map]. rewrite IH, per_ascii by exact Hr. reflexivity.
Qed.
Print Assumptions enc_with_ascii.

(* ---------------------------------------------------------------------------------- *)
(* examples: the premises are satisfiable, and each set is effective where it applies   *)
(* ---------------------------------------------------------------------------------- *)
Definition idna_id1 (s : str) : str * bool := (s, false).
(* C0 controls, space and the letter 'a' *)
Definition set_a : peset := {| ab := 33; bits := [97] |}.
(* "x://h/a?a b#a" and "http://h/a?a b#a" *)
Definition in_x : str := [120;58;47;47;104;47;97;63;97;32;98;35;97].
Definition in_http : str := [104;116;116;112;58;47;47;104;47;97;63;97;32;98;35;97].

Definition show (r : pres) : option (option str * option str * option str) :=
  match r with PUrl u => Some (Pathname u, u_query u, u_fragment u) | _ => None end.

Example default_x : show (Parse idna_id1 default_cfg in_x) = Some (Some [47;97], Some [97;37;50;48;98], Some [97]).
Proof. vm_compute. reflexivity. Qed.
Example default_http : show (Parse idna_id1 default_cfg in_http) = Some (Some [47;97], Some [97;37;50;48;98], Some [97]).
Proof. vm_compute. reflexivity. Qed.

(* path set: both scheme classes, the path only *)
Example pathSet_x : show (Parse idna_id1 (with_pathSet default_cfg set_a) in_x) = Some (Some [47;37;54;49], Some [97;37;50;48;98], Some [97]).
Proof. vm_compute. reflexivity. Qed.
Example pathSet_http : show (Parse idna_id1 (with_pathSet default_cfg set_a) in_http) = Some (Some [47;37;54;49], Some [97;37;50;48;98], Some [97]).
Proof. vm_compute. reflexivity. Qed.
(* query set: the query of the non-special URL only *)
Example querySet_x : show (Parse idna_id1 (with_querySet default_cfg set_a) in_x) = Some (Some [47;97], Some [37;54;49;37;50;48;98], Some [97]).
Proof. vm_compute. reflexivity. Qed.
Example querySet_http : Parse idna_id1 (with_querySet default_cfg set_a) in_http = Parse idna_id1 default_cfg in_http.
Proof. vm_compute. reflexivity. Qed.
(* special-query set: the query of the special URL only *)
Example squerySet_http : show (Parse idna_id1 (with_squerySet default_cfg set_a) in_http) = Some (Some [47;97], Some [37;54;49;37;50;48;98], Some [97]).
Proof. vm_compute. reflexivity. Qed.
Example squerySet_x : Parse idna_id1 (with_squerySet default_cfg set_a) in_x = Parse idna_id1 default_cfg in_x.
Proof. vm_compute. reflexivity. Qed.
(* fragment sets *)
Example fragSet_x : show (Parse idna_id1 (with_fragSet default_cfg set_a) in_x) = Some (Some [47;97], Some [97;37;50;48;98], Some [37;54;49]).
Proof. vm_compute. reflexivity. Qed.
Example fragSet_http : Parse idna_id1 (with_fragSet default_cfg set_a) in_http = Parse idna_id1 default_cfg in_http.
Proof. vm_compute. reflexivity. Qed.
Example sfragSet_http : show (Parse idna_id1 (with_sfragSet default_cfg set_a) in_http) = Some (Some [47;97], Some [97;37;50;48;98], Some [37;54;49]).
Proof. vm_compute. reflexivity. Qed.
Example sfragSet_x : Parse idna_id1 (with_sfragSet default_cfg set_a) in_x = Parse idna_id1 default_cfg in_x.
Proof. vm_compute. reflexivity. Qed.

(* the statements hold also with fail-on-validation-error and report-validation-errors (no side condition):
   "x://h/a?a b" raises a validation error for the space; both configurations fail with the same error *)
Example fail_same_error :
  exists e, Parse idna_id1 (with_querySet (with_fail default_cfg true) set_a) in_x = PErr e /\
            Parse idna_id1 (with_fail default_cfg true) in_x = PErr e.
Proof. eexists. split; vm_compute; reflexivity. Qed.

(* ---------------------------------------------------------------------------------- *)
(* FINDINGS about the path set                                                          *)
(* ---------------------------------------------------------------------------------- *)
(* The path state percent-encodes each code point into the buffer FIRST and recognises "." / ".." /
   "%2e" / drive letters on the ENCODED buffer.  A replaced path set that escapes one of  % 2 e E  therefore
   changes which segments are removed, and one that escapes  : | or a letter changes drive-letter handling
   of file URLs.  (A set that escapes '.' is harmless: "%2E" is still recognised.) *)
Definition set_plus (b : N) : peset := pes_set pes_Path [b].
Definition paths (r : pres) : option (list str) := match r with PUrl u => Some (u_path u) | _ => None end.

(* "http://h/a/%2e%2e/b": default ["b"]; with '%' escaped the segment "%252e%252e" is kept *)
Theorem pathSet_changes_dot_removal_pct :
  paths (Parse idna_id1 default_cfg [104;116;116;112;58;47;47;104;47;97;47;37;50;101;37;50;101;47;98]) = Some [[98]] /\
  paths (Parse idna_id1 (with_pathSet default_cfg (set_plus 37)) [104;116;116;112;58;47;47;104;47;97;47;37;50;101;37;50;101;47;98])
    = Some [[97]; [37;50;53;50;101;37;50;53;50;101]; [98]].
Proof. split; vm_compute; reflexivity. Qed.
(* the same with '2', 'e' escaped ("%2e%2e") and with 'E' escaped ("%2E%2E") *)
Theorem pathSet_changes_dot_removal_2 :
  paths (Parse idna_id1 (with_pathSet default_cfg (set_plus 50)) [104;116;116;112;58;47;47;104;47;97;47;37;50;101;37;50;101;47;98])
    = Some [[97]; [37;37;51;50;101;37;37;51;50;101]; [98]].
Proof. vm_compute. reflexivity. Qed.
Theorem pathSet_changes_dot_removal_e :
  paths (Parse idna_id1 (with_pathSet default_cfg (set_plus 101)) [104;116;116;112;58;47;47;104;47;97;47;37;50;101;37;50;101;47;98])
    = Some [[97]; [37;50;37;54;53;37;50;37;54;53]; [98]].
Proof. vm_compute. reflexivity. Qed.
Theorem pathSet_changes_dot_removal_E :
  paths (Parse idna_id1 default_cfg [104;116;116;112;58;47;47;104;47;97;47;37;50;69;47;98]) = Some [[97]; [98]] /\
  paths (Parse idna_id1 (with_pathSet default_cfg (set_plus 69)) [104;116;116;112;58;47;47;104;47;97;47;37;50;69;47;98])
    = Some [[97]; [37;50;37;52;53]; [98]].
Proof. split; vm_compute; reflexivity. Qed.
(* escaping '.' itself keeps the removal: "http://h/a/../b" *)
Example pathSet_dot_harmless :
  paths (Parse idna_id1 (with_pathSet default_cfg (set_plus 46)) [104;116;116;112;58;47;47;104;47;97;47;46;46;47;98]) = Some [[98]] /\
  paths (Parse idna_id1 (with_pathSet default_cfg (set_plus 46)) [104;116;116;112;58;47;47;104;47;97;47;46;47;98;46;99])
    = Some [[97]; [98;37;50;69;99]].
Proof. split; vm_compute; reflexivity. Qed.

(* drive letters: "file:///C|/x" is normalised to C: by default, not when '|' is escaped ... *)
Theorem pathSet_changes_drive_letter_bar :
  paths (Parse idna_id1 default_cfg [102;105;108;101;58;47;47;47;67;124;47;120]) = Some [[67;58]; [120]] /\
  paths (Parse idna_id1 (with_pathSet default_cfg (set_plus 124)) [102;105;108;101;58;47;47;47;67;124;47;120])
    = Some [[67;37;55;67]; [120]].
Proof. split; vm_compute; reflexivity. Qed.
(* ... and "file:///C:/../x" keeps the drive letter by default, but pops it when ':' is escaped *)
Theorem pathSet_changes_drive_letter_colon :
  paths (Parse idna_id1 default_cfg [102;105;108;101;58;47;47;47;67;58;47;46;46;47;120]) = Some [[67;58]; [120]] /\
  paths (Parse idna_id1 (with_pathSet default_cfg (set_plus 58)) [102;105;108;101;58;47;47;47;67;58;47;46;46;47;120])
    = Some [[120]].
Proof. split; vm_compute; reflexivity. Qed.
(* a drive letter in host position ("file://C:/x") reaches the path without passing through the path set *)
Theorem pathSet_bypassed_by_file_host_drive :
  paths (Parse idna_id1 (with_pathSet default_cfg (set_plus 58)) [102;105;108;101;58;47;47;67;58;47;120]) = Some [[67;58]; [120]] /\
  paths (Parse idna_id1 (with_pathSet default_cfg (set_plus 58)) [102;105;108;101;58;47;47;47;67;58;47;120]) = Some [[67;37;51;65]; [120]].
Proof. split; vm_compute; reflexivity. Qed.
(* an opaque path ("x:a b") is not governed by the path set (it is encoded with the C0-control set) *)
Example pathSet_not_opaque :
  Parse idna_id1 (with_pathSet default_cfg set_a) [120;58;97;32;98] = Parse idna_id1 default_cfg [120;58;97;32;98].
Proof. vm_compute. reflexivity. Qed.
(* a set that escapes '%' double-escapes existing escapes: "x://h/?%41" gives the query "%2541" *)
Example querySet_double_escapes :
  show (Parse idna_id1 (with_querySet default_cfg (pes_set pes_Query [37])) [120;58;47;47;104;47;63;37;52;49])
  = Some (Some [47], Some [37;50;53;52;49], None).
Proof. vm_compute. reflexivity. Qed.

Print Assumptions pathSet_changes_dot_removal_pct.
Print Assumptions pathSet_changes_dot_removal_2.
Print Assumptions pathSet_changes_dot_removal_e.
Print Assumptions pathSet_changes_dot_removal_E.
Print Assumptions pathSet_changes_drive_letter_bar.
Print Assumptions pathSet_changes_drive_letter_colon.
Print Assumptions pathSet_bypassed_by_file_host_drive.
