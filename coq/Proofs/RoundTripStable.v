(* Round trip, part 7: every parse result is stable ([stable_b]), so that [roundtrip] applies to everything
   the parser produces.  An invariant of the state machine for runs without base and without state override,
   under the configuration condition [cfg_rt]. *)
From Verif Require Import Lib.Base Lib.Utf8 Lib.GoStr Model.Cfg Gen.Tables Gen.Options Model.Sets Model.Percent
  Model.Url Model.Host Model.Machine Model.Api Model.Preds.
From Verif Require Import Proofs.SetsProofs Proofs.Cleaning Proofs.PhaseLemmas Proofs.RecordInv Proofs.OptionNeutralBase Proofs.MachineInv
  Proofs.RoundTripBase Proofs.RoundTripPhases.
From Verif Require Proofs.Utf8Proofs.
From Coq Require Import Lia ZifyBool ZifyN ZifyNat.

Local Arguments N.mul : simpl never.
Local Arguments N.add : simpl never.
Local Arguments N.sub : simpl never.
Local Arguments N.eqb : simpl never.
Local Arguments N.ltb : simpl never.
Local Arguments N.leb : simpl never.

(* ------------------------------------------------------------------------------------------ *)
(* the pieces of the invariant                                                                  *)
(* ------------------------------------------------------------------------------------------ *)
Definition noqh (s : str) : bool := forallb (fun x => negb (x =? 63) && negb (x =? 35)) s.
Definition FLb (u : url) : bool :=
  negb (str_eqb (u_scheme u) s_file) || negb (opt_eqb str_eqb (u_host u) (Some s_localhost)).
Definition A0 (u : url) : bool := negb (u_opaque u) && is_nil (u_path u) && dport_ok u.
Definition Bb (c : cfg) (u : url) : bool := negb (u_opaque u) && dport_ok u && list_stable c u.

Lemma A0_parts u : A0 u = true -> u_opaque u = false /\ u_path u = [] /\ dport_ok u = true.
Proof.
  unfold A0. intros H. apply andb_true_iff in H. destruct H as [H H3]. apply andb_true_iff in H. destruct H as [H1 H2].
  apply negb_true_iff in H1. apply is_nil_true in H2. auto.
Qed.

Lemma A0_B c u : A0 u = true -> FLb u = true -> Bb c u = true.
Proof.
  intros HA HF. destruct (A0_parts u HA) as [H1 [H2 H3]]. unfold Bb, list_stable, drive_ok. rewrite H1, H2, H3.
  cbn [negb andb forallb]. rewrite orb_true_r. cbn [andb]. exact HF.
Qed.

Lemma Bb_stable c u : Bb c u = true -> stable_b c u = true.
Proof.
  unfold Bb, stable_b. intros H. apply andb_true_iff in H. destruct H as [H H3]. apply andb_true_iff in H.
  destruct H as [H1 H2]. apply negb_true_iff in H1. rewrite H1, H2, H3. reflexivity.
Qed.

Definition OP (u : url) : Prop :=
  u_opaque u = true /\ dport_ok u = true /\ exists s0, u_path u = [s0] /\ noqh s0 = true.
Definition BC (c : cfg) (u : url) : Prop := Bb c u = true \/ OP u.

Lemma BC_stable_q c u : BC c u -> is_some (u_query u) = true -> stable_b c u = true.
Proof.
  intros [H|[H1 [H2 [s0 [H3 H4]]]]] Hq; [apply Bb_stable; exact H|].
  unfold stable_b, opq_stable. rewrite H1, H2, H3. fold (noqh s0). rewrite H4, Hq. rewrite orb_true_r. reflexivity.
Qed.

Lemma BC_stable_f c u : BC c u -> is_some (u_fragment u) = true -> stable_b c u = true.
Proof.
  intros [H|[H1 [H2 [s0 [H3 H4]]]]] Hq; [apply Bb_stable; exact H|].
  unfold stable_b, opq_stable. rewrite H1, H2, H3. fold (noqh s0). rewrite H4, Hq. rewrite orb_true_r. reflexivity.
Qed.

Section StableInv.
  Variable idna_raw : str -> str * bool.
  Variable c : cfg.
  Hypothesis R : CfgRT c.
  Variable inp : list rune.
  (* the last code point of the input is not a space (the input was trimmed) *)
  Hypothesis Hlast : forall q, (q + 1 = n_inp inp)%Z -> cp_at inp q <> 32.

  Let Hrep := R_rep c R.
  Let Hfail := R_fail c R.

  Notation n := (n_inp inp).
  Notation stepf := (step idna_raw c inp None None).
  Notation runf := (run idna_raw c inp None None).
  Notation cp := (cp_at inp).

  Definition SI (m : mstate) : Prop :=
    (m_eof m = true -> (n <= m_ptr m)%Z) /\
    match m_state m with
    | SchemeStart | Scheme | NoScheme => A0 (m_url m) = true /\ u_host (m_url m) = None
    | SpecialAuthoritySlashes | SpecialAuthorityIgnoreSlashes | Authority | HostSt | PortSt =>
        A0 (m_url m) = true /\ str_eqb (u_scheme (m_url m)) s_file = false
    | PathOrAuthority =>
        (A0 (m_url m) = true /\ str_eqb (u_scheme (m_url m)) s_file = false) /\ mem 92 (m_buf m) = false
    | File | FileSlash | FileHost | PathStart => (A0 (m_url m) = true /\ FLb (m_url m) = true) /\ mem 92 (m_buf m) = false
    | PathSt => Bb c (m_url m) = true /\ (IsSpecialScheme c (m_url m) = true -> mem 92 (m_buf m) = false)
    | OpaquePath =>
        u_opaque (m_url m) = true /\ dport_ok (m_url m) = true /\ u_path (m_url m) = [m_buf m] /\ noqh (m_buf m) = true /\
        (last (m_buf m) 0 = 32 -> (m_ptr m + 1 < n)%Z)
    | QuerySt => BC c (m_url m) /\ is_some (u_query (m_url m)) = true
    | FragmentSt => BC c (m_url m) /\ is_some (u_fragment (m_url m)) = true
    | HostnameSt | SpecialRelativeOrAuthority | Relative | RelativeSlash => False
    end.

  Definition Post (o : outcome) : Prop :=
    match o with Cont m' => SI m' | RetUrl u => stable_b c u = true | _ => True end.

  (* when the loop ends, the record is stable *)
  Lemma SI_final m : SI m -> m_eof m = true -> stable_b c (m_url m) = true.
  Proof using All.
    intros [He H] E. specialize (He E). destruct m as [st p e buf a br pw u]. cbn [m_state m_url m_buf m_ptr m_eof] in *.
    destruct st; try contradiction;
      try (destruct H as [[H1 H2] _]; apply Bb_stable; apply A0_B; [exact H1|];
           first [exact H2 | unfold FLb; rewrite H2; reflexivity]);
      try (destruct H as [H1 H2]; apply Bb_stable; apply A0_B; [exact H1|];
           first [exact H2 | unfold FLb; rewrite H2; cbn [opt_eqb negb]; apply orb_true_r | unfold FLb; rewrite H2; reflexivity]).
    - destruct H as [H1 [H2 [H3 [H4 H5]]]]. unfold stable_b, opq_stable. rewrite H1, H2, H3. fold (noqh buf). rewrite H4.
      cbn [andb]. destruct (last buf 0 =? 32) eqn:E32; [|reflexivity]. exfalso. apply N.eqb_eq in E32. specialize (H5 E32). lia.
    - destruct H as [H _]. apply Bb_stable. exact H.
    - destruct H as [H1 H2]. apply BC_stable_q; assumption.
    - destruct H as [H1 H2]. apply BC_stable_f; assumption.
  Qed.

  Ltac unfold_step :=
    cbv beta iota zeta delta [step mk m_state m_ptr m_eof m_buf m_at m_br m_pw m_url overridden is_some].

  (* the end-of-input flag of a successor state *)
  Ltac eof_goal :=
    let E := fresh "E" in intros E; try discriminate E;
    repeat match type of E with context [(n <=? ?q)%Z] => destruct (n <=? q)%Z eqn:? end;
    try discriminate E; lia.

  Ltac open_state m H :=
    destruct m as [st p e buf a br pw u]; cbn [m_state m_url m_buf m_ptr m_eof];
    intros -> [_ H] ->; cbn [m_state m_url m_buf m_ptr m_eof] in H; unfold_step; cbn [negb andb orb].

  Ltac cont_goal := cbn [Post]; unfold SI; cbn [m_state m_url m_buf m_ptr m_eof]; split; [eof_goal|].

  Lemma mherr_fatal_post u t k : Post (mherr c u t true k).
  Proof using All. rewrite (PhaseLemmas.mherr_fatal c Hrep u t k). exact I. Qed.

  Ltac step_auto := repeat first
    [ match goal with |- context [mherr c ?u ?t false ?k] => rewrite (PhaseLemmas.mherr_quiet c Hrep Hfail u t k); cbv beta end
    | progress cbv beta
    | match goal with |- Post (mherr _ _ _ true _) => apply mherr_fatal_post end
    | match goal with |- Post (if ?b then _ else _) => destruct b eqn:? end
    | match goal with |- Post ((if ?b then _ else _) _) => destruct b eqn:? end
    | match goal with |- Post (match ?x with _ => _ end) => destruct x eqn:? end ].

  Lemma st_SchemeStart m : m_state m = SchemeStart -> SI m -> m_eof m = false -> Post (stepf m).
  Proof using All.
    open_state m H. destruct H as [H1 H2]. step_auto; cont_goal; split; assumption.
  Qed.

  Lemma st_NoScheme m : m_state m = NoScheme -> SI m -> m_eof m = false -> Post (stepf m).
  Proof using All. open_state m H. step_auto. Qed.

  Lemma FLb_none u : u_host u = None -> FLb u = true.
  Proof using. intros H. unfold FLb. rewrite H. apply orb_true_r. Qed.
  Lemma FLb_nf u : str_eqb (u_scheme u) s_file = false -> FLb u = true.
  Proof using. intros H. unfold FLb. rewrite H. reflexivity. Qed.
  Lemma A0_dport u : A0 u = true -> dport_ok u = true.
  Proof using. intros H. apply (A0_parts u H). Qed.

  Lemma st_Scheme m : m_state m = Scheme -> SI m -> m_eof m = false -> Post (stepf m).
  Proof using All.
    open_state m H. destruct H as [H1 H2]. rewrite ?andb_false_r. step_auto; try exact I; cont_goal.
    all: try (split; assumption).
    - split; [split; [exact H1|apply FLb_none; exact H2]|reflexivity].
    - split; [split; [exact H1|apply FLb_none; exact H2]|reflexivity].
    - split; [split; [exact H1|assumption]|reflexivity].
    - repeat split; try reflexivity; [apply (A0_dport u H1)|intros E; discriminate E].
  Qed.

  Lemma st_SAS m : m_state m = SpecialAuthoritySlashes -> SI m -> m_eof m = false -> Post (stepf m).
  Proof using All. open_state m H. step_auto; cont_goal; exact H. Qed.

  Lemma st_SAIS m : m_state m = SpecialAuthorityIgnoreSlashes -> SI m -> m_eof m = false -> Post (stepf m).
  Proof using All. open_state m H. step_auto; cont_goal; exact H. Qed.

  Lemma st_POA m : m_state m = PathOrAuthority -> SI m -> m_eof m = false -> Post (stepf m).
  Proof using All.
    open_state m H. destruct H as [[H1 H2] H3]. step_auto; cont_goal.
    - split; assumption.
    - split; [apply A0_B; [exact H1|apply FLb_nf; exact H2]|intros _; exact H3].
  Qed.

  Lemma st_Authority m : m_state m = Authority -> SI m -> m_eof m = false -> Post (stepf m).
  Proof using All. open_state m H. step_auto; cont_goal; exact H. Qed.

  Lemma st_HostSt m : m_state m = HostSt -> SI m -> m_eof m = false -> Post (stepf m).
  Proof using All.
    open_state m H. destruct H as [H1 H2]. step_auto; try exact I; cont_goal.
    all: try (split; assumption).
    all: match goal with E : parseHost _ _ _ _ _ = Ok _ _ |- _ => apply parseHost_ok_frame in E; destruct E as [v ->] end.
    - split; assumption.
    - split; [split; [exact H1|apply FLb_nf; exact H2]|reflexivity].
  Qed.

  Lemma clean_port_A0 u x v : A0 u = true -> A0 (cleanDefaultPort c (set_port u (Some x) v)) = true.
  Proof using.
    intros H. destruct (A0_parts u H) as [H1 [H2 H3]]. unfold cleanDefaultPort. cbn [u_scheme set_port u_port].
    unfold A0, dport_ok.
    destruct (getSpecialScheme c (u_scheme u)); [destruct (str_eqb s x)|]; cbn; rewrite H1, H2; reflexivity.
  Qed.
  Lemma clean_port_FLb u x v : FLb (cleanDefaultPort c (set_port u (Some x) v)) = FLb u.
  Proof using.
    unfold cleanDefaultPort. cbn [u_scheme set_port u_port].
    destruct (getSpecialScheme c (u_scheme u)); [destruct (str_eqb s x)|]; reflexivity.
  Qed.

  Lemma st_PortSt m : m_state m = PortSt -> SI m -> m_eof m = false -> Post (stepf m).
  Proof using All.
    open_state m H. destruct H as [H1 H2]. step_auto; try exact I; cont_goal.
    all: try (split; assumption).
    - split; [split; [apply clean_port_A0; exact H1|rewrite clean_port_FLb; apply FLb_nf; exact H2]|reflexivity].
    - split; [split; [exact H1|apply FLb_nf; exact H2]|].
      match goal with E : negb (is_nil buf) = false |- _ => apply negb_false_iff in E; apply is_nil_true in E; rewrite E end.
      reflexivity.
  Qed.

  Lemma FLb_file_empty u : FLb (set_host (set_scheme u s_file) (Some [])) = true.
  Proof using. reflexivity. Qed.

  Lemma st_File m : m_state m = File -> SI m -> m_eof m = false -> Post (stepf m).
  Proof using All.
    open_state m H. destruct H as [[H1 H2] H3]. step_auto; cont_goal.
    - split; [split; [exact H1|reflexivity]|exact H3].
    - split; [split; [exact H1|reflexivity]|exact H3].
    - split; [apply A0_B; [exact H1|reflexivity]|intros _; exact H3].
  Qed.

  Lemma st_FileSlash m : m_state m = FileSlash -> SI m -> m_eof m = false -> Post (stepf m).
  Proof using All.
    open_state m H. destruct H as [[H1 H2] H3]. step_auto; cont_goal.
    - split; [split; assumption|exact H3].
    - split; [split; assumption|exact H3].
    - split; [apply A0_B; assumption|intros _; exact H3].
  Qed.

  Lemma utf8_no92 r : (r =? 92) = false -> mem 92 (utf8_enc r) = false.
  Proof using All.
    intros H. destruct (r <? 128) eqn:E.
    - rewrite (Utf8Proofs.utf8_enc_ascii r) by lia. unfold mem. cbn [existsb]. rewrite N.eqb_sym, H. reflexivity.
    - pose proof (Utf8Proofs.utf8_enc_high r ltac:(lia)) as F. unfold mem.
      induction F as [|x l Hx _ IH]; [reflexivity|]. cbn [existsb]. rewrite IH. replace (92 =? x) with false by lia. reflexivity.
  Qed.

  Lemma mem_app_false x a b : mem x a = false -> mem x b = false -> mem x (a ++ b) = false.
  Proof using. unfold mem. intros H1 H2. rewrite existsb_app, H1, H2. reflexivity. Qed.

  Lemma FLb_set_host_nl u h : str_eqb h s_localhost = false -> FLb (set_host u (Some h)) = true.
  Proof using. intros H. unfold FLb. cbn [u_host set_host opt_eqb]. rewrite H. apply orb_true_r. Qed.

  Lemma st_FileHost m : m_state m = FileHost -> SI m -> m_eof m = false -> Post (stepf m).
  Proof using All.
    open_state m H. destruct H as [[H1 H2] H3]. step_auto; try exact I; cont_goal.
    all: try match goal with E : parseHost _ _ _ _ _ = Ok _ _ |- _ => apply parseHost_ok_frame in E; destruct E as [v ->] end.
    - split; [apply A0_B; assumption|intros _; exact H3].
    - split; [split; [exact H1|apply FLb_set_host_nl; reflexivity]|].
      match goal with E : is_nil buf = true |- _ => apply is_nil_true in E; rewrite E end. reflexivity.
    - split; [split; [exact H1|]|reflexivity].
      destruct (str_eqb a0 s_localhost) eqn:El; apply FLb_set_host_nl; [reflexivity|exact El].
    - split; [split; assumption|]. apply mem_app_false; [exact H3|]. apply utf8_no92.
      match goal with E : _ || _ = false |- _ => revert E end. clear. intros E.
      repeat (apply orb_false_iff in E; destruct E as [E ?]). assumption.
  Qed.

  Lemma st_PathStart m : m_state m = PathStart -> SI m -> m_eof m = false -> Post (stepf m).
  Proof using All.
    open_state m H. destruct H as [[H1 H2] H3]. step_auto; cont_goal.
    all: try (split; [apply A0_B; assumption|intros _; exact H3]).
    all: try (split; [left; apply A0_B; assumption|reflexivity]).
    all: split; [split; assumption|exact H3].
  Qed.

  (* ---------------- PathSt ---------------- *)
  (* [list_stable] as a predicate of the path alone *)
  Definition nd (P : list str) : bool := forallb (fun s => negb (dotseg s)) P.
  Definition n92 (P : list str) : bool := forallb (fun s => negb (mem 92 s)) P.
  Definition dk (P : list str) : bool :=
    match P with s :: _ => negb (isWindowsDriveLetter s) || c_skipDrive c || isNormalizedWindowsDriveLetter s | [] => true end.
  Definition pok (u : url) (P : list str) : bool :=
    nd P && (negb (IsSpecialScheme c u) || n92 P)
    && (negb (str_eqb (u_scheme u) s_file) || (dk P && negb (opt_eqb str_eqb (u_host u) (Some s_localhost)))).

  Lemma list_stable_pok u P o : list_stable c (set_path u P o) = pok u P.
  Proof using. reflexivity. Qed.
  Lemma list_stable_pok' u : list_stable c u = pok u (u_path u).
  Proof using. reflexivity. Qed.

  Lemma pok_intro u P :
    nd P = true -> (IsSpecialScheme c u = true -> n92 P = true) ->
    (str_eqb (u_scheme u) s_file = true -> dk P = true /\ opt_eqb str_eqb (u_host u) (Some s_localhost) = false) ->
    pok u P = true.
  Proof using.
    intros H1 H2 H3. unfold pok. rewrite H1. cbn [andb].
    destruct (IsSpecialScheme c u); [rewrite (H2 eq_refl)|]; cbn [negb orb andb];
      (destruct (str_eqb (u_scheme u) s_file); [destruct (H3 eq_refl) as [E1 E2]; rewrite E1, E2|]; reflexivity).
  Qed.

  Lemma pok_elim u P : pok u P = true ->
    nd P = true /\ (IsSpecialScheme c u = true -> n92 P = true) /\
    (str_eqb (u_scheme u) s_file = true -> dk P = true /\ opt_eqb str_eqb (u_host u) (Some s_localhost) = false).
  Proof using.
    unfold pok. intros H. apply andb_true_iff in H. destruct H as [H H3]. apply andb_true_iff in H. destruct H as [H1 H2].
    split; [exact H1|]. split.
    - intros E. rewrite E in H2. exact H2.
    - intros E. rewrite E in H3. cbn [negb orb] in H3. apply andb_true_iff in H3. destruct H3 as [E1 E2].
      apply negb_true_iff in E2. auto.
  Qed.

  Lemma forallb_removelast' {A} (f : A -> bool) l : forallb f l = true -> forallb f (removelast l) = true.
  Proof using.
    induction l as [|x l IH]; [reflexivity|]. cbn [forallb]. intros H. apply andb_true_iff in H. destruct H as [H1 H2].
    destruct l as [|y l']; [reflexivity|]. cbn [removelast forallb] in *. rewrite H1. apply IH. exact H2.
  Qed.

  Lemma dk_removelast P : dk P = true -> dk (removelast P) = true.
  Proof using. destruct P as [|x [|y r]]; intros H; try reflexivity. exact H. Qed.

  Lemma pok_shorten u P : pok u P = true -> pok u (shortenPath (u_scheme u) P) = true.
  Proof using.
    intros H. destruct (pok_elim u P H) as [H1 [H2 H3]].
    assert (K : pok u (removelast P) = true).
    { apply pok_intro.
      - apply forallb_removelast'. exact H1.
      - intros E. apply forallb_removelast'. apply H2. exact E.
      - intros E. destruct (H3 E) as [E1 E2]. split; [apply dk_removelast; exact E1|exact E2]. }
    unfold shortenPath. destruct P as [|x [|y r]]; try exact K.
    destruct (str_eqb (u_scheme u) s_file && isNormalizedWindowsDriveLetter x); [exact H|reflexivity || exact K].
  Qed.

  Lemma pok_snoc u P s :
    pok u P = true -> dotseg s = false -> (IsSpecialScheme c u = true -> mem 92 s = false) ->
    (str_eqb (u_scheme u) s_file = true -> P = [] -> dk [s] = true) ->
    pok u (P ++ [s]) = true.
  Proof using.
    intros H Hd H92 Hdk. destruct (pok_elim u P H) as [H1 [H2 H3]]. apply pok_intro.
    - unfold nd. rewrite forallb_app. apply andb_true_iff. split; [exact H1|]. cbn [forallb]. rewrite Hd. reflexivity.
    - intros E. unfold n92. rewrite forallb_app. apply andb_true_iff. split; [exact (H2 E)|].
      cbn [forallb]. rewrite (H92 E). reflexivity.
    - intros E. destruct (H3 E) as [E1 E2]. split; [|exact E2].
      destruct P as [|x r]; [apply (Hdk E eq_refl)|exact E1].
  Qed.

  Lemma dotseg_nil : dotseg [] = false.
  Proof using. reflexivity. Qed.

  Lemma dotseg_drive b0 : dotseg [b0; 58] = false.
  Proof using.
    unfold dotseg, isSingleDotPathSegment, isDoubleDotPathSegment, str_eqb, str_lower. cbn [map list_eqb].
    replace (58 =? 46) with false by reflexivity. replace (ascii_lower 58 =? 46) with false by reflexivity.
    replace (ascii_lower 58 =? 50) with false by reflexivity. replace (ascii_lower 58 =? 37) with false by reflexivity.
    rewrite ?andb_false_r. reflexivity.
  Qed.

  Lemma B_set_path u P : Bb c u = true -> pok u P = true -> Bb c (set_path u P false) = true.
  Proof using.
    unfold Bb. intros H HP. apply andb_true_iff in H. destruct H as [H _]. apply andb_true_iff in H. destruct H as [H1 H2].
    cbn [u_opaque set_path negb]. change (dport_ok (set_path u P false)) with (dport_ok u).
    rewrite H2, list_stable_pok, HP. reflexivity.
  Qed.

  Lemma Bb_parts u : Bb c u = true -> u_opaque u = false /\ dport_ok u = true /\ pok u (u_path u) = true.
  Proof using.
    unfold Bb. intros H. apply andb_true_iff in H. destruct H as [H H3]. apply andb_true_iff in H. destruct H as [H1 H2].
    apply negb_true_iff in H1. auto.
  Qed.

  Lemma B_commit u buf sl :
    Bb c u = true -> (IsSpecialScheme c u = true -> mem 92 buf = false) -> Bb c (path_commit c u buf sl) = true.
  Proof using All.
    intros HB H92. destruct (Bb_parts u HB) as [Ho [Hd HP]].
    unfold path_commit. cbv zeta. rewrite (R_col c R). cbn [andb negb]. rewrite orb_false_r, Ho.
    assert (Hnil : pok u (u_path u ++ [[]]) = true).
    { apply pok_snoc; [exact HP|reflexivity|intros _; reflexivity|intros _ _; reflexivity]. }
    destruct (isDoubleDotPathSegment buf) eqn:E2.
    - pose proof (pok_shorten u _ HP) as HS.
      destruct (negb sl).
      + unfold addSegment. cbn [u_path set_path].
        apply (B_set_path u); [exact HB|]. apply pok_snoc; [exact HS|reflexivity|intros _; reflexivity|intros _ _; reflexivity].
      + apply (B_set_path u); assumption.
    - destruct (isSingleDotPathSegment buf) eqn:E1; cbn [andb negb].
      + destruct (negb sl); [|exact HB]. unfold addSegment. apply (B_set_path u); assumption.
      + unfold addSegment. apply (B_set_path u); [exact HB|].
        assert (Hdot : dotseg buf = false) by (unfold dotseg; rewrite E1, E2; reflexivity).
        destruct (str_eqb (u_scheme u) s_file && is_nil (u_path u) && isWindowsDriveLetter buf && negb (c_skipDrive c)) eqn:EC.
        * apply andb_true_iff in EC. destruct EC as [EC C4]. apply andb_true_iff in EC. destruct EC as [EC C3].
          apply andb_true_iff in EC. destruct EC as [C1 C2].
          unfold isWindowsDriveLetter in C3. destruct buf as [|b0 [|b1 [|b2 r]]]; try discriminate C3.
          apply andb_true_iff in C3. destruct C3 as [Ca _].
          apply pok_snoc; [exact HP|apply dotseg_drive| |].
          -- intros E. specialize (H92 E). unfold mem in *. cbn [existsb] in *.
             apply orb_false_iff in H92. destruct H92 as [H92 _]. rewrite H92. reflexivity.
          -- intros _ _. unfold dk, isNormalizedWindowsDriveLetter. rewrite Ca. rewrite !orb_true_r. reflexivity.
        * apply pok_snoc; [exact HP|exact Hdot|exact H92|].
          intros C1 C2. rewrite C1, C2 in EC. cbn [is_nil andb] in EC. unfold dk.
          destruct (isWindowsDriveLetter buf); [|reflexivity]. destruct (c_skipDrive c); [reflexivity|discriminate EC].
  Qed.

  (* the encoders never produce a backslash, '?', '#' or a space out of another code point *)
  Lemma enc_forall (Q : N -> bool) r t :
    Q 37 = true -> forallb Q uhex = true -> (forall b, 128 <= b -> Q b = true) -> (r < 128 -> Q r = true) ->
    forallb Q (percentEncodeRune c r (Some t)) = true /\ forallb Q (percentEncodeInvalidRune c r t) = true.
  Proof using All.
    intros Q37 Qhex Qhigh Qr.
    assert (K : forall t', forallb Q (percentEncodeRune c r (Some t')) = true).
    { intros t'. unfold percentEncodeRune. destruct (RuneShouldBeEncoded t' r) eqn:E.
      - apply (Q_enc_always Q Q37 Qhex c r).
      - destruct (r <? 128) eqn:E1.
        + rewrite Utf8Proofs.utf8_enc_ascii by lia. cbn [forallb]. rewrite Qr by lia. reflexivity.
        + pose proof (Utf8Proofs.utf8_enc_high r ltac:(lia)) as F. apply forallb_forall. intros x Hx.
          rewrite Forall_forall in F. apply Qhigh. apply F. exact Hx. }
    split; [apply K|]. unfold percentEncodeInvalidRune. destruct (c_singlePct c); apply K.
  Qed.

  Lemma enc_no92 r t : (r =? 92) = false ->
    mem 92 (percentEncodeRune c r (Some t)) = false /\ mem 92 (percentEncodeInvalidRune c r t) = false.
  Proof using All.
    intros H.
    destruct (enc_forall (fun x => negb (x =? 92)) r t eq_refl eq_refl) as [K1 K2].
    - intros b Hb. apply negb_true_iff. lia.
    - intros _. rewrite H. reflexivity.
    - assert (G : forall l, forallb (fun x => negb (x =? 92)) l = true -> mem 92 l = false).
      { induction l as [|x l IH]; [reflexivity|]. cbn [forallb]. intros E. apply andb_true_iff in E. destruct E as [E1 E2].
        unfold mem in *. cbn [existsb]. rewrite (IH E2), N.eqb_sym. apply negb_true_iff in E1. rewrite E1. reflexivity. }
      split; apply G; assumption.
  Qed.

  Lemma st_PathSt_commit p buf a br pw u :
    let r := if (n <=? p + 1)%Z then rune_error else cp (p + 1) in
    let eof := if (n <=? p + 1)%Z then true else false in
    (eof || (r =? 47)) || isSpecialSchemeAndBackslash c u r || ((r =? 63) || (r =? 35)) = true ->
    stepf (mk PathSt p false buf a br pw u) =
    (let u' := path_commit c u buf ((r =? 47) || isSpecialSchemeAndBackslash c u r) in
     if r =? 63 then Cont (mk QuerySt (p + 1) eof [] a br pw (set_query u' (Some [])))
     else if r =? 35 then Cont (mk FragmentSt (p + 1) eof [] a br pw (set_fragment u' (Some [])))
     else Cont (mk PathSt (p + 1) eof [] a br pw u')).
  Proof using All.
    cbv zeta. intros Hc. unfold_step. cbn [negb andb]. rewrite Hc.
    destruct (isSpecialSchemeAndBackslash c u (if (n <=? p + 1)%Z then rune_error else cp (p + 1))) eqn:Es;
      cbv beta; rewrite ?(PhaseLemmas.mherr_quiet c Hrep Hfail); cbv beta; rewrite ?Es; reflexivity.
  Qed.

  Lemma st_PathSt m : m_state m = PathSt -> SI m -> m_eof m = false -> Post (stepf m).
  Proof using All.
    destruct m as [st p e buf a br pw u]; cbn [m_state m_url m_buf m_ptr m_eof].
    intros -> [_ H] ->. cbn [m_state m_url m_buf m_ptr m_eof] in H. destruct H as [HB H92].
    set (r := if (n <=? p + 1)%Z then rune_error else cp (p + 1)).
    set (eof := if (n <=? p + 1)%Z then true else false).
    destruct ((eof || (r =? 47)) || isSpecialSchemeAndBackslash c u r || ((r =? 63) || (r =? 35))) eqn:Ec.
    - pose proof (st_PathSt_commit p buf a br pw u Ec) as Eq. unfold mk in Eq. rewrite Eq. clear Eq. cbv zeta. fold r eof.
      pose proof (B_commit u buf ((r =? 47) || isSpecialSchemeAndBackslash c u r) HB H92) as HC.
      destruct (r =? 63); [|destruct (r =? 35)]; cbn [Post]; unfold SI; cbn [m_state m_url m_buf m_ptr m_eof]; unfold eof.
      + split; [eof_goal|]. split; [left; exact HC|reflexivity].
      + split; [eof_goal|]. split; [left; exact HC|reflexivity].
      + split; [eof_goal|]. split; [exact HC|intros _; reflexivity].
    - unfold_step. cbn [negb andb]. fold r eof. rewrite Ec.
      apply orb_false_iff in Ec. destruct Ec as [Ec _]. apply orb_false_iff in Ec. destruct Ec as [_ Esab].
      assert (G : IsSpecialScheme c u = true -> (r =? 92) = false).
      { intros E. unfold isSpecialSchemeAndBackslash in Esab. rewrite E in Esab. exact Esab. }
      unfold eof. step_auto; cont_goal; (split; [exact HB|]); intros E; apply mem_app_false; try (apply H92; exact E);
        apply (enc_no92 r (c_pathSet c) (G E)).
  Qed.

  (* ---------------- OpaquePath ---------------- *)
  Lemma noqh_app a b : noqh a = true -> noqh b = true -> noqh (a ++ b) = true.
  Proof using. unfold noqh. intros H1 H2. rewrite forallb_app, H1, H2. reflexivity. Qed.

  Lemma enc_noqh r t : (r =? 63) = false -> (r =? 35) = false ->
    noqh (percentEncodeRune c r (Some t)) = true /\ noqh (percentEncodeInvalidRune c r t) = true.
  Proof using All.
    intros H1 H2. apply (enc_forall (fun x => negb (x =? 63) && negb (x =? 35)) r t); try reflexivity.
    - intros b Hb. replace (b =? 63) with false by lia. replace (b =? 35) with false by lia. reflexivity.
    - intros _. rewrite H1, H2. reflexivity.
  Qed.

  Lemma enc_last_space r t :
    (last (percentEncodeRune c r (Some t)) 0 = 32 -> r = 32) /\ (last (percentEncodeInvalidRune c r t) 0 = 32 -> r = 32).
  Proof using All.
    destruct (r =? 32) eqn:E; [split; intros _; lia|].
    destruct (enc_forall (fun x => negb (x =? 32)) r t eq_refl eq_refl) as [K1 K2].
    - intros b Hb. apply negb_true_iff. lia.
    - intros _. rewrite E. reflexivity.
    - assert (G : forall l, l <> [] -> forallb (fun x => negb (x =? 32)) l = true -> last l 0 = 32 -> False).
      { intros l Hne F Hl. rewrite forallb_forall in F.
        assert (Hin : In (last l 0) l).
        { rewrite (app_removelast_last 0 Hne) at 2. apply in_or_app. right. left. reflexivity. }
        specialize (F _ Hin). rewrite Hl in F. discriminate F. }
      split; intros Hl; exfalso.
      + apply (G _ (enc_rune_nonnil c r (Some t)) K1 Hl).
      + unfold percentEncodeInvalidRune in *. destruct (c_singlePct c); apply (G _ (enc_rune_nonnil c r _) K2 Hl).
  Qed.

  Lemma opq_append p buf enc :
    (n <=? p + 1)%Z = false -> noqh buf = true -> noqh enc = true -> enc <> [] ->
    (last enc 0 = 32 -> cp (p + 1) = 32) ->
    noqh (buf ++ enc) = true /\ (last (buf ++ enc) 0 = 32 -> (p + 1 + 1 < n)%Z).
  Proof using All.
    intros En H1 H2 Hne Hl. split; [apply noqh_app; assumption|].
    rewrite last_app_ne by exact Hne. intros E. specialize (Hl E).
    destruct (Z.eq_dec (p + 1 + 1) n) as [E'|E']; [exfalso; apply (Hlast _ E'); exact Hl|lia].
  Qed.

  Lemma st_OpaquePath m : m_state m = OpaquePath -> SI m -> m_eof m = false -> Post (stepf m).
  Proof using All.
    open_state m H. destruct H as [H1 [H2 [H3 [H4 H5]]]].
    step_auto; cont_goal.
    1-2: split; [right; split; [exact H1|split; [exact H2|eexists; split; eassumption]]|reflexivity].
    all: try match goal with E : negb (if (n <=? ?q)%Z then true else false) = true |- _ =>
        destruct (n <=? q)%Z eqn:En; [discriminate E|] end.
    all: try match goal with E : ((if (n <=? ?q)%Z then rune_error else _) =? 63) = false |- _ => rewrite En in * end.
    all: try (split; [reflexivity|]; split; [exact H2|]; split; [reflexivity|];
              match goal with
              | E1 : (?r =? 63) = false, E2 : (?r =? 35) = false |- context [percentEncodeInvalidRune c ?r ?t] =>
                  apply (opq_append _ _ _ En H4 (proj2 (enc_noqh r t E1 E2)));
                  [unfold percentEncodeInvalidRune; destruct (c_singlePct c); apply enc_rune_nonnil
                  |apply (proj2 (enc_last_space r t))]
              | E1 : (?r =? 63) = false, E2 : (?r =? 35) = false |- context [percentEncodeRune c ?r (Some ?t)] =>
                  apply (opq_append _ _ _ En H4 (proj1 (enc_noqh r t E1 E2)));
                  [apply enc_rune_nonnil|apply (proj1 (enc_last_space r t))]
              end).
    (* the end of the input *)
    split; [exact H1|]. split; [exact H2|]. split; [exact H3|]. split; [exact H4|].
    intros E. specialize (H5 E).
    match goal with E : negb (if (n <=? ?q)%Z then true else false) = false |- _ =>
      destruct (n <=? q)%Z eqn:En; [lia|discriminate E] end.
  Qed.

  (* ---------------- QuerySt / FragmentSt ---------------- *)
  Lemma st_QuerySt m : m_state m = QuerySt -> SI m -> m_eof m = false -> Post (stepf m).
  Proof using All.
    open_state m H. destruct H as [H1 H2]. step_auto; try exact I; cont_goal.
    all: split; [exact H1|first [reflexivity|exact H2]].
  Qed.

  Lemma st_FragmentSt m : m_state m = FragmentSt -> SI m -> m_eof m = false -> Post (stepf m).
  Proof using All.
    open_state m H. destruct H as [H1 H2]. step_auto; try exact I; cont_goal.
    all: split; [exact H1|first [reflexivity|exact H2]].
  Qed.

  (* ---------------- the invariant is preserved ---------------- *)
  Theorem step_SI m : SI m -> m_eof m = false -> Post (stepf m).
  Proof using All.
    intros H E. destruct (m_state m) eqn:Es.
    - apply st_SchemeStart; assumption.
    - apply st_Scheme; assumption.
    - apply st_NoScheme; assumption.
    - apply st_OpaquePath; assumption.
    - exfalso. destruct H as [_ H]. rewrite Es in H. exact H.
    - apply st_SAS; assumption.
    - apply st_SAIS; assumption.
    - apply st_POA; assumption.
    - apply st_Authority; assumption.
    - apply st_HostSt; assumption.
    - exfalso. destruct H as [_ H]. rewrite Es in H. exact H.
    - apply st_File; assumption.
    - apply st_FileHost; assumption.
    - apply st_FileSlash; assumption.
    - apply st_PortSt; assumption.
    - apply st_PathSt; assumption.
    - apply st_PathStart; assumption.
    - apply st_QuerySt; assumption.
    - apply st_FragmentSt; assumption.
    - exfalso. destruct H as [_ H]. rewrite Es in H. exact H.
    - exfalso. destruct H as [_ H]. rewrite Es in H. exact H.
  Qed.

  Theorem run_stable : forall fuel m u, SI m -> m_eof m = false -> runf fuel m = RUrl u -> stable_b c u = true.
  Proof using All.
    induction fuel as [|f IH]; intros m u H E Hr; [discriminate Hr|].
    cbn [run] in Hr. pose proof (step_SI m H E) as HP.
    destruct (stepf m) as [m'|u'|u' e'|u'|]; try discriminate Hr; cbn [Post] in HP.
    - destruct (m_eof m') eqn:E'.
      + injection Hr as <-. apply (SI_final m' HP E').
      + apply (IH m' u HP E' Hr).
    - injection Hr as <-. exact HP.
  Qed.

  Lemma SI_initial s : SI (mk SchemeStart (-1) false [] false false false (empty_url s)).
  Proof using. split; [intros E; discriminate E|]. split; reflexivity. Qed.
End StableInv.

(* ------------------------------------------------------------------------------------------ *)
(* the cleaned input does not end in a space                                                    *)
(* ------------------------------------------------------------------------------------------ *)
Import Proofs.Utf8Proofs.

Lemma dec1_bad b0 rest b rest' : dec1 b0 rest = (Bad b, rest') -> rest' = rest.
Proof.
  intros H. unfold dec1 in H. cbv zeta in H.
  dec1_split H; inversion H; subst; reflexivity.
Qed.

Lemma decode_nil_inv s : decode s = [] -> s = [].
Proof.
  destruct s as [|b0 rest]; [reflexivity|]. destruct (dec1 b0 rest) as [r rest'] eqn:E.
  rewrite (decode_cons _ _ _ _ E). discriminate.
Qed.

(* the last code point, when it is ASCII, is the last byte *)
Lemma decode_last_ascii s : forall l r, decode s = l ++ [r] -> rv r < 128 -> exists s', s = s' ++ [rv r].
Proof.
  apply (decode_ind (fun s d => forall l r, d = l ++ [r] -> rv r < 128 -> exists s', s = s' ++ [rv r])).
  - intros l r H. destruct l; discriminate H.
  - intros b0 rest r0 rest' E IH l r H Hr.
    assert (Hpre : exists pre, b0 :: rest = pre ++ rest' /\ (decode rest' = [] -> r0 = r -> pre = [rv r])).
    { destruct r0 as [c0|b].
      - exists (utf8_enc c0). split; [apply (dec1_good _ _ _ _ E)|]. intros _ <-. cbn [rv] in *.
        apply utf8_enc_ascii. exact Hr.
      - exists [b0]. split; [rewrite (dec1_bad _ _ _ _ E); reflexivity|]. intros _ <-. cbn [rv] in Hr.
        unfold rune_error in Hr. lia. }
    destruct Hpre as [pre [Hp1 Hp2]].
    destruct (decode rest') as [|y t] eqn:Ed.
    + destruct l as [|x l']; [|destruct l'; discriminate H]. cbn [app] in H. injection H as H.
      apply decode_nil_inv in Ed. subst rest'. exists []. rewrite Hp1, (Hp2 eq_refl H), app_nil_r. reflexivity.
    + destruct l as [|x l']; [discriminate H|]. cbn [app] in H. injection H as _ H.
      destruct (IH l' r H Hr) as [s'' Es]. exists (pre ++ s''). rewrite Hp1, Es, app_assoc. reflexivity.
Qed.

Lemma trim_left_set_head l y r : trim_left_set l = y :: r -> in_c0_or_space y = false.
Proof.
  induction l as [|b l IH]; [discriminate|]. cbn [trim_left_set].
  destruct (in_c0_or_space b) eqn:E; [exact IH|]. intros H. injection H as <- _. exact E.
Qed.

Lemma trim_last x s' y : fst (trim_c0space x) = s' ++ [y] -> in_c0_or_space y = false.
Proof.
  unfold trim_c0space. cbn [fst]. intros H.
  apply (f_equal (@rev N)) in H. rewrite rev_involutive, rev_app_distr in H. cbn [rev app] in H.
  apply (trim_left_set_head _ _ _ H).
Qed.

Lemma tabnl_c0 y : isTabOrNewline y = true -> in_c0_or_space y = true.
Proof.
  unfold isTabOrNewline, bs_test, bs_ASCIITabOrNewline, mem. cbn [existsb]. intros H.
  assert (E : y = 9 \/ y = 10 \/ y = 13) by lia. destruct E as [->|[->| ->]]; reflexivity.
Qed.

Lemma filter_snoc_keep {A} (f : A -> bool) l y : f y = true -> filter f (l ++ [y]) = filter f l ++ [y].
Proof. intros H. rewrite filter_app. cbn [filter]. rewrite H. reflexivity. Qed.

Lemma snoc_or_nil {A} (l : list A) : l = [] \/ exists l' y, l = l' ++ [y].
Proof.
  destruct l as [|a l]; [left; reflexivity|right].
  exists (removelast (a :: l)), (last (a :: l) a). apply app_removelast_last. discriminate.
Qed.

Lemma clean_sv_no_trailing_space a x s' : clean_sv a x <> s' ++ [32].
Proof.
  unfold clean_sv. set (t := fst (trim_c0space x)). intros H.
  assert (Hf : forall l, filter (fun b => negb (isTabOrNewline b)) l = s' ++ [32] ->
                 forall l' y, l = l' ++ [y] -> isTabOrNewline y = false -> y = 32).
  { intros l Hl l' y -> Hy. rewrite filter_snoc_keep in Hl by (rewrite Hy; reflexivity).
    apply app_inj_tail in Hl. apply Hl. }
  destruct (snoc_or_nil t) as [Et|[t' [y Et]]].
  - (* the trimmed input is empty *)
    rewrite Et in H. unfold remove_tabnl_sv, remove_tabnl in H. cbn in H. destruct s'; discriminate H.
  - pose proof (trim_last x t' y Et) as Hy.
    assert (Hyt : isTabOrNewline y = false).
    { destruct (isTabOrNewline y) eqn:E; [|reflexivity]. rewrite (tabnl_c0 y E) in Hy. discriminate. }
    unfold remove_tabnl_sv in H. destruct (remove_tabnl t) as [i ch] eqn:Er.
    assert (Ei : i = filter (fun b => negb (isTabOrNewline b)) t) by (unfold remove_tabnl in Er; injection Er as <- _; reflexivity).
    destruct (ch && negb a && negb (valid_utf8 t)); cbn [fst] in H.
    + (* the scalar-value reading *)
      unfold remove_tabnl in H. cbn [fst] in H. unfold to_valid, encode_runes, runes in H.
      destruct (snoc_or_nil (decode t)) as [Ed|[l [r Ed]]].
      * apply decode_nil_inv in Ed. rewrite Ed in Et. destruct t'; discriminate Et.
      * rewrite Ed, map_app, flat_map_app in H. cbn [map flat_map] in H. rewrite app_nil_r in H.
        destruct (snoc_or_nil (utf8_enc (rv r))) as [En|[e' [z Ez]]]; [exact (utf8_enc_nonempty _ En)|].
        rewrite Ez, app_assoc in H.
        destruct (rv r <? 128) eqn:Er128.
        -- rewrite utf8_enc_ascii in Ez by lia. destruct e' as [|? [|? ?]]; try discriminate Ez. injection Ez as Ez.
           destruct (decode_last_ascii t l r Ed ltac:(lia)) as [t'' Et'']. rewrite Et in Et''.
           apply app_inj_tail in Et''. destruct Et'' as [_ Ey]. subst z. rewrite <- Ey in H.
           pose proof (Hf _ H _ _ eq_refl Hyt) as E32. rewrite E32 in Hy. vm_compute in Hy. discriminate Hy.
        -- pose proof (utf8_enc_high (rv r) ltac:(lia)) as Fh. rewrite Ez in Fh.
           apply Forall_app in Fh. destruct Fh as [_ Fz]. inversion Fz as [|? ? Hz _]; subst.
           assert (Hzt : isTabOrNewline z = false).
           { unfold isTabOrNewline, bs_test, bs_ASCIITabOrNewline, mem. cbn [existsb]. lia. }
           pose proof (Hf _ H _ _ eq_refl Hzt) as E32. lia.
    + rewrite Ei in H. pose proof (Hf _ H _ _ Et Hyt) as E32. rewrite E32 in Hy. vm_compute in Hy. discriminate Hy.
Qed.

Lemma nth_opt_last {A} (l : list A) x : nth_opt (l ++ [x]) (length l) = Some x.
Proof. induction l as [|y l IH]; [reflexivity|]. cbn [app length nth_opt]. exact IH. Qed.

Lemma clean_input_last a x q :
  (q + 1 = n_inp (decode (clean_sv a x)))%Z -> cp_at (decode (clean_sv a x)) q <> 32.
Proof.
  intros Hq Hc. set (i := clean_sv a x) in *.
  destruct (snoc_or_nil (decode i)) as [Ed|[l [r Ed]]].
  - rewrite Ed in Hq. unfold n_inp, len in Hq. cbn [length] in Hq. unfold cp_at in Hc.
    replace (q <? 0)%Z with true in Hc by lia. discriminate Hc.
  - unfold n_inp, len in Hq. rewrite Ed, app_length in Hq. cbn [length] in Hq.
    unfold cp_at in Hc. replace (q <? 0)%Z with false in Hc by lia. rewrite Ed in Hc.
    replace (Z.to_nat q) with (length l) in Hc by lia. rewrite nth_opt_last in Hc.
    destruct (decode_last_ascii i l r Ed ltac:(lia)) as [s' Es]. rewrite Hc in Es.
    exact (clean_sv_no_trailing_space a x s' Es).
Qed.

(* ------------------------------------------------------------------------------------------ *)
(* every parse result is stable                                                                 *)
(* ------------------------------------------------------------------------------------------ *)
Theorem Parse_stable idna_raw c x u :
  cfg_rt c = true -> Parse idna_raw c x = PUrl u -> stable_b c u = true.
Proof.
  intros Hc H. pose proof (cfg_rt_sound c Hc) as R. unfold Parse in H.
  rewrite (BasicParser_factors idna_raw c (R_rep c R) (R_fail c R)) in H. unfold parse_clean in H.
  cbn [option_map] in H.
  destruct (run idna_raw c (decode (clean_sv (c_acceptInvalid c) x)) None None
              (fuel_of (length (decode (clean_sv (c_acceptInvalid c) x))))
              (mk SchemeStart (-1) false [] false false false (empty_url (clean_sv (c_acceptInvalid c) x))))
    as [u'| | | |] eqn:E; try discriminate H.
  cbn [to_pres] in H. injection H as <-.
  apply (run_stable idna_raw c R _ (clean_input_last (c_acceptInvalid c) x) _ _ _ (SI_initial c _ _) eq_refl E).
Qed.

Print Assumptions Parse_stable.
