(* With diagnostics off and no state override: once the state machine of Model/Machine.v has left
   the states SchemeStart / Scheme / NoScheme (and File / Relative / SpecialRelativeOrAuthority, which
   assign the scheme once more), the scheme of the record never changes again.
   Used by Proofs/ResolveProofs.v (relative_keeps_scheme). *)
From Verif Require Import Lib.Base Lib.Utf8 Lib.GoStr Model.Cfg Gen.Tables Model.Sets Model.Percent Model.Url Model.Host Model.Machine Model.Api.
From Verif Require Import Proofs.Cleaning Proofs.PhaseLemmas.
From Coq Require Import Lia ZifyBool ZifyN ZifyNat.

Local Arguments N.mul : simpl never.
Local Arguments N.add : simpl never.
Local Arguments N.sub : simpl never.
Local Arguments N.eqb : simpl never.
Local Arguments N.ltb : simpl never.
Local Arguments N.leb : simpl never.

Ltac fields :=
  cbn [u_input u_scheme u_username u_password u_host u_port u_decodedPort u_path u_opaque u_query u_fragment
       u_verrs u_sp set_input set_scheme set_username set_password set_host set_port set_path set_query
       set_fragment set_verrs set_sp].

(* ------------------------------------------------------------------------------------------ *)
(* 1. the host parser returns the record it was given when validation errors are not recorded   *)
(* ------------------------------------------------------------------------------------------ *)
Section HostFrame.
  Variable idna_raw : str -> str * bool.
  Variable c : cfg.
  Hypothesis Hrep : c_report c = false.

  Definition keeps {A} (u : url) (r : res A) : Prop :=
    match r with Ok u' _ => u' = u | Er _ _ => True end.

  Lemma handleError_url u t f : fst (handleError c u t f) = u.
  Proof. unfold handleError. rewrite Hrep. reflexivity. Qed.

  Lemma herr_keeps {A} u t f (k : url -> res A) : keeps u (k u) -> keeps u (herr c u t f k).
  Proof.
    intros H. unfold herr, handleError. rewrite Hrep. destruct (f || c_fail c); [exact I | exact H].
  Qed.

  Lemma parseIPv4Number_url u input : fst (parseIPv4Number c u input) = u.
  Proof.
    unfold parseIPv4Number. destruct input; [|reflexivity].
    pose proof (handleError_url u IPv4EmptyPart true) as H.
    destruct (handleError c u IPv4EmptyPart true). exact H.
  Qed.

  Lemma endsInANumber_url u input : fst (endsInANumber c u input) = u.
  Proof.
    unfold endsInANumber.
    match goal with |- fst (match last_opt ?P with _ => _ end) = _ => destruct (last_opt P) as [[|x l]|] end;
      try reflexivity.
    destruct (all_in isDigit (x :: l)); [reflexivity|].
    pose proof (parseIPv4Number_url u (x :: l)) as H.
    destruct (parseIPv4Number c u (x :: l)) as [u' [nn ve|rg]]; exact H.
  Qed.

  Lemma ipv4_numbers_keeps : forall parts u acc, keeps u (ipv4_numbers c u parts acc).
  Proof.
    induction parts as [|p parts IH]; intros u acc; cbn [ipv4_numbers]; [reflexivity|].
    pose proof (parseIPv4Number_url u p) as H.
    destruct (parseIPv4Number c u p) as [u1 [nn ve|rg]]; cbn [fst] in H; subst u1.
    - destruct ve; [apply herr_keeps|]; apply IH.
    - apply herr_keeps, IH.
  Qed.

  Lemma range_warn_keeps : forall ns u k, keeps u (k u) -> keeps u (ipv4_range_warn c u ns k).
  Proof.
    induction ns as [|x ns IH]; intros u k H; cbn [ipv4_range_warn]; [exact H|].
    destruct (255 <? x); [apply herr_keeps|]; apply IH, H.
  Qed.

  Ltac kwalk :=
    repeat first
      [ progress cbv beta
      | match goal with
        | |- keeps _ (herr _ _ _ _ _) => apply herr_keeps
        | |- keeps _ (Ok _ _) => reflexivity
        | |- keeps _ (Er _ _) => exact I
        | |- keeps ?u (ipv4_range_warn _ ?u _ _) => apply range_warn_keeps
        | |- keeps ?u (match ipv4_numbers ?cc ?u ?p ?a with _ => _ end) =>
            let H := fresh in
            pose proof (ipv4_numbers_keeps p u a) as H;
            destruct (ipv4_numbers cc u p a); [cbn [keeps] in H; subst | exact I]
        | |- keeps ?u (match endsInANumber ?cc ?u ?a with _ => _ end) =>
            let H := fresh in
            pose proof (endsInANumber_url u a) as H;
            destruct (endsInANumber cc u a) as [? []]; cbn [fst] in H; subst
        | |- keeps _ ((if ?b then _ else _) _) => destruct b
        | |- keeps _ (if ?b then _ else _) => destruct b
        | |- keeps _ (match ?x with _ => _ end) => destruct x
        end ].

  Lemma parseIPv4_keeps u input : keeps u (parseIPv4 c u input).
  Proof. unfold parseIPv4. cbv zeta. kwalk. Qed.

  Lemma parseIPv6_keeps u input : keeps u (parseIPv6 c u input).
  Proof. unfold parseIPv6. kwalk. Qed.

  Lemma opaque_loop_keeps input : forall l u out, keeps u (opaque_loop c u input l out).
  Proof.
    induction l as [|ch l IH]; intros u out; cbn [opaque_loop]; [reflexivity|].
    cbv zeta. kwalk; apply IH.
  Qed.

  Lemma parseHost_keeps u input ns : keeps u (parseHost idna_raw c u input ns).
  Proof.
    unfold parseHost. cbv zeta.
    destruct (apply_hostfun (c_pre c) input) as [|x rest]; [reflexivity|].
    destruct (x =? 91) eqn:E91.
    - assert (x = 91) by lia. subst x. kwalk; apply parseIPv6_keeps.
    - assert (Hx : forall (A : Type) (a b : A),
               match x with 91 => a | _ => b end = b).
      { intros A a b. destruct x as [|q]; [reflexivity|].
        do 7 (destruct q as [q|q|]; try reflexivity). discriminate. }
      rewrite Hx. destruct ns; [apply opaque_loop_keeps|].
      kwalk; try apply parseIPv4_keeps.
  Qed.
End HostFrame.

(* ------------------------------------------------------------------------------------------ *)
(* 2. the machine                                                                               *)
(* ------------------------------------------------------------------------------------------ *)

(* the states from which neither Scheme, Relative nor File can be reached any more *)
Definition late (s : state) : bool :=
  match s with
  | SchemeStart | Scheme | NoScheme | File | Relative | SpecialRelativeOrAuthority => false
  | _ => true
  end.

Lemma cleanDefaultPort_scheme c u : u_scheme (cleanDefaultPort c u) = u_scheme u.
Proof.
  unfold cleanDefaultPort. destruct (getSpecialScheme c (u_scheme u)); [|reflexivity].
  destruct (u_port u); [|reflexivity]. destruct (str_eqb _ _); reflexivity.
Qed.

Section Kept.
  Variable idna_raw : str -> str * bool.
  Variable c : cfg.
  Hypothesis Hrep : c_report c = false.
  Hypothesis Hfail : c_fail c = false.
  Variable inp : list rune.
  Variable base : option url.

  Notation stepf := (step idna_raw c inp base None).
  Notation runf := (run idna_raw c inp base None).

  (* what an iteration guarantees about the scheme *)
  Definition sch_ok (s : str) (o : outcome) : Prop :=
    match o with
    | Cont m' => u_scheme (m_url m') = s /\ (late (m_state m') = true \/ m_eof m' = true)
    | RetUrl u => u_scheme u = s
    | _ => True
    end.

  Ltac swalk :=
    repeat first
      [ progress cbv beta
      | match goal with
        | |- sch_ok _ (mherr _ _ _ true _) => rewrite (mherr_fatal c Hrep); exact I
        | |- sch_ok _ (mherr _ _ _ false _) => rewrite (mherr_quiet c Hrep Hfail)
        | |- sch_ok ?s (match parseHost ?i ?cc ?u ?b ?ns with _ => _ end) =>
            let H := fresh in
            pose proof (parseHost_keeps i cc Hrep u b ns) as H;
            destruct (parseHost i cc u b ns); [cbn [keeps] in H; subst | exact I]
        | |- sch_ok _ ((if ?b then _ else _) _) => destruct b
        | |- sch_ok _ (if ?b then _ else _) => destruct b
        | |- sch_ok _ (match ?x with _ => _ end) => destruct x
        end ].

  Ltac leaf :=
    try exact I;
    cbn [sch_ok mk m_url m_state m_eof late];
    unfold addSegment, copy_base_auth;
    repeat match goal with
           | |- context [if ?b then _ else _] => destruct b
           | |- context [match ?x with _ => _ end] => destruct x
           end;
    rewrite ?cleanDefaultPort_scheme; fields;
    try (split; [first [reflexivity | assumption | symmetry; assumption] | first [left; reflexivity | right; reflexivity]]);
    try reflexivity; try assumption.

  Ltac start :=
    cbv beta iota zeta delta [step mk m_state m_ptr m_eof m_buf m_at m_br m_pw m_url overridden is_some];
    match goal with |- context [(n_inp inp <=? ?q)%Z] => destruct (n_inp inp <=? q)%Z end;
    cbv beta iota; cbn [negb andb orb].

  Lemma late_step st p buf a br pw u :
    late st = true -> sch_ok (u_scheme u) (stepf (mk st p false buf a br pw u)).
  Proof.
    intros Hl. destruct st; try discriminate Hl; clear Hl.
    - (* OpaquePath *) start; swalk; leaf.
    - (* SpecialAuthoritySlashes *) start; swalk; leaf.
    - (* SpecialAuthorityIgnoreSlashes *) start; swalk; leaf.
    - (* PathOrAuthority *) start; swalk; leaf.
    - (* Authority *) start; swalk; leaf.
    - (* HostSt *) start; swalk; leaf.
    - (* HostnameSt *) start; swalk; leaf.
    - (* FileHost *) start; swalk; leaf.
    - (* FileSlash *) start; swalk; leaf.
    - (* PortSt *) start; swalk; leaf.
    - (* PathSt *) start; swalk; leaf.
    - (* PathStart *) start; swalk; leaf.
    - (* QuerySt *) start; swalk; leaf.
    - (* FragmentSt *) start; swalk; leaf.
    - (* RelativeSlash *) start; swalk; leaf.
  Qed.

  (* Relative assigns the base's scheme *)
  Lemma relative_step b p buf a br pw u :
    base = Some b -> sch_ok (u_scheme b) (stepf (mk Relative p false buf a br pw u)).
  Proof. intros Hb. start; rewrite Hb; swalk; leaf. Qed.

  (* File assigns "file" *)
  Lemma file_step p buf a br pw u :
    sch_ok s_file (stepf (mk File p false buf a br pw u)).
  Proof. start; swalk; leaf. Qed.

  (* the loop from a late state returns a record with the scheme it started with *)
  Lemma late_run : forall fuel m u',
    late (m_state m) = true -> m_eof m = false -> runf fuel m = RUrl u' -> u_scheme u' = u_scheme (m_url m).
  Proof.
    induction fuel as [|f IH]; intros m u' Hl He H; [discriminate|].
    destruct m as [st p e buf a br pw u]. cbn [m_state m_eof m_url] in *. subst e.
    pose proof (late_step st p buf a br pw u Hl) as Hs. unfold mk in Hs.
    cbn [run] in H.
    destruct (step _ _ _ _ _ _) as [m'|u1|u1 e1|u1|]; try discriminate; cbn [sch_ok] in Hs.
    - destruct Hs as [Hs1 Hs2]. destruct (m_eof m') eqn:Ee.
      + injection H as <-. exact Hs1.
      + destruct Hs2 as [Hs2|Hs2]; [|discriminate]. rewrite (IH m' u' Hs2 Ee H). exact Hs1.
    - injection H as <-. exact Hs.
  Qed.

  (* the same after one step of an assigning state *)
  Lemma after_assign fuel m u' s :
    sch_ok s (stepf m) -> runf fuel m = RUrl u' -> u_scheme u' = s.
  Proof.
    intros Hs H. destruct fuel as [|f]; [discriminate|]. cbn [run] in H.
    destruct (stepf m) as [m'|u1|u1 e1|u1|]; try discriminate; cbn [sch_ok] in Hs.
    - destruct Hs as [Hs1 Hs2]. destruct (m_eof m') eqn:Ee.
      + injection H as <-. exact Hs1.
      + destruct Hs2 as [Hs2|Hs2]; [|discriminate]. rewrite (late_run f m' u' Hs2 Ee H). exact Hs1.
    - injection H as <-. exact Hs.
  Qed.
End Kept.

Print Assumptions parseHost_keeps.
Print Assumptions late_step.
Print Assumptions late_run.
Print Assumptions after_assign.
