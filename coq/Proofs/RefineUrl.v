(* Target R7 of the refinement "model = spec": the abstraction relation between the Go model's URL
   record (byte strings) and the Standard's URL record (code-point strings), and the proof that the
   model's serializer and its API getters compute the UTF-8 bytes of what the Standard's URL
   serializer (4.5) and API getters (6.1) return. *)
From Verif Require Import Lib.Base Lib.Utf8.
From Verif Require Import Proofs.Utf8Proofs.
From Verif Require Model.Url Spec.IPv4 Spec.IPv6 Spec.Url Spec.Setters.
From Coq Require Import Lia ZifyBool ZifyN ZifyNat.

Module MU := Verif.Model.Url.
Module SU := Verif.Spec.Url.
Module SS := Verif.Spec.Setters.

(* ---------- the bytes of a code-point string ---------- *)

Lemma encode_runes_nil : encode_runes [] = [].
Proof. reflexivity. Qed.

Lemma encode_runes_cons c l : encode_runes (c :: l) = utf8_enc c ++ encode_runes l.
Proof. reflexivity. Qed.

Lemma encode_runes_app a b : encode_runes (a ++ b) = encode_runes a ++ encode_runes b.
Proof. unfold encode_runes. apply flat_map_app. Qed.

Lemma encode_runes_is_nil l : is_nil (encode_runes l) = is_nil l.
Proof.
  destruct l as [|c l]; [reflexivity|].
  rewrite encode_runes_cons.
  destruct (utf8_enc c) as [|b bs'] eqn:E.
  - exfalso. exact (utf8_enc_nonempty c E).
  - reflexivity.
Qed.

Lemma encode_runes_nil_iff l : encode_runes l = [] <-> l = [].
Proof.
  split; intros H.
  - pose proof (encode_runes_is_nil l) as E. rewrite H in E.
    destruct l; [reflexivity|discriminate E].
  - subst l. reflexivity.
Qed.

Lemma encode_runes_ascii_cons c l : c < 128 -> encode_runes (c :: l) = c :: encode_runes l.
Proof. intros H. rewrite encode_runes_cons, (utf8_enc_ascii c H). reflexivity. Qed.

Lemma encode_runes_ascii l : Forall (fun c => c < 128) l -> encode_runes l = l.
Proof.
  induction 1 as [|c l Hc Hl IH]; [reflexivity|].
  rewrite (encode_runes_ascii_cons c l Hc), IH. reflexivity.
Qed.

Lemma encode_runes_flat_map_seg segs :
  encode_runes (flat_map (fun seg => 47 :: seg) segs) = flat_map (fun s => 47 :: s) (map encode_runes segs).
Proof.
  induction segs as [|a segs IH]; [reflexivity|].
  cbn [flat_map map].
  rewrite encode_runes_app, IH.
  rewrite (encode_runes_ascii_cons 47 a) by lia.
  reflexivity.
Qed.

(* ---------- the abstraction relation ---------- *)

Record R (u : MU.url) (su : SU.surl) : Prop := mkR {
  R_scheme : MU.u_scheme u = encode_runes (SU.u_scheme su);
  R_username : MU.u_username u = encode_runes (SU.u_username su);
  R_password : MU.u_password u = encode_runes (SU.u_password su);
  R_host : MU.u_host u = option_map (fun h => encode_runes (SU.host_serialize h)) (SU.u_host su);
  R_port : MU.u_port u = option_map (fun p => encode_runes (SU.serialize_integer p)) (SU.u_port su);
  R_path : match SU.u_path su with
           | SU.POpaque s => MU.u_opaque u = true /\ MU.u_path u = [encode_runes s]
           | SU.PList segs => MU.u_opaque u = false /\ MU.u_path u = map encode_runes segs
           end;
  R_query : MU.u_query u = option_map encode_runes (SU.u_query su);
  R_fragment : MU.u_fragment u = option_map encode_runes (SU.u_fragment su)
}.

(* the same relation as a plain conjunction *)
Definition R_conj (u : MU.url) (su : SU.surl) : Prop :=
  MU.u_scheme u = encode_runes (SU.u_scheme su) /\
  MU.u_username u = encode_runes (SU.u_username su) /\
  MU.u_password u = encode_runes (SU.u_password su) /\
  MU.u_host u = option_map (fun h => encode_runes (SU.host_serialize h)) (SU.u_host su) /\
  MU.u_port u = option_map (fun p => encode_runes (SU.serialize_integer p)) (SU.u_port su) /\
  match SU.u_path su with
  | SU.POpaque s => MU.u_opaque u = true /\ MU.u_path u = [encode_runes s]
  | SU.PList segs => MU.u_opaque u = false /\ MU.u_path u = map encode_runes segs
  end /\
  MU.u_query u = option_map encode_runes (SU.u_query su) /\
  MU.u_fragment u = option_map encode_runes (SU.u_fragment su).

Lemma R_iff_conj u su : R u su <-> R_conj u su.
Proof.
  split.
  - intros [H1 H2 H3 H4 H5 H6 H7 H8]. unfold R_conj. repeat split; assumption.
  - intros (H1 & H2 & H3 & H4 & H5 & H6 & H7 & H8). constructor; assumption.
Qed.

(* path projections *)
Lemma R_path_opaque u su s :
  R u su -> SU.u_path su = SU.POpaque s -> MU.u_opaque u = true /\ MU.u_path u = [encode_runes s].
Proof. intros HR E. pose proof (R_path u su HR) as P. rewrite E in P. exact P. Qed.

Lemma R_path_list u su segs :
  R u su -> SU.u_path su = SU.PList segs -> MU.u_opaque u = false /\ MU.u_path u = map encode_runes segs.
Proof. intros HR E. pose proof (R_path u su HR) as P. rewrite E in P. exact P. Qed.

Lemma R_opaque u su : R u su -> MU.u_opaque u = SU.has_opaque_path su.
Proof.
  intros HR. pose proof (R_path u su HR) as P. unfold SU.has_opaque_path.
  destruct (SU.u_path su); destruct P as [P _]; exact P.
Qed.

(* the unconstrained fields really are unconstrained *)
Lemma R_irrelevant u su inp dp ve sp :
  R u su ->
  R (MU.Build_url inp (MU.u_scheme u) (MU.u_username u) (MU.u_password u) (MU.u_host u) (MU.u_port u) dp
       (MU.u_path u) (MU.u_opaque u) (MU.u_query u) (MU.u_fragment u) ve sp) su.
Proof. intros [H1 H2 H3 H4 H5 H6 H7 H8]. constructor; assumption. Qed.

(* ---------- getters ---------- *)

Theorem R_protocol u su : R u su -> MU.Protocol u = encode_runes (SS.get_protocol su).
Proof.
  intros HR. unfold MU.Protocol, SS.get_protocol.
  rewrite encode_runes_app, (R_scheme u su HR). reflexivity.
Qed.

Theorem R_get_username u su : R u su -> MU.Username u = encode_runes (SS.get_username su).
Proof. intros HR. exact (R_username u su HR). Qed.

Theorem R_get_password u su : R u su -> MU.Password u = encode_runes (SS.get_password su).
Proof. intros HR. exact (R_password u su HR). Qed.

Theorem R_hostname u su : R u su -> MU.Hostname u = encode_runes (SS.get_hostname su).
Proof.
  intros HR. unfold MU.Hostname, SS.get_hostname. rewrite (R_host u su HR).
  destruct (SU.u_host su); reflexivity.
Qed.

Theorem R_get_port u su : R u su -> MU.Port u = encode_runes (SS.get_port su).
Proof.
  intros HR. unfold MU.Port, SS.get_port. rewrite (R_port u su HR).
  destruct (SU.u_port su); reflexivity.
Qed.

Theorem R_get_host u su : R u su -> MU.Host u = encode_runes (SS.get_host su).
Proof.
  intros HR. unfold MU.Host, SS.get_host. rewrite (R_host u su HR), (R_port u su HR).
  destruct (SU.u_host su) as [h|]; [|reflexivity].
  destruct (SU.u_port su) as [p|]; cbn [option_map]; [|reflexivity].
  rewrite !encode_runes_app. reflexivity.
Qed.

Theorem R_pathname u su : R u su -> MU.Pathname u = Some (encode_runes (SS.get_pathname su)).
Proof.
  intros HR. unfold MU.Pathname, MU.path_string, SS.get_pathname, SU.path_serialize.
  pose proof (R_path u su HR) as P.
  destruct (SU.u_path su) as [s|segs]; destruct P as [Po Pp]; rewrite Po, Pp.
  - reflexivity.
  - rewrite encode_runes_flat_map_seg. reflexivity.
Qed.

Lemma search_like (k : N) (o : option (list N)) : k < 128 ->
  match option_map encode_runes o with Some (c :: q) => k :: c :: q | _ => [] end
  = encode_runes (match o with None => [] | Some [] => [] | Some q => k :: q end).
Proof.
  intros Hk. destruct o as [q|]; [|reflexivity]. cbn [option_map].
  destruct q as [|c q]; [reflexivity|].
  rewrite (encode_runes_ascii_cons k (c :: q) Hk).
  destruct (encode_runes (c :: q)) as [|b r] eqn:E; [|reflexivity].
  apply (proj1 (encode_runes_nil_iff _)) in E. discriminate E.
Qed.

Theorem R_search u su : R u su -> MU.Search u = encode_runes (SS.get_search su).
Proof.
  intros HR. unfold MU.Search, SS.get_search. rewrite (R_query u su HR).
  apply search_like. lia.
Qed.

Theorem R_hash u su : R u su -> MU.Hash u = encode_runes (SS.get_hash su).
Proof.
  intros HR. unfold MU.Hash, SS.get_hash. rewrite (R_fragment u su HR).
  apply search_like. lia.
Qed.

(* ---------- the serializer ---------- *)

(* the Standard's serializer (which threads an accumulator "output") as one right-nested concatenation *)
Definition authority_part (su : SU.surl) : list N :=
  match SU.u_host su with
  | Some h =>
      [47; 47] ++
      (if SU.includes_credentials su
       then SU.u_username su ++ (if negb (is_nil (SU.u_password su)) then 58 :: SU.u_password su else []) ++ [64]
       else []) ++
      SU.host_serialize h ++
      (match SU.u_port su with Some p => 58 :: SU.serialize_integer p | None => [] end)
  | None =>
      match SU.u_path su with
      | SU.PList (first :: _ :: _) => if is_nil first then [47; 46] else []
      | _ => []
      end
  end.

Lemma url_serialize_flat su b :
  SU.url_serialize su b =
  SU.u_scheme su ++ [58] ++ authority_part su ++ SU.path_serialize su ++
  (match SU.u_query su with Some q => 63 :: q | None => [] end) ++
  (if b then [] else match SU.u_fragment su with Some f => 35 :: f | None => [] end).
Proof.
  unfold SU.url_serialize, authority_part.
  destruct (SU.u_host su) as [h|].
  - destruct (SU.includes_credentials su); destruct (SU.u_port su) as [p|];
      destruct (SU.u_query su) as [q|]; destruct b; try destruct (SU.u_fragment su) as [f|];
      repeat rewrite <- app_assoc; cbn [app]; rewrite ?app_nil_r; reflexivity.
  - destruct (SU.u_path su) as [s|[|first [|second rest]]];
      try destruct (is_nil first);
      destruct (SU.u_query su) as [q|]; destruct b; try destruct (SU.u_fragment su) as [f|];
      repeat rewrite <- app_assoc; cbn [app]; rewrite ?app_nil_r; reflexivity.
Qed.

Lemma R_includes_credentials u su : R u su ->
  negb (is_nil (MU.u_username u)) || negb (is_nil (MU.u_password u)) = SU.includes_credentials su.
Proof.
  intros HR. unfold SU.includes_credentials.
  rewrite (R_username u su HR), (R_password u su HR), !encode_runes_is_nil. reflexivity.
Qed.

Lemma len_cons2_gt1 {A} (x y : A) l : (1 <? len (x :: y :: l))%Z = true.
Proof. unfold len. cbn [length]. apply Z.ltb_lt. lia. Qed.

Lemma R_authority u su : R u su ->
  match MU.u_host u with
  | Some h =>
      [47; 47] ++
      (if negb (is_nil (MU.u_username u)) || negb (is_nil (MU.u_password u))
       then MU.u_username u ++ (if negb (is_nil (MU.u_password u)) then 58 :: MU.u_password u else []) ++ [64]
       else []) ++
      h ++ (match MU.u_port u with Some p => 58 :: p | None => [] end)
  | None =>
      if negb (MU.u_opaque u) && (1 <? len (MU.u_path u))%Z
         && match MU.u_path u with x :: _ => is_nil x | [] => false end
      then [47; 46] else []
  end = encode_runes (authority_part su).
Proof.
  intros HR. unfold authority_part.
  rewrite (R_includes_credentials u su HR).
  rewrite (R_host u su HR).
  destruct (SU.u_host su) as [h|]; cbn [option_map].
  - rewrite (R_port u su HR), (R_username u su HR), (R_password u su HR), encode_runes_is_nil.
    rewrite !encode_runes_app.
    f_equal.
    f_equal.
    + destruct (SU.includes_credentials su); [|reflexivity].
      rewrite !encode_runes_app. f_equal.
      f_equal.
      destruct (negb (is_nil (SU.u_password su))); [|reflexivity].
      rewrite (encode_runes_ascii_cons 58) by lia. reflexivity.
    + f_equal.
      destruct (SU.u_port su) as [p|]; cbn [option_map]; [|reflexivity].
      rewrite (encode_runes_ascii_cons 58) by lia. reflexivity.
  - pose proof (R_path u su HR) as P.
    destruct (SU.u_path su) as [s|segs]; destruct P as [Po Pp]; rewrite Po, Pp.
    + reflexivity.
    + cbn [negb andb].
      destruct segs as [|first [|second rest]]; cbn [map].
      * reflexivity.
      * reflexivity.
      * rewrite len_cons2_gt1. cbn [andb]. rewrite encode_runes_is_nil.
        destruct (is_nil first); reflexivity.
Qed.

Theorem R_href : forall u su b, R u su -> MU.Href u b = Some (encode_runes (SU.url_serialize su b)).
Proof.
  intros u su b HR. unfold MU.Href.
  rewrite (R_pathname u su HR). unfold SS.get_pathname.
  rewrite (R_authority u su HR).
  rewrite url_serialize_flat.
  rewrite !encode_runes_app.
  rewrite (R_scheme u su HR), (R_query u su HR), (R_fragment u su HR).
  f_equal. f_equal. f_equal. f_equal. f_equal.
  f_equal.
  - destruct (SU.u_query su) as [q|]; cbn [option_map]; [|reflexivity].
    rewrite (encode_runes_ascii_cons 63) by lia. reflexivity.
  - destruct b; [reflexivity|].
    destruct (SU.u_fragment su) as [f|]; cbn [option_map]; [|reflexivity].
    rewrite (encode_runes_ascii_cons 35) by lia. reflexivity.
Qed.
Print Assumptions R_href.

Theorem R_get_href u su : R u su -> MU.Href u false = Some (encode_runes (SS.get_href su)).
Proof. intros HR. unfold SS.get_href. apply R_href. exact HR. Qed.

(* the model's Href never panics on a related record *)
Corollary R_href_total u su b : R u su -> MU.Href u b <> None.
Proof. intros HR. rewrite (R_href u su b HR). discriminate. Qed.

(* ---------- all ten observables at once ---------- *)

(* the ten model getters, in the order of Spec.Setters.observe; None = the Go getter panics *)
Definition model_observe (u : MU.url) : list (option str) :=
  [MU.Href u false; Some (MU.Protocol u); Some (MU.Username u); Some (MU.Password u); Some (MU.Host u);
   Some (MU.Hostname u); Some (MU.Port u); MU.Pathname u; Some (MU.Search u); Some (MU.Hash u)].

Theorem R_observe u su : R u su ->
  model_observe u = map (fun s => Some (encode_runes s)) (SS.observe su).
Proof.
  intros HR. unfold model_observe, SS.observe. cbn [map].
  rewrite (R_get_href u su HR), (R_protocol u su HR), (R_get_username u su HR), (R_get_password u su HR),
    (R_get_host u su HR), (R_hostname u su HR), (R_get_port u su HR), (R_pathname u su HR),
    (R_search u su HR), (R_hash u su HR).
  reflexivity.
Qed.

Print Assumptions R_protocol.
Print Assumptions R_get_username.
Print Assumptions R_get_password.
Print Assumptions R_get_host.
Print Assumptions R_hostname.
Print Assumptions R_get_port.
Print Assumptions R_pathname.
Print Assumptions R_search.
Print Assumptions R_hash.
Print Assumptions R_get_href.
Print Assumptions R_observe.

(* ---------- the relation is inhabited by non-trivial pairs ---------- *)
From Coq Require Import String.
Local Open Scope string_scope.

(* https://user:pw@[2001:db8::1]:8443/a/b%20c?q=1#frag *)
Definition ex_su1 : SU.surl :=
  SU.mkSUrl (bs "https") (bs "user") (bs "pw")
    (Some (SU.HIPv6 [8193; 3512; 0; 0; 0; 0; 0; 1])) (Some 8443)
    (SU.PList [bs "a"; bs "b%20c"]) (Some (bs "q=1")) (Some (bs "frag")).
Definition ex_u1 : MU.url :=
  MU.Build_url (bs "HTTPS://user:pw@[2001:DB8:0::1]:8443/a/b c?q=1#frag")
    (bs "https") (bs "user") (bs "pw") (Some (bs "[2001:db8::1]")) (Some (bs "8443")) 8443
    [bs "a"; bs "b%20c"] false (Some (bs "q=1")) (Some (bs "frag")) [] None.

Example R_ex1 : R ex_u1 ex_su1.
Proof. constructor; vm_compute; repeat split; reflexivity. Qed.

Example R_ex1_href :
  MU.Href ex_u1 false = Some (bs "https://user:pw@[2001:db8::1]:8443/a/b%20c?q=1#frag")
  /\ encode_runes (SS.get_href ex_su1) = bs "https://user:pw@[2001:db8::1]:8443/a/b%20c?q=1#frag".
Proof. split; vm_compute; reflexivity. Qed.

(* a domain host, no port, and non-ASCII code points in the fragment (U+00E9, U+20AC), to exercise
   multi-byte UTF-8. The Standard's parser would percent-encode these code points, so it never
   produces this record; R and the theorems above hold for it all the same. *)
Definition ex_su2 : SU.surl :=
  SU.mkSUrl (bs "http") [] [] (Some (SU.HDomain (bs "example.org"))) None
    (SU.PList [[]]) None (Some [233; 8364]).
Definition ex_u2 : MU.url :=
  MU.Build_url [] (bs "http") [] [] (Some (bs "example.org")) None 0
    [[]] false None (Some [195; 169; 226; 130; 172]) [] None.

Example R_ex2 : R ex_u2 ex_su2.
Proof. constructor; vm_compute; repeat split; reflexivity. Qed.

(* opaque path: mailto:a@b.c?subject=x *)
Definition ex_su3 : SU.surl :=
  SU.mkSUrl (bs "mailto") [] [] None None (SU.POpaque (bs "a@b.c")) (Some (bs "subject=x")) None.
Definition ex_u3 : MU.url :=
  MU.Build_url (bs "mailto:a@b.c?subject=x") (bs "mailto") [] [] None None 0
    [bs "a@b.c"] true (Some (bs "subject=x")) None [] None.

Example R_ex3 : R ex_u3 ex_su3.
Proof. constructor; vm_compute; repeat split; reflexivity. Qed.

(* null host, list path whose first segment is empty: the "/." case of the serializer.  web+x:/.//p *)
Definition ex_su4 : SU.surl :=
  SU.mkSUrl (bs "web+x") [] [] None None (SU.PList [[]; bs "p"]) None None.
Definition ex_u4 : MU.url :=
  MU.Build_url [] (bs "web+x") [] [] None None 0 [[]; bs "p"] false None None [] None.

Example R_ex4 : R ex_u4 ex_su4.
Proof. constructor; vm_compute; repeat split; reflexivity. Qed.

Example R_ex4_href : MU.Href ex_u4 false = Some (bs "web+x:/.//p").
Proof. vm_compute. reflexivity. Qed.

(* IPv4 host with a port: http://192.168.0.1:8080/ *)
Definition ex_su5 : SU.surl :=
  SU.mkSUrl (bs "http") [] [] (Some (SU.HIPv4 3232235521)) (Some 8080) (SU.PList [[]]) None None.
Definition ex_u5 : MU.url :=
  MU.Build_url [] (bs "http") [] [] (Some (bs "192.168.0.1")) (Some (bs "8080")) 8080 [[]] false None None [] None.

Example R_ex5 : R ex_u5 ex_su5.
Proof. constructor; vm_compute; repeat split; reflexivity. Qed.

(* the model panics (Href = None) exactly on records that are related to no Standard record:
   an opaque path with an empty segment slice *)
Definition ex_u_bad : MU.url :=
  MU.Build_url [] (bs "x") [] [] None None 0 [] true None None [] None.

Example no_R_for_panicking_record : MU.Href ex_u_bad false = None /\ forall su, ~ R ex_u_bad su.
Proof.
  split; [reflexivity|].
  intros su HR. apply (R_href_total ex_u_bad su false HR). reflexivity.
Qed.
