(* Component refinements "model = spec", part 1: the standard configuration, the percent codec.
   R1  percent-encoding of one code point / of a string (model bytes = bytes of the spec's code points)
   R2  percent-decoding (byte sequence -> byte sequence) *)
From Verif Require Import Lib.Base Lib.Utf8 Lib.GoStr Model.Cfg Gen.Tables Gen.Options Model.Sets Model.Percent
     Model.Url.
From Verif Require Import Spec.PercentSets Spec.PercentCodec.
From Verif Require Import Proofs.Utf8Proofs Proofs.SetsProofs.
From Coq Require Import Lia ZifyBool ZifyN ZifyNat.
Ltac Zify.zify_post_hook ::= Z.div_mod_to_equations.

(* ================================================================== *)
(* The configuration under which the model is compared with the standard *)
(* ================================================================== *)

(* the special-scheme table of the default parser: scheme -> default port (as a decimal string) *)
Definition std_special : list (str * str) :=
  [([102;105;108;101], []); ([102;116;112], [50;49]); ([104;116;116;112], [56;48]);
   ([104;116;116;112;115], [52;52;51]); ([119;115], [56;48]); ([119;115;115], [52;52;51])].

Record std_cfg (c : cfg) : Prop := {
  std_fail : c_fail c = false;            (* forced by the proofs: with failOnValidationError the model fails
                                             on every validation error, the standard never does *)
  std_lax : c_lax c = false;
  std_collapse : c_collapse c = false;
  std_acceptInvalid : c_acceptInvalid c = false;
  std_pre : c_pre c = HF_none;
  std_post : c_post c = HF_none;
  std_singlePct : c_singlePct c = false;
  std_skipDrive : c_skipDrive c = false;
  std_special_tab : c_special c = std_special;
  std_skipTrailSlash : c_skipTrailSlash c = false;
  std_latin1 : c_latin1 c = false;
  std_pathSet : c_pathSet c = pes_Path;
  std_squerySet : c_squerySet c = pes_SpecialQuery;
  std_querySet : c_querySet c = pes_Query;
  std_sfragSet : c_sfragSet c = pes_Fragment;
  std_fragSet : c_fragSet c = pes_Fragment
}.

Example std_cfg_default : std_cfg default_cfg.
Proof. constructor; reflexivity. Qed.

(* reporting of validation errors is irrelevant: the configuration that reports is standard too *)
Example std_cfg_report : std_cfg opt_WithReportValidationErrors.
Proof. constructor; reflexivity. Qed.

(* ================================================================== *)
(* bytes of code-point strings                                          *)
(* ================================================================== *)

Definition ascii (s : list N) : Prop := Forall (fun b => b < 128) s.

Lemma enc_runes_app a b : encode_runes (a ++ b) = encode_runes a ++ encode_runes b.
Proof. unfold encode_runes. apply flat_map_app. Qed.

Lemma enc_runes_ascii l : ascii l -> encode_runes l = l.
Proof.
  induction 1 as [|x l Hx Hl IH]; [reflexivity|].
  unfold encode_runes in *. cbn [flat_map]. rewrite IH, utf8_enc_ascii by exact Hx. reflexivity.
Qed.

Lemma enc_runes_cons_ascii x l : x < 128 -> encode_runes (x :: l) = x :: encode_runes l.
Proof. intros H. unfold encode_runes. cbn [flat_map]. rewrite utf8_enc_ascii by exact H. reflexivity. Qed.

Lemma flat_map_ascii {A} (f : A -> list N) l : (forall x, ascii (f x)) -> ascii (flat_map f l).
Proof.
  intros H. induction l as [|x l IH]; [constructor|]. cbn [flat_map]. apply Forall_app. split; [apply H|exact IH].
Qed.

(* ================================================================== *)
(* R1: percent-encoding                                                 *)
(* ================================================================== *)

Lemma pct_byte_spec b : pct_byte b = percent_encode_byte b.
Proof. reflexivity. Qed.

Lemma hex_upper_ascii n : n < 16 -> hex_upper n < 128.
Proof. intros H. unfold hex_upper. destruct (n <? 10) eqn:E; lia. Qed.

Lemma pct_byte_ascii b : b < 256 -> ascii (pct_byte b).
Proof.
  intros H. unfold pct_byte. repeat constructor; try lia; apply hex_upper_ascii; lia.
Qed.

Lemma pct_bytes_ascii r : ascii (flat_map pct_byte (utf8_enc r)).
Proof.
  pose proof (utf8_enc_bytes r) as B. induction B as [|b l Hb Hl IH]; [constructor|].
  cbn [flat_map]. apply Forall_app. split; [apply pct_byte_ascii; exact Hb|exact IH].
Qed.

Section R1.
  Variable c : cfg.
  Hypothesis Hl1 : c_latin1 c = false.
  Variable t : peset.
  Variable inset : N -> bool.
  Hypothesis Hset : forall r, RuneShouldBeEncoded t r = inset r.

  Lemma inset_high b : 128 <= b -> inset b = true.
  Proof.
    intros H. rewrite <- Hset. unfold RuneShouldBeEncoded.
    replace (126 <? b) with true by lia. rewrite orb_true_r. reflexivity.
  Qed.

  Lemma encode_bytes_cons b l :
    encode_bytes inset false (b :: l) = (if inset b then pct_byte b else [b]) ++ encode_bytes inset false l.
  Proof. reflexivity. Qed.

  Lemma encode_bytes_high l : Forall (fun b => 128 <= b) l ->
    encode_bytes inset false l = flat_map pct_byte l.
  Proof.
    induction 1 as [|b l Hb Hl IH]; [reflexivity|].
    rewrite encode_bytes_cons, IH, (inset_high b Hb). reflexivity.
  Qed.

  (* the code points the standard emits for one code point are ASCII, and their bytes are what the model emits *)
  Theorem percentEncodeRune_spec r :
    percentEncodeRune c r (Some t) = utf8_percent_encode_cp inset r.
  Proof.
    unfold percentEncodeRune, utf8_percent_encode_cp, percent_encode_after_utf8, utf8_encode.
    rewrite Hl1, Hset. cbn [flat_map]. rewrite app_nil_r.
    destruct (N.lt_ge_cases r 128) as [Hlt|Hge].
    - rewrite utf8_enc_ascii by exact Hlt. rewrite encode_bytes_cons. cbn [flat_map].
      destruct (inset r); reflexivity.
    - rewrite (inset_high r Hge). rewrite encode_bytes_high by (apply utf8_enc_high; exact Hge). reflexivity.
  Qed.

  Lemma utf8_percent_encode_cp_ascii r : ascii (utf8_percent_encode_cp inset r).
  Proof.
    rewrite <- percentEncodeRune_spec. unfold percentEncodeRune. rewrite Hl1.
    destruct (RuneShouldBeEncoded t r) eqn:E; [apply pct_bytes_ascii|].
    assert (r < 128). { unfold RuneShouldBeEncoded in E. lia. }
    rewrite utf8_enc_ascii by assumption. repeat constructor. assumption.
  Qed.

  Theorem R1_rune r :
    percentEncodeRune c r (Some t) = encode_runes (utf8_percent_encode_cp inset r).
  Proof.
    rewrite enc_runes_ascii by apply utf8_percent_encode_cp_ascii. apply percentEncodeRune_spec.
  Qed.

  (* the string version of the standard is the concatenation of the code-point versions *)
  Lemma utf8_percent_encode_flat l :
    utf8_percent_encode inset l = flat_map (utf8_percent_encode_cp inset) l.
  Proof.
    unfold utf8_percent_encode, utf8_percent_encode_cp, percent_encode_after_utf8, utf8_encode, encode_bytes.
    induction l as [|x l IH]; [reflexivity|].
    cbn [flat_map]. rewrite flat_map_app, IH, app_nil_r. reflexivity.
  Qed.

  Lemma utf8_percent_encode_app a b :
    utf8_percent_encode inset (a ++ b) = utf8_percent_encode inset a ++ utf8_percent_encode inset b.
  Proof. rewrite !utf8_percent_encode_flat. apply flat_map_app. Qed.

  Lemma utf8_percent_encode_ascii l : ascii (utf8_percent_encode inset l).
  Proof. rewrite utf8_percent_encode_flat. apply flat_map_ascii. apply utf8_percent_encode_cp_ascii. Qed.

  Hypothesis Hsp : c_singlePct c = false.

  Lemma pes_loop_spec l : pes_loop c t l = utf8_percent_encode inset l.
  Proof.
    rewrite utf8_percent_encode_flat.
    induction l as [|r l IH]; [reflexivity|].
    cbn [pes_loop flat_map]. rewrite Hsp, andb_false_r, IH, percentEncodeRune_spec. reflexivity.
  Qed.

  Theorem R1_string s :
    PercentEncodeString c s t = encode_runes (utf8_percent_encode inset (runes s)).
  Proof.
    rewrite enc_runes_ascii by apply utf8_percent_encode_ascii.
    unfold PercentEncodeString. apply pes_loop_spec.
  Qed.

  (* with the option off, the "invalid rune" variant is the plain one *)
  Lemma percentEncodeInvalidRune_plain r : percentEncodeInvalidRune c r t = percentEncodeRune c r (Some t).
  Proof. unfold percentEncodeInvalidRune. rewrite Hsp. reflexivity. Qed.
End R1.

(* the six instances *)
Section R1_instances.
  Variable c : cfg.
  Hypothesis Hstd : std_cfg c.
  Let Hl1 := std_latin1 c Hstd.
  Let Hsp := std_singlePct c Hstd.

  Theorem R1_path r : percentEncodeRune c r (Some (c_pathSet c)) = encode_runes (utf8_percent_encode_cp in_path_set r).
  Proof. rewrite (std_pathSet c Hstd). apply R1_rune; [exact Hl1|exact sets_path]. Qed.
  Theorem R1_query r : percentEncodeRune c r (Some (c_querySet c)) = encode_runes (utf8_percent_encode_cp in_query_set r).
  Proof. rewrite (std_querySet c Hstd). apply R1_rune; [exact Hl1|exact sets_query]. Qed.
  Theorem R1_special_query r :
    percentEncodeRune c r (Some (c_squerySet c)) = encode_runes (utf8_percent_encode_cp in_special_query_set r).
  Proof. rewrite (std_squerySet c Hstd). apply R1_rune; [exact Hl1|exact sets_special_query]. Qed.
  Theorem R1_fragment r : percentEncodeRune c r (Some (c_fragSet c)) = encode_runes (utf8_percent_encode_cp in_fragment_set r).
  Proof. rewrite (std_fragSet c Hstd). apply R1_rune; [exact Hl1|exact sets_fragment]. Qed.
  Theorem R1_special_fragment r :
    percentEncodeRune c r (Some (c_sfragSet c)) = encode_runes (utf8_percent_encode_cp in_fragment_set r).
  Proof. rewrite (std_sfragSet c Hstd). apply R1_rune; [exact Hl1|exact sets_fragment]. Qed.
  Theorem R1_userinfo r : percentEncodeRune c r (Some pes_UserInfo) = encode_runes (utf8_percent_encode_cp in_userinfo_set r).
  Proof. apply R1_rune; [exact Hl1|exact sets_userinfo]. Qed.
  Theorem R1_C0 r : percentEncodeRune c r (Some pes_C0) = encode_runes (utf8_percent_encode_cp in_c0_control_set r).
  Proof. apply R1_rune; [exact Hl1|exact sets_C0]. Qed.

  Theorem R1_string_userinfo s :
    PercentEncodeString c s pes_UserInfo = encode_runes (utf8_percent_encode in_userinfo_set (runes s)).
  Proof. apply R1_string; [exact Hl1|exact sets_userinfo|exact Hsp]. Qed.
  Theorem R1_string_path s :
    PercentEncodeString c s pes_Path = encode_runes (utf8_percent_encode in_path_set (runes s)).
  Proof. apply R1_string; [exact Hl1|exact sets_path|exact Hsp]. Qed.
  Theorem R1_string_query s :
    PercentEncodeString c s pes_Query = encode_runes (utf8_percent_encode in_query_set (runes s)).
  Proof. apply R1_string; [exact Hl1|exact sets_query|exact Hsp]. Qed.
  Theorem R1_string_special_query s :
    PercentEncodeString c s pes_SpecialQuery = encode_runes (utf8_percent_encode in_special_query_set (runes s)).
  Proof. apply R1_string; [exact Hl1|exact sets_special_query|exact Hsp]. Qed.
  Theorem R1_string_fragment s :
    PercentEncodeString c s pes_Fragment = encode_runes (utf8_percent_encode in_fragment_set (runes s)).
  Proof. apply R1_string; [exact Hl1|exact sets_fragment|exact Hsp]. Qed.
  Theorem R1_string_C0 s :
    PercentEncodeString c s pes_C0 = encode_runes (utf8_percent_encode in_c0_control_set (runes s)).
  Proof. apply R1_string; [exact Hl1|exact sets_C0|exact Hsp]. Qed.
End R1_instances.

Print Assumptions R1_rune.
Print Assumptions R1_string.
Print Assumptions R1_path.
Print Assumptions R1_string_userinfo.

Example R1_ex :
  percentEncodeRune default_cfg 233 (Some pes_Path) = [37;67;51;37;65;57] /\
  utf8_percent_encode_cp in_path_set 233 = [37;67;51;37;65;57] /\
  percentEncodeRune default_cfg 55296 (Some pes_Path) = encode_runes (utf8_percent_encode_cp in_path_set 55296) /\
  PercentEncodeString default_cfg [97;255;32;240;159;152;9;128;37] pes_Path
   = encode_runes (utf8_percent_encode in_path_set (runes [97;255;32;240;159;152;9;128;37])).
Proof. vm_compute. repeat split; reflexivity. Qed.

(* the two hypotheses are needed *)
Lemma R1_latin1_refuted : exists c r,
  percentEncodeRune c r (Some pes_Path) <> encode_runes (utf8_percent_encode_cp in_path_set r).
Proof. exists opt_WithEncodingOverride, 233. vm_compute. discriminate. Qed.

Lemma R1_singlePct_refuted : exists c s,
  c_latin1 c = false /\
  PercentEncodeString c s pes_Path <> encode_runes (utf8_percent_encode in_path_set (runes s)).
Proof. exists opt_WithPercentEncodeSinglePercentSign, [37; 122]. split; [reflexivity|]. vm_compute. discriminate. Qed.

(* ================================================================== *)
(* R2: percent-decoding                                                 *)
(* ================================================================== *)

Lemma hex_val_spec h : ascii_hex_digit h = true -> hex_val h = hex_digit_value h.
Proof.
  unfold ascii_hex_digit, ascii_upper_hex, ascii_digit, hex_val, hex_digit_value, is_digit, ascii_digit.
  intros H.
  destruct ((48 <=? h) && (h <=? 57)) eqn:E1; [reflexivity|].
  destruct ((65 <=? h) && (h <=? 70)) eqn:E2; [reflexivity|].
  destruct ((97 <=? h) && (h <=? 102)) eqn:E3; [reflexivity|].
  cbn in H. discriminate.
Qed.

Theorem R2_decode c s : c_latin1 c = false -> DecodePercentEncoded c s = percent_decode s.
Proof.
  intros Hl1. induction s as [s IH] using list_len_ind.
  destruct s as [|b s']; [reflexivity|].
  cbn [DecodePercentEncoded percent_decode].
  assert (IH1 : DecodePercentEncoded c s' = percent_decode s') by (apply IH; cbn [length]; lia).
  destruct (b =? 37) eqn:Eb; cbn [negb]; [|rewrite IH1; reflexivity].
  destruct s' as [|h [|l s'']]; try (rewrite IH1; reflexivity).
  rewrite !hex_table.
  destruct (ascii_hex_digit h) eqn:Eh; cbn [andb]; [|rewrite IH1; reflexivity].
  destruct (ascii_hex_digit l) eqn:El; [|rewrite IH1; reflexivity].
  rewrite Hl1, (hex_val_spec h Eh), (hex_val_spec l El).
  cbn [app]. f_equal. apply IH. cbn [length]. lia.
Qed.
Print Assumptions R2_decode.

Corollary R2_decode_std c s : std_cfg c -> DecodePercentEncoded c s = percent_decode s.
Proof. intros H. apply R2_decode. exact (std_latin1 c H). Qed.

Example R2_ex :
  DecodePercentEncoded default_cfg [37;52;49;37;37;52;37;122;122;37;101;57;255;37] = [65;37;37;52;37;122;122;233;255;37] /\
  percent_decode [37;52;49;37;37;52;37;122;122;37;101;57;255;37] = [65;37;37;52;37;122;122;233;255;37].
Proof. vm_compute. split; reflexivity. Qed.

Lemma R2_latin1_refuted : exists c s, DecodePercentEncoded c s <> percent_decode s.
Proof. exists opt_WithEncodingOverride, [37;101;57]. vm_compute. discriminate. Qed.
