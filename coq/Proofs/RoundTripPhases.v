(* Round trip, part 1 (S1): phase lemmas of the state machine on serializer output.
   All statements are about [step]/[run] with diagnostics off, no base and no state override. *)
From Verif Require Import Lib.Base Lib.Utf8 Lib.GoStr Model.Cfg Gen.Tables Gen.Options Model.Sets Model.Percent
  Model.Url Model.Host Model.Machine Model.Api Model.Preds.
From Verif Require Import Proofs.SetsProofs Proofs.Cleaning Proofs.PhaseLemmas Proofs.RecordInv Proofs.RoundTripBase.
From Verif Require Proofs.Utf8Proofs.
From Coq Require Import Lia ZifyBool ZifyN ZifyNat.

Local Arguments N.mul : simpl never.
Local Arguments N.add : simpl never.
Local Arguments N.sub : simpl never.
Local Arguments N.eqb : simpl never.
Local Arguments N.ltb : simpl never.
Local Arguments N.leb : simpl never.

(* ------------------------------------------------------------------------------------------ *)
(* character classes                                                                            *)
(* ------------------------------------------------------------------------------------------ *)

Lemma lower_facts x : is_lower x = true -> isAlpha x = true /\ ascii_lower x = x /\ x < 128.
Proof.
  intros H. assert (Hx : x < 128) by (unfold is_lower in H; lia).
  pose proof (sweep128 (fun x => implb (is_lower x) (isAlpha x && (ascii_lower x =? x))) ltac:(vm_compute; reflexivity) x Hx) as S.
  cbv beta in S. rewrite H in S. cbn [implb] in S. apply andb_true_iff in S. destruct S as [S1 S2].
  repeat split; [exact S1|lia|exact Hx].
Qed.

Lemma scheme_char_facts x : scheme_char x = true ->
  is_schemechar x = true /\ ascii_lower x = x /\ x < 128.
Proof.
  intros H. assert (Hx : x < 128) by (unfold scheme_char, is_lower, is_digit in H; lia).
  pose proof (sweep128 (fun x => implb (scheme_char x) (is_schemechar x && (ascii_lower x =? x))) ltac:(vm_compute; reflexivity) x Hx) as S.
  cbv beta in S. rewrite H in S. cbn [implb] in S. apply andb_true_iff in S. destruct S as [S1 S2].
  repeat split; [exact S1|lia|exact Hx].
Qed.

Section Phases.
  Variable idna_raw : str -> str * bool.
  Variable c : cfg.
  Hypothesis Hrep : c_report c = false.
  Hypothesis Hfail : c_fail c = false.
  Variable inp : list rune.

  Notation n := (n_inp inp).
  Notation stepf := (step idna_raw c inp None None).
  Notation runf := (run idna_raw c inp None None).
  Notation cp := (cp_at inp).
  Notation rest := (rest_from inp).
  Notation reaches := (reaches idna_raw c inp).
  Notation finishes := (finishes idna_raw c inp).
  Notation rest_uncons := (rest_uncons inp).
  Notation rest_empty := (rest_empty inp).
  Notation rest_app := (rest_app inp).
  Notation reaches_refl := (reaches_refl idna_raw c Hrep Hfail inp).
  Notation reaches_trans := (reaches_trans idna_raw c Hrep Hfail inp).
  Notation reaches_step := (reaches_step idna_raw c Hrep Hfail inp).
  Notation reaches_eq := (reaches_eq idna_raw c Hrep Hfail inp).
  Notation finishes_step := (finishes_step idna_raw c Hrep Hfail inp).
  Notation reaches_finishes := (reaches_finishes idna_raw c Hrep Hfail inp).
  Notation finishes_eq := (finishes_eq idna_raw c Hrep Hfail inp).
  Notation frag_tail := (frag_tail idna_raw c Hrep Hfail inp).
  Notation query_tail := (query_tail idna_raw c Hrep Hfail inp).

  Ltac unfold_step :=
    cbv beta iota zeta delta [step mk m_state m_ptr m_eof m_buf m_at m_br m_pw m_url overridden is_some].

  Ltac quiet_enc :=
    match goal with |- (if ?b1 then _ else _) _ = _ => destruct b1 end;
    match goal with |- context [if invalid_pct ?l then _ else _] => destruct (invalid_pct l) end;
    cbv beta; repeat (rewrite (mherr_quiet c Hrep Hfail); cbv beta).

  (* ---------------- SchemeStart / Scheme ---------------- *)
  Lemma scheme_loop : forall l p buf a br pw u tl,
    (-1 <= p)%Z -> rest (p + 1) = l ++ tl -> forallb scheme_char l = true ->
    reaches (mk Scheme p false buf a br pw u) (mk Scheme (p + len l) false (buf ++ l) a br pw u).
  Proof using Hrep Hfail.
    induction l as [|x l IH]; intros p buf a br pw u tl Hp Hr Hl.
    - rewrite len_nil, Z.add_0_r, app_nil_r. apply reaches_refl.
    - cbn [forallb] in Hl. apply andb_true_iff in Hl. destruct Hl as [Hx Hl].
      cbn [app] in Hr. destruct (rest_uncons (p + 1)%Z x _ ltac:(lia) Hr) as [Hc [Hr' Hn]].
      destruct (scheme_char_facts x Hx) as [F1 [F2 F3]].
      eapply reaches_trans.
      + eapply reaches_step; [apply (step_scheme_char idna_raw c Hrep Hfail); rewrite Hc; exact F1|reflexivity].
      + rewrite Hc, F2. rewrite (Utf8Proofs.utf8_enc_ascii x F3).
        eapply reaches_eq; [apply (IH (p + 1)%Z _ a br pw u tl ltac:(lia) Hr' Hl)|].
        rewrite len_cons, <- app_assoc. cbn [app]. f_equal. lia.
  Qed.

  Theorem scheme_phase sch tl a br pw u :
    rest 0 = sch ++ 58 :: tl -> scheme_ok sch = true ->
    reaches (mk SchemeStart (-1) false [] a br pw u) (mk Scheme (len sch - 1) false sch a br pw u).
  Proof using Hrep Hfail.
    intros Hr Hs. destruct sch as [|x sch]; [discriminate|]. unfold scheme_ok in Hs.
    apply andb_true_iff in Hs. destruct Hs as [Hx Hs].
    cbn [app] in Hr. destruct (rest_uncons 0%Z x _ ltac:(lia) Hr) as [Hc [Hr' Hn]].
    destruct (lower_facts x Hx) as [F1 [F2 F3]].
    eapply reaches_trans.
    - eapply reaches_step; [apply (step_schemestart_alpha idna_raw c Hrep Hfail); rewrite Hc; exact F1|reflexivity].
    - rewrite Hc, F2, (Utf8Proofs.utf8_enc_ascii x F3). cbn [app].
      eapply reaches_eq; [apply (scheme_loop sch 0%Z [x] a br pw u (58 :: tl) ltac:(lia) Hr' Hs)|].
      rewrite len_cons. cbn [app]. f_equal. lia.
  Qed.

  (* the colon after the scheme, for every class of scheme *)
  Lemma step_scheme_colon p buf a br pw u tl :
    (-1 <= p)%Z -> rest (p + 1) = 58 :: tl ->
    stepf (mk Scheme p false buf a br pw u) =
    if str_eqb buf s_file then Cont (mk File (p + 1) false [] a br pw (set_scheme u buf))
    else if isSpecialScheme c buf then Cont (mk SpecialAuthoritySlashes (p + 1) false [] a br pw (set_scheme u buf))
    else if has_prefix [47] tl then Cont (mk PathOrAuthority (p + 1 + 1) false [] a br pw (set_scheme u buf))
    else Cont (mk OpaquePath (p + 1) false [] a br pw (set_path (set_scheme u buf) [[]] true)).
  Proof using Hrep Hfail.
    intros Hp Hr. destruct (rest_uncons (p + 1)%Z _ _ ltac:(lia) Hr) as [Hc [Hr' Hn]].
    unfold_step. replace (n <=? p + 1)%Z with false by lia. cbv beta iota. rewrite Hc.
    replace (isAlnum 58 || (58 =? 43) || (58 =? 45) || (58 =? 46)) with false by (vm_compute; reflexivity).
    replace (58 =? 58) with true by reflexivity. cbn [andb].
    change (u_scheme (set_scheme u buf)) with buf.
    change (IsSpecialScheme c (set_scheme u buf)) with (isSpecialScheme c buf).
    rewrite andb_false_r.
    destruct (str_eqb buf s_file).
    { destruct (negb (remainingStartsWith inp (p + 1) false [47; 47])); rewrite ?(mherr_quiet c Hrep Hfail); reflexivity. }
    destruct (isSpecialScheme c buf); [reflexivity|].
    unfold remainingStartsWith. rewrite Hr'. destruct tl as [|y tl']; [reflexivity|].
    destruct (rest_uncons (p + 1 + 1)%Z _ _ ltac:(lia) Hr') as [_ [_ Hn2]].
    cbn [length firstn list_eqb has_prefix]. rewrite andb_true_r. rewrite (N.eqb_sym 47 y).
    destruct (y =? 47); [|reflexivity].
    replace (n <=? p + 1 + 1)%Z with false by lia. reflexivity.
  Qed.

  (* ---------------- OpaquePath ---------------- *)
  Definition opq_char (x : N) : bool := negb (x =? 63) && negb (x =? 35) && negb (RuneShouldBeEncoded pes_C0 x).

  Lemma step_opaque_char p buf a br pw u x l :
    c_singlePct c = false ->
    (-1 <= p)%Z -> rest (p + 1) = x :: l -> opq_char x = true ->
    stepf (mk OpaquePath p false buf a br pw u) =
    Cont (mk OpaquePath (p + 1) false (buf ++ [x]) a br pw (set_path u [buf ++ [x]] true)).
  Proof using Hrep Hfail.
    intros Hsp Hp Hr Hx. destruct (rest_uncons (p + 1)%Z _ _ ltac:(lia) Hr) as [Hc [Hr' Hn]].
    unfold opq_char in Hx. apply andb_true_iff in Hx. destruct Hx as [Hx H3]. apply andb_true_iff in Hx.
    destruct Hx as [H1 H2]. apply negb_true_iff in H1, H2, H3.
    unfold_step. replace (n <=? p + 1)%Z with false by lia. cbv beta iota. rewrite Hc, H1, H2. cbn [negb].
    quiet_enc; rewrite ?(pei_id c _ x Hsp H3), ?(pe_id c _ x H3); reflexivity.
  Qed.

  Lemma step_opaque_eof p buf a br pw u :
    (-1 <= p)%Z -> rest (p + 1) = [] ->
    stepf (mk OpaquePath p false buf a br pw u) = Cont (mk OpaquePath (p + 1) true buf a br pw u).
  Proof using Hrep Hfail.
    intros Hp Hr. pose proof (rest_empty (p + 1)%Z ltac:(lia) Hr) as Hn.
    unfold_step. replace (n <=? p + 1)%Z with true by lia. cbv beta iota.
    replace (rune_error =? 63) with false by reflexivity. replace (rune_error =? 35) with false by reflexivity.
    reflexivity.
  Qed.

  Lemma step_opaque_q p buf a br pw u l :
    (-1 <= p)%Z -> rest (p + 1) = 63 :: l ->
    stepf (mk OpaquePath p false buf a br pw u) = Cont (mk QuerySt (p + 1) false [] a br pw (set_query u (Some []))).
  Proof using Hrep Hfail.
    intros Hp Hr. destruct (rest_uncons (p + 1)%Z _ _ ltac:(lia) Hr) as [Hc [Hr' Hn]].
    unfold_step. replace (n <=? p + 1)%Z with false by lia. cbv beta iota. rewrite Hc. reflexivity.
  Qed.

  Lemma step_opaque_h p buf a br pw u l :
    (-1 <= p)%Z -> rest (p + 1) = 35 :: l ->
    stepf (mk OpaquePath p false buf a br pw u) = Cont (mk FragmentSt (p + 1) false [] a br pw (set_fragment u (Some []))).
  Proof using Hrep Hfail.
    intros Hp Hr. destruct (rest_uncons (p + 1)%Z _ _ ltac:(lia) Hr) as [Hc [Hr' Hn]].
    unfold_step. replace (n <=? p + 1)%Z with false by lia. cbv beta iota. rewrite Hc. reflexivity.
  Qed.

  Lemma opaque_loop : forall l p buf a br pw u tl,
    c_singlePct c = false ->
    (-1 <= p)%Z -> rest (p + 1) = l ++ tl -> forallb opq_char l = true ->
    u_path u = [buf] -> u_opaque u = true ->
    reaches (mk OpaquePath p false buf a br pw u)
            (mk OpaquePath (p + len l) false (buf ++ l) a br pw (set_path u [buf ++ l] true)).
  Proof using Hrep Hfail.
    induction l as [|x l IH]; intros p buf a br pw u tl Hsp Hp Hr Hl Hpath Hopq.
    - rewrite len_nil, Z.add_0_r, app_nil_r. erewrite set_path_eta; [apply reaches_refl|exact Hpath|exact Hopq].
    - cbn [forallb] in Hl. apply andb_true_iff in Hl. destruct Hl as [Hx Hl].
      cbn [app] in Hr. destruct (rest_uncons (p + 1)%Z x _ ltac:(lia) Hr) as [Hc [Hr' Hn]].
      eapply reaches_trans.
      + eapply reaches_step; [apply (step_opaque_char p buf a br pw u x _ Hsp Hp Hr Hx)|reflexivity].
      + eapply reaches_eq; [apply (IH (p + 1)%Z _ a br pw _ tl Hsp ltac:(lia) Hr' Hl); reflexivity|].
        rewrite len_cons, <- app_assoc. cbn [app]. f_equal. lia.
  Qed.

  (* the whole opaque path with what follows it *)
  Theorem opaque_path_phase p a br pw u s0 oq of :
    c_singlePct c = false ->
    RuneShouldBeEncoded (queryset c u) 35 = true ->
    (-1 <= p)%Z -> rest (p + 1) = s0 ++ q_tail oq ++ f_tail of ->
    forallb opq_char s0 = true ->
    u_path u = [[]] -> u_opaque u = true ->
    (forall q, oq = Some q -> none_in (queryset c u) q = true) ->
    (forall f, of = Some f -> none_in (fragset c u) f = true) ->
    finishes (mk OpaquePath p false [] a br pw u) (with_f (with_q (set_path u [s0] true) oq) of).
  Proof using Hrep Hfail.
    intros Hsp H35 Hp Hr Hs0 Hpath Hopq Hq Hf.
    eapply reaches_finishes; [apply (opaque_loop s0 p [] a br pw u _ Hsp Hp Hr Hs0 Hpath Hopq)|].
    cbn [app]. pose proof (rest_app (p + 1)%Z _ _ ltac:(lia) Hr) as Hr'.
    replace (p + 1 + len s0)%Z with (p + len s0 + 1)%Z in Hr' by ring.
    pose proof (len_nonneg s0) as Hl.
    destruct oq as [q|]; cbn [q_tail with_q app] in *.
    - eapply reaches_finishes.
      + eapply reaches_step; [apply (step_opaque_q (p + len s0)%Z _ a br pw _ _ ltac:(lia) Hr')|reflexivity].
      + destruct (rest_uncons (p + len s0 + 1)%Z _ _ ltac:(lia) Hr') as [_ [Hr2 _]].
        eapply finishes_eq;
          [apply (query_tail (p + len s0 + 1)%Z a br pw _ q of ltac:(lia) Hr2);
           [reflexivity|exact H35|apply Hq; reflexivity|exact Hf]|].
        destruct of; reflexivity.
    - destruct of as [f|]; cbn [f_tail with_f] in *.
      + eapply reaches_finishes.
        * eapply reaches_step; [apply (step_opaque_h (p + len s0)%Z _ a br pw _ _ ltac:(lia) Hr')|reflexivity].
        * destruct (rest_uncons (p + len s0 + 1)%Z _ _ ltac:(lia) Hr') as [_ [Hr2 _]].
          eapply finishes_eq; [apply (frag_tail (p + len s0 + 1)%Z a br pw _ f ltac:(lia) Hr2); apply Hf; reflexivity|].
          reflexivity.
      + eapply finishes_eq.
        * eapply finishes_step; [apply (step_opaque_eof (p + len s0)%Z _ a br pw _ ltac:(lia) Hr')|reflexivity].
        * reflexivity.
  Qed.
End Phases.
