(* Round trip, part 1 (S1): phase lemmas of the state machine on serializer output.
   All statements are about [step]/[run] with diagnostics off, no base and no state override. *)
From Verif Require Import Lib.Base Lib.Utf8 Lib.GoStr Model.Cfg Gen.Tables Gen.Options Model.Sets Model.Percent
  Model.Url Model.Host Model.Machine Model.Api Model.Preds.
From Verif Require Import Proofs.SetsProofs Proofs.Cleaning Proofs.PhaseLemmas Proofs.RecordInv Proofs.RoundTripBase Proofs.RoundTripDecimal.
From Verif Require Proofs.Utf8Proofs.
From Coq Require Import Lia ZifyBool ZifyN ZifyNat.

Local Arguments N.mul : simpl never.
Local Arguments N.add : simpl never.
Local Arguments N.sub : simpl never.
Local Arguments N.eqb : simpl never.
Local Arguments N.ltb : simpl never.
Local Arguments N.leb : simpl never.

(* ------------------------------------------------------------------------------------------ *)
(* character classes                                                                            *)
(* ------------------------------------------------------------------------------------------ *)

Lemma lower_facts x : is_lower x = true -> isAlpha x = true /\ ascii_lower x = x /\ x < 128.
Proof.
  intros H. assert (Hx : x < 128) by (unfold is_lower in H; lia).
  pose proof (sweep128 (fun x => implb (is_lower x) (isAlpha x && (ascii_lower x =? x))) ltac:(vm_compute; reflexivity) x Hx) as S.
  cbv beta in S. rewrite H in S. cbn [implb] in S. apply andb_true_iff in S. destruct S as [S1 S2].
  repeat split; [exact S1|lia|exact Hx].
Qed.

Lemma scheme_char_facts x : scheme_char x = true ->
  is_schemechar x = true /\ ascii_lower x = x /\ x < 128.
Proof.
  intros H. assert (Hx : x < 128) by (unfold scheme_char, is_lower, is_digit in H; lia).
  pose proof (sweep128 (fun x => implb (scheme_char x) (is_schemechar x && (ascii_lower x =? x))) ltac:(vm_compute; reflexivity) x Hx) as S.
  cbv beta in S. rewrite H in S. cbn [implb] in S. apply andb_true_iff in S. destruct S as [S1 S2].
  repeat split; [exact S1|lia|exact Hx].
Qed.

Lemma digit_facts x : is_digit x = true -> isDigit x = true /\ x < 128.
Proof.
  intros H. assert (Hx : x < 128) by (unfold is_digit in H; lia). split; [|exact Hx].
  pose proof (sweep128 (fun x => implb (is_digit x) (isDigit x)) ltac:(vm_compute; reflexivity) x Hx) as S.
  cbv beta in S. rewrite H in S. exact S.
Qed.


(* the credentials loop on strings free of the userinfo set (which contains ':') *)
Lemma userinfo_58 : RuneShouldBeEncoded pes_UserInfo 58 = true.
Proof. reflexivity. Qed.

Lemma cred_loop_pass c : forall l user pass,
  none_in pes_UserInfo l = true -> cred_loop c l true user pass = (true, user, pass ++ l).
Proof.
  induction l as [|x l IH]; intros user pass H; [rewrite app_nil_r; reflexivity|].
  apply none_in_cons in H. destruct H as [Hx Hl]. cbn [cred_loop negb]. rewrite andb_false_r.
  rewrite (pe_id c _ x Hx), (IH _ _ Hl), <- app_assoc. reflexivity.
Qed.

Lemma cred_loop_user c : forall l tl user pass,
  none_in pes_UserInfo l = true -> cred_loop c (l ++ tl) false user pass = cred_loop c tl false (user ++ l) pass.
Proof.
  induction l as [|x l IH]; intros tl user pass H; [rewrite app_nil_r; reflexivity|].
  apply none_in_cons in H. destruct H as [Hx Hl]. cbn [app cred_loop negb].
  assert (H58 : (x =? 58) = false).
  { destruct (x =? 58) eqn:E; [|reflexivity]. apply N.eqb_eq in E. subst x. rewrite userinfo_58 in Hx. discriminate. }
  rewrite H58. cbn [andb]. rewrite (pe_id c _ x Hx), (IH _ _ _ Hl), <- app_assoc. reflexivity.
Qed.

(* the serializer's userinfo, without the '@' *)
Definition cred_str (user pass : str) : str := user ++ (if negb (is_nil pass) then 58 :: pass else []).

Lemma cred_loop_cred c user pass :
  none_in pes_UserInfo user = true -> none_in pes_UserInfo pass = true ->
  exists pw, cred_loop c (cred_str user pass) false [] [] = (pw, user, pass).
Proof.
  intros Hu Hp. unfold cred_str. rewrite (cred_loop_user c user _ [] [] Hu). cbn [app].
  destruct pass as [|y pass]; cbn [is_nil negb].
  - exists false. reflexivity.
  - exists true. remember (y :: pass) as pp eqn:Epp. cbn [cred_loop].
    replace (58 =? 58) with true by reflexivity. cbn [negb andb].
    rewrite (cred_loop_pass c _ _ _ Hp). reflexivity.
Qed.

Section Phases.
  Variable idna_raw : str -> str * bool.
  Variable c : cfg.
  Hypothesis Hrep : c_report c = false.
  Hypothesis Hfail : c_fail c = false.
  Variable inp : list rune.

  Notation n := (n_inp inp).
  Notation stepf := (step idna_raw c inp None None).
  Notation runf := (run idna_raw c inp None None).
  Notation cp := (cp_at inp).
  Notation rest := (rest_from inp).
  Notation reaches := (reaches idna_raw c inp).
  Notation finishes := (finishes idna_raw c inp).
  Notation rest_uncons := (rest_uncons inp).
  Notation rest_empty := (rest_empty inp).
  Notation rest_app := (rest_app inp).
  Notation reaches_refl := (reaches_refl idna_raw c Hrep Hfail inp).
  Notation reaches_trans := (reaches_trans idna_raw c Hrep Hfail inp).
  Notation reaches_step := (reaches_step idna_raw c Hrep Hfail inp).
  Notation reaches_eq := (reaches_eq idna_raw c Hrep Hfail inp).
  Notation finishes_step := (finishes_step idna_raw c Hrep Hfail inp).
  Notation reaches_finishes := (reaches_finishes idna_raw c Hrep Hfail inp).
  Notation finishes_eq := (finishes_eq idna_raw c Hrep Hfail inp).
  Notation frag_tail := (frag_tail idna_raw c Hrep Hfail inp).
  Notation query_tail := (query_tail idna_raw c Hrep Hfail inp).

  Ltac unfold_step :=
    cbv beta iota zeta delta [step mk m_state m_ptr m_eof m_buf m_at m_br m_pw m_url overridden is_some].

  Ltac quiet_enc :=
    match goal with |- (if ?b1 then _ else _) _ = _ => destruct b1 end;
    match goal with |- context [if invalid_pct ?l then _ else _] => destruct (invalid_pct l) end;
    cbv beta; repeat (rewrite (mherr_quiet c Hrep Hfail); cbv beta).

  (* ---------------- SchemeStart / Scheme ---------------- *)
  Lemma scheme_loop : forall l p buf a br pw u tl,
    (-1 <= p)%Z -> rest (p + 1) = l ++ tl -> forallb scheme_char l = true ->
    reaches (mk Scheme p false buf a br pw u) (mk Scheme (p + len l) false (buf ++ l) a br pw u).
  Proof using Hrep Hfail.
    induction l as [|x l IH]; intros p buf a br pw u tl Hp Hr Hl.
    - rewrite len_nil, Z.add_0_r, app_nil_r. apply reaches_refl.
    - cbn [forallb] in Hl. apply andb_true_iff in Hl. destruct Hl as [Hx Hl].
      cbn [app] in Hr. destruct (rest_uncons (p + 1)%Z x _ ltac:(lia) Hr) as [Hc [Hr' Hn]].
      destruct (scheme_char_facts x Hx) as [F1 [F2 F3]].
      eapply reaches_trans.
      + eapply reaches_step; [apply (step_scheme_char idna_raw c Hrep Hfail); rewrite Hc; exact F1|reflexivity].
      + rewrite Hc, F2. rewrite (Utf8Proofs.utf8_enc_ascii x F3).
        eapply reaches_eq; [apply (IH (p + 1)%Z _ a br pw u tl ltac:(lia) Hr' Hl)|].
        rewrite len_cons, <- app_assoc. cbn [app]. f_equal. lia.
  Qed.

  Theorem scheme_phase sch tl a br pw u :
    rest 0 = sch ++ 58 :: tl -> scheme_ok sch = true ->
    reaches (mk SchemeStart (-1) false [] a br pw u) (mk Scheme (len sch - 1) false sch a br pw u).
  Proof using Hrep Hfail.
    intros Hr Hs. destruct sch as [|x sch]; [discriminate|]. unfold scheme_ok in Hs.
    apply andb_true_iff in Hs. destruct Hs as [Hx Hs].
    cbn [app] in Hr. destruct (rest_uncons 0%Z x _ ltac:(lia) Hr) as [Hc [Hr' Hn]].
    destruct (lower_facts x Hx) as [F1 [F2 F3]].
    eapply reaches_trans.
    - eapply reaches_step; [apply (step_schemestart_alpha idna_raw c Hrep Hfail); rewrite Hc; exact F1|reflexivity].
    - rewrite Hc, F2, (Utf8Proofs.utf8_enc_ascii x F3). cbn [app].
      eapply reaches_eq; [apply (scheme_loop sch 0%Z [x] a br pw u (58 :: tl) ltac:(lia) Hr' Hs)|].
      rewrite len_cons. cbn [app]. f_equal. lia.
  Qed.

  (* the colon after the scheme, for every class of scheme *)
  Lemma step_scheme_colon p buf a br pw u tl :
    (-1 <= p)%Z -> rest (p + 1) = 58 :: tl ->
    stepf (mk Scheme p false buf a br pw u) =
    if str_eqb buf s_file then Cont (mk File (p + 1) false [] a br pw (set_scheme u buf))
    else if isSpecialScheme c buf then Cont (mk SpecialAuthoritySlashes (p + 1) false [] a br pw (set_scheme u buf))
    else if has_prefix [47] tl then Cont (mk PathOrAuthority (p + 1 + 1) false [] a br pw (set_scheme u buf))
    else Cont (mk OpaquePath (p + 1) false [] a br pw (set_path (set_scheme u buf) [[]] true)).
  Proof using Hrep Hfail.
    intros Hp Hr. destruct (rest_uncons (p + 1)%Z _ _ ltac:(lia) Hr) as [Hc [Hr' Hn]].
    unfold_step. replace (n <=? p + 1)%Z with false by lia. cbv beta iota. rewrite Hc.
    replace (isAlnum 58 || (58 =? 43) || (58 =? 45) || (58 =? 46)) with false by (vm_compute; reflexivity).
    replace (58 =? 58) with true by reflexivity. cbn [andb].
    change (u_scheme (set_scheme u buf)) with buf.
    change (IsSpecialScheme c (set_scheme u buf)) with (isSpecialScheme c buf).
    rewrite andb_false_r.
    destruct (str_eqb buf s_file).
    { destruct (negb (remainingStartsWith inp (p + 1) false [47; 47])); rewrite ?(mherr_quiet c Hrep Hfail); reflexivity. }
    destruct (isSpecialScheme c buf); [reflexivity|].
    unfold remainingStartsWith. rewrite Hr'. destruct tl as [|y tl']; [reflexivity|].
    destruct (rest_uncons (p + 1 + 1)%Z _ _ ltac:(lia) Hr') as [_ [_ Hn2]].
    cbn [length firstn list_eqb has_prefix]. rewrite andb_true_r. rewrite (N.eqb_sym 47 y).
    destruct (y =? 47); [|reflexivity].
    replace (n <=? p + 1 + 1)%Z with false by lia. reflexivity.
  Qed.

  (* ---------------- OpaquePath ---------------- *)
  Definition opq_char (x : N) : bool := negb (x =? 63) && negb (x =? 35) && negb (RuneShouldBeEncoded pes_C0 x).

  Lemma step_opaque_char p buf a br pw u x l :
    c_singlePct c = false ->
    (-1 <= p)%Z -> rest (p + 1) = x :: l -> opq_char x = true ->
    stepf (mk OpaquePath p false buf a br pw u) =
    Cont (mk OpaquePath (p + 1) false (buf ++ [x]) a br pw (set_path u [buf ++ [x]] true)).
  Proof using Hrep Hfail.
    intros Hsp Hp Hr Hx. destruct (rest_uncons (p + 1)%Z _ _ ltac:(lia) Hr) as [Hc [Hr' Hn]].
    unfold opq_char in Hx. apply andb_true_iff in Hx. destruct Hx as [Hx H3]. apply andb_true_iff in Hx.
    destruct Hx as [H1 H2]. apply negb_true_iff in H1, H2, H3.
    unfold_step. replace (n <=? p + 1)%Z with false by lia. cbv beta iota. rewrite Hc, H1, H2. cbn [negb].
    quiet_enc; rewrite ?(pei_id c _ x Hsp H3), ?(pe_id c _ x H3); reflexivity.
  Qed.

  Lemma step_opaque_eof p buf a br pw u :
    (-1 <= p)%Z -> rest (p + 1) = [] ->
    stepf (mk OpaquePath p false buf a br pw u) = Cont (mk OpaquePath (p + 1) true buf a br pw u).
  Proof using Hrep Hfail.
    intros Hp Hr. pose proof (rest_empty (p + 1)%Z ltac:(lia) Hr) as Hn.
    unfold_step. replace (n <=? p + 1)%Z with true by lia. cbv beta iota.
    replace (rune_error =? 63) with false by reflexivity. replace (rune_error =? 35) with false by reflexivity.
    reflexivity.
  Qed.

  Lemma step_opaque_q p buf a br pw u l :
    (-1 <= p)%Z -> rest (p + 1) = 63 :: l ->
    stepf (mk OpaquePath p false buf a br pw u) = Cont (mk QuerySt (p + 1) false [] a br pw (set_query u (Some []))).
  Proof using Hrep Hfail.
    intros Hp Hr. destruct (rest_uncons (p + 1)%Z _ _ ltac:(lia) Hr) as [Hc [Hr' Hn]].
    unfold_step. replace (n <=? p + 1)%Z with false by lia. cbv beta iota. rewrite Hc. reflexivity.
  Qed.

  Lemma step_opaque_h p buf a br pw u l :
    (-1 <= p)%Z -> rest (p + 1) = 35 :: l ->
    stepf (mk OpaquePath p false buf a br pw u) = Cont (mk FragmentSt (p + 1) false [] a br pw (set_fragment u (Some []))).
  Proof using Hrep Hfail.
    intros Hp Hr. destruct (rest_uncons (p + 1)%Z _ _ ltac:(lia) Hr) as [Hc [Hr' Hn]].
    unfold_step. replace (n <=? p + 1)%Z with false by lia. cbv beta iota. rewrite Hc. reflexivity.
  Qed.

  Lemma opaque_path_loop : forall l p buf a br pw u tl,
    c_singlePct c = false ->
    (-1 <= p)%Z -> rest (p + 1) = l ++ tl -> forallb opq_char l = true ->
    u_path u = [buf] -> u_opaque u = true ->
    reaches (mk OpaquePath p false buf a br pw u)
            (mk OpaquePath (p + len l) false (buf ++ l) a br pw (set_path u [buf ++ l] true)).
  Proof using Hrep Hfail.
    induction l as [|x l IH]; intros p buf a br pw u tl Hsp Hp Hr Hl Hpath Hopq.
    - rewrite len_nil, Z.add_0_r, app_nil_r. erewrite set_path_eta; [apply reaches_refl|exact Hpath|exact Hopq].
    - cbn [forallb] in Hl. apply andb_true_iff in Hl. destruct Hl as [Hx Hl].
      cbn [app] in Hr. destruct (rest_uncons (p + 1)%Z x _ ltac:(lia) Hr) as [Hc [Hr' Hn]].
      eapply reaches_trans.
      + eapply reaches_step; [apply (step_opaque_char p buf a br pw u x _ Hsp Hp Hr Hx)|reflexivity].
      + eapply reaches_eq; [apply (IH (p + 1)%Z _ a br pw _ tl Hsp ltac:(lia) Hr' Hl); reflexivity|].
        rewrite len_cons, <- app_assoc. cbn [app]. f_equal. lia.
  Qed.

  (* the whole opaque path with what follows it *)
  Theorem opaque_path_phase p a br pw u s0 oq of :
    c_singlePct c = false ->
    RuneShouldBeEncoded (queryset c u) 35 = true ->
    (-1 <= p)%Z -> rest (p + 1) = s0 ++ q_tail oq ++ f_tail of ->
    forallb opq_char s0 = true ->
    u_path u = [[]] -> u_opaque u = true ->
    (forall q, oq = Some q -> none_in (queryset c u) q = true) ->
    (forall f, of = Some f -> none_in (fragset c u) f = true) ->
    finishes (mk OpaquePath p false [] a br pw u) (with_f (with_q (set_path u [s0] true) oq) of).
  Proof using Hrep Hfail.
    intros Hsp H35 Hp Hr Hs0 Hpath Hopq Hq Hf.
    eapply reaches_finishes; [apply (opaque_path_loop s0 p [] a br pw u _ Hsp Hp Hr Hs0 Hpath Hopq)|].
    cbn [app]. pose proof (rest_app (p + 1)%Z _ _ ltac:(lia) Hr) as Hr'.
    replace (p + 1 + len s0)%Z with (p + len s0 + 1)%Z in Hr' by ring.
    pose proof (len_nonneg s0) as Hl.
    destruct oq as [q|]; cbn [q_tail with_q app] in *.
    - eapply reaches_finishes.
      + eapply reaches_step; [apply (step_opaque_q (p + len s0)%Z _ a br pw _ _ ltac:(lia) Hr')|reflexivity].
      + destruct (rest_uncons (p + len s0 + 1)%Z _ _ ltac:(lia) Hr') as [_ [Hr2 _]].
        eapply finishes_eq;
          [apply (query_tail (p + len s0 + 1)%Z a br pw _ q of ltac:(lia) Hr2);
           [reflexivity|exact H35|apply Hq; reflexivity|exact Hf]|].
        destruct of; reflexivity.
    - destruct of as [f|]; cbn [f_tail with_f] in *.
      + eapply reaches_finishes.
        * eapply reaches_step; [apply (step_opaque_h (p + len s0)%Z _ a br pw _ _ ltac:(lia) Hr')|reflexivity].
        * destruct (rest_uncons (p + len s0 + 1)%Z _ _ ltac:(lia) Hr') as [_ [Hr2 _]].
          eapply finishes_eq; [apply (frag_tail (p + len s0 + 1)%Z a br pw _ f ltac:(lia) Hr2); apply Hf; reflexivity|].
          reflexivity.
      + eapply finishes_eq.
        * eapply finishes_step; [apply (step_opaque_eof (p + len s0)%Z _ a br pw _ ltac:(lia) Hr')|reflexivity].
        * reflexivity.
  Qed.

  (* ---------------- PathSt ---------------- *)
  Definition path_char (sp : bool) (x : N) : bool :=
    negb (x =? 47) && negb (sp && (x =? 92)) && negb (x =? 63) && negb (x =? 35)
    && negb (RuneShouldBeEncoded (c_pathSet c) x).

  Lemma step_path_char p buf a br pw u x l :
    c_singlePct c = false ->
    (-1 <= p)%Z -> rest (p + 1) = x :: l -> path_char (IsSpecialScheme c u) x = true ->
    stepf (mk PathSt p false buf a br pw u) = Cont (mk PathSt (p + 1) false (buf ++ [x]) a br pw u).
  Proof using Hrep Hfail.
    intros Hsp Hp Hr Hx. destruct (rest_uncons (p + 1)%Z _ _ ltac:(lia) Hr) as [Hc [Hr' Hn]].
    unfold path_char in Hx.
    apply andb_true_iff in Hx. destruct Hx as [Hx H5]. apply andb_true_iff in Hx. destruct Hx as [Hx H4].
    apply andb_true_iff in Hx. destruct Hx as [Hx H3]. apply andb_true_iff in Hx. destruct Hx as [H1 H2].
    apply negb_true_iff in H1, H2, H3, H4, H5.
    unfold_step. replace (n <=? p + 1)%Z with false by lia. cbv beta iota. rewrite Hc.
    unfold isSpecialSchemeAndBackslash. rewrite H1, H2, H3, H4. cbn [negb orb andb].
    quiet_enc; rewrite ?(pei_id c _ x Hsp H5), ?(pe_id c _ x H5); reflexivity.
  Qed.

  (* what PathSt does with the buffer at the end of a segment (transcribed from [step]) *)
  Definition path_commit (u : url) (buf : str) (slashlike : bool) : url :=
    let path := u_path u in
    let replaceLast := c_collapse c && IsSpecialScheme c u && negb (is_nil path)
                       && match last_opt path with Some s => is_nil s | None => false end in
    if isDoubleDotPathSegment buf then
      let u := set_path u (shortenPath (u_scheme u) path) (u_opaque u) in
      if negb slashlike then addSegment u [] else u
    else if isSingleDotPathSegment buf && negb slashlike then
      if negb replaceLast then addSegment u [] else u
    else if negb (isSingleDotPathSegment buf) then
      let buf' :=
        if str_eqb (u_scheme u) s_file && (is_nil path || (replaceLast && (len path =? 1)%Z))
           && isWindowsDriveLetter buf && negb (c_skipDrive c)
        then match buf with b0 :: _ => [b0; 58] | [] => buf end
        else buf in
      if negb replaceLast then addSegment u buf' else set_path u (replace_last path buf') (u_opaque u)
    else u.

  Lemma step_path_slash p buf a br pw u l :
    (-1 <= p)%Z -> rest (p + 1) = 47 :: l ->
    stepf (mk PathSt p false buf a br pw u) = Cont (mk PathSt (p + 1) false [] a br pw (path_commit u buf true)).
  Proof using Hrep Hfail.
    intros Hp Hr. destruct (rest_uncons (p + 1)%Z _ _ ltac:(lia) Hr) as [Hc [Hr' Hn]].
    unfold_step. replace (n <=? p + 1)%Z with false by lia. cbv beta iota. rewrite Hc.
    unfold isSpecialSchemeAndBackslash. replace (47 =? 92) with false by reflexivity.
    rewrite !andb_false_r.
    replace (47 =? 47) with true by reflexivity. replace (47 =? 63) with false by reflexivity.
    replace (47 =? 35) with false by reflexivity. cbn [orb negb andb].
    unfold path_commit. cbv zeta.
    destruct (isDoubleDotPathSegment buf); [reflexivity|]. destruct (isSingleDotPathSegment buf); reflexivity.
  Qed.

  Lemma step_path_q p buf a br pw u l :
    (-1 <= p)%Z -> rest (p + 1) = 63 :: l ->
    stepf (mk PathSt p false buf a br pw u) =
    Cont (mk QuerySt (p + 1) false [] a br pw (set_query (path_commit u buf false) (Some []))).
  Proof using Hrep Hfail.
    intros Hp Hr. destruct (rest_uncons (p + 1)%Z _ _ ltac:(lia) Hr) as [Hc [Hr' Hn]].
    unfold_step. replace (n <=? p + 1)%Z with false by lia. cbv beta iota. rewrite Hc.
    unfold isSpecialSchemeAndBackslash. replace (63 =? 92) with false by reflexivity.
    rewrite !andb_false_r.
    replace (63 =? 47) with false by reflexivity. replace (63 =? 63) with true by reflexivity.
    cbn [orb negb andb]. unfold path_commit. cbv zeta.
    destruct (isDoubleDotPathSegment buf); [reflexivity|]. destruct (isSingleDotPathSegment buf); reflexivity.
  Qed.

  Lemma step_path_h p buf a br pw u l :
    (-1 <= p)%Z -> rest (p + 1) = 35 :: l ->
    stepf (mk PathSt p false buf a br pw u) =
    Cont (mk FragmentSt (p + 1) false [] a br pw (set_fragment (path_commit u buf false) (Some []))).
  Proof using Hrep Hfail.
    intros Hp Hr. destruct (rest_uncons (p + 1)%Z _ _ ltac:(lia) Hr) as [Hc [Hr' Hn]].
    unfold_step. replace (n <=? p + 1)%Z with false by lia. cbv beta iota. rewrite Hc.
    unfold isSpecialSchemeAndBackslash. replace (35 =? 92) with false by reflexivity.
    rewrite !andb_false_r.
    replace (35 =? 47) with false by reflexivity. replace (35 =? 63) with false by reflexivity.
    replace (35 =? 35) with true by reflexivity.
    cbn [orb negb andb]. unfold path_commit. cbv zeta.
    destruct (isDoubleDotPathSegment buf); [reflexivity|]. destruct (isSingleDotPathSegment buf); reflexivity.
  Qed.

  Lemma step_path_eof p buf a br pw u :
    (-1 <= p)%Z -> rest (p + 1) = [] ->
    stepf (mk PathSt p false buf a br pw u) = Cont (mk PathSt (p + 1) true [] a br pw (path_commit u buf false)).
  Proof using Hrep Hfail.
    intros Hp Hr. pose proof (rest_empty (p + 1)%Z ltac:(lia) Hr) as Hn.
    unfold_step. replace (n <=? p + 1)%Z with true by lia. cbv beta iota.
    unfold isSpecialSchemeAndBackslash. replace (rune_error =? 92) with false by reflexivity.
    rewrite !andb_false_r.
    replace (rune_error =? 47) with false by reflexivity. replace (rune_error =? 63) with false by reflexivity.
    replace (rune_error =? 35) with false by reflexivity.
    cbn [orb negb andb]. unfold path_commit. cbv zeta.
    destruct (isDoubleDotPathSegment buf); [reflexivity|]. destruct (isSingleDotPathSegment buf); reflexivity.
  Qed.

  Lemma path_commit_seg u buf sl :
    c_collapse c = false -> dotseg buf = false ->
    (str_eqb (u_scheme u) s_file = true -> u_path u = [] -> isWindowsDriveLetter buf = true -> c_skipDrive c = false ->
     isNormalizedWindowsDriveLetter buf = true) ->
    path_commit u buf sl = addSegment u buf.
  Proof using.
    intros Hcol Hd Hdrv. unfold dotseg in Hd. apply orb_false_iff in Hd. destruct Hd as [Hd1 Hd2].
    unfold path_commit. cbv zeta. rewrite Hd1, Hd2, Hcol. cbn [andb negb orb]. rewrite orb_false_r.
    destruct (str_eqb (u_scheme u) s_file) eqn:E1; [|reflexivity].
    destruct (is_nil (u_path u)) eqn:E2; [|reflexivity].
    destruct (isWindowsDriveLetter buf) eqn:E3; [|reflexivity].
    destruct (c_skipDrive c) eqn:E4; [reflexivity|]. cbn [andb negb].
    apply is_nil_true in E2. specialize (Hdrv eq_refl E2 eq_refl eq_refl).
    unfold isNormalizedWindowsDriveLetter in Hdrv.
    destruct buf as [|b0 [|b1 [|b2 r]]]; try discriminate Hdrv.
    apply andb_true_iff in Hdrv. destruct Hdrv as [_ Hb]. apply N.eqb_eq in Hb. subst b1. reflexivity.
  Qed.

  Lemma path_commit_dot_slash u : path_commit u [46] true = u.
  Proof using. unfold path_commit. cbv zeta. reflexivity. Qed.

  Lemma seg_loop : forall seg p buf a br pw u tl,
    c_singlePct c = false ->
    (-1 <= p)%Z -> rest (p + 1) = seg ++ tl -> forallb (path_char (IsSpecialScheme c u)) seg = true ->
    reaches (mk PathSt p false buf a br pw u) (mk PathSt (p + len seg) false (buf ++ seg) a br pw u).
  Proof using Hrep Hfail.
    induction seg as [|x l IH]; intros p buf a br pw u tl Hsp Hp Hr Hl.
    - rewrite len_nil, Z.add_0_r, app_nil_r. apply reaches_refl.
    - cbn [forallb] in Hl. apply andb_true_iff in Hl. destruct Hl as [Hx Hl].
      cbn [app] in Hr. destruct (rest_uncons (p + 1)%Z x _ ltac:(lia) Hr) as [Hc [Hr' Hn]].
      eapply reaches_trans.
      + eapply reaches_step; [apply (step_path_char p buf a br pw u x _ Hsp Hp Hr Hx)|reflexivity].
      + eapply reaches_eq; [apply (IH (p + 1)%Z _ a br pw _ tl Hsp ltac:(lia) Hr' Hl)|].
        rewrite len_cons, <- app_assoc. cbn [app]. f_equal. lia.
  Qed.

  Definition seg_good (sp : bool) (s : str) : bool := forallb (path_char sp) s && negb (dotseg s).

  (* the path, one segment after the other, and what follows it *)
  Theorem path_phase : forall segs seg p a br pw u oq of,
    c_singlePct c = false -> c_collapse c = false ->
    RuneShouldBeEncoded (queryset c u) 35 = true ->
    (-1 <= p)%Z -> rest (p + 1) = seg ++ flat_map (fun s => 47 :: s) segs ++ q_tail oq ++ f_tail of ->
    forallb (seg_good (IsSpecialScheme c u)) (seg :: segs) = true ->
    (str_eqb (u_scheme u) s_file = true -> u_path u = [] -> isWindowsDriveLetter seg = true -> c_skipDrive c = false ->
     isNormalizedWindowsDriveLetter seg = true) ->
    (forall q, oq = Some q -> none_in (queryset c u) q = true) ->
    (forall f, of = Some f -> none_in (fragset c u) f = true) ->
    finishes (mk PathSt p false [] a br pw u) (with_f (with_q (set_path u (u_path u ++ seg :: segs) false) oq) of).
  Proof using Hrep Hfail.
    induction segs as [|s1 segs IH]; intros seg p a br pw u oq of Hsp Hcol H35 Hp Hr Hg Hdrv Hq Hf.
    - cbn [flat_map app] in Hr. cbn [forallb] in Hg. rewrite andb_true_r in Hg.
      unfold seg_good in Hg. apply andb_true_iff in Hg. destruct Hg as [Hch Hnd]. apply negb_true_iff in Hnd.
      eapply reaches_finishes; [apply (seg_loop seg p [] a br pw u _ Hsp Hp Hr Hch)|].
      cbn [app]. pose proof (rest_app (p + 1)%Z _ _ ltac:(blia) Hr) as Hr'.
      replace (p + 1 + len seg)%Z with (p + len seg + 1)%Z in Hr' by ring.
      pose proof (len_nonneg seg) as Hl.
      pose proof (path_commit_seg u seg false Hcol Hnd Hdrv) as Hpc.
      destruct oq as [q|]; cbn [q_tail with_q app] in *.
      + eapply reaches_finishes.
        * eapply reaches_step; [apply (step_path_q (p + len seg)%Z _ a br pw _ _ ltac:(blia) Hr')|reflexivity].
        * destruct (rest_uncons (p + len seg + 1)%Z _ _ ltac:(blia) Hr') as [_ [Hr2 _]]. rewrite Hpc.
          eapply finishes_eq;
            [apply (query_tail (p + len seg + 1)%Z a br pw _ q of ltac:(blia) Hr2);
             [reflexivity|exact H35|apply Hq; reflexivity|exact Hf]|].
          destruct of; reflexivity.
      + destruct of as [f|]; cbn [f_tail with_f] in *.
        * eapply reaches_finishes.
          -- eapply reaches_step; [apply (step_path_h (p + len seg)%Z _ a br pw _ _ ltac:(blia) Hr')|reflexivity].
          -- destruct (rest_uncons (p + len seg + 1)%Z _ _ ltac:(blia) Hr') as [_ [Hr2 _]]. rewrite Hpc.
             eapply finishes_eq; [apply (frag_tail (p + len seg + 1)%Z a br pw _ f ltac:(blia) Hr2); apply Hf; reflexivity|].
             reflexivity.
        * eapply finishes_eq.
          -- eapply finishes_step; [apply (step_path_eof (p + len seg)%Z _ a br pw _ ltac:(blia) Hr')|reflexivity].
          -- cbn [mk m_url]. rewrite Hpc. reflexivity.
    - cbn [flat_map] in Hr. rewrite <- !app_assoc in Hr. cbn [app] in Hr.
      cbn [forallb] in Hg. apply andb_true_iff in Hg. destruct Hg as [Hg Hgs].
      unfold seg_good in Hg. apply andb_true_iff in Hg. destruct Hg as [Hch Hnd]. apply negb_true_iff in Hnd.
      eapply reaches_finishes; [apply (seg_loop seg p [] a br pw u _ Hsp Hp Hr Hch)|].
      cbn [app]. pose proof (rest_app (p + 1)%Z _ _ ltac:(blia) Hr) as Hr'.
      replace (p + 1 + len seg)%Z with (p + len seg + 1)%Z in Hr' by ring.
      pose proof (len_nonneg seg) as Hl.
      pose proof (path_commit_seg u seg true Hcol Hnd Hdrv) as Hpc.
      eapply reaches_finishes.
      + eapply reaches_step; [apply (step_path_slash (p + len seg)%Z _ a br pw _ _ ltac:(blia) Hr')|reflexivity].
      + destruct (rest_uncons (p + len seg + 1)%Z _ _ ltac:(blia) Hr') as [_ [Hr2 _]]. rewrite Hpc.
        eapply finishes_eq.
        * apply (IH s1 (p + len seg + 1)%Z a br pw (addSegment u seg) oq of Hsp Hcol H35 ltac:(blia)).
          -- rewrite Hr2, <- ?app_assoc. reflexivity.
          -- exact Hgs.
          -- intros _ E. exfalso. cbn [addSegment set_path u_path] in E. destruct (u_path u); discriminate E.
          -- exact Hq.
          -- exact Hf.
        * cbn [addSegment set_path u_path]. rewrite <- app_assoc. cbn [app].
          destruct oq, of; reflexivity.
  Qed.

  (* a code point that does not end the segment, whether or not it is in the path set *)
  Lemma step_path_any p buf a br pw u x l :
    c_singlePct c = false ->
    (-1 <= p)%Z -> rest (p + 1) = x :: l ->
    (x =? 47) = false -> (IsSpecialScheme c u && (x =? 92)) = false -> (x =? 63) = false -> (x =? 35) = false ->
    stepf (mk PathSt p false buf a br pw u) =
    Cont (mk PathSt (p + 1) false (buf ++ percentEncodeRune c x (Some (c_pathSet c))) a br pw u).
  Proof using Hrep Hfail.
    intros Hsp Hp Hr H1 H2 H3 H4. destruct (rest_uncons (p + 1)%Z _ _ ltac:(lia) Hr) as [Hc [Hr' Hn]].
    unfold_step. replace (n <=? p + 1)%Z with false by lia. cbv beta iota. rewrite Hc.
    unfold isSpecialSchemeAndBackslash. rewrite H1, H2, H3, H4. cbn [negb orb andb].
    quiet_enc; unfold percentEncodeInvalidRune; rewrite ?Hsp; reflexivity.
  Qed.

  (* the "/." guard of the serializer: PathSt drops the single-dot segment *)
  Lemma dot_enc_single : forall t,
    isSingleDotPathSegment (percentEncodeRune c 46 (Some t)) = true /\
    isDoubleDotPathSegment (percentEncodeRune c 46 (Some t)) = false.
  Proof using.
    intros t. unfold percentEncodeRune. destruct (RuneShouldBeEncoded t 46); [|split; reflexivity].
    destruct (c_latin1 c); split; reflexivity.
  Qed.

  Lemma guard_phase p a br pw u l :
    c_singlePct c = false ->
    (-1 <= p)%Z -> rest (p + 1) = 46 :: 47 :: l ->
    reaches (mk PathSt p false [] a br pw u) (mk PathSt (p + 1 + 1) false [] a br pw u).
  Proof using Hrep Hfail.
    intros Hsp Hp Hr. destruct (rest_uncons (p + 1)%Z _ _ ltac:(lia) Hr) as [_ [Hr' _]].
    eapply reaches_trans.
    - eapply reaches_step;
        [apply (step_path_any p [] a br pw u 46 _ Hsp Hp Hr); try reflexivity; apply andb_false_r|reflexivity].
    - eapply reaches_eq.
      + eapply reaches_step; [apply (step_path_slash (p + 1)%Z _ a br pw u _ ltac:(lia) Hr')|reflexivity].
      + f_equal. cbn [app]. destruct (dot_enc_single (c_pathSet c)) as [E1 E2].
        unfold path_commit. cbv zeta. rewrite E1, E2. reflexivity.
  Qed.

  (* ---------------- PathOrAuthority ---------------- *)
  Lemma step_poa_path p buf a br pw u tl :
    (-1 <= p)%Z -> rest (p + 1) = tl -> has_prefix [47] tl = false ->
    stepf (mk PathOrAuthority p false buf a br pw u) = Cont (mk PathSt (p + 1 - 1) false buf a br pw u).
  Proof using Hrep Hfail.
    intros Hp Hr Htl. unfold_step. destruct tl as [|x l].
    - pose proof (rest_empty (p + 1)%Z ltac:(lia) Hr) as Hn.
      replace (n <=? p + 1)%Z with true by lia. cbv beta iota.
      replace (rune_error =? 47) with false by reflexivity. reflexivity.
    - destruct (rest_uncons (p + 1)%Z _ _ ltac:(lia) Hr) as [Hc [Hr' Hn]].
      replace (n <=? p + 1)%Z with false by lia. cbv beta iota. rewrite Hc.
      cbn [has_prefix] in Htl. rewrite andb_true_r, N.eqb_sym in Htl. rewrite Htl. reflexivity.
  Qed.

  Lemma step_poa_auth p buf a br pw u l :
    (-1 <= p)%Z -> rest (p + 1) = 47 :: l ->
    stepf (mk PathOrAuthority p false buf a br pw u) = Cont (mk Authority (p + 1) false buf a br pw u).
  Proof using Hrep Hfail.
    intros Hp Hr. destruct (rest_uncons (p + 1)%Z _ _ ltac:(lia) Hr) as [Hc [Hr' Hn]].
    unfold_step. replace (n <=? p + 1)%Z with false by lia. cbv beta iota. rewrite Hc. reflexivity.
  Qed.

  (* ---------------- SpecialAuthoritySlashes / SpecialAuthorityIgnoreSlashes ---------------- *)
  Lemma step_sas p buf a br pw u l :
    (-1 <= p)%Z -> rest (p + 1) = 47 :: 47 :: l ->
    stepf (mk SpecialAuthoritySlashes p false buf a br pw u) =
    Cont (mk SpecialAuthorityIgnoreSlashes (p + 1 + 1) false buf a br pw u).
  Proof using Hrep Hfail.
    intros Hp Hr. destruct (rest_uncons (p + 1)%Z _ _ ltac:(lia) Hr) as [Hc [Hr' Hn]].
    destruct (rest_uncons (p + 1 + 1)%Z _ _ ltac:(lia) Hr') as [_ [_ Hn2]].
    unfold_step. replace (n <=? p + 1)%Z with false by lia. cbv beta iota. rewrite Hc.
    unfold remainingStartsWith. rewrite Hr'. cbn [length firstn list_eqb].
    replace (47 =? 47) with true by reflexivity. cbn [andb].
    replace (n <=? p + 1 + 1)%Z with false by lia. reflexivity.
  Qed.

  Lemma step_sais p buf a br pw u x l :
    (-1 <= p)%Z -> rest (p + 1) = x :: l -> (x =? 47) = false -> (x =? 92) = false ->
    stepf (mk SpecialAuthorityIgnoreSlashes p false buf a br pw u) = Cont (mk Authority (p + 1 - 1) false buf a br pw u).
  Proof using Hrep Hfail.
    intros Hp Hr H1 H2. destruct (rest_uncons (p + 1)%Z _ _ ltac:(lia) Hr) as [Hc [Hr' Hn]].
    unfold_step. replace (n <=? p + 1)%Z with false by lia. cbv beta iota. rewrite Hc, H1, H2. reflexivity.
  Qed.

  (* ---------------- Authority ---------------- *)
  Definition at_end (tl : list N) : bool :=
    match tl with [] => true | x :: _ => (x =? 47) || (x =? 63) || (x =? 35) end.

  Definition auth_char (sp : bool) (x : N) : bool :=
    negb (x =? 64) && negb ((x =? 47) || (x =? 63) || (x =? 35)) && negb (sp && (x =? 92)) && (x <? 128).

  Lemma step_auth_char p buf a br pw u x l :
    (-1 <= p)%Z -> rest (p + 1) = x :: l -> auth_char (IsSpecialScheme c u) x = true ->
    stepf (mk Authority p false buf a br pw u) = Cont (mk Authority (p + 1) false (buf ++ [x]) a br pw u).
  Proof using Hrep Hfail.
    intros Hp Hr Hx. destruct (rest_uncons (p + 1)%Z _ _ ltac:(lia) Hr) as [Hc [Hr' Hn]].
    unfold auth_char in Hx.
    apply andb_true_iff in Hx. destruct Hx as [Hx H4]. apply andb_true_iff in Hx. destruct Hx as [Hx H3].
    apply andb_true_iff in Hx. destruct Hx as [H1 H2]. apply negb_true_iff in H1, H2, H3.
    unfold_step. replace (n <=? p + 1)%Z with false by lia. cbv beta iota. rewrite Hc, H1.
    unfold isSpecialSchemeAndBackslash. cbn [orb]. rewrite H2, H3. cbn [orb].
    rewrite (Utf8Proofs.utf8_enc_ascii x ltac:(lia)). reflexivity.
  Qed.

  Lemma auth_scan : forall X p buf a br pw u tl,
    (-1 <= p)%Z -> rest (p + 1) = X ++ tl -> forallb (auth_char (IsSpecialScheme c u)) X = true ->
    reaches (mk Authority p false buf a br pw u) (mk Authority (p + len X) false (buf ++ X) a br pw u).
  Proof using Hrep Hfail.
    induction X as [|x l IH]; intros p buf a br pw u tl Hp Hr Hl.
    - rewrite len_nil, Z.add_0_r, app_nil_r. apply reaches_refl.
    - cbn [forallb] in Hl. apply andb_true_iff in Hl. destruct Hl as [Hx Hl].
      cbn [app] in Hr. destruct (rest_uncons (p + 1)%Z x _ ltac:(lia) Hr) as [Hc [Hr' Hn]].
      eapply reaches_trans.
      + eapply reaches_step; [apply (step_auth_char p buf a br pw u x _ Hp Hr Hx)|reflexivity].
      + eapply reaches_eq; [apply (IH (p + 1)%Z _ a br pw _ tl ltac:(lia) Hr' Hl)|].
        rewrite len_cons, <- app_assoc. cbn [app]. f_equal. lia.
  Qed.

  (* the '@': the buffer is split at its first ':' *)
  Lemma step_auth_at p buf br u l :
    (-1 <= p)%Z -> rest (p + 1) = 64 :: l ->
    stepf (mk Authority p false buf false br false u) =
    (let '(pw', user', pass') := cred_loop c (runes buf) false (u_username u) (u_password u) in
     Cont (mk Authority (p + 1) false [] true br pw' (set_password (set_username u user') pass'))).
  Proof using Hrep Hfail.
    intros Hp Hr. destruct (rest_uncons (p + 1)%Z _ _ ltac:(lia) Hr) as [Hc [Hr' Hn]].
    unfold_step. replace (n <=? p + 1)%Z with false by lia. cbv beta iota. rewrite Hc.
    replace (64 =? 64) with true by reflexivity. cbv iota. rewrite (mherr_quiet c Hrep Hfail). reflexivity.
  Qed.

  Lemma step_auth_end p buf a br pw u tl :
    (-1 <= p)%Z -> rest (p + 1) = tl -> at_end tl = true -> a && is_nil buf = false ->
    stepf (mk Authority p false buf a br pw u) = Cont (mk HostSt (p + 1 - (len (runes buf) + 1)) false [] a br pw u).
  Proof using Hrep Hfail.
    intros Hp Hr He Ha. unfold_step. destruct tl as [|x l].
    - pose proof (rest_empty (p + 1)%Z ltac:(lia) Hr) as Hn.
      replace (n <=? p + 1)%Z with true by lia. cbv beta iota.
      replace (rune_error =? 64) with false by reflexivity. cbn [orb]. rewrite Ha. reflexivity.
    - destruct (rest_uncons (p + 1)%Z _ _ ltac:(lia) Hr) as [Hc [Hr' Hn]].
      replace (n <=? p + 1)%Z with false by lia. cbv beta iota. rewrite Hc.
      cbn [at_end] in He.
      assert (H64 : (x =? 64) = false) by lia. rewrite H64. cbn [orb]. rewrite He. cbn [orb]. rewrite Ha. reflexivity.
  Qed.

  (* ---------------- HostSt ---------------- *)
  Definition all_good : Prop := forall q b, rune_at inp q <> Some (Bad b).

  Definition br_next (br : bool) (r : N) : bool := if r =? 91 then true else if r =? 93 then false else br.

  Lemma step_host_char p buf a br pw u x l :
    all_good -> (-1 <= p)%Z -> rest (p + 1) = x :: l ->
    ((x =? 58) && negb br) = false -> ((x =? 47) || (x =? 63) || (x =? 35)) = false ->
    (IsSpecialScheme c u && (x =? 92)) = false -> x < 128 ->
    stepf (mk HostSt p false buf a br pw u) = Cont (mk HostSt (p + 1) false (buf ++ [x]) a (br_next br x) pw u).
  Proof using Hrep Hfail.
    intros Hgood Hp Hr H1 H2 H3 H4. destruct (rest_uncons (p + 1)%Z _ _ ltac:(lia) Hr) as [Hc [Hr' Hn]].
    unfold_step. replace (n <=? p + 1)%Z with false by lia. cbv beta iota. rewrite Hc.
    cbn [andb orb]. rewrite H1. unfold isSpecialSchemeAndBackslash. rewrite H2, H3. cbn [orb].
    rewrite (Utf8Proofs.utf8_enc_ascii x H4). unfold br_next.
    destruct (rune_at inp (p + 1)) as [[g|b]|] eqn:E; try reflexivity.
    exfalso. exact (Hgood _ _ E).
  Qed.

  Lemma step_host_colon p buf a pw u l host :
    (-1 <= p)%Z -> rest (p + 1) = 58 :: l -> is_nil buf = false ->
    parseHost idna_raw c u buf (negb (IsSpecialScheme c u)) = Ok u host ->
    stepf (mk HostSt p false buf a false pw u) = Cont (mk PortSt (p + 1) false [] a false pw (set_host u (Some host))).
  Proof using Hrep Hfail.
    intros Hp Hr Hb Hph. destruct (rest_uncons (p + 1)%Z _ _ ltac:(lia) Hr) as [Hc [Hr' Hn]].
    unfold_step. replace (n <=? p + 1)%Z with false by lia. cbv beta iota. rewrite Hc.
    cbn [andb orb]. replace (58 =? 58) with true by reflexivity. cbn [andb negb]. rewrite Hb, Hph. reflexivity.
  Qed.

  Lemma step_host_end p buf a br pw u tl host :
    (-1 <= p)%Z -> rest (p + 1) = tl -> at_end tl = true ->
    IsSpecialScheme c u && is_nil buf = false ->
    parseHost idna_raw c u buf (negb (IsSpecialScheme c u)) = Ok u host ->
    stepf (mk HostSt p false buf a br pw u) = Cont (mk PathStart (p + 1 - 1) false [] a br pw (set_host u (Some host))).
  Proof using Hrep Hfail.
    intros Hp Hr He Hb Hph. unfold_step. destruct tl as [|x l].
    - pose proof (rest_empty (p + 1)%Z ltac:(lia) Hr) as Hn.
      replace (n <=? p + 1)%Z with true by lia. cbv beta iota.
      replace (rune_error =? 58) with false by reflexivity. cbn [andb orb]. rewrite Hb, Hph. reflexivity.
    - destruct (rest_uncons (p + 1)%Z _ _ ltac:(lia) Hr) as [Hc [Hr' Hn]].
      replace (n <=? p + 1)%Z with false by lia. cbv beta iota. rewrite Hc.
      cbn [at_end] in He.
      assert (H58 : (x =? 58) = false) by lia. rewrite H58. cbn [andb orb]. rewrite He. cbn [orb].
      rewrite Hb, Hph. reflexivity.
  Qed.

  Lemma host_loop : forall h p buf a br pw u tl,
    all_good -> (-1 <= p)%Z -> rest (p + 1) = h ++ tl -> hscan (IsSpecialScheme c u) br h = true ->
    forallb (fun x => x <? 128) h = true ->
    reaches (mk HostSt p false buf a br pw u) (mk HostSt (p + len h) false (buf ++ h) a (hbr br h) pw u).
  Proof using Hrep Hfail.
    induction h as [|x l IH]; intros p buf a br pw u tl Hgood Hp Hr Hs Hl.
    - rewrite len_nil, Z.add_0_r, app_nil_r. apply reaches_refl.
    - cbn [forallb] in Hl. apply andb_true_iff in Hl. destruct Hl as [Hx Hl].
      cbn [hscan] in Hs. apply andb_true_iff in Hs. destruct Hs as [Hs Hs3].
      apply andb_true_iff in Hs. destruct Hs as [Hs1 Hs2]. apply negb_true_iff in Hs1, Hs2.
      apply orb_false_iff in Hs2. destruct Hs2 as [Hs2 Hs4].
      cbn [app] in Hr. destruct (rest_uncons (p + 1)%Z x _ ltac:(lia) Hr) as [Hc [Hr' Hn]].
      eapply reaches_trans.
      + eapply reaches_step; [apply (step_host_char p buf a br pw u x _ Hgood Hp Hr Hs1 Hs2 Hs4 ltac:(lia))|reflexivity].
      + eapply reaches_eq; [apply (IH (p + 1)%Z _ a _ pw _ tl Hgood ltac:(lia) Hr' Hs3 Hl)|].
        rewrite len_cons, <- app_assoc. cbn [app hbr]. unfold br_next. f_equal. lia.
  Qed.

  (* ---------------- PortSt ---------------- *)
  Lemma step_port_digit p buf a br pw u x l :
    (-1 <= p)%Z -> rest (p + 1) = x :: l -> is_digit x = true ->
    stepf (mk PortSt p false buf a br pw u) = Cont (mk PortSt (p + 1) false (buf ++ [x]) a br pw u).
  Proof using Hrep Hfail.
    intros Hp Hr Hx. destruct (rest_uncons (p + 1)%Z _ _ ltac:(lia) Hr) as [Hc [Hr' Hn]].
    destruct (digit_facts x Hx) as [F1 F2].
    unfold_step. replace (n <=? p + 1)%Z with false by lia. cbv beta iota. rewrite Hc, F1.
    rewrite (Utf8Proofs.utf8_enc_ascii x F2). reflexivity.
  Qed.

  Lemma port_loop : forall d p buf a br pw u tl,
    (-1 <= p)%Z -> rest (p + 1) = d ++ tl -> forallb is_digit d = true ->
    reaches (mk PortSt p false buf a br pw u) (mk PortSt (p + len d) false (buf ++ d) a br pw u).
  Proof using Hrep Hfail.
    induction d as [|x l IH]; intros p buf a br pw u tl Hp Hr Hl.
    - rewrite len_nil, Z.add_0_r, app_nil_r. apply reaches_refl.
    - cbn [forallb] in Hl. apply andb_true_iff in Hl. destruct Hl as [Hx Hl].
      cbn [app] in Hr. destruct (rest_uncons (p + 1)%Z x _ ltac:(lia) Hr) as [Hc [Hr' Hn]].
      eapply reaches_trans.
      + eapply reaches_step; [apply (step_port_digit p buf a br pw u x _ Hp Hr Hx)|reflexivity].
      + eapply reaches_eq; [apply (IH (p + 1)%Z _ a br pw _ tl ltac:(lia) Hr' Hl)|].
        rewrite len_cons, <- app_assoc. cbn [app]. f_equal. lia.
  Qed.

  Lemma step_port_end p buf a br pw u tl :
    (-1 <= p)%Z -> rest (p + 1) = tl -> at_end tl = true -> is_nil buf = false ->
    (65535 <? digits_val 10 buf) = false ->
    stepf (mk PortSt p false buf a br pw u) =
    Cont (mk PathStart (p + 1 - 1) false [] a br pw
            (cleanDefaultPort c (set_port u (Some (itoa (digits_val 10 buf))) (digits_val 10 buf)))).
  Proof using Hrep Hfail.
    intros Hp Hr He Hb Hv. unfold_step. destruct tl as [|x l].
    - pose proof (rest_empty (p + 1)%Z ltac:(lia) Hr) as Hn.
      replace (n <=? p + 1)%Z with true by lia. cbv beta iota.
      replace (isDigit rune_error) with false by reflexivity. cbn [orb negb]. rewrite Hb, Hv. reflexivity.
    - destruct (rest_uncons (p + 1)%Z _ _ ltac:(lia) Hr) as [Hc [Hr' Hn]].
      replace (n <=? p + 1)%Z with false by lia. cbv beta iota. rewrite Hc.
      cbn [at_end] in He.
      assert (Hd : isDigit x = false).
      { apply orb_true_iff in He. destruct He as [He|He]; [apply orb_true_iff in He; destruct He as [He|He]|];
          apply N.eqb_eq in He; subst x; reflexivity. }
      rewrite Hd. cbn [orb]. rewrite He. cbn [orb negb]. rewrite Hb, Hv. reflexivity.
  Qed.

  (* ---------------- PathStart ---------------- *)
  Lemma step_pathstart_slash p buf a br pw u l :
    (-1 <= p)%Z -> rest (p + 1) = 47 :: l ->
    stepf (mk PathStart p false buf a br pw u) = Cont (mk PathSt (p + 1) false buf a br pw u).
  Proof using Hrep Hfail.
    intros Hp Hr. destruct (rest_uncons (p + 1)%Z _ _ ltac:(lia) Hr) as [Hc [Hr' Hn]].
    unfold_step. replace (n <=? p + 1)%Z with false by lia. cbv beta iota. rewrite Hc.
    destruct (IsSpecialScheme c u && negb (c_skipTrailSlash c)); reflexivity.
  Qed.

  Lemma step_pathstart_q p buf a br pw u l :
    (-1 <= p)%Z -> rest (p + 1) = 63 :: l -> IsSpecialScheme c u = false ->
    stepf (mk PathStart p false buf a br pw u) = Cont (mk QuerySt (p + 1) false buf a br pw (set_query u (Some []))).
  Proof using Hrep Hfail.
    intros Hp Hr Hs. destruct (rest_uncons (p + 1)%Z _ _ ltac:(lia) Hr) as [Hc [Hr' Hn]].
    unfold_step. replace (n <=? p + 1)%Z with false by lia. cbv beta iota. rewrite Hc, Hs. reflexivity.
  Qed.

  Lemma step_pathstart_h p buf a br pw u l :
    (-1 <= p)%Z -> rest (p + 1) = 35 :: l -> IsSpecialScheme c u = false ->
    stepf (mk PathStart p false buf a br pw u) = Cont (mk FragmentSt (p + 1) false buf a br pw (set_fragment u (Some []))).
  Proof using Hrep Hfail.
    intros Hp Hr Hs. destruct (rest_uncons (p + 1)%Z _ _ ltac:(lia) Hr) as [Hc [Hr' Hn]].
    unfold_step. replace (n <=? p + 1)%Z with false by lia. cbv beta iota. rewrite Hc, Hs. reflexivity.
  Qed.

  Lemma step_pathstart_eof p buf a br pw u :
    (-1 <= p)%Z -> rest (p + 1) = [] -> IsSpecialScheme c u = false ->
    stepf (mk PathStart p false buf a br pw u) = Cont (mk PathStart (p + 1) true buf a br pw u).
  Proof using Hrep Hfail.
    intros Hp Hr Hs. pose proof (rest_empty (p + 1)%Z ltac:(lia) Hr) as Hn.
    unfold_step. replace (n <=? p + 1)%Z with true by lia. cbv beta iota. rewrite Hs. reflexivity.
  Qed.

  (* ---------------- File / FileSlash / FileHost ---------------- *)
  Lemma step_file_slash p buf a br pw u l :
    (-1 <= p)%Z -> rest (p + 1) = 47 :: l ->
    stepf (mk File p false buf a br pw u) =
    Cont (mk FileSlash (p + 1) false buf a br pw (set_host (set_scheme u s_file) (Some []))).
  Proof using Hrep Hfail.
    intros Hp Hr. destruct (rest_uncons (p + 1)%Z _ _ ltac:(lia) Hr) as [Hc [Hr' Hn]].
    unfold_step. replace (n <=? p + 1)%Z with false by lia. cbv beta iota. rewrite Hc. reflexivity.
  Qed.

  Lemma step_fileslash_slash p buf a br pw u l :
    (-1 <= p)%Z -> rest (p + 1) = 47 :: l ->
    stepf (mk FileSlash p false buf a br pw u) = Cont (mk FileHost (p + 1) false buf a br pw u).
  Proof using Hrep Hfail.
    intros Hp Hr. destruct (rest_uncons (p + 1)%Z _ _ ltac:(lia) Hr) as [Hc [Hr' Hn]].
    unfold_step. replace (n <=? p + 1)%Z with false by lia. cbv beta iota. rewrite Hc. reflexivity.
  Qed.

  Definition fh_char (x : N) : bool :=
    negb ((x =? 47) || (x =? 92) || (x =? 63) || (x =? 35)) && (x <? 128).

  Lemma step_filehost_char p buf a br pw u x l :
    (-1 <= p)%Z -> rest (p + 1) = x :: l -> fh_char x = true ->
    stepf (mk FileHost p false buf a br pw u) = Cont (mk FileHost (p + 1) false (buf ++ [x]) a br pw u).
  Proof using Hrep Hfail.
    intros Hp Hr Hx. destruct (rest_uncons (p + 1)%Z _ _ ltac:(lia) Hr) as [Hc [Hr' Hn]].
    unfold fh_char in Hx. apply andb_true_iff in Hx. destruct Hx as [H1 H2]. apply negb_true_iff in H1.
    unfold_step. replace (n <=? p + 1)%Z with false by lia. cbv beta iota. rewrite Hc.
    cbn [orb]. rewrite H1. rewrite (Utf8Proofs.utf8_enc_ascii x ltac:(lia)). reflexivity.
  Qed.

  Lemma filehost_loop : forall h p buf a br pw u tl,
    (-1 <= p)%Z -> rest (p + 1) = h ++ tl -> forallb fh_char h = true ->
    reaches (mk FileHost p false buf a br pw u) (mk FileHost (p + len h) false (buf ++ h) a br pw u).
  Proof using Hrep Hfail.
    induction h as [|x l IH]; intros p buf a br pw u tl Hp Hr Hl.
    - rewrite len_nil, Z.add_0_r, app_nil_r. apply reaches_refl.
    - cbn [forallb] in Hl. apply andb_true_iff in Hl. destruct Hl as [Hx Hl].
      cbn [app] in Hr. destruct (rest_uncons (p + 1)%Z x _ ltac:(lia) Hr) as [Hc [Hr' Hn]].
      eapply reaches_trans.
      + eapply reaches_step; [apply (step_filehost_char p buf a br pw u x _ Hp Hr Hx)|reflexivity].
      + eapply reaches_eq; [apply (IH (p + 1)%Z _ a br pw _ tl ltac:(lia) Hr' Hl)|].
        rewrite len_cons, <- app_assoc. cbn [app]. f_equal. lia.
  Qed.

  (* the end of the file host, before a '/' *)
  Lemma step_filehost_empty p a br pw u l :
    (-1 <= p)%Z -> rest (p + 1) = 47 :: l ->
    stepf (mk FileHost p false [] a br pw u) = Cont (mk PathStart (p + 1 - 1) false [] a br pw (set_host u (Some []))).
  Proof using Hrep Hfail.
    intros Hp Hr. destruct (rest_uncons (p + 1)%Z _ _ ltac:(lia) Hr) as [Hc [Hr' Hn]].
    unfold_step. replace (n <=? p + 1)%Z with false by lia. cbv beta iota. rewrite Hc. reflexivity.
  Qed.

  Lemma step_filehost_host p buf a br pw u l host :
    (-1 <= p)%Z -> rest (p + 1) = 47 :: l -> isWindowsDriveLetter buf = false -> is_nil buf = false ->
    parseHost idna_raw c u buf (negb (IsSpecialScheme c u)) = Ok u host -> str_eqb host s_localhost = false ->
    stepf (mk FileHost p false buf a br pw u) = Cont (mk PathStart (p + 1 - 1) false [] a br pw (set_host u (Some host))).
  Proof using Hrep Hfail.
    intros Hp Hr Hd Hb Hph Hl. destruct (rest_uncons (p + 1)%Z _ _ ltac:(lia) Hr) as [Hc [Hr' Hn]].
    unfold_step. replace (n <=? p + 1)%Z with false by lia. cbv beta iota. rewrite Hc.
    replace (47 =? 47) with true by reflexivity. cbn [orb negb andb]. rewrite Hd, Hb, Hph, Hl. reflexivity.
  Qed.

  (* ---------------- the authority as a whole ---------------- *)
  Definition cred_part (user pass : str) : str :=
    if negb (is_nil user) || negb (is_nil pass) then cred_str user pass ++ [64] else [].
  Definition port_part (op : option str) : str := match op with Some d => 58 :: d | None => [] end.
  Definition with_port (u : url) (op : option str) : url :=
    match op with Some d => set_port u (Some d) (digits_val 10 d) | None => u end.

  Lemma userinfo_auth_char sp x : RuneShouldBeEncoded pes_UserInfo x = false -> auth_char sp x = true.
  Proof using All.
    intros H. assert (Hx : x < 128).
    { unfold RuneShouldBeEncoded in H. destruct (bs_test (bits pes_UserInfo) x); [rewrite orb_true_r in H; discriminate|]. lia. }
    pose proof (sweep128 (fun x => implb (negb (RuneShouldBeEncoded pes_UserInfo x)) (auth_char true x && auth_char false x))
                  ltac:(vm_compute; reflexivity) x Hx) as S.
    cbv beta in S. rewrite H in S. cbn [negb implb] in S. apply andb_true_iff in S. destruct sp; apply S.
  Qed.

  Lemma cred_str_auth sp user pass :
    none_in pes_UserInfo user = true -> none_in pes_UserInfo pass = true ->
    forallb (auth_char sp) (cred_str user pass) = true /\ Forall (fun b => b < 128) (cred_str user pass).
  Proof using All.
    intros Hu Hp.
    assert (A : forall l, none_in pes_UserInfo l = true -> forallb (auth_char sp) l = true).
    { intros l. unfold none_in. apply forallb_impl. intros x Hx. apply userinfo_auth_char. apply negb_true_iff. exact Hx. }
    assert (A58 : auth_char sp 58 = true) by (destruct sp; reflexivity).
    assert (F : forallb (auth_char sp) (cred_str user pass) = true).
    { unfold cred_str. rewrite forallb_app, (A user Hu). destruct (negb (is_nil pass)); [|reflexivity].
      cbn [forallb]. rewrite A58, (A pass Hp). reflexivity. }
    split; [exact F|]. apply Forall_forall. intros x Hx. rewrite forallb_forall in F. specialize (F x Hx).
    unfold auth_char in F. apply andb_true_iff in F. destruct F as [_ F]. lia.
  Qed.

  Lemma hscan_auth sp : forall h br,
    hscan sp br h = true -> mem 64 h = false -> forallb (fun x => x <? 128) h = true ->
    forallb (auth_char sp) h = true.
  Proof using All.
    induction h as [|x h IH]; intros br Hs H64 Hl; [reflexivity|].
    cbn [hscan] in Hs. apply andb_true_iff in Hs. destruct Hs as [Hs Hs3].
    apply andb_true_iff in Hs. destruct Hs as [_ Hs2]. apply negb_true_iff in Hs2.
    apply orb_false_iff in Hs2. destruct Hs2 as [Hs2 Hs4].
    cbn [forallb] in Hl. apply andb_true_iff in Hl. destruct Hl as [Hx Hl].
    unfold mem in H64. cbn [existsb] in H64. apply orb_false_iff in H64. destruct H64 as [Hx64 H64].
    cbn [forallb]. rewrite (IH _ Hs3 H64 Hl), andb_true_r.
    unfold auth_char. rewrite Hs2, Hs4, Hx, N.eqb_sym, Hx64. reflexivity.
  Qed.

  Lemma port_auth sp d : forallb is_digit d = true -> forallb (auth_char sp) (58 :: d) = true.
  Proof using All.
    intros H. cbn [forallb]. replace (auth_char sp 58) with true by (destruct sp; reflexivity). cbn [andb].
    revert H. apply forallb_impl. intros x Hx. unfold auth_char. unfold is_digit in Hx.
    replace (x =? 64) with false by lia. replace ((x =? 47) || (x =? 63) || (x =? 35)) with false by lia.
    replace (x =? 92) with false by lia. rewrite andb_false_r. cbn [negb andb]. lia.
  Qed.

  Lemma set_cred_eta u : u_username u = [] -> u_password u = [] -> set_password (set_username u []) [] = u.
  Proof using All. destruct u. cbn. intros -> ->. reflexivity. Qed.

  (* user[:password]@ *)
  Lemma cred_phase p u user pass tl :
    (-1 <= p)%Z -> rest (p + 1) = cred_part user pass ++ tl ->
    u_username u = [] -> u_password u = [] ->
    none_in pes_UserInfo user = true -> none_in pes_UserInfo pass = true ->
    exists pw, reaches (mk Authority p false [] false false false u)
      (mk Authority (p + len (cred_part user pass)) false [] (negb (is_nil user) || negb (is_nil pass)) false pw
          (set_password (set_username u user) pass)).
  Proof using All.
    intros Hp Hr Hu0 Hp0 Hu Hpw. unfold cred_part in *.
    destruct (negb (is_nil user) || negb (is_nil pass)) eqn:E.
    - destruct (cred_str_auth (IsSpecialScheme c u) user pass Hu Hpw) as [F1 F2].
      rewrite <- app_assoc in Hr. cbn [app] in Hr.
      destruct (cred_loop_cred c user pass Hu Hpw) as [pw Hcl]. exists pw.
      eapply reaches_trans; [apply (auth_scan _ p [] false false false u _ Hp Hr F1)|].
      cbn [app]. pose proof (rest_app (p + 1)%Z _ _ ltac:(lia) Hr) as Hr'.
      replace (p + 1 + len (cred_str user pass))%Z with (p + len (cred_str user pass) + 1)%Z in Hr' by ring.
      pose proof (len_nonneg (cred_str user pass)) as Hl.
      eapply reaches_eq.
      + eapply reaches_step.
        * rewrite (step_auth_at (p + len (cred_str user pass))%Z _ false u _ ltac:(lia) Hr').
          rewrite (Utf8Proofs.runes_ascii _ F2), Hu0, Hp0, Hcl. reflexivity.
        * reflexivity.
      + rewrite len_app, len_cons, len_nil. f_equal. ring.
    - apply orb_false_iff in E. destruct E as [E1 E2]. apply negb_false_iff in E1, E2.
      apply is_nil_true in E1, E2. subst user pass. exists false.
      rewrite len_nil, Z.add_0_r, (set_cred_eta u Hu0 Hp0). apply reaches_refl.
  Qed.

  Lemma default_port_keep u d : getSpecialScheme c (u_scheme u) <> Some d ->
    cleanDefaultPort c (set_port u (Some d) (digits_val 10 d)) = set_port u (Some d) (digits_val 10 d).
  Proof using.
    intros H. unfold cleanDefaultPort. cbn [u_scheme set_port u_port].
    destruct (getSpecialScheme c (u_scheme u)) as [dp|]; [|reflexivity].
    destruct (str_eqb dp d) eqn:E; [|reflexivity]. apply str_eqb_eq in E. subst dp. congruence.
  Qed.

  Lemma auth_char_small sp X : forallb (auth_char sp) X = true -> Forall (fun b => b < 128) X.
  Proof using All.
    intros F. apply Forall_forall. intros x Hx. rewrite forallb_forall in F. specialize (F x Hx).
    unfold auth_char in F. apply andb_true_iff in F. destruct F as [_ F]. lia.
  Qed.

  (* host[:port], scanned once by the authority state and once by the host and port states *)
  Lemma host_port_phase p a pw u h op tl :
    all_good -> (-1 <= p)%Z -> rest (p + 1) = h ++ port_part op ++ tl -> at_end tl = true ->
    hscan (IsSpecialScheme c u) false h = true -> hbr false h = false -> mem 64 h = false ->
    forallb (fun x => x <? 128) h = true ->
    (h = [] -> IsSpecialScheme c u = false /\ a = false /\ op = None) ->
    (forall u0, parseHost idna_raw c u0 h (negb (IsSpecialScheme c u)) = Ok u0 h) ->
    (forall d, op = Some d -> canonical_decimal d = true /\ (digits_val 10 d <=? 65535) = true /\
                              getSpecialScheme c (u_scheme u) <> Some d) ->
    reaches (mk Authority p false [] a false pw u)
      (mk PathStart (p + len (h ++ port_part op)) false [] a false pw (with_port (set_host u (Some h)) op)).
  Proof using Hrep Hfail.
    intros Hgood Hp Hr He Hs Hbr H64 Hsm Hnil Hph Hport.
    set (sp := IsSpecialScheme c u) in *.
    set (X := h ++ port_part op).
    assert (HX : forallb (auth_char sp) X = true).
    { unfold X. rewrite forallb_app, (hscan_auth sp h false Hs H64 Hsm). destruct op as [d|]; [|reflexivity].
      destruct (Hport d eq_refl) as [Hc _]. unfold canonical_decimal in Hc. apply andb_true_iff in Hc.
      destruct Hc as [Hc _]. apply andb_true_iff in Hc. destruct Hc as [_ Hc]. unfold port_part.
      rewrite (port_auth sp d Hc). reflexivity. }
    pose proof (auth_char_small sp X HX) as HXs.
    assert (Hr' : rest (p + 1) = X ++ tl) by (unfold X; rewrite <- app_assoc; exact Hr).
    pose proof (len_nonneg X) as HlX. pose proof (len_nonneg h) as Hlh.
    eapply reaches_trans; [apply (auth_scan X p [] a false pw u tl Hp Hr' HX)|]. cbn [app].
    pose proof (rest_app (p + 1)%Z _ _ ltac:(blia) Hr') as Hr2.
    replace (p + 1 + len X)%Z with (p + len X + 1)%Z in Hr2 by ring.
    eapply reaches_trans.
    { eapply reaches_step.
      - apply (step_auth_end (p + len X)%Z X a false pw u tl ltac:(blia) Hr2 He).
        destruct a; [|reflexivity]. cbn [andb]. destruct X as [|x0 X0] eqn:EX; [|reflexivity].
        exfalso. unfold X in EX. apply app_eq_nil in EX. destruct EX as [Eh _].
        destruct (Hnil Eh) as [_ [Ea _]]. discriminate Ea.
      - reflexivity. }
    rewrite (Utf8Proofs.runes_ascii X HXs).
    replace (p + len X + 1 - (len X + 1))%Z with p by ring.
    eapply reaches_trans; [apply (host_loop h p [] a false pw u _ Hgood Hp Hr Hs Hsm)|].
    cbn [app]. rewrite Hbr.
    pose proof (rest_app (p + 1)%Z _ _ ltac:(blia) Hr) as Hr3.
    replace (p + 1 + len h)%Z with (p + len h + 1)%Z in Hr3 by ring.
    destruct op as [d|]; cbn [port_part with_port app] in *.
    - destruct (Hport d eq_refl) as [Hc [Hv Hdp]].
      assert (Hhne : is_nil h = false).
      { destruct h; [|reflexivity]. destruct (Hnil eq_refl) as [_ [_ E]]. discriminate E. }
      pose proof Hc as Hc'. unfold canonical_decimal in Hc'. apply andb_true_iff in Hc'. destruct Hc' as [Hc' _].
      apply andb_true_iff in Hc'. destruct Hc' as [Hdne Hdig]. apply negb_true_iff in Hdne.
      eapply reaches_trans.
      { eapply reaches_step; [apply (step_host_colon (p + len h)%Z h a pw u _ h ltac:(blia) Hr3 Hhne (Hph u))|reflexivity]. }
      destruct (rest_uncons (p + len h + 1)%Z _ _ ltac:(blia) Hr3) as [_ [Hr4 _]].
      eapply reaches_trans; [apply (port_loop d (p + len h + 1)%Z [] a false pw _ tl ltac:(blia) Hr4 Hdig)|].
      cbn [app]. pose proof (rest_app (p + len h + 1 + 1)%Z _ _ ltac:(blia) Hr4) as Hr5.
      pose proof (len_nonneg d) as Hld.
      replace (p + len h + 1 + 1 + len d)%Z with (p + len h + 1 + len d + 1)%Z in Hr5 by ring.
      eapply reaches_eq.
      + eapply reaches_step;
          [apply (step_port_end (p + len h + 1 + len d)%Z d a false pw _ tl ltac:(blia) Hr5 He Hdne); clear - Hv; lia
          |reflexivity].
      + rewrite (itoa_digits_val d Hc). rewrite default_port_keep by exact Hdp.
        f_equal. unfold X. rewrite len_app, len_cons. ring.
    - cbn [app] in Hr3.
      eapply reaches_eq.
      + eapply reaches_step;
          [apply (step_host_end (p + len h)%Z h a false pw u tl h ltac:(blia) Hr3 He); [|apply Hph];
           destruct h; [|apply andb_false_r]; destruct (Hnil eq_refl) as [E _]; fold sp; rewrite E; reflexivity
          |reflexivity].
      + f_equal. unfold X. rewrite app_nil_r. ring.
  Qed.

  Theorem authority_phase p u user pass h op tl :
    all_good -> (-1 <= p)%Z ->
    rest (p + 1) = cred_part user pass ++ h ++ port_part op ++ tl -> at_end tl = true ->
    u_username u = [] -> u_password u = [] ->
    none_in pes_UserInfo user = true -> none_in pes_UserInfo pass = true ->
    hscan (IsSpecialScheme c u) false h = true -> hbr false h = false -> mem 64 h = false ->
    forallb (fun x => x <? 128) h = true ->
    (h = [] -> IsSpecialScheme c u = false /\ user = [] /\ pass = [] /\ op = None) ->
    (forall u0, parseHost idna_raw c u0 h (negb (IsSpecialScheme c u)) = Ok u0 h) ->
    (forall d, op = Some d -> canonical_decimal d = true /\ (digits_val 10 d <=? 65535) = true /\
                              getSpecialScheme c (u_scheme u) <> Some d) ->
    exists a pw, reaches (mk Authority p false [] false false false u)
      (mk PathStart (p + len (cred_part user pass ++ h ++ port_part op)) false [] a false pw
         (with_port (set_host (set_password (set_username u user) pass) (Some h)) op)).
  Proof using Hrep Hfail.
    intros Hgood Hp Hr He Hu0 Hp0 Hu Hpw Hs Hbr H64 Hsm Hnil Hph Hport.
    destruct (cred_phase p u user pass _ Hp Hr Hu0 Hp0 Hu Hpw) as [pw Hc1].
    exists (negb (is_nil user) || negb (is_nil pass)), pw.
    eapply reaches_trans; [exact Hc1|].
    pose proof (rest_app (p + 1)%Z _ _ ltac:(blia) Hr) as Hr'.
    pose proof (len_nonneg (cred_part user pass)) as Hl.
    replace (p + 1 + len (cred_part user pass))%Z with (p + len (cred_part user pass) + 1)%Z in Hr' by ring.
    eapply reaches_eq.
    - apply (host_port_phase (p + len (cred_part user pass))%Z (negb (is_nil user) || negb (is_nil pass)) pw
               (set_password (set_username u user) pass) h op tl Hgood ltac:(blia) Hr' He Hs Hbr H64 Hsm).
      + intros Eh. destruct (Hnil Eh) as [E1 [E2 [E3 E4]]]. subst user pass. auto.
      + exact Hph.
      + exact Hport.
    - f_equal. rewrite (len_app (cred_part user pass)). ring.
  Qed.
End Phases.
