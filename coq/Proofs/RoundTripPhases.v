(* Round trip, part 1 (S1): phase lemmas of the state machine on serializer output.
   All statements are about [step]/[run] with diagnostics off, no base and no state override. *)
From Verif Require Import Lib.Base Lib.Utf8 Lib.GoStr Model.Cfg Gen.Tables Gen.Options Model.Sets Model.Percent
  Model.Url Model.Host Model.Machine Model.Api Model.Preds.
From Verif Require Import Proofs.SetsProofs Proofs.Cleaning Proofs.PhaseLemmas Proofs.RecordInv Proofs.RoundTripBase.
From Verif Require Proofs.Utf8Proofs.
From Coq Require Import Lia ZifyBool ZifyN ZifyNat.

Local Arguments N.mul : simpl never.
Local Arguments N.add : simpl never.
Local Arguments N.sub : simpl never.
Local Arguments N.eqb : simpl never.
Local Arguments N.ltb : simpl never.
Local Arguments N.leb : simpl never.

(* ------------------------------------------------------------------------------------------ *)
(* character classes                                                                            *)
(* ------------------------------------------------------------------------------------------ *)

Lemma lower_facts x : is_lower x = true -> isAlpha x = true /\ ascii_lower x = x /\ x < 128.
Proof.
  intros H. assert (Hx : x < 128) by (unfold is_lower in H; lia).
  pose proof (sweep128 (fun x => implb (is_lower x) (isAlpha x && (ascii_lower x =? x))) ltac:(vm_compute; reflexivity) x Hx) as S.
  cbv beta in S. rewrite H in S. cbn [implb] in S. apply andb_true_iff in S. destruct S as [S1 S2].
  repeat split; [exact S1|lia|exact Hx].
Qed.

Lemma scheme_char_facts x : scheme_char x = true ->
  is_schemechar x = true /\ ascii_lower x = x /\ x < 128.
Proof.
  intros H. assert (Hx : x < 128) by (unfold scheme_char, is_lower, is_digit in H; lia).
  pose proof (sweep128 (fun x => implb (scheme_char x) (is_schemechar x && (ascii_lower x =? x))) ltac:(vm_compute; reflexivity) x Hx) as S.
  cbv beta in S. rewrite H in S. cbn [implb] in S. apply andb_true_iff in S. destruct S as [S1 S2].
  repeat split; [exact S1|lia|exact Hx].
Qed.

Section Phases.
  Variable idna_raw : str -> str * bool.
  Variable c : cfg.
  Hypothesis Hrep : c_report c = false.
  Hypothesis Hfail : c_fail c = false.
  Variable inp : list rune.

  Notation n := (n_inp inp).
  Notation stepf := (step idna_raw c inp None None).
  Notation runf := (run idna_raw c inp None None).
  Notation cp := (cp_at inp).
  Notation rest := (rest_from inp).
  Notation reaches := (reaches idna_raw c inp).
  Notation finishes := (finishes idna_raw c inp).
  Notation rest_uncons := (rest_uncons inp).
  Notation rest_empty := (rest_empty inp).
  Notation rest_app := (rest_app inp).
  Notation reaches_refl := (reaches_refl idna_raw c Hrep Hfail inp).
  Notation reaches_trans := (reaches_trans idna_raw c Hrep Hfail inp).
  Notation reaches_step := (reaches_step idna_raw c Hrep Hfail inp).
  Notation reaches_eq := (reaches_eq idna_raw c Hrep Hfail inp).
  Notation finishes_step := (finishes_step idna_raw c Hrep Hfail inp).
  Notation reaches_finishes := (reaches_finishes idna_raw c Hrep Hfail inp).
  Notation finishes_eq := (finishes_eq idna_raw c Hrep Hfail inp).
  Notation frag_tail := (frag_tail idna_raw c Hrep Hfail inp).
  Notation query_tail := (query_tail idna_raw c Hrep Hfail inp).

  Ltac unfold_step :=
    cbv beta iota zeta delta [step mk m_state m_ptr m_eof m_buf m_at m_br m_pw m_url overridden is_some].

  Ltac quiet_enc :=
    match goal with |- (if ?b1 then _ else _) _ = _ => destruct b1 end;
    match goal with |- context [if invalid_pct ?l then _ else _] => destruct (invalid_pct l) end;
    cbv beta; repeat (rewrite (mherr_quiet c Hrep Hfail); cbv beta).

  (* ---------------- SchemeStart / Scheme ---------------- *)
  Lemma scheme_loop : forall l p buf a br pw u tl,
    (-1 <= p)%Z -> rest (p + 1) = l ++ tl -> forallb scheme_char l = true ->
    reaches (mk Scheme p false buf a br pw u) (mk Scheme (p + len l) false (buf ++ l) a br pw u).
  Proof using Hrep Hfail.
    induction l as [|x l IH]; intros p buf a br pw u tl Hp Hr Hl.
    - rewrite len_nil, Z.add_0_r, app_nil_r. apply reaches_refl.
    - cbn [forallb] in Hl. apply andb_true_iff in Hl. destruct Hl as [Hx Hl].
      cbn [app] in Hr. destruct (rest_uncons (p + 1)%Z x _ ltac:(lia) Hr) as [Hc [Hr' Hn]].
      destruct (scheme_char_facts x Hx) as [F1 [F2 F3]].
      eapply reaches_trans.
      + eapply reaches_step; [apply (step_scheme_char idna_raw c Hrep Hfail); rewrite Hc; exact F1|reflexivity].
      + rewrite Hc, F2. rewrite (Utf8Proofs.utf8_enc_ascii x F3).
        eapply reaches_eq; [apply (IH (p + 1)%Z _ a br pw u tl ltac:(lia) Hr' Hl)|].
        rewrite len_cons, <- app_assoc. cbn [app]. f_equal. lia.
  Qed.

  Theorem scheme_phase sch tl a br pw u :
    rest 0 = sch ++ 58 :: tl -> scheme_ok sch = true ->
    reaches (mk SchemeStart (-1) false [] a br pw u) (mk Scheme (len sch - 1) false sch a br pw u).
  Proof using Hrep Hfail.
    intros Hr Hs. destruct sch as [|x sch]; [discriminate|]. unfold scheme_ok in Hs.
    apply andb_true_iff in Hs. destruct Hs as [Hx Hs].
    cbn [app] in Hr. destruct (rest_uncons 0%Z x _ ltac:(lia) Hr) as [Hc [Hr' Hn]].
    destruct (lower_facts x Hx) as [F1 [F2 F3]].
    eapply reaches_trans.
    - eapply reaches_step; [apply (step_schemestart_alpha idna_raw c Hrep Hfail); rewrite Hc; exact F1|reflexivity].
    - rewrite Hc, F2, (Utf8Proofs.utf8_enc_ascii x F3). cbn [app].
      eapply reaches_eq; [apply (scheme_loop sch 0%Z [x] a br pw u (58 :: tl) ltac:(lia) Hr' Hs)|].
      rewrite len_cons. cbn [app]. f_equal. lia.
  Qed.

  (* the colon after the scheme, for every class of scheme *)
  Lemma step_scheme_colon p buf a br pw u tl :
    (-1 <= p)%Z -> rest (p + 1) = 58 :: tl ->
    stepf (mk Scheme p false buf a br pw u) =
    if str_eqb buf s_file then Cont (mk File (p + 1) false [] a br pw (set_scheme u buf))
    else if isSpecialScheme c buf then Cont (mk SpecialAuthoritySlashes (p + 1) false [] a br pw (set_scheme u buf))
    else if has_prefix [47] tl then Cont (mk PathOrAuthority (p + 1 + 1) false [] a br pw (set_scheme u buf))
    else Cont (mk OpaquePath (p + 1) false [] a br pw (set_path (set_scheme u buf) [[]] true)).
  Proof using Hrep Hfail.
    intros Hp Hr. destruct (rest_uncons (p + 1)%Z _ _ ltac:(lia) Hr) as [Hc [Hr' Hn]].
    unfold_step. replace (n <=? p + 1)%Z with false by lia. cbv beta iota. rewrite Hc.
    replace (isAlnum 58 || (58 =? 43) || (58 =? 45) || (58 =? 46)) with false by (vm_compute; reflexivity).
    replace (58 =? 58) with true by reflexivity. cbn [andb].
    change (u_scheme (set_scheme u buf)) with buf.
    change (IsSpecialScheme c (set_scheme u buf)) with (isSpecialScheme c buf).
    rewrite andb_false_r.
    destruct (str_eqb buf s_file).
    { destruct (negb (remainingStartsWith inp (p + 1) false [47; 47])); rewrite ?(mherr_quiet c Hrep Hfail); reflexivity. }
    destruct (isSpecialScheme c buf); [reflexivity|].
    unfold remainingStartsWith. rewrite Hr'. destruct tl as [|y tl']; [reflexivity|].
    destruct (rest_uncons (p + 1 + 1)%Z _ _ ltac:(lia) Hr') as [_ [_ Hn2]].
    cbn [length firstn list_eqb has_prefix]. rewrite andb_true_r. rewrite (N.eqb_sym 47 y).
    destruct (y =? 47); [|reflexivity].
    replace (n <=? p + 1 + 1)%Z with false by lia. reflexivity.
  Qed.

  (* ---------------- OpaquePath ---------------- *)
  Definition opq_char (x : N) : bool := negb (x =? 63) && negb (x =? 35) && negb (RuneShouldBeEncoded pes_C0 x).

  Lemma step_opaque_char p buf a br pw u x l :
    c_singlePct c = false ->
    (-1 <= p)%Z -> rest (p + 1) = x :: l -> opq_char x = true ->
    stepf (mk OpaquePath p false buf a br pw u) =
    Cont (mk OpaquePath (p + 1) false (buf ++ [x]) a br pw (set_path u [buf ++ [x]] true)).
  Proof using Hrep Hfail.
    intros Hsp Hp Hr Hx. destruct (rest_uncons (p + 1)%Z _ _ ltac:(lia) Hr) as [Hc [Hr' Hn]].
    unfold opq_char in Hx. apply andb_true_iff in Hx. destruct Hx as [Hx H3]. apply andb_true_iff in Hx.
    destruct Hx as [H1 H2]. apply negb_true_iff in H1, H2, H3.
    unfold_step. replace (n <=? p + 1)%Z with false by lia. cbv beta iota. rewrite Hc, H1, H2. cbn [negb].
    quiet_enc; rewrite ?(pei_id c _ x Hsp H3), ?(pe_id c _ x H3); reflexivity.
  Qed.

  Lemma step_opaque_eof p buf a br pw u :
    (-1 <= p)%Z -> rest (p + 1) = [] ->
    stepf (mk OpaquePath p false buf a br pw u) = Cont (mk OpaquePath (p + 1) true buf a br pw u).
  Proof using Hrep Hfail.
    intros Hp Hr. pose proof (rest_empty (p + 1)%Z ltac:(lia) Hr) as Hn.
    unfold_step. replace (n <=? p + 1)%Z with true by lia. cbv beta iota.
    replace (rune_error =? 63) with false by reflexivity. replace (rune_error =? 35) with false by reflexivity.
    reflexivity.
  Qed.

  Lemma step_opaque_q p buf a br pw u l :
    (-1 <= p)%Z -> rest (p + 1) = 63 :: l ->
    stepf (mk OpaquePath p false buf a br pw u) = Cont (mk QuerySt (p + 1) false [] a br pw (set_query u (Some []))).
  Proof using Hrep Hfail.
    intros Hp Hr. destruct (rest_uncons (p + 1)%Z _ _ ltac:(lia) Hr) as [Hc [Hr' Hn]].
    unfold_step. replace (n <=? p + 1)%Z with false by lia. cbv beta iota. rewrite Hc. reflexivity.
  Qed.

  Lemma step_opaque_h p buf a br pw u l :
    (-1 <= p)%Z -> rest (p + 1) = 35 :: l ->
    stepf (mk OpaquePath p false buf a br pw u) = Cont (mk FragmentSt (p + 1) false [] a br pw (set_fragment u (Some []))).
  Proof using Hrep Hfail.
    intros Hp Hr. destruct (rest_uncons (p + 1)%Z _ _ ltac:(lia) Hr) as [Hc [Hr' Hn]].
    unfold_step. replace (n <=? p + 1)%Z with false by lia. cbv beta iota. rewrite Hc. reflexivity.
  Qed.

  Lemma opaque_loop : forall l p buf a br pw u tl,
    c_singlePct c = false ->
    (-1 <= p)%Z -> rest (p + 1) = l ++ tl -> forallb opq_char l = true ->
    u_path u = [buf] -> u_opaque u = true ->
    reaches (mk OpaquePath p false buf a br pw u)
            (mk OpaquePath (p + len l) false (buf ++ l) a br pw (set_path u [buf ++ l] true)).
  Proof using Hrep Hfail.
    induction l as [|x l IH]; intros p buf a br pw u tl Hsp Hp Hr Hl Hpath Hopq.
    - rewrite len_nil, Z.add_0_r, app_nil_r. erewrite set_path_eta; [apply reaches_refl|exact Hpath|exact Hopq].
    - cbn [forallb] in Hl. apply andb_true_iff in Hl. destruct Hl as [Hx Hl].
      cbn [app] in Hr. destruct (rest_uncons (p + 1)%Z x _ ltac:(lia) Hr) as [Hc [Hr' Hn]].
      eapply reaches_trans.
      + eapply reaches_step; [apply (step_opaque_char p buf a br pw u x _ Hsp Hp Hr Hx)|reflexivity].
      + eapply reaches_eq; [apply (IH (p + 1)%Z _ a br pw _ tl Hsp ltac:(lia) Hr' Hl); reflexivity|].
        rewrite len_cons, <- app_assoc. cbn [app]. f_equal. lia.
  Qed.

  (* the whole opaque path with what follows it *)
  Theorem opaque_path_phase p a br pw u s0 oq of :
    c_singlePct c = false ->
    RuneShouldBeEncoded (queryset c u) 35 = true ->
    (-1 <= p)%Z -> rest (p + 1) = s0 ++ q_tail oq ++ f_tail of ->
    forallb opq_char s0 = true ->
    u_path u = [[]] -> u_opaque u = true ->
    (forall q, oq = Some q -> none_in (queryset c u) q = true) ->
    (forall f, of = Some f -> none_in (fragset c u) f = true) ->
    finishes (mk OpaquePath p false [] a br pw u) (with_f (with_q (set_path u [s0] true) oq) of).
  Proof using Hrep Hfail.
    intros Hsp H35 Hp Hr Hs0 Hpath Hopq Hq Hf.
    eapply reaches_finishes; [apply (opaque_loop s0 p [] a br pw u _ Hsp Hp Hr Hs0 Hpath Hopq)|].
    cbn [app]. pose proof (rest_app (p + 1)%Z _ _ ltac:(lia) Hr) as Hr'.
    replace (p + 1 + len s0)%Z with (p + len s0 + 1)%Z in Hr' by ring.
    pose proof (len_nonneg s0) as Hl.
    destruct oq as [q|]; cbn [q_tail with_q app] in *.
    - eapply reaches_finishes.
      + eapply reaches_step; [apply (step_opaque_q (p + len s0)%Z _ a br pw _ _ ltac:(lia) Hr')|reflexivity].
      + destruct (rest_uncons (p + len s0 + 1)%Z _ _ ltac:(lia) Hr') as [_ [Hr2 _]].
        eapply finishes_eq;
          [apply (query_tail (p + len s0 + 1)%Z a br pw _ q of ltac:(lia) Hr2);
           [reflexivity|exact H35|apply Hq; reflexivity|exact Hf]|].
        destruct of; reflexivity.
    - destruct of as [f|]; cbn [f_tail with_f] in *.
      + eapply reaches_finishes.
        * eapply reaches_step; [apply (step_opaque_h (p + len s0)%Z _ a br pw _ _ ltac:(lia) Hr')|reflexivity].
        * destruct (rest_uncons (p + len s0 + 1)%Z _ _ ltac:(lia) Hr') as [_ [Hr2 _]].
          eapply finishes_eq; [apply (frag_tail (p + len s0 + 1)%Z a br pw _ f ltac:(lia) Hr2); apply Hf; reflexivity|].
          reflexivity.
      + eapply finishes_eq.
        * eapply finishes_step; [apply (step_opaque_eof (p + len s0)%Z _ a br pw _ ltac:(lia) Hr')|reflexivity].
        * reflexivity.
  Qed.

  (* ---------------- PathSt ---------------- *)
  Definition path_char (sp : bool) (x : N) : bool :=
    negb (x =? 47) && negb (sp && (x =? 92)) && negb (x =? 63) && negb (x =? 35)
    && negb (RuneShouldBeEncoded (c_pathSet c) x).

  Lemma step_path_char p buf a br pw u x l :
    c_singlePct c = false ->
    (-1 <= p)%Z -> rest (p + 1) = x :: l -> path_char (IsSpecialScheme c u) x = true ->
    stepf (mk PathSt p false buf a br pw u) = Cont (mk PathSt (p + 1) false (buf ++ [x]) a br pw u).
  Proof using Hrep Hfail.
    intros Hsp Hp Hr Hx. destruct (rest_uncons (p + 1)%Z _ _ ltac:(lia) Hr) as [Hc [Hr' Hn]].
    unfold path_char in Hx.
    apply andb_true_iff in Hx. destruct Hx as [Hx H5]. apply andb_true_iff in Hx. destruct Hx as [Hx H4].
    apply andb_true_iff in Hx. destruct Hx as [Hx H3]. apply andb_true_iff in Hx. destruct Hx as [H1 H2].
    apply negb_true_iff in H1, H2, H3, H4, H5.
    unfold_step. replace (n <=? p + 1)%Z with false by lia. cbv beta iota. rewrite Hc.
    unfold isSpecialSchemeAndBackslash. rewrite H1, H2, H3, H4. cbn [negb orb andb].
    quiet_enc; rewrite ?(pei_id c _ x Hsp H5), ?(pe_id c _ x H5); reflexivity.
  Qed.

  (* what PathSt does with the buffer at the end of a segment (transcribed from [step]) *)
  Definition path_commit (u : url) (buf : str) (slashlike : bool) : url :=
    let path := u_path u in
    let replaceLast := c_collapse c && IsSpecialScheme c u && negb (is_nil path)
                       && match last_opt path with Some s => is_nil s | None => false end in
    if isDoubleDotPathSegment buf then
      let u := set_path u (shortenPath (u_scheme u) path) (u_opaque u) in
      if negb slashlike then addSegment u [] else u
    else if isSingleDotPathSegment buf && negb slashlike then
      if negb replaceLast then addSegment u [] else u
    else if negb (isSingleDotPathSegment buf) then
      let buf' :=
        if str_eqb (u_scheme u) s_file && (is_nil path || (replaceLast && (len path =? 1)%Z))
           && isWindowsDriveLetter buf && negb (c_skipDrive c)
        then match buf with b0 :: _ => [b0; 58] | [] => buf end
        else buf in
      if negb replaceLast then addSegment u buf' else set_path u (replace_last path buf') (u_opaque u)
    else u.

  Lemma step_path_slash p buf a br pw u l :
    (-1 <= p)%Z -> rest (p + 1) = 47 :: l ->
    stepf (mk PathSt p false buf a br pw u) = Cont (mk PathSt (p + 1) false [] a br pw (path_commit u buf true)).
  Proof using Hrep Hfail.
    intros Hp Hr. destruct (rest_uncons (p + 1)%Z _ _ ltac:(lia) Hr) as [Hc [Hr' Hn]].
    unfold_step. replace (n <=? p + 1)%Z with false by lia. cbv beta iota. rewrite Hc.
    unfold isSpecialSchemeAndBackslash. replace (47 =? 92) with false by reflexivity.
    rewrite !andb_false_r.
    replace (47 =? 47) with true by reflexivity. replace (47 =? 63) with false by reflexivity.
    replace (47 =? 35) with false by reflexivity. cbn [orb negb andb].
    unfold path_commit. cbv zeta.
    destruct (isDoubleDotPathSegment buf); [reflexivity|]. destruct (isSingleDotPathSegment buf); reflexivity.
  Qed.

  Lemma step_path_q p buf a br pw u l :
    (-1 <= p)%Z -> rest (p + 1) = 63 :: l ->
    stepf (mk PathSt p false buf a br pw u) =
    Cont (mk QuerySt (p + 1) false [] a br pw (set_query (path_commit u buf false) (Some []))).
  Proof using Hrep Hfail.
    intros Hp Hr. destruct (rest_uncons (p + 1)%Z _ _ ltac:(lia) Hr) as [Hc [Hr' Hn]].
    unfold_step. replace (n <=? p + 1)%Z with false by lia. cbv beta iota. rewrite Hc.
    unfold isSpecialSchemeAndBackslash. replace (63 =? 92) with false by reflexivity.
    rewrite !andb_false_r.
    replace (63 =? 47) with false by reflexivity. replace (63 =? 63) with true by reflexivity.
    cbn [orb negb andb]. unfold path_commit. cbv zeta.
    destruct (isDoubleDotPathSegment buf); [reflexivity|]. destruct (isSingleDotPathSegment buf); reflexivity.
  Qed.

  Lemma step_path_h p buf a br pw u l :
    (-1 <= p)%Z -> rest (p + 1) = 35 :: l ->
    stepf (mk PathSt p false buf a br pw u) =
    Cont (mk FragmentSt (p + 1) false [] a br pw (set_fragment (path_commit u buf false) (Some []))).
  Proof using Hrep Hfail.
    intros Hp Hr. destruct (rest_uncons (p + 1)%Z _ _ ltac:(lia) Hr) as [Hc [Hr' Hn]].
    unfold_step. replace (n <=? p + 1)%Z with false by lia. cbv beta iota. rewrite Hc.
    unfold isSpecialSchemeAndBackslash. replace (35 =? 92) with false by reflexivity.
    rewrite !andb_false_r.
    replace (35 =? 47) with false by reflexivity. replace (35 =? 63) with false by reflexivity.
    replace (35 =? 35) with true by reflexivity.
    cbn [orb negb andb]. unfold path_commit. cbv zeta.
    destruct (isDoubleDotPathSegment buf); [reflexivity|]. destruct (isSingleDotPathSegment buf); reflexivity.
  Qed.

  Lemma step_path_eof p buf a br pw u :
    (-1 <= p)%Z -> rest (p + 1) = [] ->
    stepf (mk PathSt p false buf a br pw u) = Cont (mk PathSt (p + 1) true [] a br pw (path_commit u buf false)).
  Proof using Hrep Hfail.
    intros Hp Hr. pose proof (rest_empty (p + 1)%Z ltac:(lia) Hr) as Hn.
    unfold_step. replace (n <=? p + 1)%Z with true by lia. cbv beta iota.
    unfold isSpecialSchemeAndBackslash. replace (rune_error =? 92) with false by reflexivity.
    rewrite !andb_false_r.
    replace (rune_error =? 47) with false by reflexivity. replace (rune_error =? 63) with false by reflexivity.
    replace (rune_error =? 35) with false by reflexivity.
    cbn [orb negb andb]. unfold path_commit. cbv zeta.
    destruct (isDoubleDotPathSegment buf); [reflexivity|]. destruct (isSingleDotPathSegment buf); reflexivity.
  Qed.

  Lemma path_commit_seg u buf sl :
    c_collapse c = false -> dotseg buf = false ->
    (str_eqb (u_scheme u) s_file = true -> u_path u = [] -> isWindowsDriveLetter buf = true -> c_skipDrive c = false ->
     isNormalizedWindowsDriveLetter buf = true) ->
    path_commit u buf sl = addSegment u buf.
  Proof using.
    intros Hcol Hd Hdrv. unfold dotseg in Hd. apply orb_false_iff in Hd. destruct Hd as [Hd1 Hd2].
    unfold path_commit. cbv zeta. rewrite Hd1, Hd2, Hcol. cbn [andb negb orb]. rewrite orb_false_r.
    destruct (str_eqb (u_scheme u) s_file) eqn:E1; [|reflexivity].
    destruct (is_nil (u_path u)) eqn:E2; [|reflexivity].
    destruct (isWindowsDriveLetter buf) eqn:E3; [|reflexivity].
    destruct (c_skipDrive c) eqn:E4; [reflexivity|]. cbn [andb negb].
    apply is_nil_true in E2. specialize (Hdrv eq_refl E2 eq_refl eq_refl).
    unfold isNormalizedWindowsDriveLetter in Hdrv.
    destruct buf as [|b0 [|b1 [|b2 r]]]; try discriminate Hdrv.
    apply andb_true_iff in Hdrv. destruct Hdrv as [_ Hb]. apply N.eqb_eq in Hb. subst b1. reflexivity.
  Qed.

  Lemma path_commit_dot_slash u : path_commit u [46] true = u.
  Proof using. unfold path_commit. cbv zeta. reflexivity. Qed.

  Lemma seg_loop : forall seg p buf a br pw u tl,
    c_singlePct c = false ->
    (-1 <= p)%Z -> rest (p + 1) = seg ++ tl -> forallb (path_char (IsSpecialScheme c u)) seg = true ->
    reaches (mk PathSt p false buf a br pw u) (mk PathSt (p + len seg) false (buf ++ seg) a br pw u).
  Proof using Hrep Hfail.
    induction seg as [|x l IH]; intros p buf a br pw u tl Hsp Hp Hr Hl.
    - rewrite len_nil, Z.add_0_r, app_nil_r. apply reaches_refl.
    - cbn [forallb] in Hl. apply andb_true_iff in Hl. destruct Hl as [Hx Hl].
      cbn [app] in Hr. destruct (rest_uncons (p + 1)%Z x _ ltac:(lia) Hr) as [Hc [Hr' Hn]].
      eapply reaches_trans.
      + eapply reaches_step; [apply (step_path_char p buf a br pw u x _ Hsp Hp Hr Hx)|reflexivity].
      + eapply reaches_eq; [apply (IH (p + 1)%Z _ a br pw _ tl Hsp ltac:(lia) Hr' Hl)|].
        rewrite len_cons, <- app_assoc. cbn [app]. f_equal. lia.
  Qed.

  Definition seg_good (sp : bool) (s : str) : bool := forallb (path_char sp) s && negb (dotseg s).

  (* the path, one segment after the other, and what follows it *)
  Theorem path_phase : forall segs seg p a br pw u oq of,
    c_singlePct c = false -> c_collapse c = false ->
    RuneShouldBeEncoded (queryset c u) 35 = true ->
    (-1 <= p)%Z -> rest (p + 1) = seg ++ flat_map (fun s => 47 :: s) segs ++ q_tail oq ++ f_tail of ->
    forallb (seg_good (IsSpecialScheme c u)) (seg :: segs) = true ->
    (str_eqb (u_scheme u) s_file = true -> u_path u = [] -> isWindowsDriveLetter seg = true -> c_skipDrive c = false ->
     isNormalizedWindowsDriveLetter seg = true) ->
    (forall q, oq = Some q -> none_in (queryset c u) q = true) ->
    (forall f, of = Some f -> none_in (fragset c u) f = true) ->
    finishes (mk PathSt p false [] a br pw u) (with_f (with_q (set_path u (u_path u ++ seg :: segs) false) oq) of).
  Proof using Hrep Hfail.
    induction segs as [|s1 segs IH]; intros seg p a br pw u oq of Hsp Hcol H35 Hp Hr Hg Hdrv Hq Hf.
    - cbn [flat_map app] in Hr. cbn [forallb] in Hg. rewrite andb_true_r in Hg.
      unfold seg_good in Hg. apply andb_true_iff in Hg. destruct Hg as [Hch Hnd]. apply negb_true_iff in Hnd.
      eapply reaches_finishes; [apply (seg_loop seg p [] a br pw u _ Hsp Hp Hr Hch)|].
      cbn [app]. pose proof (rest_app (p + 1)%Z _ _ ltac:(lia) Hr) as Hr'.
      replace (p + 1 + len seg)%Z with (p + len seg + 1)%Z in Hr' by ring.
      pose proof (len_nonneg seg) as Hl.
      pose proof (path_commit_seg u seg false Hcol Hnd Hdrv) as Hpc.
      destruct oq as [q|]; cbn [q_tail with_q app] in *.
      + eapply reaches_finishes.
        * eapply reaches_step; [apply (step_path_q (p + len seg)%Z _ a br pw _ _ ltac:(lia) Hr')|reflexivity].
        * destruct (rest_uncons (p + len seg + 1)%Z _ _ ltac:(lia) Hr') as [_ [Hr2 _]]. rewrite Hpc.
          eapply finishes_eq;
            [apply (query_tail (p + len seg + 1)%Z a br pw _ q of ltac:(lia) Hr2);
             [reflexivity|exact H35|apply Hq; reflexivity|exact Hf]|].
          destruct of; reflexivity.
      + destruct of as [f|]; cbn [f_tail with_f] in *.
        * eapply reaches_finishes.
          -- eapply reaches_step; [apply (step_path_h (p + len seg)%Z _ a br pw _ _ ltac:(lia) Hr')|reflexivity].
          -- destruct (rest_uncons (p + len seg + 1)%Z _ _ ltac:(lia) Hr') as [_ [Hr2 _]]. rewrite Hpc.
             eapply finishes_eq; [apply (frag_tail (p + len seg + 1)%Z a br pw _ f ltac:(lia) Hr2); apply Hf; reflexivity|].
             reflexivity.
        * eapply finishes_eq.
          -- eapply finishes_step; [apply (step_path_eof (p + len seg)%Z _ a br pw _ ltac:(lia) Hr')|reflexivity].
          -- cbn [mk m_url]. rewrite Hpc. reflexivity.
    - cbn [flat_map] in Hr. rewrite <- !app_assoc in Hr. cbn [app] in Hr.
      cbn [forallb] in Hg. apply andb_true_iff in Hg. destruct Hg as [Hg Hgs].
      unfold seg_good in Hg. apply andb_true_iff in Hg. destruct Hg as [Hch Hnd]. apply negb_true_iff in Hnd.
      eapply reaches_finishes; [apply (seg_loop seg p [] a br pw u _ Hsp Hp Hr Hch)|].
      cbn [app]. pose proof (rest_app (p + 1)%Z _ _ ltac:(lia) Hr) as Hr'.
      replace (p + 1 + len seg)%Z with (p + len seg + 1)%Z in Hr' by ring.
      pose proof (len_nonneg seg) as Hl.
      pose proof (path_commit_seg u seg true Hcol Hnd Hdrv) as Hpc.
      eapply reaches_finishes.
      + eapply reaches_step; [apply (step_path_slash (p + len seg)%Z _ a br pw _ _ ltac:(lia) Hr')|reflexivity].
      + destruct (rest_uncons (p + len seg + 1)%Z _ _ ltac:(lia) Hr') as [_ [Hr2 _]]. rewrite Hpc.
        eapply finishes_eq.
        * apply (IH s1 (p + len seg + 1)%Z a br pw (addSegment u seg) oq of Hsp Hcol H35 ltac:(lia)).
          -- rewrite Hr2, <- !app_assoc. reflexivity.
          -- exact Hgs.
          -- intros _ E. exfalso. cbn [addSegment set_path u_path] in E. destruct (u_path u); discriminate E.
          -- exact Hq.
          -- exact Hf.
        * cbn [addSegment set_path u_path]. rewrite <- app_assoc. cbn [app].
          destruct oq, of; reflexivity.
  Qed.
End Phases.
