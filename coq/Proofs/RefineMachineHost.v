(* R8: one-step simulation for the host state, the hostname state and the file host state. *)
From Verif Require Import Lib.Base Lib.Utf8 Lib.GoStr Model.Cfg Gen.Tables Gen.Options Model.Sets Model.Percent
     Model.Url Model.Host Model.Machine.
From Verif Require Spec.Url Spec.Host Spec.BasicParser.
From Verif Require Import Spec.PercentSets Spec.PercentCodec.
From Verif Require Import Proofs.Utf8Proofs Proofs.SetsProofs Proofs.RefineUtf8 Proofs.RefineCodec
     Proofs.RefineHost Proofs.RefineMachineBase.
From Verif Require Proofs.MachineInv.
From Coq Require Import Lia ZifyBool ZifyN ZifyNat.

Module MI := Verif.Proofs.MachineInv.

(* ================================================================== *)
(* "localhost"                                                          *)
(* ================================================================== *)
Lemma dec_fuel_lt58 : forall f n, Forall (fun x => x < 58) (S4.dec_fuel f n).
Proof.
  induction f as [|f IH]; intros n; [constructor|].
  cbn [S4.dec_fuel]. destruct (n <? 10) eqn:E.
  - repeat constructor. lia.
  - apply Forall_app. split; [apply IH|]. repeat constructor.
    assert (n mod 10 < 10) by (apply N.mod_lt; lia). lia.
Qed.

Lemma ipv4_serialize_lt58 a : Forall (fun x => x < 58) (S4.ipv4_serialize a).
Proof.
  rewrite Verif.Proofs.IPv4Proofs.ipv4_serialize_unfold.
  repeat (apply Forall_app; split; [apply dec_fuel_lt58|]; constructor; [lia|]).
  apply dec_fuel_lt58.
Qed.

Lemma s_localhost_ascii : Forall (fun x => x < 128) s_localhost.
Proof. unfold s_localhost. repeat (apply Forall_cons; [lia|]). apply Forall_nil. Qed.

Lemma localhost_spec hs : str_eqb (host_bytes hs) s_localhost = SB.host_is_localhost hs.
Proof.
  destruct hs as [d|a|p|o|]; cbn [SB.host_is_localhost].
  - unfold host_bytes. cbn [SU.host_serialize]. apply RP.str_eqb_encode_cps. exact s_localhost_ascii.
  - rewrite host_bytes_ipv4. destruct (str_eqb (S4.ipv4_serialize a) s_localhost) eqn:E; [|reflexivity].
    apply str_eqb_true in E. pose proof (ipv4_serialize_lt58 a) as F. rewrite E in F.
    unfold s_localhost in F. inversion F as [|x l Hx _]. lia.
  - rewrite host_bytes_ipv6. reflexivity.
  - unfold host_bytes. cbn [SU.host_serialize]. apply RP.str_eqb_encode_cps. exact s_localhost_ascii.
  - reflexivity.
Qed.

Lemma host_bytes_empty : host_bytes SU.HEmpty = [].
Proof. reflexivity. Qed.

(* ================================================================== *)
(* the host parser on a machine buffer                                  *)
(* ================================================================== *)
Section HostOnBuffer.
  Variable idna_raw : str -> str * bool.
  Variable c : cfg.
  Hypothesis Hstd : std_cfg c.
  Hypothesis Horacle : oracle_ok idna_raw c.

  Let Hl1 := std_latin1 c Hstd.

  Lemma not_bracket_dec (s : str) : (exists t, s = 91 :: t) \/ PH.not_bracket s.
  Proof.
    destruct s as [|b t]; [right; intros t E; discriminate E|].
    destruct (N.eq_dec b 91) as [->|Hb]; [left; exists t; reflexivity|].
    right. intros t' E. inversion E. congruence.
  Qed.

  Lemma parseHost_val u sbuf ns : Forall scalar sbuf -> (ns = false -> sbuf <> []) ->
    val (parseHost idna_raw c u (encode_runes sbuf) ns) =
    option_map host_bytes (SH.host_parse (dta idna_raw c) sbuf ns).
  Proof.
    intros Hsc Hne.
    pose proof (runes_encode_runes sbuf Hsc) as Hr.
    pose proof (valid_encode_runes sbuf Hsc) as Hv.
    set (buf := encode_runes sbuf) in *.
    rewrite <- Hr.
    destruct (not_bracket_dec buf) as [[t E]|Hnb].
    { rewrite E. apply R6_ipv6. exact Hstd. }
    destruct ns.
    { apply R6_opaque; assumption. }
    assert (Hbne : buf <> []).
    { intros E. apply (Hne eq_refl). apply RU.encode_runes_nil_iff. exact E. }
    destruct Horacle as [Ho1 Ho2].
    destruct (valid_utf8 (percent_decode buf)) eqn:Ed.
    - apply R6_domain; try assumption.
      intros a Ha. apply (Ho1 (percent_decode buf) a); [|exact Ed|exact Ha].
      intros En. apply Hbne. apply (PH.D_nil_inv c Hl1). rewrite (R2_decode c buf Hl1). exact En.
    - destruct (R6_domain_invalid idna_raw c Hstd u buf Hbne Hnb Hv Ed) as [E1 E2].
      { intros l Hl. apply Ho2. exact Hl. }
      rewrite E1, E2. reflexivity.
  Qed.

  (* what the machine needs: the result, and that the record is the same but for the validation errors *)
  Theorem parseHost_buf u sbuf ns : Forall scalar sbuf -> (ns = false -> sbuf <> []) ->
    match parseHost idna_raw c u (encode_runes sbuf) ns with
    | Ok u' h => exists hs v, SH.host_parse (dta idna_raw c) sbuf ns = Some hs /\ h = host_bytes hs /\
                              u' = set_verrs u v
    | Er u' e => SH.host_parse (dta idna_raw c) sbuf ns = None /\ exists v, u' = set_verrs u v
    end.
  Proof.
    intros Hsc Hne.
    pose proof (parseHost_val u sbuf ns Hsc Hne) as Hval.
    pose proof (MI.parseHost_only idna_raw c u (encode_runes sbuf) ns) as Hfr.
    unfold MI.only_verrs in Hfr.
    destruct (parseHost idna_raw c u (encode_runes sbuf) ns) as [u' h|u' e]; cbn [val MI.res_url] in *.
    - destruct (SH.host_parse (dta idna_raw c) sbuf ns) as [hs|]; [|discriminate Hval].
      cbn [option_map] in Hval. injection Hval as Hh.
      exists hs, (u_verrs u'). split; [reflexivity|]. split; [exact Hh|exact Hfr].
    - destruct (SH.host_parse (dta idna_raw c) sbuf ns) as [hs|]; [discriminate Hval|].
      split; [reflexivity|]. exists (u_verrs u'). exact Hfr.
  Qed.
End HostOnBuffer.

Print Assumptions parseHost_buf.

(* ================================================================== *)
(* the three states                                                     *)
(* ================================================================== *)
Section States.
  Variable idna_raw : str -> str * bool.
  Variable c : cfg.
  Hypothesis Hstd : std_cfg c.
  Variable inp : list rune.
  Let input : list N := map rv inp.
  Hypothesis Hinp : Forall scalar (map rv inp).
  Hypothesis Horacle : oracle_ok idna_raw c.
  Variable base : option url.
  Variable sbase : option SU.surl.
  Variable override : option state.

  Let Hfail := std_fail c Hstd.
  Let Hspecial := std_special_tab c Hstd.
  Let Hacc := std_acceptInvalid c Hstd.

  Notation sim_for := (step_sim_for idna_raw c inp base sbase override).

  Lemma is_some_map_h {A B} (f : A -> B) o : is_some (option_map f o) = is_some o.
  Proof. destruct o; reflexivity. Qed.

  (* the code points of the input are scalar values *)
  Lemma cp_scalar p : (0 <= p)%Z -> (p < n_inp inp)%Z -> scalar (cp_at inp p).
  Proof.
    intros H0 Hn. unfold cp_at. replace (p <? 0)%Z with false by lia.
    rewrite nth_opt_nth_error.
    destruct (nth_error inp (Z.to_nat p)) as [x|] eqn:E.
    - rewrite Forall_forall in Hinp. apply Hinp. apply in_map. exact (nth_error_In _ _ E).
    - apply nth_error_None in E. unfold n_inp, len in Hn. lia.
  Qed.

  (* the two ways of reading the code point under the pointer *)
  Definition reads (p : Z) (eof : bool) (r : N) (cc : option N) : Prop :=
    (forall x, x <> 65533 -> SB.c_is cc x = (r =? x)) /\
    SB.c_is_eof cc = eof /\
    eof = (n_inp inp <=? p)%Z /\
    (eof = false -> cc = Some r /\ scalar r).

  Lemma reads_eof p : (n_inp inp <= p)%Z -> reads p true rune_error None.
  Proof.
    intros H. unfold reads. split; [|split; [reflexivity|split; [lia|discriminate]]].
    intros x Hx. cbn [SB.c_is]. unfold rune_error. lia.
  Qed.

  Lemma reads_cp p : (0 <= p)%Z -> (p < n_inp inp)%Z -> reads p false (cp_at inp p) (Some (cp_at inp p)).
  Proof.
    intros H0 Hn. unfold reads. split; [|split; [reflexivity|split; [lia|]]].
    - intros x _. reflexivity.
    - intros _. split; [reflexivity|apply cp_scalar; assumption].
  Qed.

  Lemma hostname_override :
    match override with Some HostnameSt => true | _ => false end =
    match option_map st_map override with Some s => SB.is_hostname_state s | None => false end.
  Proof. destruct override as [[]|]; reflexivity. Qed.

  Lemma enc_snoc l r : encode_runes l ++ utf8_enc r = encode_runes (l ++ [r]).
  Proof. rewrite enc_runes_app. unfold encode_runes at 3. cbn [flat_map]. rewrite app_nil_r. reflexivity. Qed.

  Lemma is_nil_false {A} (l : list A) : is_nil l = false -> l <> [].
  Proof. intros H E. subst l. discriminate H. Qed.

  Lemma is_nil_true {A} (l : list A) : is_nil l = true -> l = [].
  Proof. destruct l; [reflexivity|discriminate]. Qed.

  (* ---------------------------------------------------------------- *)
  (* host state and hostname state                                     *)
  (* ---------------------------------------------------------------- *)
  (* the model's branch for the two states, as a function of the state *)
  Definition host_body (st : state) (p : Z) (eof : bool) (r : N) (buf : str) (atF brF pwF : bool) (u : url)
    : outcome :=
    let special (u : url) := IsSpecialScheme c u in
    let sab (u : url) := isSpecialSchemeAndBackslash c u r in
    let go_rw st' (u' : url) := Cont (mk st' (p - 1)%Z false buf atF brF pwF u') in
    if overridden override && str_eqb (u_scheme u) s_file then go_rw FileHost u
    else if (r =? 58) && negb brF then
      (if is_nil buf then (fun k => mherr c u HostMissing true k) else (fun k => k u))
      (fun u =>
         if match override with Some HostnameSt => true | _ => false end then RetUrl u
         else match parseHost idna_raw c u buf (negb (special u)) with
              | Er u e => RetErr u e
              | Ok u host => Cont (mk PortSt p eof [] atF brF pwF (set_host u (Some host)))
              end)
    else if eof || ((r =? 47) || (r =? 63) || (r =? 35) || sab u) then
      if special u && is_nil buf then mherr c u HostMissing true (go_rw st)
      else if overridden override && is_nil buf &&
              (negb (is_nil (u_username u)) || negb (is_nil (u_password u)) || is_some (u_port u))
      then RetUrl u
      else match parseHost idna_raw c u buf (negb (special u)) with
           | Er u e => RetErr u e
           | Ok u host =>
               let u := set_host u (Some host) in
               if overridden override then RetUrl u
               else Cont (mk PathStart (p - 1)%Z false [] atF brF pwF u)
           end
    else
      let brF' := if r =? 91 then true else if r =? 93 then false else brF in
      let bytes :=
        match rune_at inp p with
        | Some (Bad b) => if c_acceptInvalid c then [b] else utf8_enc r
        | _ => utf8_enc r
        end in
      Cont (mk st p eof (buf ++ bytes) atF brF' pwF u).

  Lemma step_host mm : m_state mm = HostSt \/ m_state mm = HostnameSt ->
    step idna_raw c inp base override mm =
    host_body (m_state mm) (m_ptr mm + 1)%Z
      (if (n_inp inp <=? m_ptr mm + 1)%Z then true else m_eof mm)
      (if (n_inp inp <=? m_ptr mm + 1)%Z then rune_error else cp_at inp (m_ptr mm + 1)%Z)
      (m_buf mm) (m_at mm) (m_br mm) (m_pw mm) (m_url mm).
  Proof. intros [H|H]; unfold step; rewrite H; reflexivity. Qed.

  Lemma st_rel_host ov st ptr buf mu sm : st = HostSt \/ st = HostnameSt ->
    (st_rel ov sbase st ptr buf mu sm <->
     buf = encode_runes (SB.m_buffer sm) /\ Forall scalar (SB.m_buffer sm) /\ R mu (SB.m_url sm) /\
     list_path (SB.m_url sm)).
  Proof. intros [-> | ->]; reflexivity. Qed.

  (* lia in a small context (many boolean hypotheses make it very slow) *)
  Ltac zl_ A B C D := clear - A B C D; lia.

  Theorem sim_host : sim_for (fun st => st = HostSt \/ st = HostnameSt).
  Proof.
    intros mm sm Hst0 [Hs Hp He Hlo Hhi Hfl Hb].
    apply (st_rel_host _ _ _ _ _ _ Hst0) in Hb. destruct Hb as [Hbuf [Hsc [HR Hlp]]].
    destruct Hfl as [Hat [Hbr Hpw]].
    assert (Esp : sstep idna_raw c inp sbase override sm =
                  SB.host_state (dta idna_raw c) (option_map st_map override) sm
                    (SB.c_of (SB.substring_from (map rv inp) (SB.m_pointer sm)))).
    { unfold sstep, SB.step. rewrite <- Hs. destruct Hst0 as [E|E]; rewrite E; reflexivity. }
    unfold mstep. rewrite (step_host mm Hst0), Esp. rewrite He, Hp.
    set (p := (m_ptr mm + 1)%Z).
    assert (core : forall eof r cc, reads p eof r cc ->
      out_rel inp (is_some override) sbase
        (host_body (m_state mm) p eof r (m_buf mm) (m_at mm) (m_br mm) (m_pw mm) (m_url mm))
        (SB.host_state (dta idna_raw c) (option_map st_map override) sm cc)).
    { intros eof r cc [H1 [H2 [H3 H4]]].
      unfold host_body, SB.host_state, SB.override_given, overridden. cbv zeta. rewrite is_some_map_h.
      rewrite (R_scheme_file _ _ HR).
      destruct (is_some override && SU.cps_eqb (SU.u_scheme (SB.m_url sm)) SU.sc_file) eqn:E1.
      { (* 1: to the file host state *)
        cbn [out_rel].
        constructor; unfold mk; cbn [m_state m_ptr m_eof m_buf m_at m_br m_pw m_url st_map st_rel].
        - destruct sm; reflexivity.
        - destruct sm; cbn [SB.m_pointer SB.set_state SB.decrease_pointer SB.set_pointer] in *. zl_ Hlo Hhi Hp H3.
        - zl_ Hlo Hhi Hp H3.
        - rewrite points_to_eof_spec. zl_ Hlo Hhi Hp H3.
        - destruct sm; exact (conj Hat (conj Hbr Hpw)).
        - destruct sm; exact (conj Hbuf (conj Hsc (conj HR Hlp))).
        - discriminate. }
      rewrite (H1 58) by discriminate. rewrite <- Hbr.
      destruct ((r =? 58) && negb (m_br mm)) eqn:E2.
      { (* 2: a colon outside brackets *)
        rewrite <- (is_nil_enc (SB.m_buffer sm)), <- Hbuf.
        destruct (is_nil (m_buf mm)) eqn:En.
        { destruct (mherr_fatal c (m_url mm) HostMissing
            (fun u => if match override with Some HostnameSt => true | _ => false end then RetUrl u
                      else match parseHost idna_raw c u (m_buf mm) (negb (IsSpecialScheme c u)) with
                           | Er u0 e => RetErr u0 e
                           | Ok u0 host => Cont (mk PortSt p eof [] (m_at mm) (m_br mm) (m_pw mm)
                                                   (set_host u0 (Some host)))
                           end)) as [e ->].
          cbn [out_rel]. apply R_noted. exact HR. }
        cbv beta. rewrite hostname_override.
        destruct (match option_map st_map override with Some s => SB.is_hostname_state s | None => false end).
        { cbn [out_rel]. exact HR. }
        assert (Hne : SB.m_buffer sm <> []).
        { apply is_nil_false. rewrite <- is_nil_enc, <- Hbuf. exact En. }
        pose proof (parseHost_buf idna_raw c Hstd Horacle (m_url mm) (SB.m_buffer sm)
                      (negb (IsSpecialScheme c (m_url mm))) Hsc (fun _ => Hne)) as Hph.
        rewrite <- Hbuf in Hph. rewrite (R_special c _ _ Hspecial HR) in Hph |- *.
        destruct (parseHost idna_raw c (m_url mm) (m_buf mm) (negb (SU.url_is_special (SB.m_url sm))))
          as [u' h|u' e].
        - destruct Hph as (hs & v & Ehp & -> & ->). rewrite Ehp. cbn [out_rel].
          constructor; unfold mk; cbn [m_state m_ptr m_eof m_buf m_at m_br m_pw m_url st_map st_rel].
          + destruct sm; reflexivity.
          + destruct sm; exact Hp.
          + zl_ Hlo Hhi Hp H3.
          + rewrite points_to_eof_spec. zl_ Hlo Hhi Hp H3.
          + destruct sm; exact (conj Hat (conj Hbr Hpw)).
          + destruct sm as [su sst sbuf sa sbr spw sp].
            cbn [SB.m_url SB.m_buffer SB.set_url SB.set_buffer SB.set_state] in *.
            split; [reflexivity|]. split; [reflexivity|]. split.
            * apply (R_set_host _ _ (Some hs)). apply R_set_verrs. exact HR.
            * intros _. exact Hlp.
          + intros _. destruct sm as [su sst sbuf sa sbr spw sp].
            cbn [SB.m_url SB.m_buffer SB.set_url SB.set_buffer SB.set_state] in *.
            apply (R_set_host _ _ (Some hs)). apply R_set_verrs. exact HR.
        - destruct Hph as [Ehp [v ->]]. rewrite Ehp. cbn [out_rel]. apply R_set_verrs. exact HR. }
      (* 3: the end of the authority *)
      unfold SB.ends_authority, SB.special, isSpecialSchemeAndBackslash.
      rewrite H2, (H1 47), (H1 63), (H1 35), (H1 92) by discriminate.
      rewrite !(R_special c _ _ Hspecial HR).
      replace (eof || ((r =? 47) || (r =? 63) || (r =? 35) || SU.url_is_special (SB.m_url sm) && (r =? 92)))
        with (eof || (r =? 47) || (r =? 63) || (r =? 35) || SU.url_is_special (SB.m_url sm) && (r =? 92))
        by (destruct eof, (r =? 47), (r =? 63), (r =? 35); reflexivity).
      destruct (eof || (r =? 47) || (r =? 63) || (r =? 35) || SU.url_is_special (SB.m_url sm) && (r =? 92)) eqn:ET.
      { rewrite <- (is_nil_enc (SB.m_buffer sm)), <- Hbuf.
        destruct (SU.url_is_special (SB.m_url sm) && is_nil (m_buf mm)) eqn:E3.
        { destruct (mherr_fatal c (m_url mm) HostMissing
            (fun u' => Cont (mk (m_state mm) (p - 1)%Z false (m_buf mm) (m_at mm) (m_br mm) (m_pw mm) u')))
            as [e ->].
          cbn [out_rel]. destruct sm. apply R_noted. exact HR. }
        rewrite (RU.R_includes_credentials _ _ HR), (R_port_some _ _ HR).
        replace (SU.u_port (SB.m_url (SB.decrease_pointer sm 1))) with (SU.u_port (SB.m_url sm))
          by (destruct sm; reflexivity).
        destruct (is_some override && is_nil (m_buf mm) &&
                  (SU.includes_credentials (SB.m_url sm) || is_some (SU.u_port (SB.m_url sm)))) eqn:E4.
        { cbn [out_rel]. exact HR. }
        assert (Hne : negb (SU.url_is_special (SB.m_url sm)) = false -> SB.m_buffer sm <> []).
        { intros Hs'. apply is_nil_false. rewrite <- is_nil_enc, <- Hbuf.
          destruct (SU.url_is_special (SB.m_url sm)); [|discriminate Hs'].
          destruct (is_nil (m_buf mm)); [discriminate E3|reflexivity]. }
        pose proof (parseHost_buf idna_raw c Hstd Horacle (m_url mm) (SB.m_buffer sm)
                      (negb (SU.url_is_special (SB.m_url sm))) Hsc Hne) as Hph.
        rewrite <- Hbuf in Hph.
        destruct (parseHost idna_raw c (m_url mm) (m_buf mm) (negb (SU.url_is_special (SB.m_url sm))))
          as [u' h|u' e].
        - destruct Hph as (hs & v & Ehp & -> & ->). rewrite Ehp.
          assert (HR' : R (set_host (set_verrs (m_url mm) v) (Some (host_bytes hs)))
                          (SU.with_host (SB.m_url sm) (Some hs))).
          { apply (R_set_host _ _ (Some hs)). apply R_set_verrs. exact HR. }
          destruct (is_some override) eqn:Eov.
          + cbn [out_rel]. destruct sm as [su sst sbuf sa sbr spw sp].
            cbn [SB.m_url SB.m_buffer SB.set_url SB.set_buffer SB.set_state SB.decrease_pointer SB.set_pointer] in *.
            exact HR'.
          + cbn [out_rel].
            constructor; unfold mk; cbn [m_state m_ptr m_eof m_buf m_at m_br m_pw m_url st_map st_rel].
            * destruct sm; reflexivity.
            * destruct sm; cbn [SB.m_pointer SB.set_state SB.decrease_pointer SB.set_pointer SB.set_url SB.set_buffer] in *. zl_ Hlo Hhi Hp H3.
            * zl_ Hlo Hhi Hp H3.
            * rewrite points_to_eof_spec. zl_ Hlo Hhi Hp H3.
            * destruct sm; exact (conj Hat (conj Hbr Hpw)).
            * destruct sm as [su sst sbuf sa sbr spw sp].
              cbn [SB.m_url SB.m_buffer SB.set_url SB.set_buffer SB.set_state SB.decrease_pointer SB.set_pointer] in *.
              split; [reflexivity|]. split; [reflexivity|]. split; [exact HR'|exact Hlp].
            * discriminate.
        - destruct Hph as [Ehp [v ->]]. rewrite Ehp. cbn [out_rel]. apply R_set_verrs. exact HR. }
      (* 4: one more code point *)
      assert (Eeof : eof = false) by (destruct eof; [discriminate ET|reflexivity]).
      destruct (H4 Eeof) as [-> Hr].
      assert (Ebytes : match rune_at inp p with
                       | Some (Bad b) => if c_acceptInvalid c then [b] else utf8_enc r
                       | _ => utf8_enc r
                       end = utf8_enc r).
      { rewrite Hacc. destruct (rune_at inp p) as [[g|b]|]; reflexivity. }
      rewrite Ebytes, Eeof.
      assert (G : forall br sm', SB.m_insideBrackets sm' = br ->
                  SB.m_url sm' = SB.m_url sm -> SB.m_state sm' = SB.m_state sm -> SB.m_buffer sm' = SB.m_buffer sm ->
                  SB.m_atSignSeen sm' = SB.m_atSignSeen sm -> SB.m_passwordTokenSeen sm' = SB.m_passwordTokenSeen sm ->
                  SB.m_pointer sm' = SB.m_pointer sm ->
        out_rel inp (is_some override) sbase
          (Cont (mk (m_state mm) p false (m_buf mm ++ utf8_enc r) (m_at mm) br (m_pw mm) (m_url mm)))
          (SB.SCont (SB.append_to_buffer sm' r))).
      { intros br sm' Gbr Gu Gst Gb Ga Gpw Gp. cbn [out_rel].
        destruct sm' as [su' sst' sbuf' sa' sbr' spw' sp'].
        cbn [SB.m_url SB.m_buffer SB.m_state SB.m_atSignSeen SB.m_insideBrackets SB.m_passwordTokenSeen SB.m_pointer] in *.
        subst su' sst' sbuf' sa' sbr' spw' sp'.
        constructor; unfold mk; cbn [m_state m_ptr m_eof m_buf m_at m_br m_pw m_url].
        - exact Hs.
        - exact Hp.
        - zl_ Hlo Hhi Hp H3.
        - rewrite points_to_eof_spec. clear - Hlo Hhi H3 Eeof. lia.
        - exact (conj Hat (conj eq_refl Hpw)).
        - apply (st_rel_host _ _ _ _ _ _ Hst0).
          cbn [SB.m_url SB.m_buffer SB.append_to_buffer SB.set_buffer].
          split; [rewrite Hbuf; apply enc_snoc|]. split.
          + apply Forall_app. split; [exact Hsc|]. constructor; [exact Hr|constructor].
          + split; [exact HR|exact Hlp].
        - discriminate. }
      destruct (r =? 91) eqn:E91; destruct (r =? 93) eqn:E93.
      - exfalso. clear - E91 E93. lia.
      - apply G; destruct sm; reflexivity.
      - apply G; destruct sm; reflexivity.
      - apply G; try reflexivity. symmetry. exact Hbr. }
    destruct (n_inp inp <=? p)%Z eqn:En.
    - unfold input. rewrite here_eof by (clear - En; lia). cbn [SB.c_of hd_error]. apply core. apply reads_eof. clear - En; lia.
    - unfold input. rewrite (here_cons inp p) by (clear - En Hlo; lia). cbn [SB.c_of hd_error]. apply core.
      apply reads_cp; clear - En Hlo; lia.
  Qed.

  (* ---------------------------------------------------------------- *)
  (* file host state                                                   *)
  (* ---------------------------------------------------------------- *)
  Theorem sim_file_host : sim_for (fun st => st = FileHost).
  Proof.
    intros mm sm Hst [Hs Hp He Hlo Hhi Hfl Hb].
    rewrite Hst in Hs, Hb. cbn [st_map] in Hs. cbn [st_rel] in Hb. destruct Hb as [Hbuf [Hsc [HR Hlp]]].
    unfold mstep, sstep, step, SB.step. rewrite Hst, <- Hs. cbv beta iota zeta. rewrite He, Hp.
    set (p := (m_ptr mm + 1)%Z).
    assert (core : forall eof r cc, reads p eof r cc ->
      out_rel inp (is_some override) sbase
        (if eof || (r =? 47) || (r =? 92) || (r =? 63) || (r =? 35)
         then
           if negb (overridden override) && isWindowsDriveLetter (m_buf mm)
           then mherr c (m_url mm) FileInvalidWindowsDriveLetterHost false
                  (fun u' => Cont (mk PathSt (p - 1)%Z false (m_buf mm) (m_at mm) (m_br mm) (m_pw mm) u'))
           else if is_nil (m_buf mm)
             then if overridden override then RetNilNil (set_host (m_url mm) (Some []))
                  else Cont (mk PathStart (p - 1)%Z false (m_buf mm) (m_at mm) (m_br mm) (m_pw mm)
                               (set_host (m_url mm) (Some [])))
             else match parseHost idna_raw c (m_url mm) (m_buf mm) (negb (IsSpecialScheme c (m_url mm))) with
                  | Ok u host =>
                      if overridden override
                      then RetUrl (set_host u (Some (if str_eqb host s_localhost then [] else host)))
                      else Cont (mk PathStart (p - 1)%Z false [] (m_at mm) (m_br mm) (m_pw mm)
                                   (set_host u (Some (if str_eqb host s_localhost then [] else host))))
                  | Er u e => RetErr u e
                  end
         else Cont (mk FileHost p eof (m_buf mm ++ utf8_enc r) (m_at mm) (m_br mm) (m_pw mm) (m_url mm)))
        (SB.file_host_state (dta idna_raw c) (option_map st_map override) sm cc)).
    { intros eof r cc [H1 [H2 [H3 H4]]].
      unfold SB.file_host_state, SB.override_given, overridden. cbv zeta. rewrite is_some_map_h.
      rewrite H2, (H1 47), (H1 92), (H1 63), (H1 35) by discriminate.
      destruct (eof || (r =? 47) || (r =? 92) || (r =? 63) || (r =? 35)) eqn:ET.
      { (* 1: the end of the host *)
        replace (SB.m_buffer (SB.decrease_pointer sm 1)) with (SB.m_buffer sm) by (destruct sm; reflexivity).
        rewrite Hbuf at 1. rewrite RP.windows_drive_letter_enc.
        destruct (negb (is_some override) && SB.is_windows_drive_letter (SB.m_buffer sm)) eqn:E1.
        { (* 1.1: a Windows drive letter; the buffer is kept for the path state *)
          rewrite mherr_warn by exact Hfail. cbn [out_rel].
          constructor; unfold mk; cbn [m_state m_ptr m_eof m_buf m_at m_br m_pw m_url st_map st_rel].
          - destruct sm; reflexivity.
          - destruct sm; cbn [SB.m_pointer SB.set_state SB.decrease_pointer SB.set_pointer] in *. zl_ Hlo Hhi Hp H3.
          - zl_ Hlo Hhi Hp H3.
          - rewrite points_to_eof_spec. zl_ Hlo Hhi Hp H3.
          - destruct sm; exact Hfl.
          - destruct sm. exact (conj Hbuf (conj Hsc (conj (R_noted c _ _ _ _ HR) Hlp))).
          - discriminate. }
        rewrite <- (is_nil_enc (SB.m_buffer sm)), <- Hbuf.
        destruct (is_nil (m_buf mm)) eqn:En.
        { (* 1.2: the empty host *)
          assert (HR' : R (set_host (m_url mm) (Some [])) (SU.with_host (SB.m_url sm) (Some SU.HEmpty))).
          { exact (R_set_host _ _ (Some SU.HEmpty) HR). }
          assert (Esb : SB.m_buffer sm = []).
          { apply is_nil_true. rewrite <- is_nil_enc, <- Hbuf. exact En. }
          destruct (is_some override) eqn:Eov.
          - cbn [out_rel]. split; [reflexivity|destruct sm; exact HR'].
          - cbn [out_rel].
            constructor; unfold mk; cbn [m_state m_ptr m_eof m_buf m_at m_br m_pw m_url st_map st_rel].
            + destruct sm; reflexivity.
            + destruct sm; cbn [SB.m_pointer SB.set_state SB.decrease_pointer SB.set_pointer SB.set_url] in *.
              zl_ Hlo Hhi Hp H3.
            + zl_ Hlo Hhi Hp H3.
            + rewrite points_to_eof_spec. zl_ Hlo Hhi Hp H3.
            + destruct sm; exact Hfl.
            + destruct sm as [su sst sbuf sa sbr spw sp].
              cbn [SB.m_url SB.m_buffer SB.set_url SB.set_buffer SB.set_state SB.decrease_pointer SB.set_pointer] in *.
              split; [apply is_nil_true; exact En|]. split; [exact Esb|]. split; [exact HR'|exact Hlp].
            + discriminate. }
        (* 1.3: host parsing *)
        assert (Hne : SB.m_buffer sm <> []).
        { apply is_nil_false. rewrite <- is_nil_enc, <- Hbuf. exact En. }
        pose proof (parseHost_buf idna_raw c Hstd Horacle (m_url mm) (SB.m_buffer sm)
                      (negb (IsSpecialScheme c (m_url mm))) Hsc (fun _ => Hne)) as Hph.
        rewrite <- Hbuf in Hph. rewrite (R_special c _ _ Hspecial HR) in Hph |- *.
        replace (SB.m_url (SB.decrease_pointer sm 1)) with (SB.m_url sm) by (destruct sm; reflexivity).
        destruct (parseHost idna_raw c (m_url mm) (m_buf mm) (negb (SU.url_is_special (SB.m_url sm))))
          as [u' h|u' e].
        - destruct Hph as (hs & v & Ehp & -> & ->). rewrite Ehp. rewrite localhost_spec.
          assert (HR' : R (set_host (set_verrs (m_url mm) v)
                             (Some (if SB.host_is_localhost hs then [] else host_bytes hs)))
                          (SU.with_host (SB.m_url sm) (Some (if SB.host_is_localhost hs then SU.HEmpty else hs)))).
          { destruct (SB.host_is_localhost hs).
            - apply (R_set_host _ _ (Some SU.HEmpty)). apply R_set_verrs. exact HR.
            - apply (R_set_host _ _ (Some hs)). apply R_set_verrs. exact HR. }
          destruct (is_some override) eqn:Eov.
          + cbn [out_rel]. exact HR'.
          + cbn [out_rel].
            constructor; unfold mk; cbn [m_state m_ptr m_eof m_buf m_at m_br m_pw m_url st_map st_rel].
            * destruct sm; reflexivity.
            * destruct sm; cbn [SB.m_pointer SB.set_state SB.decrease_pointer SB.set_pointer SB.set_url SB.set_buffer] in *.
              zl_ Hlo Hhi Hp H3.
            * zl_ Hlo Hhi Hp H3.
            * rewrite points_to_eof_spec. zl_ Hlo Hhi Hp H3.
            * destruct sm; exact Hfl.
            * destruct sm as [su sst sbuf sa sbr spw sp].
              cbn [SB.m_url SB.m_buffer SB.set_url SB.set_buffer SB.set_state SB.decrease_pointer SB.set_pointer] in *.
              split; [reflexivity|]. split; [reflexivity|]. split; [exact HR'|exact Hlp].
            * discriminate.
        - destruct Hph as [Ehp [v ->]]. rewrite Ehp. cbn [out_rel]. apply R_set_verrs. exact HR. }
      (* 2: one more code point *)
      assert (Eeof : eof = false) by (destruct eof; [discriminate ET|reflexivity]).
      destruct (H4 Eeof) as [-> Hr]. rewrite Eeof. cbn [out_rel].
      constructor; unfold mk; cbn [m_state m_ptr m_eof m_buf m_at m_br m_pw m_url st_map st_rel].
      - destruct sm; exact Hs.
      - destruct sm; exact Hp.
      - zl_ Hlo Hhi Hp H3.
      - rewrite points_to_eof_spec. clear - Hlo Hhi H3 Eeof. lia.
      - destruct sm; exact Hfl.
      - destruct sm as [su sst sbuf sa sbr spw sp].
        cbn [SB.m_url SB.m_buffer SB.append_to_buffer SB.set_buffer] in *.
        split; [rewrite Hbuf; apply enc_snoc|]. split.
        + apply Forall_app. split; [exact Hsc|]. constructor; [exact Hr|constructor].
        + split; [exact HR|exact Hlp].
      - discriminate. }
    destruct (n_inp inp <=? p)%Z eqn:En.
    - unfold input. rewrite here_eof by (clear - En; lia). cbn [SB.c_of hd_error]. apply core. apply reads_eof.
      clear - En; lia.
    - unfold input. rewrite (here_cons inp p) by (clear - En Hlo; lia). cbn [SB.c_of hd_error]. apply core.
      apply reads_cp; clear - En Hlo; lia.
  Qed.
End States.

Print Assumptions sim_host.
Print Assumptions sim_file_host.

(* ================================================================== *)
(* the premises hold of concrete values                                 *)
(* ================================================================== *)
(* an oracle that lower-cases ASCII domains and rejects everything else *)
Definition ascii_idna (s : str) : str * bool :=
  if forallb (fun b => b <? 128) s then (str_lower s, false) else ([], false).

Lemma ascii_lower_lt128 b : b < 128 -> ascii_lower b < 128.
Proof. intros H. unfold ascii_lower, is_upper. destruct ((65 <=? b) && (b <=? 90)) eqn:E; lia. Qed.

Lemma encode_not_ascii l : In 65533 l -> forallb (fun b => b <? 128) (utf8_encode l) = false.
Proof.
  unfold utf8_encode. induction l as [|x l IH]; intros H; [contradiction|].
  cbn [flat_map]. rewrite forallb_app. destruct H as [->|H].
  - reflexivity.
  - rewrite (IH H). apply andb_false_r.
Qed.

Example oracle_ok_ex : oracle_ok ascii_idna default_cfg.
Proof.
  split.
  - intros d a Hne _ H. destruct d as [|b d']; [congruence|].
    unfold ToASCII in H. replace (c_latin1 default_cfg) with false in H by reflexivity.
    replace (c_lax default_cfg) with false in H by reflexivity.
    unfold ascii_idna in H. destruct (forallb (fun b0 => b0 <? 128) (b :: d')) eqn:Ea.
    + cbn [andb str_lower map is_nil] in H. injection H as <-. split; [discriminate|].
      rewrite forallb_forall in Ea. apply Forall_forall. intros y Hy.
      change (ascii_lower b :: map ascii_lower d') with (map ascii_lower (b :: d')) in Hy.
      apply in_map_iff in Hy. destruct Hy as [x [<- Hx]]. apply ascii_lower_lt128.
      specialize (Ea x Hx). lia.
    + cbn [andb is_nil] in H. discriminate H.
  - intros l Hl. pose proof (encode_not_ascii l Hl) as E.
    unfold ToASCII. destruct (utf8_encode l) as [|b s] eqn:Eu; [discriminate E|].
    replace (c_latin1 default_cfg) with false by reflexivity.
    unfold ascii_idna. rewrite E. reflexivity.
Qed.

(* "[::1]:" followed by an invalid byte *)
Definition ex_inp : list rune := [Good 91; Good 58; Good 58; Good 49; Good 93; Good 58; Good 233; Bad 255].

Example sim_premises_ex :
  std_cfg default_cfg /\ oracle_ok ascii_idna default_cfg /\ Forall scalar (map rv ex_inp).
Proof.
  split; [exact std_cfg_default|]. split; [exact oracle_ok_ex|].
  unfold ex_inp. cbn [map rv].
  repeat (apply Forall_cons; [split; [unfold rune_error; lia|reflexivity]|]). apply Forall_nil.
Qed.

(* the host parser on machine buffers, model and standard side by side: a domain, an IPv4 address in
   hexadecimal, a non-ASCII domain (rejected by this oracle), an opaque host with a non-ASCII code point *)
Example parseHost_buf_ex :
  val (parseHost ascii_idna default_cfg (empty_url []) (encode_runes [69; 120; 46; 67; 111; 109]) false)
    = Some [101; 120; 46; 99; 111; 109] /\
  option_map host_bytes (SH.host_parse (dta ascii_idna default_cfg) [69; 120; 46; 67; 111; 109] false)
    = Some [101; 120; 46; 99; 111; 109] /\
  val (parseHost ascii_idna default_cfg (empty_url []) (encode_runes [48; 120; 55; 102; 46; 49]) false)
    = Some [49; 50; 55; 46; 48; 46; 48; 46; 49] /\
  option_map host_bytes (SH.host_parse (dta ascii_idna default_cfg) [48; 120; 55; 102; 46; 49] false)
    = Some [49; 50; 55; 46; 48; 46; 48; 46; 49] /\
  val (parseHost ascii_idna default_cfg (empty_url []) (encode_runes [233; 46; 99]) false) = None /\
  SH.host_parse (dta ascii_idna default_cfg) [233; 46; 99] false = None /\
  val (parseHost ascii_idna default_cfg (empty_url []) (encode_runes [233; 46; 99]) true)
    = Some [37; 67; 51; 37; 65; 57; 46; 99] /\
  option_map host_bytes (SH.host_parse (dta ascii_idna default_cfg) [233; 46; 99] true)
    = Some [37; 67; 51; 37; 65; 57; 46; 99].
Proof. vm_compute. repeat split; reflexivity. Qed.

(* "localhost" is recognised on the bytes as on the host *)
Example localhost_ex :
  str_eqb (host_bytes (SU.HDomain SB.s_localhost)) s_localhost = true /\
  SB.host_is_localhost (SU.HDomain SB.s_localhost) = true /\
  str_eqb (host_bytes (SU.HIPv4 2130706433)) s_localhost = false /\
  SB.host_is_localhost (SU.HIPv4 2130706433) = false.
Proof. vm_compute. repeat split; reflexivity. Qed.

Print Assumptions oracle_ok_ex.

(* a related pair of configurations in the host state, and in the file host state: "http://ex:8" with the
   pointers at the second colon; "file://C:/" with the pointers at the last solidus (a drive-letter "host") *)
Definition ex_inp_http : list rune := map Good [104; 116; 116; 112; 58; 47; 47; 101; 120; 58; 56].
Definition ex_mm_host : mstate :=
  mk HostSt 8 false [101; 120] false false false
     (Build_url [] [104; 116; 116; 112] [] [] None None 0 [] false None None [] None).
Definition ex_sm_host : SB.machine :=
  SB.mkM (SU.mkSUrl [104; 116; 116; 112] [] [] None None (SU.PList []) None None)
         SB.HostState [101; 120] false false false 9.

Definition ex_inp_file : list rune := map Good [102; 105; 108; 101; 58; 47; 47; 67; 58; 47].
Definition ex_mm_file : mstate :=
  mk FileHost 8 false [67; 58] false false false
     (Build_url [] [102; 105; 108; 101] [] [] (Some []) None 0 [] false None None [] None).
Definition ex_sm_file : SB.machine :=
  SB.mkM (SU.mkSUrl [102; 105; 108; 101] [] [] (Some SU.HEmpty) None (SU.PList []) None None)
         SB.FileHostState [67; 58] false false false 9.

Ltac scalar_list := repeat (apply Forall_cons; [split; [lia|reflexivity]|]); apply Forall_nil.

Example sim_host_ex :
  m_state ex_mm_host = HostSt /\ Forall scalar (map rv ex_inp_http) /\
  Rel_before ex_inp_http false None ex_mm_host ex_sm_host /\
  mstep ascii_idna default_cfg ex_inp_http None None ex_mm_host =
    Cont (mk PortSt 9 false [] false false false
            (Build_url [] [104; 116; 116; 112] [] [] (Some [101; 120]) None 0 [] false None None [] None)) /\
  sstep ascii_idna default_cfg ex_inp_http None None ex_sm_host =
    SB.SCont (SB.mkM (SU.mkSUrl [104; 116; 116; 112] [] [] (Some (SU.HDomain [101; 120])) None (SU.PList []) None None)
                     SB.PortState [] false false false 9).
Proof.
  split; [reflexivity|]. split; [cbv [ex_inp_http map rv]; scalar_list|]. split.
  - constructor; cbn [ex_mm_host ex_sm_host mk m_state m_ptr m_eof m_buf m_url SB.m_state SB.m_pointer].
    + reflexivity.
    + reflexivity.
    + reflexivity.
    + lia.
    + vm_compute. reflexivity.
    + repeat split.
    + cbn [st_rel SB.m_buffer SB.m_url]. split; [reflexivity|]. split; [scalar_list|].
      split; [constructor; reflexivity || (split; reflexivity)|reflexivity].
  - split; vm_compute; reflexivity.
Qed.

Example sim_file_host_ex :
  m_state ex_mm_file = FileHost /\ Forall scalar (map rv ex_inp_file) /\
  Rel_before ex_inp_file false None ex_mm_file ex_sm_file /\
  mstep ascii_idna default_cfg ex_inp_file None None ex_mm_file =
    Cont (mk PathSt 8 false [67; 58] false false false
            (Build_url [] [102; 105; 108; 101] [] [] (Some []) None 0 [] false None None [] None)) /\
  sstep ascii_idna default_cfg ex_inp_file None None ex_sm_file =
    SB.SCont (SB.mkM (SU.mkSUrl [102; 105; 108; 101] [] [] (Some SU.HEmpty) None (SU.PList []) None None)
                     SB.PathState [67; 58] false false false 8).
Proof.
  split; [reflexivity|]. split; [cbv [ex_inp_file map rv]; scalar_list|]. split.
  - constructor; cbn [ex_mm_file ex_sm_file mk m_state m_ptr m_eof m_buf m_url SB.m_state SB.m_pointer].
    + reflexivity.
    + reflexivity.
    + reflexivity.
    + lia.
    + vm_compute. reflexivity.
    + repeat split.
    + cbn [st_rel SB.m_buffer SB.m_url]. split; [reflexivity|]. split; [scalar_list|].
      split; [constructor; reflexivity || (split; reflexivity)|reflexivity].
  - split; vm_compute; reflexivity.
Qed.
