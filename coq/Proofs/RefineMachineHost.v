(* R8: one-step simulation for the host state, the hostname state and the file host state. *)
From Verif Require Import Lib.Base Lib.Utf8 Lib.GoStr Model.Cfg Gen.Tables Gen.Options Model.Sets Model.Percent
     Model.Url Model.Host Model.Machine.
From Verif Require Spec.Url Spec.Host Spec.BasicParser.
From Verif Require Import Spec.PercentSets Spec.PercentCodec.
From Verif Require Import Proofs.Utf8Proofs Proofs.SetsProofs Proofs.RefineUtf8 Proofs.RefineCodec
     Proofs.RefineHost Proofs.RefineMachineBase.
From Verif Require Proofs.MachineInv.
From Coq Require Import Lia ZifyBool ZifyN ZifyNat.

Module MI := Verif.Proofs.MachineInv.

(* ================================================================== *)
(* "localhost"                                                          *)
(* ================================================================== *)
Lemma dec_fuel_lt58 : forall f n, Forall (fun x => x < 58) (S4.dec_fuel f n).
Proof.
  induction f as [|f IH]; intros n; [constructor|].
  cbn [S4.dec_fuel]. destruct (n <? 10) eqn:E.
  - repeat constructor. lia.
  - apply Forall_app. split; [apply IH|]. repeat constructor.
    assert (n mod 10 < 10) by (apply N.mod_lt; lia). lia.
Qed.

Lemma ipv4_serialize_lt58 a : Forall (fun x => x < 58) (S4.ipv4_serialize a).
Proof.
  rewrite Verif.Proofs.IPv4Proofs.ipv4_serialize_unfold.
  repeat (apply Forall_app; split; [apply dec_fuel_lt58|]; constructor; [lia|]).
  apply dec_fuel_lt58.
Qed.

Lemma s_localhost_ascii : Forall (fun x => x < 128) s_localhost.
Proof. unfold s_localhost. repeat (apply Forall_cons; [lia|]). apply Forall_nil. Qed.

Lemma localhost_spec hs : str_eqb (host_bytes hs) s_localhost = SB.host_is_localhost hs.
Proof.
  destruct hs as [d|a|p|o|]; cbn [SB.host_is_localhost].
  - unfold host_bytes. cbn [SU.host_serialize]. apply RP.str_eqb_encode_cps. exact s_localhost_ascii.
  - rewrite host_bytes_ipv4. destruct (str_eqb (S4.ipv4_serialize a) s_localhost) eqn:E; [|reflexivity].
    apply str_eqb_true in E. pose proof (ipv4_serialize_lt58 a) as F. rewrite E in F.
    unfold s_localhost in F. inversion F as [|x l Hx _]. lia.
  - rewrite host_bytes_ipv6. reflexivity.
  - unfold host_bytes. cbn [SU.host_serialize]. apply RP.str_eqb_encode_cps. exact s_localhost_ascii.
  - reflexivity.
Qed.

Lemma host_bytes_empty : host_bytes SU.HEmpty = [].
Proof. reflexivity. Qed.

(* ================================================================== *)
(* the host parser on a machine buffer                                  *)
(* ================================================================== *)
Section HostOnBuffer.
  Variable idna_raw : str -> str * bool.
  Variable c : cfg.
  Hypothesis Hstd : std_cfg c.
  Hypothesis Horacle : oracle_ok idna_raw c.

  Let Hl1 := std_latin1 c Hstd.

  Lemma not_bracket_dec (s : str) : (exists t, s = 91 :: t) \/ PH.not_bracket s.
  Proof.
    destruct s as [|b t]; [right; intros t E; discriminate E|].
    destruct (N.eq_dec b 91) as [->|Hb]; [left; exists t; reflexivity|].
    right. intros t' E. inversion E. congruence.
  Qed.

  Lemma parseHost_val u sbuf ns : Forall scalar sbuf -> (ns = false -> sbuf <> []) ->
    val (parseHost idna_raw c u (encode_runes sbuf) ns) =
    option_map host_bytes (SH.host_parse (dta idna_raw c) sbuf ns).
  Proof.
    intros Hsc Hne.
    pose proof (runes_encode_runes sbuf Hsc) as Hr.
    pose proof (valid_encode_runes sbuf Hsc) as Hv.
    set (buf := encode_runes sbuf) in *.
    rewrite <- Hr.
    destruct (not_bracket_dec buf) as [[t E]|Hnb].
    { rewrite E. apply R6_ipv6. exact Hstd. }
    destruct ns.
    { apply R6_opaque; assumption. }
    assert (Hbne : buf <> []).
    { intros E. apply (Hne eq_refl). apply RU.encode_runes_nil_iff. exact E. }
    destruct Horacle as [Ho1 Ho2].
    destruct (valid_utf8 (percent_decode buf)) eqn:Ed.
    - apply R6_domain; try assumption.
      intros a Ha. apply (Ho1 (percent_decode buf) a); [|exact Ed|exact Ha].
      intros En. apply Hbne. apply (PH.D_nil_inv c Hl1). rewrite (R2_decode c buf Hl1). exact En.
    - destruct (R6_domain_invalid idna_raw c Hstd u buf Hbne Hnb Hv Ed) as [E1 E2].
      { intros l Hl. apply Ho2. exact Hl. }
      rewrite E1, E2. reflexivity.
  Qed.

  (* what the machine needs: the result, and that the record is the same but for the validation errors *)
  Theorem parseHost_buf u sbuf ns : Forall scalar sbuf -> (ns = false -> sbuf <> []) ->
    match parseHost idna_raw c u (encode_runes sbuf) ns with
    | Ok u' h => exists hs v, SH.host_parse (dta idna_raw c) sbuf ns = Some hs /\ h = host_bytes hs /\
                              u' = set_verrs u v
    | Er u' e => SH.host_parse (dta idna_raw c) sbuf ns = None /\ exists v, u' = set_verrs u v
    end.
  Proof.
    intros Hsc Hne.
    pose proof (parseHost_val u sbuf ns Hsc Hne) as Hval.
    pose proof (MI.parseHost_only idna_raw c u (encode_runes sbuf) ns) as Hfr.
    unfold MI.only_verrs in Hfr.
    destruct (parseHost idna_raw c u (encode_runes sbuf) ns) as [u' h|u' e]; cbn [val MI.res_url] in *.
    - destruct (SH.host_parse (dta idna_raw c) sbuf ns) as [hs|]; [|discriminate Hval].
      cbn [option_map] in Hval. injection Hval as Hh.
      exists hs, (u_verrs u'). split; [reflexivity|]. split; [exact Hh|exact Hfr].
    - destruct (SH.host_parse (dta idna_raw c) sbuf ns) as [hs|]; [discriminate Hval|].
      split; [reflexivity|]. exists (u_verrs u'). exact Hfr.
  Qed.
End HostOnBuffer.

Print Assumptions parseHost_buf.
