(* C04 after SearchParams write-backs and canonicalization: the record invariant with the query clause read
   with the ORDINARY query set.
   SearchParams.update serializes with c_querySet whatever the scheme (MachineInv.sp_update_Inv_refuted), so after
   a write-back the query of a special URL may hold bytes of c_squerySet \ c_querySet (the apostrophe).
   Inv_wb is RecordInv.Inv with that one clause weakened.  It holds after every parse (when the special-query
   set contains the query set), and EVERY operation of the API keeps it: the nine setters, resolution, clone,
   the SearchParams mutations (append / delete / set / sort / sort-abs = sp_update after ensure_sp), and every
   step of Canonicalize.
   Technique for the operations that run the parser: Inv_wb c u is Inv (relax c) u for the configuration
   relax c (CanonTotal.v) whose special-query set is the query set; the parser under c and under relax c run in
   lock step (OptionSetsBase.sets_BasicParser), the results differ at most in the query, and the query under c
   is then free of c_querySet because the special-query set escapes everything the query set escapes. *)
From Verif Require Import Lib.Base Lib.Utf8 Lib.GoStr Model.Cfg Gen.Tables Gen.Options Model.Sets Model.Percent Model.Url Model.Host
  Model.Machine Model.Api Model.Canon Model.Preds Model.Obs.
From Verif Require Import Proofs.RecordInv Proofs.MachineInv Proofs.CanonTotal Proofs.OptionNeutralBase Proofs.PhaseLemmas
  Proofs.OptionSetsBase Proofs.OptionSets.
From Coq Require Import Lia ZifyBool ZifyN ZifyNat.

Local Arguments N.mul : simpl never.
Local Arguments N.add : simpl never.
Local Arguments N.sub : simpl never.
Local Arguments N.div : simpl never.
Local Arguments N.modulo : simpl never.
Local Arguments N.eqb : simpl never.
Local Arguments N.ltb : simpl never.
Local Arguments N.leb : simpl never.

(* ================================================================== *)
(* J1  the weakened invariant                                           *)
(* ================================================================== *)
(* RecordInv.Inv, field by field, except W_query *)
Record Inv_wb (c : cfg) (u : url) : Prop := {
  W_scheme : scheme_ok (u_scheme u) = true;
  W_opaque : u_opaque u = true ->
             u_host u = None /\ exists s, u_path u = [s] /\ has_prefix [47] s = false /\ none_in pes_C0 s = true;
  W_path : u_opaque u = false -> forallb (seg_ok c) (u_path u) = true;
  W_special : IsSpecialScheme c u = true ->
              u_opaque u = false /\ u_path u <> [] /\
              exists h, u_host u = Some h /\ (str_eqb (u_scheme u) s_file = true \/ h <> []);
  W_nocred : (u_host u = None \/ u_host u = Some [] \/ str_eqb (u_scheme u) s_file = true) ->
             u_username u = [] /\ u_password u = [] /\ u_port u = None;
  W_nohost_path : u_host u = None -> u_opaque u = false -> u_path u <> [];
  W_port : forall p, u_port u = Some p ->
           canonical_decimal p = true /\ (digits_val 10 p <=? 65535) = true /\
           u_decodedPort u = digits_val 10 p /\ getSpecialScheme c (u_scheme u) <> Some p;
  W_user : none_in pes_UserInfo (u_username u) = true;
  W_pass : none_in pes_UserInfo (u_password u) = true;
  (* the query: free of the ORDINARY query set, whatever the scheme *)
  W_query : forall q, u_query u = Some q -> none_in (c_querySet c) q = true;
  W_frag : forall f, u_fragment u = Some f -> none_in (fset c u) f = true;
  W_host : forall h, u_host u = Some h -> host_ok (IsSpecialScheme c u) h = true /\ forallb printable h = true
}.

(* Inv_wb c is Inv for the configuration whose special-query set is the query set *)
Theorem Inv_wb_relax : forall c u, Inv_wb c u <-> Inv (relax c) u.
Proof.
  intros c u. split.
  - intros [H1 H2 H3 H4 H5 H6 H7 H8 H9 H10 H11 H12].
    constructor; [exact H1|exact H2|exact H3|exact H4|exact H5|exact H6|exact H7|exact H8|exact H9| |exact H11|exact H12].
    intros q E. unfold qset, relax, set_qsets. cbn [c_squerySet c_querySet].
    destruct (IsSpecialScheme _ u); apply (H10 q E).
  - intros [H1 H2 H3 H4 H5 H6 H7 H8 H9 H10 H11 H12].
    constructor; [exact H1|exact H2|exact H3|exact H4|exact H5|exact H6|exact H7|exact H8|exact H9| |exact H11|exact H12].
    intros q E. specialize (H10 q E). unfold qset, relax, set_qsets in H10. cbn [c_squerySet c_querySet] in H10.
    destruct (IsSpecialScheme _ u); exact H10.
Qed.
Print Assumptions Inv_wb_relax.

(* a boolean form, for the witnesses *)
Definition inv_wb_b (c : cfg) (u : url) : bool := inv_b (relax c) u.
Lemma inv_wb_b_iff c u : inv_wb_b c u = true <-> Inv_wb c u.
Proof. unfold inv_wb_b. rewrite Inv_wb_relax. apply inv_b_iff. Qed.

(* the strong invariant gives the weak one when the special-query set escapes everything the query set escapes
   (CanonTotal.q_sub: RuneShouldBeEncoded (c_squerySet c) r = false -> RuneShouldBeEncoded (c_querySet c) r = false) *)
Theorem Inv_Inv_wb : forall c u, q_sub c -> Inv c u -> Inv_wb c u.
Proof. intros c u Hs H. apply Inv_wb_relax. apply InvW_relax; [exact Hs|]. apply Inv_InvW. exact H. Qed.
Print Assumptions Inv_Inv_wb.

(* for a non-special URL the two invariants coincide, without any condition *)
Theorem Inv_wb_nonspecial : forall c u, IsSpecialScheme c u = false -> (Inv_wb c u <-> Inv c u).
Proof.
  intros c u Hs. split.
  - intros [H1 H2 H3 H4 H5 H6 H7 H8 H9 H10 H11 H12].
    constructor; [exact H1|exact H2|exact H3|exact H4|exact H5|exact H6|exact H7|exact H8|exact H9| |exact H11|exact H12].
    intros q E. unfold qset. rewrite Hs. apply (H10 q E).
  - intros [H1 H2 H3 H4 H5 H6 H7 H8 H9 H10 H11 H12].
    constructor; [exact H1|exact H2|exact H3|exact H4|exact H5|exact H6|exact H7|exact H8|exact H9| |exact H11|exact H12].
    intros q E. specialize (H10 q E). unfold qset in H10. rewrite Hs in H10. exact H10.
Qed.

Example q_sub_default : q_sub default_cfg.
Proof.
  intros r. change (c_squerySet default_cfg) with pes_SpecialQuery. change (c_querySet default_cfg) with pes_Query.
  unfold RuneShouldBeEncoded, bs_test, mem, pes_SpecialQuery, pes_Query. cbn [ab bits existsb]. lia.
Qed.

(* the condition is needed: with a special-query set that does not escape the double quote, the URL http://h/?[double quote] satisfies Inv
   but not Inv_wb *)
Definition cfg_small_squery : cfg := set_qsets default_cfg {| ab := 33; bits := [] |} pes_Query.
Definition http_h : url :=
  set_path (set_host (set_scheme (empty_url []) [104;116;116;112]) (Some [104])) [[]] false.   (* http://h/ *)

Theorem Inv_Inv_wb_q_sub_needed :
  exists c u, ~ q_sub c /\ Inv c u /\ ~ Inv_wb c u.
Proof.
  exists cfg_small_squery, (set_query http_h (Some [34])). split; [|split].
  - intros H. specialize (H 34 eq_refl). vm_compute in H. discriminate H.
  - apply inv_b_sound. vm_compute. reflexivity.
  - intros H. apply inv_wb_b_iff in H. vm_compute in H. discriminate H.
Qed.
Print Assumptions Inv_Inv_wb_q_sub_needed.

Lemma Inv_wb_ext : forall c u u', same_fields u u' -> Inv_wb c u -> Inv_wb c u'.
Proof. intros c u u' S H. apply Inv_wb_relax. apply (Inv_ext _ u u' S). apply Inv_wb_relax. exact H. Qed.

Lemma Inv_wb_set_sp : forall c u v, Inv_wb c u -> Inv_wb c (set_sp u v).
Proof. intros c u v. apply Inv_wb_ext. repeat split. Qed.
Lemma Inv_wb_set_verrs : forall c u v, Inv_wb c u -> Inv_wb c (set_verrs u v).
Proof. intros c u v. apply Inv_wb_ext. repeat split. Qed.

Theorem Clone_Inv_wb : forall c u, Inv_wb c u -> Inv_wb c (Clone u).
Proof. intros c u. apply Inv_wb_set_verrs. Qed.

(* ================================================================== *)
(* J2  SearchParams write-backs                                         *)
(* ================================================================== *)
Theorem sp_update_Inv_wb : forall c u l, sp_chars_ok (c_querySet c) = true -> Inv_wb c u -> Inv_wb c (sp_update c u l).
Proof.
  intros c u l Hc Hi. apply Inv_wb_relax in Hi. apply Inv_wb_relax. unfold sp_update.
  match goal with |- Inv _ (if ?b then _ else _) => destruct b end.
  - apply Inv_set_query_some; [apply Inv_set_sp; exact Hi|].
    unfold qset, relax, set_qsets. cbn [c_squerySet c_querySet].
    destruct (IsSpecialScheme _ _); apply sp_string_none_in; exact Hc.
  - apply Inv_set_sp. exact Hi.
Qed.
Print Assumptions sp_update_Inv_wb.

Theorem ensure_sp_Inv_wb : forall c u, Inv_wb c u -> Inv_wb c (fst (ensure_sp c u)).
Proof. intros c u H. unfold ensure_sp. destruct (u_sp u); cbn [fst]; [exact H|apply Inv_wb_set_sp; exact H]. Qed.

(* every mutation of the list of pairs is: u.SearchParams(), change the list, update() *)
Theorem sp_mutation_Inv_wb : forall c u (f : list pair -> list pair),
  sp_chars_ok (c_querySet c) = true -> Inv_wb c u ->
  Inv_wb c (sp_update c (fst (ensure_sp c u)) (f (snd (ensure_sp c u)))).
Proof. intros c u f Hc Hi. apply sp_update_Inv_wb; [exact Hc|apply ensure_sp_Inv_wb; exact Hi]. Qed.

Corollary sp_mutations_Inv_wb : forall c u n v, sp_chars_ok (c_querySet c) = true -> Inv_wb c u ->
  let u1 := fst (ensure_sp c u) in let l := snd (ensure_sp c u) in
  Inv_wb c (sp_update c u1 (sp_append l n v)) /\ Inv_wb c (sp_update c u1 (sp_delete l n)) /\
  Inv_wb c (sp_update c u1 (sp_set l n v)) /\ Inv_wb c (sp_update c u1 (sp_sort l)) /\
  Inv_wb c (sp_update c u1 (sp_sort_abs l)).
Proof.
  intros c u n v Hc Hi u1 l.
  split; [apply (sp_mutation_Inv_wb c u (fun l => sp_append l n v)); assumption|].
  split; [apply (sp_mutation_Inv_wb c u (fun l => sp_delete l n)); assumption|].
  split; [apply (sp_mutation_Inv_wb c u (fun l => sp_set l n v)); assumption|].
  split; [apply (sp_mutation_Inv_wb c u sp_sort); assumption|apply (sp_mutation_Inv_wb c u sp_sort_abs); assumption].
Qed.
Print Assumptions sp_mutations_Inv_wb.

(* the condition on the query set is needed: if the set escapes '=', the serializer's own '=' breaks the clause *)
Definition cfg_eq_in_query : cfg := set_qsets default_cfg pes_SpecialQuery (pes_set pes_Query [61]).
Theorem sp_update_Inv_wb_chars_needed :
  exists c u l, sp_chars_ok (c_querySet c) = false /\ Inv_wb c u /\ ~ Inv_wb c (sp_update c u l).
Proof.
  exists cfg_eq_in_query, http_h, [([97], [98])].
  split; [vm_compute; reflexivity|]. split; [apply inv_wb_b_iff; vm_compute; reflexivity|].
  intros H. apply inv_wb_b_iff in H. vm_compute in H. discriminate H.
Qed.
Print Assumptions sp_update_Inv_wb_chars_needed.

(* the apostrophe: Inv_wb holds where Inv fails *)
Example sp_update_apostrophe :
  sp_chars_ok (c_querySet default_cfg) = true /\ Inv default_cfg http_h /\
  Inv_wb default_cfg (sp_update default_cfg http_h [([97], [39])]) /\
  ~ Inv default_cfg (sp_update default_cfg http_h [([97], [39])]) /\
  Href (sp_update default_cfg http_h [([97], [39])]) false = Some [104;116;116;112;58;47;47;104;47;63;97;61;39].
Proof.
  split; [vm_compute; reflexivity|]. split; [apply inv_b_sound; vm_compute; reflexivity|].
  split; [apply inv_wb_b_iff; vm_compute; reflexivity|].
  split; [intros H; apply inv_b_iff in H; vm_compute in H; discriminate H|vm_compute; reflexivity].
Qed.

(* ================================================================== *)
(* J3  the operations that run the parser                               *)
(* ================================================================== *)
Lemma agree_relax c : agree_nosets c (relax c).
Proof. unfold agree_nosets, relax, set_qsets. cbn. repeat split. Qed.

Lemma cfg_okm_relax c : cfg_okm c = true -> cfg_okm (relax c) = true.
Proof.
  intros H. pose proof (cfg_okm_parts c H) as (Hok & P1 & P2 & P3 & P4 & P5 & P6 & P7 & P8 & P9 & P10 & P11).
  unfold cfg_ok in Hok.
  apply andb_true_iff in Hok; destruct Hok as [Hok K6].
  apply andb_true_iff in Hok; destruct Hok as [Hok K5].
  apply andb_true_iff in Hok; destruct Hok as [Hok K4].
  apply andb_true_iff in Hok; destruct Hok as [Hok K3].
  apply andb_true_iff in Hok; destruct Hok as [K1 K2].
  unfold cfg_okm, cfg_ok, relax, set_qsets.
  cbn [c_pathSet c_squerySet c_querySet c_sfragSet c_fragSet c_lax c_skipTrailSlash c_pre c_post].
  change (isSpecialScheme _ s_file) with (isSpecialScheme c s_file).
  rewrite K1, K3, K4, K5, K6, P1, P3, P4, P5, P6, P7, P8, P9, P10, P11. reflexivity.
Qed.

(* the encoding of the same code points with a larger set is still free of the smaller one *)
Lemma enc_with_weaken c c' Q S w :
  (forall r, RuneShouldBeEncoded S r = false -> RuneShouldBeEncoded Q r = false) -> set_closed Q = true ->
  none_in Q (enc_with c' Q w) = true -> none_in Q (enc_with c S w) = true.
Proof.
  intros Hsub Hcl. unfold set_closed in Hcl. apply andb_true_iff in Hcl. destruct Hcl as [H37 Hhex].
  unfold enc_with. induction w as [|r w IH]; [reflexivity|]. cbn [flat_map]. rewrite !none_in_app.
  intros H. apply andb_true_iff in H. destruct H as [Hr Hw]. rewrite (IH Hw), andb_true_r.
  unfold percentEncodeRune in *. destruct (RuneShouldBeEncoded S r) eqn:ES.
  - apply (Q_enc_always (fun b => negb (RuneShouldBeEncoded Q b)) H37 Hhex c r).
  - rewrite (Hsub r ES) in Hr. exact Hr.
Qed.

Section Lift.
  Variable idna_raw : str -> str * bool.
  Hypothesis HH3 : H3 idna_raw.
  Variable c : cfg.
  Hypothesis Hc : cfg_okm c = true.
  Hypothesis Hnf : c_fail c = false.
  Hypothesis Hsub : q_sub c.

  Let Hc' : cfg_okm (relax c) = true := cfg_okm_relax c Hc.
  Let Hnf' : c_fail (relax c) = false := Hnf.

  (* a record related by the lock-step relation to one that satisfies the invariant satisfies it too *)
  Lemma Inv_relax_transfer inp u1 u2 :
    URel c (relax c) inp (PR_eq c (relax c)) u1 u2 -> Inv (relax c) u2 -> Inv (relax c) u1.
  Proof using Hc Hsub.
    intros ((A1 & A2 & A3 & A4 & A5 & A6 & A7 & A8 & A9) & HP & HQ & HF) Hi.
    destruct (HP eq_refl) as [P1 P2].
    assert (EF : u_fragment u1 = u_fragment u2).
    { apply (FR_eq c (relax c) (agree_relax c) inp); [|exact HF].
      apply (fragset_agree c (relax c) (agree_relax c)); [exact A2|].
      destruct (isSpecialScheme (relax c) (u_scheme u2)); reflexivity. }
    pose proof (cfg_okm_parts c Hc) as (_ & _ & _ & Hcl & _).
    apply InvNQ_Inv.
    - apply (InvNQ_ext (relax c) u2 u1); [|apply Inv_set_query_none; exact Hi].
      unfold nqf. rewrite A2, A3, A4, A5, A6, A7, P1, P2, EF. reflexivity.
    - intros q E.
      assert (K : none_in (c_querySet c) q = true).
      { destruct HQ as [HQ|(q1 & q2 & E1 & E2 & b0 & a & n & -> & ->)].
        - rewrite HQ in E. pose proof (I_query _ _ Hi q E) as K. unfold qset, relax, set_qsets in K.
          cbn [c_squerySet c_querySet] in K. destruct (IsSpecialScheme _ u2); exact K.
        - rewrite E1 in E. injection E as <-.
          pose proof (I_query _ _ Hi _ E2) as K. unfold qset, relax, set_qsets in K.
          cbn [c_squerySet c_querySet] in K.
          assert (K' : none_in (c_querySet c) (b0 ++ enc_with (relax c) (c_querySet c) (cps inp a n)) = true).
          { unfold queryset, relax, set_qsets in K. cbn [c_squerySet c_querySet] in K.
            destruct (IsSpecialScheme _ u2); destruct (isSpecialScheme _ (u_scheme u2)); exact K. }
          rewrite none_in_app in K' |- *. apply andb_true_iff in K'. destruct K' as [K1 K2]. rewrite K1. cbn [andb].
          apply (enc_with_weaken c (relax c) (c_querySet c)); [|exact Hcl|exact K2].
          intros r. unfold queryset. destruct (isSpecialScheme c (u_scheme u1)); [apply Hsub|auto]. }
      unfold qset, relax, set_qsets. cbn [c_squerySet c_querySet]. destruct (IsSpecialScheme _ u1); exact K.
  Qed.

  (* BasicParser on an existing record: the record left behind *)
  Lemma BP_after_transfer s b u0 ov u1 :
    after (BasicParser idna_raw c s b (Some u0) ov) = Some u1 ->
    exists u2, after (BasicParser idna_raw (relax c) s b (Some u0) ov) = Some u2 /\
               URel c (relax c) (run_input (relax c) s (Some u0)) (PR_eq c (relax c)) u1 u2.
  Proof using.
    intros H. pose proof (res_after _ _ _ (Rres_res _ _ _ _ _ _
      (sets_BasicParser idna_raw c (relax c) (agree_relax c) s b (Some u0) ov))) as R.
    rewrite H in R. destruct (after (BasicParser idna_raw (relax c) s b (Some u0) ov)) as [u2|]; [|contradiction].
    exists u2. split; [reflexivity|exact R].
  Qed.

  Lemma BP_after_Inv s b u0 ov u1 :
    after (BasicParser idna_raw c s b (Some u0) ov) = Some u1 ->
    (forall u2, after (BasicParser idna_raw (relax c) s b (Some u0) ov) = Some u2 -> Inv (relax c) u2) ->
    Inv (relax c) u1.
  Proof using Hc Hsub.
    intros H K. destruct (BP_after_transfer s b u0 ov u1 H) as (u2 & E2 & R).
    apply (Inv_relax_transfer _ u1 u2 R (K u2 E2)).
  Qed.

  (* ----- the nine setters ----- *)
  Theorem SetProtocol_Inv_wb : forall u s u', Inv_wb c u -> SetProtocol idna_raw c u s = Some u' -> Inv_wb c u'.
  Proof using HH3 Hc Hnf Hsub.
    intros u s u' Hi H. apply Inv_wb_relax in Hi. apply Inv_wb_relax. unfold SetProtocol in H.
    eapply BP_after_Inv; [exact H|]. intros u2 E2.
    apply (SetProtocol_Inv idna_raw HH3 (relax c) Hc' Hnf' u s u2 Hi). exact E2.
  Qed.

  Theorem SetUsername_Inv_wb : forall u s u', Inv_wb c u -> SetUsername c u s = Some u' -> Inv_wb c u'.
  Proof using.
    intros u s u' Hi H. apply Inv_wb_relax in Hi. apply Inv_wb_relax.
    apply (SetUsername_Inv (relax c) u s u' Hi). unfold SetUsername in *.
    rewrite <- (PES_congr c (relax c) eq_refl s pes_UserInfo eq_refl). exact H.
  Qed.

  Theorem SetPassword_Inv_wb : forall u s u', Inv_wb c u -> SetPassword c u s = Some u' -> Inv_wb c u'.
  Proof using.
    intros u s u' Hi H. apply Inv_wb_relax in Hi. apply Inv_wb_relax.
    apply (SetPassword_Inv (relax c) u s u' Hi). unfold SetPassword in *.
    rewrite <- (PES_congr c (relax c) eq_refl s pes_UserInfo eq_refl). exact H.
  Qed.

  Theorem SetHost_Inv_wb : forall u s u', Inv_wb c u -> SetHost idna_raw c u s = Some u' -> Inv_wb c u'.
  Proof using HH3 Hc Hnf Hsub.
    intros u s u' Hi H. apply Inv_wb_relax in Hi. apply Inv_wb_relax. unfold SetHost in H.
    destruct (u_opaque u) eqn:Ho; [injection H as <-; exact Hi|].
    eapply BP_after_Inv; [exact H|]. intros u2 E2.
    apply (SetHost_Inv idna_raw HH3 (relax c) Hc' Hnf' u s u2 Hi). unfold SetHost. rewrite Ho. exact E2.
  Qed.

  Theorem SetHostname_Inv_wb : forall u s u', Inv_wb c u -> SetHostname idna_raw c u s = Some u' -> Inv_wb c u'.
  Proof using HH3 Hc Hnf Hsub.
    intros u s u' Hi H. apply Inv_wb_relax in Hi. apply Inv_wb_relax. unfold SetHostname in H.
    destruct (u_opaque u) eqn:Ho; [injection H as <-; exact Hi|].
    eapply BP_after_Inv; [exact H|]. intros u2 E2.
    apply (SetHostname_Inv idna_raw HH3 (relax c) Hc' Hnf' u s u2 Hi). unfold SetHostname. rewrite Ho. exact E2.
  Qed.

  Theorem SetPort_Inv_wb : forall u s u', Inv_wb c u -> SetPort idna_raw c u s = Some u' -> Inv_wb c u'.
  Proof using HH3 Hc Hnf Hsub.
    intros u s u' Hi H. apply Inv_wb_relax in Hi. apply Inv_wb_relax.
    destruct s as [|x s]; [apply (SetPort_empty_Inv idna_raw (relax c) u u' Hi); exact H|].
    unfold SetPort in H. destruct (no_host_or_file u) eqn:Hn; [injection H as <-; exact Hi|].
    eapply BP_after_Inv; [exact H|]. intros u2 E2.
    apply (SetPort_Inv idna_raw HH3 (relax c) Hc' Hnf' u (x :: s) u2 Hi). unfold SetPort. rewrite Hn. exact E2.
  Qed.

  Theorem SetPathname_Inv_wb : forall u s u', Inv_wb c u -> SetPathname idna_raw c u s = Some u' -> Inv_wb c u'.
  Proof using HH3 Hc Hnf Hsub.
    intros u s u' Hi H. apply Inv_wb_relax in Hi. apply Inv_wb_relax. unfold SetPathname in H.
    destruct (u_opaque u) eqn:Ho; [injection H as <-; exact Hi|].
    eapply BP_after_Inv; [exact H|]. intros u2 E2.
    apply (SetPathname_Inv idna_raw HH3 (relax c) Hc' Hnf' u s u2 Hi). unfold SetPathname. rewrite Ho. exact E2.
  Qed.

  Theorem SetHash_Inv_wb : forall u s u', Inv_wb c u -> SetHash idna_raw c u s = Some u' -> Inv_wb c u'.
  Proof using HH3 Hc Hnf Hsub.
    intros u s u' Hi H. apply Inv_wb_relax in Hi. apply Inv_wb_relax.
    destruct s as [|x s]; [apply (SetHash_empty_Inv idna_raw (relax c) u u' Hi); exact H|].
    unfold SetHash in H. eapply BP_after_Inv; [exact H|]. intros u2 E2.
    apply (SetHash_Inv idna_raw HH3 (relax c) Hc' Hnf' u (x :: s) u2 Hi). exact E2.
  Qed.

  (* SetSearch re-creates the list of pairs from the new query; the records agree up to that list *)
  Theorem SetSearch_Inv_wb : forall u s u', Inv_wb c u -> SetSearch idna_raw c u s = Some u' -> Inv_wb c u'.
  Proof using HH3 Hc Hnf Hsub.
    intros u s u' Hi H. apply Inv_wb_relax in Hi. apply Inv_wb_relax.
    destruct s as [|x s]; [apply (SetSearch_empty_Inv idna_raw (relax c) u u' Hi); exact H|].
    unfold SetSearch in H.
    set (u0 := match u_query u with None => set_query u (Some []) | Some _ => u end) in H.
    destruct (after (BasicParser idna_raw c (trim_prefix1 63 (x :: s)) None (Some u0) (Some QuerySt))) as [w1|] eqn:E1;
      [|discriminate H].
    destruct (BP_after_transfer _ _ _ _ _ E1) as (w2 & E2 & R).
    pose proof R as (_ & _ & HQ & _). pose proof (QR_is_some _ _ _ _ _ HQ) as HS.
    destruct (u_query w1) as [q1|] eqn:Q1; [|discriminate H]. injection H as <-.
    destruct (u_query w2) as [q2|] eqn:Q2; [|discriminate HS].
    assert (Hi2 : Inv (relax c) (set_sp w2 (Some (sp_init (relax c) q2)))).
    { apply (SetSearch_Inv idna_raw HH3 (relax c) Hc' Hnf' u (x :: s) _ Hi).
      unfold SetSearch. fold u0. rewrite E2, Q2. reflexivity. }
    apply Inv_set_sp. apply (Inv_relax_transfer _ w1 w2 R).
    apply (Inv_ext (relax c) (set_sp w2 (Some (sp_init (relax c) q2))) w2); [repeat split|exact Hi2].
  Qed.

  (* every setter of the API, by number (Model/Obs.v) *)
  Theorem setter_Inv_wb : forall w u v u', Inv_wb c u -> setter idna_raw c w u v = Some u' -> Inv_wb c u'.
  Proof using HH3 Hc Hnf Hsub.
    intros w u v u' Hi H. unfold setter in H.
    destruct w as [|w]; [apply (SetProtocol_Inv_wb u v u' Hi H)|].
    do 3 (destruct w as [w|w|]; try (first
      [ apply (SetHash_Inv_wb u v u' Hi H) | apply (SetUsername_Inv_wb u v u' Hi H) | apply (SetPassword_Inv_wb u v u' Hi H)
      | apply (SetHost_Inv_wb u v u' Hi H) | apply (SetHostname_Inv_wb u v u' Hi H) | apply (SetPort_Inv_wb u v u' Hi H)
      | apply (SetPathname_Inv_wb u v u' Hi H) | apply (SetSearch_Inv_wb u v u' Hi H) ])).
  Qed.

  (* ----- parsing and resolution ----- *)
  Theorem Parse_Inv_wb : forall s u, Parse idna_raw c s = PUrl u -> Inv_wb c u.
  Proof using HH3 Hc Hsub. intros s u H. apply (Inv_Inv_wb c u Hsub). apply (Parse_Inv idna_raw HH3 c Hc s u H). Qed.

  Theorem UrlParse_Inv_wb : forall b ref u, Inv_wb c b -> UrlParse idna_raw c b ref = PUrl u -> Inv_wb c u.
  Proof using HH3 Hc Hsub.
    intros b ref u Hi H. apply Inv_wb_relax in Hi. apply Inv_wb_relax. unfold UrlParse in H.
    pose proof (Rres_res _ _ _ _ _ _ (sets_BasicParser idna_raw c (relax c) (agree_relax c) ref (Some b) None None)) as R.
    destruct (BasicParser idna_raw c ref (Some b) None None) as [u1|u1 e1|u1| |] eqn:E1; try discriminate H.
    cbn [to_pres] in H. injection H as <-.
    destruct (BasicParser idna_raw (relax c) ref (Some b) None None) as [u2|u2 e2|u2| |] eqn:E2; cbn [res_rel] in R;
      try contradiction.
    apply (Inv_relax_transfer _ u1 u2 R).
    apply (UrlParse_Inv idna_raw HH3 (relax c) Hc' b ref u2 Hi). unfold UrlParse. rewrite E2. reflexivity.
  Qed.

  (* ----- histories of operations (Obs.hstep), SearchParams mutations included ----- *)
  Definition hinv_wb (s : hstate) : Prop := forall slot u, get s slot = Some u -> Inv_wb c u.

  Lemma hinv_wb_put : forall s slot o, hinv_wb s -> (forall u, o = Some u -> Inv_wb c u) -> hinv_wb (put s slot o).
  Proof using.
    intros [a b] slot o H Ho slot' u E. unfold put, get in *. cbn [fst snd] in *.
    destruct slot, slot'; cbn [fst snd] in E.
    - apply Ho. exact E.
    - apply (H false u E).
    - apply (H true u E).
    - apply Ho. exact E.
  Qed.

  Lemma with_sp_Inv_wb : forall s slot f, hinv_wb s -> sp_chars_ok (c_querySet c) = true -> hinv_wb (with_sp c s slot f).
  Proof using.
    intros s slot f H Hq. unfold with_sp. destruct (get s slot) as [u|] eqn:E; [|exact H].
    pose proof (sp_mutation_Inv_wb c u f Hq (H slot u E)) as Hi.
    destruct (ensure_sp c u) as [u1 l]. cbn [fst snd] in Hi.
    apply hinv_wb_put; [exact H|]. intros u2 E2. injection E2 as <-. exact Hi.
  Qed.

  Theorem hstep_Inv_wb : forall s o, hinv_wb s -> (sp_mutation o = true -> sp_chars_ok (c_querySet c) = true) ->
    hinv_wb (fst (hstep idna_raw c s o)).
  Proof using HH3 Hc Hnf Hsub.
    intros s o H Hsp. destruct o as [slot w v|slot ref|ref|from|slot n v|slot n|slot n v|slot|slot|slot n|slot|slot|slot md];
      cbn [hstep sp_mutation] in *.
    - destruct (get s slot) as [u|] eqn:E; [|exact H].
      destruct (setter idna_raw c w u v) as [u'|] eqn:ES; cbn [fst].
      + apply hinv_wb_put; [exact H|]. intros u2 E2. injection E2 as <-.
        apply (setter_Inv_wb w u v u' (H slot u E) ES).
      + apply hinv_wb_put; [exact H|]. intros u2 E2. discriminate E2.
    - destruct (get s slot) as [u|] eqn:E; [|exact H].
      destruct (UrlParse idna_raw c u ref) as [u'|e| | |] eqn:EP; cbn [fst]; try exact H;
        try (apply hinv_wb_put; [exact H|]; intros u2 E2; discriminate E2).
      apply hinv_wb_put; [exact H|]. intros u2 E2. injection E2 as <-.
      apply (UrlParse_Inv_wb u ref u' (H slot u E) EP).
    - destruct (fst s) as [u|] eqn:E; [|exact H].
      destruct (UrlParse idna_raw c u ref) as [u'|e| | |] eqn:EP; cbn [fst]; try exact H;
        try (apply hinv_wb_put; [exact H|]; intros u2 E2; discriminate E2).
      apply hinv_wb_put; [exact H|]. intros u2 E2. injection E2 as <-.
      apply (UrlParse_Inv_wb u ref u'); [apply (H false u E)|exact EP].
    - destruct (get s from) as [u|] eqn:E; [|exact H]. cbn [fst].
      apply hinv_wb_put; [exact H|]. intros u2 E2. injection E2 as <-. apply Clone_Inv_wb. apply (H from u E).
    - apply with_sp_Inv_wb; [exact H|apply Hsp; reflexivity].
    - apply with_sp_Inv_wb; [exact H|apply Hsp; reflexivity].
    - apply with_sp_Inv_wb; [exact H|apply Hsp; reflexivity].
    - apply with_sp_Inv_wb; [exact H|apply Hsp; reflexivity].
    - apply with_sp_Inv_wb; [exact H|apply Hsp; reflexivity].
    - destruct (get s slot) as [u|] eqn:E; [|exact H].
      pose proof (ensure_sp_Inv_wb c u (H slot u E)) as Hi. destruct (ensure_sp c u) as [u1 l]. cbn [fst] in *.
      apply hinv_wb_put; [exact H|]. intros u2 E2. injection E2 as <-. exact Hi.
    - destruct (get s slot) as [u|] eqn:E; [|exact H]. cbn [fst].
      apply hinv_wb_put; [exact H|]. intros u2 E2. injection E2 as <-. apply ensure_sp_Inv_wb. apply (H slot u E).
    - destruct (get s slot) as [u|] eqn:E; [|exact H].
      destruct (get s (negb slot)) as [v|] eqn:Ev; [|exact H].
      pose proof (ensure_sp_Inv_wb c v (H (negb slot) v Ev)) as Hv. destruct (ensure_sp c v) as [v1 l]. cbn [fst] in *.
      apply hinv_wb_put.
      + apply hinv_wb_put; [exact H|]. intros u2 E2. injection E2 as <-. exact Hv.
      + intros u2 E2. injection E2 as <-.
        apply sp_update_Inv_wb; [apply Hsp; reflexivity|apply ensure_sp_Inv_wb; apply (H slot u E)].
    - apply with_sp_Inv_wb; [exact H|apply Hsp; reflexivity].
  Qed.
End Lift.
Print Assumptions setter_Inv_wb.
Print Assumptions UrlParse_Inv_wb.
Print Assumptions hstep_Inv_wb.

(* ================================================================== *)
(* J4  canonicalization                                                 *)
(* ================================================================== *)
(* Canonicalize KEEPS the weak invariant (so it can be applied to what it returned, or after mutations) *)
Theorem Canonicalize_Inv_wb : forall idna_raw p u u',
  H3 idna_raw -> cfg_okm (p_cfg p) = true -> c_fail (p_cfg p) = false -> q_sub (p_cfg p) ->
  sp_chars_ok (c_querySet (p_cfg p)) = true ->
  Inv_wb (p_cfg p) u -> Canonicalize idna_raw p u = Some u' -> Inv_wb (p_cfg p) u'.
Proof.
  intros idna_raw p u u' HH3 Hc Hnf Hs Hq Hi H.
  apply (Canonicalize_P idna_raw p (Inv_wb (p_cfg p)) (Inv_wb (p_cfg p)) (Inv_wb (p_cfg p))) with (u := u);
    try assumption; try (intros; assumption).
  - intros v s v'. apply (SetHostname_Inv_wb idna_raw HH3 _ Hc Hnf Hs).
  - intros v s v'. apply (SetPathname_Inv_wb idna_raw HH3 _ Hc Hnf Hs).
  - intros v l _ Hv. apply sp_update_Inv_wb; [exact Hq|apply ensure_sp_Inv_wb; exact Hv].
  - intros v s v' _. apply (SetSearch_Inv_wb idna_raw HH3 _ Hc Hnf Hs).
  - intros v s v'. apply (SetHash_Inv_wb idna_raw HH3 _ Hc Hnf Hs).
  - intros v v'. apply (SetPort_Inv_wb idna_raw HH3 _ Hc Hnf Hs).
  - intros v s v'. apply (SetUsername_Inv_wb (p_cfg p)).
  - intros v s v'. apply (SetPassword_Inv_wb (p_cfg p)).
Qed.
Print Assumptions Canonicalize_Inv_wb.

Theorem ProfileParse_Inv_wb : forall idna_raw p x u',
  H3 idna_raw -> cfg_okm (p_cfg p) = true -> c_fail (p_cfg p) = false -> q_sub (p_cfg p) ->
  sp_chars_ok (c_querySet (p_cfg p)) = true ->
  ProfileParse idna_raw p x = CUrl u' -> Inv_wb (p_cfg p) u'.
Proof.
  intros idna_raw p x u' HH3 Hc Hnf Hs Hq H. apply Inv_wb_relax. apply (InvW_relax _ _ Hs).
  apply (ProfileParse_InvW idna_raw p x u' HH3 Hc Hnf Hq H).
Qed.
Print Assumptions ProfileParse_Inv_wb.

Theorem ProfileParseRef_Inv_wb : forall idna_raw p x ref u',
  H3 idna_raw -> cfg_okm (p_cfg p) = true -> c_fail (p_cfg p) = false -> q_sub (p_cfg p) ->
  sp_chars_ok (c_querySet (p_cfg p)) = true ->
  ProfileParseRef idna_raw p x ref = CUrl u' -> Inv_wb (p_cfg p) u'.
Proof.
  intros idna_raw p x ref u' HH3 Hc Hnf Hs Hq H. apply Inv_wb_relax. apply (InvW_relax _ _ Hs).
  apply (ProfileParseRef_InvW idna_raw p x ref u' HH3 Hc Hnf Hq H).
Qed.
Print Assumptions ProfileParseRef_Inv_wb.

(* ================================================================== *)
(* J5  the observable predicates                                        *)
(* ================================================================== *)
Lemma cfg_ok_relax c : cfg_ok c = true -> cfg_ok (relax c) = true.
Proof.
  intros Hc. unfold cfg_ok in *. cbn [relax set_qsets c_pathSet c_squerySet c_querySet c_sfragSet c_fragSet].
  apply andb_true_iff in Hc; destruct Hc as [Hc H6].
  apply andb_true_iff in Hc; destruct Hc as [Hc H5].
  apply andb_true_iff in Hc; destruct Hc as [Hc H4].
  apply andb_true_iff in Hc; destruct Hc as [Hc H3].
  apply andb_true_iff in Hc; destruct Hc as [H1 H2].
  rewrite H1, H3, H4, H5, H6. reflexivity.
Qed.

(* what the harness evaluates: all 16 clauses, clause 10 read with the ordinary query set *)
Theorem Inv_wb_inv_obs : forall c u, cfg_ok c = true -> Inv_wb c u -> inv_obs (relax c) (obs_url c u) = [].
Proof.
  intros c u Hc H. change (obs_url c u) with (obs_url (relax c) u).
  apply Inv_inv_obs; [apply cfg_ok_relax; exact Hc|apply Inv_wb_relax; exact H].
Qed.
Print Assumptions Inv_wb_inv_obs.

(* inv_obs under c and under relax c differ in clause 10 only *)
Lemma inv_obs_clause10 c l : inv_obs (relax c) l = [] ->
  inv_obs c l = clause 10 (none_in (if isSpecialScheme c (fld l f_scheme) then c_squerySet c else c_querySet c) (fld l f_query)).
Proof.
  unfold inv_obs. cbv zeta. unfold relax, set_qsets, isSpecialScheme, getSpecialScheme, port_ok.
  cbn [c_special c_pathSet c_squerySet c_querySet c_sfragSet c_fragSet].
  intros H.
  repeat match type of H with
         | _ ++ _ = [] => apply app_eq_nil in H; let K := fresh "K" in destruct H as [K H]
         end.
  rewrite K, K0, K1, K2, K3, K4, K5, K6, K7, K9, K10, K11, K12, K13, H. cbn [app]. apply app_nil_r.
Qed.

Theorem Inv_wb_inv_obs_strict : forall c u, cfg_ok c = true -> Inv_wb c u ->
  (inv_obs c (obs_url c u) = [] \/ inv_obs c (obs_url c u) = [10]) /\
  (* in either case the query is free of the ordinary query set: printable ASCII outside that set *)
  none_in (c_querySet c) (Query u) = true /\ forallb printable (Query u) = true.
Proof.
  intros c u Hc H. pose proof (Inv_wb_inv_obs c u Hc H) as E. split.
  - rewrite (inv_obs_clause10 c _ E). unfold clause. destruct (none_in _ _); [left|right]; reflexivity.
  - assert (K : none_in (c_querySet c) (Query u) = true).
    { unfold Query. destruct (u_query u) as [q|] eqn:EQ; [apply (W_query _ _ H q EQ)|reflexivity]. }
    split; [exact K|]. apply (none_in_printable (c_querySet c)); [|exact K].
    unfold cfg_ok in Hc. repeat (apply andb_true_iff in Hc; destruct Hc as [Hc ?]). assumption.
Qed.
Print Assumptions Inv_wb_inv_obs_strict.

(* the default query set: the form the harness checks - every byte in 0x21..0x7E and none of
   the double quote, '#', '<', '>' *)
Theorem none_in_default_query : forall q,
  none_in (c_querySet default_cfg) q =
  forallb (fun b => (33 <=? b) && (b <=? 126) && negb (mem b [34;35;60;62])) q.
Proof.
  intros q. change (c_querySet default_cfg) with pes_Query. unfold none_in.
  induction q as [|b q IH]; [reflexivity|]. cbn [forallb]. rewrite IH. f_equal.
  unfold RuneShouldBeEncoded, bs_test, mem, pes_Query. cbn [ab bits existsb]. lia.
Qed.

(* the same for the results of the profile parser and along histories *)
Theorem ProfileParse_obs_wb : forall idna_raw p x u',
  H3 idna_raw -> cfg_okm (p_cfg p) = true -> c_fail (p_cfg p) = false -> q_sub (p_cfg p) ->
  sp_chars_ok (c_querySet (p_cfg p)) = true ->
  ProfileParse idna_raw p x = CUrl u' ->
  inv_obs (relax (p_cfg p)) (obs_url (p_cfg p) u') = [] /\
  (inv_obs (p_cfg p) (obs_url (p_cfg p) u') = [] \/ inv_obs (p_cfg p) (obs_url (p_cfg p) u') = [10]) /\
  none_in (c_querySet (p_cfg p)) (Query u') = true.
Proof.
  intros idna_raw p x u' HH3 Hc Hnf Hs Hq H.
  pose proof (ProfileParse_Inv_wb idna_raw p x u' HH3 Hc Hnf Hs Hq H) as Hi.
  pose proof (cfg_okm_ok (p_cfg p) Hc) as Hok.
  destruct (Inv_wb_inv_obs_strict _ _ Hok Hi) as (A & B & _).
  split; [apply Inv_wb_inv_obs; assumption|]. split; assumption.
Qed.
Print Assumptions ProfileParse_obs_wb.

(* ----- examples: the premises hold for the default configuration; the apostrophe ----- *)
Example wb_premises_default :
  cfg_okm default_cfg = true /\ c_fail default_cfg = false /\ q_sub default_cfg /\
  sp_chars_ok (c_querySet default_cfg) = true /\ H3 idna_toy /\ cfg_ok default_cfg = true.
Proof.
  split; [vm_compute; reflexivity|]. split; [reflexivity|]. split; [exact q_sub_default|].
  split; [vm_compute; reflexivity|]. split; [exact H3_toy|vm_compute; reflexivity].
Qed.

(* after appending ("a","'") to http://h/ : clause 10 fails in its strict reading only *)
Example apostrophe_obs :
  let u := sp_update default_cfg (fst (ensure_sp default_cfg http_h)) (sp_append (snd (ensure_sp default_cfg http_h)) [97] [39]) in
  Inv_wb default_cfg u /\ Query u = [97;61;39] /\
  inv_obs default_cfg (obs_url default_cfg u) = [10] /\ inv_obs (relax default_cfg) (obs_url default_cfg u) = [] /\
  forallb (fun b => (33 <=? b) && (b <=? 126) && negb (mem b [34;35;60;62])) (Query u) = true.
Proof.
  cbv zeta. split; [apply inv_wb_b_iff; vm_compute; reflexivity|]. repeat split; vm_compute; reflexivity.
Qed.

(* the sort-query profile on "http://h/?b='&a" returns "http://h/?a=&b='" *)
Example apostrophe_profile :
  exists u', ProfileParse idna_toy prof_WhatWgSortQuery [104;116;116;112;58;47;47;104;47;63;98;61;39;38;97] = CUrl u' /\
    Href u' false = Some [104;116;116;112;58;47;47;104;47;63;97;61;38;98;61;39] /\
    inv_obs (p_cfg prof_WhatWgSortQuery) (obs_url (p_cfg prof_WhatWgSortQuery) u') = [10] /\
    inv_obs (relax (p_cfg prof_WhatWgSortQuery)) (obs_url (p_cfg prof_WhatWgSortQuery) u') = [].
Proof. eexists. split; [vm_compute; reflexivity|]. repeat split; vm_compute; reflexivity. Qed.

(* c_fail = false is needed for the setters, as for Inv (MachineInv.setter_Inv_c_fail_needed): the same witness *)
Theorem setter_Inv_wb_c_fail_needed :
  exists c u v u', cfg_okm c = true /\ q_sub c /\ Inv_wb c u /\ SetPathname idna_toy c u v = Some u' /\ ~ Inv_wb c u'.
Proof.
  exists opt_WithFailOnValidationError.
  exists (set_path (set_host (set_scheme (empty_url []) s_file) (Some [])) [[120]] false).   (* file:///x *)
  exists [32]. eexists.
  split; [vm_compute; reflexivity|]. split; [exact q_sub_default|].
  split; [apply inv_wb_b_iff; vm_compute; reflexivity|]. split; [vm_compute; reflexivity|].
  intro H. apply inv_wb_b_iff in H. vm_compute in H. discriminate H.
Qed.
Print Assumptions setter_Inv_wb_c_fail_needed.
