(* R8, the frame: the simulation relation between the model's parser state (Model/Machine.v [mstate]) and
   the standard's (Spec/BasicParser.v [machine]), the relation on what one step returns, and the proof
   that a one-step simulation for all states gives the simulation of the whole loop.

   Conventions: the model side is imported (unqualified names are the model's); the standard's side is
   qualified: SU = Spec.Url, SB = Spec.BasicParser, SH = Spec.Host. *)
From Verif Require Import Lib.Base Lib.Utf8 Lib.GoStr Model.Cfg Gen.Tables Gen.Options Model.Sets Model.Percent
     Model.Url Model.Host Model.Machine.
From Verif Require Spec.IPv4 Spec.IPv6 Spec.Url Spec.Host Spec.BasicParser.
From Verif Require Import Spec.PercentSets Spec.PercentCodec.
From Verif Require Import Proofs.Utf8Proofs Proofs.SetsProofs Proofs.RefineUtf8 Proofs.RefineCodec
     Proofs.RefineHost.
From Verif Require Proofs.RefineUrl Proofs.RefinePreds Proofs.IPv4Proofs.
From Coq Require Import Lia ZifyBool ZifyN ZifyNat.
Ltac Zify.zify_post_hook ::= Z.div_mod_to_equations.

Module SU := Verif.Spec.Url.
Module SB := Verif.Spec.BasicParser.
Module SH := Verif.Spec.Host.
Module RU := Verif.Proofs.RefineUrl.
Module RP := Verif.Proofs.RefinePreds.

Notation R := RU.R.

(* ================================================================== *)
(* the two enumerations of states                                      *)
(* ================================================================== *)
Definition st_map (s : state) : SB.pstate :=
  match s with
  | SchemeStart => SB.SchemeStartState
  | Scheme => SB.SchemeState
  | NoScheme => SB.NoSchemeState
  | OpaquePath => SB.OpaquePathState
  | SpecialRelativeOrAuthority => SB.SpecialRelativeOrAuthorityState
  | SpecialAuthoritySlashes => SB.SpecialAuthoritySlashesState
  | SpecialAuthorityIgnoreSlashes => SB.SpecialAuthorityIgnoreSlashesState
  | PathOrAuthority => SB.PathOrAuthorityState
  | Authority => SB.AuthorityState
  | HostSt => SB.HostState
  | HostnameSt => SB.HostnameState
  | File => SB.FileState
  | FileHost => SB.FileHostState
  | FileSlash => SB.FileSlashState
  | PortSt => SB.PortState
  | PathSt => SB.PathState
  | PathStart => SB.PathStartState
  | QuerySt => SB.QueryState
  | FragmentSt => SB.FragmentState
  | Relative => SB.RelativeState
  | RelativeSlash => SB.RelativeSlashState
  end.

Lemma st_map_inj a b : st_map a = st_map b -> a = b.
Proof. destruct a, b; intros H; try reflexivity; discriminate H. Qed.

(* ================================================================== *)
(* validation errors do not matter                                      *)
(* ================================================================== *)
Lemma R_set_verrs u v su : R u su -> R (set_verrs u v) su.
Proof. intros [H1 H2 H3 H4 H5 H6 H7 H8]. constructor; assumption. Qed.

Lemma R_set_verrs_inv u v su : R (set_verrs u v) su -> R u su.
Proof. intros [H1 H2 H3 H4 H5 H6 H7 H8]. constructor; assumption. Qed.

(* the record after handleError: the same but for the list of validation errors *)
Definition noted (c : cfg) (u : url) (t : etype) (f : bool) : url := fst (handleError c u t f).

Lemma noted_eq c u t f : exists v, noted c u t f = set_verrs u v.
Proof.
  unfold noted, handleError. cbn [fst]. destruct (c_report c).
  - eexists. reflexivity.
  - exists (u_verrs u). destruct u; reflexivity.
Qed.

Lemma R_noted c u t f su : R u su -> R (noted c u t f) su.
Proof. intros H. destruct (noted_eq c u t f) as [v ->]. apply R_set_verrs. exact H. Qed.

Lemma mherr_warn c u t k : c_fail c = false -> mherr c u t false k = k (noted c u t false).
Proof. intros H. unfold mherr, noted, handleError. rewrite H. reflexivity. Qed.

Lemma mherr_fatal c u t k : exists e, mherr c u t true k = RetErr (noted c u t true) e.
Proof. unfold mherr, noted, handleError. cbn [orb fst]. eexists. reflexivity. Qed.

(* fields of a noted record *)
Lemma noted_scheme c u t f : u_scheme (noted c u t f) = u_scheme u.
Proof. destruct (noted_eq c u t f) as [v ->]. reflexivity. Qed.
Lemma noted_username c u t f : u_username (noted c u t f) = u_username u.
Proof. destruct (noted_eq c u t f) as [v ->]. reflexivity. Qed.
Lemma noted_password c u t f : u_password (noted c u t f) = u_password u.
Proof. destruct (noted_eq c u t f) as [v ->]. reflexivity. Qed.
Lemma noted_host c u t f : u_host (noted c u t f) = u_host u.
Proof. destruct (noted_eq c u t f) as [v ->]. reflexivity. Qed.
Lemma noted_port c u t f : u_port (noted c u t f) = u_port u.
Proof. destruct (noted_eq c u t f) as [v ->]. reflexivity. Qed.
Lemma noted_path c u t f : u_path (noted c u t f) = u_path u.
Proof. destruct (noted_eq c u t f) as [v ->]. reflexivity. Qed.
Lemma noted_opaque c u t f : u_opaque (noted c u t f) = u_opaque u.
Proof. destruct (noted_eq c u t f) as [v ->]. reflexivity. Qed.
Lemma noted_query c u t f : u_query (noted c u t f) = u_query u.
Proof. destruct (noted_eq c u t f) as [v ->]. reflexivity. Qed.
Lemma noted_fragment c u t f : u_fragment (noted c u t f) = u_fragment u.
Proof. destruct (noted_eq c u t f) as [v ->]. reflexivity. Qed.

(* ================================================================== *)
(* R up to one field                                                    *)
(* ================================================================== *)
(* in the fragment state the standard appends to url's fragment while the model collects the fragment in its
   buffer; in the query state the model's buffer holds the encoded query; so the relation on the records
   ignores the model's fragment, resp. query, there *)
Definition Rf (u : url) (su : SU.surl) : Prop := R (set_fragment u (option_map encode_runes (SU.u_fragment su))) su.
Definition Rq (u : url) (su : SU.surl) : Prop := R (set_query u (option_map encode_runes (SU.u_query su))) su.

Lemma R_Rf u su : R u su -> Rf u su.
Proof. intros [H1 H2 H3 H4 H5 H6 H7 H8]. constructor; try assumption. reflexivity. Qed.
Lemma R_Rq u su : R u su -> Rq u su.
Proof. intros [H1 H2 H3 H4 H5 H6 H7 H8]. constructor; try assumption. reflexivity. Qed.

Lemma Rf_R u su : Rf u su -> u_fragment u = option_map encode_runes (SU.u_fragment su) -> R u su.
Proof. intros [H1 H2 H3 H4 H5 H6 H7 H8] E. constructor; assumption. Qed.
Lemma Rq_R u su : Rq u su -> u_query u = option_map encode_runes (SU.u_query su) -> R u su.
Proof. intros [H1 H2 H3 H4 H5 H6 H7 H8] E. constructor; assumption. Qed.

(* Rf survives any change of the fragments, and of the validation errors *)
Lemma Rf_fragment u su f x : Rf u su -> Rf (set_fragment u f) (SU.with_fragment su x).
Proof. intros [H1 H2 H3 H4 H5 H6 H7 H8]. constructor; try assumption. reflexivity. Qed.
Lemma Rf_with_fragment u su x : Rf u su -> Rf u (SU.with_fragment su x).
Proof. intros [H1 H2 H3 H4 H5 H6 H7 H8]. constructor; try assumption. reflexivity. Qed.
Lemma Rf_noted c u t f su : Rf u su -> Rf (noted c u t f) su.
Proof.
  intros [H1 H2 H3 H4 H5 H6 H7 H8]. destruct (noted_eq c u t f) as [v ->]. constructor; assumption.
Qed.
Lemma Rq_query u su q x : Rq u su -> Rq (set_query u q) (SU.with_query su x).
Proof. intros [H1 H2 H3 H4 H5 H6 H7 H8]. constructor; try assumption. reflexivity. Qed.
Lemma Rq_with_query u su x : Rq u su -> Rq u (SU.with_query su x).
Proof. intros [H1 H2 H3 H4 H5 H6 H7 H8]. constructor; try assumption. reflexivity. Qed.
Lemma Rq_noted c u t f su : Rq u su -> Rq (noted c u t f) su.
Proof.
  intros [H1 H2 H3 H4 H5 H6 H7 H8]. destruct (noted_eq c u t f) as [v ->]. constructor; assumption.
Qed.

(* setting a field on both sides *)
Lemma R_set_fragment u su f : R u su -> R (set_fragment u (option_map encode_runes f)) (SU.with_fragment su f).
Proof. intros [H1 H2 H3 H4 H5 H6 H7 H8]. constructor; try assumption. reflexivity. Qed.
Lemma R_set_query u su q : R u su -> R (set_query u (option_map encode_runes q)) (SU.with_query su q).
Proof. intros [H1 H2 H3 H4 H5 H6 H7 H8]. constructor; try assumption. reflexivity. Qed.
Lemma R_set_scheme u su s : R u su -> R (set_scheme u (encode_runes s)) (SU.with_scheme su s).
Proof. intros [H1 H2 H3 H4 H5 H6 H7 H8]. constructor; try assumption. reflexivity. Qed.
Lemma R_set_username u su s : R u su -> R (set_username u (encode_runes s)) (SU.with_username su s).
Proof. intros [H1 H2 H3 H4 H5 H6 H7 H8]. constructor; try assumption. reflexivity. Qed.
Lemma R_set_password u su s : R u su -> R (set_password u (encode_runes s)) (SU.with_password su s).
Proof. intros [H1 H2 H3 H4 H5 H6 H7 H8]. constructor; try assumption. reflexivity. Qed.
Lemma R_set_host u su h : R u su ->
  R (set_host u (option_map host_bytes h)) (SU.with_host su h).
Proof. intros [H1 H2 H3 H4 H5 H6 H7 H8]. constructor; try assumption. reflexivity. Qed.
Lemma R_set_port u su p d : R u su ->
  R (set_port u (option_map (fun n => encode_runes (SU.serialize_integer n)) p) d) (SU.with_port su p).
Proof. intros [H1 H2 H3 H4 H5 H6 H7 H8]. constructor; try assumption. reflexivity. Qed.
Lemma R_set_path_list u su segs : R u su ->
  R (set_path u (map encode_runes segs) false) (SU.with_path su (SU.PList segs)).
Proof. intros [H1 H2 H3 H4 H5 H6 H7 H8]. constructor; try assumption. split; reflexivity. Qed.
Lemma R_set_path_opaque u su s : R u su ->
  R (set_path u [encode_runes s] true) (SU.with_path su (SU.POpaque s)).
Proof. intros [H1 H2 H3 H4 H5 H6 H7 H8]. constructor; try assumption. split; reflexivity. Qed.
(* the Rf / Rq versions of changes to other fields are obtained through these two *)
Lemma Rf_lift (F : url -> url) (G : SU.surl -> SU.surl) :
  (forall u x, set_fragment (F u) x = F (set_fragment u x)) ->
  (forall su, SU.u_fragment (G su) = SU.u_fragment su) ->
  (forall u su, R u su -> R (F u) (G su)) ->
  forall u su, Rf u su -> Rf (F u) (G su).
Proof. intros HF HG HR u su H. unfold Rf in *. rewrite HG, HF. apply HR. exact H. Qed.
Lemma Rq_lift (F : url -> url) (G : SU.surl -> SU.surl) :
  (forall u x, set_query (F u) x = F (set_query u x)) ->
  (forall su, SU.u_query (G su) = SU.u_query su) ->
  (forall u su, R u su -> R (F u) (G su)) ->
  forall u su, Rq u su -> Rq (F u) (G su).
Proof. intros HF HG HR u su H. unfold Rq in *. rewrite HG, HF. apply HR. exact H. Qed.

(* ================================================================== *)
(* special schemes                                                      *)
(* ================================================================== *)
Lemma cps_eqb_true a b : SU.cps_eqb a b = true <-> a = b.
Proof. apply RP.list_eqb_N_true. Qed.

Lemma special_scheme_spec c s : c_special c = std_special ->
  isSpecialScheme c (encode_runes s) = SU.is_special_scheme s.
Proof.
  intros Hs. unfold isSpecialScheme, getSpecialScheme, SU.is_special_scheme. rewrite Hs.
  unfold std_special. cbn [assoc].
  assert (E : forall t, Forall (fun x => x < 128) t -> str_eqb (encode_runes s) t = SU.cps_eqb s t)
    by (intros t Ht; apply RP.str_eqb_encode_cps; exact Ht).
  rewrite (E [102;105;108;101]) by (repeat constructor; lia).
  rewrite (E [102;116;112]) by (repeat constructor; lia).
  rewrite (E [104;116;116;112]) by (repeat constructor; lia).
  rewrite (E [104;116;116;112;115]) by (repeat constructor; lia).
  rewrite (E [119;115]) by (repeat constructor; lia).
  rewrite (E [119;115;115]) by (repeat constructor; lia).
  change [102;105;108;101] with SU.sc_file. change [102;116;112] with SU.sc_ftp.
  change [104;116;116;112] with SU.sc_http. change [104;116;116;112;115] with SU.sc_https.
  change [119;115] with SU.sc_ws. change [119;115;115] with SU.sc_wss.
  destruct (SU.cps_eqb s SU.sc_file) eqn:E1.
  { apply cps_eqb_true in E1. subst s. reflexivity. }
  destruct (SU.cps_eqb s SU.sc_ftp) eqn:E2; [reflexivity|].
  destruct (SU.cps_eqb s SU.sc_http) eqn:E3; [reflexivity|].
  destruct (SU.cps_eqb s SU.sc_https) eqn:E4; [reflexivity|].
  destruct (SU.cps_eqb s SU.sc_ws) eqn:E5; [reflexivity|].
  destruct (SU.cps_eqb s SU.sc_wss) eqn:E6; reflexivity.
Qed.

Lemma R_special c u su : c_special c = std_special -> R u su -> IsSpecialScheme c u = SU.url_is_special su.
Proof.
  intros Hs HR. unfold IsSpecialScheme, SU.url_is_special. rewrite (RU.R_scheme u su HR).
  apply special_scheme_spec. exact Hs.
Qed.

Lemma R_scheme_file u su : R u su -> str_eqb (u_scheme u) s_file = SU.cps_eqb (SU.u_scheme su) SU.sc_file.
Proof. intros HR. rewrite (RU.R_scheme u su HR). apply RP.str_eqb_encode_file. Qed.

(* ================================================================== *)
(* reading the input                                                    *)
(* ================================================================== *)
Section Input.
  Variable inp : list rune.
  Let input : list N := map rv inp.

  Lemma n_inp_len : n_inp inp = Z.of_nat (length input).
  Proof. unfold n_inp, len, input. rewrite map_length. reflexivity. Qed.

  Lemma substring_rest p : SB.substring_from input p = rest_from inp p.
  Proof. unfold SB.substring_from, rest_from, input. apply skipn_map. Qed.

  Lemma here_eof p : (n_inp inp <= p)%Z -> SB.substring_from input p = [].
  Proof.
    intros H. unfold SB.substring_from. apply skipn_all2. rewrite n_inp_len in H. lia.
  Qed.

  Lemma nth_opt_nth_error {A} (l : list A) n : nth_opt l n = nth_error l n.
  Proof. revert n. induction l as [|x l IH]; intros [|n]; try reflexivity. apply IH. Qed.

  Lemma skipn_cons_nth {A} (l : list A) n x : nth_error l n = Some x -> skipn n l = x :: skipn (S n) l.
  Proof.
    revert n. induction l as [|y l IH]; intros [|n] H; try discriminate H.
    - inversion H; subst. reflexivity.
    - cbn [nth_error] in H. cbn [skipn]. apply IH. exact H.
  Qed.

  Lemma here_cons p : (0 <= p)%Z -> (p < n_inp inp)%Z ->
    SB.substring_from input p = cp_at inp p :: SB.substring_from input (p + 1).
  Proof.
    intros H0 Hn. unfold SB.substring_from, cp_at.
    replace (p <? 0)%Z with false by lia.
    rewrite n_inp_len in Hn.
    destruct (nth_error input (Z.to_nat p)) as [x|] eqn:E.
    2:{ apply nth_error_None in E. lia. }
    rewrite (skipn_cons_nth input _ x E).
    replace (Z.to_nat (p + 1)) with (S (Z.to_nat p)) by lia.
    f_equal. rewrite nth_opt_nth_error. unfold input in E. rewrite nth_error_map in E.
    destruct (nth_error inp (Z.to_nat p)) as [r|]; [|discriminate E]. cbn [option_map] in E. congruence.
  Qed.

  Lemma points_to_eof_spec p : SB.points_to_eof input p = (0 <=? p)%Z && (n_inp inp <=? p)%Z.
  Proof. unfold SB.points_to_eof, SB.input_length. rewrite n_inp_len. reflexivity. Qed.

  (* remaining starts with *)
  Lemma list_eqb_firstn_prefix (pre l : list N) : list_eqb N.eqb (firstn (length pre) l) pre = has_prefix pre l.
  Proof.
    revert l. induction pre as [|x pre IH]; intros l; [reflexivity|].
    destruct l as [|y l]; [reflexivity|].
    cbn [length firstn list_eqb has_prefix]. rewrite IH, N.eqb_sym. reflexivity.
  Qed.

  Lemma remainingStartsWith_spec p pre : (0 <= p)%Z -> (p < n_inp inp)%Z ->
    remainingStartsWith inp p false pre = SB.starts_with (SB.remaining (SB.substring_from input p)) pre.
  Proof.
    intros H0 Hn. unfold remainingStartsWith, SB.starts_with, SB.remaining.
    rewrite (here_cons p H0 Hn). cbn [tl]. rewrite substring_rest. apply list_eqb_firstn_prefix.
  Qed.
End Input.

(* ================================================================== *)
(* the relation on parser states                                        *)
(* ================================================================== *)
Definition qset (su : SU.surl) : N -> bool :=
  if SU.url_is_special su then in_special_query_set else in_query_set.

(* what ties the model's buffer and record to the standard's, per state; [ov]: a state override is given;
   [ptr]: the model's pointer *)
Definition list_path (su : SU.surl) : Prop := SU.has_opaque_path su = false.

(* a URL whose scheme is "file" has a non-null host (true of every parsed URL; the model's scheme state under
   a state override treats a null host of a file URL like the empty host, the standard does not) *)
Definition file_host_ok (su : SU.surl) : Prop :=
  SU.cps_eqb (SU.u_scheme su) SU.sc_file = true -> SU.u_host su <> None.

Definition base_not_file (sbase : option SU.surl) : Prop :=
  exists sb, sbase = Some sb /\ SU.cps_eqb (SU.u_scheme sb) SU.sc_file = false /\ SU.has_opaque_path sb = false.

Definition st_rel (ov : bool) (sbase : option SU.surl) (st : state) (ptr : Z) (buf : str) (mu : url)
           (sm : SB.machine) : Prop :=
  let su := SB.m_url sm in
  let sbuf := SB.m_buffer sm in
  match st with
  | FragmentSt =>
      (* the standard appends to url's fragment, the model collects the fragment in its buffer *)
      exists f, SU.u_fragment su = Some f /\ buf = encode_runes f /\ Rf mu su
  | QuerySt =>
      (* the standard collects code points and encodes at the end, the model encodes at once *)
      exists q0, SU.u_query su = Some q0 /\ is_some (u_query mu) = true /\
                 buf = encode_runes (q0 ++ utf8_percent_encode (qset su) sbuf) /\ Rq mu su
  | OpaquePath =>
      exists s, SU.u_path su = SU.POpaque s /\ buf = encode_runes s /\ sbuf = [] /\ R mu su
  | PortSt =>
      buf = encode_runes sbuf /\ forallb ascii_digit sbuf = true /\ R mu su /\ (ov = false -> list_path su)
  | Scheme =>
      buf = encode_runes sbuf /\ ascii sbuf /\ R mu su /\ (ov = false -> list_path su) /\ file_host_ok su
  | SchemeStart =>
      buf = [] /\ sbuf = [] /\ R mu su /\ (ov = false -> list_path su) /\ file_host_ok su
  | Authority =>
      buf = encode_runes sbuf /\ Forall scalar sbuf /\ (Z.of_nat (length sbuf) <= ptr + 1)%Z /\ R mu su /\ list_path su
  | HostSt | HostnameSt | FileHost | PathSt =>
      buf = encode_runes sbuf /\ Forall scalar sbuf /\ R mu su /\ list_path su
  | Relative | SpecialRelativeOrAuthority =>
      buf = [] /\ sbuf = [] /\ R mu su /\ list_path su /\ base_not_file sbase
  | RelativeSlash =>
      buf = [] /\ sbuf = [] /\ R mu su /\ list_path su /\ sbase <> None
  | NoScheme | PathOrAuthority | SpecialAuthoritySlashes | SpecialAuthorityIgnoreSlashes
  | File | FileSlash | PathStart =>
      buf = [] /\ sbuf = [] /\ R mu su /\ list_path su
  end.

Definition flags_rel (mm : mstate) (sm : SB.machine) : Prop :=
  m_at mm = SB.m_atSignSeen sm /\ m_br mm = SB.m_insideBrackets sm /\ m_pw mm = SB.m_passwordTokenSeen sm.

(* the base URLs *)
Definition base_rel (base : option url) (sbase : option SU.surl) : Prop :=
  match base, sbase with
  | Some b, Some sb => R b sb
  | None, None => True
  | _, _ => False
  end.

(* a special base URL does not have an opaque path (the standard asserts it; true of every parsed URL) *)
Definition base_wf (sbase : option SU.surl) : Prop :=
  forall sb, sbase = Some sb -> SU.url_is_special sb = true -> SU.has_opaque_path sb = false.

(* what is assumed of the UTS #46 oracle behind the model's wrapper [ToASCII]:
   (1) an accepted result is a non-empty ASCII string (the standard's "domain to ASCII" fails on an empty
       result; the wrapper does not check this on its fall-back path),
   (2) a domain containing U+FFFD is rejected (the standard decodes invalid UTF-8 lossily and asks the oracle;
       the model fails at once). *)
Definition oracle_ok (idna_raw : str -> str * bool) (c : cfg) : Prop :=
  (forall d a, d <> [] -> valid_utf8 d = true -> ToASCII idna_raw c d = Some a -> a <> [] /\ ascii a) /\
  (forall l, In 65533 l -> ToASCII idna_raw c (utf8_encode l) = None).

Section Rel.
  Variable inp : list rune.
  Let input : list N := map rv inp.
  Variable ov : bool.
  Variable sbase : option SU.surl.

  (* before a run of the state machine: the model's pointer is one behind (its step starts by advancing) *)
  Record Rel_before (mm : mstate) (sm : SB.machine) : Prop := {
    rb_state : st_map (m_state mm) = SB.m_state sm;
    rb_ptr : SB.m_pointer sm = (m_ptr mm + 1)%Z;
    rb_eof : m_eof mm = false;
    rb_lo : (-1 <= m_ptr mm)%Z;
    rb_hi : (m_ptr mm < n_inp inp)%Z;
    rb_flags : flags_rel mm sm;
    rb_st : st_rel ov sbase (m_state mm) (m_ptr mm) (m_buf mm) (m_url mm) sm
  }.

  (* after a run: same pointer; the model's eof flag says whether the pointer is at the EOF code point *)
  Record Rel_after (mm : mstate) (sm : SB.machine) : Prop := {
    ra_state : st_map (m_state mm) = SB.m_state sm;
    ra_ptr : SB.m_pointer sm = m_ptr mm;
    ra_lo : (-1 <= m_ptr mm)%Z;
    ra_eof : m_eof mm = SB.points_to_eof input (m_ptr mm);
    ra_flags : flags_rel mm sm;
    ra_st : st_rel ov sbase (m_state mm) (m_ptr mm) (m_buf mm) (m_url mm) sm;
    ra_final : m_eof mm = true -> R (m_url mm) (SB.m_url sm)
  }.

  Lemma st_rel_pointer st ptr buf mu sm p : st_rel ov sbase st ptr buf mu sm -> st_rel ov sbase st ptr buf mu (SB.set_pointer sm p).
  Proof. destruct sm. exact (fun H => H). Qed.

  Lemma after_before mm sm : Rel_after mm sm -> m_eof mm = false -> Rel_before mm (SB.increase_pointer sm).
  Proof.
    intros [H1 H2 H3 H4 H5 H6 _] He. constructor.
    - destruct sm. exact H1.
    - destruct sm. cbn in *. lia.
    - exact He.
    - exact H3.
    - rewrite He in H4. unfold input in H4. rewrite points_to_eof_spec in H4.
      unfold n_inp, len in *. lia.
    - destruct sm. exact H5.
    - apply st_rel_pointer. exact H6.
  Qed.

  (* what one run returns *)
  Definition out_rel (o : outcome) (so : SB.step_result) : Prop :=
    match o, so with
    | Cont mm', SB.SCont sm' => Rel_after mm' sm'
    | RetUrl u, SB.SRet su => R u su
    | RetErr u _, SB.SFail su => R u su
    (* with a state override the model reports some conditions as errors where the standard just returns
       (port state: empty buffer); the API setters ignore the difference *)
    | RetErr u _, SB.SRet su => ov = true /\ R u su
    (* only under a state override (file host state, empty buffer): the model returns (nil, nil) *)
    | RetNilNil u, SB.SRet su => ov = true /\ R u su
    | _, _ => False
    end.

  (* what the loop returns *)
  Definition result_rel (r : result) (so : SB.outcome) : Prop :=
    match r, so with
    | RUrl u, SB.Done su => R u su
    | RErr u _, SB.Failed su => R u su
    | RErr u _, SB.Done su => ov = true /\ R u su
    | RNilNil u, SB.Done su => ov = true /\ R u su
    | ROutOfFuel, SB.OutOfFuel => True
    | _, _ => False
    end.
End Rel.

(* ================================================================== *)
(* from the one-step simulation to the simulation of the loop           *)
(* ================================================================== *)
Section Loop.
  Variable idna_raw : str -> str * bool.
  Variable c : cfg.
  Variable inp : list rune.
  Let input : list N := map rv inp.
  Variable base : option url.
  Variable sbase : option SU.surl.
  Variable override : option state.
  Let sover : option SB.pstate := option_map st_map override.

  Definition mstep (mm : mstate) : outcome := step idna_raw c inp base override mm.
  Definition sstep (sm : SB.machine) : SB.step_result :=
    SB.step (dta idna_raw c) sbase sover sm (SB.substring_from input (SB.m_pointer sm)).

  (* the one-step simulation, as a property of a set of states *)
  Definition step_sim_for (P : state -> Prop) : Prop :=
    forall mm sm, P (m_state mm) -> Rel_before inp (is_some override) sbase mm sm ->
      out_rel inp (is_some override) sbase (mstep mm) (sstep sm).

  Hypothesis Hsim : step_sim_for (fun _ => True).

  Theorem run_sim : forall fuel mm sm, Rel_before inp (is_some override) sbase mm sm ->
    result_rel (is_some override) (run idna_raw c inp base override fuel mm)
               (SB.run_plain (dta idna_raw c) input sbase sover fuel sm).
  Proof.
    induction fuel as [|fuel IH]; intros mm sm HR; [exact I|].
    cbn [run SB.run_plain].
    pose proof (Hsim mm sm I HR) as Hs. unfold mstep, sstep in Hs.
    destruct (step idna_raw c inp base override mm) as [mm'|u|u e|u|];
      destruct (SB.step (dta idna_raw c) sbase sover sm (SB.substring_from input (SB.m_pointer sm)))
        as [sm'|su|su|]; cbn [out_rel] in Hs; try contradiction; try exact Hs.
    pose proof (ra_eof inp _ _ mm' sm' Hs) as He. rewrite (ra_ptr inp _ _ mm' sm' Hs).
    fold input in He. rewrite <- He.
    destruct (m_eof mm') eqn:E.
    - cbn [result_rel]. apply (ra_final inp _ _ mm' sm' Hs). exact E.
    - apply IH. apply after_before; assumption.
  Qed.
End Loop.

(* ================================================================== *)
(* decimal numbers                                                      *)
(* ================================================================== *)
Module S4 := Verif.Spec.IPv4.

Lemma to_number_snoc l d : S4.to_number 10 (l ++ [d]) = S4.to_number 10 l * 10 + S4.digit_value d.
Proof. unfold S4.to_number. rewrite fold_left_app. reflexivity. Qed.

Lemma to_number_dec_fuel : forall f n, n < 2 ^ N.of_nat f -> S4.to_number 10 (S4.dec_fuel (S f) n) = n.
Proof.
  induction f as [|f IH]; intros n Hn.
  - change (2 ^ N.of_nat 0) with 1 in Hn. assert (n = 0) by lia. subst n. reflexivity.
  - change (S4.dec_fuel (S (S f)) n)
      with (if n <? 10 then [48 + n] else S4.dec_fuel (S f) (n / 10) ++ [48 + n mod 10]).
    destruct (n <? 10) eqn:E.
    + unfold S4.to_number. cbn [fold_left]. unfold S4.digit_value, ascii_digit.
      replace ((48 <=? 48 + n) && (48 + n <=? 57)) with true by lia. lia.
    + rewrite to_number_snoc. rewrite IH.
      * unfold S4.digit_value, ascii_digit.
        assert (n mod 10 < 10) by (apply N.mod_lt; lia).
        replace ((48 <=? 48 + n mod 10) && (48 + n mod 10 <=? 57)) with true by lia. lia.
      * rewrite Nat2N.inj_succ, N.pow_succ_r' in Hn. lia.
Qed.

Lemma pos_size_nat_gt p : N.pos p < 2 ^ N.of_nat (Pos.size_nat p).
Proof.
  induction p as [p IH|p IH|]; cbn [Pos.size_nat]; rewrite ?Nat2N.inj_succ, ?N.pow_succ_r'; lia.
Qed.

Lemma size_nat_gt n : n < 2 ^ N.of_nat (N.size_nat n).
Proof. destruct n as [|p]; [reflexivity|apply pos_size_nat_gt]. Qed.

Theorem to_number_decimal n : S4.to_number 10 (S4.decimal n) = n.
Proof. unfold S4.decimal. apply to_number_dec_fuel. apply size_nat_gt. Qed.

Corollary decimal_inj a b : S4.decimal a = S4.decimal b -> a = b.
Proof. intros H. rewrite <- (to_number_decimal a), <- (to_number_decimal b), H. reflexivity. Qed.

Lemma decimal_nonnil n : S4.decimal n <> [].
Proof.
  unfold S4.decimal. cbn [S4.dec_fuel]. destruct (n <? 10); [discriminate|].
  destruct (S4.dec_fuel (N.size_nat n) (n / 10)); discriminate.
Qed.

Lemma itoa_bytes n : itoa n = encode_runes (SU.serialize_integer n).
Proof.
  unfold SU.serialize_integer. rewrite enc_runes_ascii by apply decimal_ascii.
  apply Verif.Proofs.IPv4Proofs.itoa_decimal.
Qed.

(* digits: the model's and the standard's values *)
Lemma digits_val_spec l : forallb ascii_digit l = true -> digits_val 10 l = S4.to_number 10 l.
Proof.
  unfold digits_val, S4.to_number. generalize 0 as acc.
  induction l as [|d l IH]; intros acc H; [reflexivity|].
  cbn [forallb] in H. apply andb_true_iff in H. destruct H as [Hd Hl].
  cbn [fold_left]. rewrite IH by exact Hl. f_equal. f_equal.
  unfold hex_val, S4.digit_value, is_digit, ascii_digit in *. rewrite Hd. reflexivity.
Qed.

Lemma digits_ascii l : forallb ascii_digit l = true -> ascii l.
Proof.
  intros H. unfold ascii. rewrite forallb_forall in H. apply Forall_forall. intros x Hx.
  specialize (H x Hx). unfold ascii_digit in H. lia.
Qed.

(* ================================================================== *)
(* more facts used by several states                                    *)
(* ================================================================== *)
Lemma ascii_scalar l : ascii l -> Forall scalar l.
Proof.
  intros H. unfold ascii in H. rewrite Forall_forall in *. intros x Hx. specialize (H x Hx).
  unfold scalar, is_surrogate. lia.
Qed.

Lemma str_eqb_true a b : str_eqb a b = true <-> a = b.
Proof. apply RP.list_eqb_N_true. Qed.

Lemma is_nil_enc l : is_nil (encode_runes l) = is_nil l.
Proof. apply RU.encode_runes_is_nil. Qed.

(* the empty host *)
Lemma host_bytes_is_nil h : is_nil (host_bytes h) = SU.host_is_empty h.
Proof.
  destruct h as [d|a|p|o|]; unfold host_bytes; cbn [SU.host_serialize SU.host_is_empty].
  - apply is_nil_enc.
  - rewrite enc_runes_ascii by apply ipv4_serialize_ascii.
    rewrite Verif.Proofs.IPv4Proofs.ipv4_serialize_unfold.
    destruct (S4.decimal (a / 256 / 256 / 256 mod 256)) eqn:E; [exfalso; exact (decimal_nonnil _ E)|reflexivity].
  - reflexivity.
  - apply is_nil_enc.
  - reflexivity.
Qed.

Lemma R_host_none u su : R u su -> is_some (u_host u) = is_some (SU.u_host su).
Proof. intros H. rewrite (RU.R_host u su H). destruct (SU.u_host su); reflexivity. Qed.

Lemma R_port_some u su : R u su -> is_some (u_port u) = is_some (SU.u_port su).
Proof. intros H. rewrite (RU.R_port u su H). destruct (SU.u_port su); reflexivity. Qed.

(* the empty-or-null host test of the model's scheme state *)
Lemma R_host_empty u su : R u su -> SU.u_host su <> None ->
  match u_host u with None => true | Some h => is_nil h end =
  match SU.u_host su with Some h => SU.host_is_empty h | None => false end.
Proof.
  intros H Hn. rewrite (RU.R_host u su H). destruct (SU.u_host su) as [h|]; [|congruence].
  cbn [option_map]. apply host_bytes_is_nil.
Qed.

(* default ports: the model compares decimal strings, the standard numbers *)
Lemma getSpecialScheme_spec c s : c_special c = std_special ->
  getSpecialScheme c (encode_runes s) =
  if SU.cps_eqb s SU.sc_file then Some []
  else if SU.cps_eqb s SU.sc_ftp then Some (S4.decimal 21)
  else if SU.cps_eqb s SU.sc_http then Some (S4.decimal 80)
  else if SU.cps_eqb s SU.sc_https then Some (S4.decimal 443)
  else if SU.cps_eqb s SU.sc_ws then Some (S4.decimal 80)
  else if SU.cps_eqb s SU.sc_wss then Some (S4.decimal 443)
  else None.
Proof.
  intros Hs. unfold getSpecialScheme. rewrite Hs. unfold std_special. cbn [assoc].
  assert (E : forall t, Forall (fun x => x < 128) t -> str_eqb (encode_runes s) t = SU.cps_eqb s t)
    by (intros t Ht; apply RP.str_eqb_encode_cps; exact Ht).
  rewrite (E [102;105;108;101]) by (repeat constructor; lia).
  rewrite (E [102;116;112]) by (repeat constructor; lia).
  rewrite (E [104;116;116;112]) by (repeat constructor; lia).
  rewrite (E [104;116;116;112;115]) by (repeat constructor; lia).
  rewrite (E [119;115]) by (repeat constructor; lia).
  rewrite (E [119;115;115]) by (repeat constructor; lia).
  reflexivity.
Qed.

Lemma str_eqb_decimal a b : str_eqb (S4.decimal a) (S4.decimal b) = (a =? b).
Proof.
  apply eq_true_iff_eq. rewrite str_eqb_true, N.eqb_eq. split; [apply decimal_inj|intros ->; reflexivity].
Qed.

Lemma str_eqb_nil_decimal b : str_eqb [] (S4.decimal b) = false.
Proof. destruct (S4.decimal b) eqn:E; [exfalso; exact (decimal_nonnil _ E)|reflexivity]. Qed.

Lemma R_port_none u su d : R u su -> R (set_port u None d) (SU.with_port su None).
Proof. intros H. exact (R_set_port u su None d H). Qed.

Lemma with_port_same su : SU.with_port su (SU.u_port su) = su.
Proof. destruct su; reflexivity. Qed.

Theorem R_cleanDefaultPort c u su : c_special c = std_special -> R u su ->
  R (cleanDefaultPort c u)
    (if opt_eqb N.eqb (SU.u_port su) (SU.default_port (SU.u_scheme su)) then SU.with_port su None else su).
Proof.
  intros Hs HR. unfold cleanDefaultPort. rewrite (RU.R_scheme u su HR), (getSpecialScheme_spec c _ Hs).
  rewrite (RU.R_port u su HR). unfold SU.default_port.
  assert (Hnone : forall d, SU.u_port su = None -> R (set_port u None d) su).
  { intros d E. pose proof (R_port_none u su d HR) as G. rewrite <- E in G. rewrite with_port_same in G. exact G. }
  assert (Hfile : SU.cps_eqb (SU.u_scheme su) SU.sc_file = true ->
                  SU.cps_eqb (SU.u_scheme su) SU.sc_ftp = false /\ SU.cps_eqb (SU.u_scheme su) SU.sc_http = false /\
                  SU.cps_eqb (SU.u_scheme su) SU.sc_https = false /\ SU.cps_eqb (SU.u_scheme su) SU.sc_ws = false /\
                  SU.cps_eqb (SU.u_scheme su) SU.sc_wss = false).
  { intros E. apply cps_eqb_true in E. rewrite E. repeat split; reflexivity. }
  assert (Hdec : forall n, SU.serialize_integer n = S4.decimal n) by reflexivity.
  assert (Henc : forall n, encode_runes (SU.serialize_integer n) = S4.decimal n)
    by (intros n; rewrite Hdec; apply enc_runes_ascii; apply decimal_ascii).
  destruct (SU.cps_eqb (SU.u_scheme su) SU.sc_file) eqn:E1.
  { destruct (Hfile eq_refl) as [F2 [F3 [F4 [F5 F6]]]]. rewrite F2, F3, F4, F5, F6.
    destruct (SU.u_port su) as [n|] eqn:Ep; cbn [option_map opt_eqb].
    - rewrite Henc, str_eqb_nil_decimal. exact HR.
    - apply R_port_none. exact HR. }
  destruct (SU.cps_eqb (SU.u_scheme su) SU.sc_ftp) eqn:E2.
  { destruct (SU.u_port su) as [n|] eqn:Ep; cbn [option_map opt_eqb].
    - rewrite Henc, str_eqb_decimal, N.eqb_sym. destruct (n =? 21); [apply R_port_none|]; exact HR.
    - apply Hnone. reflexivity. }
  destruct (SU.cps_eqb (SU.u_scheme su) SU.sc_http) eqn:E3.
  { destruct (SU.u_port su) as [n|] eqn:Ep; cbn [option_map opt_eqb].
    - rewrite Henc, str_eqb_decimal, N.eqb_sym. destruct (n =? 80); [apply R_port_none|]; exact HR.
    - apply Hnone. reflexivity. }
  destruct (SU.cps_eqb (SU.u_scheme su) SU.sc_https) eqn:E4.
  { destruct (SU.u_port su) as [n|] eqn:Ep; cbn [option_map opt_eqb].
    - rewrite Henc, str_eqb_decimal, N.eqb_sym. destruct (n =? 443); [apply R_port_none|]; exact HR.
    - apply Hnone. reflexivity. }
  destruct (SU.cps_eqb (SU.u_scheme su) SU.sc_ws) eqn:E5.
  { destruct (SU.u_port su) as [n|] eqn:Ep; cbn [option_map opt_eqb].
    - rewrite Henc, str_eqb_decimal, N.eqb_sym. destruct (n =? 80); [apply R_port_none|]; exact HR.
    - apply Hnone. reflexivity. }
  destruct (SU.cps_eqb (SU.u_scheme su) SU.sc_wss) eqn:E6.
  { destruct (SU.u_port su) as [n|] eqn:Ep; cbn [option_map opt_eqb].
    - rewrite Henc, str_eqb_decimal, N.eqb_sym. destruct (n =? 443); [apply R_port_none|]; exact HR.
    - apply Hnone. reflexivity. }
  destruct (SU.u_port su) as [n|] eqn:Ep; cbn [option_map opt_eqb]; [exact HR|].
  pose proof (R_port_none u su (u_decodedPort u) HR) as G.
  replace (set_port u None (u_decodedPort u)) with u in G; [exact G|].
  pose proof (RU.R_port u su HR) as P. rewrite Ep in P. cbn [option_map] in P.
  destruct u; cbn in *. subst. reflexivity.
Qed.

(* copying the authority of the base *)
Lemma R_copy_base_auth u su b sb : R u su -> R b sb ->
  R (copy_base_auth u b)
    (SU.with_port (SU.with_host (SU.with_password (SU.with_username su (SU.u_username sb)) (SU.u_password sb))
                                (SU.u_host sb)) (SU.u_port sb)).
Proof.
  intros [H1 H2 H3 H4 H5 H6 H7 H8] [B1 B2 B3 B4 B5 B6 B7 B8]. constructor; try assumption.
Qed.

(* copying the path of the base *)
Lemma R_copy_path u su b sb : R u su -> R b sb ->
  R (set_path u (u_path b) (u_opaque b)) (SU.with_path su (SU.u_path sb)).
Proof.
  intros [H1 H2 H3 H4 H5 H6 H7 H8] [B1 B2 B3 B4 B5 B6 B7 B8]. constructor; try assumption.
Qed.

Lemma R_copy_query u su b sb : R u su -> R b sb -> R (set_query u (u_query b)) (SU.with_query su (SU.u_query sb)).
Proof. intros H [B1 B2 B3 B4 B5 B6 B7 B8]. rewrite B7. apply R_set_query. exact H. Qed.

Lemma R_copy_host u su b sb : R u su -> R b sb -> R (set_host u (u_host b)) (SU.with_host su (SU.u_host sb)).
Proof. intros H [B1 B2 B3 B4 B5 B6 B7 B8]. rewrite B4. exact (R_set_host u su (SU.u_host sb) H). Qed.

Lemma R_copy_scheme u su b sb : R u su -> R b sb -> R (set_scheme u (u_scheme b)) (SU.with_scheme su (SU.u_scheme sb)).
Proof. intros H [B1 B2 B3 B4 B5 B6 B7 B8]. rewrite B1. apply R_set_scheme. exact H. Qed.

(* appending a segment *)
Lemma R_addSegment u su segs seg : R u su -> SU.u_path su = SU.PList segs ->
  R (set_path u (u_path u ++ [encode_runes seg]) false) (SU.with_path su (SU.PList (segs ++ [seg]))).
Proof.
  intros HR Hp. destruct (RU.R_path_list u su segs HR Hp) as [_ E]. rewrite E.
  replace (map encode_runes segs ++ [encode_runes seg]) with (map encode_runes (segs ++ [seg]))
    by (rewrite map_app; reflexivity).
  apply R_set_path_list. exact HR.
Qed.

Lemma list_path_inv su : list_path su -> exists segs, SU.u_path su = SU.PList segs.
Proof. unfold list_path, SU.has_opaque_path. destruct (SU.u_path su) as [s|segs]; [discriminate|eauto]. Qed.

Print Assumptions run_sim.
Print Assumptions to_number_decimal.
Print Assumptions R_cleanDefaultPort.
