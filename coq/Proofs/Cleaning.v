(* C18 (standard-level variations "surrounding whitespace" and "embedded tab/newline"): without a
   url argument and with both diagnostics options off, BasicParser factors through the cleaned
   input: leading/trailing C0-control-or-space bytes and every tab/newline byte are irrelevant. *)
From Coq Require Import Lia.
From Verif Require Import Lib.Base Lib.Utf8 Lib.GoStr Model.Cfg Gen.Tables Model.Sets Model.Percent Model.Url Model.Host Model.Machine Model.Api Model.Canon.

(* a = the parser accepts invalid code points (then bytes are kept as they are) *)
Definition clean_sv (a : bool) (s : str) : str := fst (remove_tabnl_sv a (fst (trim_c0space s))).
(* for parsers that do not accept invalid code points, which includes the default one *)
Definition clean (s : str) : str := clean_sv false s.

Lemma trim_left_set_length s : (length (trim_left_set s) <= length s)%nat.
Proof. induction s as [|b s IH]; cbn [trim_left_set length]; [lia|]. destruct (in_c0_or_space b); cbn [length]; lia. Qed.

Lemma trim_left_set_same s : length (trim_left_set s) = length s -> trim_left_set s = s.
Proof.
  destruct s as [|b s]; [reflexivity|]. cbn [trim_left_set]. destruct (in_c0_or_space b); [|reflexivity].
  intros H. pose proof (trim_left_set_length s). cbn [length] in H. lia.
Qed.

Lemma trim_unchanged s : snd (trim_c0space s) = false -> fst (trim_c0space s) = s.
Proof.
  unfold trim_c0space. cbn [fst snd]. intros H. apply Bool.negb_false_iff in H. apply Z.eqb_eq in H.
  unfold len in H. apply Nat2Z.inj in H. rewrite rev_length in H.
  pose proof (trim_left_set_length (rev (trim_left_set s))) as H1.
  pose proof (trim_left_set_length s) as H2. rewrite rev_length in H1.
  assert (E1 : length (trim_left_set s) = length s) by lia.
  assert (E2 : length (trim_left_set (rev (trim_left_set s))) = length (rev (trim_left_set s))) by (rewrite rev_length; lia).
  rewrite (trim_left_set_same _ E2), rev_involutive. apply trim_left_set_same, E1.
Qed.

Lemma filter_len_le {A} (f : A -> bool) l : (length (filter f l) <= length l)%nat.
Proof. induction l as [|x l IH]; cbn [filter length]; [lia|]. destruct (f x); cbn [length]; lia. Qed.

Lemma filter_length_same {A} (f : A -> bool) l : length (filter f l) = length l -> filter f l = l.
Proof.
  induction l as [|x l IH]; [reflexivity|]. cbn [filter]. destruct (f x); cbn [length]; intros H.
  - f_equal. apply IH. lia.
  - pose proof (filter_len_le f l). cbn [length] in H. lia.
Qed.

Lemma remove_sv_unchanged a s : snd (remove_tabnl_sv a s) = false -> fst (remove_tabnl_sv a s) = s.
Proof.
  unfold remove_tabnl_sv. destruct (remove_tabnl s) as [i ch] eqn:E. destruct ch; cbn [andb].
  - destruct (negb a && negb (valid_utf8 s)); cbn [snd]; discriminate.
  - cbn [fst snd]. intros _. pose proof (f_equal fst E) as E1. cbn [fst] in E1. rewrite <- E1.
    unfold remove_tabnl in *. cbn [fst snd] in *. injection E as _ E2.
    apply Bool.negb_false_iff in E2. apply Z.eqb_eq in E2. unfold len in E2. apply Nat2Z.inj in E2.
    apply filter_length_same, E2.
Qed.

Lemma remove_unchanged s : snd (remove_tabnl s) = false -> fst (remove_tabnl s) = s.
Proof.
  unfold remove_tabnl. cbn [fst snd]. intros H. apply Bool.negb_false_iff in H. apply Z.eqb_eq in H.
  unfold len in H. apply Nat2Z.inj in H. apply filter_length_same, H.
Qed.

Section Clean.
  Variable idna_raw : str -> str * bool.
  Variable c : cfg.
  Hypothesis Hrep : c_report c = false.
  Hypothesis Hfail : c_fail c = false.

  Lemma handleError_quiet u t : handleError c u t false = (u, None).
  Proof. unfold handleError. rewrite Hrep, Hfail. reflexivity. Qed.

  (* what BasicParser does once the input is clean *)
  Let a := c_acceptInvalid c.

  Definition parse_clean (base : option url) (i : str) : result :=
    let u := empty_url i in
    let inp := decode i in
    run idna_raw c inp (option_map clone base) None (fuel_of (length inp)) (mk SchemeStart (-1)%Z false [] false false false u).

  Lemma BasicParser_factors (x : str) (base : option url) :
    BasicParser idna_raw c x base None None = parse_clean base (clean_sv a x).
  Proof.
    unfold BasicParser, parse_clean, clean_sv, a.
    destruct (trim_c0space x) as [i ch] eqn:Et. cbn [fst].
    assert (Hi : ch = false -> i = x).
    { intros ->. pose proof (trim_unchanged x) as H. rewrite Et in H. cbn [fst snd] in H. symmetry. symmetry. apply H. reflexivity. }
    assert (Hstart : forall u0 : url, u_input u0 = i -> u0 = empty_url i ->
      (let '(i0, changed) := remove_tabnl_sv (c_acceptInvalid c) (u_input u0) in
       let k := fun u1 : url =>
         let inp := decode (u_input u1) in
         run idna_raw c inp (option_map clone base) None (fuel_of (length inp)) (mk SchemeStart (-1)%Z false [] false false false u1) in
       if changed then match handleError c u0 InvalidURLUnit false with
                       | (u', Some e) => RErr u' e
                       | (u', None) => k (set_input u' i0) end
       else k u0)
      = (let u1 := empty_url (fst (remove_tabnl_sv (c_acceptInvalid c) i)) in
         let inp := decode (fst (remove_tabnl_sv (c_acceptInvalid c) i)) in
         run idna_raw c inp (option_map clone base) None (fuel_of (length inp)) (mk SchemeStart (-1)%Z false [] false false false u1))).
    { intros u0 Hin ->. cbn [u_input empty_url].
      destruct (remove_tabnl_sv (c_acceptInvalid c) i) as [i0 ch0] eqn:Er. cbn [fst].
      destruct ch0.
      - rewrite handleError_quiet. reflexivity.
      - pose proof (remove_sv_unchanged (c_acceptInvalid c) i) as H. rewrite Er in H. cbn [fst snd] in H. rewrite (H eq_refl). reflexivity. }
    destruct ch.
    - rewrite handleError_quiet. apply Hstart; reflexivity.
    - rewrite <- (Hi eq_refl). apply Hstart; reflexivity.
  Qed.

  Theorem clean_congruence (x y : str) (base : option url) :
    clean_sv a x = clean_sv a y -> BasicParser idna_raw c x base None None = BasicParser idna_raw c y base None None.
  Proof. intros H. rewrite !BasicParser_factors, H. reflexivity. Qed.

  Corollary Parse_clean_congruence (x y : str) : clean_sv a x = clean_sv a y -> Parse idna_raw c x = Parse idna_raw c y.
  Proof. intros H. unfold Parse. rewrite (clean_congruence x y None H). reflexivity. Qed.

  Corollary UrlParse_clean_congruence (b : url) (x y : str) : clean_sv a x = clean_sv a y -> UrlParse idna_raw c b x = UrlParse idna_raw c b y.
  Proof. intros H. unfold UrlParse. rewrite (clean_congruence x y (Some b) H). reflexivity. Qed.
End Clean.

(* the two variations as generators of equal cleanings *)
Lemma remove_tabnl_insert (x y : str) (t : N) : isTabOrNewline t = true ->
  fst (remove_tabnl (x ++ t :: y)) = fst (remove_tabnl (x ++ y)).
Proof.
  intros Ht. unfold remove_tabnl. cbn [fst]. rewrite !filter_app. cbn [filter]. rewrite Ht. reflexivity.
Qed.

(* on valid UTF-8 the scalar-value reading changes nothing: removal is the plain byte-wise removal *)
Lemma remove_tabnl_sv_valid a s : valid_utf8 s = true -> remove_tabnl_sv a s = remove_tabnl s.
Proof.
  intros H. unfold remove_tabnl_sv. destruct (remove_tabnl s) as [i ch]. rewrite H. cbn [negb].
  rewrite Bool.andb_false_r. reflexivity.
Qed.
