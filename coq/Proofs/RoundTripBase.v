(* Round trip (serialize, then parse), part 0: infrastructure.
   - [reaches] / [finishes]: composition of runs of the state machine without fuel bookkeeping
     (the fuel of [BasicParser] is shown sufficient once, at the end, by Termination.v);
   - reading the input through [rest_from];
   - an ASCII input without surrounding blanks and without tab/newline is its own cleaning and
     decodes byte by byte;
   - identity of the percent-encoders on strings free of the set;
   - the tail phases (query, fragment) specialised to such strings. *)
From Verif Require Import Lib.Base Lib.Utf8 Lib.GoStr Model.Cfg Gen.Tables Gen.Options Model.Sets Model.Percent
  Model.Url Model.Host Model.Machine Model.Api Model.Preds.
From Verif Require Import Proofs.SetsProofs Proofs.Cleaning Proofs.PhaseLemmas Proofs.RecordInv Proofs.Termination.
From Coq Require Import Lia ZifyBool ZifyN ZifyNat.

Local Arguments N.mul : simpl never.
Local Arguments N.add : simpl never.
Local Arguments N.sub : simpl never.
Local Arguments N.eqb : simpl never.
Local Arguments N.ltb : simpl never.
Local Arguments N.leb : simpl never.

(* ------------------------------------------------------------------------------------------ *)
(* 0. small facts                                                                               *)
(* ------------------------------------------------------------------------------------------ *)

Lemma sweep128 (P : N -> bool) : forallb P below128 = true -> forall x, x < 128 -> P x = true.
Proof. intros H x Hx. rewrite forallb_forall in H. apply H. apply in_below128. exact Hx. Qed.

Lemma len_cons {A} (x : A) l : len (x :: l) = (len l + 1)%Z.
Proof. unfold len. cbn [length]. lia. Qed.
Lemma len_nil {A} : len (@nil A) = 0%Z.
Proof. reflexivity. Qed.
Lemma len_app {A} (a b : list A) : len (a ++ b) = (len a + len b)%Z.
Proof. unfold len. rewrite app_length. lia. Qed.
Lemma len_nonneg {A} (l : list A) : (0 <= len l)%Z.
Proof. unfold len. lia. Qed.

(* record eta for the updates we meet *)
Lemma set_path_eta u p o : u_path u = p -> u_opaque u = o -> set_path u p o = u.
Proof. intros <- <-. destruct u. reflexivity. Qed.

(* bytes that are neither blanks nor controls: 33 .. 126 *)
Definition vis (b : N) : bool := (33 <=? b) && (b <=? 126).

Lemma vis_printable b : vis b = true -> printable b = true.
Proof. unfold vis, printable. lia. Qed.

Lemma printable_small s : forallb printable s = true -> Forall (fun b => b < 128) s.
Proof.
  intros H. rewrite forallb_forall in H. apply Forall_forall. intros x Hx. apply H in Hx.
  unfold printable in Hx. lia.
Qed.

Lemma not_encoded_vis p b : (33 <=? ab p) = true -> RuneShouldBeEncoded p b = false -> vis b = true.
Proof.
  intros Hab. unfold RuneShouldBeEncoded, vis.
  destruct (bs_test (bits p) b); [rewrite orb_true_r; discriminate|]. lia.
Qed.

Lemma none_in_vis p s : (33 <=? ab p) = true -> none_in p s = true -> forallb vis s = true.
Proof.
  intros Hab. unfold none_in. apply forallb_impl. intros x Hx.
  apply (not_encoded_vis p); [assumption|]. apply negb_true_iff. assumption.
Qed.

Lemma forallb_vis_printable s : forallb vis s = true -> forallb printable s = true.
Proof. apply forallb_impl. exact vis_printable. Qed.

Lemma none_in_cons p x s : none_in p (x :: s) = true -> RuneShouldBeEncoded p x = false /\ none_in p s = true.
Proof. unfold none_in. cbn [forallb]. intros H. apply andb_true_iff in H. destruct H as [H1 H2]. apply negb_true_iff in H1. auto. Qed.

Lemma none_in_not_in p x s : RuneShouldBeEncoded p x = true -> none_in p s = true -> ~ In x s.
Proof.
  intros Hx H Hin. unfold none_in in H. rewrite forallb_forall in H. apply H in Hin. rewrite Hx in Hin. discriminate.
Qed.

(* [lia] with ZifyBool is exponential in the number of boolean hypotheses: drop them first *)
Ltac clear_bools := repeat match goal with H : _ = true |- _ => clear H | H : _ = false |- _ => clear H end.
Ltac blia := clear_bools; lia.

Lemma len_pos {A} (l : list A) : l <> [] -> (1 <= len l)%Z.
Proof. destruct l as [|x l]; [congruence|]. intros _. rewrite len_cons. pose proof (len_nonneg l). lia. Qed.

Lemma printable_nonspace_vis b : printable b = true -> (b =? 32) = false -> vis b = true.
Proof. unfold printable, vis. lia. Qed.

(* ------------------------------------------------------------------------------------------ *)
(* 1. cleaning and decoding of a printable input                                                *)
(* ------------------------------------------------------------------------------------------ *)

Lemma decode_printable s : forallb printable s = true -> decode s = map Good s.
Proof.
  induction s as [|b s IH]; intros H; [reflexivity|].
  cbn [forallb] in H. apply andb_true_iff in H. destruct H as [Hb Hs].
  rewrite decode_low_cons by (unfold printable in Hb; lia). rewrite IH by exact Hs. reflexivity.
Qed.

Lemma in_c0_or_space_vis b : vis b = true -> in_c0_or_space b = false.
Proof.
  intros H. unfold in_c0_or_space, RuneNotInSet. cbn [pes_C0OrSpace ab bits bs_test mem existsb].
  unfold vis in H. rewrite orb_false_r. apply negb_false_iff. apply negb_true_iff. lia.
Qed.

Lemma trim_left_set_vis x s : vis x = true -> trim_left_set (x :: s) = x :: s.
Proof. intros H. cbn [trim_left_set]. rewrite (in_c0_or_space_vis x H). reflexivity. Qed.

Lemma trim_id s : s <> [] -> vis (hd 0 s) = true -> vis (last s 0) = true -> trim_c0space s = (s, false).
Proof.
  intros Hne Hh Hl. unfold trim_c0space.
  assert (E1 : trim_left_set s = s).
  { destruct s as [|x s]; [congruence|]. apply trim_left_set_vis. exact Hh. }
  rewrite E1.
  assert (E2 : trim_left_set (rev s) = rev s).
  { rewrite (app_removelast_last 0 Hne) at 1 2. rewrite rev_app_distr. cbn [rev app].
    apply trim_left_set_vis. exact Hl. }
  rewrite E2, rev_involutive. rewrite Z.eqb_refl. reflexivity.
Qed.

Lemma printable_not_tabnl b : printable b = true -> isTabOrNewline b = false.
Proof.
  intros H. unfold isTabOrNewline, bs_test, bs_ASCIITabOrNewline, mem. cbn [existsb].
  unfold printable in H. lia.
Qed.

Lemma remove_tabnl_id s : forallb printable s = true -> remove_tabnl s = (s, false).
Proof.
  intros H. unfold remove_tabnl.
  assert (E : filter (fun b => negb (isTabOrNewline b)) s = s).
  { induction s as [|b s IH]; [reflexivity|]. cbn [forallb] in H. apply andb_true_iff in H. destruct H as [Hb Hs].
    cbn [filter]. rewrite (printable_not_tabnl b Hb). cbn [negb]. rewrite IH by exact Hs. reflexivity. }
  rewrite E, Z.eqb_refl. reflexivity.
Qed.

Lemma clean_sv_id a s : s <> [] -> forallb printable s = true -> vis (hd 0 s) = true -> vis (last s 0) = true ->
  clean_sv a s = s.
Proof.
  intros Hne Hp Hh Hl. unfold clean_sv. rewrite (trim_id s Hne Hh Hl). cbn [fst].
  unfold remove_tabnl_sv. rewrite (remove_tabnl_id s Hp). reflexivity.
Qed.

Lemma last_app_ne {A} (a b : list A) d : b <> [] -> last (a ++ b) d = last b d.
Proof.
  intros Hne. induction a as [|x a IH]; [reflexivity|].
  cbn [app]. destruct (a ++ b) as [|y r] eqn:E.
  - destruct a; [cbn in E; congruence|discriminate].
  - cbn [last]. cbn [last] in IH. exact IH.
Qed.

Lemma last_app_vis (a b : str) : b <> [] -> forallb vis b = true -> vis (last (a ++ b) 0) = true.
Proof.
  intros Hne Hb. rewrite last_app_ne by exact Hne.
  rewrite forallb_forall in Hb. apply Hb.
  rewrite (app_removelast_last 0 Hne) at 2. apply in_or_app. right. left. reflexivity.
Qed.

(* ------------------------------------------------------------------------------------------ *)
(* 2. identity of the encoders                                                                  *)
(* ------------------------------------------------------------------------------------------ *)

Lemma pe_id c t x : RuneShouldBeEncoded t x = false -> percentEncodeRune c x (Some t) = [x].
Proof.
  intros H. unfold percentEncodeRune. rewrite H. unfold utf8_enc.
  assert (x <= 126). { unfold RuneShouldBeEncoded in H. destruct (bs_test (bits t) x); lia. }
  replace (x <? 128) with true by lia. reflexivity.
Qed.

Lemma pei_id c t x : c_singlePct c = false -> RuneShouldBeEncoded t x = false -> percentEncodeInvalidRune c x t = [x].
Proof. intros Hs H. unfold percentEncodeInvalidRune. rewrite Hs. apply pe_id. exact H. Qed.

Lemma enc_with_id c t l : none_in t l = true -> enc_with c t l = l.
Proof.
  induction l as [|x l IH]; intros H; [reflexivity|]. apply none_in_cons in H. destruct H as [Hx Hl].
  rewrite enc_with_cons, (pe_id c t x Hx), (IH Hl). reflexivity.
Qed.

(* ------------------------------------------------------------------------------------------ *)
(* 3. runs without fuel bookkeeping                                                             *)
(* ------------------------------------------------------------------------------------------ *)

Definition with_q (u : url) (oq : option str) : url := match oq with Some q => set_query u (Some q) | None => u end.
Definition with_f (u : url) (of : option str) : url := match of with Some f => set_fragment u (Some f) | None => u end.
Definition q_tail (oq : option str) : str := match oq with Some q => 63 :: q | None => [] end.
Definition f_tail (of : option str) : str := match of with Some f => 35 :: f | None => [] end.

(* ---------------- reading the input ---------------- *)
Lemma rest_uncons inp q x l : (0 <= q)%Z -> rest_from inp q = x :: l ->
  cp_at inp q = x /\ rest_from inp (q + 1) = l /\ (q < n_inp inp)%Z.
Proof.
  intros Hq H. destruct (n_inp inp <=? q)%Z eqn:E.
  - rewrite (rest_nil default_cfg eq_refl eq_refl inp q) in H by lia. discriminate.
  - rewrite (rest_cons default_cfg eq_refl eq_refl inp q) in H by lia. injection H as H1 H2.
    repeat split; try assumption. lia.
Qed.

Lemma rest_empty inp q : (0 <= q)%Z -> rest_from inp q = [] -> (n_inp inp <= q)%Z.
Proof.
  intros Hq H. destruct (n_inp inp <=? q)%Z eqn:E; [lia|].
  rewrite (rest_cons default_cfg eq_refl eq_refl inp q) in H by lia. discriminate.
Qed.

Lemma rest_app inp q a b : (0 <= q)%Z -> rest_from inp q = a ++ b -> rest_from inp (q + len a) = b.
Proof.
  revert q. induction a as [|x a IH]; intros q Hq H.
  - rewrite len_nil, Z.add_0_r. exact H.
  - cbn [app] in H. destruct (rest_uncons inp q x _ Hq H) as [_ [H' _]].
    rewrite len_cons. replace (q + (len a + 1))%Z with (q + 1 + len a)%Z by lia. apply IH; [lia|exact H'].
Qed.

Section RT.
  Variable idna_raw : str -> str * bool.
  Variable c : cfg.
  Hypothesis Hrep : c_report c = false.
  Hypothesis Hfail : c_fail c = false.
  Variable inp : list rune.

  Notation n := (n_inp inp).
  Notation stepf := (step idna_raw c inp None None).
  Notation runf := (run idna_raw c inp None None).
  Notation cp := (cp_at inp).
  Notation rest := (rest_from inp).

  Definition reaches (m m' : mstate) : Prop := exists k, forall fuel, runf (k + fuel)%nat m = runf fuel m'.
  Definition finishes (m : mstate) (u : url) : Prop := exists k, runf k m = RUrl u.

  Lemma reaches_refl m : reaches m m.
  Proof using Hrep Hfail. exists 0%nat. reflexivity. Qed.

  Lemma reaches_trans m1 m2 m3 : reaches m1 m2 -> reaches m2 m3 -> reaches m1 m3.
  Proof using Hrep Hfail.
    intros [k1 H1] [k2 H2]. exists (k1 + k2)%nat. intros fuel.
    rewrite <- Nat.add_assoc, H1, H2. reflexivity.
  Qed.

  Lemma reaches_step m m' : stepf m = Cont m' -> m_eof m' = false -> reaches m m'.
  Proof using Hrep Hfail. intros H E. exists 1%nat. intros fuel. cbn [Nat.add]. apply run_cont; assumption. Qed.

  Lemma reaches_eq m m1 m2 : reaches m m1 -> m1 = m2 -> reaches m m2.
  Proof using Hrep Hfail. intros H <-. exact H. Qed.

  Lemma finishes_step m m' : stepf m = Cont m' -> m_eof m' = true -> finishes m (m_url m').
  Proof using Hrep Hfail. intros H E. exists 1%nat. apply run_last; assumption. Qed.

  Lemma reaches_finishes m m' u : reaches m m' -> finishes m' u -> finishes m u.
  Proof using Hrep Hfail. intros [k1 H1] [k2 H2]. exists (k1 + k2)%nat. rewrite H1. exact H2. Qed.

  Lemma finishes_eq m u1 u2 : finishes m u1 -> u1 = u2 -> finishes m u2.
  Proof using Hrep Hfail. intros H <-. exact H. Qed.

  (* the fuel of BasicParser is enough *)
  Lemma finishes_fuel st0 u u' :
    finishes (mk st0 (-1) false [] false false false u) u' ->
    runf (fuel_of (length inp)) (mk st0 (-1) false [] false false false u) = RUrl u'.
  Proof using Hrep Hfail.
    intros [k H].
    pose proof (run_never_out_of_fuel idna_raw c inp None None st0 u) as Hne.
    rewrite <- (run_mono idna_raw c inp None None _ k _ Hne).
    rewrite Nat.add_comm. rewrite run_mono by (rewrite H; discriminate). exact H.
  Qed.

  Ltac unfold_step :=
    cbv beta iota zeta delta [step mk m_state m_ptr m_eof m_buf m_at m_br m_pw m_url overridden is_some].

  Ltac quiet_enc :=
    match goal with |- (if ?b1 then _ else _) _ = _ => destruct b1 end;
    match goal with |- context [if invalid_pct ?l then _ else _] => destruct (invalid_pct l) end;
    cbv beta; repeat (rewrite (mherr_quiet c Hrep Hfail); cbv beta).

  (* ---------------- FragmentSt / QuerySt on strings free of the set ---------------- *)
  Lemma frag_tail p a br pw u f :
    (-1 <= p)%Z -> rest (p + 1) = f -> none_in (fragset c u) f = true ->
    finishes (mk FragmentSt p false [] a br pw u) (set_fragment u (Some f)).
  Proof using Hrep Hfail.
    intros Hp Hr Hf. exists (length (rest (p + 1)) + 1)%nat.
    rewrite (fragment_phase idna_raw c Hrep Hfail inp None None) by lia.
    rewrite Hr, (enc_with_id c _ f Hf). reflexivity.
  Qed.

  Lemma query_tail p a br pw u q of :
    (-1 <= p)%Z -> rest (p + 1) = q ++ f_tail of -> u_query u = Some [] ->
    RuneShouldBeEncoded (queryset c u) 35 = true ->
    none_in (queryset c u) q = true ->
    (forall f, of = Some f -> none_in (fragset c u) f = true) ->
    finishes (mk QuerySt p false [] a br pw u) (with_f (set_query u (Some q)) of).
  Proof using Hrep Hfail.
    intros Hp Hr Hq H35 Hnq Hnf. exists (length (rest (p + 1)) + 1)%nat.
    rewrite (query_phase idna_raw c Hrep Hfail inp None None _ p [] a br pw u [] eq_refl Hq Hp) by lia.
    rewrite Hr. unfold query_result.
    pose proof (none_in_not_in _ 35 q H35 Hnq) as Hno.
    destruct of as [f|]; cbn [f_tail with_f].
    - rewrite (query_split_hash q f Hno). cbn [app]. rewrite (enc_with_id c _ q Hnq), (enc_with_id c _ f (Hnf f eq_refl)).
      reflexivity.
    - rewrite app_nil_r, (query_split_nohash q Hno). cbn [app]. rewrite (enc_with_id c _ q Hnq). reflexivity.
  Qed.
End RT.

(* ------------------------------------------------------------------------------------------ *)
(* 4. the statement: configuration, stability, result                                           *)
(* ------------------------------------------------------------------------------------------ *)

(* the side condition on the configuration: diagnostics off; the options that rewrite a serialization
   (percent-encoding of single '%', collapsing of slashes, a host pre-processing function) off; "file" is special; the encode sets contain
   the blanks (so that a serialization has no trailing blank to be trimmed) and the delimiter that ends
   the component ('?' and '#' for paths, '#' for queries) *)
Definition cfg_rt (c : cfg) : bool :=
  negb (c_report c) && negb (c_fail c) && negb (c_singlePct c) && negb (c_collapse c)
  && match c_pre c with HF_none => true | _ => false end
  && isSpecialScheme c s_file
  && (33 <=? ab (c_pathSet c)) && (33 <=? ab (c_squerySet c)) && (33 <=? ab (c_querySet c))
  && (33 <=? ab (c_sfragSet c)) && (33 <=? ab (c_fragSet c))
  && RuneShouldBeEncoded (c_pathSet c) 63 && RuneShouldBeEncoded (c_pathSet c) 35
  && RuneShouldBeEncoded (c_squerySet c) 35 && RuneShouldBeEncoded (c_querySet c) 35.

Record CfgRT (c : cfg) : Prop := {
  R_rep : c_report c = false;
  R_fail : c_fail c = false;
  R_sp : c_singlePct c = false;
  R_col : c_collapse c = false;
  R_pre : c_pre c = HF_none;
  R_file : isSpecialScheme c s_file = true;
  R_path : (33 <=? ab (c_pathSet c)) = true;
  R_squery : (33 <=? ab (c_squerySet c)) = true;
  R_query : (33 <=? ab (c_querySet c)) = true;
  R_sfrag : (33 <=? ab (c_sfragSet c)) = true;
  R_frag : (33 <=? ab (c_fragSet c)) = true;
  R_path63 : RuneShouldBeEncoded (c_pathSet c) 63 = true;
  R_path35 : RuneShouldBeEncoded (c_pathSet c) 35 = true;
  R_squery35 : RuneShouldBeEncoded (c_squerySet c) 35 = true;
  R_query35 : RuneShouldBeEncoded (c_querySet c) 35 = true
}.

Lemma cfg_rt_sound c : cfg_rt c = true -> CfgRT c.
Proof.
  unfold cfg_rt. intros H.
  repeat (apply andb_true_iff in H; let H' := fresh "H" in destruct H as [H H']).
  repeat match goal with X : negb _ = true |- _ => apply negb_true_iff in X end.
  constructor; try assumption. destruct (c_pre c); [reflexivity|discriminate|discriminate|discriminate].
Qed.

Example cfg_rt_default : cfg_rt default_cfg = true.
Proof. vm_compute. reflexivity. Qed.

Lemma R_queryset c u : CfgRT c -> RuneShouldBeEncoded (queryset c u) 35 = true.
Proof. intros R. unfold queryset. destruct (isSpecialScheme c (u_scheme u)); [apply (R_squery35 c R)|apply (R_query35 c R)]. Qed.

Lemma R_queryset_ab c u : CfgRT c -> (33 <=? ab (queryset c u)) = true.
Proof. intros R. unfold queryset. destruct (isSpecialScheme c (u_scheme u)); [apply (R_squery c R)|apply (R_query c R)]. Qed.

Lemma R_fragset_ab c u : CfgRT c -> (33 <=? ab (fragset c u)) = true.
Proof. intros R. unfold fragset. destruct (isSpecialScheme c (u_scheme u)); [apply (R_sfrag c R)|apply (R_frag c R)]. Qed.

(* the record the parser returns for the serialization [s] of [u]: the components of [u], the input [s],
   no validation errors, no searchParams object *)
Definition rt_url (u : url) (s : str) : url :=
  {| u_input := s; u_scheme := u_scheme u; u_username := u_username u; u_password := u_password u;
     u_host := u_host u; u_port := u_port u; u_decodedPort := u_decodedPort u; u_path := u_path u;
     u_opaque := u_opaque u; u_query := u_query u; u_fragment := u_fragment u; u_verrs := []; u_sp := None |}.

Definition same_components (u' u : url) : Prop :=
  u_scheme u' = u_scheme u /\ u_username u' = u_username u /\ u_password u' = u_password u /\
  u_host u' = u_host u /\ u_port u' = u_port u /\ u_decodedPort u' = u_decodedPort u /\
  u_path u' = u_path u /\ u_opaque u' = u_opaque u /\ u_query u' = u_query u /\ u_fragment u' = u_fragment u.

Lemma rt_url_same u s : same_components (rt_url u s) u.
Proof. unfold same_components, rt_url. cbn. repeat split. Qed.

(* ---- stability: what the round trip needs beyond [Inv] ---- *)

(* an opaque path: no '?' and no '#' in it; a trailing space only when a query or fragment follows *)
Definition opq_stable (u : url) : bool :=
  match u_path u with
  | [s0] => forallb (fun x => negb (x =? 63) && negb (x =? 35)) s0
            && (negb (last s0 0 =? 32) || is_some (u_query u) || is_some (u_fragment u))
  | _ => true
  end.

Definition dotseg (s : str) : bool := isSingleDotPathSegment s || isDoubleDotPathSegment s.

(* a first segment that is a Windows drive letter is written with ':' (only looked at for file URLs) *)
Definition drive_ok (c : cfg) (u : url) : bool :=
  match u_path u with
  | s :: _ => negb (isWindowsDriveLetter s) || c_skipDrive c || isNormalizedWindowsDriveLetter s
  | [] => true
  end.

(* the host state's scan: ':' only inside brackets, no path/query/fragment delimiter *)
Fixpoint hscan (sp br : bool) (h : list N) : bool :=
  match h with
  | [] => true
  | r :: h' =>
      negb ((r =? 58) && negb br) && negb ((r =? 47) || (r =? 63) || (r =? 35) || (sp && (r =? 92)))
      && hscan sp (if r =? 91 then true else if r =? 93 then false else br) h'
  end.

(* the bracket flag after the scan *)
Fixpoint hbr (br : bool) (h : list N) : bool :=
  match h with
  | [] => br
  | r :: h' => hbr (if r =? 91 then true else if r =? 93 then false else br) h'
  end.

Definition list_stable (c : cfg) (u : url) : bool :=
  forallb (fun s => negb (dotseg s)) (u_path u)
  && (negb (IsSpecialScheme c u) || forallb (fun s => negb (mem 92 s)) (u_path u))
  && (negb (str_eqb (u_scheme u) s_file)
      || (drive_ok c u && negb (opt_eqb str_eqb (u_host u) (Some s_localhost)))).

Definition dport_ok (u : url) : bool :=
  match u_port u with None => u_decodedPort u =? 0 | Some _ => true end.

Definition stable_b (c : cfg) (u : url) : bool :=
  dport_ok u && (if u_opaque u then opq_stable u else list_stable c u).

(* the host is a fixed point of the host parser (for a domain this is a property of the IDNA oracle) *)
Definition host_fixed (idna_raw : str -> str * bool) (c : cfg) (u : url) : Prop :=
  forall h, u_host u = Some h -> forall u0, parseHost idna_raw c u0 h (negb (IsSpecialScheme c u)) = Ok u0 h.

(* ---- from a run of the machine to [Parse] ---- *)
Lemma rest_map_good s : rest_from (map Good s) 0 = s.
Proof. unfold rest_from. cbn [Z.to_nat skipn]. rewrite map_map. cbn [rv]. apply map_id. Qed.

Lemma Parse_of_finishes idna_raw c s u' :
  c_report c = false -> c_fail c = false ->
  s <> [] -> forallb printable s = true -> vis (hd 0 s) = true -> vis (last s 0) = true ->
  finishes idna_raw c (map Good s) (mk SchemeStart (-1) false [] false false false (empty_url s)) u' ->
  Parse idna_raw c s = PUrl u'.
Proof.
  intros Hrep Hfail Hne Hp Hh Hl Hfin. unfold Parse.
  rewrite (BasicParser_factors idna_raw c Hrep Hfail). unfold parse_clean.
  rewrite (clean_sv_id _ s Hne Hp Hh Hl), (decode_printable s Hp). cbn [option_map].
  rewrite (finishes_fuel idna_raw c Hrep Hfail _ _ _ _ Hfin). reflexivity.
Qed.
