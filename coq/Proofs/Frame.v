(* C13 at the level of the value-semantics model (Model/Obs.v): a history step writes at most one of
   the two URL slots; resolving never changes the base; a clone equals its original. The model has
   no sharing by construction - these lemmas state that fact about the functions the implementation
   is compared with, step by step, on two-handle histories (the correspondence check is what shows
   the implementation has no OBSERVABLE sharing either). *)
From Verif Require Import Lib.Base Lib.Utf8 Lib.GoStr Model.Cfg Gen.Tables Model.Sets Model.Percent Model.Url Model.Host Model.Machine Model.Api Model.Canon Model.Obs.

(* the slot an operation may write (false = A, true = B) *)
Definition written (o : op) : bool :=
  match o with
  | OSet slot _ _ | OResolve slot _ | OSpAppend slot _ _ | OSpDelete slot _ | OSpSet slot _ _
  | OSpSort slot | OSpSortAbs slot | OSpQuery slot _ | OSpTouch slot | OSpAdopt slot | OSpIterate slot _ => slot
  | OResolveInto _ => true
  | OCloneInto from => negb from
  end.

(* the one operation with an argument taken from the other slot: it CALLS other.SearchParams(), which (like OSpTouch)
   materialises the other URL's parameter list and changes nothing else *)
Definition reads_other (o : op) : bool := match o with OSpAdopt _ => true | _ => false end.

Section Frame.
  Variable idna_raw : str -> str * bool.
  Variable c : cfg.
  Notation hstep := (hstep idna_raw c).
  Notation hstate := (option url * option url)%type.

  Lemma get_put_other (s : hstate) slot v : get (put s slot v) (negb slot) = get s (negb slot).
  Proof. destruct s, slot; reflexivity. Qed.
  Lemma get_put_same (s : hstate) slot v : get (put s slot v) slot = v.
  Proof. destruct s, slot; reflexivity. Qed.

  Lemma with_sp_frame (s : hstate) slot f : get (with_sp c s slot f) (negb slot) = get s (negb slot).
  Proof.
    unfold with_sp. destruct (get s slot) as [u|]; [|reflexivity].
    destruct (ensure_sp c u) as [u' l]. apply get_put_other.
  Qed.

  (* frame: the slot an operation does not write is unchanged - every getter and the parameter list of it *)
  Theorem hstep_frame (s : hstate) (o : op) : reads_other o = false ->
    get (fst (hstep s o)) (negb (written o)) = get s (negb (written o)).
  Proof.
    intros Hro. destruct o; try discriminate Hro; cbn [Obs.hstep written fst].
    - destruct (get s slot) as [u|]; [|reflexivity]. destruct (setter idna_raw c which u v); cbn [fst]; apply get_put_other.
    - destruct (get s slot) as [u|]; [|reflexivity]. destruct (UrlParse idna_raw c u ref); cbn [fst]; try reflexivity; apply get_put_other.
    - destruct (fst s) as [u|]; [|reflexivity].
      destruct (UrlParse idna_raw c u ref); cbn [fst]; try reflexivity; apply (get_put_other s true).
    - destruct (get s from) as [u|]; [|reflexivity]. cbn [fst]. rewrite Bool.negb_involutive.
      pose proof (get_put_other s (negb from) (Some (Clone u))) as H. rewrite Bool.negb_involutive in H. exact H.
    - apply with_sp_frame.
    - apply with_sp_frame.
    - apply with_sp_frame.
    - apply with_sp_frame.
    - apply with_sp_frame.
    - destruct (get s slot) as [u|]; [|reflexivity]. destruct (ensure_sp c u) as [u' l]. cbn [fst]. apply get_put_other.
    - destruct (get s slot) as [u|]; [|reflexivity]. cbn [fst]. apply get_put_other.
    - apply with_sp_frame.
  Qed.

  (* SetSearchParams: the other slot (whose list is the argument) is left as by a call of its SearchParams() getter *)
  Theorem adopt_frame (s : hstate) slot :
    get (fst (hstep s (OSpAdopt slot))) (negb slot) =
    match get s slot with
    | Some _ => option_map (fun v => fst (ensure_sp c v)) (get s (negb slot))
    | None => get s (negb slot)
    end.
  Proof.
    cbn [Obs.hstep]. destruct (get s slot) as [u|] eqn:Eu; [|reflexivity].
    destruct (get s (negb slot)) as [v|] eqn:Ev; [|cbn [fst]; rewrite Ev; reflexivity].
    destruct (ensure_sp c v) as [v' l] eqn:E. cbn [fst option_map]. rewrite get_put_other.
    rewrite E. cbn [fst]. apply get_put_same.
  Qed.

  (* ... and the adopting URL ends with exactly the other URL's list, and the query that list serializes to *)
  Theorem adopt_reflected (s : hstate) slot u v :
    get s slot = Some u -> get s (negb slot) = Some v ->
    get (fst (hstep s (OSpAdopt slot))) slot = Some (sp_update c (fst (ensure_sp c u)) (snd (ensure_sp c v))).
  Proof.
    intros Hu Hv. cbn [Obs.hstep]. rewrite Hu, Hv. destruct (ensure_sp c v) as [v' l]. cbn [fst snd]. apply get_put_same.
  Qed.

  (* any sequence of operations all acting on one side leaves the other side unchanged *)
  Fixpoint hfold (s : hstate) (ops : list op) : hstate :=
    match ops with [] => s | o :: rest => hfold (fst (hstep s o)) rest end.

  Theorem history_frame (sl : bool) (ops : list op) (s : hstate) :
    Forall (fun o => written o = sl /\ reads_other o = false) ops -> get (hfold s ops) (negb sl) = get s (negb sl).
  Proof.
    revert s. induction ops as [|o ops IH]; intros s H; [reflexivity|].
    apply Forall_cons_iff in H as [[Ho Hr] Hrest]. cbn [hfold]. rewrite (IH _ Hrest).
    rewrite <- Ho. apply hstep_frame. exact Hr.
  Qed.

  (* resolving a reference never changes the base: B := A.Parse(ref) leaves A as it was *)
  Theorem resolve_leaves_base (s : hstate) ref : fst (fst (hstep s (OResolveInto ref))) = fst s.
  Proof. exact (hstep_frame s (OResolveInto ref) eq_refl). Qed.

  (* a clone equals its original in every component except the recorded validation errors, and the source is unchanged *)
  Theorem clone_is_copy (s : hstate) from u :
    get s from = Some u ->
    get (fst (hstep s (OCloneInto from))) (negb from) = Some (Clone u) /\
    get (fst (hstep s (OCloneInto from))) from = Some u.
  Proof.
    intros H. cbn [Obs.hstep]. rewrite H. cbn [fst]. split; [apply get_put_same|].
    pose proof (get_put_other s (negb from) (Some (Clone u))) as G. rewrite Bool.negb_involutive in G. rewrite G. exact H.
  Qed.

  Lemma Clone_fields u :
    let v := Clone u in
    u_scheme v = u_scheme u /\ u_username v = u_username u /\ u_password v = u_password u /\ u_host v = u_host u /\
    u_port v = u_port u /\ u_path v = u_path u /\ u_opaque v = u_opaque u /\ u_query v = u_query u /\
    u_fragment v = u_fragment u /\ u_sp v = u_sp u /\ u_verrs v = [].
  Proof. cbn. repeat split. Qed.

  (* the operated-on value reflects the operation: by definition the written slot holds the L1 result *)
  Theorem setter_reflected (s : hstate) slot w v u u' :
    get s slot = Some u -> setter idna_raw c w u v = Some u' -> get (fst (hstep s (OSet slot w v))) slot = Some u'.
  Proof. intros H1 H2. cbn [Obs.hstep]. rewrite H1, H2. cbn [fst]. apply get_put_same. Qed.
End Frame.
