(* The WHATWG Encoding Standard UTF-8 decoder (Spec/PercentCodec.v, an independent transcription)
   against the model of Go's UTF-8 decoding (Lib/Utf8.v):
     - on valid UTF-8 the two decoders agree and the WHATWG decoder reports no error;
     - on invalid UTF-8 the WHATWG decoder reports an error (and emits U+FFFD);
     - the two decoders differ on invalid input only in how many U+FFFD they emit. *)
From Verif Require Import Lib.Base Lib.Utf8 Proofs.Utf8Proofs Spec.PercentCodec.
From Coq Require Import Lia ZifyBool ZifyN ZifyNat.
Ltac Zify.zify_post_hook ::= Z.div_mod_to_equations.

(* the decoder in its initial state *)
Definition items (s : list N) : list dec_item := utf8_decode_items s 0 0 0 128 191.
Definition is_err (i : dec_item) : bool := match i with DErr => true | DCp _ => false end.
Definition item_val (i : dec_item) : N := match i with DCp c => c | DErr => 65533 end.

Lemma items_strict s : utf8_decode_strict_items s = items s.
Proof. reflexivity. Qed.

(* ---------- one step of the WHATWG decoder ---------- *)

Lemma items_nil : items [] = [].
Proof. reflexivity. Qed.

Lemma step_nil_needed cp seen n lo hi : utf8_decode_items [] cp seen (S n) lo hi = [DErr].
Proof. reflexivity. Qed.

Lemma step_ascii b rest : b <? 128 = true -> items (b :: rest) = DCp b :: items rest.
Proof.
  intros H. unfold items. cbn [utf8_decode_items]. unfold classify_lead.
  replace (b <=? 127) with true by lia. reflexivity.
Qed.

Lemma step_lead2 b rest : (194 <=? b) && (b <=? 223) = true ->
  items (b :: rest) = utf8_decode_items rest (b - 192) 0 1 128 191.
Proof.
  intros H. unfold items. cbn [utf8_decode_items]. unfold classify_lead.
  replace (b <=? 127) with false by lia. rewrite H. reflexivity.
Qed.

Lemma step_lead3 b rest : (224 <=? b) && (b <=? 239) = true ->
  items (b :: rest) =
  utf8_decode_items rest (b - 224) 0 2 (if b =? 224 then 160 else 128) (if b =? 237 then 159 else 191).
Proof.
  intros H. unfold items. cbn [utf8_decode_items]. unfold classify_lead.
  replace (b <=? 127) with false by lia.
  replace ((194 <=? b) && (b <=? 223)) with false by lia. rewrite H. reflexivity.
Qed.

Lemma step_lead4 b rest : (240 <=? b) && (b <=? 244) = true ->
  items (b :: rest) =
  utf8_decode_items rest (b - 240) 0 3 (if b =? 240 then 144 else 128) (if b =? 244 then 143 else 191).
Proof.
  intros H. unfold items. cbn [utf8_decode_items]. unfold classify_lead.
  replace (b <=? 127) with false by lia.
  replace ((194 <=? b) && (b <=? 223)) with false by lia.
  replace ((224 <=? b) && (b <=? 239)) with false by lia. rewrite H. reflexivity.
Qed.

Lemma step_bad_lead b rest :
  b <? 128 = false -> (194 <=? b) && (b <=? 223) = false ->
  (224 <=? b) && (b <=? 239) = false -> (240 <=? b) && (b <=? 244) = false ->
  items (b :: rest) = DErr :: items rest.
Proof.
  intros H1 H2 H3 H4. unfold items. cbn [utf8_decode_items]. unfold classify_lead.
  replace (b <=? 127) with false by lia. rewrite H2, H3, H4. reflexivity.
Qed.

(* a continuation byte inside its bounds *)
Lemma step_cont_ok b rest cp seen n lo hi : (lo <=? b) && (b <=? hi) = true ->
  utf8_decode_items (b :: rest) cp seen (S n) lo hi =
  if Nat.eqb seen n then DCp (cp * 64 + (b - 128)) :: items rest
  else utf8_decode_items rest (cp * 64 + (b - 128)) (S seen) (S n) 128 191.
Proof.
  intros H. cbn [utf8_decode_items]. rewrite H. cbv zeta. cbn [Nat.eqb]. reflexivity.
Qed.

(* a byte outside the bounds while a sequence is pending: error, the byte is looked at again *)
Lemma step_cont_bad b rest cp seen n lo hi : (lo <=? b) && (b <=? hi) = false ->
  exists tl, utf8_decode_items (b :: rest) cp seen (S n) lo hi = DErr :: tl.
Proof.
  intros H. cbn [utf8_decode_items]. rewrite H. eexists. reflexivity.
Qed.

(* ---------- the step correspondence with Go's dec1 ---------- *)

Lemma dec1_items b0 rest :
  match dec1 b0 rest with
  | (Good c, rest') => items (b0 :: rest) = DCp c :: items rest'
  | (Bad _, _) => exists tl, items (b0 :: rest) = DErr :: tl
  end.
Proof.
  unfold dec1, in_rng, is_cont. cbv zeta.
  destruct (b0 <? 128) eqn:E1.
  { apply step_ascii. exact E1. }
  destruct ((194 <=? b0) && (b0 <=? 223)) eqn:E2.
  { rewrite (step_lead2 _ _ E2).
    destruct rest as [|b1 r1].
    { eexists. apply step_nil_needed. }
    destruct ((128 <=? b1) && (b1 <=? 191)) eqn:C1.
    - rewrite (step_cont_ok _ _ _ _ _ _ _ C1). cbn [Nat.eqb]. reflexivity.
    - apply step_cont_bad. exact C1. }
  destruct ((224 <=? b0) && (b0 <=? 239)) eqn:E3.
  { rewrite (step_lead3 _ _ E3).
    destruct rest as [|b1 r1].
    { eexists. apply step_nil_needed. }
    destruct r1 as [|b2 r2].
    { destruct (((if b0 =? 224 then 160 else 128) <=? b1) && (b1 <=? (if b0 =? 237 then 159 else 191))) eqn:C1.
      - rewrite (step_cont_ok _ _ _ _ _ _ _ C1). cbn [Nat.eqb]. eexists. apply step_nil_needed.
      - apply step_cont_bad. exact C1. }
    destruct (((if b0 =? 224 then 160 else 128) <=? b1) && (b1 <=? (if b0 =? 237 then 159 else 191))) eqn:C1.
    - rewrite (step_cont_ok _ _ _ _ _ _ _ C1). cbn [Nat.eqb andb].
      destruct ((128 <=? b2) && (b2 <=? 191)) eqn:C2.
      + rewrite (step_cont_ok _ _ _ _ _ _ _ C2). cbn [Nat.eqb].
        f_equal. f_equal. lia.
      + apply step_cont_bad. exact C2.
    - cbn [andb]. apply step_cont_bad. exact C1. }
  destruct ((240 <=? b0) && (b0 <=? 244)) eqn:E4.
  { rewrite (step_lead4 _ _ E4).
    destruct rest as [|b1 r1].
    { eexists. apply step_nil_needed. }
    destruct (((if b0 =? 240 then 144 else 128) <=? b1) && (b1 <=? (if b0 =? 244 then 143 else 191))) eqn:C1.
    2:{ assert (G : exists tl, utf8_decode_items (b1 :: r1) (b0 - 240) 0 3
                       (if b0 =? 240 then 144 else 128) (if b0 =? 244 then 143 else 191) = DErr :: tl)
          by (apply step_cont_bad; exact C1).
        destruct r1 as [|b2 [|b3 r3]]; exact G. }
    rewrite (step_cont_ok _ _ _ _ _ _ _ C1). cbn [Nat.eqb].
    destruct r1 as [|b2 r2].
    { eexists. apply step_nil_needed. }
    destruct ((128 <=? b2) && (b2 <=? 191)) eqn:C2.
    2:{ assert (G : exists tl, utf8_decode_items (b2 :: r2) ((b0 - 240) * 64 + (b1 - 128)) 1 3 128 191
                       = DErr :: tl)
          by (apply step_cont_bad; exact C2).
        destruct r2 as [|b3 r3]; exact G. }
    rewrite (step_cont_ok _ _ _ _ _ _ _ C2). cbn [Nat.eqb].
    destruct r2 as [|b3 r3].
    { eexists. apply step_nil_needed. }
    cbn [andb].
    destruct ((128 <=? b3) && (b3 <=? 191)) eqn:C3.
    - rewrite (step_cont_ok _ _ _ _ _ _ _ C3). cbn [Nat.eqb].
      f_equal. f_equal. lia.
    - apply step_cont_bad. exact C3. }
  eexists. apply step_bad_lead; assumption.
Qed.

(* ---------- the whole string ---------- *)

Lemma items_decode s :
  (forallb is_good (decode s) = true -> items s = map (fun r => DCp (rv r)) (decode s)) /\
  (forallb is_good (decode s) = false -> existsb is_err (items s) = true).
Proof.
  apply (decode_ind (fun s d =>
    (forallb is_good d = true -> items s = map (fun r => DCp (rv r)) d) /\
    (forallb is_good d = false -> existsb is_err (items s) = true))).
  - split; [reflexivity|discriminate].
  - intros b0 rest r rest' E [IH1 IH2].
    pose proof (dec1_items b0 rest) as G. rewrite E in G.
    destruct r as [c|b].
    + rewrite G. cbn [forallb is_good andb map rv existsb is_err orb].
      split; [intros H; f_equal; apply IH1; exact H | exact IH2].
    + destruct G as [tl G]. rewrite G. cbn [forallb is_good andb existsb is_err orb].
      split; [discriminate|reflexivity].
Qed.

Lemma valid_utf8_is_good s : valid_utf8 s = forallb is_good (decode s).
Proof. reflexivity. Qed.

Lemma without_bom_items s : utf8_decode_without_bom s = map item_val (items s).
Proof. reflexivity. Qed.

Lemma has_error_items s : utf8_decode_has_error s = existsb is_err (items s).
Proof. reflexivity. Qed.

(* ---------- T1 ---------- *)
Theorem whatwg_items_valid : forall s, valid_utf8 s = true ->
  utf8_decode_strict_items s = map DCp (runes s).
Proof.
  intros s H. rewrite valid_utf8_is_good in H. rewrite items_strict.
  rewrite (proj1 (items_decode s) H). unfold runes. rewrite map_map. reflexivity.
Qed.
Print Assumptions whatwg_items_valid.

Theorem whatwg_decode_valid : forall s, valid_utf8 s = true -> utf8_decode_without_bom s = runes s.
Proof.
  intros s H. unfold utf8_decode_without_bom. rewrite (whatwg_items_valid s H).
  rewrite map_map. apply map_id.
Qed.
Print Assumptions whatwg_decode_valid.

Theorem whatwg_decode_valid_no_error : forall s, valid_utf8 s = true -> utf8_decode_has_error s = false.
Proof.
  intros s H. unfold utf8_decode_has_error. rewrite (whatwg_items_valid s H).
  induction (runes s) as [|c l IH]; [reflexivity|]. cbn [map existsb orb]. exact IH.
Qed.
Print Assumptions whatwg_decode_valid_no_error.

Example whatwg_decode_valid_ex :
  valid_utf8 [65; 195; 169; 226; 130; 172; 240; 159; 152; 128; 37] = true /\
  utf8_decode_without_bom [65; 195; 169; 226; 130; 172; 240; 159; 152; 128; 37] = [65; 233; 8364; 128512; 37] /\
  runes [65; 195; 169; 226; 130; 172; 240; 159; 152; 128; 37] = [65; 233; 8364; 128512; 37] /\
  utf8_decode_has_error [65; 195; 169; 226; 130; 172; 240; 159; 152; 128; 37] = false.
Proof. vm_compute. repeat split; reflexivity. Qed.

(* ---------- T2 ---------- *)
Theorem whatwg_decode_invalid_has_error : forall s, valid_utf8 s = false -> utf8_decode_has_error s = true.
Proof.
  intros s H. rewrite valid_utf8_is_good in H. rewrite has_error_items.
  apply (proj2 (items_decode s) H).
Qed.
Print Assumptions whatwg_decode_invalid_has_error.

Theorem whatwg_decode_invalid : forall s, valid_utf8 s = false -> In 65533 (utf8_decode_without_bom s).
Proof.
  intros s H. apply whatwg_decode_invalid_has_error in H. rewrite has_error_items in H.
  apply existsb_exists in H. destruct H as [i [Hin Hi]].
  destruct i as [c|]; [discriminate|].
  rewrite without_bom_items. change 65533 with (item_val DErr). apply in_map. exact Hin.
Qed.
Print Assumptions whatwg_decode_invalid.

(* the error flag of the WHATWG decoder is exactly the negation of Go's utf8.ValidString *)
Theorem whatwg_has_error_iff_invalid : forall s, utf8_decode_has_error s = negb (valid_utf8 s).
Proof.
  intros s. destruct (valid_utf8 s) eqn:E.
  - apply whatwg_decode_valid_no_error. exact E.
  - apply whatwg_decode_invalid_has_error. exact E.
Qed.
Print Assumptions whatwg_has_error_iff_invalid.

Example whatwg_decode_invalid_ex :
  valid_utf8 [37; 226; 130; 65] = false /\
  utf8_decode_has_error [37; 226; 130; 65] = true /\
  utf8_decode_without_bom [37; 226; 130; 65] = [37; 65533; 65].
Proof. vm_compute. repeat split; reflexivity. Qed.

(* the converse of whatwg_decode_invalid is false: U+FFFD has a valid encoding *)
Lemma whatwg_fffd_of_valid_input :
  exists s, valid_utf8 s = true /\ In 65533 (utf8_decode_without_bom s) /\ utf8_decode_has_error s = false.
Proof. exists [239; 191; 189]. vm_compute. repeat split. left. reflexivity. Qed.

(* ---------- T3 ---------- *)
Corollary whatwg_decode_encode_valid : forall s, valid_utf8 s = true ->
  flat_map utf8_enc (utf8_decode_without_bom s) = s.
Proof.
  intros s H. rewrite (whatwg_decode_valid s H). apply (to_valid_of_valid s H).
Qed.
Print Assumptions whatwg_decode_encode_valid.

Example whatwg_decode_encode_valid_ex :
  valid_utf8 [65; 195; 169; 226; 130; 172; 240; 159; 152; 128] = true /\
  flat_map utf8_enc (utf8_decode_without_bom [65; 195; 169; 226; 130; 172; 240; 159; 152; 128])
  = [65; 195; 169; 226; 130; 172; 240; 159; 152; 128].
Proof. vm_compute. split; reflexivity. Qed.

(* on invalid input the round trip fails (the premise of T3 is needed) *)
Lemma whatwg_decode_encode_invalid_refuted :
  exists s, flat_map utf8_enc (utf8_decode_without_bom s) <> s.
Proof. exists [255]. vm_compute. discriminate. Qed.

(* ---------- T4: the two decoders on concrete inputs ---------- *)
Example ex_truncated3_whatwg : utf8_decode_without_bom [226; 130; 65] = [65533; 65].
Proof. vm_compute. reflexivity. Qed.
Example ex_truncated3_go : runes [226; 130; 65] = [65533; 65533; 65].
Proof. vm_compute. reflexivity. Qed.

Example ex_ff_whatwg : utf8_decode_without_bom [255] = [65533].
Proof. vm_compute. reflexivity. Qed.
Example ex_ff_go : runes [255] = [65533].
Proof. vm_compute. reflexivity. Qed.

Example ex_truncated4_whatwg : utf8_decode_without_bom [240; 159; 152; 9; 128] = [65533; 9; 65533].
Proof. vm_compute. reflexivity. Qed.
Example ex_truncated4_go : runes [240; 159; 152; 9; 128] = [65533; 65533; 65533; 9; 65533].
Proof. vm_compute. reflexivity. Qed.

Example ex_valid_mixed :
  utf8_decode_without_bom [104; 195; 169; 47; 226; 130; 172; 63; 240; 159; 152; 128; 239; 191; 189]
    = [104; 233; 47; 8364; 63; 128512; 65533] /\
  runes [104; 195; 169; 47; 226; 130; 172; 63; 240; 159; 152; 128; 239; 191; 189]
    = [104; 233; 47; 8364; 63; 128512; 65533].
Proof. vm_compute. split; reflexivity. Qed.

(* the premise of T1 is needed *)
Lemma whatwg_vs_go_differ : exists s, utf8_decode_without_bom s <> runes s.
Proof. exists [226; 130; 65]. vm_compute. discriminate. Qed.

(* ... although the two decoders agree on some invalid inputs *)
Lemma whatwg_vs_go_agree_on_some_invalid :
  exists s, valid_utf8 s = false /\ utf8_decode_without_bom s = runes s.
Proof. exists [255]. vm_compute. split; reflexivity. Qed.
